#!/bin/sh
# applyfix.sh <diff file> <commit subject (without "fix: ")>: applies a proposed fix to /repo as one unguarded commit
# after checking that the repository builds and its test suite still passes.
set -e
d=$1; msg=$2
cd /repo
git diff --quiet || { echo "/repo has uncommitted changes"; exit 1; }
git apply --check "$d"
git apply "$d"
if go build ./... && go test -vet=off -count=1 ./... >/tmp/applyfix.log 2>&1; then
  body=$(sed -n '1,/^diff --git/p' "$d" | grep -v '^diff --git' || true)
  git commit -q -a -m "fix: $msg

$body"
  git log --oneline | head -1
else
  tail -20 /tmp/applyfix.log; git checkout -- .; echo "NOT APPLIED"; exit 1
fi
