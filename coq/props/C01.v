(** C01 — looped output is one gap-free, wall-clock-anchored media timeline.
    Only statements; proofs are [exact <lemma>] (theories/TimelineProofs.v).
    [S r n] / [E r n] are start / end of segment [n] counted from availabilityStartTime:
    floor(n/N)*loopDuration + VoD start / end of segment (n mod N). *)
From Verif Require Import GoSem Timeline TimelineProofs LiveSeg LiveSegProofs.
From VerifGen Require Consts.

(** Segment n+1 begins exactly where segment n ends, also across every loop wrap. *)
Theorem C01_contiguous : forall r loopMS, wf r loopMS -> forall n, 0 <= n -> S r (n + 1) = E r n.
Proof. exact S_E_contiguous. Qed.
Print Assumptions C01_contiguous.

(** A request by number for index n gets VoD segment (n mod N), decode time S n, duration
    E n - S n and its own number; the only other outcomes are the timing ones (C04). *)
Theorem C01_number : forall r loopMS, wf r loopMS -> forall c n now, 0 <= n ->
  segMetaFromNr r loopMS c (startNr c + n) now =
  timed (checkTime (E r n + startS c * ts r) (ts r) now (tsbdS c) (ato c))
        (TOk {| origTime := st (segAt r (n mod nsegs r)); newTime := u64 (S r n);
                origNr := snr (segAt r (n mod nsegs r)); newNr := startNr c + n;
                origDur := u32 (sdur (segAt r (n mod nsegs r)));
                newDur := u32 (sdur (segAt r (n mod nsegs r))); mtimescale := u32 (ts r) |}).
Proof. exact segMetaFromNr_spec. Qed.
Print Assumptions C01_number.

(** The URL number reaches findSegMetaFromNr unchanged (uint32 conversion, startNumber guard). *)
Theorem C01_lookup_number : forall r loopMS c n now,
  0 <= n -> 0 <= startNr c -> startNr c + n < two32 ->
  lookup r loopMS c ByNumber (startNr c + n) now = segMetaFromNr r loopMS c (startNr c + n) now.
Proof. exact lookup_number. Qed.
Print Assumptions C01_lookup_number.

(** $Time$ addressing with t = S n gives the same segment as $Number$ addressing with startNumber+n
    (all fields, and the same too-early / gone outcome). *)
Theorem C01_time_eq_number : forall r loopMS c n now,
  wf r loopMS -> 0 <= n -> 0 <= startNr c -> startNr c + n < two32 -> S r n < two64 ->
  segMetaFromTime r loopMS c (S r n) now = segMetaFromNr r loopMS c (startNr c + n) now.
Proof. exact time_eq_number. Qed.
Print Assumptions C01_time_eq_number.

(** No phantom segments: a time that is answered is the start of some segment of the loop. *)
Theorem C01_time_exact : forall r loopMS, wf r loopMS -> forall c t now m, 0 <= t ->
  segMetaFromTime r loopMS c t now = TOk m -> exists n, 0 <= n /\ t = S r n.
Proof. exact segMetaFromTime_exact. Qed.
Print Assumptions C01_time_exact.

(** TTML timestamps: formatting and parsing are inverse, a shifted timestamp is the old one plus
    the shift, and the shift in milliseconds is exactly the decode-time shift of q whole loops. *)
Theorem C01_ttml_roundtrip : forall q d, 0 <= parseTS q -> 0 <= d -> parseTS (shiftTS q d) = parseTS q + d.
Proof. exact shiftTS_ok. Qed.
Print Assumptions C01_ttml_roundtrip.

Theorem C01_ttml_shift : forall r loopMS q, wf r loopMS -> 0 <= q ->
  ttmlShiftMS (q * repDuration r) (ts r) = q * loopMS.
Proof. exact ttml_shift_loops. Qed.
Print Assumptions C01_ttml_shift.

(** The rewrite of the VoD segment (genLiveSegment): every fragment carries the new sequence number,
    its samples unchanged, its decode time moved by the one shift that puts the first fragment at
    the requested time (so fragments stay contiguous), and a trun data offset that still addresses
    the first payload byte - also when the tfdt box grows because the time needs 64 bits. *)
Theorem C01_rewrite : forall newNr newTime f0 fs out,
  0 <= newTime < two64 -> f_tfdt f0 <= newTime ->
  Forall (fun f => 0 <= f_tfdt f /\ f_tfdt f + (newTime - f_tfdt f0) < two64 /\ f_tfdt f0 <= f_tfdt f) (f0 :: fs) ->
  Forall offset_ok (f0 :: fs) ->
  rewrite_seg newNr newTime (f0 :: fs) = Ok out ->
  map f_seq out = map (fun _ => newNr) (f0 :: fs) /\
  map f_samples out = map f_samples (f0 :: fs) /\
  map f_tfdt out = map (fun f => f_tfdt f + (newTime - f_tfdt f0)) (f0 :: fs) /\
  Forall offset_ok out.
Proof. exact rewrite_seg_spec. Qed.
Print Assumptions C01_rewrite.

Theorem C01_rewrite_first : forall newNr newTime f0 fs out,
  0 <= f_tfdt f0 <= newTime -> newTime < two64 ->
  rewrite_seg newNr newTime (f0 :: fs) = Ok out -> exists g gs, out = g :: gs /\ f_tfdt g = newTime.
Proof. exact rewrite_seg_first. Qed.
Print Assumptions C01_rewrite_first.

(** Constants of the Go source the model depends on (regenerated from /repo on every run). *)
Theorem C01_consts : Consts.app_defaultStartNr = 0 /\ Consts.app_defaultAvailabilityStartTimeS = 0.
Proof. split; reflexivity. Qed.

(** Non-vacuity: the table of testpic_2s/V300 is well formed, and the model crosses a wrap. *)
Definition ex_rep : rep :=
  {| segs := [ {| st := 0; en := 180000; snr := 1 |}; {| st := 180000; en := 360000; snr := 2 |};
               {| st := 360000; en := 540000; snr := 3 |}; {| st := 540000; en := 720000; snr := 4 |} ];
     ts := 90000 |}.
Example C01_example :
  wf ex_rep 8000 /\
  map (fun n => (S ex_rep n, E ex_rep n)) [3; 4; 8] = [(540000, 720000); (720000, 900000); (1440000, 1620000)] /\
  segMetaFromNr ex_rep 8000 {| startS := 0; startNr := 7; tsbdS := 60; ato := Some 0 |} (7 + 4) 10500
  = TOk {| origTime := 0; newTime := 720000; origNr := 1; newNr := 11; origDur := 180000; newDur := 180000; mtimescale := 90000 |}.
Proof.
  split; [|split; vm_compute; reflexivity].
  constructor; cbn; try lia; try discriminate; repeat constructor; cbn; lia.
Qed.
