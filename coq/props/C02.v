(** C02 — the live MPD and the segment server agree on what is available.
    Only statements; proofs are [exact <lemma>] (theories/WindowProofs.v).

    Spec (theories/Window.v).  [S r n] / [E r n]: start / end of segment [n] of the looped timeline
    in media ticks since availabilityStartTime (Timeline.v).
      [lastFin r t]                = index of the newest segment with [E r n <= t] (-1: none)
      [tick r c atoMS x]           = floor((x - start + atoMS) ms * timescale / 1000)
      [window_last r c atoMS now]  = lastFin (tick now)
      [window_first r c atoMS now tsbdMS] = max 0 (lastFin (tick (max (now - tsbdMS) start)))
      [window_td r first last]     = [(S k, E k - S k) | k = first .. last]
    Model of the code (theories/Timeline.v): [calcWrapTimes], [generateTimelineEntries] (MPD side),
    [lookup] = the segment request by $Number$ / $Time$ with [checkTime] (server side). *)
From Verif Require Import GoSem Timeline TimelineProofs Window WindowProofs Template TemplateProofs.
From VerifGen Require Consts.

(** Constants of the Go source the model depends on (regenerated from /repo on every run). *)
Theorem C02_consts : Consts.app_defaultStartNr = 0 /\ Consts.app_timeShiftBufferDepthMarginS = tsbdMarginS.
Proof. split; reflexivity. Qed.

(** [lastFin] is what its name says: the newest segment that has ended at media time [t]. *)
Theorem C02_lastFin_spec : forall r loopMS, wf r loopMS -> forall t, 0 <= t ->
  -1 <= lastFin r t /\ (0 <= lastFin r t -> E r (lastFin r t) <= t) /\ t < E r (lastFin r t + 1).
Proof. exact lastFin_spec. Qed.
Print Assumptions C02_lastFin_spec.

Theorem C02_lastFin_ge_iff : forall r loopMS, wf r loopMS -> forall t m, 0 <= m ->
  (E r m <= t <-> m <= lastFin r t).
Proof. exact lastFin_ge_iff. Qed.
Print Assumptions C02_lastFin_ge_iff.

(** The wraps-- / relIdx = N-1 juggling of generateTimelineEntries computes [lastFin]:
    [wraps * repDuration] ticks are exactly [wraps * loopMS] ms.  Every offset [0 <= atoMS], also one
    that carries the relative time beyond the end of the table (repair 11d2203). *)
Theorem C02_edgeIdx_spec : forall r loopMS, wf r loopMS -> forall wraps relMS atoMS,
  0 <= relMS -> 0 <= atoMS ->
  let '(w, i) := edgeIdx r wraps relMS atoMS in
  0 <= i < nsegs r /\
  w * nsegs r + i = lastFin r (wraps * repDuration r + Z.quot ((relMS + atoMS) * ts r) 1000).
Proof. exact edgeIdx_spec. Qed.
Print Assumptions C02_edgeIdx_spec.

(** The SegmentTimeline of the MPD is exactly the window [first, last] of the looped timeline
    (start number, every (t, d) after expansion of the repeat counts, and the last-segment
    information used for publishTime); it is empty iff no segment has ended. *)
Theorem C02_timeline_is_window : forall r loopMS, wf r loopMS -> forall c now tsbdMS atoMS,
  startS c * 1000 <= now -> 0 <= tsbdMS -> 0 <= atoMS ->
  let se := generateTimelineEntries r (calcWrapTimes loopMS c now tsbdMS) atoMS in
  let last := window_last r c atoMS now in
  let first := window_first r c atoMS now tsbdMS in
  (last < 0 -> se_startNr se = -1 /\ se_entries se = [] /\ se_lsi_nr se = -1) /\
  (0 <= last ->
     first <= last /\ se_startNr se = first /\
     expand (se_entries se) = window_td r first last /\
     se_lsi_nr se = last /\ se_lsi_start se = S r last /\ se_lsi_dur se = E r last - S r last).
Proof. exact timeline_is_window. Qed.
Print Assumptions C02_timeline_is_window.

(** The listed (t, d) pairs have neither gap nor overlap (also across loop wraps). *)
Theorem C02_window_contiguous : forall r loopMS, wf r loopMS -> forall first k,
  0 <= first -> td_contiguous (map (td r) (seqZ first k)).
Proof. exact window_td_contiguous. Qed.
Print Assumptions C02_window_contiguous.

(** Every segment [k] of the window is answered 200 by the server model at the same instant, by
    $Time$ and by $Number$, with the declared time, duration and number.
    Visible hypothesis for the first entry only: the segment after it is not longer than the
    margin ([tsbdMarginS] = 10 s) the server adds to the time-shift buffer - see
    [C02_first_entry_gone] below. *)
Theorem C02_listed_served_time : forall r loopMS, wf r loopMS -> forall c atoMS now k,
  startS c * 1000 <= now -> 0 <= tsbdS c -> ato c = Some atoMS -> 0 <= atoMS ->
  let first := window_first r c atoMS now (1000 * tsbdS c) in
  let last := window_last r c atoMS now in
  first <= k <= last ->
  (first < k \/ E r (first + 1) - S r (first + 1) <= tsbdMarginS * ts r) ->
  S r k < two64 -> 0 <= startNr c -> startNr c + k < two32 ->
  exists m, lookup r loopMS c ByTime (S r k) now = TOk m /\
            newTime m = S r k /\ newDur m = u32 (E r k - S r k) /\ newNr m = startNr c + k.
Proof. exact listed_served_time. Qed.
Print Assumptions C02_listed_served_time.

Theorem C02_listed_served_number : forall r loopMS, wf r loopMS -> forall c atoMS now k,
  startS c * 1000 <= now -> 0 <= tsbdS c -> ato c = Some atoMS -> 0 <= atoMS ->
  let first := window_first r c atoMS now (1000 * tsbdS c) in
  let last := window_last r c atoMS now in
  first <= k <= last ->
  (first < k \/ E r (first + 1) - S r (first + 1) <= tsbdMarginS * ts r) ->
  S r k < two64 -> 0 <= startNr c -> startNr c + k < two32 ->
  exists m, lookup r loopMS c ByNumber (startNr c + k) now = TOk m /\
            newTime m = S r k /\ newDur m = u32 (E r k - S r k) /\ newNr m = startNr c + k.
Proof. exact listed_served_number. Qed.
Print Assumptions C02_listed_served_number.

(** The segment just after the live edge is refused as too early. *)
Theorem C02_next_too_early_time : forall r loopMS, wf r loopMS -> forall c atoMS now,
  startS c * 1000 <= now -> ato c = Some atoMS -> 0 <= atoMS ->
  let last := window_last r c atoMS now in
  S r (last + 1) < two64 ->
  exists ms, lookup r loopMS c ByTime (S r (last + 1)) now = TTooEarly ms.
Proof. exact next_too_early_time. Qed.
Print Assumptions C02_next_too_early_time.

Theorem C02_next_too_early_number : forall r loopMS, wf r loopMS -> forall c atoMS now,
  startS c * 1000 <= now -> ato c = Some atoMS -> 0 <= atoMS ->
  let last := window_last r c atoMS now in
  0 <= startNr c -> startNr c + (last + 1) < two32 ->
  exists ms, lookup r loopMS c ByNumber (startNr c + (last + 1)) now = TTooEarly ms.
Proof. exact next_too_early_number. Qed.
Print Assumptions C02_next_too_early_number.

(** End to end, without the spec functions: the [j]-th (t, d) pair of the expanded timeline of the
    MPD model is served by the server model, by time [t] and by number startNumber + j. *)
Theorem C02_mpd_listed_served : forall r loopMS, wf r loopMS -> forall c atoMS now j t d,
  startS c * 1000 <= now -> 0 <= tsbdS c -> ato c = Some atoMS -> 0 <= atoMS ->
  let se := generateTimelineEntries r (calcWrapTimes loopMS c now (1000 * tsbdS c)) atoMS in
  nth_error (expand (se_entries se)) j = Some (t, d) ->
  ((0 < j)%nat \/ E r (se_startNr se + 1) - S r (se_startNr se + 1) <= tsbdMarginS * ts r) ->
  t < two64 -> 0 <= startNr c -> startNr c + (se_startNr se + Z.of_nat j) < two32 ->
  (exists m, lookup r loopMS c ByTime t now = TOk m /\
             newTime m = t /\ newDur m = u32 d /\ newNr m = startNr c + (se_startNr se + Z.of_nat j)) /\
  (exists m, lookup r loopMS c ByNumber (startNr c + (se_startNr se + Z.of_nat j)) now = TOk m /\
             newTime m = t /\ newDur m = u32 d /\ newNr m = startNr c + (se_startNr se + Z.of_nat j)).
Proof. exact mpd_listed_served. Qed.
Print Assumptions C02_mpd_listed_served.

Theorem C02_mpd_next_too_early : forall r loopMS, wf r loopMS -> forall c atoMS now tsbdMS,
  startS c * 1000 <= now -> 0 <= tsbdMS -> ato c = Some atoMS -> 0 <= atoMS ->
  let se := generateTimelineEntries r (calcWrapTimes loopMS c now tsbdMS) atoMS in
  0 <= se_startNr se ->
  se_lsi_start se + se_lsi_dur se < two64 -> 0 <= startNr c -> startNr c + (se_lsi_nr se + 1) < two32 ->
  (exists ms, lookup r loopMS c ByTime (se_lsi_start se + se_lsi_dur se) now = TTooEarly ms) /\
  (exists ms, lookup r loopMS c ByNumber (startNr c + (se_lsi_nr se + 1)) now = TTooEarly ms).
Proof. exact mpd_next_too_early. Qed.
Print Assumptions C02_mpd_next_too_early.

(** Why the hypothesis on the first entry is there (finding): table 4 s, 30 s, 4 s, tsbd 20 s,
    now = 34.5 s.  The MPD lists segment 0 (ended at 4 s: the newest one ended at the window start
    14.5 s) although the server keeps it only until 4 + 20 + 10 = 34 s: 410 Gone.  The listed
    entry itself is short; the segment after it is longer than the 10 s margin. *)
Theorem C02_first_entry_gone :
  exists r loopMS c atoMS now,
    wf r loopMS /\ startS c * 1000 <= now /\ 0 <= tsbdS c /\ ato c = Some atoMS /\ 0 <= atoMS /\
    atoMS * ts r <= 1000 * en (segAt r 0) /\
    let se := generateTimelineEntries r (calcWrapTimes loopMS c now (1000 * tsbdS c)) atoMS in
    let first := window_first r c atoMS now (1000 * tsbdS c) in
    se_startNr se = first /\ first <= window_last r c atoMS now /\
    hd_error (expand (se_entries se)) = Some (S r first, E r first - S r first) /\
    E r first - S r first <= tsbdMarginS * ts r /\
    lookup r loopMS c ByTime (S r first) now = TGone /\
    lookup r loopMS c ByNumber (startNr c + first) now = TGone.
Proof. exact first_gone_witness. Qed.
Print Assumptions C02_first_entry_gone.

(** An availabilityTimeOffset longer than the first segment (former finding, repaired in /repo by
    11d2203): 4 x 2 s loop, offset 2.5 s, now = 7.9 s.  Segment 4 is available from 7.5 s on; the
    timeline ends with it, it is served, and segment 5 is too early (for 1.6 s more). *)
Example C02_big_ato_example :
  wf ato_rep 8000 /\ 1000 * en (segAt ato_rep 0) < 2500 * ts ato_rep /\
  generateTimelineEntries ato_rep (calcWrapTimes 8000 ato_cfg 7900 60000) 2500
  = {| se_startNr := 0; se_entries := [{| e_t := 0; e_d := 180000; e_r := 4 |}];
       se_lsi_nr := 4; se_lsi_start := 720000; se_lsi_dur := 180000 |} /\
  window_last ato_rep ato_cfg 2500 7900 = 4 /\
  lookup ato_rep 8000 ato_cfg ByTime 720000 7900
  = TOk {| origTime := 0; newTime := 720000; origNr := 1; newNr := 4;
           origDur := 180000; newDur := 180000; mtimescale := 90000 |} /\
  lookup ato_rep 8000 ato_cfg ByTime 900000 7900 = TTooEarly 1600 /\
  lookup ato_rep 8000 ato_cfg ByNumber 5 7900 = TTooEarly 1600.
Proof. exact big_ato_example. Qed.
Print Assumptions C02_big_ato_example.

(** ** $Number$ template (theories/Template.v: adjustAdaptationSetForSegmentNumber).  The MPD lists nothing; a
    client derives number [k] from startNumber, @duration ([templDur]) / @timescale,
    availabilityStartTime, availabilityTimeOffset and timeShiftBufferDepth:
      [implEnd r c k]   = (k - startNumber + 1) * @duration   (implied end, ticks)
      [implAvail r c atoMS k] = (start + implEnd / timescale - ato) in ms * timescale
      [implied r c atoMS k now] = 425 before [implAvail], 410 after [implAvail] + tsbd + margin,
                                  else 200 with time (k - startNumber) * @duration, @duration, k. *)

(** With one duration [d] for all segments the template describes the looped timeline exactly. *)
Theorem C02_template_timeline : forall r loopMS d, wf r loopMS -> const_dur r d -> d < two32 ->
  templDur r = d /\ forall n, 0 <= n -> S r n = n * templDur r /\ E r n = (n + 1) * templDur r.
Proof. exact template_timeline. Qed.
Print Assumptions C02_template_timeline.

(** ... and the answer of the server to every number from startNumber on is the implied one, at
    every instant: the implied set is the served set, with the implied time, duration, number. *)
Theorem C02_template_exact : forall r loopMS c d atoMS k now,
  wf r loopMS -> const_dur r d -> d < two32 -> ato c = Some atoMS -> 0 <= atoMS ->
  0 <= startNr c <= k -> k < two32 ->
  lookup r loopMS c ByNumber k now = implied r c atoMS k now.
Proof. exact template_exact. Qed.
Print Assumptions C02_template_exact.

Theorem C02_template_served_iff : forall r loopMS c d atoMS k now,
  wf r loopMS -> const_dur r d -> d < two32 -> ato c = Some atoMS -> 0 <= atoMS ->
  0 <= startNr c <= k -> k < two32 ->
  let av := implAvail r c atoMS k in
  ((exists m, lookup r loopMS c ByNumber k now = TOk m) <->
     av <= now * ts r <= av + (tsbdS c + tsbdMarginS) * 1000 * ts r) /\
  ((exists ms, lookup r loopMS c ByNumber k now = TTooEarly ms) <-> now * ts r < av) /\
  (lookup r loopMS c ByNumber k now = TGone <->
     av <= now * ts r /\ av + (tsbdS c + tsbdMarginS) * 1000 * ts r < now * ts r).
Proof. exact template_served_iff. Qed.
Print Assumptions C02_template_served_iff.

(** Varying durations (finding number-template-mean-duration-truncated): 7 segments in 12 s at
    timescale 12800, @duration = 153600 / 7 truncated to 21942.  For number 2000000 the implied end
    is more than 100 s before the real one, and at the implied availability instant the server
    still answers 425 with more than 100 s to go. *)
Theorem C02_template_drift_refuted :
  exists r loopMS c atoMS n now,
    wf r loopMS /\ ato c = Some atoMS /\ 0 <= atoMS /\ 0 <= n /\ 0 <= startNr c /\ startNr c + n < two32 /\
    let k := startNr c + n in
    100000 * ts r < (E r n - implEnd r c k) * 1000 /\
    implAvail r c atoMS k <= now * ts r /\
    exists ms, lookup r loopMS c ByNumber k now = TTooEarly ms /\ 100000 < ms.
Proof. exact template_drift_witness. Qed.
Print Assumptions C02_template_drift_refuted.

(** Non-vacuity of the template theorems: 4 x 2 s loop, start 30 s, startNumber 7, tsbd 10 s,
    availabilityTimeOffset 0.5 s.  Number 41 (index 34) is implied available from
    30 + 70 - 0.5 = 99.5 s until 119.5 s. *)
Example C02_template_example :
  let r := ato_rep in let c := {| startS := 30; startNr := 7; tsbdS := 10; ato := Some 500 |} in
  wf r 8000 /\ const_dur r 180000 /\ templDur r = 180000 /\
  implAvail r c 500 41 = 99500 * 90000 /\
  map (fun now => implied r c 500 41 now) [99499; 99500; 119500; 119501]
  = [TTooEarly 1;
     TOk {| origTime := 360000; newTime := 6120000; origNr := 3; newNr := 41;
            origDur := 180000; newDur := 180000; mtimescale := 90000 |};
     TOk {| origTime := 360000; newTime := 6120000; origNr := 3; newNr := 41;
            origDur := 180000; newDur := 180000; mtimescale := 90000 |};
     TGone] /\
  map (fun now => lookup r 8000 c ByNumber 41 now) [99499; 99500; 119500; 119501]
  = map (fun now => implied r c 500 41 now) [99499; 99500; 119500; 119501].
Proof.
  cbv zeta. split; [exact ato_rep_wf|]. split; [repeat constructor|]. vm_compute. repeat split; reflexivity.
Qed.

(** Non-vacuity: 4 x 2 s loop (testpic_2s/V300), start 30 s, startNumber 7, tsbd 10 s,
    availabilityTimeOffset 0.5 s, now = 100 s: segments 29..34 are listed, all served with their
    (t, d, number), number 35 is too early; right after the start the list is empty until the
    first segment has ended (less the offset). *)
Definition ex_rep : rep :=
  {| segs := [ {| st := 0; en := 180000; snr := 1 |}; {| st := 180000; en := 360000; snr := 2 |};
               {| st := 360000; en := 540000; snr := 3 |}; {| st := 540000; en := 720000; snr := 4 |} ];
     ts := 90000 |}.
Definition ex_cfg : tcfg := {| startS := 30; startNr := 7; tsbdS := 10; ato := Some 500 |}.
Example C02_example :
  wf ex_rep 8000 /\
  (window_first ex_rep ex_cfg 500 100000 10000, window_last ex_rep ex_cfg 500 100000) = (29, 34) /\
  generateTimelineEntries ex_rep (calcWrapTimes 8000 ex_cfg 100000 10000) 500
  = {| se_startNr := 29; se_entries := [{| e_t := 5220000; e_d := 180000; e_r := 5 |}];
       se_lsi_nr := 34; se_lsi_start := 6120000; se_lsi_dur := 180000 |} /\
  window_td ex_rep 29 34 = [(5220000, 180000); (5400000, 180000); (5580000, 180000);
                            (5760000, 180000); (5940000, 180000); (6120000, 180000)] /\
  lookup ex_rep 8000 ex_cfg ByTime 6120000 100000
  = TOk {| origTime := 360000; newTime := 6120000; origNr := 3; newNr := 41;
           origDur := 180000; newDur := 180000; mtimescale := 90000 |} /\
  lookup ex_rep 8000 ex_cfg ByNumber (7 + 35) 100000 = TTooEarly 1500 /\
  se_startNr (generateTimelineEntries ex_rep (calcWrapTimes 8000 ex_cfg 31499 10000) 500) = -1 /\
  se_startNr (generateTimelineEntries ex_rep (calcWrapTimes 8000 ex_cfg 31500 10000) 500) = 0.
Proof.
  split; [|vm_compute; repeat split; reflexivity].
  constructor; cbn; try lia; try discriminate; repeat constructor; cbn; lia.
Qed.
