(** C02 — the live MPD and the segment server agree on what is available.
    Only statements; proofs are [exact <lemma>] (theories/WindowProofs.v). *)
From Verif Require Import GoSem Timeline TimelineProofs.
From VerifGen Require Consts.

(** Constants of the Go source the model depends on (regenerated from /repo on every run). *)
Theorem C02_consts : Consts.app_defaultStartNr = 0 /\ Consts.app_timeShiftBufferDepthMarginS = tsbdMarginS.
Proof. split; reflexivity. Qed.
