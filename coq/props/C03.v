(** C03 — audio is re-segmented to follow video boundaries without loss or duplication.
    Only statements; every proof is [exact <lemma>] (lemmas in theories/AudioProofs.v).

    Notation of the statements.
    [fb r F a t]   = [cdiv (t*a) (r*F) * F]: the exact frame boundary function (reference timescale
                     [r], frame duration [F], audio timescale [a]); [fidx r F a t = fb r F a t / F]
                     is the index of that frame boundary.
    [Timeline.S vr n], [Timeline.E vr n]: start and end of segment [n] of the looped reference
                     (video) representation [vr] (C01); [Timeline.wf vr loopMS]: admitted asset.
    [loop_start vr n]: reference time at which the loop containing segment [n] starts.
    [awf F segs]:    the VoD audio table is non-empty, starts at 0, is contiguous and every segment
                     holds [s_cnt > 0] frames of duration [F]; [tot segs] frames in all.
    [ref_pre]:       ranges of the Go types (products below 2^64, fewer than 2^32 frames) and
                     "the audio table reaches the start of the output segment".
    History: up to fix fc72486 createAudioSeg failed when the output interval started after the
    beginning of a VoD audio segment and ended before its end (finding audio-inner-interval-500);
    C03_frames then carried the hypothesis [ref_not_inner]. The model follows the repaired code and the
    hypothesis is gone; C03_inner_served is the former counter-example. *)
From Verif Require Import GoSem Audio AudioProofs.
From Verif Require Timeline TimelineProofs AudioRef AudioRefProofs.

(** C03_boundary. calcAudioTimeFromRef (product, division and comparison on 128 bits since the fix of
    finding audio-time-uint64-overflow) computes, for ALL inputs whose result fits into 64 bits, the least
    multiple of the frame duration that is at or after the reference time: a multiple of [F], at or after
    [t], less than one frame late, below every other such multiple, monotone in [t]. *)
Theorem C03_boundary : forall r F a t,
  0 < r -> 0 < F -> 0 < a -> 0 <= t -> fb r F a t < two64 ->
  calcAudioTimeFromRef t r F a = Ok (fb r F a t)
  /\ fb r F a t mod F = 0
  /\ t * a <= fb r F a t * r
  /\ fb r F a t * r - t * a < F * r
  /\ (forall m, m mod F = 0 -> t * a <= m * r -> fb r F a t <= m)
  /\ (forall t', t <= t' -> fb r F a t <= fb r F a t').
Proof. exact boundary_all. Qed.
Print Assumptions C03_boundary.

(** C03_boundary_before_fix. The function as it was (refTime*audioTimescale and the comparison in uint64)
    computed the frame boundary only while [t*a + F*r < 2^64]; beyond that range it was wrong: with a 10 MHz
    reference timescale, 1 700 000 098 s after the start, it returned 434330780672 where the frame boundary
    (and the repaired function) is 81600004704256. *)
Theorem C03_boundary_before_fix :
  (forall r F a t, 0 < r -> 0 < F -> 0 < a -> 0 <= t -> t * a + F * r < two64 ->
     calcAudioTimeFromRef_before_fix t r F a = Ok (fb r F a t)) /\
  two64 <= 17000000980000000 * 48000 /\
  calcAudioTimeFromRef_before_fix 17000000980000000 10000000 1024 48000 = Ok 434330780672 /\
  fb 10000000 1024 48000 17000000980000000 = 81600004704256 /\
  calcAudioTimeFromRef 17000000980000000 10000000 1024 48000 = Ok 81600004704256.
Proof. exact boundary_before_fix_witness. Qed.
Print Assumptions C03_boundary_before_fix.

(** C03_recipe. For a reference segment inside loop [w] of a reference loop of duration [D] the
    recipe has the frame boundaries of the segment as output interval, the same interval shifted by
    the frame boundary of the loop start as input interval, and nothing after the wrap. *)
Theorem C03_recipe : forall r F a,
  0 < r -> 0 < F -> 0 < a ->
  forall nr D w s' e',
  0 < D -> 0 <= w -> 0 <= s' -> s' <= e' -> e' <= D -> s' < D ->
  (w * D + D) * a + 2 * F * r < two64 ->
  calcAudioSegRecipe nr (w * D + s') (w * D + e') D r F a =
  Ok {| r_nr := nr; r_start := fb r F a (w * D + s'); r_end := fb r F a (w * D + e');
        r_inStart := fb r F a (w * D + s') - fb r F a (w * D);
        r_inEnd := fb r F a (w * D + e') - fb r F a (w * D); r_after := 0 |}.
Proof. exact recipe_in_wrap. Qed.
Print Assumptions C03_recipe.

(** C03_frames. The served segment for reference segment [n] of a well-formed looped reference:
    tfdt = frame boundary of the reference start, sequence number = the number passed in, and the
    frames are exactly the frames [g] in [[start/F, end/F)] of the looped source,
    [src g = min (g - (frame index of the loop start)) (last frame)]: consecutive source frames,
    restarting at frame 0 at every loop start, the last frame repeated only where the audio table is
    shorter than the video loop. Any relation between the audio grid and the video grid. *)
Theorem C03_frames : forall r F a,
  0 < r -> 0 < F -> F < two32 -> 0 < a ->
  forall vr loopMS, Timeline.wf vr loopMS ->
  forall nr segs n,
  ref_pre r F a vr segs n ->
  audio_segment nr (Timeline.S vr n) (Timeline.E vr n) (Timeline.repDuration vr) r F a segs =
  Ok {| o_tfdt := fb r F a (Timeline.S vr n); o_seq := nr;
        o_frames := map (fun g => Z.min (g - fidx r F a (loop_start vr n)) (tot segs - 1))
                        (rangeZ (fidx r F a (Timeline.S vr n)) (fidx r F a (Timeline.E vr n))) |}.
Proof. exact ref_served_frames. Qed.
Print Assumptions C03_frames.

(** C03_inner_served (formerly C03_inner_refuted). One 8 s audio segment of 375 frames against four
    2 s video segments, reference segment 1: the output interval lies strictly inside the only VoD
    audio segment; the segment is served with source frames 94..187. *)
Theorem C03_inner_served :
  Timeline.wf w_video 8000 /\
  ref_pre 90000 1024 48000 w_video w_audio8 1 /\
  audio_segment 1 (Timeline.S w_video 1) (Timeline.E w_video 1) (Timeline.repDuration w_video)
                90000 1024 48000 w_audio8
  = Ok {| o_tfdt := 96256; o_seq := 1; o_frames := rangeZ 94 188 |}.
Proof. exact (conj w_video_wf inner_served_witness). Qed.
Print Assumptions C03_inner_served.

(** C03_abut. Two consecutive segments are both served; the first starts at the frame boundary of
    its reference start, holds exactly (end - start)/F frames, (end - start) is a multiple of F, and
    the second starts exactly where the first ends; [n + 1] may be the first segment of the next loop. *)
Theorem C03_abut : forall r F a,
  0 < r -> 0 < F -> F < two32 -> 0 < a ->
  forall vr loopMS, Timeline.wf vr loopMS ->
  forall nr1 nr2 segs n,
  ref_pre r F a vr segs n -> ref_pre r F a vr segs (n + 1) ->
  exists o1 o2,
  audio_segment nr1 (Timeline.S vr n) (Timeline.E vr n) (Timeline.repDuration vr) r F a segs = Ok o1 /\
  audio_segment nr2 (Timeline.S vr (n + 1)) (Timeline.E vr (n + 1)) (Timeline.repDuration vr) r F a segs = Ok o2 /\
  o_tfdt o1 = fb r F a (Timeline.S vr n) /\
  lenZ (o_frames o1) = (fb r F a (Timeline.E vr n) - fb r F a (Timeline.S vr n)) / F /\
  (fb r F a (Timeline.E vr n) - fb r F a (Timeline.S vr n)) mod F = 0 /\
  o_tfdt o1 + lenZ (o_frames o1) * F = o_tfdt o2.
Proof. exact ref_abut. Qed.
Print Assumptions C03_abut.

(** C03_timeline. generateTimelineEntriesFromRef: the produced [<S t d r>] elements expand to exactly
    one (start, duration) pair per reference entry: (frame boundary of its start, frame boundary of
    its end - frame boundary of its start), in order -- the values C03_recipe gives the segments. *)
Theorem C03_timeline : forall r F a,
  0 < r -> 0 < F -> 0 < a ->
  forall startNr refT entries,
  0 <= startNr -> entries <> [] -> Forall (fun e => 0 <= fst e) entries -> 0 <= refT ->
  end_ref refT entries * a + F * r < two64 ->
  exists l, audio_timeline startNr refT entries r F a = Ok l
            /\ expand_s 0 l = map (image r F a) (expand_ref refT entries).
Proof. exact audio_timeline_ok. Qed.
Print Assumptions C03_timeline.

(** C03_timeline_mpd. The same for the MPD as LiveMPD builds it, under the visible hypothesis that
    the frame duration the MPD code works with ([mpd_frame_dur]: as the code is, [RepData.sampleDur()] =
    default_sample_duration of trex/tfhd, else a guess from codec family and timescale; not the measured
    constant sample duration [cdur]) is the frame duration [F] of the representation -- finding
    mpd-audio-sampledur-zero. *)
Theorem C03_timeline_mpd : forall r F a cdur dflt codec startNr refT entries,
  0 < r -> 0 < F -> 0 < a ->
  mpd_frame_dur cdur dflt codec a = F ->
  0 <= startNr -> entries <> [] -> Forall (fun e => 0 <= fst e) entries -> 0 <= refT ->
  end_ref refT entries * a + F * r < two64 ->
  exists l, mpd_audio_timeline startNr refT entries r cdur dflt codec a = Ok l
            /\ expand_s 0 l = map (image r F a) (expand_ref refT entries).
Proof. exact mpd_audio_timeline_ok. Qed.
Print Assumptions C03_timeline_mpd.

(** C03_timeline_admitted: for an admitted audio representation (non-zero constant sample duration,
    which is the frame duration [F]) the hypothesis of C03_timeline_mpd holds. *)
Theorem C03_timeline_admitted : forall cdur dflt codec a, cdur <> 0 -> mpd_frame_dur cdur dflt codec a = cdur.
Proof. exact mpd_frame_dur_const. Qed.
Print Assumptions C03_timeline_admitted.

(** C03_timeline_sampledur (formerly _refuted): 44.1 kHz AAC without default sample duration. *)
Theorem C03_timeline_sampledur :
  mpd_frame_dur 1024 0 0 44100 = 1024 /\
  mpd_audio_timeline 0 0 [(60060, 3)] 30000 1024 0 0 44100
  = Ok [ {| e_t := Some 0; e_d := 89088; e_r := 0 |}; {| e_t := None; e_d := 88064; e_r := 2 |} ].
Proof. exact timeline_sampledur_witness. Qed.
Print Assumptions C03_timeline_sampledur.

(** C03_timeline_sampledur_2048 (formerly _wrong_refuted): 2048-sample frames at 48 kHz. *)
Theorem C03_timeline_sampledur_2048 :
  mpd_frame_dur 2048 0 0 48000 = 2048 /\
  exists l, mpd_audio_timeline 0 0 [(180000, 3)] 90000 2048 0 0 48000 = Ok l /\
            expand_s 0 l = map (image 90000 2048 48000) (expand_ref 0 [(180000, 3)]).
Proof. exact timeline_sampledur_2048_witness. Qed.
Print Assumptions C03_timeline_sampledur_2048.

(** the listed pair of a reference entry (T, d) is (start, end - start) of the recipe for that segment *)
Theorem C03_timeline_recipe : forall r F a nr s e D,
  0 < r -> 0 < F -> 0 < a -> 0 < D -> 0 <= s -> s <= e -> e * a + F * r < two64 ->
  exists rc, calcAudioSegRecipe nr s e D r F a = Ok rc
             /\ r_nr rc = nr /\ r_start rc = fb r F a s /\ r_end rc = fb r F a e.
Proof. exact recipe_start_end. Qed.
Print Assumptions C03_timeline_recipe.

(** C03_request. The whole handler path for $Number$ addressing (findRefSegMeta by number =
    findSegMetaFromNr on the reference, recipe, createAudioSeg): the request for number [startNr + n]
    is too early / gone / available exactly like reference segment [n] (C01, C04), and when available
    the answer is the segment of C03_frames with sequence number [startNr + n]. *)
Theorem C03_request : forall vr loopMS, Timeline.wf vr loopMS ->
  forall c F a, 0 < F -> 0 < a ->
  forall tab n now,
  0 <= n -> 0 <= Timeline.startNr c -> Timeline.startNr c + n < two32 ->
  ref_pre (Timeline.ts vr) F a vr tab n ->
  F < two32 -> Timeline.ts vr < two64 -> Timeline.E vr n < two64 -> Timeline.repDuration vr < two64 ->
  Timeline.sdur (Timeline.segAt vr (n mod Timeline.nsegs vr)) < two32 ->
  AudioRef.audio_request vr loopMS c F a tab Timeline.ByNumber (Timeline.startNr c + n) now =
  Timeline.timed (Timeline.checkTime (Timeline.E vr n + Timeline.startS c * Timeline.ts vr) (Timeline.ts vr) now
                                     (Timeline.tsbdS c) (Timeline.ato c))
        (Timeline.TOk {| o_tfdt := fb (Timeline.ts vr) F a (Timeline.S vr n); o_seq := Timeline.startNr c + n;
                o_frames :=
                  map (fun g => Z.min (g - fidx (Timeline.ts vr) F a (loop_start vr n)) (tot tab - 1))
                      (rangeZ (fidx (Timeline.ts vr) F a (Timeline.S vr n)) (fidx (Timeline.ts vr) F a (Timeline.E vr n))) |}).
Proof. exact AudioRefProofs.audio_request_number. Qed.
Print Assumptions C03_request.

(** C03_time_eq_number. SegmentTimeline $Time$ addressing: the request for the time the audio timeline
    lists for segment [n] (C03_timeline: the frame boundary of the reference start) goes through
    findRefSegMetaFromTime, finds reference segment [n], passes the start-time check of createAudioSegment
    and is answered exactly like the request for number [startNr + n] -- provided the reference segment
    is at least one audio frame long. *)
Theorem C03_time_eq_number : forall vr loopMS, Timeline.wf vr loopMS ->
  forall c F a, 0 < F -> 0 < a ->
  forall tab n now,
  0 <= n -> 0 <= Timeline.startNr c -> Timeline.startNr c + n < two32 ->
  F * Timeline.ts vr <= (Timeline.E vr n - Timeline.S vr n) * a ->
  Timeline.ts vr < two64 -> fb (Timeline.ts vr) F a (Timeline.S vr n) * Timeline.ts vr < two64 ->
  Timeline.S vr n * a + F * Timeline.ts vr < two64 ->
  Timeline.E vr n < two63 -> Timeline.repDuration vr < two64 ->
  AudioRef.audio_request vr loopMS c F a tab Timeline.ByTime (fb (Timeline.ts vr) F a (Timeline.S vr n)) now =
  AudioRef.audio_request vr loopMS c F a tab Timeline.ByNumber (Timeline.startNr c + n) now.
Proof. exact AudioRefProofs.audio_request_time_eq_number. Qed.
Print Assumptions C03_time_eq_number.

(** C03_time_only_starts (since fix 33c7128). No other time is served: if a $Time$ request is answered
    with a segment, the requested time is the frame boundary of the start of some reference segment,
    i.e. a time the audio timeline lists. (Such a request is 404 as soon as the reference segment
    containing the time is available; before/after that it is 425/410 like that reference segment.) *)
Theorem C03_time_only_starts : forall vr loopMS, Timeline.wf vr loopMS ->
  forall c F a, 0 < F -> 0 < a ->
  forall tab t now o,
  0 <= t -> Timeline.ts vr < two64 ->
  (t * Timeline.ts vr + Timeline.repDuration vr) * a + F * Timeline.ts vr < two64 ->
  AudioRef.audio_request vr loopMS c F a tab Timeline.ByTime t now = Timeline.TOk o ->
  exists n, 0 <= n /\ t = fb (Timeline.ts vr) F a (Timeline.S vr n).
Proof. exact AudioRefProofs.audio_request_time_only_starts. Qed.
Print Assumptions C03_time_only_starts.

(** C03_time_off_grid (since fix 33c7128): a time that is no multiple of the frame duration is 404. *)
Theorem C03_time_off_grid : forall vr loopMS c F a, 0 < F ->
  forall tab t now, 0 <= t < two64 -> t mod F <> 0 ->
  AudioRef.audio_request vr loopMS c F a tab Timeline.ByTime t now = Timeline.TNotFound.
Proof. exact AudioRefProofs.audio_request_time_off_grid. Qed.
Print Assumptions C03_time_off_grid.

(** C03_short_audio_refuted: when the audio table does not reach the start of the reference segment
    ([rp_reach] of [ref_pre] fails) createAudioSeg returns an error or indexes out of range. *)
Theorem C03_short_audio_refuted :
  awf 1024 w_audio_half /\ awf 1024 w_audio_quarter /\
  audio_segment 2 (Timeline.S w_video 2) (Timeline.E w_video 2) (Timeline.repDuration w_video)
                90000 1024 48000 w_audio_half = Err "audioLeft != audioInEndAfterWrap" /\
  audio_segment 3 (Timeline.S w_video 3) (Timeline.E w_video 3) (Timeline.repDuration w_video)
                90000 1024 48000 w_audio_quarter = Panic "createAudioSeg: index out of range (rep.Segments[startNr])".
Proof. exact short_audio_refuted_witness. Qed.
Print Assumptions C03_short_audio_refuted.

(** Non-vacuity: the hypotheses of C03_frames hold for the scratch asset short3 (audio loop three
    frames shorter than the video loop), last segment of the third loop; the frames are source
    frames 282..371 followed by the last frame three more times. *)
Example C03_example :
  Timeline.wf w_video 8000 /\
  ref_pre 90000 1024 48000 w_video w_audio2short 11 /\
  audio_segment 12 (Timeline.S w_video 11) (Timeline.E w_video 11) (Timeline.repDuration w_video)
                90000 1024 48000 w_audio2short
  = Ok {| o_tfdt := 1056768; o_seq := 12; o_frames := rangeZ 282 372 ++ [371; 371; 371] |}.
Proof. exact (conj w_video_wf frames_example). Qed.
