(** C03 — audio is re-segmented to follow video boundaries without loss or duplication.
    Only statements; every proof is [exact <lemma>] (lemmas in theories/AudioProofs.v). *)
From Verif Require Import GoSem Audio.
