(** C04 — each segment goes too-early -> available -> gone, at exactly the right instants.
    [phase]: 0 = 425 Too Early, 1 = 200, 2 = 410 Gone.  The availability instant of segment n is
    A = availabilityStartTime + E n / timescale - availabilityTimeOffset. *)
From Verif Require Import GoSem Timeline TimelineProofs TimelineF.
From VerifGen Require Consts.

(** For a fixed URL the response never returns to an earlier phase (all inputs, on and off the
    millisecond grid). *)
Theorem C04_monotone : forall r loopMS c n now1 now2,
  wf r loopMS -> 0 <= n -> 0 <= startNr c -> startNr c + n < two32 -> 0 <= tsbdS c -> now1 <= now2 ->
  ophase (lookup r loopMS c ByNumber (startNr c + n) now1) <=
  ophase (lookup r loopMS c ByNumber (startNr c + n) now2).
Proof. exact lookup_monotone. Qed.
Print Assumptions C04_monotone.

(** The phase of a request (by number / by time) is the phase of the availability test at
    A = E n / ts + start. *)
Theorem C04_phase_number : forall r loopMS c n now,
  wf r loopMS -> 0 <= n -> 0 <= startNr c -> startNr c + n < two32 ->
  ophase (lookup r loopMS c ByNumber (startNr c + n) now) =
  phase (checkTime (E r n + startS c * ts r) (ts r) now (tsbdS c) (ato c)).
Proof. exact lookup_phase. Qed.
Print Assumptions C04_phase_number.

Theorem C04_phase_time : forall r loopMS c n now,
  wf r loopMS -> 0 <= n -> S r n < two64 ->
  ophase (lookup r loopMS c ByTime (S r n) now) =
  phase (checkTime (E r n + startS c * ts r) (ts r) now (tsbdS c) (ato c)).
Proof. exact lookup_time_phase. Qed.
Print Assumptions C04_phase_time.

(** Exact transition instants, in units of (ms * timescale): 425 iff now < A - ato,
    200 iff A - ato <= now <= A - ato + tsbd + margin, 410 after that. *)
Theorem C04_phase_exact : forall A tsc tsbd atoMS now,
  0 < tsc ->
  let av := availNum A tsc (Some atoMS) in
  (phase (checkTime A tsc now tsbd (Some atoMS)) = 0 <-> now * tsc < av) /\
  (phase (checkTime A tsc now tsbd (Some atoMS)) = 2 <->
     av + (tsbd + tsbdMarginS) * 1000 * tsc < now * tsc /\ av <= now * tsc) /\
  (phase (checkTime A tsc now tsbd (Some atoMS)) = 1 <->
     av <= now * tsc <= av + (tsbd + tsbdMarginS) * 1000 * tsc).
Proof. exact checkTime_exact. Qed.
Print Assumptions C04_phase_exact.

(** On the millisecond grid the transitions are whole milliseconds, the 425 body states the
    remaining milliseconds, and the segment stays available for tsbd + margin >= tsbd. *)
Theorem C04_grid : forall A Ams tsc tsbd atoMS now,
  0 < tsc -> 0 <= atoMS -> A * 1000 = Ams * tsc ->
  checkTime A tsc now tsbd (Some atoMS) =
  if now <? Ams - atoMS then TvTooEarly (Ams - atoMS - now)
  else if now >? Ams - atoMS + (tsbd + tsbdMarginS) * 1000 then TvGone else TvOk.
Proof. exact checkTime_grid. Qed.
Print Assumptions C04_grid.

(** An infinite availabilityTimeOffset makes every segment available (from stream start). *)
Theorem C04_inf : forall A tsc tsbd now, checkTime A tsc now tsbd None = TvOk.
Proof. exact checkTime_inf. Qed.

(** Numbers below startNumber are 404. *)
Theorem C04_below_start : forall r loopMS c id now,
  0 <= id < startNr c -> startNr c < two32 -> lookup r loopMS c ByNumber id now = TNotFound.
Proof. exact lookup_below_start. Qed.
Print Assumptions C04_below_start.

(** float64: the Go code evaluates the availability test in float64, rounding both instants to
    whole microseconds before comparing them ([checkTimeF], bit-faithful, run against the
    implementation by the correspondence).  The segment lookup around it is integer code, so the
    float64 lookup equals the exact one whenever the two tests agree on the instance at hand. *)
Theorem C04_float_bridge : forall (ck1 ck2 : chk) r loopMS c mode segID now,
  (forall A, ck1 A (ts r) now (tsbdS c) (ato c) = ck2 A (ts r) now (tsbdS c) (ato c)) ->
  lookupG ck1 r loopMS c mode segID now = lookupG ck2 r loopMS c mode segID now.
Proof. exact lookupG_ext. Qed.
Print Assumptions C04_float_bridge.

(** The microsecond comparison, evaluated exactly ([checkTimeU]), is the exact test whenever the
    availability instant is a whole number of milliseconds: on the millisecond grid the
    transitions are exact. (Off the grid the two can differ for instants closer than 0.5 us to
    the transition; the correspondence compares [checkTimeF] with [checkTime] on every case
    except within 2 ms of an off-grid transition.) *)
Theorem C04_microsecond_grid : forall A Ams tsc tsbd a now,
  0 < tsc -> A * 1000 = Ams * tsc -> (forall ms, a = Some ms -> 0 <= ms) ->
  checkTimeU A tsc now tsbd a = checkTime A tsc now tsbd a.
Proof. exact checkTimeU_grid. Qed.
Print Assumptions C04_microsecond_grid.

(** The instant at which the original float64 comparison refused a segment at its exact
    availability instant (fixed defect): accepted now, and refused one millisecond earlier. *)
Theorem C04_float_edge : 
  checkTime (60060 + 30 * 30000) 30000 31502 3600 (Some 500) = TvOk /\
  checkTimeF (60060 + 30 * 30000) 30000 31502 3600 (Some 500) = TvOk /\
  checkTimeF (60060 + 30 * 30000) 30000 31501 3600 (Some 500) = TvTooEarly 1.
Proof. exact checkTimeF_edge_ok. Qed.
Print Assumptions C04_float_edge.

(** A witness that the float64 comparison is NOT exact on the millisecond grid for instants after
    January 2038 (known finding float64-availability-after-2038, reported by the thorough tier of C09):
    the exact test accepts the request at the advertised millisecond, the float64 test refuses it
    "too early by 0 ms". [C04_microsecond_grid] speaks about [checkTimeU], the microsecond comparison
    evaluated exactly; the statements about served phases carry the range in which the two agree. *)
Theorem C04_float_after_2038_refuted :
  checkTime  (345291765 * 60060 + 1600000000 * 30000) 30000 2291274113430 60 (Some 100) = TvOk /\
  checkTimeF (345291765 * 60060 + 1600000000 * 30000) 30000 2291274113430 60 (Some 100) = TvTooEarly 0 /\
  checkTimeF (345291765 * 60060 + 1600000000 * 30000) 30000 2291274113431 60 (Some 100) = TvOk.
Proof. exact checkTimeF_after_2038. Qed.
Print Assumptions C04_float_after_2038_refuted.

(** The margin used by the model is the constant of the Go source (regenerated on every run). *)
Theorem C04_margin_const : Consts.app_timeShiftBufferDepthMarginS = tsbdMarginS
                           /\ Consts.app_defaultTimeShiftBufferDepthS = 60.
Proof. split; reflexivity. Qed.

(** Non-vacuity: segment 5 of a 4 x 2 s loop, start 30, tsbd 60: 425 until 42 s, 200 until 112 s. *)
Example C04_example :
  let r := {| segs := [ {| st := 0; en := 180000; snr := 1 |}; {| st := 180000; en := 360000; snr := 2 |};
               {| st := 360000; en := 540000; snr := 3 |}; {| st := 540000; en := 720000; snr := 4 |} ];
              ts := 90000 |} in
  let c := {| startS := 30; startNr := 0; tsbdS := 60; ato := Some 0 |} in
  map (fun now => ophase (lookup r 8000 c ByNumber 5 now)) [41999; 42000; 112000; 112001] = [0; 1; 1; 2].
Proof. vm_compute. reflexivity. Qed.
