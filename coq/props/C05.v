(** C05 — the MPD only moves forward, and publishTime identifies its content.
    Only statements; proofs are [exact <lemma>]. *)
From Verif Require Import GoSem Timeline TimelineProofs Publish.
From VerifGen Require Consts.

Theorem C05_consts : Consts.app_defaultStartNr = 0.
Proof. reflexivity. Qed.
