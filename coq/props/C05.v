(** C05 — the MPD only moves forward, and publishTime identifies its content.
    Only statements; proofs are [exact <lemma>].
    Window edges (theories/WindowProofs.v): [window_first] / [window_last] (theories/Window.v) are the
    first and last segment listed by the MPD model at an instant: that is C02_timeline_is_window
    (props/C02.v), restated here. *)
From Verif Require Import GoSem Timeline TimelineProofs Publish Window WindowProofs Template TemplateProofs.
From Verif Require Import Periods PublishPeriods PublishPeriodsProofs.
From VerifGen Require Consts.

Theorem C05_consts : Consts.app_defaultStartNr = 0.
Proof. reflexivity. Qed.

(** The edges of the window are the first and last entry of the MPD's timeline. *)
Theorem C05_edges_are_listed : forall r loopMS, wf r loopMS -> forall c now tsbdMS atoMS,
  startS c * 1000 <= now -> 0 <= tsbdMS -> 0 <= atoMS ->
  let se := generateTimelineEntries r (calcWrapTimes loopMS c now tsbdMS) atoMS in
  let last := window_last r c atoMS now in
  let first := window_first r c atoMS now tsbdMS in
  (last < 0 -> se_startNr se = -1 /\ se_entries se = [] /\ se_lsi_nr se = -1) /\
  (0 <= last ->
     first <= last /\ se_startNr se = first /\
     expand (se_entries se) = window_td r first last /\
     se_lsi_nr se = last /\ se_lsi_start se = S r last /\ se_lsi_dur se = E r last - S r last).
Proof. exact timeline_is_window. Qed.
Print Assumptions C05_edges_are_listed.

(** As wall-clock time increases under a fixed configuration, neither edge moves backwards
    (all pairs of instants, within and across loop periods). *)
Theorem C05_edges_monotone : forall r loopMS, wf r loopMS -> forall c atoMS tsbdMS now1 now2,
  0 <= atoMS -> startS c * 1000 <= now1 <= now2 ->
  window_last r c atoMS now1 <= window_last r c atoMS now2 /\
  window_first r c atoMS now1 tsbdMS <= window_first r c atoMS now2 tsbdMS.
Proof. exact edges_monotone. Qed.
Print Assumptions C05_edges_monotone.

(** Segment [n] is inside the live edge exactly from its availability instant
    start + E n / timescale - ato on (in ms * timescale units; any instant, any timescale). *)
Theorem C05_edge_step : forall r loopMS, wf r loopMS -> forall c atoMS now n, 0 <= n ->
  (n <= window_last r c atoMS now <-> E r n * 1000 <= (now - startS c * 1000 + atoMS) * ts r).
Proof. exact edge_step. Qed.
Print Assumptions C05_edge_step.

(** Hence the live edge is [n] exactly between the availability instants of [n] and [n + 1]:
    it advances by one segment at a time. *)
Theorem C05_edge_eq : forall r loopMS, wf r loopMS -> forall c atoMS now n, 0 <= n ->
  (window_last r c atoMS now = n <->
   E r n * 1000 <= (now - startS c * 1000 + atoMS) * ts r < E r (n + 1) * 1000).
Proof. exact edge_eq. Qed.
Print Assumptions C05_edge_eq.

(** ... and the instant at which the edge reaches [n] is the first instant at which the segment
    server stops answering 425 Too Early for segment [n] ([phase] 0 = too early, C04). *)
Theorem C05_edge_is_availability : forall r loopMS, wf r loopMS -> forall c atoMS now tsbd n,
  0 <= atoMS -> 0 <= n ->
  (phase (checkTime (E r n + startS c * ts r) (ts r) now tsbd (Some atoMS)) = 0 <->
   window_last r c atoMS now < n).
Proof. exact edge_checkTime. Qed.
Print Assumptions C05_edge_is_availability.

(** publishTime ([mpdPublishMS], theories/Publish.v: calcPublishTime on the last-segment information
    of the timeline) on the millisecond grid ([E last * 1000 = Ems * timescale]): it is the instant
    start + Ems - ato at which the newest listed segment became available (clipped below at the start
    of the stream; the start itself while the timeline is empty), and it is never later than [now]. *)
Theorem C05_publish_is_edge_availability : forall r loopMS c now tsbdMS atoMS Ems,
  wf r loopMS -> startS c * 1000 <= now -> 0 <= tsbdMS -> 0 <= atoMS ->
  let last := window_last r c atoMS now in
  (0 <= last -> E r last * 1000 = Ems * ts r) ->
  mpdPublishMS r loopMS c now tsbdMS atoMS
  = (if last <? 0 then startS c * 1000 else Z.max (startS c * 1000) (startS c * 1000 + Ems - atoMS)) /\
  mpdPublishMS r loopMS c now tsbdMS atoMS <= now.
Proof. exact publish_is_edge_availability. Qed.
Print Assumptions C05_publish_is_edge_availability.

(** With every segment end on the millisecond grid, publishTime never decreases. *)
Theorem C05_publish_monotone : forall r loopMS c tsbdMS atoMS now1 now2,
  wf r loopMS -> startS c * 1000 <= now1 <= now2 -> 0 <= tsbdMS -> 0 <= atoMS ->
  (forall n, 0 <= n -> (ts r | E r n * 1000)) ->
  mpdPublishMS r loopMS c now1 tsbdMS atoMS <= mpdPublishMS r loopMS c now2 tsbdMS atoMS.
Proof. exact publish_monotone. Qed.
Print Assumptions C05_publish_monotone.

(** ** publishTime identifies the content.  [mpdContent] (theories/Window.v) = (start number, <S> elements). *)

(** The SegmentTimeline is a function of the two edges alone ([windowEntries]: the run-length
    encoding of [first .. last]) ... *)
Theorem C05_timeline_by_edges : forall r loopMS, wf r loopMS -> forall c now tsbdMS atoMS,
  startS c * 1000 <= now -> 0 <= tsbdMS -> 0 <= atoMS ->
  generateTimelineEntries r (calcWrapTimes loopMS c now tsbdMS) atoMS
  = windowEntries r (window_first r c atoMS now tsbdMS) (window_last r c atoMS now).
Proof. exact timeline_eq. Qed.
Print Assumptions C05_timeline_by_edges.

(** ... so two MPDs of one configuration with the same edges have the same content and publishTime. *)
Theorem C05_content_determined : forall r loopMS, wf r loopMS -> forall c atoMS now1 tsbd1 now2 tsbd2,
  startS c * 1000 <= now1 -> startS c * 1000 <= now2 -> 0 <= tsbd1 -> 0 <= tsbd2 -> 0 <= atoMS ->
  window_first r c atoMS now1 tsbd1 = window_first r c atoMS now2 tsbd2 ->
  window_last r c atoMS now1 = window_last r c atoMS now2 ->
  mpdContent r loopMS c now1 tsbd1 atoMS = mpdContent r loopMS c now2 tsbd2 atoMS /\
  mpdPublishMS r loopMS c now1 tsbd1 atoMS = mpdPublishMS r loopMS c now2 tsbd2 atoMS.
Proof. exact content_determined. Qed.
Print Assumptions C05_content_determined.

(** Hypothesis "comm": one segment duration [d] = [dms] whole milliseconds, and a time-shift buffer
    of [q] whole segments (any availabilityTimeOffset).  Then the first edge is a function of the
    last edge: it only moves at instants at which the last edge moves ... *)
Theorem C05_first_follows_last : forall r loopMS, wf r loopMS -> forall d dms,
  const_dur r d -> d * 1000 = dms * ts r -> forall c atoMS q now1 now2,
  0 <= q -> 0 <= atoMS -> startS c * 1000 <= now1 -> startS c * 1000 <= now2 ->
  window_last r c atoMS now1 = window_last r c atoMS now2 ->
  window_first r c atoMS now1 (q * dms) = window_first r c atoMS now2 (q * dms).
Proof. exact first_follows_last. Qed.
Print Assumptions C05_first_follows_last.

(** ... and two MPDs (each with at least one segment) have the same publishTime iff they have the
    same content. *)
Theorem C05_publish_identifies_content : forall r loopMS, wf r loopMS -> forall d dms,
  const_dur r d -> d * 1000 = dms * ts r -> forall c atoMS q now1 now2,
  0 <= q -> 0 <= atoMS -> startS c * 1000 <= now1 -> startS c * 1000 <= now2 ->
  0 <= window_last r c atoMS now1 -> 0 <= window_last r c atoMS now2 ->
  (mpdPublishMS r loopMS c now1 (q * dms) atoMS = mpdPublishMS r loopMS c now2 (q * dms) atoMS <->
   mpdContent r loopMS c now1 (q * dms) atoMS = mpdContent r loopMS c now2 (q * dms) atoMS).
Proof. exact publish_identifies_content. Qed.
Print Assumptions C05_publish_identifies_content.

(** Without "comm" (finding): 4 x 2 s loop, tsbd 61 s, now = 100.5 s and 101.5 s: the same
    publishTime (100 s, newest segment 49) but the first listed segment differs (18 / 19). *)
Theorem C05_window_refuted :
  exists r loopMS c tsbdMS atoMS now1 now2,
    wf r loopMS /\ 0 <= tsbdMS /\ 0 <= atoMS /\ startS c * 1000 <= now1 <= now2 /\
    0 <= window_last r c atoMS now1 /\
    mpdPublishMS r loopMS c now1 tsbdMS atoMS = mpdPublishMS r loopMS c now2 tsbdMS atoMS /\
    fst (mpdContent r loopMS c now1 tsbdMS atoMS) <> fst (mpdContent r loopMS c now2 tsbdMS atoMS).
Proof. exact window_witness. Qed.
Print Assumptions C05_window_refuted.

(** ** $Number$ template, one period: the template fields and publishTime (= start of the stream)
    do not depend on the instant. *)
Theorem C05_number_constant : forall r c now1 now2, numberMPD r c now1 = numberMPD r c now2.
Proof. exact number_constant. Qed.
Print Assumptions C05_number_constant.

Theorem C05_number_fields : forall r c now,
  numberMPD r c now = {| t_startNumber := u32 (startNr c); t_duration := templDur r;
                         t_timescale := u32 (ts r); t_publishMS := startS c * 1000 |}.
Proof. exact number_fields. Qed.

(** ** Stop time ([liveMPDView], theories/Window.v): after the stop the MPD is static, has the duration
    stop - start, and content and publishTime are those of the stop instant - the same for every
    later instant; up to the stop (or without one) it is the dynamic MPD of [now]. *)
Theorem C05_static_after_stop : forall r loopMS c stop now tsbdMS atoMS, stop * 1000 < now ->
  liveMPDView r loopMS c (Some stop) now tsbdMS atoMS
  = {| v_static := true; v_durS := Some (stop - startS c);
       v_publishMS := mpdPublishMS r loopMS c (stop * 1000) tsbdMS atoMS;
       v_content := mpdContent r loopMS c (stop * 1000) tsbdMS atoMS |}.
Proof. exact static_after_stop. Qed.
Print Assumptions C05_static_after_stop.

Theorem C05_static_after_stop_eq : forall r loopMS c stop now1 now2 tsbdMS atoMS,
  stop * 1000 < now1 -> stop * 1000 < now2 ->
  liveMPDView r loopMS c (Some stop) now1 tsbdMS atoMS = liveMPDView r loopMS c (Some stop) now2 tsbdMS atoMS.
Proof. exact static_after_stop_eq. Qed.
Print Assumptions C05_static_after_stop_eq.

Theorem C05_dynamic_until_stop : forall r loopMS c stop now tsbdMS atoMS,
  (forall s, stop = Some s -> now <= s * 1000) ->
  liveMPDView r loopMS c stop now tsbdMS atoMS
  = {| v_static := false; v_durS := None;
       v_publishMS := mpdPublishMS r loopMS c now tsbdMS atoMS;
       v_content := mpdContent r loopMS c now tsbdMS atoMS |}.
Proof. exact dynamic_until_stop. Qed.
Print Assumptions C05_dynamic_until_stop.

(** Non-vacuity of the content theorems: 4 x 2 s loop (d = 180000 ticks = 2000 ms), start 30 s,
    tsbd 10 s = 5 segments, offset 0.5 s: at 99.5 s and 101.499 s the same content and publishTime,
    at 101.5 s both change; stop at 100 s: static with duration 70 s, frozen at the stop instant. *)
Example C05_content_example :
  let r := ato_rep in let c := {| startS := 30; startNr := 7; tsbdS := 10; ato := Some 500 |} in
  wf r 8000 /\ const_dur r 180000 /\ 180000 * 1000 = 2000 * ts r /\ 10000 = 5 * 2000 /\
  map (fun now => (mpdPublishMS r 8000 c now 10000 500, mpdContent r 8000 c now 10000 500)) [99500; 101499; 101500]
  = [(99500, (29, [{| e_t := 5220000; e_d := 180000; e_r := 5 |}]));
     (99500, (29, [{| e_t := 5220000; e_d := 180000; e_r := 5 |}]));
     (101500, (30, [{| e_t := 5400000; e_d := 180000; e_r := 5 |}]))] /\
  liveMPDView r 8000 c (Some 100) 123456 10000 500
  = {| v_static := true; v_durS := Some 70; v_publishMS := 99500;
       v_content := (29, [{| e_t := 5220000; e_d := 180000; e_r := 5 |}]) |} /\
  numberMPD r c 123456 = {| t_startNumber := 7; t_duration := 180000; t_timescale := 90000; t_publishMS := 30000 |}.
Proof.
  cbv zeta. split; [exact ato_rep_wf|]. split; [repeat constructor|]. vm_compute. repeat split; reflexivity.
Qed.

(** Non-vacuity: 4 x 2 s loop, start 30 s, tsbd 10 s, availabilityTimeOffset 0.5 s.  Segment 34 ends
    at 30 + 70 = 100 s and becomes available at 99.5 s: the last edge steps from 33 to 34 there,
    the first edge from 28 to 29 (window start 89.5 s, segment 29 available at 89.5 s);
    one millisecond earlier the server still answers too early for 34. *)
Definition ex_rep : rep :=
  {| segs := [ {| st := 0; en := 180000; snr := 1 |}; {| st := 180000; en := 360000; snr := 2 |};
               {| st := 360000; en := 540000; snr := 3 |}; {| st := 540000; en := 720000; snr := 4 |} ];
     ts := 90000 |}.
Definition ex_cfg : tcfg := {| startS := 30; startNr := 7; tsbdS := 10; ato := Some 500 |}.
Example C05_example :
  wf ex_rep 8000 /\
  map (fun now => (window_first ex_rep ex_cfg 500 now 10000, window_last ex_rep ex_cfg 500 now))
      [30000; 31499; 31500; 99499; 99500; 100000; 101500]
  = [(0, -1); (0, -1); (0, 0); (28, 33); (29, 34); (29, 34); (30, 35)] /\
  map (fun now => phase (checkTime (E ex_rep 34 + 30 * 90000) 90000 now 10 (Some 500))) [99499; 99500] = [0; 1] /\
  map (fun now => mpdPublishMS ex_rep 8000 ex_cfg now 10000 500) [30000; 31499; 31500; 99499; 99500; 100000]
  = [30000; 30000; 31500; 97500; 99500; 99500].
Proof.
  split; [|vm_compute; repeat split; reflexivity].
  constructor; cbn; try lia; try discriminate; repeat constructor; cbn; lia.
Qed.

(** ** Multi-period SegmentTimeline MPDs (periods_N): publishTime

    [publish_periods] (theories/PublishPeriods.v) is the publishTime of the MPD with periods, for
    assets whose video/text representations share the reference grid: the publishTime of the
    single-period MPD ([mpdPublishMS]: availability instant of the newest listed segment less the
    availabilityTimeOffset, not before availabilityStartTime), moved to the start of the Period
    that contains now while that Period lists no segment yet.  The correspondence compares it -
    and [publish_periods_exec], which runs the C06 model of splitPeriod on the reference timeline
    and looks at its newest Period, and the number / first / last listed segment of every Period -
    with every served MPD of the periods sweeps; that the closed form and the executable agree is
    checked there, not proved.  Hypotheses: admitted asset ([wf]), 1 <= periods per hour <= 3600,
    offset >= 0 of any size (below or beyond a segment), every segment end on the millisecond grid. *)

(** publishTime is never later than the instant of the request (nor earlier than
    availabilityStartTime). *)
Theorem C05_publish_periods_le_now : forall r loopMS, wf r loopMS -> forall c tsbdMS atoMS pph,
  0 <= tsbdMS -> 0 <= atoMS -> 1 <= pph <= 3600 ->
  (forall n, 0 <= n -> (ts r | E r n * 1000)) ->
  forall now, startS c * 1000 <= now ->
  startS c * 1000 <= publish_periods r loopMS c now tsbdMS atoMS pph <= now.
Proof. exact publish_periods_le_now. Qed.
Print Assumptions C05_publish_periods_le_now.

(** publishTime never decreases. *)
Theorem C05_publish_periods_monotone : forall r loopMS, wf r loopMS -> forall c tsbdMS atoMS pph,
  0 <= tsbdMS -> 0 <= atoMS -> 1 <= pph <= 3600 ->
  (forall n, 0 <= n -> (ts r | E r n * 1000)) ->
  forall now1 now2, startS c * 1000 <= now1 <= now2 ->
  publish_periods r loopMS c now1 tsbdMS atoMS pph <= publish_periods r loopMS c now2 tsbdMS atoMS pph.
Proof. exact publish_periods_monotone. Qed.
Print Assumptions C05_publish_periods_monotone.

(** publishTime is the instant of the last change AT THE LIVE EDGE: on [publishTime(now), now] the
    newest listed segment, the number of the newest Period (the Period of now, or - with an offset
    beyond a segment - the later Period in which the newest listed segment already starts:
    [liveContent]) and publishTime itself are constant.
    PARTIAL: the old end of the MPD (first listed segment, oldest Period) is not covered - a
    segment leaving the time-shift window changes the MPD without a new publishTime (known
    finding publishtime-ignores-window-start; for one Period C05_first_follows_last gives the
    condition under which the old end follows the live edge). *)
Theorem C05_publish_periods_is_last_change_partial : forall r loopMS, wf r loopMS -> forall c tsbdMS atoMS pph,
  0 <= tsbdMS -> 0 <= atoMS -> 1 <= pph <= 3600 ->
  (forall n, 0 <= n -> (ts r | E r n * 1000)) ->
  forall now now', startS c * 1000 <= now ->
  publish_periods r loopMS c now tsbdMS atoMS pph <= now' <= now ->
  liveContent r c atoMS now' pph = liveContent r c atoMS now pph /\
  publish_periods r loopMS c now' tsbdMS atoMS pph = publish_periods r loopMS c now tsbdMS atoMS pph.
Proof. exact publish_periods_is_last_change. Qed.
Print Assumptions C05_publish_periods_is_last_change_partial.

(** Non-vacuity: the 4 x 2 s loop meets the hypotheses; periods_30 (120 s Periods), offset 0.5 s,
    around the Period start 120 s: publishTime 119.5 s when [118 s, 120 s) becomes available, moves
    to 120 s when the still empty Period P1 appears, and to 121.5 s when its first segment is listed. *)
Example C05_publish_periods_example :
  wf ato_rep 8000 /\ (forall n, 0 <= n -> (ts ato_rep | E ato_rep n * 1000)) /\
  let c := {| startS := 0; startNr := 0; tsbdS := 60; ato := Some 500 |} in
  map (fun now => (publish_periods ato_rep 8000 c now 60000 500 30,
                   publish_periods_exec ato_rep 8000 c now 60000 500 30 2000,
                   liveContent ato_rep c 500 now 30)) [119499; 119500; 119999; 120000; 121499; 121500]
  = [(117500, Ok 117500, (58, 0)); (119500, Ok 119500, (59, 0)); (119500, Ok 119500, (59, 0));
     (120000, Ok 120000, (59, 1)); (120000, Ok 120000, (59, 1)); (121500, Ok 121500, (60, 1))].
Proof. exact (conj ato_rep_wf (conj ato_rep_grid periods30_example)). Qed.
