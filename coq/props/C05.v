(** C05 — the MPD only moves forward, and publishTime identifies its content.
    Only statements; proofs are [exact <lemma>].
    Window edges (theories/WindowProofs.v): [window_first] / [window_last] (theories/Window.v) are the
    first and last segment listed by the MPD model at an instant: that is C02_timeline_is_window
    (props/C02.v), restated here. *)
From Verif Require Import GoSem Timeline TimelineProofs Publish Window WindowProofs.
From VerifGen Require Consts.

Theorem C05_consts : Consts.app_defaultStartNr = 0.
Proof. reflexivity. Qed.

(** The edges of the window are the first and last entry of the MPD's timeline. *)
Theorem C05_edges_are_listed : forall r loopMS, wf r loopMS -> forall c now tsbdMS atoMS,
  startS c * 1000 <= now -> 0 <= tsbdMS -> 0 <= atoMS ->
  let se := generateTimelineEntries r (calcWrapTimes loopMS c now tsbdMS) atoMS in
  let last := window_last r c atoMS now in
  let first := window_first r c atoMS now tsbdMS in
  (last < 0 -> se_startNr se = -1 /\ se_entries se = [] /\ se_lsi_nr se = -1) /\
  (0 <= last ->
     first <= last /\ se_startNr se = first /\
     expand (se_entries se) = window_td r first last /\
     se_lsi_nr se = last /\ se_lsi_start se = S r last /\ se_lsi_dur se = E r last - S r last).
Proof. exact timeline_is_window. Qed.
Print Assumptions C05_edges_are_listed.

(** As wall-clock time increases under a fixed configuration, neither edge moves backwards
    (all pairs of instants, within and across loop periods). *)
Theorem C05_edges_monotone : forall r loopMS, wf r loopMS -> forall c atoMS tsbdMS now1 now2,
  0 <= atoMS -> startS c * 1000 <= now1 <= now2 ->
  window_last r c atoMS now1 <= window_last r c atoMS now2 /\
  window_first r c atoMS now1 tsbdMS <= window_first r c atoMS now2 tsbdMS.
Proof. exact edges_monotone. Qed.
Print Assumptions C05_edges_monotone.

(** Segment [n] is inside the live edge exactly from its availability instant
    start + E n / timescale - ato on (in ms * timescale units; any instant, any timescale). *)
Theorem C05_edge_step : forall r loopMS, wf r loopMS -> forall c atoMS now n, 0 <= n ->
  (n <= window_last r c atoMS now <-> E r n * 1000 <= (now - startS c * 1000 + atoMS) * ts r).
Proof. exact edge_step. Qed.
Print Assumptions C05_edge_step.

(** Hence the live edge is [n] exactly between the availability instants of [n] and [n + 1]:
    it advances by one segment at a time. *)
Theorem C05_edge_eq : forall r loopMS, wf r loopMS -> forall c atoMS now n, 0 <= n ->
  (window_last r c atoMS now = n <->
   E r n * 1000 <= (now - startS c * 1000 + atoMS) * ts r < E r (n + 1) * 1000).
Proof. exact edge_eq. Qed.
Print Assumptions C05_edge_eq.

(** ... and the instant at which the edge reaches [n] is the first instant at which the segment
    server stops answering 425 Too Early for segment [n] ([phase] 0 = too early, C04). *)
Theorem C05_edge_is_availability : forall r loopMS, wf r loopMS -> forall c atoMS now tsbd n,
  0 <= atoMS -> 0 <= n ->
  (phase (checkTime (E r n + startS c * ts r) (ts r) now tsbd (Some atoMS)) = 0 <->
   window_last r c atoMS now < n).
Proof. exact edge_checkTime. Qed.
Print Assumptions C05_edge_is_availability.

(** publishTime ([mpdPublishMS], theories/Publish.v: calcPublishTime on the last-segment information
    of the timeline) on the millisecond grid ([E last * 1000 = Ems * timescale]): it is the instant
    start + Ems - ato at which the newest listed segment became available (clipped below at the start
    of the stream; the start itself while the timeline is empty), and it is never later than [now]. *)
Theorem C05_publish_is_edge_availability : forall r loopMS c now tsbdMS atoMS Ems,
  wf r loopMS -> startS c * 1000 <= now -> 0 <= tsbdMS -> 0 <= atoMS ->
  let last := window_last r c atoMS now in
  (0 <= last -> E r last * 1000 = Ems * ts r) ->
  mpdPublishMS r loopMS c now tsbdMS atoMS
  = (if last <? 0 then startS c * 1000 else Z.max (startS c * 1000) (startS c * 1000 + Ems - atoMS)) /\
  mpdPublishMS r loopMS c now tsbdMS atoMS <= now.
Proof. exact publish_is_edge_availability. Qed.
Print Assumptions C05_publish_is_edge_availability.

(** With every segment end on the millisecond grid, publishTime never decreases. *)
Theorem C05_publish_monotone : forall r loopMS c tsbdMS atoMS now1 now2,
  wf r loopMS -> startS c * 1000 <= now1 <= now2 -> 0 <= tsbdMS -> 0 <= atoMS ->
  (forall n, 0 <= n -> (ts r | E r n * 1000)) ->
  mpdPublishMS r loopMS c now1 tsbdMS atoMS <= mpdPublishMS r loopMS c now2 tsbdMS atoMS.
Proof. exact publish_monotone. Qed.
Print Assumptions C05_publish_monotone.

(** Non-vacuity: 4 x 2 s loop, start 30 s, tsbd 10 s, availabilityTimeOffset 0.5 s.  Segment 34 ends
    at 30 + 70 = 100 s and becomes available at 99.5 s: the last edge steps from 33 to 34 there,
    the first edge from 28 to 29 (window start 89.5 s, segment 29 available at 89.5 s);
    one millisecond earlier the server still answers too early for 34. *)
Definition ex_rep : rep :=
  {| segs := [ {| st := 0; en := 180000; snr := 1 |}; {| st := 180000; en := 360000; snr := 2 |};
               {| st := 360000; en := 540000; snr := 3 |}; {| st := 540000; en := 720000; snr := 4 |} ];
     ts := 90000 |}.
Definition ex_cfg : tcfg := {| startS := 30; startNr := 7; tsbdS := 10; ato := Some 500 |}.
Example C05_example :
  wf ex_rep 8000 /\
  map (fun now => (window_first ex_rep ex_cfg 500 now 10000, window_last ex_rep ex_cfg 500 now))
      [30000; 31499; 31500; 99499; 99500; 100000; 101500]
  = [(0, -1); (0, -1); (0, 0); (28, 33); (29, 34); (29, 34); (30, 35)] /\
  map (fun now => phase (checkTime (E ex_rep 34 + 30 * 90000) 90000 now 10 (Some 500))) [99499; 99500] = [0; 1] /\
  map (fun now => mpdPublishMS ex_rep 8000 ex_cfg now 10000 500) [30000; 31499; 31500; 99499; 99500; 100000]
  = [30000; 30000; 31500; 97500; 99500; 99500].
Proof.
  split; [|vm_compute; repeat split; reflexivity].
  constructor; cbn; try lia; try discriminate; repeat constructor; cbn; lia.
Qed.
