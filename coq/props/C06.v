(** C06 — splitting into periods preserves the timeline and the segment identities.
    Only statements; every proof is [exact <lemma>] (lemmas in theories/PeriodsProofs.v and
    theories/PeriodsSplit.v).  Model: theories/Periods.v (reduceS, splitPeriod,
    lastPeriodStartTime and the multi-period tail of LiveMPD in cmd/livesim2/app/livempd.go).

    Vocabulary.  [expandP es] is the list of (t, d) pairs of an <S> list as reduceS walks it (t
    optional on every element, r any int).  [expand] is the same for the elements reduceS writes.
    [inWin a b x] is a <= t(x) < b.  [chain]: every segment begins where the previous one ends.
    [periodDurOf pph] = 3600 / pph (integer division, as in the code).
    [periodTimeline j p] / [periodPTO j p] / [periodStartNr j p]: expanded SegmentTimeline,
    presentationTimeOffset and startNumber of the j-th AdaptationSet of period p. *)
From Verif Require Import GoSem Timeline TimelineProofs Periods PeriodsProofs PeriodsSplit PeriodsWiden.

(** ** reduceS *)

(** For ANY <S> list and any period bounds: under the range condition that keeps the
    uint64/uint32 arithmetic from wrapping, the expansion of the output is the part of the expanded
    input that the walk keeps ([window]: elements before the period start are skipped one by one,
    the first element at or after the period end stops the walk), provided neighbours of equal
    duration in that part abut ([runChain]: the run-length encoder merges equal durations without
    looking at the times); the output elements are maximal runs; for a time-sorted input the
    returned start number is the given one plus the number of segments before the period (and the
    given one, unchanged, when no segment reaches the period start). *)
Theorem C06_reduceS_any : forall es snr tsc pS0 pE0,
  let xs := expandP es in
  let ps := u64 (pS0 * u64 tsc) in
  let pe := u64 (pE0 * u64 tsc) in
  inRange xs -> 0 <= startNrOf snr -> startNrOf snr + lenZ xs < two32 ->
  runChain (window ps pe xs) ->
  expand (fst (reduceS es snr tsc pS0 pE0)) = window ps pe xs /\
  maximalRuns (fst (reduceS es snr tsc pS0 pE0)) /\
  (ps <= pe -> sortedT xs ->
   snd (reduceS es snr tsc pS0 pE0) =
   if reaches ps xs then startNrOf snr + countBefore ps xs else startNrOf snr).
Proof. exact reduceS_general. Qed.
Print Assumptions C06_reduceS_any.

(** The statement of DESIGN.md: for a gap-free timeline the expansion of reduceS's output is the
    FILTER of the expanded input to [p*ts, (p+P)*ts), the output elements are maximal runs, and
    the start number is nr + |{i | t_i < p*ts}|. *)
Theorem C06_reduceS : forall es snr tsc pS0 pE0,
  let xs := expandP es in
  let ps := pS0 * tsc in
  let pe := pE0 * tsc in
  chain xs -> inRange xs -> 0 <= startNrOf snr -> startNrOf snr + lenZ xs < two32 ->
  0 <= tsc < two64 -> 0 <= ps <= pe -> pe < two64 ->
  expand (fst (reduceS es snr tsc pS0 pE0)) = filter (inWin ps pe) xs /\
  maximalRuns (fst (reduceS es snr tsc pS0 pE0)) /\
  snd (reduceS es snr tsc pS0 pE0) =
    (if reaches ps xs then startNrOf snr + countBefore ps xs else startNrOf snr).
Proof. exact reduceS_spec. Qed.
Print Assumptions C06_reduceS.

(** With that start number every segment keeps the number it has in single-period mode: the j-th
    segment of the window is segment [countBefore ps + j] of the whole timeline. *)
Theorem C06_numbers_kept : forall ps pe xs, sortedT xs ->
  forall j x, nthZ j (filter (inWin ps pe) xs) = Some x -> nthZ (countBefore ps xs + j) xs = Some x.
Proof. exact window_index. Qed.
Print Assumptions C06_numbers_kept.

(** ** splitPeriod: tiling, ids *)

(** For an accepted periods-per-hour value the periods are numbered consecutively from the one
    containing the start of the time-shift window to the one containing now; period k has id P<k>
    ([pd_nr]) and Period@start = k*P: they tile wall-clock time. *)
Theorem C06_tiles : forall pph seg mode cont ast snr st now ases ps,
  1 <= pph <= 3600 -> 0 < seg -> ast <= st <= now ->
  splitPeriod false None pph seg mode cont ast snr st now ases = Ok ps ->
  let P := periodDurOf pph in
  let k0 := (st - ast) / (P * 1000) in
  let k1 := (now - ast) / (P * 1000) in
  map pd_nr ps = seqZ k0 (Z.to_nat (k1 - k0 + 1)) /\
  map pd_start ps = map (fun k => k * P) (seqZ k0 (Z.to_nat (k1 - k0 + 1))) /\
  k0 <= k1 /\
  ast + k0 * P * 1000 <= st < ast + (k0 + 1) * P * 1000 /\
  ast + k1 * P * 1000 <= now < ast + (k1 + 1) * P * 1000.
Proof. exact splitPeriod_tiles. Qed.
Print Assumptions C06_tiles.

(** Ids are stable over time: in the results for any two instants (and any two single-period
    MPDs), a period's start is its number times P, so equal ids have equal starts and vice versa. *)
Theorem C06_ids_stable : forall pph seg mode cont ast snr st1 now1 st2 now2 ases1 ases2 ps1 ps2 p1 p2,
  1 <= pph <= 3600 -> 0 < seg -> ast <= st1 -> ast <= now1 -> ast <= st2 -> ast <= now2 ->
  splitPeriod false None pph seg mode cont ast snr st1 now1 ases1 = Ok ps1 ->
  splitPeriod false None pph seg mode cont ast snr st2 now2 ases2 = Ok ps2 ->
  In p1 ps1 -> In p2 ps2 ->
  pd_start p1 = pd_nr p1 * periodDurOf pph /\
  (pd_nr p1 = pd_nr p2 <-> pd_start p1 = pd_start p2).
Proof. exact splitPeriod_ids_stable. Qed.
Print Assumptions C06_ids_stable.

(** ** Partition of the single-period timeline (SegmentTimeline modes) *)

(** For every AdaptationSet that carries a SegmentTimeline (all but thumbnails, in both timeline
    modes), with a gap-free single-period timeline [es] whose values are in range: the
    concatenation of the periods' expanded timelines is the single-period timeline restricted to
    [k0*P*ts, (k1+1)*P*ts); period k holds exactly the segments that start in [k*P*ts, (k+1)*P*ts)
    with unchanged (t, d); its presentationTimeOffset is Period@start in the media timescale
    (so t - PTO + start*ts = t); in Timeline-Number mode its startNumber is the single-period
    startNumber plus the number of segments before the period (cf. [C06_numbers_kept]) - unless
    no listed segment reaches the period start, when the unchanged single-period startNumber is
    written next to an empty timeline. *)
Theorem C06_partition : forall pph seg mode cont ast snr st now ases ps j a es,
  1 <= pph <= 3600 -> 0 < seg -> ast <= st <= now ->
  splitPeriod false None pph seg mode cont ast snr st now ases = Ok ps ->
  nth_error ases j = Some a -> templateType mode a <> MNumber -> a_tl a = Some es ->
  let P := periodDurOf pph in
  let k0 := (st - ast) / (P * 1000) in
  let k1 := (now - ast) / (P * 1000) in
  let ts := tsOf a in
  goodTL es (snrFor mode a) ts ((k1 + 1) * P) ->
  flat_map (periodTimeline j) ps = filter (inWin (k0 * P * ts) ((k1 + 1) * P * ts)) (expandP es) /\
  Forall (fun p => periodTimeline j p = filter (inWin (pd_nr p * P * ts) ((pd_nr p + 1) * P * ts)) (expandP es) /\
                   periodPTO j p = Some (pd_start p * ts) /\
                   (mode = MTimelineNr ->
                    periodStartNr j p =
                    Some (if reaches (pd_nr p * P * ts) (expandP es)
                          then startNrOf (a_startNr a) + countBefore (pd_nr p * P * ts) (expandP es)
                          else startNrOf (a_startNr a)))) ps.
Proof. exact splitPeriod_partition. Qed.
Print Assumptions C06_partition.

(** When every listed segment starts before the end of the last period (which holds whenever the
    availabilityTimeOffset is smaller than the segment duration: a listed segment has ended by
    now + ato), the right-open window is the restriction to t >= start of the first period. *)
Theorem C06_partition_open : forall lo hi xs, Forall (fun x => fst x < hi) xs ->
  filter (inWin lo hi) xs = filter (fun x => lo <=? fst x) xs.
Proof. exact filter_win_open. Qed.
Print Assumptions C06_partition_open.

(** Every segment of the single-period timeline that starts in [k0*P, (k1+1)*P) is in exactly one
    period: the one containing its start. *)
Theorem C06_exactly_one : forall pph seg mode cont ast snr st now ases ps j a es,
  1 <= pph <= 3600 -> 0 < seg -> ast <= st <= now ->
  splitPeriod false None pph seg mode cont ast snr st now ases = Ok ps ->
  nth_error ases j = Some a -> templateType mode a <> MNumber -> a_tl a = Some es ->
  let P := periodDurOf pph in
  let k0 := (st - ast) / (P * 1000) in
  let k1 := (now - ast) / (P * 1000) in
  let ts := tsOf a in
  goodTL es (snrFor mode a) ts ((k1 + 1) * P) ->
  forall x, In x (expandP es) -> k0 * P * ts <= fst x < (k1 + 1) * P * ts ->
  exists p, In p ps /\ In x (periodTimeline j p) /\
            pd_start p * ts <= fst x < (pd_start p + P) * ts /\
            forall p', In p' ps -> In x (periodTimeline j p') -> pd_nr p' = pd_nr p.
Proof. exact splitPeriod_exactly_one. Qed.
Print Assumptions C06_exactly_one.

(** The first argument of [splitPeriod] says whether the tree contains the repair "period range
    covers listed segments" (the harness reads it from the source): [None] = the range is
    [period of the window start, period of now], [Some (atoMS, loopMS)] = it is widened to the periods of the
    first and the last listed segment of every SegmentTimeline, within [period of window start -
    loopMS, period of now + atoMS].  The theorems above are about [None] (and hold for [Some _] in $Number$ mode,
    where nothing is widened).

    WITHOUT the repair: a listed segment that starts at or after the end of the last period
    (availabilityTimeOffset of at least one segment duration) is in no period - ato_3, 2 s
    segments, periods_60, now = 59 s: the segment starting at 60 s is listed in single-period
    mode, P1 does not exist yet and P0 ends at 60 s (finding c06-ato-segment-beyond-last-period) ... *)
Theorem C06_late_segment_before_fix :
  existsb (fun x => fst x =? 5400000) (expandP atoTL) = true /\
  splitPeriod false None 60 2000 MTimelineTime false 0 0 0 59000
    [ {| a_image := false; a_ts := Some 90000; a_dur := None; a_startNr := None; a_tl := Some atoTL |} ] =
  Ok [ {| pd_nr := 0; pd_start := 0;
          pd_as := [ {| o_pto := 0; o_startNr := None; o_tl := Some [ {| p_t := Some 0; p_d := 180000; p_r := 29 |} ]; o_cont := false |} ] |} ].
Proof. exact late_segment_witness. Qed.
Print Assumptions C06_late_segment_before_fix.

(** ... and the newest ended segment, which the single-period timeline always lists, is in no
    period when it starts before the period of the window start (the text of C06 exempts it; with
    a time-shift buffer shorter than a segment nothing at all is listed: tsbd_1, 6 s segments,
    periods_30, now = 121 s - finding c06-listed-segment-before-first-period). *)
Theorem C06_early_segment_before_fix :
  splitPeriod false None 30 6000 MTimelineTime false 0 0 120000 121000 [earlyAS] =
  Ok [ {| pd_nr := 1; pd_start := 120; pd_as := [ {| o_pto := 10800000; o_startNr := None; o_tl := Some []; o_cont := false |} ] |} ].
Proof. exact early_segment_before_fix. Qed.
Print Assumptions C06_early_segment_before_fix.

(** WITH the repair both segments have their period ... *)
Theorem C06_late_early_segment_after_fix :
  splitPeriod false (Some (3000, 8000)) 60 2000 MTimelineTime false 0 0 0 59000
    [ {| a_image := false; a_ts := Some 90000; a_dur := None; a_startNr := None; a_tl := Some atoTL |} ] =
  Ok [ {| pd_nr := 0; pd_start := 0;
          pd_as := [ {| o_pto := 0; o_startNr := None; o_tl := Some [ {| p_t := Some 0; p_d := 180000; p_r := 29 |} ]; o_cont := false |} ] |};
       {| pd_nr := 1; pd_start := 60;
          pd_as := [ {| o_pto := 5400000; o_startNr := None; o_tl := Some [ {| p_t := Some 5400000; p_d := 180000; p_r := 0 |} ]; o_cont := false |} ] |} ] /\
  splitPeriod false (Some (0, 24000)) 30 6000 MTimelineTime false 0 0 120000 121000 [earlyAS] =
  Ok [ {| pd_nr := 0; pd_start := 0;
          pd_as := [ {| o_pto := 0; o_startNr := None; o_tl := Some [ {| p_t := Some 10260000; p_d := 540000; p_r := 0 |} ]; o_cont := false |} ] |};
       {| pd_nr := 1; pd_start := 120; pd_as := [ {| o_pto := 10800000; o_startNr := None; o_tl := Some []; o_cont := false |} ] |} ].
Proof. exact (conj late_segment_after_fix early_segment_after_fix). Qed.
Print Assumptions C06_late_early_segment_after_fix.

(** ... and in general: with the repair the concatenation of the periods' expanded timelines is
    the WHOLE single-period timeline of every AdaptationSet that carries a SegmentTimeline (first
    <S> with t, repeat counts >= 0, gap-free, values in range) - no hypothesis about the
    availabilityTimeOffset, the time-shift buffer or where the first and last segment start is
    left; each period still holds exactly the segments that start inside it, with the same
    presentationTimeOffset and startNumber statements.  [tlBound] only asks of every
    AdaptationSet a sane timescale and times below 2^63 (no wrap in first/periodTicks).
    Since commit ea1922e the widening is bounded; the last premise says that the first listed
    segment begins no earlier than the period one loop before the window start (e74431e: no
    segment is longer than the loop) and the last one
    not after the period of now + ato - true of every timeline LiveMPD produces (the first listed
    segment ends after the window start, the last begins before now + ato: the window shape
    proved for C02, theories/Window.v), stated here as a premise because the single-period
    timeline is an input of this model. *)
Theorem C06_partition_full : forall atoMS loopMS pph seg mode cont ast snr st now ases ps j a s0 rest t0 HI,
  1 <= pph <= 3600 -> 0 < seg -> ast <= st <= now -> mode <> MNumber ->
  splitPeriod false (Some (atoMS, loopMS)) pph seg mode cont ast snr st now ases = Ok ps ->
  nth_error ases j = Some a -> a_image a = false -> a_tl a = Some (s0 :: rest) -> p_t s0 = Some t0 ->
  Forall (fun s => 0 <= p_r s < two32) (s0 :: rest) ->
  let es := s0 :: rest in
  let P := periodDurOf pph in
  let k1 := (now - ast) / (P * 1000) in
  let ts := tsOf a in
  goodTL es (snrFor mode a) ts HI -> (k1 + 1) * P <= HI ->
  Forall (tlBound P HI) ases ->
  (forall f l, firstLast es = Some (f, l) ->
     kminOf (Some (atoMS, loopMS)) P ast st ((st - ast) / (P * 1000)) <= f / (P * ts) /\
     l / (P * ts) <= kmaxOf (Some (atoMS, loopMS)) P ast now k1) ->
  flat_map (periodTimeline j) ps = expandP es /\
  Forall (fun p => periodTimeline j p = filter (inWin (pd_nr p * P * ts) ((pd_nr p + 1) * P * ts)) (expandP es) /\
                   periodPTO j p = Some (pd_start p * ts) /\
                   (mode = MTimelineNr ->
                    periodStartNr j p =
                    Some (if reaches (pd_nr p * P * ts) (expandP es)
                          then startNrOf (a_startNr a) + countBefore (pd_nr p * P * ts) (expandP es)
                          else startNrOf (a_startNr a)))) ps.
Proof. exact splitPeriod_partition_full. Qed.
Print Assumptions C06_partition_full.

(** the widened range only grows, never leaves [kmin, kmax] = [startPeriodNr - 1, period of
    now + ato] (commit ea1922e: whatever the timeline says - a timeline with wrong times cannot
    make the number of periods explode), and reaches the period of every first and last listed
    segment that lies within these bounds *)
Theorem C06_widened_range : forall P kmin kmax ases k0 k1 ka kb,
  widenRange P ases kmin kmax k0 k1 = Ok (ka, kb) ->
  ka <= k0 /\ k1 <= kb /\ (kmin <= k0 -> kmin <= ka) /\ (k1 <= kmax -> kb <= kmax) /\
  (forall a ss f l, In a ases -> a_tl a = Some ss -> firstLast ss = Some (f, l) ->
     (kmin <= i64 (f / ptOf P a) -> ka <= i64 (f / ptOf P a)) /\
     (i64 (l / ptOf P a) <= kmax -> i64 (l / ptOf P a) <= kb)).
Proof. exact widenRange_covers. Qed.
Print Assumptions C06_widened_range.

(** ** $Number$ mode *)

(** Constant duration d with d | P*ts: period k (counted from availabilityStartTime) gets
    startNumber snr + k*P*ts/d and presentationTimeOffset k*P*ts = (startNumber - snr)*d. *)
Theorem C06_number_mode : forall mode cont snr k P a o d,
  templateType mode a = MNumber -> splitAS false mode cont snr k P a = Ok o -> a_dur a = Some d ->
  0 <= k -> 0 < P -> 0 < tsOf a -> 0 < d -> (P * tsOf a) mod d = 0 -> 0 <= snr ->
  k * P * tsOf a < two64 -> k * (P * tsOf a / d) + snr < two32 ->
  exists n, o_startNr o = Some n /\ n = snr + k * (P * tsOf a / d) /\ (n - snr) * d = k * P * tsOf a /\
            o_pto o = k * P * tsOf a.
Proof. exact number_mode_aligned. Qed.
Print Assumptions C06_number_mode.

(** With the repair "guard per adaptation set" ([splitAS true]) the code itself establishes that
    alignment for every $Number$ template - also for adaptation sets whose segment duration differs
    from the reference representation's - and returns the typed error (400) otherwise.  Without
    it ([splitAS false]) only the asset-wide guard of [C06_reject] exists: finding
    c06-number-mode-guard-only-reference-duration. *)
Theorem C06_number_guard : forall mode cont snr k P a d,
  templateType mode a = MNumber -> a_dur a = Some d -> 0 < d -> 0 <= P * tsOf a ->
  (forall o, splitAS true mode cont snr k P a = Ok o -> (P * tsOf a) mod d = 0) /\
  ((P * tsOf a) mod d <> 0 -> splitAS true mode cont snr k P a = Err rejectMsg).
Proof. exact splitAS_guard. Qed.
Print Assumptions C06_number_guard.

(** ... which is the number C01 gives the segment starting at k*P: in a constant-duration
    representation segment n of the looped timeline starts at n*d. *)
Theorem C06_number_is_C01 : forall r loopMS d, wf r loopMS -> Forall (fun s => sdur s = d) (segs r) ->
  forall n, 0 <= n -> S r n = n * d.
Proof. exact const_rep_S. Qed.
Print Assumptions C06_number_is_C01.

(** The guard of splitPeriod gives d | P*ts when asset.SegmentDurMS is exactly d/ts. *)
Theorem C06_guard_aligned : forall P seg ts d, 0 < seg -> 0 < ts -> 0 < d -> seg * ts = 1000 * d ->
  (P * 1000) mod seg = 0 -> (P * ts) mod d = 0.
Proof. exact guard_aligned. Qed.
Print Assumptions C06_guard_aligned.

(** start_1000 and snr_5 (commits 961c9dc, bde286d): periods are counted from
    availabilityStartTime and numbers are offset by the start number. *)
Theorem C06_snr_start_example :
  splitPeriod false None 60 2000 MNumber false 1000000 5 1060500 1120500
    [ {| a_image := false; a_ts := None; a_dur := Some 2; a_startNr := Some 5; a_tl := None |} ] =
  Ok [ {| pd_nr := 1; pd_start := 60; pd_as := [ {| o_pto := 60; o_startNr := Some 35; o_tl := None; o_cont := false |} ] |};
       {| pd_nr := 2; pd_start := 120; pd_as := [ {| o_pto := 120; o_startNr := Some 65; o_tl := None; o_cont := false |} ] |} ].
Proof. exact snr_start_example. Qed.
Print Assumptions C06_snr_start_example.

(** publishTime in multi-period $Number$ mode = availabilityStartTime + start of the last period. *)
Theorem C06_publish_number : forall w loopMS c now tsbdMS pph seg cont ases ps pt,
  1 <= pph <= 3600 -> 0 < seg -> startS c * 1000 <= now -> 0 <= tsbdMS ->
  livePeriods false w loopMS c now tsbdMS pph seg MNumber cont ases = Ok (ps, pt) ->
  pt = Some (startS c + (now - startS c * 1000) / (periodDurOf pph * 1000) * periodDurOf pph).
Proof. exact livePeriods_publish. Qed.
Print Assumptions C06_publish_number.

(** ** Stop time *)

(** From the stop time on (stop_/stoprel_) the multi-period result no longer depends on the
    instant of the request and is the split of the MPD of the stop instant; before it the stop time
    has no influence.  (The MPD is made static after the split, never instead of it.) *)
Theorem C06_stop_frozen : forall g w loopMS c now1 now2 s tsbdMS pph seg mode cont ases,
  s * 1000 <= now1 -> s * 1000 <= now2 ->
  livePeriodsStop g w loopMS c now1 (Some s) tsbdMS pph seg mode cont ases =
  livePeriodsStop g w loopMS c now2 (Some s) tsbdMS pph seg mode cont ases /\
  livePeriodsStop g w loopMS c now1 (Some s) tsbdMS pph seg mode cont ases =
  livePeriods g w loopMS c (s * 1000) tsbdMS pph seg mode cont ases.
Proof. exact stop_frozen. Qed.
Print Assumptions C06_stop_frozen.

Theorem C06_stop_before : forall g w loopMS c now s tsbdMS pph seg mode cont ases,
  now <= s * 1000 ->
  livePeriodsStop g w loopMS c now (Some s) tsbdMS pph seg mode cont ases =
  livePeriods g w loopMS c now tsbdMS pph seg mode cont ases.
Proof. exact stop_before. Qed.
Print Assumptions C06_stop_before.

(** ** Rejection, continuity, range of periods-per-hour *)

(** A period duration that is not a multiple of asset.SegmentDurMS is rejected with an error (the
    typed error errPeriodDuration, which the handler answers with 400 since commit e7eedfb), and
    nothing else is. *)
Theorem C06_reject : forall w pph seg mode cont ast snr st now ases,
  1 <= pph <= 3600 -> 0 < seg ->
  ((periodDurOf pph * 1000) mod seg <> 0 <->
   exists e, splitPeriod false w pph seg mode cont ast snr st now ases = Err e).
Proof. exact splitPeriod_reject. Qed.
Print Assumptions C06_reject.

(** asset.SegmentDurMS is the segment duration of the reference representation (commit 1baf557;
    before, the minimum over all representations let periods_1 through for the 29.97 fps asset,
    2000 ms from its audio track, with period 1 starting inside video segment 1798).  With the
    2.002 s of that asset every periods-per-hour value is rejected: no whole number of seconds
    3600/n is a multiple of 2.002 s. *)
Theorem C06_reject_2997 : forall w pph mode cont ast snr st now ases,
  1 <= pph <= 3600 -> exists e, splitPeriod false w pph 2002 mode cont ast snr st now ases = Err e.
Proof. exact reject_2997. Qed.
Print Assumptions C06_reject_2997.

(** Segments of 1.92 s: exactly the values whose whole-second period 3600/n (integer division) is
    a multiple of 48 s are accepted; periods_125 gives 28 s and is rejected although 28.8 s, the
    exact 125th of an hour, would be 15 segments - Period@start and the period bounds handed to
    reduceS are whole seconds, so a period is a whole number of seconds.  (The harness sweeps
    every value 1..3600 on generated assets with 1.92 s / 2.56 s / 3.84 s segments.) *)
Theorem C06_reject_1920 : forall w pph mode cont ast snr st now ases,
  1 <= pph <= 3600 ->
  ((periodDurOf pph) mod 48 <> 0 <-> exists e, splitPeriod false w pph 1920 mode cont ast snr st now ases = Err e).
Proof. exact reject_1920. Qed.
Print Assumptions C06_reject_1920.

(** Continuity is signalled in every AdaptationSet of every period iff requested. *)
Theorem C06_continuity : forall mode cont snr k P a o,
  splitAS false mode cont snr k P a = Ok o -> o_pto o = u64 (k * P * tsOf a) /\ o_cont o = cont.
Proof. exact splitAS_common. Qed.
Print Assumptions C06_continuity.

(** Every accepted value gives an MPD: with AdaptationSets as LiveMPD hands them over (a
    SegmentTimeline in the timeline modes, a non-zero @duration for $Number$ templates) the
    split succeeds - no panic, no other error. *)
Theorem C06_accepted_total : forall pph seg mode cont ast snr st now ases,
  1 <= pph <= 3600 -> 0 < seg -> (periodDurOf pph * 1000) mod seg = 0 -> ast <= st <= now ->
  Forall (wellShaped mode) ases ->
  exists ps, splitPeriod false None pph seg mode cont ast snr st now ases = Ok ps.
Proof. exact splitPeriod_total. Qed.
Print Assumptions C06_accepted_total.

(** periods-per-hour outside 1..3600 is refused by the configuration check (commit 9fbd9f7,
    HTTP 400) before splitPeriod is reached ... *)
Theorem C06_pph_range : forall w loopMS c now tsbdMS pph seg mode cont ases,
  pph <= 0 \/ 3600 < pph ->
  livePeriods false w loopMS c now tsbdMS pph seg mode cont ases = Err pphRangeMsg.
Proof. exact livePeriods_pph_range. Qed.
Print Assumptions C06_pph_range.

(** ... and that check is needed: splitPeriod itself divides by zero for 0 and for every value
    above 3600 (this was the panic of periods_0 / periods_5000 before the fix; the function is
    still exercised directly by the correspondence through the hook). *)
Theorem C06_pph_guard_needed :
  (forall w seg mode cont ast snr st now ases,
     splitPeriod false w 0 seg mode cont ast snr st now ases = Panic "splitPeriod: integer divide by zero") /\
  (forall w pph seg mode cont ast snr st now ases, 3600 < pph ->
     splitPeriod false w pph seg mode cont ast snr st now ases = Panic "splitPeriod: integer divide by zero").
Proof. exact (conj splitPeriod_pph_zero splitPeriod_pph_big). Qed.
Print Assumptions C06_pph_guard_needed.

(** ** Non-vacuity: testpic-like timeline (2 s segments at 90 kHz with one 4 s segment),
    periods_60, now = 100 s, window from 40 s: the hypotheses of C06_partition hold and the
    periods are P0 (38 s .. 60 s) and P1 (60 s .. 100 s). *)
Example C06_example :
  goodTL exTL (Some 19) 90000 120 /\
  splitPeriod false None 60 2000 MTimelineNr true 0 0 40000 100000 [exAS] =
  Ok [ {| pd_nr := 0; pd_start := 0;
          pd_as := [ {| o_pto := 0; o_startNr := Some 19;
                        o_tl := Some [ {| p_t := Some 3420000; p_d := 180000; p_r := 10 |} ]; o_cont := true |} ] |};
       {| pd_nr := 1; pd_start := 60;
          pd_as := [ {| o_pto := 5400000; o_startNr := Some 30;
                        o_tl := Some [ {| p_t := Some 5400000; p_d := 360000; p_r := 0 |};
                                       {| p_t := Some 5760000; p_d := 180000; p_r := 17 |} ]; o_cont := true |} ] |} ].
Proof. split; [apply goodTLb_ok|]; vm_compute; reflexivity. Qed.

Example C06_example_bound : tlBound 60 120 exAS.
Proof. exact tlBound_example. Qed.
