(** C06 — splitting into periods preserves the timeline and the segment identities.
    Only statements; every proof is [exact <lemma>] (lemmas in theories/PeriodsProofs.v).
    Model: theories/Periods.v (reduceS, splitPeriod, lastPeriodStartTime of livempd.go). *)
From Verif Require Import GoSem Timeline Periods PeriodsProofs.

(** reduceS, for ANY <S> list (t present or absent on every element, any repeat count, any
    order of times) and any period bounds: under the range condition that keeps the uint64/uint32
    arithmetic from wrapping, the expansion of the output is the part of the expanded input that
    the walk keeps ([window]: elements before the period start are skipped one by one, the first
    element at or after the period end stops the walk), provided neighbours of equal duration in
    that part abut ([runChain] - the run-length encoder merges equal durations without looking
    at the times); the output elements are maximal runs; for a time-sorted input the returned
    start number is the given one plus the number of segments before the period (and the given
    one unchanged when no segment reaches the period start). *)
Theorem C06_reduceS_any : forall es snr tsc pS0 pE0,
  let xs := expandP es in
  let ps := u64 (pS0 * u64 tsc) in
  let pe := u64 (pE0 * u64 tsc) in
  inRange xs -> 0 <= startNrOf snr -> startNrOf snr + lenZ xs < two32 ->
  runChain (window ps pe xs) ->
  expand (fst (reduceS es snr tsc pS0 pE0)) = window ps pe xs /\
  maximalRuns (fst (reduceS es snr tsc pS0 pE0)) /\
  (ps <= pe -> sortedT xs ->
   snd (reduceS es snr tsc pS0 pE0) =
   if reaches ps xs then startNrOf snr + countBefore ps xs else startNrOf snr).
Proof. exact reduceS_general. Qed.
Print Assumptions C06_reduceS_any.

(** The statement of DESIGN.md: for a gap-free timeline (every segment begins where the previous
    one ends) the expansion of reduceS's output is the FILTER of the expanded input to
    [p*ts, (p+P)*ts), the output elements are maximal runs, and the start number is
    nr + |{i | t_i < p*ts}|. *)
Theorem C06_reduceS : forall es snr tsc pS0 pE0,
  let xs := expandP es in
  let ps := pS0 * tsc in
  let pe := pE0 * tsc in
  chain xs -> inRange xs -> 0 <= startNrOf snr -> startNrOf snr + lenZ xs < two32 ->
  0 <= tsc < two64 -> 0 <= ps <= pe -> pe < two64 ->
  expand (fst (reduceS es snr tsc pS0 pE0)) = filter (inWin ps pe) xs /\
  maximalRuns (fst (reduceS es snr tsc pS0 pE0)) /\
  snd (reduceS es snr tsc pS0 pE0) =
    (if reaches ps xs then startNrOf snr + countBefore ps xs else startNrOf snr).
Proof. exact reduceS_spec. Qed.
Print Assumptions C06_reduceS.
