(** C07 — livesim2 responses are a pure function of (URL, time) and race-free.
    Only statements; proofs are [exact <lemma>] (theories/Conc.v, LookupProofs.v) or [vm_compute] over
    the access tables that accessgen regenerates from the Go sources (gen/Access.v).

    What is proved here, and what is not (level: proof, PARTIAL):
    (i)   C07_frame — generic: handlers that read shared state and write only request-local state
          give, in every interleaving with any other requests, the response they give alone.
          Its premise is discharged on the generated tables: C07_handlers_write_no_shared_state.
    (ii)  C07_lockset_* — race_pairs over the generated tables: empty for the asset state and (since
          fix commit ee6ff88) for the CMAF-ingester manager and its sessions.
    (iii) C07_find_asset / C07_find_rep — the two look-ups that range over Go maps, modelled with
          an arbitrary iteration order: functions of the URL for the code as it is now (longest
          matching asset path; anchored quoted pattern, under a stated hypothesis on the media
          templates); for the code as found both are refuted (two findings, both fixed).
    Not proved here: that the code between look-up and response (LiveMPD, createOutSeg, …) is the
    pure function the other properties' models say it is — those models have no state argument
    (C01–C06, C09–C14), and the tie to the code is this property's request mix (byte comparison
    across histories, schedules and server instances), i.e. sampled, not proved. *)
From Verif Require Import GoSem Conc Lookup LookupProofs.
From VerifGen Require Import Access.
From Coq Require Import Permutation.

(** * (i) Frame *)

Theorem C07_frame : forall (Sh L : Type) (sh : Sh) (reqs : list (request Sh L)) sched i l,
  nth_error (frun Sh L sh (start Sh L reqs) sched) i = Some (l, []) ->
  exists r, nth_error reqs i = Some r /\ l = alone Sh L sh r.
Proof. exact frame.
Qed.
Print Assumptions C07_frame.

(** The same request, two different sets of concurrent requests, two different schedules. *)
Theorem C07_frame_independent : forall (Sh L : Type) (sh : Sh) r others1 others2 sched1 sched2 l1 l2,
  nth_error (frun Sh L sh (start Sh L (r :: others1)) sched1) 0 = Some (l1, []) ->
  nth_error (frun Sh L sh (start Sh L (r :: others2)) sched2) 0 = Some (l2, []) ->
  l1 = l2.
Proof. exact frame_independent.
Qed.
Print Assumptions C07_frame_independent.

(** The premise of the frame theorem on the code: no function reachable from an HTTP handler
    writes a field of assetMgr, asset, RepData, repEncData, Server, ServerConfig or a package-level
    variable of cmd/livesim2/app (tables regenerated from the sources on every run). *)
Definition C07_asset_tables : list (list access) :=
  [Access.assetMgr; Access.asset; Access.RepData; Access.repEncData; Access.Server; Access.ServerConfig; Access.globals_livesim2].

Theorem C07_tables_present :
  Access.missing = [] /\ forallb (fun T => negb (Nat.eqb (length T) 0)) C07_asset_tables = true.
Proof. vm_compute. split; reflexivity.
Qed.

Theorem C07_handlers_write_no_shared_state :
  forallb (fun T => writes_known T []) C07_asset_tables = true.
Proof. vm_compute. reflexivity.
Qed.
Print Assumptions C07_handlers_write_no_shared_state.

(** * (ii) Lock sets *)

Theorem C07_lockset_assets : forallb (fun T => races_known T []) C07_asset_tables = true.
Proof. vm_compute. reflexivity.
Qed.
Print Assumptions C07_lockset_assets.

(** Hence: no data race on the asset state, in any schedule of any number of goroutines. *)
Theorem C07_asset_state_race_free : forall T, In T C07_asset_tables ->
  forall tr, valid multi_all T tr ->
  forall pre mid post t1 a1 t2 a2,
    tr = pre ++ EAcc t1 a1 :: mid ++ EAcc t2 a2 :: post ->
    t1 <> t2 -> a_field a1 = a_field a2 -> a_write a1 || a_write a2 = true ->
    hb tr (length pre) (length pre + 1 + length mid).
Proof. exact (races_known_all_race_free C07_asset_tables C07_lockset_assets).
Qed.
Print Assumptions C07_asset_state_race_free.

(** The CMAF-ingester manager and its sessions (REST API). Since fix commit ee6ff88 the two maps of
    cmafIngesterMgr are accessed only inside its mutex and state/report of a session only inside the
    session's mutex: the regenerated tables have no unprotected conflicting pair, and the only
    writes by handlers are the two locked insertions. *)
Definition C07_ingester_tables : list (list access) := [Access.cmafIngesterMgr; Access.cmafIngester].

Definition C07_known_mgr_writes : list kwrite :=
  [("cancels[]", ("cmafIngesterMgr.setCancel", "W:handler:[L:mu]"));
   ("ingesters[]", ("cmafIngesterMgr.addIngester", "W:handler:[L:mu]"))].

Theorem C07_lockset_ingester :
  forallb (fun T => races_known T []) C07_ingester_tables = true /\
  writes_known Access.cmafIngesterMgr C07_known_mgr_writes = true /\
  writes_known Access.cmafIngester [] = true /\
  forallb (fun T => negb (Nat.eqb (length T) 0)) C07_ingester_tables = true.
Proof. vm_compute. repeat split.
Qed.
Print Assumptions C07_lockset_ingester.

(** Hence no data race on the ingester manager and the sessions, in any schedule. *)
Theorem C07_ingester_race_free : forall T, In T C07_ingester_tables ->
  forall tr, valid multi_all T tr ->
  forall pre mid post t1 a1 t2 a2,
    tr = pre ++ EAcc t1 a1 :: mid ++ EAcc t2 a2 :: post ->
    t1 <> t2 -> a_field a1 = a_field a2 -> a_write a1 || a_write a2 = true ->
    hb tr (length pre) (length pre + 1 + length mid).
Proof. exact (races_known_all_race_free C07_ingester_tables (proj1 C07_lockset_ingester)).
Qed.
Print Assumptions C07_ingester_race_free.

(** As found (parent of ee6ff88; fixed findings c07-ingester-mgr-maps, c07-ingester-state): the create
    handler wrote the map while the info handler read it, neither holding a lock - flagged by the
    decision, and really unordered: a valid schedule in which the two accesses are not ordered by
    happens-before. The same for the session goroutine's write of [report] and the info handler's read. *)
Theorem C07_ingester_asfound_refuted :
  let w := mkAccess "ingesters[]" "cmafIngesterMgr.NewCmafIngester" true RHandler [] in
  let r := mkAccess "ingesters[]" "createGetCmafIngesterInfoHdlr$closure" false RHandler [] in
  races multi_all w r = true /\
  valid multi_all [w; r] (unordered_trace w r "none") /\
  ~ hb (unordered_trace w r "none") 1 2.
Proof. exact ingester_asfound_races.
Qed.
Print Assumptions C07_ingester_asfound_refuted.

(** * (iii) The look-ups that range over Go maps

    A range over a Go map is modelled as a run over an arbitrary permutation of the keys.
    The checked tree contains the fix commits 5fe544f (findAsset keeps the longest matching path)
    and a92686d (media pattern quoted and anchored); [find_asset_longest] and
    [media_match_anchored] are the models of the code as it is, [find_asset_rel] /
    [media_search] of the code as it was found. *)

(** findAsset is a function of the URI for every set of asset paths, whatever the iteration order. *)
Theorem C07_find_asset : forall o1 o2 uri,
  Permutation o1 o2 -> find_asset_longest o1 uri = find_asset_longest o2 uri.
Proof. exact find_asset_longest_order_independent.
Qed.
Print Assumptions C07_find_asset.

(** It returns a matching path of maximal length, and "not found" exactly when no path matches. *)
Theorem C07_find_asset_spec : forall order uri,
  match find_asset_longest order uri with
  | None => forall b, In b order -> asset_matches uri b = false
  | Some a => In a order /\ asset_matches uri a = true /\
              forall b, In b order -> asset_matches uri b = true -> (length b <= length a)%nat
  end.
Proof. exact find_asset_longest_max.
Qed.
Print Assumptions C07_find_asset_spec.

(** As found (first match in map order) it returned any of the matching paths ... *)
Theorem C07_find_asset_asfound_any : forall assets uri a,
  find_asset_rel assets uri (Some a) <-> In a assets /\ asset_matches uri a = true.
Proof. exact find_asset_rel_some.
Qed.
Print Assumptions C07_find_asset_asfound_any.

(** ... which made it a function only when no asset directory lies below another one
    (there the repair changes nothing) ... *)
Theorem C07_find_asset_asfound_prefix_free : forall assets uri r,
  prefix_free assets -> find_asset_rel assets uri r -> r = find_asset_longest assets uri.
Proof. exact find_asset_longest_agrees.
Qed.
Print Assumptions C07_find_asset_asfound_prefix_free.

(** ... and not in general (fixed finding c07-nested-assets): assets x and x/y, request x/y/Manifest.mpd. *)
Theorem C07_find_asset_asfound_refuted :
  let assets := [str_of "x"; str_of "x/y"] in
  let uri := str_of "x/y/Manifest.mpd" in
  find_asset_rel assets uri (Some (str_of "x")) /\ find_asset_rel assets uri (Some (str_of "x/y")).
Proof. exact find_asset_nested_refuted.
Qed.
Print Assumptions C07_find_asset_asfound_refuted.

(** findRepAndSegmentID with the pattern ^QuoteMeta(pre)(\d+)QuoteMeta(suf)$: what it accepts ... *)
Theorem C07_anchored_pattern : forall pre suf s ds,
  media_match_anchored pre suf s = Some ds ->
  s = pre ++ ds ++ suf /\ ds <> [] /\ forallb is_digit ds = true.
Proof. exact media_match_anchored_spec.
Qed.
Print Assumptions C07_anchored_pattern.

(** ... a segment path is matched by at most one representation, when the representations share
    the suffix part, the prefix parts end in a non-digit and determine the representation (the
    usual $RepresentationID$/$Number$.m4s) ... *)
Theorem C07_find_rep_at_most_one : forall reps seg r r' d d',
  reps_wf reps -> In r reps -> In r' reps ->
  media_match_anchored (r_pre r) (r_suf r) seg = Some d ->
  media_match_anchored (r_pre r') (r_suf r') seg = Some d' ->
  r_id r = r_id r' /\ d = d'.
Proof. exact anchored_at_most_one.
Qed.
Print Assumptions C07_find_rep_at_most_one.

(** ... hence the representation and number found do not depend on the iteration order. *)
Theorem C07_find_rep : forall reps seg res1 res2,
  reps_wf reps ->
  find_rep_rel media_match_anchored reps seg res1 -> find_rep_rel media_match_anchored reps seg res2 ->
  res1 = res2.
Proof. exact find_rep_anchored_function.
Qed.
Print Assumptions C07_find_rep.

(** The hypothesis on the templates cannot be dropped: nothing between $RepresentationID$ and
    $Number$, ids "a" and "a1", request a12.m4s (no such asset is bundled; recorded as an
    assumption of the property, not as a finding). *)
Theorem C07_find_rep_nosep_refuted :
  let reps := [mkRep (str_of "a") (str_of "a") (str_of ".m4s"); mkRep (str_of "a1") (str_of "a1") (str_of ".m4s")] in
  let seg := str_of "a12.m4s" in
  find_rep_rel media_match_anchored reps seg (Some (str_of "a", 12)) /\
  find_rep_rel media_match_anchored reps seg (Some (str_of "a1", 2)).
Proof. exact find_rep_anchored_nosep_refuted.
Qed.
Print Assumptions C07_find_rep_nosep_refuted.

(** As found (unanchored, unquoted) the look-up was not a function even for the usual template
    (fixed finding c07-rep-id-substring): representations "1" and "11", request 11/48.m4s. *)
Theorem C07_find_rep_asfound_refuted :
  let reps := [rep_of_id "1"; rep_of_id "11"] in
  let seg := str_of "11/48.m4s" in
  reps_wf reps /\
  find_rep_rel media_search reps seg (Some (str_of "1", 48)) /\
  find_rep_rel media_search reps seg (Some (str_of "11", 48)).
Proof. exact find_rep_unanchored_refuted.
Qed.
Print Assumptions C07_find_rep_asfound_refuted.

(** Non-vacuity. *)
Example C07_example_lookup :
  prefix_free [str_of "testpic_2s"; str_of "testpic_8s"; str_of "WAVE/vectors/t1"] /\
  find_asset_longest [str_of "x"; str_of "x/y"] (str_of "x/y/V1/3.m4s") = Some (str_of "x/y") /\
  find_asset_longest [str_of "x/y"; str_of "x"] (str_of "x/V1/3.m4s") = Some (str_of "x") /\
  first_rep media_match_anchored [rep_of_id "1"; rep_of_id "11"] (str_of "11/48.m4s") = Some (str_of "11", 48) /\
  first_rep media_match_anchored [rep_of_id "11"; rep_of_id "1"] (str_of "1/48.m4s") = Some (str_of "1", 48).
Proof.
  split; [|vm_compute; repeat split].
  intros a b [<-|[<-|[<-|[]]]] [<-|[<-|[<-|[]]]] N; try (vm_compute; reflexivity); exfalso; apply N; reflexivity.
Qed.

Example C07_example_frame :
  (* two requests, each adds the shared value to its local state twice; interleaved 0,1,1,0 *)
  let step : hstep Z Z := fun sh l => l + sh in
  let reqs := [mkReq Z Z 1 [step; step]; mkReq Z Z 100 [step; step]] in
  frun Z Z 10 (start Z Z reqs) [0; 1; 1; 0]%nat = [(21, []); (120, [])] /\
  alone Z Z 10 (mkReq Z Z 1 [step; step]) = 21.
Proof. vm_compute. split; reflexivity.
Qed.
