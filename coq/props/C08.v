(** C08 - no request can crash a handler or make it spin.
    Only statements; every proof is [exact <lemma>] (theories/UrlCfgProofs.v, UrlWitness.v).

    [fx : fixes] says which of the proposed repairs a tree contains; [current] (UrlFixes.v) is the
    tree under test and is what the correspondence runs against.  The full statement - no request
    makes [handler_model] panic or hang - is false of [current] while any field of it is [false]:
    the C08_refuted_* theorems give a witness request per site. *)
From Coq Require Import Ascii String List ZArith Bool Floats.
From Verif Require Import GoSem UrlStr UrlFixes UrlCfg UrlHandler UrlCfgProofs UrlWitness.

(** ** The URL-configuration parser *)

(** For ANY path and clock the parser (all 41 keys, the accumulated error, verifyAndFillConfig)
    returns a configuration or an error; it can only panic at the stoprel dereference and at the
    annexI index, and only on a tree without the respective repair.  Induction over the parts. *)
Theorem C08_parser_total : forall fx path now s,
  process_url_cfg fx path now = Panic s ->
  (fx_stoprel fx = false /\ s = "app.processURLCfg: nil dereference") \/
  (fx_annexI fx = false /\ s = "app.(*strConvAccErr).ParseQuery: index out of range").
Proof. exact parser_total. Qed.
Print Assumptions C08_parser_total.

Theorem C08_parser_total_guarded : forall fx path now,
  fx_stoprel fx = true -> fx_annexI fx = true -> forall s, process_url_cfg fx path now <> Panic s.
Proof. exact parser_total_guarded. Qed.
Print Assumptions C08_parser_total_guarded.

(** On any tree: a URL without a stoprel_ and without an annexI_ part cannot make the parser panic. *)
Theorem C08_parser_total_without_keys : forall fx path now s,
  no_key is_stoprel is_annexI (split_on "/"%char (plus_to_space path)) = true ->
  process_url_cfg fx path now <> Panic s.
Proof. exact parser_total_without_keys. Qed.
Print Assumptions C08_parser_total_without_keys.

(** A configuration returned by the parser never has a nil TimeShiftBufferDepthS or StartNr (the
    handlers dereference both unchecked), and carries the guards of the repairs in the parser. *)
Theorem C08_parser_establishes_G : forall fx path now c,
  process_url_cfg fx path now = Ok c ->
  c_tsbd c <> None /\ c_startNr c <> None /\
  (fx_periods fx = true -> match c_pph c with Some n => 1 <= n <= 3600 | None => True end) /\
  (fx_subsdur fx = true -> 0 < c_subsDurMS c) /\
  (fx_snr fx = true -> match c_startNr c with Some n => -2147483648 <= n <= maxu32 | None => True end) /\
  0 <= now.
Proof. exact parser_establishes. Qed.
Print Assumptions C08_parser_establishes_G.

(** ** Status classes *)

(** A parse error anywhere in the URL is a 400 whose body carries the parser's message ... *)
Theorem C08_status_class_parse_error : forall fx e path nowArg uq now m,
  atoi nowArg = Some now -> process_url_cfg fx path now = Err m ->
  live_handler fx e path nowArg uq = HStatus 400 m.
Proof. exact parse_error_is_400. Qed.
Print Assumptions C08_status_class_parse_error.

(** ... which names the key for every value strconv rejects. *)
Theorem C08_status_class_key_in_message : forall key val, atoi val = None ->
  sc_atoi None key val = (0, Some ("key=" +++ key +++ ", err=")) /\
  sc_atoi_ptr None key val = (None, Some ("key=" +++ key +++ ", err=")).
Proof. exact (fun key val H => conj (sc_atoi_error key val H) (sc_atoi_ptr_error key val H)). Qed.
Print Assumptions C08_status_class_key_in_message.

Theorem C08_status_class_bad_now : forall fx e path nowArg uq,
  atoi nowArg = None -> live_handler fx e path nowArg uq = HStatus 400 "bad nowMS query".
Proof. exact bad_now_is_400. Qed.
Print Assumptions C08_status_class_bad_now.

Theorem C08_status_class_unknown_asset : forall fx e path nowArg uq now c,
  atoi nowArg = Some now -> process_url_cfg fx path now = Ok c -> c_timeOffset c = None ->
  (now <? i64 (c_startS c * 1000)) = false ->
  find_asset (e_assets e) (join "/" (dropZ (c_contentIdx c) (c_parts c))) = None ->
  live_handler fx e path nowArg uq = HStatus 404 "unknown asset".
Proof. exact unknown_asset_is_404. Qed.
Print Assumptions C08_status_class_unknown_asset.

Theorem C08_status_class_below_start : forall fx r loopMS c segPart segID now,
  rep_type c segPart = 0 -> u32 segID < u32 (start_nr c) ->
  lookup_plain fx r loopMS c segPart segID now = Ret e404.
Proof. exact below_start_is_404_plain. Qed.
Print Assumptions C08_status_class_below_start.

Theorem C08_status_class_below_start_audio : forall fx a r c segPart segID now,
  rep_type c segPart = 0 -> u32 segID < u32 (start_nr c) ->
  find_ref_seg_meta fx a r c segPart segID now = Ret e404.
Proof. exact below_start_is_404_audio. Qed.
Print Assumptions C08_status_class_below_start_audio.

Theorem C08_status_class_unknown_rep : forall fx a c segPart now,
  find_rep (a_reps a) segPart = RMnone -> create_out_seg fx a c segPart now = Ret e404.
Proof. exact unknown_rep_is_404. Qed.
Print Assumptions C08_status_class_unknown_rep.

(** ** The full statement is false of the tree as found: one witness per site *)
Theorem C08_refuted_stoprel : fx_stoprel current = false ->
  exists r, handler_model current envW r = HPanic "app.processURLCfg: nil dereference".
Proof. exact refuted_stoprel. Qed.
Theorem C08_refuted_annexI : fx_annexI current = false ->
  exists r, handler_model current envW r = HPanic "app.(*strConvAccErr).ParseQuery: index out of range".
Proof. exact refuted_annexI. Qed.
Theorem C08_refuted_traffic_empty : fx_loss current = false ->
  exists r, handler_model current envW r = HPanic "app.LossItvls.StateAt: integer divide by zero".
Proof. exact refuted_traffic_empty. Qed.
Theorem C08_refuted_traffic_wrap : fx_loss current = false ->
  exists r, handler_model current envW r = HPanic "app.LossItvls.StateAt: integer divide by zero".
Proof. exact refuted_traffic_wrap. Qed.
Theorem C08_refuted_traffic_index : fx_traffic_idx current = false ->
  exists r, handler_model current envW r = HPanic "app.(*Server).livesimHandlerFunc: index out of range".
Proof. exact refuted_traffic_index. Qed.
Theorem C08_refuted_periods_zero : fx_periods current = false ->
  exists r, handler_model current envW r = HPanic "app.splitPeriod: integer divide by zero".
Proof. exact refuted_periods_zero. Qed.
Theorem C08_refuted_periods_5000 : fx_periods current = false ->
  exists r, handler_model current envW r = HPanic "app.splitPeriod: integer divide by zero".
Proof. exact refuted_periods_5000. Qed.
Theorem C08_refuted_periods_negative : fx_periods current = false ->
  exists r, handler_model current envW r = HPanic "app.lastPeriodStartTime: index out of range".
Proof. exact refuted_periods_negative. Qed.
Theorem C08_refuted_periods_cap : fx_periods current = false ->
  exists r, handler_model current envW r = HPanic "app.splitPeriod: makeslice: cap out of range".
Proof. exact refuted_periods_cap. Qed.
Theorem C08_refuted_timesubsdur_zero : fx_subsdur current = false ->
  exists r, handler_model current envW r = HPanic "app.calcCueItvls: integer divide by zero".
Proof. exact refuted_timesubsdur_zero. Qed.
Theorem C08_refuted_timesubsdur_spin : fx_subsdur current = false ->
  exists r, handler_model current envW r = HHang "app.calcCueItvls: loop".
Proof. exact refuted_timesubsdur_spin. Qed.
Theorem C08_refuted_chunkdur : fx_chunkdur current = false -> fx_chunk_cap current = false ->
  exists r, handler_model current envW r = HPanic "app.chunkSegment: integer divide by zero".
Proof. exact refuted_chunkdur. Qed.
Theorem C08_refuted_chunkdur_wrap : fx_chunkdur current = false -> fx_chunk_cap current = false ->
  exists r, handler_model current envW r = HPanic "app.chunkSegment: integer divide by zero".
Proof. exact refuted_chunkdur_wrap. Qed.
Theorem C08_refuted_chunk_sleep : fx_chunkdur current = false ->
  exists r, handler_model current envW r = HHang "app.writeChunkedSegment: sleep".
Proof. exact refuted_chunk_sleep. Qed.
Theorem C08_refuted_timesubs_startnr : fx_subs_startnr current = false ->
  exists r, handler_model current envW r = HPanic "app.findSegMetaFromNr: index out of range".
Proof. exact refuted_timesubs_startnr. Qed.
Theorem C08_refuted_snr_truncated : fx_snr current = false ->
  exists r, handler_model current envW r = HPanic "app.findSegMetaFromNr: index out of range".
Proof. exact refuted_snr_truncated. Qed.
Theorem C08_refuted_statuscode_startnr : fx_status_startnr current = false ->
  exists r, handler_model current envW r = HPanic "app.findSegStartTime: index out of range".
Proof. exact refuted_statuscode_startnr. Qed.
Theorem C08_refuted_statuscode_cycle : fx_status_cycle current = false ->
  exists r, handler_model current envW r = HPanic "app.calcStatusCode: integer divide by zero".
Proof. exact refuted_statuscode_cycle. Qed.
Theorem C08_refuted_drm_init : fx_drm current = false ->
  exists r, handler_model current envW r = HPanic "app.matchInit: nil dereference".
Proof. exact refuted_drm_init. Qed.
Theorem C08_refuted_drm_media : fx_drm current = false ->
  exists r, handler_model current envW r = HPanic "app.encryptFrags: nil dereference".
Proof. exact refuted_drm_media. Qed.
Theorem C08_refuted_eccp_text : fx_drm current = false ->
  exists r, handler_model current envW r = HPanic "app.encryptFrags: nil dereference".
Proof. exact refuted_eccp_text. Qed.
Theorem C08_refuted_kid : fx_kid current = false ->
  exists r, handler_model current envW r = HPanic "app.kidToKey: keyID does not start with 3 k i d bytes".
Proof. exact refuted_kid. Qed.
Theorem C08_refuted_urlgen_tsbd : fx_urlgen_create current = false ->
  exists r, handler_model current envW r = HPanic "app.createURL: bad tsbd".
Proof. exact refuted_urlgen_tsbd. Qed.
Theorem C08_refuted_urlgen_ltgt : fx_urlgen_create current = false ->
  exists r, handler_model current envW r = HPanic "app.createURL: bad ltgt".
Proof. exact refuted_urlgen_ltgt. Qed.
Theorem C08_refuted_urlgen_patch_ttl : fx_urlgen_create current = false ->
  exists r, handler_model current envW r = HPanic "app.createURL: bad patch-ttl".
Proof. exact refuted_urlgen_patch_ttl. Qed.
Theorem C08_refuted_urlgen_drms : fx_urlgen_drms current = false ->
  exists r, handler_model current envW r = HPanic "app.(*Server).urlGenHandlerFunc: index out of range".
Proof. exact refuted_urlgen_drms. Qed.
Print Assumptions C08_refuted_urlgen_drms.

(** Found while composing the totality proof of the MPD path (2026-10-01): a stop time before the start time. *)
Theorem C08_refuted_stop_before_start : fx_stop_order current = false ->
  exists r, handler_model current envW r = HPanic "app.lastPeriodStartTime: index out of range".
Proof. exact refuted_stop_before_start. Qed.
Theorem C08_refuted_stop_before_start_cap : fx_stop_order current = false ->
  exists r, handler_model current envW r = HPanic "app.splitPeriod: makeslice: cap out of range".
Proof. exact refuted_stop_before_start_cap. Qed.

(** A configuration-looking component behind the asset path (reported by a seed agent, 2026-10-02). *)
Theorem C08_refuted_location_parts : fx_location current = false ->
  exists r, handler_model current envW r = HPanic "app.LiveMPD: nil dereference".
Proof. exact refuted_location_parts. Qed.

(** With every repair recorded, each of the 26 witness requests gets a deliberate status. *)
Theorem C08_witnesses_repaired :
  map (fun r => status_of (handler_model all_fixed envW r)) all_witnesses =
  [400; 400; 400; 400; 400; 400; 400; 400; 400; 400; 400; 400; 400; 400; 404; 400; 404; 400; 400; 400; 200;
   400; 400; 400; 400; 200].
Proof. exact witnesses_repaired. Qed.
Print Assumptions C08_witnesses_repaired.

(** ** Totality under the guards *)

(** Licence and urlgen requests: the full statement under the guard G (key ids with the livesim2
    prefix; integer tsbd/ltgt/patch-ttl; a DRM configuration for /urlgen/drms) - each conjunct is
    dropped by the corresponding repair. *)
Theorem C08_total_guarded_other : forall fx e r,
  G_other fx e r = true -> is_bad (handler_model fx e r) = false.
Proof. exact other_requests_total. Qed.
Print Assumptions C08_total_guarded_other.

Theorem C08_total_other_fixed : forall fx e r,
  fx_kid fx = true -> fx_urlgen_create fx = true -> fx_urlgen_drms fx = true ->
  match r with RLive _ _ _ => True | _ => is_bad (handler_model fx e r) = false end.
Proof. exact other_requests_total_fixed. Qed.
Print Assumptions C08_total_other_fixed.

(** GET /livesim2, composed over the whole handler (cfgFromRequest, livesimHandlerFunc, the
    traffic gate, writeSegment, LiveMPD): on a tree with the repairs named in the premises, for
    well-formed assets, NO request panics or hangs, provided it satisfies [G_live]: segments written
    in one piece (no chunkdur_), no statuscode_ and no traffic_ patterns, a cue duration whose
    float ceiling is positive, no timeoffset_, no startrel_/stoprel_, times far from the int64 limits, and a content part
    that is not itself the path of an asset.  Everything else the proof needs (tsbd and StartNr not
    nil and in range, periods in 1..3600, start <= stop, the parser cannot panic) is established by
    the parser inside the proof.  PARTIAL in exactly these exclusions: the chunked writer (guarded since
    /repo 6ca1ef6, sleep bound C08_chunk_sleep_bounded_partial), status_loop and the traffic gate
    are proved as components but not composed. *)
Theorem C08_total_guarded_live : forall fx e path nowArg uq,
  fx_stoprel fx = true -> fx_annexI fx = true -> fx_periods fx = true -> fx_snr fx = true ->
  fx_drm fx = true -> fx_subs_startnr fx = true -> fx_stop_order fx = true ->
  Forall wf_asset (e_assets e) ->
  (forall now c, atoi nowArg = Some now -> process_url_cfg fx path now = Ok c -> G_live e now c) ->
  is_bad (live_handler fx e path nowArg uq) = false.
Proof. exact live_handler_total. Qed.
Print Assumptions C08_total_guarded_live.

(** its two halves, usable on their own *)
Theorem C08_total_guarded_mpd : forall fx e a c mpdName nowMS tsbd,
  c_tsbd c = Some tsbd -> 0 <= tsbd <= 172800 -> a_loopMS a <> 0 -> a_segDurMS a <> 0 ->
  match c_pph c with Some n => 1 <= n <= 3600 | None => True end ->
  small (c_startS c * 1000) -> small nowMS -> c_startS c * 1000 <= nowMS ->
  match c_stopS c with Some st => c_startS c <= st /\ small (st * 1000) | None => True end ->
  c_addLocation c = false ->
  is_bad (live_mpd fx e a c mpdName nowMS) = false.
Proof. exact live_mpd_safe. Qed.
Print Assumptions C08_total_guarded_mpd.

Theorem C08_total_guarded_segment : forall fx e a c sp now,
  wf_asset a -> c_tsbd c <> None -> snr_ok c -> drm_ok fx e c -> cue_ok c ->
  fx_subs_startnr fx = true -> c_complete c = true -> c_codes c = [] ->
  is_bad (write_segment fx e a c sp now) = false.
Proof. exact write_segment_safe. Qed.
Print Assumptions C08_total_guarded_segment.

(** the hypotheses are satisfiable: a concrete environment and request *)
Example C08_total_guarded_live_example :
  is_bad (live_handler all_fixed envW "/livesim2/tsbd_30/periods_60/snr_7/timesubsstpp_en/a/V/45.m4s" "100000" []) = false.
Proof. exact live_handler_total_applies. Qed.

(** The components that are not yet composed (and the ones used above). *)
Theorem C08_total_guarded_partial_seg_index : forall r loopMS c nr now,
  r_segs r <> [] -> c_tsbd c <> None -> 0 <= nr - start_nr c < two63 ->
  hm_bad (seg_meta_from_nr r loopMS c nr now) = false.
Proof. exact seg_meta_from_nr_safe. Qed.
Print Assumptions C08_total_guarded_partial_seg_index.

Theorem C08_total_guarded_partial_traffic : forall fx c segPart now,
  String.prefix "/" segPart = true -> cycles_ok c = true ->
  (fx_traffic_idx fx = true \/
   forall nr sp, extract_pattern segPart = Ok (nr, sp) -> nr < lenZ (c_traffic c)) ->
  hm_bad (traffic_gate fx c segPart now) = false.
Proof. exact traffic_gate_safe. Qed.
Print Assumptions C08_total_guarded_partial_traffic.

Theorem C08_total_guarded_partial_periods : forall fx a c pph startMS nowMS,
  1 <= pph <= 3600 -> a_segDurMS a <> 0 -> 0 <= startMS <= nowMS ->
  is_bad (split_period fx a c pph startMS nowMS) = false.
Proof. exact split_period_safe. Qed.
Print Assumptions C08_total_guarded_partial_periods.

Theorem C08_total_guarded_partial_cues : forall segStart segDur utcStart cueDur,
  0 < f_to_int (f_ceil (PrimFloat.mul (f_of_int cueDur) f_milli)) < 9000000000000000 ->
  hm_bad (calc_cue_itvls segStart segDur utcStart cueDur) = false.
Proof. exact calc_cue_itvls_safe. Qed.
Print Assumptions C08_total_guarded_partial_cues.


(** ** The tree under test ([current]): the repairs are in, the guards are established by the code *)

(** No URL whatsoever makes the parser of the current tree panic (formerly refuted by stoprel_x
    and annexI_a). *)
Theorem C08_parser_total_current : forall path now s, process_url_cfg current path now <> Panic s.
Proof. exact (fun path now => parser_total_guarded current path now eq_refl eq_refl). Qed.
Print Assumptions C08_parser_total_current.

(** Every configuration the current parser returns satisfies the guards of the period split, of
    the cue-interval loop and of the start-number comparison. *)
Theorem C08_parser_establishes_current : forall path now c,
  process_url_cfg current path now = Ok c ->
  c_tsbd c <> None /\ c_startNr c <> None /\
  match c_pph c with Some n => 1 <= n <= 3600 | None => True end /\
  0 < c_subsDurMS c /\
  match c_startNr c with Some n => -2147483648 <= n <= maxu32 | None => True end /\
  0 <= now.
Proof.
  exact (fun path now c H =>
    match parser_establishes current path now c H with
    | conj a (conj b (conj p (conj d (conj s n)))) => conj a (conj b (conj (p eq_refl) (conj (d eq_refl) (conj (s eq_refl) n))))
    end).
Qed.
Print Assumptions C08_parser_establishes_current.

(** No licence request and no urlgen request makes the current tree panic (formerly refuted by a
    foreign key id, tsbd=abc, /urlgen/drms without DRM configuration). *)
Theorem C08_total_other_current : forall e r,
  match r with RLive _ _ _ => True | _ => is_bad (handler_model current e r) = false end.
Proof. exact (fun e r => other_requests_total_fixed current e r eq_refl eq_refl eq_refl). Qed.
Print Assumptions C08_total_other_current.

(** The traffic gate of the current tree needs no hypothesis on the BaseURL index any more. *)
Theorem C08_traffic_current : forall c segPart now,
  String.prefix "/" segPart = true -> cycles_ok c = true ->
  hm_bad (traffic_gate current c segPart now) = false.
Proof. exact (fun c segPart now P C => traffic_gate_safe current c segPart now P C (or_introl eq_refl)). Qed.
Print Assumptions C08_traffic_current.

(** Every witness request in the list of UrlWitness.v gets a
    deliberate status; the chunked request for a far-future segment with ato_inf (formerly an
    unbounded sleep of the writer) is a 400 since /repo 6ca1ef6. *)
Theorem C08_witnesses_current :
  map (fun r => status_of (handler_model current envW r)) all_witnesses =
  [400; 400; 400; 400; 400; 400; 400; 400; 400; 400; 400; 400; 400; 400; 404; 400; 404; 400; 400; 400; 200;
   400; 400; 400; 400; 200].
Proof. exact witnesses_current. Qed.
Print Assumptions C08_witnesses_current.

(** The sleep of the chunked writer under the guard 0 <= ato < segment duration: the last chunk comes
    less than one chunk duration after the segment end, and an admitted request (segment end at most
    ato after now) therefore sleeps less than the segment duration. Integer arithmetic in milliseconds;
    the float comparison of CheckTimeValidity itself is not unfolded here (PARTIAL in that respect). *)
Theorem C08_last_chunk_bound : forall durT chunkDur, 0 < chunkDur -> 0 <= durT ->
  durT <= (durT + chunkDur - 1) / chunkDur * chunkDur < durT + chunkDur.
Proof. exact last_chunk_bound. Qed.
Theorem C08_chunk_sleep_bounded_partial : forall segDurMS atoMS endMS nowMS lastMS,
  0 <= atoMS < segDurMS -> endMS - nowMS <= atoMS -> lastMS < endMS + (segDurMS - atoMS) ->
  lastMS - nowMS < segDurMS.
Proof. exact chunk_sleep_bounded. Qed.
Print Assumptions C08_chunk_sleep_bounded_partial.

(** Non-vacuity: a hostile but well-formed URL parses to a configuration that satisfies the
    established guards, and the guarded components apply to it. *)
Example C08_example :
  match process_url_cfg all_fixed "/livesim2/tsbd_30/periods_60/snr_7/timesubsdur_1500/traffic_u10d5,d3/a/bu1/V/45.m4s" 100000 with
  | Ok c => c_tsbd c = Some 30 /\ c_pph c = Some 60 /\ c_startNr c = Some 7 /\ c_subsDurMS c = 1500 /\
            cycles_ok c = true /\ c_contentIdx c = 7
  | _ => False
  end /\
  handler_model all_fixed envW (RLive "/livesim2/tsbd_30/traffic_u10d5,d3/a/bu1/V/45.m4s" "100000" [("nowMS", ["100000"])]) = HStatus 404 "Not Found" /\
  handler_model none_fixed envW (RLive "/livesim2/tsbd_x/stoprel_5/a/M.mpd" "100000" []) = HPanic "app.processURLCfg: nil dereference".
Proof. vm_compute. repeat split; reflexivity. Qed.
