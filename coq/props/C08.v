(** C08 - no request can crash a handler or make it spin. (under construction) *)
From Verif Require Import GoSem UrlStr UrlCfg UrlHandler.
Example C08_example : process_url_cfg "/livesim2/stoprel_x/testpic_2s/Manifest.mpd" 100000 = Panic "app.processURLCfg: nil dereference".
Proof. vm_compute. reflexivity. Qed.
