(** C09 — low-latency chunked delivery is the same media, never delivered early.
    Only statements; every proof is [exact <lemma>] (lemmas in theories/ChunkProofs.v).
    Model: theories/Chunk.v ([chunkSegment], [writeChunkedSegment]'s pacing loop). *)
From Verif Require Import GoSem Chunk ChunkProofs ChunkServedProofs.
From Verif Require Timeline TimelineProofs.
From Coq Require Import Sorted.
Module T := Timeline.
Module TP := TimelineProofs.

(** Splitting is a partition, for every chunk duration and all sample durations >= 0: the chunks'
    samples, concatenated, are the segment's samples in order with decode times [newTime],
    [newTime + d1], ... ; every chunk starts where the previous one ended; only the first chunk
    carries the styp; every chunk has the segment's sequence number; none is empty. *)
Theorem C09_partition : forall fs st newTime newNr newDur C cs,
  wf_input fs newTime ->
  chunkSegment fs st newTime newNr newDur C = Ok cs ->
  samples_of cs = stamped newTime fs /\ contiguous newTime cs /\
  styp_first st cs /\ Forall (fun c => c_seq c = newNr /\ c_samples c <> []) cs.
Proof. exact chunkSegment_partition. Qed.
Print Assumptions C09_partition.

(** Before repair 14871fa samples of duration 0 at the end of a segment were dropped
    ([if thisChunkDur > 0]); the former witness now keeps both samples. *)
Theorem C09_zero_dur_kept :
  let fs := [ {| s_dur := 2; s_tag := 1; s_dt := 0 |}; {| s_dur := 0; s_tag := 2; s_dt := 0 |} ] in
  exists cs, chunkSegment fs true 0 7 2 2 = Ok cs /\ samples_of cs = stamped 0 fs /\ length cs = 2%nat.
Proof. exact zero_dur_tail_kept. Qed.
Print Assumptions C09_zero_dur_kept.

(** No chunk spans a chunk period plus one (longest) sample or more - whatever the sample
    durations; the duration used for pacing ([chk.dur]) is the true span, except for a last
    partial chunk, which is paced with the full [chunkDur] (later than needed, never earlier). *)
Theorem C09_chunk_span : forall fs st newTime newNr newDur C cs,
  0 < C < two63 -> wf_input fs newTime ->
  chunkSegment fs st newTime newNr newDur C = Ok cs ->
  Forall (fun c => chunk_span c <= c_dur c /\ chunk_span c < C + max_dur fs /\
                   (c_dur c = chunk_span c \/ (c_dur c = C /\ chunk_span c < C))) cs.
Proof. exact chunkSegment_span. Qed.
Print Assumptions C09_chunk_span.

(** When no sample is longer than a chunk period, chunk number j (from 1) ends in
    [newTime + j*C, newTime + j*C + longest sample) (the last one may end before): in particular
    the first chunk is complete less than one sample after [newTime + C], which is the advertised
    availability time of the segment when C = segment duration - availabilityTimeOffset. *)
Theorem C09_chunk_ends : forall fs st newTime newNr newDur C cs,
  0 < C -> wf_input fs newTime -> Forall (fun s => s_dur s <= C) fs ->
  chunkSegment fs st newTime newNr newDur C = Ok cs ->
  ends_bounded C (max_dur fs) newTime 1 newTime cs.
Proof. exact chunkSegment_ends. Qed.
Print Assumptions C09_chunk_ends.

(** Never early, for every clock: if successive readings of the clock never decrease and
    [time.Sleep(d)] returns when the clock has advanced by at least [d], then every chunk is
    written (all three branches of the loop) at an instant of the request's wall clock
    ([nowMS] + time elapsed since [startUnixMS] was read) that is not before the millisecond in
    which the chunk's last sample ends, chunks are written in order, and the loop does not fail.
    For every chunk duration (also <= 0). *)
Theorem C09_never_early : forall (clock : nat -> Z) (sleep : nat -> Z -> nat),
  (forall k, clock k <= clock (S k)) ->
  (forall k d, (k <= sleep k d)%nat /\ clock k + d <= clock (sleep k d)) ->
  forall fs st newTime newNr newDur C cs ts nowMS startTimeS k0,
  C < two63 -> 0 < ts -> 0 <= startTimeS -> wf_input fs newTime ->
  chunkSegment fs st newTime newNr newDur C = Ok cs ->
  exists ws,
    writeChunked clock sleep ts nowMS startTimeS newTime k0 cs = Ok ws /\
    Forall2 (fun e aw => Z.quot (e * 1000) ts <= vnow clock nowMS k0 (snd aw))
            (true_ends (newTime + startTimeS * ts) cs) ws /\
    StronglySorted lt (map snd ws) /\ Forall (fun aw => (k0 < snd aw)%nat) ws.
Proof. exact never_early. Qed.
Print Assumptions C09_never_early.

(** No chunk spans - and none is paced with - more media time than the advertised
    availabilityTimeOffset leaves (segment duration - ato), up to one longest sample; exact
    arithmetic, ticks * 1000 against ms * timescale.  [chunkDurOf] is the Go expression
    [(SegmentDurMS - int(ato*1000)) * timescale / 1000]. *)
Theorem C09_span_vs_offset : forall fs st newTime newNr newDur segDurMS atoMS ts cs,
  let C := chunkDurOf segDurMS atoMS ts in
  0 < C < two63 -> wf_input fs newTime ->
  chunkSegment fs st newTime newNr newDur C = Ok cs ->
  Forall (fun c => chunk_span c * 1000 < (segDurMS - atoMS) * ts + max_dur fs * 1000 /\
                   c_dur c * 1000 <= (segDurMS - atoMS) * ts + max_dur fs * 1000) cs.
Proof. exact span_vs_offset. Qed.
Print Assumptions C09_span_vs_offset.

(** ... so that a request made at the advertised availability time can be answered at once:
    the instant the pacing loop waits for before writing the first chunk is at most one longest
    sample (in ms, rounded down) after segment start + segment duration - ato. *)
Theorem C09_first_chunk_at_availability :
  forall fs st newTime newNr newDur segDurMS atoMS ts startTimeS segStartMS c0 rest,
  let C := chunkDurOf segDurMS atoMS ts in
  0 < C < two63 -> 0 < ts -> wf_input fs newTime ->
  chunkSegment fs st newTime newNr newDur C = Ok (c0 :: rest) ->
  (newTime + startTimeS * ts) * 1000 = segStartMS * ts ->
  0 <= segStartMS ->
  match avail_list ts (newTime + startTimeS * ts) (c0 :: rest) with
  | a0 :: _ => a0 <= segStartMS + (segDurMS - atoMS) + (max_dur fs * 1000) / ts
  | [] => False
  end.
Proof. exact first_chunk_paced. Qed.
Print Assumptions C09_first_chunk_at_availability.

(** Same media: the body of the chunked response, parsed as a client does (tfdt of every
    fragment + sample durations), is the sample sequence of whole-segment mode (the VoD fragments
    with every tfdt shifted by newTime - first tfdt, uint64 arithmetic): same order, durations,
    opaque per-sample data (flags, size, composition offset, payload) and decode times.
    Every chunk duration, sample durations >= 0.
    Hypothesis: the fragments of the VoD segment are contiguous. *)
Theorem C09_same_media : forall newTime f0 frags st newNr newDur C cs,
  frags_contiguous (f_tfdt f0) (f0 :: frags) ->
  wf_input (frag_samples (f0 :: frags)) newTime ->
  chunkSegment (frag_samples (f0 :: frags)) st newTime newNr newDur C = Ok cs ->
  parse_body cs = whole_parse newTime (f0 :: frags) /\
  Forall (fun c => c_seq c = newNr) cs /\ styp_first st cs.
Proof. exact same_media. Qed.
Print Assumptions C09_same_media.

(** The hypothesis is needed: with a gap between two fragments of the VoD segment whole-segment
    mode keeps the gap and chunked mode closes it (decode times differ). *)
Theorem C09_same_media_gap_refuted :
  exists newTime f0 frags cs,
    wf_input (frag_samples (f0 :: frags)) newTime /\
    chunkSegment (frag_samples (f0 :: frags)) true newTime 1 20 10 = Ok cs /\
    parse_body cs <> whole_parse newTime (f0 :: frags).
Proof. exact same_media_gap. Qed.
Print Assumptions C09_same_media_gap_refuted.

(** The same, for the same URL and instant, through the segment lookup of the simulator
    (theories/Timeline.v, C01/C04): when segment n is served, both modes deliver the VoD samples
    at the looped time S n with sequence number startNr + n. *)
Theorem C09_same_media_served : forall r loopMS c n now m f0 frags st C cs,
  T.wf r loopMS -> 0 <= n -> 0 <= T.startNr c -> T.startNr c + n < two32 -> T.S r n < two64 ->
  T.lookup r loopMS c T.ByNumber (T.startNr c + n) now = T.TOk m ->
  frags_contiguous (f_tfdt f0) (f0 :: frags) ->
  wf_input (frag_samples (f0 :: frags)) (T.S r n) ->
  chunkSegment (frag_samples (f0 :: frags)) st (T.newTime m) (T.newNr m) (T.newDur m) C = Ok cs ->
  T.newTime m = T.S r n /\ T.newNr m = T.startNr c + n /\
  parse_body cs = whole_parse (T.S r n) (f0 :: frags) /\
  Forall (fun k => c_seq k = T.startNr c + n) cs /\ styp_first st cs.
Proof. exact same_media_served. Qed.
Print Assumptions C09_same_media_served.

(** ... also when the request is cut short - the client goes away or the server's request timeout
    ends the context ([ctx.Err()] is tested at the top of every iteration, [time.Sleep] does not
    look at the context): whatever has been written is a prefix, each chunk at or after the
    millisecond in which its media ends. *)
Theorem C09_never_early_interrupted : forall (clock : nat -> Z) (sleep : nat -> Z -> nat),
  (forall k, clock k <= clock (S k)) ->
  (forall k d, (k <= sleep k d)%nat /\ clock k + d <= clock (sleep k d)) ->
  forall (cancelled : nat -> bool) fs st newTime newNr newDur C cs ts nowMS startTimeS k0,
  C < two63 -> 0 < ts -> 0 <= startTimeS -> wf_input fs newTime ->
  chunkSegment fs st newTime newNr newDur C = Ok cs ->
  exists n,
    let ws := pace_loop_c clock sleep cancelled ts nowMS (clock k0) (S k0) (newTime + startTimeS * ts) cs in
    Forall2 (fun e aw => Z.quot (e * 1000) ts <= vnow clock nowMS k0 (snd aw))
            (firstn n (true_ends (newTime + startTimeS * ts) cs)) ws.
Proof. exact never_early_interrupted. Qed.
Print Assumptions C09_never_early_interrupted.

(** A chunked request (finite availabilityTimeOffset > 0) is refused as too early exactly when
    it is made before the advertised availability time
    availabilityStartTime + E n / timescale - ato (units: ms * timescale), addressed by number
    or by time; all instants, on and off the millisecond grid. *)
Theorem C09_too_early : forall r loopMS c n now atoMS,
  T.wf r loopMS -> 0 <= n -> 0 <= T.startNr c -> T.startNr c + n < two32 ->
  T.ato c = Some atoMS -> 0 < atoMS ->
  (TP.ophase (T.lookup r loopMS c T.ByNumber (T.startNr c + n) now) = 0 <->
   now * T.ts r < (T.E r n + T.startS c * T.ts r) * 1000 - atoMS * T.ts r).
Proof. exact chunked_too_early_number. Qed.
Print Assumptions C09_too_early.

Theorem C09_too_early_time : forall r loopMS c n now atoMS,
  T.wf r loopMS -> 0 <= n -> T.S r n < two64 ->
  T.ato c = Some atoMS -> 0 < atoMS ->
  (TP.ophase (T.lookup r loopMS c T.ByTime (T.S r n) now) = 0 <->
   now * T.ts r < (T.E r n + T.startS c * T.ts r) * 1000 - atoMS * T.ts r).
Proof. exact chunked_too_early_time. Qed.
Print Assumptions C09_too_early_time.

(** The decision used by the correspondence on the millisecond grid. *)
Theorem C09_too_early_grid : forall availMS atoMS nowMS, 0 < atoMS ->
  (tooEarly availMS atoMS nowMS = true <-> nowMS < availMS - atoMS).
Proof. exact tooEarly_spec. Qed.
Print Assumptions C09_too_early_grid.

(** The request guard of chunked mode in its first form (6ca1ef6, float comparison of the unrounded
    offset; trees before f0e7b4c), answered 400 by the handler before anything else:
    refused exactly when the offset is negative, infinite or not below the segment duration; a
    request that passes it has a chunk duration >= 0 (the offset rounded to ms as the code does),
    positive as soon as the rounded offset leaves one tick.  The theorems above take [0 < C] as a
    hypothesis; with the guard, [0 <= C] is established by the code and [C = 0] (offset within
    half a millisecond of the segment duration) falls under C09_chunkdur_nonpositive. *)
Theorem C09_guard : forall guarded segDurMS,
  chunkedRefused guarded None segDurMS = guarded /\
  (forall a, a < 0 \/ segDurMS * 1000 <= a -> chunkedRefused guarded (Some a) segDurMS = guarded) /\
  (forall a, 0 <= a < segDurMS * 1000 -> chunkedRefused guarded (Some a) segDurMS = false).
Proof. exact guard_refuses. Qed.
Print Assumptions C09_guard.

Theorem C09_guard_chunkdur : forall a segDurMS ts,
  chunkGuardOK (Some a) segDurMS = true -> 0 < ts ->
  0 <= chunkDurOf segDurMS (roundMilli a) ts /\
  (1000 <= (segDurMS - roundMilli a) * ts -> 0 < chunkDurOf segDurMS (roundMilli a) ts).
Proof. exact guard_chunkdur. Qed.
Print Assumptions C09_guard_chunkdur.

(** Since f0e7b4c the guard compares the offset rounded to milliseconds: every accepted chunked
    request has a chunk duration of at least one millisecond ([SegmentDurMS - atoMS >= 1], at
    least timescale/1000 ticks, positive for timescales >= 1000), so the hypothesis [0 < C] of the
    chunking theorems is established by the guard; offsets below 0, infinite or not below the
    segment duration are refused, offsets up to half a millisecond below it as well. *)
Theorem C09_guard_rounded_chunkdur : forall a segDurMS ts,
  chunkGuardRounded (Some a) segDurMS = true -> 0 < ts ->
  0 <= roundMilli a /\ 1 <= segDurMS - roundMilli a /\
  ts / 1000 <= chunkDurOf segDurMS (roundMilli a) ts /\
  (1000 <= ts -> 0 < chunkDurOf segDurMS (roundMilli a) ts).
Proof. exact guard_rounded_chunkdur. Qed.
Print Assumptions C09_guard_rounded_chunkdur.

Theorem C09_guard_rounded : forall segDurMS,
  chunkGuardRounded None segDurMS = false /\
  (forall a, a < 0 -> chunkGuardRounded (Some a) segDurMS = false) /\
  (forall a, segDurMS * 1000 <= a -> chunkGuardRounded (Some a) segDurMS = false) /\
  (forall a, 0 <= a -> a + 500 < segDurMS * 1000 -> chunkGuardRounded (Some a) segDurMS = true).
Proof. exact guard_rounded_refuses. Qed.
Print Assumptions C09_guard_rounded.

(** chunkSegment cannot fail or panic, whatever the chunk duration (repair 1ce6842; before it a
    chunk duration of 0 - availabilityTimeOffset equal to the segment duration - divided by zero). *)
Theorem C09_chunkSegment_total : forall fs st newTime newNr newDur C,
  exists cs, chunkSegment fs st newTime newNr newDur C = Ok cs.
Proof. exact chunkSegment_total. Qed.
Print Assumptions C09_chunkSegment_total.

(** What a chunk duration <= 0 does (availabilityTimeOffset >= segment duration; precisely
    (segDurMS - atoMS) * timescale < 1000): every sample becomes a chunk of its own, paced with its
    own duration; the samples are all there (also zero-duration ones), in order, restamped. *)
Theorem C09_chunkdur_nonpositive : forall fs st newTime newNr newDur C cs,
  C <= 0 -> wf_input fs newTime ->
  chunkSegment fs st newTime newNr newDur C = Ok cs ->
  cs = per_sample newNr st newTime fs /\
  samples_of cs = stamped newTime fs /\ length cs = length fs /\
  Forall (fun c => c_seq c = newNr /\ length (c_samples c) = 1%nat /\ c_dur c = chunk_span c) cs /\
  styp_first st cs.
Proof. exact chunkSegment_nonpositive. Qed.
Print Assumptions C09_chunkdur_nonpositive.

Theorem C09_chunkdur_zero : forall segDurMS atoMS ts,
  Z.abs ((segDurMS - atoMS) * ts) < 1000 -> chunkDurOf segDurMS atoMS ts = 0.
Proof. exact chunkDur_zero. Qed.
Print Assumptions C09_chunkdur_zero.

(** Non-vacuity: 2 s segment of 8 samples, availabilityTimeOffset 1.25 s at timescale 1000
    (chunkDur 750): chunks of 3, 3 and 2 samples; a clock ticking 7 ms per step with an exact
    sleep writes them 763, 1512 and 2261 ms after a request made at the start of the segment
    ([nowMS] = 10000 = segment start): media ends are 10750, 11500, 12000 (paced as 12250). *)
Example C09_example :
  let fs := map (fun d => {| s_dur := d; s_tag := d; s_dt := 0 |}) [250;250;250;250;250;250;250;250] in
  let clock := fun k => 500 + 7 * Z.of_nat k in
  let sleep := fun k d => (k + Z.to_nat ((d + 6) / 7))%nat in
  wf_input fs 10000 /\
  (forall k, clock k <= clock (S k)) /\
  (forall k d, (k <= sleep k d)%nat /\ clock k + d <= clock (sleep k d)) /\
  exists cs, chunkSegment fs true 10000 5 2000 (chunkDurOf 2000 1250 1000) = Ok cs /\
    map (fun c => (c_styp c, lenZ (c_samples c), c_dur c)) cs = [(true, 3, 750); (false, 3, 750); (false, 2, 750)] /\
    match writeChunked clock sleep 1000 10000 0 10000 0%nat cs with
    | Ok ws => map (fun aw => (fst aw, vnow clock 10000 0 (snd aw))) ws
               = [(10750, 10763); (11500, 11512); (12250, 12261)]
    | _ => False
    end.
Proof.
  cbv zeta. split; [|split; [|split]].
  - unfold wf_input. split; [repeat constructor; cbn; lia|]. vm_compute. repeat split; congruence.
  - intros k. lia.
  - intros k d. split; [lia|]. rewrite Nat2Z.inj_add. destruct (Z_lt_le_dec d 0).
    + assert (0 <= Z.of_nat (Z.to_nat ((d + 6) / 7))) by lia. lia.
    + rewrite Z2Nat.id by (apply Z.div_pos; lia).
      pose proof (Z.div_mod (d + 6) 7 ltac:(lia)). pose proof (Z.mod_pos_bound (d + 6) 7 ltac:(lia)). lia.
  - eexists. split; [vm_compute; reflexivity|]. split; vm_compute; reflexivity.
Qed.

(** Non-vacuity of C09_same_media_served / C09_too_early: segment 5 of a 4 x 2 s loop at timescale
    1000 (two VoD fragments of 4 samples each), ato 1.5 s: refused until 10.5 s, then served;
    chunk period 500 ticks: four chunks of two samples whose parsed body is the whole segment
    at the looped time 10000. *)
Example C09_served_example :
  let r := {| T.segs := [ {| T.st := 0; T.en := 2000; T.snr := 1 |}; {| T.st := 2000; T.en := 4000; T.snr := 2 |};
                          {| T.st := 4000; T.en := 6000; T.snr := 3 |}; {| T.st := 6000; T.en := 8000; T.snr := 4 |} ];
              T.ts := 1000 |} in
  let c := {| T.startS := 0; T.startNr := 0; T.tsbdS := 60; T.ato := Some 1500 |} in
  let mk := fun t0 => {| f_tfdt := t0; f_samples := map (fun i => {| s_dur := 250; s_tag := t0 + i; s_dt := 0 |}) [0;1;2;3] |} in
  let f0 := mk 2000 in let frags := [mk 3000] in
  map (fun now => TP.ophase (T.lookup r 8000 c T.ByNumber 5 now)) [10499; 10500] = [0; 1] /\
  frags_contiguous (f_tfdt f0) (f0 :: frags) /\
  match T.lookup r 8000 c T.ByNumber 5 10500 with
  | T.TOk m =>
    match chunkSegment (frag_samples (f0 :: frags)) true (T.newTime m) (T.newNr m) (T.newDur m) (chunkDurOf 2000 1500 1000) with
    | Ok cs => map (fun k => lenZ (c_samples k)) cs = [2; 2; 2; 2] /\
               parse_body cs = whole_parse (T.S r 5) (f0 :: frags) /\
               map s_dt (parse_body cs) = [10000; 10250; 10500; 10750; 11000; 11250; 11500; 11750]
    | _ => False
    end
  | _ => False
  end.
Proof. cbv zeta. split; [vm_compute; reflexivity|]. split; [cbn; repeat split|]. vm_compute. repeat split. Qed.
