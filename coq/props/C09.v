(** C09 — low-latency chunked delivery is the same media, never delivered early.
    Only statements; every proof is [exact <lemma>] (lemmas in theories/ChunkProofs.v).
    Model: theories/Chunk.v ([chunkSegment], [writeChunkedSegment]'s pacing loop). *)
From Verif Require Import GoSem Chunk ChunkProofs.
From Coq Require Import Sorted.

(** Splitting is a partition: for a positive chunk duration and samples of positive duration the
    chunks' samples, concatenated, are the segment's samples in order with decode times
    [newTime], [newTime + d1], ... ; every chunk starts where the previous one ended; only the
    first chunk carries the styp; every chunk has the segment's sequence number; none is empty. *)
Theorem C09_partition : forall fs st newTime newNr newDur C cs,
  0 < C -> wf_input fs newTime -> Forall (fun s => 0 < s_dur s) fs ->
  chunkSegment fs st newTime newNr newDur C = Ok cs ->
  samples_of cs = stamped newTime fs /\ contiguous newTime cs /\
  styp_first st cs /\ Forall (fun c => c_seq c = newNr /\ c_samples c <> []) cs.
Proof. exact chunkSegment_partition. Qed.
Print Assumptions C09_partition.

(** The hypothesis "positive durations" is needed: samples of duration 0 at the end of a
    segment are silently dropped ([if thisChunkDur > 0]). *)
Theorem C09_zero_dur_refuted :
  exists fs cs, wf_input fs 0 /\ chunkSegment fs true 0 7 2 2 = Ok cs /\ samples_of cs <> stamped 0 fs.
Proof. exact zero_dur_tail_lost. Qed.
Print Assumptions C09_zero_dur_refuted.

(** No chunk spans a chunk period plus one (longest) sample or more - whatever the sample
    durations; the duration used for pacing ([chk.dur]) is the true span, except for a last
    partial chunk, which is paced with the full [chunkDur] (later than needed, never earlier). *)
Theorem C09_chunk_span : forall fs st newTime newNr newDur C cs,
  0 < C < two63 -> wf_input fs newTime ->
  chunkSegment fs st newTime newNr newDur C = Ok cs ->
  Forall (fun c => chunk_span c <= c_dur c /\ chunk_span c < C + max_dur fs /\
                   (c_dur c = chunk_span c \/ (c_dur c = C /\ chunk_span c < C))) cs.
Proof. exact chunkSegment_span. Qed.
Print Assumptions C09_chunk_span.

(** When no sample is longer than a chunk period, chunk number j (from 1) ends in
    [newTime + j*C, newTime + j*C + longest sample) (the last one may end before): in particular
    the first chunk is complete less than one sample after [newTime + C], which is the advertised
    availability time of the segment when C = segment duration - availabilityTimeOffset. *)
Theorem C09_chunk_ends : forall fs st newTime newNr newDur C cs,
  0 < C -> wf_input fs newTime -> Forall (fun s => s_dur s <= C) fs ->
  chunkSegment fs st newTime newNr newDur C = Ok cs ->
  ends_bounded C (max_dur fs) newTime 1 newTime cs.
Proof. exact chunkSegment_ends. Qed.
Print Assumptions C09_chunk_ends.

(** Never early, for every clock: if successive readings of the clock never decrease and
    [time.Sleep(d)] returns when the clock has advanced by at least [d], then every chunk is
    written (all three branches of the loop) at an instant of the request's wall clock
    ([nowMS] + time elapsed since [startUnixMS] was read) that is not before the millisecond in
    which the chunk's last sample ends, chunks are written in order, and the loop does not fail. *)
Theorem C09_never_early : forall (clock : nat -> Z) (sleep : nat -> Z -> nat),
  (forall k, clock k <= clock (S k)) ->
  (forall k d, (k <= sleep k d)%nat /\ clock k + d <= clock (sleep k d)) ->
  forall fs st newTime newNr newDur C cs ts nowMS startTimeS k0,
  0 < C < two63 -> 0 < ts -> 0 <= startTimeS -> wf_input fs newTime ->
  chunkSegment fs st newTime newNr newDur C = Ok cs ->
  exists ws,
    writeChunked clock sleep ts nowMS startTimeS newTime k0 cs = Ok ws /\
    Forall2 (fun e aw => Z.quot (e * 1000) ts <= vnow clock nowMS k0 (snd aw))
            (true_ends (newTime + startTimeS * ts) cs) ws /\
    StronglySorted lt (map snd ws) /\ Forall (fun aw => (k0 < snd aw)%nat) ws.
Proof. exact never_early. Qed.
Print Assumptions C09_never_early.

(** A request before the advertised availability time (segment end - availabilityTimeOffset) is
    refused as too early, one at or after it is not (decision of CheckTimeValidity on the
    millisecond grid). *)
Theorem C09_too_early : forall availMS atoMS nowMS, 0 < atoMS ->
  (tooEarly availMS atoMS nowMS = true <-> nowMS < availMS - atoMS).
Proof. exact tooEarly_spec. Qed.
Print Assumptions C09_too_early.

(** Defect: an availabilityTimeOffset equal to the segment duration (more precisely
    |(segDurMS - atoMS) * timescale| < 1000) makes chunkDur 0 and chunkSegment divides by it. *)
Theorem C09_chunkdur_refuted : forall fs st newTime newNr newDur segDurMS atoMS ts,
  Z.abs ((segDurMS - atoMS) * ts) < 1000 ->
  chunkSegment fs st newTime newNr newDur (chunkDurOf segDurMS atoMS ts)
  = Panic "chunkSegment:segMeta.newDur/uint32(chunkDur)".
Proof. exact chunkdur_panic. Qed.
Print Assumptions C09_chunkdur_refuted.

(** Non-vacuity: 2 s segment of 8 samples, availabilityTimeOffset 1.25 s at timescale 1000
    (chunkDur 750): chunks of 3, 3 and 2 samples; a clock ticking 7 ms per step with an exact
    sleep writes them 763, 1512 and 2261 ms after a request made at the start of the segment
    ([nowMS] = 10000 = segment start): media ends are 10750, 11500, 12000 (paced as 12250). *)
Example C09_example :
  let fs := map (fun d => {| s_dur := d; s_tag := d; s_dt := 0 |}) [250;250;250;250;250;250;250;250] in
  let clock := fun k => 500 + 7 * Z.of_nat k in
  let sleep := fun k d => (k + Z.to_nat ((d + 6) / 7))%nat in
  wf_input fs 10000 /\
  (forall k, clock k <= clock (S k)) /\
  (forall k d, (k <= sleep k d)%nat /\ clock k + d <= clock (sleep k d)) /\
  exists cs, chunkSegment fs true 10000 5 2000 (chunkDurOf 2000 1250 1000) = Ok cs /\
    map (fun c => (c_styp c, lenZ (c_samples c), c_dur c)) cs = [(true, 3, 750); (false, 3, 750); (false, 2, 750)] /\
    match writeChunked clock sleep 1000 10000 0 10000 0%nat cs with
    | Ok ws => map (fun aw => (fst aw, vnow clock 10000 0 (snd aw))) ws
               = [(10750, 10763); (11500, 11512); (12250, 12261)]
    | _ => False
    end.
Proof.
  cbv zeta. split; [|split; [|split]].
  - unfold wf_input. split; [repeat constructor; cbn; lia|]. vm_compute. repeat split; congruence.
  - intros k. lia.
  - intros k d. split; [lia|]. rewrite Nat2Z.inj_add. destruct (Z_lt_le_dec d 0).
    + assert (0 <= Z.of_nat (Z.to_nat ((d + 6) / 7))) by lia. lia.
    + rewrite Z2Nat.id by (apply Z.div_pos; lia).
      pose proof (Z.div_mod (d + 6) 7 ltac:(lia)). pose proof (Z.mod_pos_bound (d + 6) 7 ltac:(lia)). lia.
  - eexists. split; [vm_compute; reflexivity|]. split; vm_compute; reflexivity.
Qed.
