(** C10 — advertised key ids, init segments, licences and ciphertext agree.
    Only statements; every proof is [exact <lemma>] (lemmas in theories/KeysProofs.v).
    Model: theories/Keys.v (keys.go, handler_laurl.go, the key selection of asset.go/addEncryption,
    livesegment.go/matchInit+encryptFrags, livempd.go ContentProtection, pkg/drm/cpix.go GetContentKey). *)
From Verif Require Import GoSem Keys KeysProofs.

(** base64: what [PackBase64] writes, both readers read back - for every 16-byte id (and, without
    the length test, for every byte string). *)
Theorem C10_b64_roundtrip : forall k, Forall byte k -> lenZ k = 16 ->
  id16FromBase64 (unpackBase64 (packBase64 k)) = Ok k /\ id16FromTruncatedBase64 (packBase64 k) = Ok k /\
  id16FromBase64 (b64encode k) = Ok k.
Proof. exact b64_roundtrip. Qed.
Print Assumptions C10_b64_roundtrip.

Theorem C10_b64_roundtrip_any : forall bs, Forall byte bs -> b64decode (unpackBase64 (packBase64 bs)) = Ok bs.
Proof. exact b64_roundtrip_any. Qed.
Print Assumptions C10_b64_roundtrip_any.

Theorem C10_b64_urlsafe : forall bs, Forall byte bs ->
  Forall (fun c => c <> 43 /\ c <> 47 /\ c <> pad) (packBase64 bs).
Proof. exact pack_urlsafe. Qed.
Print Assumptions C10_b64_urlsafe.

(** key <-> key id: for an id with the kid prefix the key has the key prefix and the same tail, and
    [keyToKid] takes it back; any other id makes [kidToKey] panic. *)
Theorem C10_key_algebra : forall kid, firstn 3 kid = kidStart ->
  exists key, kidToKey kid = Ok key /\ keyToKid key = Ok kid /\
              firstn 3 key = keyStart /\ skipn 3 key = skipn 3 kid /\ length key = length kid.
Proof. exact key_algebra. Qed.
Print Assumptions C10_key_algebra.

Theorem C10_key_algebra_foreign : forall kid, firstn 3 kid <> kidStart -> is_panic (kidToKey kid) = true.
Proof. exact kidToKey_panics. Qed.
Print Assumptions C10_key_algebra_foreign.

(** ClearKey (eccp-cenc, eccp-cbcs), for any string hash [kfs] with the kid prefix, UNDER the
    hypothesis [kfs laURL = kfs assetName]: the MPD's default_KID is the init segment's tenc
    default_KID, and the licence handler - asked for it in URL-safe or in standard base64 - returns
    the key the fragments are encrypted with, which the client decodes back. *)
Theorem C10_licence : forall (kfs : bytes -> bytes),
  (forall s, firstn 3 (kfs s) = kidStart /\ lenZ (kfs s) = 16 /\ Forall byte (kfs s)) ->
  forall scheme assetName laURL ctype,
  kfs laURL = kfs assetName ->
  exists kid key,
    mpdProtectionG kfs (Eccp scheme) laURL ctype = Ok (kid, scheme) /\
    initProtectionG kfs (Eccp scheme) assetName ctype = Ok (kid, scheme) /\
    fragProtectionG kfs (Eccp scheme) assetName ctype =
      Ok {| p_kid := kid; p_key := key; p_iv := defaultIV; p_scheme := scheme |} /\
    laResponse [packBase64 kid] = Ok [(packBase64 kid, packBase64 key)] /\
    laResponse [b64encode kid] = Ok [(packBase64 kid, packBase64 key)] /\
    id16FromTruncatedBase64 (packBase64 key) = Ok key.
Proof. exact licence_eccp. Qed.
Print Assumptions C10_licence.

(** The hypothesis is forced by the code: the MPD hashes the licence URL, the init segment the
    asset directory name; with different hashes the two ids differ. *)
Theorem C10_licence_needs_equal_hash : forall (kfs : bytes -> bytes) scheme assetName laURL ctype,
  kfs laURL <> kfs assetName ->
  forall k1 s1 k2 s2,
  mpdProtectionG kfs (Eccp scheme) laURL ctype = Ok (k1, s1) ->
  initProtectionG kfs (Eccp scheme) assetName ctype = Ok (k2, s2) -> k1 <> k2.
Proof. exact licence_eccp_needs_equal_hash. Qed.
Print Assumptions C10_licence_needs_equal_hash.

(** It holds on the tree under test only because [kidFromString] never feeds its argument into
    the hash ([c.Sum([]byte(s))]): it returns the same id for every string.  The correspondence
    re-checks this (and MPD default_KID = tenc default_KID) on every run. *)
Theorem C10_kidFromString_ignores_its_input : forall s t, kidFromString s = kidFromString t.
Proof. exact kidFromString_const. Qed.

Theorem C10_kidFromString_wf : forall s,
  firstn 3 (kidFromString s) = kidStart /\ lenZ (kidFromString s) = 16 /\ Forall byte (kidFromString s).
Proof. exact kidFromString_wf. Qed.

(** The licence handler refuses a foreign id with 400 and cannot panic (repair 6239920). *)
Theorem C10_licence_foreign : forall kid rest, Forall byte kid -> lenZ kid = 16 -> firstn 3 kid <> kidStart ->
  laResponse (packBase64 kid :: rest) = Err "400".
Proof. exact laResponse_foreign. Qed.
Print Assumptions C10_licence_foreign.

Theorem C10_licence_no_panic : forall kids, is_panic (laResponse kids) = false.
Proof. exact laResponse_no_panic. Qed.
Print Assumptions C10_licence_no_panic.

(** CPIX packages: the MPD's default_KID, the tenc written by genEncInit and the key, iv and scheme
    used by encryptFrags come from the same content key, for every content type; with a failing
    lookup all three fail alike. *)
Theorem C10_cpix : forall (kfs : bytes -> bytes) p assetName laURL ctype,
  match getContentKey p ctype with
  | Ok k =>
    mpdProtectionG kfs (Cpix p) laURL ctype = Ok (ck_kid k, ck_scheme k) /\
    initProtectionG kfs (Cpix p) assetName ctype = Ok (ck_kid k, ck_scheme k) /\
    fragProtectionG kfs (Cpix p) assetName ctype =
      Ok {| p_kid := ck_kid k; p_key := ck_key k; p_iv := ck_iv k; p_scheme := ck_scheme k |}
  | Err e =>
    mpdProtectionG kfs (Cpix p) laURL ctype = Err e /\ initProtectionG kfs (Cpix p) assetName ctype = Err e /\
    fragProtectionG kfs (Cpix p) assetName ctype = Err e
  | Panic s => False
  end.
Proof. exact cpix_agree. Qed.
Print Assumptions C10_cpix.

(** ... also with two keys: video and audio get their own. *)
Theorem C10_cpix_two_keys : forall k1 k2,
  bytes_eqb (ck_kid k1) (ck_kid k2) = false -> lenZ (ck_kid k1) <> 0 -> lenZ (ck_kid k2) <> 0 ->
  let p := {| cp_keys := [k1; k2]; cp_rules := [ {| ur_kid := ck_kid k1; ur_type := 0 |}; {| ur_kid := ck_kid k2; ur_type := 1 |} ] |} in
  getContentKey p 0 = Ok k1 /\ getContentKey p 1 = Ok k2.
Proof. exact getContentKey_two. Qed.
Print Assumptions C10_cpix_two_keys.

(** Decryption, under the cipher oracle [dec (enc x) = x] (AES and the senc construction are
    mp4ff's; validated by the real decryption in the correspondence): the key obtained from the
    licence endpoint for the MPD's default_KID decrypts every fragment - the whole segment or every
    chunk - to the clear payloads. *)
Theorem C10_decrypt : forall (enc dec : bytes -> bytes -> Z -> nat -> bytes -> bytes),
  (forall key iv scheme i x, dec key iv scheme i (enc key iv scheme i x) = x) ->
  forall (kfs : bytes -> bytes) scheme assetName laURL ctype frags,
  (forall s, firstn 3 (kfs s) = kidStart /\ lenZ (kfs s) = 16 /\ Forall byte (kfs s)) ->
  kfs laURL = kfs assetName ->
  exists kid p kstr,
    mpdProtectionG kfs (Eccp scheme) laURL ctype = Ok (kid, scheme) /\
    fragProtectionG kfs (Eccp scheme) assetName ctype = Ok p /\
    laResponse [packBase64 kid] = Ok [(packBase64 kid, kstr)] /\
    exists key, id16FromTruncatedBase64 kstr = Ok key /\
      decryptFragments dec key (p_iv p) (p_scheme p) (encryptFragments enc p frags) = frags.
Proof. exact decrypt_eccp. Qed.
Print Assumptions C10_decrypt.

Theorem C10_decrypt_cpix : forall (enc dec : bytes -> bytes -> Z -> nat -> bytes -> bytes),
  (forall key iv scheme i x, dec key iv scheme i (enc key iv scheme i x) = x) ->
  forall (kfs : bytes -> bytes) pk assetName laURL ctype k frags,
  getContentKey pk ctype = Ok k ->
  exists p,
    mpdProtectionG kfs (Cpix pk) laURL ctype = Ok (ck_kid k, ck_scheme k) /\
    fragProtectionG kfs (Cpix pk) assetName ctype = Ok p /\ p_kid p = ck_kid k /\
    decryptFragments dec (ck_key k) (ck_iv k) (ck_scheme k) (encryptFragments enc p frags) = frags.
Proof. exact decrypt_cpix. Qed.
Print Assumptions C10_decrypt_cpix.

(** A drm request on a pre-encrypted asset: the MPD is refused, and a track without prepared
    encryption data is never encrypted (again). *)
Theorem C10_preencrypted :
  liveMPDdrm true true = Err "pre-encrypted asset cannot be encrypted again" /\
  (forall drm, encryptsTrack drm false = false) /\ liveMPDdrm false true = Ok tt /\ liveMPDdrm true false = Ok tt.
Proof. exact preencrypted_refused. Qed.

(** The iv: whenever a segment is served encrypted, the iv it was encrypted with has 16 bytes and -
    for cbcs, where the client takes it from the init segment - is the constant IV the served init
    segment signals; a content key without iv (CPIX explicitIV is optional) is refused, never
    served undecryptable.  (cenc carries the per-sample ivs in senc: cipher oracle.) *)
Theorem C10_served_iv_is_signalled : forall p iv,
  fragmentIV p = Ok iv -> lenZ iv = 16 /\ (p_scheme p = 1 -> signalledIV p = iv).
Proof. exact served_iv_is_signalled. Qed.
Print Assumptions C10_served_iv_is_signalled.

Theorem C10_missing_iv_refused : forall p, p_iv p = [] -> exists e, fragmentIV p = Err e.
Proof. exact missing_iv_refused. Qed.

(** Whether protection data exists for a track does not depend on how the asset was loaded (scanned,
    or restored from stored representation metadata after a restart): it is prepared for every
    encryptable codec.  Tied to the code by the correspondence on three differently started servers. *)
Theorem C10_protection_independent_of_load_path : forall enc,
  readInitPrepares enc true = readInitPrepares enc false /\ readInitPrepares true true = true.
Proof. exact protection_independent_of_load_path. Qed.

(** Non-vacuity: the id livesim2 computes for every asset, its key, the licence exchange in both
    flavours, and a toy cipher (xor with the first key byte) through two chunks. *)
Example C10_example :
  let kid := kidFromString [116; 101; 115; 116] in
  packBase64 kid = [75;73;68;45;78;117;82;76;45;98;57;53;48;110;85;117;73;48;103;89;112;81] (* "KID-NuRL-b950nUuI0gYpQ" *) /\
  (exists key, kidToKey kid = Ok key /\
     packBase64 key = [75;69;89;45;78;117;82;76;45;98;57;53;48;110;85;117;73;48;103;89;112;81] (* "KEY-NuRL-b950nUuI0gYpQ" *) /\
     laResponse [packBase64 kid] = Ok [(packBase64 kid, packBase64 key)]) /\
  laResponse [packBase64 (kidStart ++ [1;2;3;4;5;6;7;8;9;10;11;12;13]); packBase64 [1;2;3;4;5;6;7;8;9;10;11;12;13;14;15;16]] = Err "400" /\
  let x := fun (key iv : bytes) (s : Z) (i : nat) (b : bytes) => map (fun c => Z.lxor c (hd 0 key)) b in
  match fragProtection (Eccp 1) [116; 101; 115; 116] 0 with
  | Ok p => decryptFragments x (p_key p) (p_iv p) (p_scheme p) (encryptFragments x p [[ [1;2]; [3] ]; [ [250] ]]) = [[ [1;2]; [3] ]; [ [250] ]]
            /\ encryptFragments x p [[ [1;2]; [3] ]] <> [[ [1;2]; [3] ]]
  | _ => False
  end.
Proof. cbv zeta. split; [vm_compute; reflexivity|]. split; [eexists; split; [vm_compute; reflexivity|split; vm_compute; reflexivity]|].
  split; [vm_compute; reflexivity|]. vm_compute. split; [reflexivity|discriminate]. Qed.
