(** C11 — applying a served MPD patch to the old MPD yields the new MPD.
    Only statements; every proof is [exact <lemma>] (lemmas in theories/PatchProofs*.v).
    Model: theories/Patch.v (transliteration of pkg/patch and of the handler's status logic, plus an
    independent XML-patch applier [apply_ops]).  A document is written [plug ctx e]: the element [e]
    at the place described by the frames [ctx]; [located P ctx (sig_of e)] says that the selector [P]
    leads there. *)
From Verif Require Import GoSem Patch PatchProofs PatchProofsCheck PatchProofsIds PatchProofsMyers PatchProofsMyersSafe PatchExamples.
From Coq Require Import Permutation.

(** addLeafListChanges: for ANY edit script that is valid for (old,new) under equalLeafs, the
    remove/add operations with their S[k] positions, applied in order, turn the children of a
    SegmentTimeline into the new list - every mix of removals and insertions, anywhere in a document. *)
Theorem C11_leaflist : forall T oldE newE P s ctx e,
  Forall (leafT T) oldE -> Forall (leafT T) newE -> Forall plain_leaf oldE -> Forall plain_leaf newE ->
  valid_script equalLeafs s oldE newE = true ->
  e_children e = oldE -> located P ctx (sig_of e) ->
  exists ops, leaflist_ops P oldE newE s 0 0 = Ok ops
    /\ apply_ops ops (plug ctx e) = Some (plug ctx (set_children e newE)).
Proof. exact leaflist_script_exact. Qed.
Print Assumptions C11_leaflist.

(** compareAttributes/addAttrChanges: the replace, add and remove operations on attributes turn
    the attribute list into a permutation of the new one (order is not observable in XML). *)
Theorem C11_attrs : forall P ctx e n,
  Forall addr_step P -> located P ctx (sig_of e) -> attrs_ok (e_attrs e) n ->
  aval "id" (e_attrs e) = aval "id" n -> aval "schemeIdUri" (e_attrs e) = aval "schemeIdUri" n ->
  exists r, apply_ops (attr_ops P (e_attrs e) n) (plug ctx e) = Some (plug ctx (set_attrs e r)) /\ Permutation r n.
Proof. exact attr_ops_apply. Qed.
Print Assumptions C11_attrs.

(** addElemChanges, for every differ, every depth and any place in a document: under the premise
    [tree_ok] (attribute keys unique; list scripts valid; every address computed by calcAddr with
    the walk's lastNewIdx/oldIdx index resolves, in the document as it is at that moment, to the
    intended node) the emitted operations turn [old] into a document equivalent to [new]. *)
Theorem C11_tree : forall diff fuel old new P ctx,
  tree_ok diff fuel old new -> Forall addr_step P -> located P ctx (sig_of old) ->
  exists ops new', elem_ops_with diff fuel old new P = Ok ops /\
                   apply_ops ops (plug ctx old) = Some (plug ctx new') /\ sim new' new.
Proof. exact tree_sound. Qed.
Print Assumptions C11_tree.

(** The same under a structural premise [tree_wa] instead of the resolution premise: for the children
    of every element that is walked, no child's attribute-form address (Tag[@id=..], Tag[@schemeIdUri=..],
    SegmentTemplate, SegmentTimeline) matches another child of the same list; kept pairs have the same
    tag, id and schemeIdUri; the address of an inserted
    child matches none of the old children still present and vice versa (no move); scripts valid.
    Positional addresses of kept and inserted children need no premise (lastNewIdx is the right index). *)
Theorem C11_tree_ids : forall diff fuel old new P ctx,
  tree_wa diff fuel old new -> Forall addr_step P -> located P ctx (sig_of old) ->
  exists ops new', elem_ops_with diff fuel old new P = Ok ops /\
                   apply_ops ops (plug ctx old) = Some (plug ctx new') /\ sim new' new.
Proof. exact tree_ids_sound. Qed.
Print Assumptions C11_tree_ids.

(** [tree_wa] is decidable too, and it implies [tree_ok]. *)
Theorem C11_tree_ids_checkable : forall diff fuel old new,
  tree_wab diff fuel old new = true -> tree_wa diff fuel old new /\ tree_ok diff fuel old new.
Proof. exact (fun diff fuel old new H => conj (tree_wab_spec diff fuel old new H) (tree_wa_ok diff fuel old new (tree_wab_spec diff fuel old new H))). Qed.
Print Assumptions C11_tree_ids_checkable.

Example C11_tree_ids_example : tree_wab (@myers elem) (S (depth ex_old)) ex_old ex_new = true.
Proof. exact ex_structural. Qed.

(** MPDDiff as in the code (MyersDiff as differ): whenever the premise holds for the pair - in
    particular the scripts MyersDiff returned are valid - the patch applied to the old document
    gives the new document (attribute order aside). *)
Theorem C11_checked : forall old new pd,
  mpdDiff old new = Ok pd ->
  tree_ok (@myers elem) (S (depth old)) old new ->
  exists new', apply_ops (p_ops pd) old = Some new' /\ equiv new' new.
Proof. exact mpdDiff_sound. Qed.
Print Assumptions C11_checked.

(** The handler (old = MPD regenerated for publishTime + 1 ms, new = MPD of now), when the
    regenerated document is the document served at t1: 425 exactly for equal publishTime, 410 exactly
    beyond publishTime + ttl + 10 s, and a served patch carries the publishTime of the MPD of t1 as
    originalPublishTime. *)
Theorem C11_handler : forall (mpd_at : Z -> elem) (t1 pt1_ms t2 : Z) ptO ptN o n ttlS ttl pl,
  mpd_at (pt1_ms + 1) = mpd_at t1 ->
  e_tag (mpd_at t1) = "MPD" -> e_tag (mpd_at t2) = "MPD" ->
  getAttrValue (mpd_at t1) "publishTime" = ptO -> getAttrValue (mpd_at t2) "publishTime" = ptN ->
  ptO <> "" -> ptN <> "" ->
  select_element "PatchLocation" (e_children (mpd_at t1)) = Some pl ->
  option_map a_val (select_attr "ttl" (e_attrs pl)) = Some ttlS -> atoi ttlS = Some ttl ->
  parse_rfc3339 ptO = Some o -> parse_rfc3339 ptN = Some n -> 0 <= ttl < 2147483648 ->
  let st := patch_handler_status mpd_at pt1_ms t2 in
  (st = 425 <-> ptN = ptO) /\
  (ptN <> ptO -> (st = 410 <-> o + ttl * 1000000000 + 10000000000 < n)) /\
  (st = 200 -> exists pd, patch_handler mpd_at pt1_ms t2 = Ok pd /\ p_orig pd = ptO /\ p_new pd = ptN /\
                          n <= o + ttl * 1000000000 + 10000000000).
Proof. exact handler_statuses. Qed.
Print Assumptions C11_handler.

(** The former witness of the defect repaired by 3800168 (removal of an id-less child addressed by its
    index among ALL children, BaseURL[3]): Period children [ProgramInformation; BaseURL a; BaseURL b;
    AdaptationSet] vs [ProgramInformation; BaseURL a; AdaptationSet]. The removal is now addressed
    BaseURL[2] and the patch gives the new document. (C11_tree_ids needs no premise on removed children
    any more.) *)
Theorem C11_idless_removal_applies :
  exists pd, mpdDiff w_old w_new = Ok pd /\
    In (ORemove [mkStep "MPD" PNone; mkStep "Period" (PAttr "id" "P0"); mkStep "BaseURL" (PIdx 2)]) (p_ops pd) /\
    exists new', apply_ops (p_ops pd) w_old = Some new' /\ elem_eqb (canon new') (canon w_new) = true.
Proof. exact idless_removal_applies. Qed.
Print Assumptions C11_idless_removal_applies.

(** The model of MyersDiff returns a valid script for all pairs of lists of length <= 4 over three
    letters, and of length <= 6 over two letters (exhaustive evaluation; the bounds are part of the
    statement; length <= 5 over three letters: coq/thorough/C11Bounded.v, thorough tier). *)
Theorem C11_myers_valid_bounded : forall e f : list Z,
  ((length e <= 4)%nat /\ (length f <= 4)%nat /\ Forall (fun a => In a [0;1;2]) e /\ Forall (fun a => In a [0;1;2]) f) \/
  ((length e <= 6)%nat /\ (length f <= 6)%nat /\ Forall (fun a => In a [0;1]) e /\ Forall (fun a => In a [0;1]) f) ->
  exists s, myers Z.eqb e f = Ok s /\ valid_script Z.eqb s e f = true.
Proof.
  exact (fun e f H => match H with
                      | or_introl (conj a (conj b (conj c d))) => myers_valid_bounded_3_4 e f a b c d
                      | or_intror (conj a (conj b (conj c d))) => myers_valid_bounded_2_6 e f a b c d
                      end).
Qed.
Print Assumptions C11_myers_valid_bounded.

(** After b1a6767 (pyMod in [0,Z) for every index): MyersDiff never indexes its arrays c, d out of
    range, for any two lists and any equality (before the fix it did for len(f) >= 3*len(e)+5:
    patch.MyersDiff on one old and eight new elements panicked, a patch request was answered 500). *)
Theorem C11_myers_index_safe : forall (e f : list Z), myers Z.eqb e f <> Panic cd_site.
Proof. exact (myers_cd_safe Z.eqb). Qed.
Print Assumptions C11_myers_index_safe.

Theorem C11_myers_index_safe_elems : forall eqf (e f : list elem), myers eqf e f <> Panic cd_site.
Proof. exact (@myers_cd_safe elem). Qed.
Print Assumptions C11_myers_index_safe_elems.

(** The full statement about MyersDiff, kept here as a definition: it is NOT proved for unbounded
    inputs. Proved parts: C11_myers_index_safe (no out-of-range access to c, d),
    C11_myers_valid_bounded above (exhaustive, bounded) and C11_myers_valid_snakes_* below (the divide
    step is right whenever the indices the search returns are in range - this follows from the snake
    loops alone). Missing: Myers' furthest-reaching invariant through the modulo-indexed arrays c, d
    (that the search always returns such indices, and the D <= 1 shortcuts). Independently of it,
    C11_checked holds for every pair on which the scripts are valid, and the correspondence checks
    valid_script on every script the implementation produced. *)
Definition C11_myers_valid_statement : Prop :=
  forall e f : list Z,
  exists s, myers Z.eqb e f = Ok s /\ valid_script Z.eqb s e f = true.

(** divide step, odd D (forward snake from (s,t) to (a,b); diffInternal recurses on e[0:s], f[0:t]
    and e[a:N], f[b:M] with offsets i+a, j+b) *)
Theorem C11_myers_valid_snakes_fwd : forall (e f : list Z) fuel s t a b s1 s2 i j,
  snake Z.eqb fuel e f (lenZ e) (lenZ f) 1 1 s t = Ok (a, b) ->
  0 <= s <= lenZ e -> 0 <= t <= lenZ f ->
  valid_from Z.eqb s1 (takeZ s e) (takeZ t f) i j = true ->
  valid_from Z.eqb s2 (dropZ a e) (dropZ b f) (i + a) (j + b) = true ->
  valid_from Z.eqb (s1 ++ s2) e f i j = true.
Proof. exact (snakes_divide_fwd Z.eqb). Qed.
Print Assumptions C11_myers_valid_snakes_fwd.

(** divide step, even D (reverse snake; x = N-a, y = M-b, u = N-s, v = M-t) *)
Theorem C11_myers_valid_snakes_rev : forall (e f : list Z) fuel s t a b s1 s2 i j,
  snake Z.eqb fuel e f (lenZ e) (lenZ f) 0 (-1) s t = Ok (a, b) ->
  0 <= s <= lenZ e -> 0 <= t <= lenZ f ->
  valid_from Z.eqb s1 (takeZ (lenZ e - a) e) (takeZ (lenZ f - b) f) i j = true ->
  valid_from Z.eqb s2 (dropZ (lenZ e - s) e) (dropZ (lenZ f - t) f) (i + (lenZ e - s)) (j + (lenZ f - t)) = true ->
  valid_from Z.eqb (s1 ++ s2) e f i j = true.
Proof. exact (snakes_divide_rev Z.eqb). Qed.
Print Assumptions C11_myers_valid_snakes_rev.

(** Non-vacuity: a SegmentTimeline below MPD/Period (with an id-less sibling before it); the first S
    loses its t attribute, one S disappears and the last one gets a repeat count; the script of
    MyersDiff is valid and the three operations give exactly the new list. *)
Example C11_example :
  let S t d r := Elem "S" ((if t =? 0 then [] else [mkAttr "" "t" "1"]) ++ [mkAttr "" "d" d] ++ (if r =? 0 then [] else [mkAttr "" "r" "3"])) "" [] in
  let oldE := [S 1 "96256" 0; S 0 "95232" 3; S 0 "96256" 0; S 0 "95232" 3] in
  let newE := [S 0 "96256" 0; S 0 "95232" 3; S 0 "96256" 3] in
  let stl := Elem "SegmentTimeline" [] "" oldE in
  let P := [mkStep "MPD" PNone; mkStep "Period" (PAttr "id" "P0"); mkStep "SegmentTimeline" PNone] in
  let ctx := [mkFrame "MPD" [mkAttr "" "id" "m"] "" [] []; mkFrame "Period" [mkAttr "" "id" "P0"] "" [Elem "BaseURL" [] "x" []] []] in
  exists s ops, myers equalLeafs oldE newE = Ok s /\ valid_script equalLeafs s oldE newE = true /\
    located P ctx (sig_of stl) /\
    leaflist_ops P oldE newE s 0 0 = Ok ops /\ lenZ ops = 3 /\
    apply_ops ops (plug ctx stl) = Some (plug ctx (set_children stl newE)).
Proof.
  do 2 eexists. split; [vm_compute; reflexivity|]. split; [vm_compute; reflexivity|].
  split; [vm_compute; auto|]. split; [vm_compute; reflexivity|]. split; vm_compute; reflexivity.
Qed.

(** The premise of C11_tree / C11_checked is decidable: [tree_okb] computes it (the correspondence
    evaluates it on every generated pair of documents and on every served patch; where it holds the
    patch of the implementation has to apply). *)
Theorem C11_premise_checkable : forall diff fuel old new,
  tree_okb diff fuel old new = true -> tree_ok diff fuel old new.
Proof. exact tree_okb_spec. Qed.
Print Assumptions C11_premise_checkable.

(** Non-vacuity of C11_checked ([ex_old], [ex_new] in theories/PatchExamples.v): a document with
    ProgramInformation, PatchLocation, a Period with an id-less BaseURL and two AdaptationSets; the new
    one has another publishTime, a moved SegmentTimeline window, a changed and an added attribute and a
    new Representation.  The premise holds (computed), the patch has six operations, it applies and
    gives a document equivalent to the new one. *)
Example C11_checked_example :
  tree_okb (@myers elem) (S (depth ex_old)) ex_old ex_new = true /\
  exists pd new', mpdDiff ex_old ex_new = Ok pd /\ lenZ (p_ops pd) = 6 /\
                  apply_ops (p_ops pd) ex_old = Some new' /\ equiv new' ex_new.
Proof. exact ex_checked. Qed.
