(** C11 — applying a served MPD patch to the old MPD yields the new MPD. (statements only) *)
From Verif Require Import GoSem Patch.

Example C11_example_placeholder : myers Z.eqb [1;2;3] [1;3;4] = Ok [mkMop KDel 1 (-1); mkMop KIns 3 2].
Proof. vm_compute. reflexivity. Qed.
