(** C12 — generated time subtitles show the right UTC second at the right media time.
    Only statements; every proof is [exact <lemma>] (lemmas in theories/SubsProofs.v; the model of
    timesubs.go / timesubs_wvtt.go / addTimeSubs is theories/Subs.v). Times are milliseconds. *)
From Verif Require Import GoSem Subs SubsProofs.

(** For cue durations 1..1000 ms, a non-empty segment [s, s+d) whose UTC time is u >= 0, calcCueItvls
    returns, in order, exactly one cue per UTC second q that intersects [u, u+d) and whose cue has not
    ended before the segment starts (u < q*1000 + c):
    (max(q*1000,u), min(q*1000+c, u+d), q) translated by s-u. *)
Theorem C12_cues : forall s d u c, 1 <= c <= 1000 -> 0 < d -> 0 <= u ->
  calcCueItvls s d u c = Ok (cues_spec s d u c).
Proof. exact calcCueItvls_spec. Qed.
Print Assumptions C12_cues.

(** the UTC seconds shown are exactly those that meet [u, u+d) and are still showing at u *)
Theorem C12_cue_seconds : forall s d u c q, 1 <= c <= 1000 -> 0 < d -> 0 <= u ->
  (In q (map c_utc (cues_spec s d u c)) <-> q * 1000 < u + d /\ u < q * 1000 + c).
Proof. exact cues_spec_seconds. Qed.
Print Assumptions C12_cue_seconds.

(** if the first second's cue is still showing (u mod 1000 < c) no second is skipped: one cue per
    UTC second that intersects the segment *)
Theorem C12_cues_all_seconds : forall s d u c, 1 <= c -> 0 <= u -> u mod 1000 < c ->
  cues_spec s d u c = map (cue_of s d u c) (seqZ (first_sec u) (Z.to_nat (last_sec u d - first_sec u + 1))).
Proof. exact cues_spec_all. Qed.
Print Assumptions C12_cues_all_seconds.

(** Unconditionally (since 6f3327b; before, u mod 1000 < c was needed): every cue has begin < end,
    consecutive cues do not overlap, all lie inside [s, s+d). *)
Theorem C12_cues_ordered : forall s d u c, 1 <= c <= 1000 -> 0 < d -> 0 <= u ->
  cues_chain s (s + d) (cues_spec s d u c).
Proof. exact cues_spec_chain. Qed.
Print Assumptions C12_cues_ordered.

(** The former finding late-start (fixed by 6f3327b). Segment 475 of the 29.97 fps asset (u = 950950,
    d = 2002), default cue duration 900: the cue of second 950 is over and is skipped; before, the first
    cue was (950950, 950900), end before begin, and its wvtt sample duration wrapped in uint32. *)
Theorem C12_late_start_fixed :
  calcCueItvls 950950 2002 950950 900 =
  Ok [ {| c_start := 951000; c_end := 951900; c_utc := 951 |};
       {| c_start := 952000; c_end := 952900; c_utc := 952 |} ].
Proof. exact late_start_witness. Qed.
Print Assumptions C12_late_start_fixed.

(** FINDING (long-cue). Cue duration 1500 ms, segment [90 s, 92 s): cueFullS = 2 and by design there is
    one cue per 2 s (at even seconds; units repaired by 7bc345a): UTC second 91 intersects the segment
    and would still be showing, but has no cue of its own; the cue of second 90 lasts into it. *)
Theorem C12_long_cue_refuted :
  cueFullS 1500 = 2 /\
  calcCueItvls 90000 2000 90000 1500 = Ok [ {| c_start := 90000; c_end := 91500; c_utc := 90 |} ] /\
  (91 * 1000 < 90000 + 2000 /\ 90000 < 91 * 1000 + 1500).
Proof. exact long_cue_witness. Qed.
Print Assumptions C12_long_cue_refuted.

(** Cue duration 0 makes calcCueItvls divide by zero; the configuration refuses cue durations <= 0
    with 400 (since 860f338), so no request reaches it. *)
Theorem C12_zero_cue_panics : forall s d u, calcCueItvls s d u 0 = Panic "app.calcCueItvls:integer divide by zero".
Proof. exact zero_cue_panics. Qed.
Print Assumptions C12_zero_cue_panics.

Theorem C12_zero_cue_rejected : forall c region, c <= 0 -> cfg_timesubs_status c region = 400.
Proof. exact zero_cue_rejected. Qed.
Print Assumptions C12_zero_cue_rejected.

(** wvtt: for any ordered, non-overlapping cue list inside [s, s+d) (d a uint32, no uint64 wrap) the
    samples are contiguous from s and end at s+d, each of positive duration; the cue samples are the
    cues, one sample each with the cue's interval and UTC second; the rest are empty (vtte) samples. *)
Theorem C12_wvtt_tiles : forall s d cues, 0 <= s -> 0 <= d < two32 -> s + d < two64 ->
  cues_chain s (s + d) cues ->
  tiles s (wvtt_samples s d cues) (s + d) /\
  cue_samples (wvtt_samples s d cues) = map sample_of_cue cues.
Proof. exact wvtt_samples_tile. Qed.
Print Assumptions C12_wvtt_tiles.

Theorem C12_wvtt_total : forall st ss e, tiles st ss e -> total_dur ss = e - st.
Proof. exact tiles_total. Qed.
Print Assumptions C12_wvtt_total.

(** The whole segment, from the reference video segment r: sequence number of r; decode time T and
    duration D are r's converted to ms by rep2SubsTime; the TTML cues (as read back from the printed
    hh:mm:ss.mmm) and the wvtt samples are the specified cue list for the UTC time T + startTime; the
    wvtt samples tile [T, T+D). Domain: cue duration 1..1000, D a positive uint32, no int64 overflow. *)
Theorem C12_segment : forall r startS c,
  let T := rep2SubsTime (r_time r) (r_ts r) in
  let D := rep2SubsTime (r_dur r) (r_ts r) in
  let U := T + startS * 1000 in
  1 <= c <= 1000 -> 0 <= T -> 0 < D < two32 -> 0 <= startS -> U + D < two63 ->
  exists sg, subs_segment r startS c = Ok sg /\
    s_nr sg = r_nr r /\ s_time sg = T /\ s_dur sg = D /\
    s_cues sg = cues_spec T D U c /\
    s_samples sg = wvtt_samples T D (cues_spec T D U c) /\
    cues_chain T (T + D) (cues_spec T D U c) /\
    tiles T (s_samples sg) (T + D) /\
    cue_samples (s_samples sg) = map sample_of_cue (cues_spec T D U c).
Proof. exact subs_segment_spec. Qed.
Print Assumptions C12_segment.

(** Milliseconds (exact twins of the float64 expressions; that rep2SubsTime/scale_round agree with
    their twins below 2^53 is checked on every run by the correspondence, not proved: _partial).
    On the millisecond grid the nearest millisecond is the exact quotient, subtitle segments are
    contiguous like the video segments, and the $Time$ of a subtitle segment leads back to the video
    segment. *)
Theorem C12_ms_grid_partial : forall t d ts, 0 < ts -> 0 <= t -> 0 <= d ->
  (t * 1000) mod ts = 0 -> (d * 1000) mod ts = 0 ->
  rep2SubsTime_exact t ts = t * 1000 / ts /\
  rep2SubsTime_exact (t + d) ts = rep2SubsTime_exact t ts + rep2SubsTime_exact d ts.
Proof. intros; split; [now apply rep2SubsTime_exact_grid|now apply exact_grid_additive]. Qed.
Print Assumptions C12_ms_grid_partial.

Theorem C12_time_request : forall t ts, 0 < ts -> 0 <= t -> t * 1000 < two64 -> (t * 1000) mod ts = 0 ->
  subs_time_to_video (t * 1000 / ts) ts = t.
Proof. exact subs_time_to_video_grid. Qed.
Print Assumptions C12_time_request.

(** FINDING (off-ms-grid:time-request). Off the grid (48 frames of 1001/30000 s = 1601.6 ms) the
    $Time$ in ms does not lead back to the video segment: 1602 ms -> 48060 <> 48048. *)
Theorem C12_time_request_offgrid_refuted :
  let t := 48048 in let ts := 30000 in
  rep2SubsTime t ts = 1602 /\ subs_time_to_video 1602 ts = 48060 /\ 48060 <> t.
Proof. exact subs_time_to_video_offgrid_witness. Qed.
Print Assumptions C12_time_request_offgrid_refuted.

(** msToTTMLTime: the printed hours, minutes, seconds, milliseconds read back as the input. *)
Theorem C12_ttml_time : forall ms, 0 <= ms ->
  let '(h, m, s, f) := msToTTML ms in
  ttml_ms (msToTTML ms) = ms /\ 0 <= h /\ 0 <= m < 60 /\ 0 <= s < 60 /\ 0 <= f < 1000.
Proof. exact ttml_roundtrip. Qed.
Print Assumptions C12_ttml_time.

(** MPD: the subtitle SegmentTimeline has the video timeline's repeat counts and t/d scaled to ms. *)
Theorem C12_mpd : forall oldTS newTS stl,
  map se_r (changeTimelineTimescale oldTS newTS stl) = map se_r stl /\
  map se_d (changeTimelineTimescale oldTS newTS stl) = map (fun s => scale_round oldTS newTS (se_d s)) stl /\
  map se_t (changeTimelineTimescale oldTS newTS stl) = map (fun s => option_map (scale_round oldTS newTS) (se_t s)) stl.
Proof. exact changeTimelineTimescale_shape. Qed.
Print Assumptions C12_mpd.

(** The repaired changeTimelineTimescale (every boundary converted on its own, durations are the
    differences, run-length compressed; used by the correspondence when the source has it): reading the
    subtitle timeline back, every listed segment starts at the scaled start of the video segment and
    ends at the scaled end - whatever the window start and the run-length structure. *)
Theorem C12_mpd_boundaries : forall oldTS newTS stl t,
  expand t (changeTimelineTimescaleB oldTS newTS stl) =
  map (fun x : tseg => let '(_, st, d) := x in
         (scale_round oldTS newTS st, scale_round oldTS newTS (st + d) - scale_round oldTS newTS st))
      (segments_from true 0 stl).
Proof. exact timelineB_listed. Qed.
Print Assumptions C12_mpd_boundaries.

(** On the millisecond grid the k-th segment of an S element (t, d, r) of the subtitle timeline
    starts where the k-th video segment starts, in ms (exact twins; see C12_ms_grid_partial). *)
Theorem C12_mpd_grid_partial : forall t d n ts, 0 < ts -> 0 <= t -> 0 <= d -> 0 <= n ->
  (t * 1000) mod ts = 0 -> (d * 1000) mod ts = 0 ->
  rep2SubsTime_exact (t + n * d) ts = rep2SubsTime_exact t ts + n * rep2SubsTime_exact d ts.
Proof. exact exact_grid_linear. Qed.
Print Assumptions C12_mpd_grid_partial.

(** Non-vacuity: segment 45 of testpic_2s (video 8100000/90000, 2 s), default cue duration. *)
Example C12_example :
  let r := {| r_nr := 45; r_time := 8100000; r_dur := 180000; r_ts := 90000 |} in
  subs_segment r 0 900 =
  Ok {| s_nr := 45; s_time := 90000; s_dur := 2000;
        s_cues := [ {| c_start := 90000; c_end := 90900; c_utc := 90 |};
                    {| c_start := 91000; c_end := 91900; c_utc := 91 |} ];
        s_samples := [ {| w_time := 90000; w_dur := 900; w_cue := Some 90 |};
                       {| w_time := 90900; w_dur := 100; w_cue := None |};
                       {| w_time := 91000; w_dur := 900; w_cue := Some 91 |};
                       {| w_time := 91900; w_dur := 100; w_cue := None |} ] |}.
Proof. vm_compute; reflexivity. Qed.
