(** C13 — SCTE-35 events follow the per-minute schedule, each announced exactly once.
    Only statements; every proof is [exact <lemma>] (lemmas in theories/ScteProofs.v and
    theories/ScteSectionProofs.v; the model of pkg/scte35 and of the part of gots it runs is
    theories/Scte.v). Times are in track timescale units [ts]; a segment is the pair (start, end). *)
From Verif Require Import GoSem Scte ScteProofs ScteSectionProofs.

(** What one video segment carries: at most one event; it is a scheduled splice (documented offset
    of some wall-clock minute) whose announce instant, 7 s before the splice, lies in (start, end];
    and every such splice is carried. No unscheduled event, no error on a valid segment. *)
Theorem C13_segment : forall ts n s e offs sigma,
  seg_dom ts s e -> splice_offsets n = Some offs ->
  (carried ts n (s, e) = Some sigma <->
   exists m off, 0 <= m /\ In off offs /\ sigma = sched_time ts m off /\
                 s < announce_of ts sigma <= e).
Proof. exact carried_spec. Qed.
Print Assumptions C13_segment.

(** Exactly once, for ANY contiguous segment sequence (each segment 0 < d <= 10 s, end = next start,
    no uint64 wrap), N in {1,2,3}, every minute m and every documented offset whose announce instant
    lies inside the sequence: the segment h containing the announce instant exists, it carries the
    event, the number of segments of the whole sequence that carry an event for that splice is 1,
    and no segment other than h carries it. (Unconditional since fix f8b1b37; before it the segment
    had to start in the minute of the splice.) *)
Theorem C13_exactly_once : forall ts n segs offs m off,
  seq_dom ts segs -> splice_offsets n = Some offs -> In off offs -> 0 <= m ->
  let sigma := sched_time ts m off in
  let a := announce_of ts sigma in
  seq_start segs < a <= seq_end segs ->
  exists h, holder a segs = Some h /\ In h segs /\ fst h < a <= snd h /\
    announcements ts n sigma segs = 1 /\
    carries ts n sigma h = true /\
    (forall seg, In seg segs -> carries ts n sigma seg = true -> seg = h).
Proof. exact announcements_count. Qed.
Print Assumptions C13_exactly_once.

(** ... and a splice whose announce instant lies outside the sequence is announced by none of its segments. *)
Theorem C13_not_outside : forall ts n segs offs m off,
  seq_dom ts segs -> splice_offsets n = Some offs -> In off offs -> 0 <= m ->
  let sigma := sched_time ts m off in
  let a := announce_of ts sigma in
  (a <= seq_start segs \/ seq_end segs < a) ->
  announcements ts n sigma segs = 0.
Proof. exact announcements_outside. Qed.
Print Assumptions C13_not_outside.

(** Every event of a sequence is a scheduled splice, announced from inside the sequence. *)
Theorem C13_only_scheduled : forall ts n segs offs sigma,
  seq_dom ts segs -> splice_offsets n = Some offs -> In sigma (events ts n segs) ->
  exists m off, 0 <= m /\ In off offs /\ sigma = sched_time ts m off /\
                seq_start segs < announce_of ts sigma <= seq_end segs.
Proof. exact events_scheduled. Qed.
Print Assumptions C13_only_scheduled.

(** Over a wall-clock minute: a sequence covering the announce instants of minute m (3 s ... 39 s
    after the minute) carries exactly N events with a splice time in minute m, each documented
    offset exactly once. *)
Theorem C13_per_minute : forall ts n segs offs m,
  seq_dom ts segs -> splice_offsets n = Some offs -> 0 <= m ->
  seq_start segs < (60 * m + 3) * ts -> (60 * m + 39) * ts <= seq_end segs ->
  lenZ (events_in_minute ts n m segs) = n /\
  forall off, In off offs -> announcements ts n (sched_time ts m off) segs = 1.
Proof. exact minute_has_n_events. Qed.
Print Assumptions C13_per_minute.

(** The former finding missing-event:minute-boundary (fixed by f8b1b37): 8 s segments at 90 kHz
    (testpic_8s), N = 1: the segment [56 s, 64 s) contains the announce instant 63 s of the splice at
    70 s and starts in minute 0; it now carries that event, which is announced exactly once. *)
Theorem C13_minute_boundary_fixed :
  let ts := 90000 in
  let sigma := sched_time ts 1 10 in
  let a := announce_of ts sigma in
  seq_dom ts segs8 /\ splice_offsets 1 = Some [10] /\
  seq_start segs8 < a <= seq_end segs8 /\
  holder a segs8 = Some (56 * ts, 64 * ts) /\
  carried ts 1 (56 * ts, 64 * ts) = Some sigma /\
  announcements ts 1 sigma segs8 = 1 /\
  events ts 1 segs8 = [10 * ts; 70 * ts].
Proof. exact minute_boundary_witness. Qed.
Print Assumptions C13_minute_boundary_fixed.

(** The event a segment carries is the one with these fields (a valid segment never fails). *)
Theorem C13_event_built : forall ts n s e offs sigma,
  seg_dom ts s e -> splice_offsets n = Some offs ->
  carried ts n (s, e) = Some sigma ->
  createEmsgAhead s e ts n = Ok (Some (emsg_of ts n sigma)).
Proof. exact carried_emsg. Qed.
Print Assumptions C13_event_built.

(** Fields of the event for the splice at second k (sigma = k*ts), for 32-bit timescale and second
    count: presentation time, id, duration (20 s for N=1, else 10 s), and the embedded section:
    CRC-32/MPEG-2 over all bytes is 0, pts_time = k*90000 mod 2^33, break duration, flags, and
    pts_adjustment = 0 so that pts_time + pts_adjustment is the splice time. (Since 3532b28 there is no
    bound on k*ts*90000 any more; since 97520b1 the adjustment no longer cancels pts_time.) *)
Theorem C13_fields : forall ts n k,
  0 < ts < two32 -> 20 * ts < two32 -> 0 <= k < two32 ->
  let sigma := k * ts in
  let em := emsg_of ts n sigma in
  e_timescale em = ts /\ e_pt em = sigma /\ e_id em = k /\ e_dur em = ad_seconds n * ts /\
  crc32_mpeg (e_data em) = 0 /\
  exists v, decode_section (e_data em) = Some v /\
    v_table_id v = 252 /\ v_section_length v = lenZ (e_data em) - 3 /\ v_cmd_type v = 5 /\
    v_event v = k /\ v_pts_time v = (k * 90000) mod two33 /\ v_time_specified v = true /\
    v_break_dur v = ad_seconds n * 90000 /\ v_has_dur v = true /\ v_auto v = true /\
    v_out v = true /\ v_cancel v = false /\ v_immediate v = false /\ v_program v = true /\
    v_tier v = 4095 /\ v_upid v = 0 /\ v_avail v = 0 /\ v_avails v = 0 /\ v_desc_len v = 0 /\
    v_pts_adjustment v = 0.
Proof. exact emsg_fields. Qed.
Print Assumptions C13_fields.

(** The former finding pts-uint64-overflow (timescale 10^7, second 20497030; fixed by 3532b28). *)
Theorem C13_pts_overflow_fixed :
  let ts := 10000000 in let k := 20497030 in
  exists v, decode_section (e_data (emsg_of ts 1 (k * ts))) = Some v /\
            v_pts_time v = (k * 90000) mod two33 /\ v_pts_adjustment v = 0.
Proof. exact pts_no_overflow_example. Qed.
Print Assumptions C13_pts_overflow_fixed.

(** gots.ComputeCRC (augmented bit-serial form, start value 0x46af6449) is CRC-32/MPEG-2
    (start 0xffffffff, polynomial 0x04c11db7, no reflection) for every byte string. *)
Theorem C13_crc_is_mpeg2 : forall msg, computeCRC_value msg = crc32_mpeg msg.
Proof. exact computeCRC_is_mpeg2. Qed.
Print Assumptions C13_crc_is_mpeg2.

(** Section: for ALL parameters the CRC over the whole section is 0; for in-range parameters
    (33-bit times, 12-bit tier, with duration, not immediate) decoding the bytes gives the parameters back. *)
Theorem C13_section_crc : forall p, crc32_mpeg (createSpliceInsertPayload p) = 0.
Proof. exact payload_crc_zero. Qed.
Print Assumptions C13_section_crc.

Theorem C13_section : forall p, params_in_range p ->
  exists v, decode_section (createSpliceInsertPayload p) = Some v /\
    params_of_view v = p /\
    v_table_id v = 252 /\ v_section_length v = lenZ (createSpliceInsertPayload p) - 3 /\
    v_cmd_len v = 20 /\ v_cmd_type v = 5 /\ v_program v = true /\ v_has_dur v = true /\
    v_time_specified v = true /\ v_desc_len v = 0 /\
    v_pts_adjustment v = 0.
Proof. exact section_roundtrip. Qed.
Print Assumptions C13_section.

(** Other N are rejected (400, and CreateEmsgAhead itself returns the error). *)
Theorem C13_reject : forall n, n <> 1 -> n <> 2 -> n <> 3 ->
  cfg_scte_status (Some n) = 400 /\ forall s e ts, createEmsgAhead s e ts n = Err scte_err.
Proof. exact reject_other. Qed.
Print Assumptions C13_reject.

(** MPD: InbandEventStream iff enabled, video only; no other representation carries events. *)
Theorem C13_mpd : forall isVideo scte,
  inband_event_stream isVideo scte = true <-> isVideo = true /\ scte <> None.
Proof. exact inband_iff. Qed.
Print Assumptions C13_mpd.

Theorem C13_video_only : forall scte s d ts,
  segment_emsg false scte s d ts = Ok None /\ segment_emsg true None s d ts = Ok None.
Proof. exact no_event_elsewhere. Qed.
Print Assumptions C13_video_only.

(** Chunked low-latency delivery (chunkdur_<s>) carries the same event as the unchunked segment
    (former finding missing-event:chunked, fixed by b6338c6: the emsg was dropped). *)
Theorem C13_chunked_same : forall chunked isVideo scte s d ts,
  delivered_emsg chunked isVideo scte s d ts = segment_emsg isVideo scte s d ts.
Proof. exact chunked_same. Qed.
Print Assumptions C13_chunked_same.

(** Wall clock. The schedule theorems above are on the media timeline of the segments, which starts at
    availabilityStartTime (start_<s>). A splice at offset off of a media-timeline minute is off seconds
    after a full WALL-CLOCK minute, as the property words it, iff 60 divides the start time. *)
Theorem C13_wall_clock_iff : forall start m off, 0 <= off < 60 ->
  (wall_second start m off mod 60 = off <-> start mod 60 = 0).
Proof. exact wall_offset_iff. Qed.
Print Assumptions C13_wall_clock_iff.

(** FINDING (offset-on-media-timeline:start-not-multiple-of-60): start_1700000065, N = 1: the splice at
    media time 70 s is 35 s, not 10 s, after the full wall-clock minute. *)
Theorem C13_wall_clock_refuted :
  let start := 1700000065 in
  wall_second start 1 10 mod 60 = 35 /\ splice_offsets 1 = Some [10] /\ start mod 60 = 25.
Proof. exact wall_offset_witness. Qed.
Print Assumptions C13_wall_clock_refuted.

(** Non-vacuity: 2 s segments at 90 kHz over [0 s, 130 s), N = 3: the domain hypotheses hold, the
    events are exactly the splices at 10, 36, 46, 70, 96, 106, 130 s in this order, and minute 1 has 3. *)
Example C13_example :
  let ts := 90000 in
  let segs := map (fun k => (180000 * k, 180000 * (k + 1))) (seqZ 0 65) in
  seq_dom ts segs /\
  events ts 3 segs = map (fun k => k * ts) [10; 36; 46; 70; 96; 106; 130] /\
  lenZ (events_in_minute ts 3 1 segs) = 3 /\
  holder ((60 * 1 + 3) * ts) segs = Some (62 * ts, 64 * ts) /\
  (* 8 s segments: the sequence of segs8, events at 10 and 70 s *)
  events ts 1 segs8 = [10 * ts; 70 * ts].
Proof.
  cbv zeta. split.
  - unfold seq_dom. split; [lia|]. split; [|split; [discriminate|split; vm_compute; [discriminate|reflexivity]]].
    vm_compute. repeat split; intros; discriminate.
  - repeat split; vm_compute; reflexivity.
Qed.
