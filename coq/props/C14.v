(** C14 — fault-injection parameters hit exactly the scheduled requests.
    Only statements; the proofs are in theories/FaultProofs.v. *)
From Verif Require Import GoSem Timeline Fault.

(** Placeholder while the proofs are being written: the model computes the documented example
    (cycle 8 s, rsq 1 on 4 x 2 s segments hits 37, 41, 45). *)
Example C14_example :
  let r := {| segs := [ {| st := 0; en := 180000; snr := 1 |}; {| st := 180000; en := 360000; snr := 2 |};
               {| st := 360000; en := 540000; snr := 3 |}; {| st := 540000; en := 720000; snr := 4 |} ]; ts := 90000 |} in
  let c := {| startS := 0; startNr := 0; tsbdS := 60; ato := Some 0 |} in
  map (fun n => segAnswer r 8000 c [{| sc_cycle := 8; sc_rsq := 1; sc_code := 404; sc_reps := [] |}] "V300" None ByNumber n 100000 200)
      [36; 37; 38; 39; 40; 41] = [AStatus 200; AStatus 404; AStatus 200; AStatus 200; AStatus 200; AStatus 404].
Proof. vm_compute. reflexivity. Qed.
