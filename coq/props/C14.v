(** C14 — fault-injection parameters hit exactly the scheduled requests.
    Only statements; every proof is [exact <lemma>] (lemmas in theories/FaultProofs.v and
    theories/FaultLossProofs.v, model in theories/Fault.v on top of theories/Timeline.v).

    Notation of the statements: [S r n] / [E r n] start and end (ticks) of segment n of the looped
    timeline counted from availabilityStartTime; [cycleStart r cycle n] =
    floor(S n / (cycle*ts)) * (cycle*ts), the start of the cycle in which segment n starts;
    [firstInCycle r cycle n] the first segment of that cycle; [scheduleCode r codes rep n] the code
    of the first pattern (in order) whose representation filter matches and whose rsq equals
    n - firstInCycle, 0 if none; [scheduled ... base] that code, or the answer [base] the request
    gets without the parameter.  The first argument of [statusLoop]/[calcStatusCode]/[segAnswer]
    selects the model of the code as it is now ([true], with the repair 497da16 of the cycle start)
    or as it was before ([false]).  [goodCode r ss]: 0 < cycle <= 2^31-1 (what the parser accepts) and
    E 0 <= cycle*ts (the first segment is not longer than the cycle).  [codeValid]: the range checks
    of ParseSegStatusCodes. *)
From Verif Require Import GoSem Timeline TimelineProofs Fault FaultProofs FaultLossProofs.
From VerifGen Require Consts.

(** ** statuscode_ *)

(** The first segment of a cycle is min{m | S m >= cycle start}, and it is not after n. *)
Theorem C14_first_in_cycle : forall r loopMS cycle n,
  wf r loopMS -> 0 < cycle -> 0 <= n ->
  0 <= firstInCycle r cycle n <= n /\
  forall j, 0 <= j -> (cycleStart r cycle n <= S r j <-> firstInCycle r cycle n <= j).
Proof. exact firstInCycle_min. Qed.
Print Assumptions C14_first_in_cycle.

(** findLastSegNr (the last number of the timeline generated at an instant with a 60 s window) is
    the last segment that has ended at that instant. *)
Theorem C14_last_nr : forall r loopMS, wf r loopMS -> forall c nowMS,
  startS c = 0 -> 0 <= nowMS -> repDuration r < two64 -> E r 0 <= nowMS * ts r / 1000 ->
  let L := findLastSegNr r loopMS c nowMS in
  0 <= L /\ E r L <= nowMS * ts r / 1000 < E r (L + 1).
Proof. exact findLastSegNr_spec. Qed.
Print Assumptions C14_last_nr.

(** calcStatusCode computes the schedule, for every start time, every start number and every
    cycle the parser accepts (1 .. 2^31-1 s): the code returned for the segment with number
    startNr + n is the scheduled one.  (Before 497da16 this needed start = 0, startNumber = 0 and a
    first segment not longer than the cycle; see the last theorems of this section.) *)
Theorem C14_status_spec : forall r loopMS, wf r loopMS -> forall c repID n codes,
  0 <= startS c -> repDuration r < two64 -> Forall validCycle codes -> 0 <= n ->
  (startS c + S r n) * 1000 < two63 -> ts r < two32 ->
  statusLoop true r loopMS c repID (S r n) (ts r) (startNr c + n) codes = Ok (scheduleCode r codes repID n).
Proof. exact statusLoop_repaired. Qed.
Print Assumptions C14_status_spec.

(** A request by $Number$ for segment n (number startNr + n; video, or audio: audio uses the
    reference video segment with the same number): while the segment is available the answer is the
    scheduled code, or exactly the answer without the parameter; too early / gone are answered as
    without it. *)
Theorem C14_status_number : forall r loopMS, wf r loopMS -> forall c codes repID audio n now base,
  0 <= startS c -> 0 <= startNr c -> startNr c + n < two32 -> repDuration r < two64 ->
  codes <> [] -> forallb codeValid codes = true ->
  0 <= n -> (startS c + S r n) * 1000 < two63 -> ts r < two32 -> startS c * 1000 <= now ->
  segAnswer true r loopMS c codes repID audio ByNumber (startNr c + n) now base =
  timedAnswer (checkTime (E r n + startS c * ts r) (ts r) now (tsbdS c) (ato c)) (scheduled r codes repID n base).
Proof. exact segAnswer_number_repaired. Qed.
Print Assumptions C14_status_number.

(** The same for a video request by $Time$. *)
Theorem C14_status_time : forall r loopMS, wf r loopMS -> forall c codes repID n now base,
  0 <= startS c -> 0 <= startNr c -> startNr c + n < two32 -> repDuration r < two64 ->
  codes <> [] -> forallb codeValid codes = true ->
  0 <= n -> (startS c + S r n) * 1000 < two63 -> ts r < two32 -> startS c * 1000 <= now ->
  segAnswer true r loopMS c codes repID None ByTime (S r n) now base =
  timedAnswer (checkTime (E r n + startS c * ts r) (ts r) now (tsbdS c) (ato c)) (scheduled r codes repID n base).
Proof. exact segAnswer_time_repaired. Qed.
Print Assumptions C14_status_time.

(** An audio request by $Time$: the audio time t (a multiple of the frame duration) lies in
    reference segment n, i.e. S n <= floor(t * ts / audio timescale) < E n. *)
Theorem C14_status_audio_time : forall r loopMS, wf r loopMS -> forall c codes repID ats sd t n now base,
  0 <= startS c -> 0 <= startNr c -> startNr c + n < two32 -> repDuration r < two64 ->
  codes <> [] -> forallb codeValid codes = true ->
  0 <= n -> (startS c + S r n) * 1000 < two63 -> ts r < two32 -> startS c * 1000 <= now ->
  0 < ats -> 0 < sd -> t mod sd = 0 -> 0 <= t -> t * ts r < two64 ->
  S r n <= t * ts r / ats < E r n ->
  segAnswer true r loopMS c codes repID (Some (ats, sd)) ByTime t now base =
  timedAnswer (checkTime (E r n + startS c * ts r) (ts r) now (tsbdS c) (ato c)) (scheduled r codes repID n base).
Proof. exact segAnswer_audio_time_repaired. Qed.
Print Assumptions C14_status_audio_time.

(** One pattern: the code if and only if the representation matches and n is the rsq-th segment
    among those starting in its cycle; otherwise the normal answer. *)
Theorem C14_status_iff : forall r ss repID n base,
  scheduled r [ss] repID n base =
  if repInReps repID (sc_reps ss) && (n - firstInCycle r (sc_cycle ss) n =? sc_rsq ss)
  then (if sc_code ss =? 0 then base else sc_code ss) else base.
Proof. exact scheduled_single. Qed.
Print Assumptions C14_status_iff.

(** The former counter-examples (start_30, snr_7, a cycle shorter than the first segment) now follow
    the schedule: scheduled code or normal answer. *)
Theorem C14_start_snr_short_cycle_fixed :
  segAnswer true w_rep2 8000 (w_cfg 30 0) [w_code 8 1 404] "V300" None ByNumber 4 40037 200 = AStatus 200 /\
  segAnswer true w_rep2 8000 (w_cfg 30 0) [w_code 30 1 404] "V300" None ByNumber 31 94037 200 = AStatus 404 /\
  segAnswer true w_rep2 8000 (w_cfg 0 7) [w_code 8 1 404] "V300" None ByNumber 11 10037 200 = AStatus 200 /\
  segAnswer true w_rep2 8000 (w_cfg 0 7) [w_code 8 1 404] "V300" None ByNumber 16 20037 200 = AStatus 404 /\
  segAnswer true w_rep6 12000 (w_cfg 0 0) [w_code 5 0 400] "V300" None ByNumber 1 12037 200 = AStatus 400 /\
  segAnswer true w_rep8 8000 (w_cfg 0 0) [w_code 3 0 500] "V300" None ByNumber 1 16037 200 = AStatus 500 /\
  segAnswer true w_rep8 8000 (w_cfg 0 0) [w_code 3 1 599] "V300" None ByNumber 1 16037 200 = AStatus 200.
Proof. exact repaired_witnesses. Qed.
Print Assumptions C14_start_snr_short_cycle_fixed.

(** A cycle above 2^31-1 s is refused with 400 (its length in ticks used to wrap to 0: division by
    zero, fixed by 2c72d16). *)
Theorem C14_cycle_wrap_rejected :
  ~ goodCode w_rep2 (w_code 1152921504606846976 38 404) /\
  segAnswer false w_rep2 8000 (w_cfg 0 0) [w_code 1152921504606846976 38 404] "V300" None ByNumber 38 78037 200
    = AStatus 400.
Proof. exact cycle_wrap_rejected. Qed.
Print Assumptions C14_cycle_wrap_rejected.

(** The code before 497da16 is the model variant [false] (the harness uses it when it finds the
    repair reverted).  For it the schedule was proved under start = 0, startNumber = 0 and
    E 0 <= cycle*ts only, and refuted outside: the witnesses that were reproduced on that code. *)
Theorem C14_unrepaired_status_spec : forall r loopMS, wf r loopMS -> forall c codes repID n nr,
  startS c = 0 -> startNr c = 0 -> repDuration r < two64 -> Forall (goodCode r) codes -> 0 <= n ->
  S r n * 1000 < two63 -> ts r < two32 -> nr = n ->
  calcStatusCode false r loopMS c codes repID (metaOf r c n nr) = Ok (scheduleCode r codes repID n).
Proof. exact calcStatusCode_spec. Qed.
Print Assumptions C14_unrepaired_status_spec.

Theorem C14_unrepaired_start_refuted :
  wf w_rep2 8000 /\ goodCode w_rep2 (w_code 8 1 404) /\ goodCode w_rep2 (w_code 30 1 404) /\
  segAnswer false w_rep2 8000 (w_cfg 30 0) [w_code 8 1 404] "V300" None ByNumber 4 40037 200
    = APanic "findSegStartTime: index out of range" /\
  scheduleCode w_rep2 [w_code 30 1 404] "V300" 31 = 404 /\
  segAnswer false w_rep2 8000 (w_cfg 30 0) [w_code 30 1 404] "V300" None ByNumber 31 94037 200 = AStatus 200.
Proof. exact start_refuted. Qed.
Print Assumptions C14_unrepaired_start_refuted.

Theorem C14_unrepaired_snr_refuted :
  wf w_rep2 8000 /\ goodCode w_rep2 (w_code 8 1 404) /\
  segAnswer false w_rep2 8000 (w_cfg 0 7) [w_code 8 1 404] "V300" None ByNumber 11 10037 200
    = APanic "findSegStartTime: index out of range" /\
  scheduleCode w_rep2 [w_code 8 1 404] "V300" 9 = 404 /\
  segAnswer false w_rep2 8000 (w_cfg 0 7) [w_code 8 1 404] "V300" None ByNumber 16 20037 200 = AStatus 200.
Proof. exact snr_refuted. Qed.
Print Assumptions C14_unrepaired_snr_refuted.

Theorem C14_unrepaired_short_cycle_refuted :
  wf w_rep6 12000 /\ wf w_rep8 8000 /\
  ~ goodCode w_rep6 (w_code 5 0 400) /\ ~ goodCode w_rep8 (w_code 3 0 500) /\
  segAnswer false w_rep6 12000 (w_cfg 0 0) [w_code 5 0 400] "V300" None ByNumber 1 12037 200
    = APanic "findSegStartTime: index out of range" /\
  scheduleCode w_rep8 [w_code 3 0 500] "V300" 1 = 500 /\
  segAnswer false w_rep8 8000 (w_cfg 0 0) [w_code 3 0 500] "V300" None ByNumber 1 16037 200 = AStatus 200 /\
  scheduleCode w_rep8 [w_code 3 1 599] "V300" 1 = 0 /\
  segAnswer false w_rep8 8000 (w_cfg 0 0) [w_code 3 1 599] "V300" None ByNumber 1 16037 200 = AStatus 599.
Proof. exact short_cycle_refuted. Qed.
Print Assumptions C14_unrepaired_short_cycle_refuted.

(** The schedule does not depend on the configuration: two configurations (any availability time
    offset, time-shift buffer depth, start time, start number) give the same code for the same
    segment of the stream. *)
Theorem C14_schedule_independent_of_config : forall r loopMS, wf r loopMS -> forall c1 c2 repID n codes,
  0 <= startS c1 -> 0 <= startS c2 -> repDuration r < two64 -> Forall validCycle codes -> 0 <= n ->
  (startS c1 + S r n) * 1000 < two63 -> (startS c2 + S r n) * 1000 < two63 -> ts r < two32 ->
  statusLoop true r loopMS c1 repID (S r n) (ts r) (startNr c1 + n) codes =
  statusLoop true r loopMS c2 repID (S r n) (ts r) (startNr c2 + n) codes.
Proof. exact schedule_independent_of_config. Qed.
Print Assumptions C14_schedule_independent_of_config.

(** Generated subtitle tracks (timesubsstpp_/timesubswvtt_): since fccb54a they are looked up in the
    reference track like audio with timescale 1000 and sample duration 1, and C14_status_number /
    C14_status_audio_time apply to them (example below).  Before, every media segment of such a
    track was answered 404 as soon as a statuscode_ pattern was configured, scheduled or not: the
    witness is about that model variant (subsAnswerUnrepaired), which the harness uses when it finds
    the repair reverted. *)
Theorem C14_timesubs_refuted :
  scheduled w_rep2 [w_code 8 1 503] "timestpp-en" 40 200 = 200 /\
  subsAnswerUnrepaired (w_cfg 0 0) [w_code 8 1 503] 100000 200 = AStatus 404.
Proof. exact timesubs_refuted. Qed.
Print Assumptions C14_timesubs_refuted.

Theorem C14_timesubs_repaired_example :
  map (fun n => segAnswer true w_rep2 8000 (w_cfg 0 0) [w_code 8 1 503] "timestpp-en" (Some (1000, 1)) ByNumber n 100000 200)
      [40; 41; 42] = [AStatus 200; AStatus 503; AStatus 200] /\
  segAnswer true w_rep2 8000 (w_cfg 0 0) [w_code 8 1 503] "timestpp-en" (Some (1000, 1)) ByTime 82000 100000 200 = AStatus 503.
Proof. exact timesubs_repaired_example. Qed.
Print Assumptions C14_timesubs_repaired_example.

(** ** traffic_ *)

(** Parsing what was written gives the intervals back (at least one interval, positive durations,
    total below 2^63). *)
Theorem C14_loss_parse : forall l, Forall goodItvl l -> l <> [] -> sumDur l < two63 ->
  createLossItvls (printItvls l) = Ok l.
Proof. exact createLossItvls_print. Qed.
Print Assumptions C14_loss_parse.

(** Whatever is accepted has at least one interval, a state and a non-zero duration in every
    interval, a positive cycle, and the string contains a state letter; hence StateAt has a value
    at every second (a pattern without a cycle duration used to be accepted and made StateAt
    divide by zero: fixed in the repository, see C14_empty_pattern_rejected). *)
Theorem C14_loss_accepts : forall p l, createLossItvls p = Ok l ->
  Forall okItvl l /\ l <> [] /\ 0 < cycleDurS l /\ exists ch, In ch p /\ letterState ch <> None.
Proof. exact createLossItvls_ok. Qed.
Print Assumptions C14_loss_accepts.

Theorem C14_state_total : forall p l s, createLossItvls p = Ok l -> exists st, stateAt l s = Ok st.
Proof. exact createLossItvls_stateAt. Qed.
Print Assumptions C14_state_total.

(** StateAt l s is the state at position s mod cycle of the interval sequence written out second
    by second, for every second s >= 0; the cycle is the sum of the durations. *)
Theorem C14_state_at : forall l s, goodItvls l -> l <> [] -> 0 <= s ->
  stateAt l s = Ok (nth (Z.to_nat (s mod sumDur l)) (flatten l) LUnknown)
  /\ 0 < sumDur l /\ Z.of_nat (length (flatten l)) = sumDur l.
Proof. exact stateAt_spec. Qed.
Print Assumptions C14_state_at.

Theorem C14_state_periodic : forall l s k, goodItvls l -> l <> [] -> 0 <= s -> 0 <= k ->
  stateAt l (s + k * sumDur l) = stateAt l s.
Proof. exact stateAt_periodic. Qed.
Print Assumptions C14_state_periodic.

(** One BaseURL per pattern, bu0/ bu1/ ... in order; bu<i> as first element of the segment path
    selects pattern i, is removed from the path, and the request is answered according to the
    state of pattern i at second nowMS/1000: up = goes on unchanged, down = 404, slow = goes on
    after 2 s, hang = 503 after 10 s. *)
Theorem C14_baseurls : forall traffic,
  length (mpdBaseURLs traffic) = length traffic /\
  forall i, (i < length traffic)%nat -> nth i (mpdBaseURLs traffic) EmptyString = baseURL (Z.of_nat i).
Proof. exact mpdBaseURLs_spec. Qed.
Print Assumptions C14_baseurls.

Theorem C14_baseurl_selects : forall i rest, 0 <= i < two63 ->
  extractPattern ("/" ++ baseURL i ++ rest) = Ok (i, ("/" ++ rest)%string).
Proof. exact extractPattern_baseURL. Qed.
Print Assumptions C14_baseurl_selects.

Theorem C14_traffic_step : forall traffic i rest nowMS itvls,
  0 <= i < two63 -> nthZ i traffic = Some itvls ->
  trafficStep traffic ("/" ++ baseURL i ++ rest) nowMS =
  match stateAt itvls (Z.quot nowMS 1000) with
  | Panic s => TrPanic s
  | Err _ => TrStatus 500 0
  | Ok LNo => TrContinue ("/" ++ rest) 0
  | Ok L404 => TrStatus 404 0
  | Ok LSlow => TrContinue ("/" ++ rest) 2
  | Ok LHang => TrStatus 503 10
  | Ok LUnknown => TrStatus 500 0
  end.
Proof. exact trafficStep_baseURL. Qed.
Print Assumptions C14_traffic_step.

Theorem C14_empty_pattern_rejected :
  createLossItvls (bytesOf "12") = Err "invalid loss pattern" /\
  createLossItvls [] = Err "invalid loss pattern" /\
  createAllLossItvls (bytesOf "u10,") = Err "invalid loss pattern" /\
  createAllLossItvls (bytesOf "u10,,d3") = Err "invalid loss pattern".
Proof. exact empty_pattern_rejected. Qed.
Print Assumptions C14_empty_pattern_rejected.

(** The parser as it is since cae471f, with the range check of the interval durations
    ([createLossItvlsB mx], mx = maxLossItvlDurS of the source): what is written with durations
    1..mx is read back; every accepted pattern has all durations within 1..mx; and for a pattern
    shorter than 2^32 bytes neither the cycle nor the arithmetic of StateAt can wrap: the cycle is
    the exact sum of the durations and StateAt is the flattened pattern at (s mod cycle). *)
Theorem C14_loss_parse_roundtrip_bounded : forall mx, mx * 10 + 9 < two63 -> forall l,
  Forall (boundedItvl mx) l -> l <> [] -> sumDur l < two63 -> createLossItvlsB mx (printItvls l) = Ok l.
Proof. exact createLossItvlsB_print. Qed.
Print Assumptions C14_loss_parse_roundtrip_bounded.

Theorem C14_loss_parse_bounded : forall mx, 0 < mx -> mx * 10 + 9 < two63 -> forall p l,
  createLossItvlsB mx p = Ok l -> Forall (boundedItvl mx) l /\ l <> [] /\ lenZ l <= lenZ p + 1.
Proof. exact createLossItvlsB_bounded. Qed.
Print Assumptions C14_loss_parse_bounded.

Theorem C14_loss_no_overflow : forall p l s,
  createLossItvlsB maxLossItvlDur p = Ok l -> lenZ p + 1 <= two32 -> 0 <= s ->
  Forall (boundedItvl maxLossItvlDur) l /\ goodItvls l /\ l <> [] /\ cycleDurS l = sumDur l /\
  stateAt l s = Ok (nth (Z.to_nat (s mod sumDur l)) (flatten l) LUnknown).
Proof. exact parse_no_overflow. Qed.
Print Assumptions C14_loss_no_overflow.

(** The bound and the state numbers of the model are the constants of the Go source (gen/Consts.v is
    regenerated from /repo on every run): changing maxLossItvlDurS or the lossState enumeration breaks
    this obligation. *)
Theorem C14_loss_bound_const :
  Consts.app_maxLossItvlDurS = maxLossItvlDur /\
  map lstateZ [LUnknown; LNo; L404; LSlow; LHang]
  = [Consts.app_lossUnknown; Consts.app_lossNo; Consts.app_loss404; Consts.app_lossSlow; Consts.app_lossHang].
Proof. split; reflexivity. Qed.

Theorem C14_loss_overflow_rejected :
  createLossItvlsB maxLossItvlDur (bytesOf "u18446744073709551617") = Err "invalid loss pattern: interval too long" /\
  createLossItvlsB maxLossItvlDur (bytesOf "u99999999999999999999d1") = Err "invalid loss pattern: interval too long" /\
  createLossItvlsB maxLossItvlDur (bytesOf "u2147483648") = Err "invalid loss pattern: interval too long" /\
  createLossItvlsB maxLossItvlDur (bytesOf "u2147483647d1") = Ok [{| l_dur := 2147483647; l_state := LNo |}; {| l_dur := 1; l_state := L404 |}].
Proof. exact loss_overflow_rejected. Qed.
Print Assumptions C14_loss_overflow_rejected.

(** The parser before cae471f ([createLossItvls], used by the harness when it finds the check reverted): a duration written with 20 digits wraps the
    64-bit int and is accepted with another value. *)
Theorem C14_loss_overflow_refuted_before_fix :
  createLossItvls (bytesOf "u18446744073709551617") = Ok [{| l_dur := 1; l_state := LNo |}] /\
  createLossItvls (bytesOf "u99999999999999999999d1")
    = Ok [{| l_dur := 7766279631452241919; l_state := LNo |}; {| l_dur := 1; l_state := L404 |}].
Proof. exact loss_overflow_refuted. Qed.
Print Assumptions C14_loss_overflow_refuted_before_fix.

(** Non-vacuity.  statuscode_[{cycle:5,rsq:1,code:404}] on 4 x 2 s segments (cycle not divisible by
    the segment duration): cycles start at 0, 5, 10, 15 s; their first segments are 0, 3, 5, 8;
    the hypotheses of the theorems hold and the scheduled segments of the first four cycles are
    1, 4, 6, 9.  traffic_u2d1s1: the states of seconds 0..7. *)
Example C14_example :
  wf w_rep2 8000 /\ goodCode w_rep2 (w_code 5 1 404) /\
  map (firstInCycle w_rep2 5) [0; 1; 2; 3; 4; 5; 6; 7; 8; 9] = [0; 0; 0; 3; 3; 5; 5; 5; 8; 8] /\
  map (fun n => segAnswer true w_rep2 8000 (w_cfg 0 0) [w_code 5 1 404] "V300" None ByNumber n (2000 * n + 2037) 200)
      [0; 1; 2; 3; 4; 5; 6; 7; 8; 9]
  = map AStatus [200; 404; 200; 200; 404; 200; 404; 200; 200; 404] /\
  (do l <- createLossItvls (bytesOf "u2d1s1"); mapRes (stateAt l) [0; 1; 2; 3; 4; 5; 6; 7])
  = Ok [LNo; LNo; L404; LSlow; LNo; LNo; L404; LSlow] /\
  goodItvls [{| l_dur := 2; l_state := LNo |}; {| l_dur := 1; l_state := L404 |}; {| l_dur := 1; l_state := LSlow |}].
Proof.
  split; [exact w_rep2_wf|]. split; [repeat split; cbn; unfold two63; lia|].
  split; [vm_compute; reflexivity|]. split; [vm_compute; reflexivity|]. split; [vm_compute; reflexivity|].
  split; [repeat constructor; cbn; lia|vm_compute; reflexivity].
Qed.
