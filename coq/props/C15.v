(** C15 — the representation-metadata cache never changes what is served.
    Only statements; every proof is [exact <lemma>] (lemmas in theories/CacheProofs.v). *)
From Verif Require Import GoSem Timeline Cache CacheProofs.

(** $Number$ tables are contiguous by construction, for every list of file observations
    (missing, undecodable, gaps or overlaps between the files, any start/end number), as long as
    the uint32 segment number does not wrap. *)
Theorem C15_contiguous_number : forall thumb files sn en dsd segs dsd',
  0 <= match sn with Some n => n | None => 1 end ->
  match sn with Some n => n | None => 1 end + lenZ files <= two32 ->
  load_number thumb files sn en dsd = Ok (segs, dsd') -> contiguous (map tseg segs).
Proof. exact load_number_contig. Qed.
Print Assumptions C15_contiguous_number.
