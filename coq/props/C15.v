(** C15 — the representation-metadata cache never changes what is served.
    Only statements; every proof is [exact <lemma>] (lemmas in theories/CacheProofs.v,
    CacheSimProofs.v, CacheTop.v, CacheWitness.v).  Model: theories/Cache.v.
    [enc]/[dec] stand for json.Marshal+gzip.Writer and gzip.Reader+json.Unmarshal; the only thing
    assumed about them is [dec (enc s) = Some s]. *)
From Verif Require Import GoSem Timeline Cache CacheProofs CacheSimProofs CacheTop CacheWitness CorrC15.

Section C15.
Variable B : Type.
Variable enc : stored -> B.
Variable dec : B -> option stored.
Hypothesis dec_enc : forall s, dec (enc s) = Some s.

(** Same tables: reading back the file that write mode stores for a scanned representation gives
    exactly the scanned representation without the (never used) CommonSampleDur of its segments:
    the stored fields, and hence the table handed to the serving code, are the same. *)
Theorem C15_same_tables : forall m r,
  scan_rep m = Ok r -> init_ts_ok m ->
  load_json B dec (enc (to_stored r)) (m_init_at m) = Ok (stored_fields r) /\
  to_stored (stored_fields r) = to_stored r /\ trep (stored_fields r) = trep r.
Proof.
  exact (fun m r Hs Ht => conj (load_json_of_scan B enc dec dec_enc m r Hs Ht)
                               (conj (to_stored_stored_fields r) (trep_stored_fields r))).
Qed.

(** Same served assets, for every asset layout and every cache directory in which each file is
    absent, as written by write mode for the same files, unreadable (truncated, corrupt gzip) or
    undecodable (cut JSON) - present, absent, partially present, truncated, corrupt: the
    cache-started server registers and admits the same assets with the same stored fields,
    LoopDurMS, SegmentDurMS, reference and MPD list as the scanning server; start-up errors and
    panics coincide; the directory is not modified. *)
Theorem C15_same_responses : forall l c c0,
  cache_good B enc dec c l ->
  all_rel B c c0 (discover B enc dec mode_read l c) (discover B enc dec mode_scan l c0).
Proof. exact (discover_cache_eq_scan B enc dec dec_enc). Qed.

(** Write mode itself serves what scan mode serves. *)
Theorem C15_write_mode_same : forall l c c0,
  two_all_rel B (fun _ _ => True) (discover B enc dec mode_write l c) (discover B enc dec mode_scan l c0).
Proof. exact (write_eq_scan B enc dec). Qed.

(** End to end: write mode over an empty directory, then cache mode over what it left or any
    subset of it (shared or separate root makes no difference to the loader). *)
Theorem C15_cache_after_write : forall (D : string -> string -> mpd_rep) l A cw c c0,
  consistent D l ->
  Forall (mpd_occ (fun _ m => init_ts_ok m)) l ->
  discover B enc dec mode_write l (fun _ _ => CAbsent) = Ok (A, cw) ->
  (forall a id, c a id = CAbsent \/ c a id = cw a id) ->
  all_rel B c c0 (discover B enc dec mode_read l c) (discover B enc dec mode_scan l c0).
Proof. exact (cache_after_write_eq_scan B enc dec dec_enc). Qed.

(** Idempotence: a second write-mode start leaves every cache file as the first one wrote it and
    serves the same assets. *)
Theorem C15_idempotent : forall l c assets c1,
  discover B enc dec mode_write l c = Ok (assets, c1) ->
  exists c2, discover B enc dec mode_write l c1 = Ok (assets, c2) /\ forall a id, c2 a id = c1 a id.
Proof. exact (write_idempotent B enc dec). Qed.

(** Write mode refreshes: over any directory (files of an earlier version of the asset, truncated or
    corrupt files) a write run leaves, for every representation it scanned, exactly the file a write
    run into an empty directory produces; other files are not touched. *)
Theorem C15_write_refreshes : forall l c assets c1,
  discover B enc dec mode_write l c = Ok (assets, c1) ->
  exists c0, discover B enc dec mode_write l (fun _ _ => CAbsent) = Ok (assets, c0) /\
             forall a id, c1 a id = c0 a id \/ (c1 a id = c a id /\ c0 a id = CAbsent).
Proof. exact (write_refreshes B enc dec). Qed.

(** ... and a representation loaded from a file is written back as the same file. *)
Theorem C15_idempotent_file : forall r, enc (to_stored (stored_fields r)) = enc (to_stored r).
Proof. exact (fun r => f_equal enc (to_stored_stored_fields r)). Qed.

(** Admission, for every asset served in any mode: the reference representation lasts exactly
    LoopDurMS milliseconds (1000*D = loopMS*ts in exact arithmetic whenever the int64 products do
    not overflow); every representation has a contiguous table and - unless it has no timescale or
    is audio re-segmented against a non-audio reference - exactly the duration of the reference
    (D_r*ts_ref = D_ref*ts_r); pre-encrypted audio lasts LoopDurMS ms.  ([rep_admitted]) *)
Theorem C15_admission : forall md l c A c' p a,
  discover B enc dec md l c = Ok (A, c') -> In (p, a) A ->
  exists k ref,
    a_ref a = Some k /\ lookup k (a_reps a) = Some ref /\
    dur_ms ref = Ok (a_loop a) /\
    (admission_range ref -> 1000 * rduration (r_segs ref) = a_loop a * r_mediats ref) /\
    (forall k' r, In (k', r) (a_reps a) -> rep_admitted ref (a_loop a) r).
Proof. exact (served_asset_admission B enc dec). Qed.

(** The loaded segment table of every served representation is contiguous: whatever the
    addressing ($Number$ by construction, $Time$ by the test in consolidateAsset), whatever the
    start mode and the state of the cache directory. *)
Theorem C15_contiguous_served : forall md l c A c' p a k r,
  discover B enc dec md l c = Ok (A, c') -> In (p, a) A -> In (k, r) (a_reps a) ->
  contiguous (segs (trep r)).
Proof. exact (served_tables_contiguous B enc dec). Qed.

(** loadAsset is atomic: an error while loading an MPD leaves the asset as it was (no MPD
    registered with some of its representations missing). *)
Theorem C15_load_asset_atomic : forall md apath name o a c a' c' e,
  load_asset B enc dec md apath name o a c = Ok (a', c', Some e) -> a' = a.
Proof. exact (load_asset_atomic B enc dec). Qed.

(** ... and when it registers an MPD (scan or write mode), every representation the MPD lists is
    loaded in the asset and nothing loaded before is lost: no registered MPD refers to a missing
    representation (the nil dereference in LiveMPD of the former partial assets). *)
Theorem C15_registered_mpd_complete : forall md apath name sets a c a' c',
  use_cache md = false ->
  load_asset B enc dec md apath name (MOk sets) a c = Ok (a', c', None) ->
  In name (a_mpds a') /\ keys_kept a a' /\
  forall s b m, In s sets -> In (b, m) (as_reps s) -> lookup (m_id m) (a_reps a') <> None.
Proof. exact (load_asset_complete B enc dec). Qed.

(** ... which is the hypothesis [wf_loop] of the timeline theorems (C01, C02, C04 ...): the loop
    duration of the served reference table is exactly LoopDurMS milliseconds. *)
Theorem C15_admission_wf_loop : forall md l c A c' p a,
  discover B enc dec md l c = Ok (A, c') -> In (p, a) A ->
  exists k ref,
    a_ref a = Some k /\ lookup k (a_reps a) = Some ref /\
    (r_segs ref <> [] -> 0 <= repDuration (trep ref) < two63 -> admission_range ref ->
     1000 * repDuration (trep ref) = a_loop a * ts (trep ref)).
Proof. exact (served_ref_wf_loop B enc dec). Qed.

End C15.

(** ConstantSampleDuration (needed by the audio path, C03) is non-zero exactly when all segments
    have one common sample duration. *)
Theorem C15_constant_sample_duration : forall l d,
  Forall (fun s => 0 <= c_csd s < two32) l ->
  const_sample_dur l = Some d -> d <> 0 ->
  l <> [] /\ Forall (fun s => c_csd s = d) l.
Proof. exact const_sample_dur_nonzero. Qed.

(** A loop that is not a whole number of milliseconds is left out. *)
Theorem C15_admission_not_whole_ms : forall a k ref,
  reference_rep a = Some k -> lookup k (a_reps a) = Some ref ->
  admission_range ref ->
  Z.rem (1000 * rduration (r_segs ref)) (r_mediats ref) <> 0 ->
  consolidate a = Ok None.
Proof. exact not_whole_ms_left_out. Qed.

(** The admission equation is the [wf_loop] hypothesis of the timeline theorems (C01 ...). *)
Theorem C15_admission_is_wf_loop : forall r,
  r_segs r <> [] -> 0 <= repDuration (trep r) < two63 ->
  rduration (r_segs r) = repDuration (trep r).
Proof. exact rduration_repDuration. Qed.

(** $Number$ tables are contiguous by construction, for every list of file observations
    (missing, undecodable, gaps or overlaps between the files), every start and end number - also
    when the uint32 segment number wraps (the loader then reports an error or keeps the table built
    before the wrap). *)
Theorem C15_contiguous_number : forall thumb files sn en dsd segs dsd',
  0 <= match sn with Some n => n | None => 1 end < two32 ->
  lenZ files < two32 ->
  load_number thumb files sn en dsd = Ok (segs, dsd') -> contiguous (map tseg segs).
Proof. exact load_number_contig_all. Qed.

(** ... hence the served table of every scanned $Number$ representation, and of every one loaded
    from the file written for it. *)
Theorem C15_contiguous_number_served : forall m r r',
  scan_rep m = Ok r -> rep_sim r' r -> m_timeline m = None ->
  0 <= match m_startnr m with Some n => n | None => 1 end < two32 ->
  lenZ (m_files m) < two32 ->
  contiguous (segs (trep r')).
Proof. exact cached_rep_number_contig. Qed.

(** $Time$ tables are the files' own (start, end) rows: contiguous iff the files are.  Nothing is
    adjusted, nothing is checked. *)
Theorem C15_contiguous_time : forall tfile es dsd segs dsd',
  time_loop tfile es 0 dsd [] = Ok (segs, dsd') ->
  exists rows, file_table (map tfile (visits es 0)) dsd = Ok (rows, dsd') /\ segs = rows /\
               (ccontig segs <-> ccontig rows).
Proof. exact time_table_contig_iff. Qed.

(** The loader itself does not adjust $Time$ tables: files with a gap are loaded with the gap
    ([time_gap_is_served]: rows (0,2000) (2300,4300)); such an asset is then left out. *)
Theorem C15_contiguous_time_gap_loaded :
  exists tfile es segs dsd', time_loop tfile es 0 40 [] = Ok (segs, dsd') /\ ~ ccontig segs.
Proof. exact time_gap_is_served. Qed.

Theorem C15_time_gap_left_out :
  match scan_rep w_tgap with Ok r => map (fun s => (c_st s, c_en s)) (r_segs r) | _ => [] end = [(0, 2000); (2300, 4300)] /\
  served_ids (discover stored enc0 dec0 mode_scan w_l4 (fun _ _ => CAbsent)) = [].
Proof. exact (conj w_time_gap_loaded w_time_gap_left_out). Qed.

(** An unreadable cache file does not change what is served (formerly refuted: the miniature
    testpic_2s with V300_data.json.gz unreadable was served with A48 only; two video representations
    of different duration were served when the file of one was unreadable). *)
Theorem C15_unreadable_file_harmless :
  served_ids (discover stored enc0 dec0 mode_read w_l w_cache_broken)
    = served_ids (discover stored enc0 dec0 mode_scan w_l (fun _ _ => CAbsent)) /\
  served_ids (discover stored enc0 dec0 mode_read w_l2 w_cache2_broken) = [].
Proof. exact (conj (eq_trans w_served_broken (eq_sym w_served_scan)) w_differ_broken). Qed.

(** Representations that disagree in duration are left out, whatever their content type (formerly
    refuted: video 8 s with a text representation of 6 s was admitted). *)
Theorem C15_admission_other_types :
  served_ids (discover stored enc0 dec0 mode_scan w_l3 (fun _ _ => CAbsent)) = [].
Proof. exact w_text_shorter_left_out. Qed.

(** A media file without fragments is a load error (formerly a start-up panic), and the asset
    whose MPD needs it is left out; thumbnails without a duration (timescale 0) do not stop the
    start-up. *)
Theorem C15_no_fragments_left_out :
  served_ids (discover stored enc0 dec0 mode_scan (w_mpds [(false, w_a48)] [(false, w_v_nofrag)]) (fun _ _ => CAbsent)) = [] /\
  served_ids (discover stored enc0 dec0 mode_scan w_l5 (fun _ _ => CAbsent))
    = [("th", ["Manifest.mpd"], ["V300"; "thumbs"], Some "V300", 8000)].
Proof. exact (conj w_nofrag_left_out w_thumbs_ts0_served). Qed.

(** MPDs that rely on schema defaults - no type attribute (static), no mediaPresentationDuration -
    are loaded and served (formerly nil dereferences in loadAsset that stopped the start-up). *)
Theorem C15_mpd_defaults_served :
  served_ids (discover stored enc0 dec0 mode_scan w_l6 (fun _ _ => CAbsent))
    = [("nt", ["Manifest.mpd"], ["V300"], Some "V300", 8000)] /\
  served_ids (discover stored enc0 dec0 mode_scan w_l7 (fun _ _ => CAbsent))
    = [("nd", ["Manifest.mpd"], ["V300"], Some "V300", 8000)].
Proof. exact (conj w_no_type_served w_no_duration_served). Qed.

(** The hypothesis [init_ts_ok] of C15_same_tables is needed: with an init timescale of 0 the
    cache path resets DefaultSampleDuration. *)
Theorem C15_same_tables_ts0_refuted :
  exists r r', scan_rep w_ts0 = Ok r /\ load_json stored dec0 (enc0 (to_stored r)) (m_init_at w_ts0) = Ok r' /\
               r_dsd r = 3000 /\ r_dsd r' = 0.
Proof. exact w_ts0_differs. Qed.

(** Non-vacuity: the directory written for the miniature testpic_2s is good, and the cache-started
    server serves the asset with both representations, reference V300, loop 8000 ms. *)
Example C15_example :
  cache_good stored enc0 dec0 w_cache w_l /\
  served_ids (discover stored enc0 dec0 mode_read w_l w_cache)
    = [("testpic_2s", ["Manifest.mpd"], ["A48"; "V300"], Some "V300", 8000)].
Proof. exact (conj w_cache_good w_served_cache). Qed.

Print Assumptions C15_same_tables.
Print Assumptions C15_same_responses.
Print Assumptions C15_write_mode_same.
Print Assumptions C15_cache_after_write.
Print Assumptions C15_idempotent.
Print Assumptions C15_write_refreshes.
Print Assumptions C15_idempotent_file.
Print Assumptions C15_admission.
Print Assumptions C15_admission_wf_loop.
Print Assumptions C15_constant_sample_duration.
Print Assumptions C15_admission_not_whole_ms.
Print Assumptions C15_admission_is_wf_loop.
Print Assumptions C15_contiguous_number.
Print Assumptions C15_contiguous_number_served.
Print Assumptions C15_contiguous_time.
Print Assumptions C15_contiguous_served.
Print Assumptions C15_load_asset_atomic.
Print Assumptions C15_registered_mpd_complete.
Print Assumptions C15_contiguous_time_gap_loaded.
Print Assumptions C15_time_gap_left_out.
Print Assumptions C15_unreadable_file_harmless.
Print Assumptions C15_admission_other_types.
Print Assumptions C15_no_fragments_left_out.
Print Assumptions C15_mpd_defaults_served.
Print Assumptions C15_same_tables_ts0_refuted.
Print Assumptions C15_example.
