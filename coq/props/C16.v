(** C16 — the CMAF-ingest sender emits a complete, ordered and faithful stream.
    Only statements; every proof is [exact <lemma>] (lemmas in theories/IngestProofs.v and
    theories/IngestHandoverProofs.v; the model is theories/Ingest.v).

    Vocabulary.  [session cf now initres evs] is cmafIngester.start: the init PUTs (representation
    indices in order), the groups of upload attempts (one group per call of sendMediaSegments, one
    [mput] per representation: number, URL id, nowMS given to writeSegment, lmsg flag, accepted by
    writeSegment or not) and the final state, for the event sequence [evs] over
    {EvTimer, EvTrigger (REST step), EvCancel (REST delete)}.  [numbered cf n gs]: the groups [gs]
    carry the numbers n, n+1, ... and each holds exactly one attempt per representation in
    representation order.  The availability function [sc_avail cf] is a parameter of the
    configuration; [mk_scfg] instantiates it with the code's float64 computation. *)
From Verif Require Import GoSem Timeline Ingest IngestProofs IngestHandoverProofs IngestLiveEdge IngestTimeMode.

(** ** Order: init first, then consecutive numbers, one attempt per representation per group —
    for every event sequence, every clock, every receiver behaviour, every availability function. *)
Theorem C16_order : forall cf now initres evs inits gs st,
  session cf now initres evs = (inits, gs, st) ->
  inits = repIdxs cf /\
  numbered cf (nextNr (snd (start cf now initres))) gs /\
  (ph (snd (start cf now initres)) = PRunning ->
   nextNr (snd (start cf now initres)) = firstNr cf now).
Proof. exact session_order. Qed.
Print Assumptions C16_order.

(** [firstNr] in the current code (fix fec92f5, [mk_scfg] sets [sc_first_fix = true]) and before the
    fix (the harness reads from the source which one the tree under test has). *)
Theorem C16_first_number_before_fix : forall cf now,
  sc_first_fix cf = false -> firstNr cf now = findLastSegNr cf now + 1.
Proof. exact firstNr_pinned. Qed.
Theorem C16_first_number_current : forall cf now,
  sc_first_fix cf = true -> firstNr cf now = Z.max (findLastSegNr cf now) (-1) + 1 + startNr (sc_cfg cf).
Proof. exact firstNr_repaired. Qed.
Theorem C16_first_number_example :
  let c := {| startS := 0; startNr := 3; tsbdS := 60; ato := Some 0 |} in
  let cf := mk_scfg [ {| ir_kind := RVideo; ir_tab := Some rep2s |} ] rep2s 8000 2000 c false true None false in
  let cf0 := mk_scfg [ {| ir_kind := RVideo; ir_tab := Some rep2s |} ] rep2s 8000 2000 cfg0 false true None false in
  (let '(_, gs, _) := session cf 10000 [] [trig] in map (map (fun m => (mp_nr m, mp_now m, mp_ok m))) gs = [[(8, 12000, true)]]) /\
  (let '(_, gs, _) := session cf0 1000 [] [trig; trig] in map (map (fun m => (mp_nr m, mp_now m, mp_ok m))) gs = [[(0, 2000, true)]; [(1, 4000, true)]]).
Proof. exact first_number_repaired_witness. Qed.

(** [findLastSegNr] is the live edge: [n] is the newest segment of the
    reference representation that has ended at the start instant (E n <= now < E (n+1), in
    milliseconds x timescale), with the window theorems of C02 (WindowProofs.timeline_is_window). *)
Theorem C16_first_number : forall cf now n,
  wf (sc_ref cf) (sc_loopMS cf) -> startS (sc_cfg cf) * 1000 <= now -> 0 <= n ->
  E (sc_ref cf) n * 1000 <= (now - startS (sc_cfg cf) * 1000) * ts (sc_ref cf) < E (sc_ref cf) (n + 1) * 1000 ->
  findLastSegNr cf now = n.
Proof. exact first_number_is_live_edge. Qed.
Print Assumptions C16_first_number.

(** Nothing is sent after Cancel, whatever follows. *)
Theorem C16_cancel : forall cf st evs1 evs2,
  fst (run cf st (evs1 ++ EvCancel :: evs2)) = fst (run cf st evs1) /\
  ph (snd (run cf st (evs1 ++ EvCancel :: evs2))) <> PRunning.
Proof. exact cancel_stops. Qed.
Print Assumptions C16_cancel.

(** Cancel that arrives while the init segment of representation k is being uploaded: the receiver
    sees the inits up to k and nothing else, whatever events follow; the session is stopped. *)
Theorem C16_cancel_in_init : forall cf now initres k evs inits gs st,
  session_c cf now initres (Some k) evs = (inits, gs, st) ->
  inits = takeZ (k + 1) (repIdxs cf) /\ gs = [] /\ ph st = PStopped.
Proof. exact cancel_in_init. Qed.
Print Assumptions C16_cancel_in_init.

(** Step mode: a trigger taken by the running loop makes exactly one group (one attempt per
    representation) for the next number, at that number's availability time. *)
Theorem C16_step_mode : forall cf st ev,
  sc_test cf = true -> tabs_ok cf -> ph st = PRunning -> is_fire ev ->
  exists g st', step cf st ev = ([g], st') /\ group_wf cf (nextNr st) g /\
                Forall (fun m => mp_now m = availT st /\ mp_last m = (nextNr st =? lastToSend st)) g.
Proof. exact step_mode_one_group. Qed.
Print Assumptions C16_step_mode.

(** Duration: with duration d the session makes exactly floor(d*1000/segDurMS)+1 groups (the
    code's meaning of "the corresponding number"), numbered from the live edge + 1, only the last
    one marked lmsg, and is stopped afterwards however many triggers follow.  Step mode, no
    chunking, hypotheses [tabs_ok], [avail_total] exclude the recorded crash findings. *)
Theorem C16_duration : forall cf now initres evs d inits gs st,
  sc_dur cf = Some d -> 0 <= d -> 0 < sc_segDurMS cf ->
  sc_test cf = true -> sc_chunked cf = false -> tabs_ok cf -> avail_total cf ->
  forallb (fun i => nth i initres true) (seq 0 (length (sc_reps cf))) = true ->
  let k := d * 1000 / sc_segDurMS cf in
  let first := firstNr cf now in
  0 <= first ->
  Forall is_fire evs -> k < lenZ evs ->
  session cf now initres evs = (inits, gs, st) ->
  inits = repIdxs cf /\ lenZ gs = k + 1 /\ numbered_last cf (first + k) first gs /\ ph st = PStopped.
Proof. exact duration_session. Qed.
Print Assumptions C16_duration.

(** Duration in step mode AND in real time, for every sequence of clock readings, with the catch-up
    loop of the current code (fix 07f3435: it looks at lastSegNrToSend; [mk_scfg] sets
    [sc_catchup_checks = true], and the harness reads from the source which variant the tree under
    test has): exactly floor(d*1000/segDurMS)+1 groups, only the last marked lmsg, then stopped. *)
Theorem C16_duration_realtime : forall cf now initres evs d inits gs st,
  sc_catchup_checks cf = true ->
  sc_dur cf = Some d -> 0 <= d -> 0 < sc_segDurMS cf ->
  sc_chunked cf = false -> tabs_ok cf -> avail_total cf ->
  forallb (fun i => nth i initres true) (seq 0 (length (sc_reps cf))) = true ->
  let k := d * 1000 / sc_segDurMS cf in
  let first := firstNr cf now in
  0 <= first ->
  Forall is_fire evs -> k < lenZ evs ->
  session cf now initres evs = (inits, gs, st) ->
  inits = repIdxs cf /\ lenZ gs = k + 1 /\ numbered_last cf (first + k) first gs /\ ph st = PStopped.
Proof. exact duration_session_any. Qed.
Print Assumptions C16_duration_realtime.

(** A sender that is behind (upload of number 5 ends after 6, 7, ... became available): 6 is marked
    last and nothing follows. *)
Theorem C16_catchup_example :
  let cf := mk_scfg [ {| ir_kind := RVideo; ir_tab := Some rep2s |} ] rep2s 8000 2000 cfg0 false false (Some 2) false in
  (let '(_, gs, st) := session cf 11200 [] [EvTimer {| fi_clock := [14300; 14301]; fi_refuse := [] |}] in
   map (map (fun m => (mp_nr m, mp_last m))) gs = [[(5, false)]; [(6, true)]] /\ ph st = PStopped)
  /\
  (let '(_, gs, st) := session cf 11200 [] [EvTimer {| fi_clock := [14300; 16400; 18500; 18501]; fi_refuse := [] |}] in
   map (map (fun m => (mp_nr m, mp_last m))) gs = [[(5, false)]; [(6, true)]] /\ ph st = PStopped).
Proof. exact catchup_fixed_witness. Qed.

(** What fix 07f3435 repaired (statement about the former shape of the catch-up loop,
    [sc_catchup_checks = false], which the model keeps so that a revert is recognised): the last
    segment went out without lmsg, and a sender that stayed behind went on beyond the duration. *)
Theorem C16_duration_catchup_refuted_before_fix :
  let cf := mk_scfg_rc RCeil false [ {| ir_kind := RVideo; ir_tab := Some rep2s |} ] rep2s 8000 2000 cfg0 false false (Some 2) false in
  (let '(_, gs, st) := session cf 11200 [] [EvTimer {| fi_clock := [14300; 14301]; fi_refuse := [] |}] in
   map (map (fun m => (mp_nr m, mp_last m))) gs = [[(5, false)]; [(6, false)]] /\ ph st = PStopped /\ lastToSend st = 6)
  /\
  (let '(_, gs, st) := session cf 11200 [] [EvTimer {| fi_clock := [14300; 16400; 18500; 18501]; fi_refuse := [] |}] in
   map (map (fun m => (mp_nr m, mp_last m))) gs = [[(5, false)]; [(6, false)]; [(7, false)]; [(8, false)]] /\ lastToSend st = 6).
Proof. exact catchup_witness. Qed.

(** Completeness: if the availability function never answers before the segment is available (and
    at most 1 s late), every attempt of every group is accepted by the segment server model, i.e.
    every step delivers to every representation — under $Number$ addressing (first theorem) and
    under $Time$ addressing (second theorem: the URL time is lastTime() of the timeline generated at
    nowMS+50 over a 100 ms window, shown to be the start of the session's next number when segments
    are longer than 1.05 s).  [_partial]: the hypothesis [avail_on_time] about the code's float64
    arithmetic is not discharged in general (no float error analysis); it is proved for the exact
    ceiling ([C16_exact_avail_on_time]), checked exhaustively on the bundled grids up to a bound
    ([C16_ceil_on_time_bounded]) and sampled by the correspondence on every run. *)
Theorem C16_complete_partial : forall cf atoMS,
  sc_test cf = true -> sc_timeline cf = false ->
  aligned cf -> avail_on_time cf -> startNr (sc_cfg cf) = 0 -> 0 <= tsbdS (sc_cfg cf) ->
  ato (sc_cfg cf) = Some atoMS ->
  forall evs st gs st',
    consistent cf st -> 0 <= nextNr st -> nextNr st + lenZ evs < two32 ->
    run cf st evs = (gs, st') -> all_ok gs.
Proof. exact complete_number. Qed.
Print Assumptions C16_complete_partial.

Theorem C16_complete_time_partial : forall cf atoMS,
  ato (sc_cfg cf) = Some atoMS -> atoMSint (sc_cfg cf) - atoMS = 0 -> 0 <= atoMS ->
  sc_test cf = true -> sc_timeline cf = true ->
  aligned cf -> long_segments cf -> avail_on_time cf -> avail_after_start cf -> 0 <= tsbdS (sc_cfg cf) ->
  forall evs st gs st',
    consistent cf st -> 0 <= nextNr st -> nextNr st + lenZ evs < two32 ->
    run cf st evs = (gs, st') -> all_ok gs.
Proof. exact complete_time. Qed.
Print Assumptions C16_complete_time_partial.

(** The hypothesis [avail_on_time] holds for the exact ceiling of the availability instant
    (what math.Ceil computes when the float64 error does not reach the next integer). *)
Theorem C16_exact_avail_on_time : forall reps r loopMS segDur c timeline test dur chunked cc ff atoMS,
  wf r loopMS -> startNr c = 0 -> ato c = Some atoMS -> 0 <= atoMS ->
  avail_on_time {| sc_reps := reps; sc_ref := r; sc_loopMS := loopMS; sc_segDurMS := segDur; sc_cfg := c;
                   sc_timeline := timeline; sc_test := test; sc_dur := dur; sc_chunked := chunked;
                   sc_catchup_checks := cc; sc_first_fix := ff; sc_avail := availMS_exact r loopMS c |}.
Proof. exact exact_on_time. Qed.
Print Assumptions C16_exact_avail_on_time.

(** The code's float64 computation [int64(math.Ceil((E/ts - ato)*1000))] is on time (not before
    the segment is available, less than 1 ms after) — bounded statement, the bound is part of it:
    on the segment grids of the bundled assets' reference representations, for streams started at
    the epoch or in September 2025, availability time offsets 0, 1 and 1.5 s, for the first 2500
    segments.  The unbounded statement needs the float64 error analysis (a Flocq bridge) and is
    the hypothesis [avail_on_time] of [C16_complete_partial]; the correspondence samples it on
    every run (oracle keys starting with "avail:"). *)
Theorem C16_ceil_on_time_bounded : forall dur tsc startS atoMS n,
  In (dur, tsc) bundled_grids -> In startS [0; 1758000000] -> In atoMS [0; 1000; 1500] ->
  0 <= n < 2500 ->
  on_time_b RCeil ((n + 1) * dur + startS * tsc) tsc atoMS = true.
Proof. exact ceil_on_time_bounded. Qed.
Print Assumptions C16_ceil_on_time_bounded.

(** The 2.002 s segment that the former truncation asked for at 2001 ms is now asked for at 2002 ms
    and served. *)
Theorem C16_truncation_fixed :
  availMS_float rep2002 2002 cfg0 0 = Ok 2002 /\
  exists m, lookup rep2002 2002 cfg0 ByNumber 0 2002 = TOk m.
Proof. exact avail_ceil_witness. Qed.

(** What fix f4e8dbe repaired (statement about the former rounding [RTrunc], which the model keeps
    so that a revert is recognised): 2001 ms, where the segment server answers "too early" (1 ms),
    and the session on the 29.97 fps table lost number 7. *)
Theorem C16_truncation_refuted_before_fix :
  availMS_float_r RTrunc rep2002 2002 cfg0 0 = Ok 2001 /\
  availMS_exact rep2002 2002 cfg0 0 = Ok 2002 /\
  lookup rep2002 2002 cfg0 ByNumber 0 2001 = TTooEarly 1.
Proof. exact avail_truncation_witness. Qed.

Theorem C16_gap_refuted_before_fix :
  let cf := mk_scfg_r RTrunc [ {| ir_kind := RVideo; ir_tab := Some rep2997 |} ] rep2997 8008 2002 cfg0 false true None false in
  let '(_, gs, st) := session cf 10000 [] [trig; trig; trig; trig; trig] in
  map (map (fun m => (mp_nr m, mp_now m, mp_ok m))) gs =
    [[(4, 10010, true)]; [(5, 12012, true)]; [(6, 14014, true)]; [(7, 16015, false)]; [(8, 18018, true)]]
  /\ ph st = PRunning.
Proof. exact gap_witness_before_fix. Qed.

(** The same session with the current code (segment table of the bundled 29.97 fps asset,
    testNowMS 10000, five triggers): all of 4..8 are delivered. *)
Theorem C16_gap_closed :
  let '(_, gs, st) := session (cf2997 false cfg0) 10000 [] [trig; trig; trig; trig; trig] in
  map (map (fun m => (mp_nr m, mp_now m, mp_ok m))) gs =
    [[(4, 10010, true)]; [(5, 12012, true)]; [(6, 14014, true)]; [(7, 16016, true)]; [(8, 18018, true)]]
  /\ ph st = PRunning.
Proof. exact gap_closed. Qed.

(** With chunked transfer a request that writeSegment rejects ends the process (the model's
    [afterSend]); before fix fec92f5 a session created before the first segment is complete asked
    for number -1 and hit it.  The hand-over defect itself is not repaired. *)
Theorem C16_chunked_crash_refuted_before_fix :
  let c := {| startS := 0; startNr := 0; tsbdS := 60; ato := Some 1000 |} in
  let cf := mk_scfg_rcf RCeil true false [ {| ir_kind := RVideo; ir_tab := Some rep2s |} ] rep2s 8000 2000 c false true None true in
  let '(_, gs, st) := session cf 500 [] [trig; trig] in
  map (map (fun m => (mp_nr m, mp_ok m))) gs = [[(-1, false)]] /\
  ph st = PCrashed "startReadAndSendChunked: send on closed channel".
Proof. exact chunked_crash_witness. Qed.

(** Before fix fec92f5 a start number was ignored when the first number was chosen (live edge 7,
    first number 5). *)
Theorem C16_startnr_refuted_before_fix :
  let c := {| startS := 0; startNr := 3; tsbdS := 60; ato := Some 0 |} in
  let cf := mk_scfg_rcf RCeil true false [ {| ir_kind := RVideo; ir_tab := Some rep2s |} ] rep2s 8000 2000 c false true None false in
  (let '(_, gs, _) := session cf 10000 [] [trig] in map (map (fun m => (mp_nr m, mp_now m, mp_ok m))) gs = [[(5, 6000, true)]]) /\
  lookup rep2s 8000 c ByNumber 7 10000 = TOk {| origTime := 0; newTime := 720000; origNr := 1; newNr := 7; origDur := 180000; newDur := 180000; mtimescale := 90000 |} /\
  lookup rep2s 8000 c ByNumber 8 10000 = TTooEarly 2000.
Proof. exact startnr_witness. Qed.

(** ** Hand-over between Write and Read (chunked transfer): for every buffer capacity, every split
    of the data into Write calls, every sequence of read-buffer sizes and every interleaving. *)
Theorem C16_handover : forall C psize writes sched,
  0 < C -> (forall k, 0 < psize k) ->
  let s := hrun psize sched (hinit C writes) in
  hfail s = None /\
  (exists rest, r_out s ++ rest = concat writes) /\
  (In (-1) (r_rets s) -> r_out s = concat writes /\ exists l, r_rets s = l ++ [-1] /\ Forall (fun x => 0 <= x) l) /\
  (hterminal s = false -> exists who s', hstep psize who s = Some s') /\
  (hterminal s = true -> r_out s = concat writes) /\
  moves psize sched (hinit C writes) <= 20 * lenZ (concat writes) + 20 * lenZ writes + 16.
Proof. exact handover_correct. Qed.
Print Assumptions C16_handover.

Theorem C16_handover_terminates : forall C psize writes fuel,
  0 < C -> (forall k, 0 < psize k) ->
  20 * lenZ (concat writes) + 20 * lenZ writes + 16 <= Z.of_nat fuel ->
  hterminal (hrun_greedy psize fuel (hinit C writes)) = true.
Proof. exact handover_terminates. Qed.
Print Assumptions C16_handover_terminates.

(** Non-vacuity: a session with two representations, duration 5 s on 2 s segments, four triggers;
    a hand-over of three writes (one empty) through a 4-byte buffer read 3 bytes at a time. *)
Example C16_example :
  (let cf := mk_scfg [ {| ir_kind := RVideo; ir_tab := Some rep2s |}; {| ir_kind := RAudio; ir_tab := None |} ]
                     rep2s 8000 2000 cfg0 false true (Some 5) false in
   let '(inits, gs, st) := session cf 10000 [] [trig; trig; trig; trig] in
   inits = [0; 1] /\
   map (map (fun m => (mp_rep m, mp_nr m, mp_now m, mp_last m, mp_ok m))) gs =
     [[(0, 5, 12000, false, true); (1, 5, 12000, false, true)];
      [(0, 6, 14000, false, true); (1, 6, 14000, false, true)];
      [(0, 7, 16000, true, true); (1, 7, 16000, true, true)]] /\ ph st = PStopped)
  /\
  (let s := hrun_greedy (fun _ => 3) 400 (hinit 4 [[1;2;3;4;5;6]; []; [7]]) in
   r_out s = [1;2;3;4;5;6;7] /\ r_rets s = [3; 1; 2; 0; 1; -1] /\ hterminal s = true /\ hfail s = None).
Proof. split; [exact duration_example|vm_compute; repeat split; reflexivity]. Qed.
