(** C16 — the CMAF-ingest sender emits a complete, ordered and faithful stream.
    Only statements; every proof is [exact <lemma>] (lemmas in theories/IngestProofs.v). *)
From Verif Require Import GoSem Timeline Ingest IngestProofs.

(** The float64 arithmetic of calcSegmentAvailabilityTime asks for a 2.002 s segment 1 ms before
    the segment server accepts the request. *)
Theorem C16_truncation_refuted :
  availMS_float rep2002 2002 cfg0 0 = Ok 2001 /\
  availMS_exact rep2002 2002 cfg0 0 = Ok 2002 /\
  lookup rep2002 2002 cfg0 ByNumber 0 2001 = TTooEarly 1.
Proof. exact avail_truncation_witness. Qed.
Print Assumptions C16_truncation_refuted.
