(** C17 — ingest receiver: stored media and timeline MPD agree for any arrival order.
    Only statements; every proof is [exact <lemma>] (lemmas in theories/RecvProofs.v,
    model in theories/Recv.v, invariants and preconditions in theories/RecvSpec.v). *)
From Verif Require Import GoSem Recv RecvSpec RecvProofs.

(** ** One preservation lemma per operation (representation invariant, no panic) *)

(** C17_counters_refine: seqCounters.add never panics, keeps the invariant and changes the live
    counters exactly as the list-level specification [spec_add] says (count up, append as new
    maximum and trim the window, insert at its place, ignore what is older than the window or
    than everything stored). No precondition: the jump past a full window was repaired in
    ffc392a, the insertion between two stored numbers in ddde9b0. *)
Theorem C17_counters_refine : forall s n,
  sc_inv s ->
  exists s', sc_add s n = Ok s' /\ sc_inv s' /\ sc_live s' = spec_add (sc_w s) (sc_live s) n /\ sc_w s' = sc_w s.
Proof. exact sc_add_spec. Qed.
Print Assumptions C17_counters_refine.

Theorem C17_counters_drop_inv : forall s n,
  sc_inv s -> exists s', sc_drop s n = Ok s' /\ sc_inv s' /\ sc_w s' = sc_w s /\ sc_n s' <= sc_n s.
Proof. exact sc_drop_inv. Qed.
Print Assumptions C17_counters_drop_inv.

(** resize (any window in (0, 2^32)) never panics and keeps the invariant; a window below the number
    of live counters keeps the newest ones (502773f; before: C17_shrink_counters_refuted) *)
Theorem C17_counters_resize_inv : forall s nw,
  sc_inv s -> 0 < nw < two32 ->
  exists s', sc_resize s nw = Ok s' /\ sc_inv s' /\ sc_w s' = nw
             /\ sc_live s' = dropZ (sc_n s - nw) (sc_live s) /\ sc_n s' = Z.min (sc_n s) nw.
Proof. exact sc_resize_inv. Qed.
Print Assumptions C17_counters_resize_inv.

Theorem C17_counters_reads_safe : forall s k m,
  sc_inv s -> (exists r, sc_newFullCounter s k m = Ok r) /\ (exists r, sc_fullRange s k = Ok r).
Proof. intros s k m I. split; [exact (sc_newFull_ok s k m I)|exact (sc_fullRange_ok s k I)]. Qed.
Print Assumptions C17_counters_reads_safe.

(** segDataBuffer.add never panics under the invariant and refines the list-level [spec_badd]:
    rejected if not increasing, appended if there is room, otherwise the items that fall out of
    the window of the new number are discarded. *)
Theorem C17_buffer_add_refines : forall b it,
  sdb_inv b -> item_ok it ->
  exists b' ok, sdb_add b it = Ok (b', ok) /\ sdb_inv b' /\ (sdb_live b', ok) = spec_badd (b_size b) (sdb_live b) it
                /\ b_size b' = b_size b.
Proof. exact sdb_add_spec. Qed.
Print Assumptions C17_buffer_add_refines.

(** resize (any size in (0, 2^32)) never panics and keeps the invariant; fewer slots than items keeps
    the newest items and sets c.size (9e29b04; before: C17_shrink_refuted) *)
Theorem C17_buffer_resize_inv : forall b nw,
  sdb_inv b -> 0 < nw < two32 ->
  exists b', sdb_resize b nw = Ok b' /\ sdb_inv b' /\ b_size b' = nw
             /\ sdb_live b' = dropZ (b_n b - nw) (sdb_live b) /\ b_n b' = Z.min (b_n b) nw.
Proof. exact sdb_resize_inv. Qed.
Print Assumptions C17_buffer_resize_inv.

Theorem C17_buffer_drop_inv : forall b n,
  sdb_inv b -> exists b', sdb_dropSeqNr b n = Ok b' /\ sdb_inv b' /\ b_size b' = b_size b /\ b_n b' <= b_n b.
Proof. exact sdb_dropSeqNr_inv. Qed.
Print Assumptions C17_buffer_drop_inv.

Theorem C17_buffer_unshift_inv : forall b,
  sdb_inv b -> exists b' uns, sdb_removeUnshifted b = Ok (b', uns) /\ sdb_inv b' /\ b_size b' = b_size b /\ b_n b' <= b_n b.
Proof. exact sdb_removeUnshifted_inv. Qed.
Print Assumptions C17_buffer_unshift_inv.

(** getItem only returns stored items with the requested number *)
Theorem C17_buffer_get : forall b n,
  sdb_inv b -> exists r, sdb_getItem b n = Ok r /\
                         match r with Some it => In it (sdb_live b) /\ i_seq it = n | None => True end.
Proof. exact sdb_getItem_ok. Qed.
Print Assumptions C17_buffer_get.

(** segmentTimelineGenerator.start with any window in (0, 2^32) ([gen_resize_pre]) *)
Theorem C17_gen_start_inv : forall g nw sh,
  gen_inv g -> gen_resize_pre g nw = true ->
  exists g', gen_start g nw sh = Ok g' /\ gen_inv g' /\ g_latest g' = g_latest g /\ g_w g' = nw
             /\ g_started g' = true /\ g_shifted g' = sh.
Proof. exact gen_start_inv. Qed.
Print Assumptions C17_gen_start_inv.

(** channel.receivedSegData for one complete segment: under [chan_pre] no panic, the invariant is
    kept, and an MPD is published only above latestSeqNr. The hypotheses that really remain in
    [chan_pre] after the repairs 9e29b04, ffc392a, 502773f, 9aa9fdc, ff19d12, ddde9b0: the number is
    a uint32 ([item_okb]); when the upload completes the measurement of the master track, the window
    timeShiftBufferDepthS*timescale/duration+1 is in (0, 2^32) (see C17_safe_window_refuted). *)
Theorem C17_received_safe : forall c u,
  chan_inv c -> chan_pre c u = true ->
  exists o, chan_received c (up_name u) (up_item u) = Ok o /\ chan_inv (o_chan o)
    /\ match o_pub o with
       | Some pub => g_latest (ch_gen c) < p_last pub /\ g_latest (ch_gen (o_chan o)) = p_last pub
       | None => g_latest (ch_gen (o_chan o)) = g_latest (ch_gen c)
       end.
Proof. exact chan_received_safe. Qed.
Print Assumptions C17_received_safe.

(** ** Every upload sequence (induction over fold_left) *)
Theorem C17_safe_inv : forall ups c,
  chan_inv c -> run_pre c ups -> exists c', chan_run c ups = Ok c' /\ chan_inv c'.
Proof. exact chan_run_safe. Qed.
Print Assumptions C17_safe_inv.

(** a new channel with any registered tracks satisfies the invariant *)
Theorem C17_init_inv : forall asets tsbd tracks, chan_inv (chan_with asets tsbd tracks).
Proof. exact chan_with_inv. Qed.
Print Assumptions C17_init_inv.

(** latestSeqNr never decreases; the newest numbers of the MPDs written during a run are strictly
    increasing, each above latestSeqNr at the time, and latestSeqNr ends at the last of them. *)
Theorem C17_latest_monotone : forall ups c,
  chan_inv c -> run_pre c ups ->
  exists pubs c', chan_trace c ups = Ok (pubs, c') /\ chan_inv c'
    /\ incr (g_latest (ch_gen c) :: pub_lasts pubs) = true
    /\ g_latest (ch_gen c') = last (g_latest (ch_gen c) :: pub_lasts pubs) 0.
Proof. exact chan_trace_monotone. Qed.
Print Assumptions C17_latest_monotone.

(** C17_sound_mpd, the part that is proved (named _partial): whenever generateSegmentTimelineNrMPD writes
    an MPD for [first,last], (1) every number of the range has a live counter whose count is at least
    _nrTracks, and (2) for every adaptation set, its first representation has a stored item for every
    number of the range (in order, [items_at]) and the S elements list exactly those items: the expansion of
    the timeline is the list of the items' own (start time, duration) - since 4e0d5ea also where a segment does
    not start at the end of the previous one (the S element then carries @t). [item_timed] is what the
    receiver's types give: start times in uint64, durations in uint32, and a segment's end still in uint64.
    STILL PARTIAL (missing for the full statement: every track, not only the first representation of each
    adaptation set, has the listed items with these times): the invariant that a counter's count is at most
    the number of track buffers that hold the number (window reasoning between seqCounters and the per-track
    buffers). It is false on this tree when a track delivers its first segment after the start
    (C17_late_track_refuted); for runs without a late track it is checked by the oracle on every run.
    Also outside the model: that the buffer entry describes the stored FILE (false for a number that is
    uploaded again with another duration: finding c17-reupload-entry-keeps-first-timing, L1 oracle). *)
Theorem C17_sound_mpd_partial : forall g nl asets g' pub,
  gen_inv g -> gen_generate g nl asets = Ok (g', Some pub) ->
  (forall n, p_first pub <= n <= p_last pub -> exists c, In (n, c) (sc_live (g_cnt g)) /\ g_ntracks g <= c) /\
  Forall2 (fun reps tl => exists rep b items,
             hd_error reps = Some rep /\ lookup rep (g_bufs g) = Some b /\
             lenZ items = Z.of_nat (Z.to_nat (p_last pub - p_first pub + 1)) /\
             items_at b (p_first pub) items /\
             (Forall item_timed items -> expand tl 0 = map (fun it => (i_dts it, i_dur it)) items))
          asets (p_tl pub).
Proof. exact gen_generate_sound. Qed.
Print Assumptions C17_sound_mpd_partial.

(** window bounds are part of the invariant: 0 <= _nrCounters <= windowSize = len(counters),
    0 <= _nrItems <= size = len(items) = the generator's window, for every track *)
Theorem C17_window : forall c,
  chan_inv c ->
  let g := ch_gen c in
  0 <= sc_n (g_cnt g) <= sc_w (g_cnt g) /\ sc_w (g_cnt g) = g_w g /\ slen (sc_sl (g_cnt g)) = g_w g /\
  Forall (fun kb => 0 <= b_n (snd kb) <= b_size (snd kb) /\ b_size (snd kb) = g_w g /\ slen (b_sl (snd kb)) = g_w g) (g_bufs g).
Proof. exact chan_window. Qed.
Print Assumptions C17_window.

(** ** Refutations that remain *)

(** what is left of "C17_safe is false" at model level: a start window that wraps to 0 in uint32
    (timeShiftBufferDepth 65537 s, timescale 65535, one-tick segments); not reachable with the even
    timescales of real tracks, so there is no replay for it *)
Theorem C17_safe_window_refuted :
  exists c ups, chan_inv c /\ chan_run c ups = Panic "segDataBuffer.add:index".
Proof. exact safe_window_refuted. Qed.
Print Assumptions C17_safe_window_refuted.

(** a track that delivers its first segment after the start is never required: all preconditions
    hold, the MPD lists 1..2, the third registered track has no segment at all *)
Theorem C17_late_track_refuted :
  exists c ups pubs c',
    chan_inv c /\ run_pre c ups /\ chan_trace c ups = Ok (pubs, c') /\
    last pubs None = Some (mkPub 1 2 [[(180000, 180000, 1)]; [(180000, 180000, 1)]]) /\
    find_track 2 (ch_tracks c') <> None /\ lookup 2 (g_bufs (ch_gen c')) = None.
Proof. exact late_track_refuted. Qed.
Print Assumptions C17_late_track_refuted.

(** ** Formerly refuted, now proved of the repaired code (the witnesses of the old refutations) *)

(** C17_time_discontinuity_refuted (4e0d5ea). Before the repair the timeline carried the start time of the first
    listed segment only: a stored segment that does not start where the previous number of its track ends
    (number 3 is 60 ticks long instead of 100, number 4 starts on the grid at 400) was listed with the running sum
    (360). The statement about the parent commit is about the loop of modifySegmentTemplate as it was
    ([timeline_loop_before_fix]); the same segments through the channel as it is now are listed with their own
    times (general statement: C17_sound_mpd_partial). *)
Theorem C17_time_discontinuity_refuted_before_fix :
  exists b tl it,
    sdb_adds (sdb_new 8) [mkItem 1 100 100 false; mkItem 2 200 100 false; mkItem 3 300 60 false; mkItem 4 400 100 false] = Ok b /\
    timeline_loop_before_fix b 1 4 None [] = Ok (Some tl) /\
    sdb_getItem b 4 = Ok (Some it) /\ i_dts it = 400 /\
    nth 3 (expand tl 0) (0, 0) = (360, 100).
Proof. exact time_discontinuity_refuted_before_fix. Qed.
Print Assumptions C17_time_discontinuity_refuted_before_fix.

Theorem C17_time_discontinuity_repaired :
  exists c ups pubs c' pub b it,
    chan_inv c /\ run_pre c ups /\ chan_trace c ups = Ok (pubs, c') /\
    last pubs None = Some pub /\ p_first pub = 1 /\ p_last pub = 4 /\
    p_tl pub = [[(100, 100, 1); (-1, 60, 0); (400, 100, 0)]] /\
    lookup 0 (g_bufs (ch_gen c')) = Some b /\ sdb_getItem b 4 = Ok (Some it) /\ i_dts it = 400 /\
    nth 3 (expand (hd [] (p_tl pub)) 0) (0, 0) = (400, 100).
Proof. exact time_discontinuity_repaired. Qed.
Print Assumptions C17_time_discontinuity_repaired.

(** C17_counters_refine_refuted / C17_insert_breaks_inv_refuted: 6 into [5,7] and into [5,7,9] (ddde9b0) *)
Theorem C17_counters_insert_repaired :
  exists s s' t t', sc_adds (sc_new 4) [5; 7] = Ok s /\ sc_add s 6 = Ok s' /\ sc_live s' = [(5, 1); (6, 1); (7, 1)] /\
                    sc_adds (sc_new 8) [5; 7; 9] = Ok t /\ sc_add t 6 = Ok t' /\ sc_live t' = [(5, 1); (6, 1); (7, 1); (9, 1)].
Proof. exact counters_insert_repaired. Qed.
Print Assumptions C17_counters_insert_repaired.

(** C17_safe_refuted (zero duration): two master segments of duration 0 no longer divide by zero (ff19d12) *)
Theorem C17_zero_duration_repaired :
  let c := chan_with [[0]] 30 [mkTrack 0 true true 90000] in
  let ups := [mkUp 0 (mkItem 1 0 0 false); mkUp 0 (mkItem 2 0 0 false); mkUp 0 (mkItem 3 0 0 false)] in
  run_pre c ups /\ exists c', chan_run c ups = Ok c' /\ negb (g_started (ch_gen c')) = true.
Proof. exact zero_duration_repaired. Qed.
Print Assumptions C17_zero_duration_repaired.

(** C17_jump: full window [1,2,3,4], then 100 (ffc392a) *)
Theorem C17_jump_repaired :
  exists s s', sc_adds (sc_new 4) [1; 2; 3; 4] = Ok s /\ sc_inv s /\ sc_add s 100 = Ok s' /\ sc_live s' = [(100, 1)].
Proof. exact jump_repaired. Qed.
Print Assumptions C17_jump_repaired.

Theorem C17_jump_run_repaired :
  let c := chan_with [[0]] 4 [mkTrack 0 true true 90000] in
  let ups := [up 0 1; up 0 2; up 0 3; up 0 100; up 0 101] in
  run_pre c ups /\
  exists c', chan_run c ups = Ok c' /\ list_eqb Z.eqb (map fst (sc_live (g_cnt (ch_gen c')))) [100; 101] = true.
Proof. exact jump_run_repaired. Qed.
Print Assumptions C17_jump_run_repaired.

(** C17_shrink: segDataBuffer.resize 8 -> 3 with 5 items, then add 6 (9e29b04) *)
Theorem C17_shrink_repaired :
  exists b b' b'', sdb_inv b /\ sdb_resize b 3 = Ok b' /\ b_size b' = 3 /\ map i_seq (sdb_live b') = [3; 4; 5] /\
               sdb_add b' (mkItem 6 12000 2000 false) = Ok (b'', true) /\ map i_seq (sdb_live b'') = [4; 5; 6].
Proof. exact shrink_repaired. Qed.
Print Assumptions C17_shrink_repaired.

Theorem C17_shrink_counters_repaired :
  exists s s', sc_inv s /\ sc_resize s 3 = Ok s' /\ sc_inv s' /\ sc_live s' = [(3, 1); (4, 1); (5, 1)].
Proof. exact shrink_counters_repaired. Qed.
Print Assumptions C17_shrink_counters_repaired.

(** start while another video track has no segment yet / a track's buffer is empty (9aa9fdc) *)
Theorem C17_start_without_segments_repaired :
  let c := chan_with [[0; 1]] 30 [mkTrack 0 true true 90000; mkTrack 1 true true 90000] in
  run_pre c [up 0 1; up 0 2] /\
  exists c', chan_run c [up 0 1; up 0 2] = Ok c' /\ g_started (ch_gen c') && (g_ntracks (ch_gen c') =? 1) = true.
Proof. exact start_without_segments_repaired. Qed.
Print Assumptions C17_start_without_segments_repaired.

Theorem C17_start_empty_buffer_repaired :
  let c := chan_with [[0]; [2]] 30 [mkTrack 0 true true 90000; mkTrack 2 false false 1000] in
  let ups := [mkUp 2 (mkItem 1 2000 2000 false); up 0 1; up 0 3; up 0 4] in
  run_pre c ups /\ exists c', chan_run c ups = Ok c' /\ g_started (ch_gen c') = true.
Proof. exact start_empty_buffer_repaired. Qed.
Print Assumptions C17_start_empty_buffer_repaired.

(** ** Non-vacuity: a run of two tracks with a gap and a duplicate satisfies every precondition and
    publishes MPDs whose newest numbers are 2, 3, 5, 6 *)
Example C17_example :
  let c := chan_with [[0]; [1]] 30 [mkTrack 0 true true 90000; mkTrack 1 false true 90000] in
  let ups := [up 0 1; up 1 1; up 1 2; up 0 2; up 0 3; up 1 3; up 1 3; up 0 5; up 1 5; up 0 6; up 1 6] in
  run_pre c ups /\
  exists pubs c', chan_trace c ups = Ok (pubs, c') /\ pub_lasts pubs = [2; 3; 5; 6].
Proof. exact run_pre_example. Qed.
