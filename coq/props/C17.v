(** C17 — ingest receiver: stored media and timeline MPD agree for any arrival order.
    Only statements; every proof is [exact <lemma>] (lemmas in theories/RecvProofs.v,
    model in theories/Recv.v, invariants and preconditions in theories/RecvSpec.v). *)
From Verif Require Import GoSem Recv RecvSpec RecvProofs.

(** seqCounters.add: outside the two defect situations (a jump of a full window, a number
    between two stored numbers) it never panics, keeps the representation invariant and changes
    the live counters exactly as the list-level specification says. *)
Theorem C17_counters_add_refines : forall s n,
  sc_inv s -> sc_add_pre s n = true ->
  exists s', sc_add s n = Ok s' /\ sc_inv s' /\ sc_live s' = spec_add (sc_w s) (sc_live s) n /\ sc_w s' = sc_w s.
Proof. exact sc_add_spec. Qed.
Print Assumptions C17_counters_add_refines.

(** Full window [1,2,3,4], then number 100: slice bounds panic (in production in the channel
    goroutine, which nothing recovers). *)
Theorem C17_jump_refuted :
  exists s n, sc_adds (sc_new 4) [1; 2; 3; 4] = Ok s /\ sc_inv s /\ sc_jump s n = true /\
              sc_add s n = Panic "seqCounters.add:slice".
Proof. exact jump_refuted. Qed.
Print Assumptions C17_jump_refuted.

(** The counters are not the per-number upload counts: inserting 6 into [5,7] overwrites 5. *)
Theorem C17_counters_refine_refuted :
  exists s n s', sc_adds (sc_new 4) [5; 7] = Ok s /\ sc_inv s /\ sc_between s n = true /\
                 sc_add s n = Ok s' /\ sc_live s = [(5, 1); (7, 1)] /\ sc_live s' = [(6, 1); (7, 1)].
Proof. exact counters_refine_refuted. Qed.
Print Assumptions C17_counters_refine_refuted.

Theorem C17_shrink_counters_refuted :
  exists s s', sc_inv s /\ sc_resize s 3 = Ok s' /\ sc_n s' = 5 /\ slen (sc_sl s') = 3 /\
               sc_add s' 6 = Panic "seqCounters.add:index".
Proof. exact shrink_counters_refuted. Qed.
Print Assumptions C17_shrink_counters_refuted.
