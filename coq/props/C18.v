(** C18 — chunk parser output does not depend on how the bytes arrive.
    Only statements; every proof is [exact <lemma>] (lemmas in theories/ChunkParserProofs.v). *)
From Verif Require Import GoSem ChunkParser ChunkParserProofs.

(** [readUntil] delivers exactly the missing bytes of the stream, whatever the read sizes
    and whether or not EOF comes together with the last bytes. *)
Theorem C18_read_until : forall target buf r,
  hard r = false ->
  exists r1, readUntil target buf r =
             (fst (fst (readUntil_spec target buf (rem r))),
              snd (fst (readUntil_spec target buf (rem r))), r1)
          /\ rem r1 = snd (readUntil_spec target buf (rem r))
          /\ hard r1 = false /\ eofdata r1 = eofdata r.
Proof. exact readUntil_spec_ok. Qed.
Print Assumptions C18_read_until.

(** Callbacks (start, init flag, data) and the returned error are the same for every two
    schedules and both EOF styles, also with a failing callback. *)
Theorem C18_schedule_independent : forall cbfail stream s1 s2 e1 e2,
  parse cbfail (mkreader stream s1 e1 false) = parse cbfail (mkreader stream s2 e2 false).
Proof. exact parse_schedule_independent. Qed.
Print Assumptions C18_schedule_independent.

(** The buffer/offset/uint32 machinery of Parse computes the plain walk over the boxes. *)
Theorem C18_refines_walk : forall cbfail r,
  hard r = false -> lenZ (rem r) < two32 ->
  parse cbfail r = walk (S (S (length (rem r)))) cbfail [] (rem r) 0 false [].
Proof. exact parse_is_walk. Qed.
Print Assumptions C18_refines_walk.

(** Concatenated callback data equals the input, start fields are the running offsets. *)
Theorem C18_concat : forall r cbs,
  hard r = false -> lenZ (rem r) < two32 ->
  parse None r = (cbs, PNil) ->
  cat cbs = rem r /\ starts_ok 0 cbs.
Proof. exact parse_concat. Qed.
Print Assumptions C18_concat.

(** For a sequence of well-formed boxes: one callback ending at the end of each mdat box, in
    order, one more for trailing boxes, init flag from the first moov box on. *)
Theorem C18_mdat : forall bs sch ed,
  Forall wf_box bs -> lenZ (encode_boxes bs) < two32 ->
  parse None (mkreader (encode_boxes bs) sch ed false) = (chunks_spec bs [] 0 false, PNil).
Proof. exact parse_boxes. Qed.
Print Assumptions C18_mdat.

(** Termination: the fuel [length stream + 2] built into [parse] is never exhausted, for any
    stream (truncated, impossible sizes) and any schedule. *)
Theorem C18_terminates : forall cbfail r,
  hard r = false -> lenZ (rem r) < two32 -> snd (parse cbfail r) <> POutOfFuel.
Proof. exact parse_terminates. Qed.
Print Assumptions C18_terminates.

(** Non-vacuity: a moov box, two moof+mdat chunks and a trailing free box, read 3 bytes at a time. *)
Example C18_example :
  let bs := [ {| b_type := moov; b_payload := [1;2] |};
              {| b_type := [109;111;111;102]; b_payload := [] |}; {| b_type := mdat; b_payload := [7;7;7] |};
              {| b_type := mdat; b_payload := [] |};
              {| b_type := [102;114;101;101]; b_payload := [9] |} ] in
  Forall wf_box bs /\
  map (fun c => (cb_start c, cb_init c, lenZ (cb_data c)))
      (fst (parse None (mkreader (encode_boxes bs) [3;3;3;3;3;3;3;3;3;3;3;3;3;3;3;3;3;3;3;3] true false)))
  = [(0, true, 29); (29, true, 8); (37, true, 9)].
Proof. split; [repeat constructor|vm_compute; reflexivity]. Qed.
