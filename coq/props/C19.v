(** C19 — the ingest receiver tolerates concurrent uploads.
    Only statements; proofs are [exact <lemma>] (theories/RecvConc.v, Conc.v) or [vm_compute] over the
    access tables that accessgen regenerates from the Go sources (gen/Access.v). *)
From Verif Require Import GoSem Conc RecvConc.
From VerifGen Require Import Access.

(** (i) ChannelMgr.AddChannel / GetChannel / GetOrAddChannel each run inside one critical section of ChannelMgr.mu:
    every schedule of any number of goroutines equals a sequential order of the calls. *)
Theorem C19_channelmgr_atomic : forall (progs : list (list mop)) s0 sched,
  let c := exec mgr mop mret mret m_loc0 m_body m_result (init mgr mop mret mret progs s0) sched in
  finished mgr mop mret mret c ->
  exists h, interleaving mop progs h /\
            obj _ _ _ _ c = fst (seq_run mgr mop mret mret m_loc0 m_body m_result s0 h) /\
            forall t th, nth_error (threads _ _ _ _ c) t = Some th ->
                         rets _ _ _ _ th = proj t (snd (seq_run mgr mop mret mret m_loc0 m_body m_result s0 h)).
Proof. exact mgr_atomic. Qed.
Print Assumptions C19_channelmgr_atomic.

Theorem C19_channelmgr_faithful : forall o s,
  apply mgr mop mret mret m_loc0 m_body m_result o s = m_apply o s.
Proof. exact m_apply_ok. Qed.
Print Assumptions C19_channelmgr_faithful.

(** the premise of (i), on the regenerated table: no unprotected conflicting pair in ChannelMgr *)
Theorem C19_lockset_mgr : races_known Access.ChannelMgr [] = true.
Proof. vm_compute. reflexivity. Qed.
Print Assumptions C19_lockset_mgr.

Theorem C19_mgr_race_free :
  forall tr, valid multi_all Access.ChannelMgr tr ->
  forall pre mid post t1 a1 t2 a2,
    tr = pre ++ EAcc t1 a1 :: mid ++ EAcc t2 a2 :: post ->
    t1 <> t2 -> a_field a1 = a_field a2 -> a_write a1 || a_write a2 = true ->
    hb tr (length pre) (length pre + 1 + length mid).
Proof. exact (races_known_nil_race_free Access.ChannelMgr C19_lockset_mgr). Qed.
Print Assumptions C19_mgr_race_free.

(** (ii) C19_sequential_equiv — about the handler as it is since dab6065 (ch := GetOrAddChannel(...),
    one atomic step of the table by (i)): for every set of uploads and every schedule at most one channel
    object per name is created, and once all handlers are done every track is registered in the object
    the table holds for its channel — as in a sequential order. The per-channel work behind it is
    serialised by recSegCh (one goroutine), where C17's theorems over all upload sequences apply. *)
Theorem C19_sequential_equiv : forall reqs sched,
  let w := hexec true (hinit reqs) sched in
  (forall name, (length (objects_of name w) <= 1)%nat) /\
  (all_done w -> forall th, In th (w_threads w) -> In (h_track th) (visible_tracks (h_name th) w)).
Proof. exact atomic_handler_all_registered. Qed.
Print Assumptions C19_sequential_equiv.

(** Statement about the handler shape BEFORE dab6065 (Get; if !ok {Add}; Get — no longer the code; the
    harness reproduces it only on a tree where dab6065 is reverted): there is a schedule of two first
    uploads (channel 7, tracks 10 and 11) after which two channel objects exist for the name and the
    track registered in the replaced object is not visible in the channel. *)
Theorem C19_old_handler_two_channels :
  exists sched,
    let w := hexec false (hinit [(7, 10); (7, 11)]) sched in
    all_doneb w = true /\ objects_of 7 w = [0; 1] /\ visible_tracks 7 w = [11] /\
    map h_pc (w_threads w) = [PDone 0; PDone 1].
Proof. exact two_channels_witness. Qed.
Print Assumptions C19_old_handler_two_channels.

(** non-vacuity of C19_sequential_equiv: the schedule that broke the old handler, on the handler as it is *)
Example C19_same_schedule_now :
  let w := hexec true (hinit [(7, 10); (7, 11)]) [0; 1; 0; 0; 0; 1; 1; 1]%nat in
  all_doneb w = true /\ objects_of 7 w = [0] /\ visible_tracks 7 w = [10; 11].
Proof. vm_compute. repeat split. Qed.

(** (iii) C19_lockset on the regenerated tables. segmentTimelineGenerator is only touched by its
    channel's goroutine: no pair. Receiver and channel: exactly the known unprotected pairs below
    (each is a finding; a new pair makes this fail). *)
Theorem C19_lockset_timelinegen : races_known_h Access.segmentTimelineGenerator [] = true.
Proof. vm_compute. reflexivity. Qed.
Print Assumptions C19_lockset_timelinegen.

Definition C19_known_receiver_races : list kpair :=
  [("streams[]", ("Receiver.SegmentHandlerFunc", "R:handler:[]"), ("Receiver.SegmentHandlerFunc", "W:handler:[]"));
   ("streams[]", ("Receiver.SegmentHandlerFunc", "W:handler:[]"), ("Receiver.SegmentHandlerFunc", "W:handler:[]"))].

Theorem C19_lockset_receiver : races_known Access.Receiver C19_known_receiver_races = true.
Proof. vm_compute. reflexivity. Qed.
Print Assumptions C19_lockset_receiver.

Definition C19_known_channel_races : list kpair :=
  [("masterSegDuration", ("Receiver.SegmentHandlerFunc", "R:handler:[]"), ("channel.receivedSegData", "W:chan:[]"));
   ("masterSeqNrShift", ("Receiver.SegmentHandlerFunc", "R:handler:[]"), ("channel.receivedSegData", "W:chan:[L:mu]"));
   ("masterTimeShift", ("Receiver.SegmentHandlerFunc", "R:handler:[]"), ("channel.receivedSegData", "W:chan:[L:mu]"));
   ("masterTimescale", ("Receiver.SegmentHandlerFunc", "R:handler:[]"), ("channel.receivedSegData", "W:chan:[L:mu]"));
   ("masterTrName", ("channel.addTrData", "W:handler:[L:mu]"), ("channel.receivedSegData", "R:chan:[]"));
   ("maxNrBufSegs", ("Receiver.SegmentHandlerFunc$closure", "R:handler:[]"), ("channel.receivedSegData", "W:chan:[]"));
   ("startTime", ("channel.addInitDataAndUpdateTimescale", "R:handler:[]"), ("channel.addInitDataAndUpdateTimescale", "W:handler:[]"));
   ("startTime", ("channel.addInitDataAndUpdateTimescale", "W:handler:[]"), ("channel.addInitDataAndUpdateTimescale", "W:handler:[]"));
   ("startTime", ("channel.addInitDataAndUpdateTimescale", "W:handler:[]"), ("segmentTimelineGenerator.generateSegmentTimelineNrMPD", "R:chan:[]"));
   ("trDatas[]", ("Receiver.SegmentHandlerFunc", "R:handler:[]"), ("Receiver.SegmentHandlerFunc", "W:handler:[]"));
   ("trDatas[]", ("Receiver.SegmentHandlerFunc", "R:handler:[]"), ("channel.addTrData", "W:handler:[L:mu]"));
   ("trDatas[]", ("Receiver.SegmentHandlerFunc", "W:handler:[]"), ("Receiver.SegmentHandlerFunc", "W:handler:[]"));
   ("trDatas[]", ("Receiver.SegmentHandlerFunc", "W:handler:[]"), ("Receiver.SegmentHandlerFunc$closure", "R:handler:[]"));
   ("trDatas[]", ("Receiver.SegmentHandlerFunc", "W:handler:[]"), ("channel.addTrData", "R:handler:[L:mu]"));
   ("trDatas[]", ("Receiver.SegmentHandlerFunc", "W:handler:[]"), ("channel.addTrData", "W:handler:[L:mu]"));
   ("trDatas[]", ("Receiver.SegmentHandlerFunc", "W:handler:[]"), ("channel.deriveAndSetBitrates", "R:chan:[]"));
   ("trDatas[]", ("Receiver.SegmentHandlerFunc", "W:handler:[]"), ("channel.deriveAndSetFrameRates", "R:chan:[]"));
   ("trDatas[]", ("Receiver.SegmentHandlerFunc", "W:handler:[]"), ("channel.receivedSegData", "R:chan:[]"));
   ("trDatas[]", ("Receiver.SegmentHandlerFunc", "W:handler:[]"), ("channel.receivedSegData", "R:chan:[L:mu]"));
   ("trDatas[]", ("Receiver.SegmentHandlerFunc$closure", "R:handler:[]"), ("channel.addTrData", "W:handler:[L:mu]"));
   ("trDatas[]", ("channel.addTrData", "W:handler:[L:mu]"), ("channel.deriveAndSetBitrates", "R:chan:[]"));
   ("trDatas[]", ("channel.addTrData", "W:handler:[L:mu]"), ("channel.deriveAndSetFrameRates", "R:chan:[]"));
   ("trDatas[]", ("channel.addTrData", "W:handler:[L:mu]"), ("channel.receivedSegData", "R:chan:[]"))].

Theorem C19_lockset_channel : races_known_h Access.channel C19_known_channel_races = true.
Proof. vm_compute. reflexivity. Qed.
Print Assumptions C19_lockset_channel.

(** the known lists are not vacuous: these pairs are in the regenerated tables *)
Example C19_races_present :
  lenZ (race_pairs Access.Receiver) = 2 /\ lenZ (race_pairs_gen multi_handler Access.channel) = 23.
Proof. vm_compute. split; reflexivity. Qed.
