(** C19 — the ingest receiver tolerates concurrent uploads.
    Only statements; proofs are [exact <lemma>] (theories/RecvConc.v, Conc.v) or [vm_compute] over the
    access tables that accessgen regenerates from the Go sources (gen/Access.v). *)
From Verif Require Import GoSem Conc RecvConc.
From VerifGen Require Import Access.

(** (i) ChannelMgr.AddChannel / GetChannel / GetOrAddChannel each run inside one critical section of ChannelMgr.mu:
    every schedule of any number of goroutines equals a sequential order of the calls. *)
Theorem C19_channelmgr_atomic : forall (progs : list (list mop)) s0 sched,
  let c := exec mgr mop mret mret m_loc0 m_body m_result (init mgr mop mret mret progs s0) sched in
  finished mgr mop mret mret c ->
  exists h, interleaving mop progs h /\
            obj _ _ _ _ c = fst (seq_run mgr mop mret mret m_loc0 m_body m_result s0 h) /\
            forall t th, nth_error (threads _ _ _ _ c) t = Some th ->
                         rets _ _ _ _ th = proj t (snd (seq_run mgr mop mret mret m_loc0 m_body m_result s0 h)).
Proof. exact mgr_atomic. Qed.
Print Assumptions C19_channelmgr_atomic.

Theorem C19_channelmgr_faithful : forall o s,
  apply mgr mop mret mret m_loc0 m_body m_result o s = m_apply o s.
Proof. exact m_apply_ok. Qed.
Print Assumptions C19_channelmgr_faithful.

(** the premise of (i), on the regenerated table: no unprotected conflicting pair in ChannelMgr *)
Theorem C19_lockset_mgr : races_known Access.ChannelMgr [] = true.
Proof. vm_compute. reflexivity. Qed.
Print Assumptions C19_lockset_mgr.

Theorem C19_mgr_race_free :
  forall tr, valid multi_all Access.ChannelMgr tr ->
  forall pre mid post t1 a1 t2 a2,
    tr = pre ++ EAcc t1 a1 :: mid ++ EAcc t2 a2 :: post ->
    t1 <> t2 -> a_field a1 = a_field a2 -> a_write a1 || a_write a2 = true ->
    hb tr (length pre) (length pre + 1 + length mid).
Proof. exact (races_known_nil_race_free Access.ChannelMgr C19_lockset_mgr). Qed.
Print Assumptions C19_mgr_race_free.

(** (ii) C19_sequential_equiv — about the handler as it is since dab6065 (ch := GetOrAddChannel(...),
    one atomic step of the table by (i)): for every set of uploads and every schedule at most one channel
    object per name is created, and once all handlers are done every track is registered in the object
    the table holds for its channel — as in a sequential order. The per-channel work behind it is
    serialised by recSegCh (one goroutine), where C17's theorems over all upload sequences apply. *)
Theorem C19_sequential_equiv : forall reqs sched,
  let w := hexec true (hinit reqs) sched in
  (forall name, (length (objects_of name w) <= 1)%nat) /\
  (all_done w -> forall th, In th (w_threads w) -> In (h_track th) (visible_tracks (h_name th) w)).
Proof. exact atomic_handler_all_registered. Qed.
Print Assumptions C19_sequential_equiv.

(** Statement about the handler shape BEFORE dab6065 (Get; if !ok {Add}; Get — no longer the code; the
    harness reproduces it only on a tree where dab6065 is reverted): there is a schedule of two first
    uploads (channel 7, tracks 10 and 11) after which two channel objects exist for the name and the
    track registered in the replaced object is not visible in the channel. *)
Theorem C19_old_handler_two_channels :
  exists sched,
    let w := hexec false (hinit [(7, 10); (7, 11)]) sched in
    all_doneb w = true /\ objects_of 7 w = [0; 1] /\ visible_tracks 7 w = [11] /\
    map h_pc (w_threads w) = [PDone 0; PDone 1].
Proof. exact two_channels_witness. Qed.
Print Assumptions C19_old_handler_two_channels.

(** non-vacuity of C19_sequential_equiv: the schedule that broke the old handler, on the handler as it is *)
Example C19_same_schedule_now :
  let w := hexec true (hinit [(7, 10); (7, 11)]) [0; 1; 0; 0; 0; 1; 1; 1]%nat in
  all_doneb w = true /\ objects_of 7 w = [0] /\ visible_tracks 7 w = [10; 11].
Proof. vm_compute. repeat split. Qed.

(** C19_registration: channel.addTrData (one critical section of ch.mu: scan for a video track, master
    decision, insertion) - for every set of concurrent registrations and every schedule, whenever a
    video track is registered the master track is a registered video track, as in every sequential
    order. The racer checks the same on the real code (final masterTrName / trIDs / trDatas keys
    of concurrent registrations must be what some sequential order gives). *)
Theorem C19_registration_master_video : forall reqs sched, master_ok (rexec true (rinit reqs) sched).
Proof. exact registration_master_video. Qed.
Print Assumptions C19_registration_master_video.

(** why the single critical section matters: with the scan in an earlier critical section than the
    update (not the code) audio scans, video registers, audio updates, and the master is the audio track *)
Theorem C19_split_registration_refuted :
  exists sched,
    let w := rexec false (rinit [(1, true); (2, false)]) sched in
    rw_tbl w = [(1, true); (2, false)] /\ rw_master w = Some 2 /\
    map r_pc (rw_threads w) = [RDone; RDone].
Proof. exact split_registration_witness. Qed.
Print Assumptions C19_split_registration_refuted.

(** (iii) C19_lockset on the regenerated tables: no unprotected conflicting pair is left in Receiver
    (streams under Receiver.mu since 575415d), channel (trDatas / masterTrName through accessors under
    ch.mu since 02a73b9, the MPD and startTime under ch.mpdMu since b9f2d4d, the master values under
    ch.mu since 2922a35) and segmentTimelineGenerator (only touched by its channel's goroutine).
    channel and segmentTimelineGenerator belong to one channel goroutine each ([multi_handler]).
    A new unprotected pair makes these fail. *)
Theorem C19_lockset_receiver : races_known Access.Receiver [] = true.
Proof. vm_compute. reflexivity. Qed.
Print Assumptions C19_lockset_receiver.

Theorem C19_lockset_channel : races_known_h Access.channel [] = true.
Proof. vm_compute. reflexivity. Qed.
Print Assumptions C19_lockset_channel.

Theorem C19_lockset_timelinegen : races_known_h Access.segmentTimelineGenerator [] = true.
Proof. vm_compute. reflexivity. Qed.
Print Assumptions C19_lockset_timelinegen.

(** hence, in every schedule, any two conflicting accesses to a field of these structs are ordered by
    happens-before *)
Theorem C19_receiver_race_free :
  forall tr, valid multi_all Access.Receiver tr ->
  forall pre mid post t1 a1 t2 a2,
    tr = pre ++ EAcc t1 a1 :: mid ++ EAcc t2 a2 :: post ->
    t1 <> t2 -> a_field a1 = a_field a2 -> a_write a1 || a_write a2 = true ->
    hb tr (length pre) (length pre + 1 + length mid).
Proof. exact (races_known_nil_race_free Access.Receiver C19_lockset_receiver). Qed.
Print Assumptions C19_receiver_race_free.

Theorem C19_channel_race_free :
  forall tr, valid multi_handler Access.channel tr ->
  forall pre mid post t1 a1 t2 a2,
    tr = pre ++ EAcc t1 a1 :: mid ++ EAcc t2 a2 :: post ->
    t1 <> t2 -> a_field a1 = a_field a2 -> a_write a1 || a_write a2 = true ->
    hb tr (length pre) (length pre + 1 + length mid).
Proof. exact (lockset_race_free_gen multi_handler Access.channel (races_known_h_nil Access.channel C19_lockset_channel)). Qed.
Print Assumptions C19_channel_race_free.

(** non-vacuity: the tables are not empty, handlers do write these structs (under locks) *)
Example C19_tables_nonempty :
  existsb (fun a => a_write a && role_eqb (a_role a) RHandler) Access.Receiver = true /\
  existsb (fun a => a_write a && role_eqb (a_role a) RHandler) Access.channel = true /\
  existsb (fun a => a_write a && role_eqb (a_role a) RChan) Access.channel = true.
Proof. vm_compute. repeat split. Qed.

(** C19_no_reentrant_acquisition, on the tables regenerated from the sources (gen/Access.v: lock_acquires,
    recv_calls, held_calls - all methods of the module that lock a mutex of their receiver): no method
    calls, while it holds a mutex of its receiver, a method of that receiver that reaches an acquisition
    of the same mutex. A recursive RLock (the helper that read-locks and calls a read-locking accessor)
    makes this fail. *)
Theorem C19_no_reentrant_acquisition : reentrant Access.lock_acquires Access.recv_calls Access.held_calls = [].
Proof. vm_compute. reflexivity. Qed.
Print Assumptions C19_no_reentrant_acquisition.

(** what the empty table means: no held call reaches, along any call path on the same receiver, a
    function that acquires the held lock ... *)
Theorem C19_no_reentrant_sound : forall holder lock callee n f,
  In (holder, lock, callee) Access.held_calls -> call_path Access.recv_calls n callee f ->
  (n <= length Access.recv_calls)%nat -> acquires_lock Access.lock_acquires f lock = false.
Proof. exact (reentrant_nil_sound _ _ _ C19_no_reentrant_acquisition). Qed.
Print Assumptions C19_no_reentrant_sound.

(** ... and a thread whose lock operations never re-acquire a held lock is never waiting for a lock it
    holds itself, however far it has got *)
Theorem C19_no_self_block : forall pre held l e post,
  no_reacquire held (pre ++ LAcq l e :: post) -> str_mem l (held_after held pre) = false.
Proof. exact no_reacquire_next. Qed.
Print Assumptions C19_no_self_block.

(** why it matters for sync.RWMutex (writer preference): reader 1 holds the lock, writer 2 waits, reader 1
    asks again - no request can be granted *)
Theorem C19_recursive_rlock_deadlock :
  let k := mkRW_ [1%nat] None [2%nat] in
  grant_read k = false /\ grant_write k = false /\ In 1%nat (rw_readers k).
Proof. exact recursive_rlock_deadlock. Qed.
Print Assumptions C19_recursive_rlock_deadlock.

(** non-vacuity: locks are held across calls on the same receiver in the module *)
Example C19_held_calls_present : negb (lenZ Access.held_calls =? 0) = true /\ negb (lenZ Access.lock_acquires =? 0) = true.
Proof. vm_compute. split; reflexivity. Qed.
