(** C20 — the request limiter enforces its quota exactly, also under concurrency.
    Only statements; every proof is [exact <lemma>] (lemmas in theories/LimiterProofs.v, Conc.v) or a
    [vm_compute] over the access table that accessgen regenerates from the Go sources (gen/Access.v).

    Model: theories/Limiter.v (cmd/livesim2/app/ipreqlimit.go). Times are ns as [Z], [time_sub] is
    time.Time.Sub (saturating); [whitelisted ip] stands for "a CIDR block contains net.ParseIP(ip)".
    [epochs interval start calls] cuts a call sequence into the maximal runs between resets, where a
    call at [now] resets iff [time_sub now resetTime > interval] and then sets [resetTime := now];
    [epoch_outs] says what the k-th call of an address inside one epoch must return:
    (k, max or -1, k <= max or white-listed). *)
From Verif Require Import GoSem Limiter LimiterProofs Conc.
From VerifGen Require Import Access.

(** Every sequence of Inc calls on a new limiter returns, call by call, exactly what the epoch
    specification prescribes (count = k for the k-th call of the address in its epoch; ok iff
    k <= max or white-listed; reported max -1 for white-listed addresses). *)
Theorem C20_interval : forall maxNr interval whitelisted start calls,
  lenZ calls < two63 ->
  snd (run_incs maxNr interval whitelisted (newLimiter start) calls) =
  concat (map (epoch_outs maxNr whitelisted []) (epochs interval start calls)).
Proof. exact limiter_interval.
Qed.
Print Assumptions C20_interval.

(** The epochs partition the calls; inside every epoch the calls of an address outside the white
    list are answered with the counts 1, 2, …, n in order (each value exactly once), pass exactly
    while the count is <= max, i.e. exactly min(n, max) of them (0 if max < 0) are passed on. *)
Theorem C20_exactly_first_max : forall maxNr interval whitelisted start calls,
  lenZ calls < two63 ->
  let eps := epochs interval start calls in
  concat eps = calls /\
  snd (run_incs maxNr interval whitelisted (newLimiter start) calls) = concat (map (epoch_outs maxNr whitelisted []) eps) /\
  forall e a, In e eps -> whitelisted a = false ->
    let o := outs_of maxNr whitelisted a [] e in
    let n := ncalls a e in
    map o_count o = seqZ 1 n /\
    map o_ok o = map (fun k => k <=? maxNr) (seqZ 1 n) /\
    lenZ (filter o_ok o) = Z.max 0 (Z.min (Z.of_nat n) maxNr).
Proof. exact limiter_exactly_first_max.
Qed.
Print Assumptions C20_exactly_first_max.

(** In every state: a call with now - resetTime <= interval clears nothing (the caller's counter
    goes up by one, all others and resetTime stay); a call with now - resetTime > interval restarts
    all counters and sets resetTime to now. *)
Theorem C20_reset_only_after_interval : forall maxNr interval whitelisted s now ip,
  let s2 := fst (inc maxNr interval whitelisted s now ip) in
  (time_sub now (resetTime s) <= interval ->
     resetTime s2 = resetTime s /\
     cget (ctrs s2) ip = i64 (cget (ctrs s) ip + 1) /\
     forall a, a <> ip -> cget (ctrs s2) a = cget (ctrs s) a) /\
  (time_sub now (resetTime s) > interval ->
     resetTime s2 = now /\ cget (ctrs s2) ip = 1 /\
     forall a, a <> ip -> cget (ctrs s2) a = 0).
Proof. exact limiter_reset_rule.
Qed.
Print Assumptions C20_reset_only_after_interval.

(** Reading: Count(a) after any call sequence is the number of calls of [a] in the last epoch;
    EndTime is the reset instant given by the reset rule plus the interval. *)
Theorem C20_count : forall maxNr interval whitelisted start calls a,
  lenZ calls < two63 ->
  count (fst (run_incs maxNr interval whitelisted (newLimiter start) calls)) a =
  countZ a (map snd (last (epochs interval start calls) [])).
Proof. exact limiter_count_final.
Qed.
Print Assumptions C20_count.

Theorem C20_endtime : forall maxNr interval whitelisted start calls,
  endTime interval (fst (run_incs maxNr interval whitelisted (newLimiter start) calls)) =
  final_reset interval start calls + interval.
Proof. exact limiter_endtime_final.
Qed.
Print Assumptions C20_endtime.

(** White-listed addresses are never limited: from any state, every Inc of a white-listed address
    returns ok with max -1, and the middleware passes the request on (never 429). *)
Theorem C20_whitelist : forall maxNr interval whitelisted calls s,
  Forall2 (fun (c : call) o => whitelisted (snd c) = true -> o_ok o = true /\ o_max o = -1)
          calls (snd (run_incs maxNr interval whitelisted s calls)).
Proof. exact limiter_whitelist.
Qed.
Print Assumptions C20_whitelist.

Theorem C20_whitelist_middleware : forall maxNr interval whitelisted hdrName s now xff remote ip,
  ipFromRequest xff remote = Some ip -> whitelisted ip = true ->
  exists h, snd (middleware maxNr interval whitelisted hdrName s now xff remote) = MwPass h.
Proof. exact middleware_whitelist_never_429.
Qed.
Print Assumptions C20_whitelist_middleware.

(** The middleware answers 429 exactly when Inc says not ok, and the header is "k (max M)". *)
Theorem C20_middleware : forall maxNr interval whitelisted hdrName s now xff remote,
  middleware maxNr interval whitelisted hdrName s now xff remote =
  match ipFromRequest xff remote with
  | None => (s, MwBadIP)
  | Some ip => (fst (inc maxNr interval whitelisted s now ip),
                mw_of hdrName (snd (inc maxNr interval whitelisted s now ip)))
  end.
Proof. exact middleware_spec.
Qed.
Print Assumptions C20_middleware.

(** All schedules. Any number of goroutines with any programs of Inc / Count / EndTime calls, any
    schedule at the granularity of the statements inside the critical sections (a goroutine waiting
    for the mutex stutters): if all finish, there is an interleaving [h] of the programs whose
    sequential run gives the final state and every value returned to every goroutine; the Inc
    results along [h] are those of C20_interval for [h]'s Inc calls (so C20_exactly_first_max,
    C20_count, C20_whitelist hold for every interleaving; no update is lost).
    Premise carried by the model: each method runs inside one critical section of the mutex — for
    Inc and Count by reading, for all three by C20_lockset below (EndTime: see the finding). *)
Theorem C20_all_schedules : forall maxNr interval whitelisted (progs : list (list lop)) start sched,
  let c := exec lstate lop lret lreg l_loc0 (l_body maxNr interval whitelisted) l_result
                (init lstate lop lret lreg progs (newLimiter start)) sched in
  finished lstate lop lret lreg c ->
  exists h : list (nat * lop),
    interleaving lop progs h /\
    obj _ _ _ _ c = fst (run_ops maxNr interval whitelisted (newLimiter start) (map snd h)) /\
    (forall t th, nth_error (threads _ _ _ _ c) t = Some th ->
       rets _ _ _ _ th = proj t (combine (map fst h) (snd (run_ops maxNr interval whitelisted (newLimiter start) (map snd h))))) /\
    (lenZ h < two63 ->
       inc_rets (snd (run_ops maxNr interval whitelisted (newLimiter start) (map snd h))) =
       concat (map (epoch_outs maxNr whitelisted []) (epochs interval start (inc_calls (map snd h))))).
Proof. exact limiter_all_schedules.
Qed.
Print Assumptions C20_all_schedules.

(** The sequential meaning of the micro-step bodies is the model's method. *)
Theorem C20_monitor_faithful : forall maxNr interval whitelisted o s,
  apply lstate lop lret lreg l_loc0 (l_body maxNr interval whitelisted) l_result o s =
  apply_op maxNr interval whitelisted s o.
Proof. exact monitor_apply.
Qed.
Print Assumptions C20_monitor_faithful.

(** Lock discipline, on the access table regenerated from the Go sources on every run.
    [C20_known_races]: the conflicting pairs that are allowed to be unprotected. It is empty since
    the fix commit 8410973 (EndTime takes the mutex); before it the table contained the pair
    ("ResetTime", EndTime R:handler:[], Inc W:handler:[L:mux]), see C20_unlocked_endtime_refuted. *)
Definition C20_known_races : list kpair := [].

(** The table is there and not trivial (the struct was found; it has writes that hold a mutex). *)
Theorem C20_table_present :
  existsb (String.eqb "IPRequestLimiter") Access.missing = false /\
  existsb (fun a => a_write a && negb (role_eqb (a_role a) RInit) &&
                    existsb (fun l => negb (lock_shared l)) (a_locks a)) Access.IPRequestLimiter = true.
Proof. vm_compute. split; reflexivity.
Qed.

(** Every pair of accesses to the same field of IPRequestLimiter that may run concurrently, with
    at least one write and no common mutex, is in the known list. *)
Theorem C20_lockset : races_known Access.IPRequestLimiter C20_known_races = true.
Proof. vm_compute. reflexivity.
Qed.
Print Assumptions C20_lockset.

(** Every access outside initialisation to a field that is written outside initialisation holds a
    mutex of the limiter exclusively (whatever functions and mutex are called): the methods that
    touch the mutable state (Inc, Count, EndTime, dump) do so inside a critical section. *)
Definition mutable_field (A : list access) (f : string) : bool :=
  existsb (fun a => String.eqb (a_field a) f && a_write a && negb (role_eqb (a_role a) RInit)) A.

Theorem C20_mutable_state_locked :
  forallb (fun a => role_eqb (a_role a) RInit || negb (mutable_field Access.IPRequestLimiter (a_field a))
                    || existsb (fun l => negb (lock_shared l)) (a_locks a))
          Access.IPRequestLimiter = true.
Proof. vm_compute. reflexivity.
Qed.

(** What an empty known list means: in every schedule every two conflicting accesses of different
    goroutines are ordered by happens-before (Conc.v, any number of goroutines). *)
Theorem C20_lockset_sound : forall A,
  races_known A [] = true ->
  forall tr, valid multi_all A tr ->
  forall pre mid post t1 a1 t2 a2,
    tr = pre ++ EAcc t1 a1 :: mid ++ EAcc t2 a2 :: post ->
    t1 <> t2 -> a_field a1 = a_field a2 -> a_write a1 || a_write a2 = true ->
    hb tr (length pre) (length pre + 1 + length mid).
Proof. exact races_known_nil_race_free.
Qed.
Print Assumptions C20_lockset_sound.

(** Hence, for the table of the checked tree: in every schedule of any number of goroutines that
    obeys the table, every two conflicting accesses to a field of IPRequestLimiter by different
    goroutines are ordered by happens-before (no data race; reading the counter while requests are
    in flight is race-free). *)
Theorem C20_race_free :
  forall tr, valid multi_all Access.IPRequestLimiter tr ->
  forall pre mid post t1 a1 t2 a2,
    tr = pre ++ EAcc t1 a1 :: mid ++ EAcc t2 a2 :: post ->
    t1 <> t2 -> a_field a1 = a_field a2 -> a_write a1 || a_write a2 = true ->
    hb tr (length pre) (length pre + 1 + length mid).
Proof. exact (races_known_nil_race_free Access.IPRequestLimiter C20_lockset).
Qed.
Print Assumptions C20_race_free.

(** The defect repaired by 8410973 was a real race, not an artefact of the decision procedure: a write under the
    mutex and a read that takes no lock, in two handler goroutines, have a valid schedule in which
    they are not ordered by happens-before. *)
Theorem C20_unlocked_endtime_refuted :
  let w := mkAccess "ResetTime" "IPRequestLimiter.Inc" true RHandler ["L:mux"] in
  let r := mkAccess "ResetTime" "IPRequestLimiter.EndTime" false RHandler [] in
  races multi_all w r = true /\
  valid multi_all [w; r] (unordered_trace w r "mux") /\
  ~ hb (unordered_trace w r "mux") 1 2.
Proof. exact unlocked_endtime_races.
Qed.
Print Assumptions C20_unlocked_endtime_refuted.

(** With EndTime taking the mutex (the proposed fix) the pair is protected. *)
Example C20_locked_endtime_ok :
  races multi_all lim_inc_write (mkAccess "ResetTime" "IPRequestLimiter.EndTime" false RHandler ["L:mux"]) = false.
Proof. vm_compute. reflexivity.
Qed.

(** Non-vacuity: max 2, interval 10 ns, start 100; two addresses, "w" white-listed; the call at
    111 is 11 ns after the reset instant 100 and starts the second epoch. *)
Example C20_example :
  let wl := fun ip => String.eqb ip "w" in
  let calls := [(100, "a"); (105, "a"); (110, "a"); (110, "w"); (110, "w"); (110, "w"); (111, "a"); (121, "a"); (122, "a")] in
  epochs 10 100 calls = [[(100, "a"); (105, "a"); (110, "a"); (110, "w"); (110, "w"); (110, "w")];
                         [(111, "a"); (121, "a")]; [(122, "a")]] /\
  snd (run_incs 2 10 wl (newLimiter 100) calls) =
    [(1, 2, true); (2, 2, true); (3, 2, false); (1, -1, true); (2, -1, true); (3, -1, true);
     (1, 2, true); (2, 2, true); (1, 2, true)] /\
  count (fst (run_incs 2 10 wl (newLimiter 100) calls)) "a" = 1 /\
  endTime 10 (fst (run_incs 2 10 wl (newLimiter 100) calls)) = 132.
Proof. vm_compute. repeat split.
Qed.

(** Non-vacuity of the schedule theorem: two goroutines, one Inc each, interleaved statement by
    statement (goroutine 1 waits while goroutine 0 is inside): both finish, counts 1 and 2. *)
Example C20_schedule_example :
  let c := exec lstate lop lret lreg l_loc0 (l_body 5 10 (fun _ => false)) l_result
                (init lstate lop lret lreg [[OInc 100 "a"]; [OInc 100 "a"]] (newLimiter 100))
                [0; 1; 0; 1; 0; 1; 0; 1; 0; 1; 0; 1; 1; 1; 1; 1]%nat in
  map (rets _ _ _ _) (threads _ _ _ _ c) = [[RInc 1 5 true]; [RInc 2 5 true]] /\
  map (ph _ _ _ _) (threads _ _ _ _ c) = [Idle _ _ _; Idle _ _ _] /\
  map (todo _ _ _ _) (threads _ _ _ _ c) = [[]; []].
Proof. vm_compute. repeat split.
Qed.
