#!/bin/bash
# usage: showat.sh file.v line  -> prints goals after that line
f=$1; n=$2
head -n $n $f > /tmp/showat_tmp.v
echo "Show. Admitted." >> /tmp/showat_tmp.v
cd /verif/coq && coqc -Q theories Verif -Q gen VerifGen /tmp/showat_tmp.v 2>&1 | head -${3:-60}
