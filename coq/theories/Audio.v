(** C03 — MODEL of the audio re-segmentation (cmd/livesim2/app/audiosegmentation.go,
    asset.go: generateTimelineEntriesFromRef). Executable transliteration, no proofs.

    Times are Go uint64, sample indices uint32, segment indices int. The model computes in [Z] and
    writes every wrap-around explicitly ([u64], [u32], [i64]); inputs are assumed to be inside their
    Go types. The video reference is abstract: the start/end of the reference segment and the
    reference loop duration are inputs (the lookup of the reference segment is C01/C02 material). *)
From Verif Require Import GoSem.
From Coq Require Import ZifyBool.

(** * calcAudioTimeFromRef (audiosegmentation.go), since the 128-bit fix: the product
    refTime*audioTimescale is exact ([bits.Mul64]), [mulDiv64] returns the low 64 bits of the quotient
    ([bits.Div64(hi%c, lo, c)]) and the exact remainder; the comparison
    [audioOutTime*refTimescale < refTime*audioTimescale] is decided from quotient and remainder. *)
Definition calcAudioTimeFromRef (refTime refTimescale frameDur audioTimescale : Z) : res Z :=
  if refTimescale =? 0 then Panic "calcAudioTimeFromRef: integer divide by zero (refTimescale)" else
  let x := refTime * audioTimescale in
  let audioTime := u64 (x / refTimescale) in
  let rem := x mod refTimescale in
  if frameDur =? 0 then Panic "calcAudioTimeFromRef: integer divide by zero (audioFrameDur)" else
  let out := audioTime / frameDur * frameDur in
  if (out <? audioTime) || (rem >? 0) then Ok (u64 (out + frameDur)) else Ok out.

(** the function as it was before that fix: product and comparison in uint64 (finding
    audio-time-uint64-overflow); kept for the witness C03_boundary_before_fix *)
Definition calcAudioTimeFromRef_before_fix (refTime refTimescale frameDur audioTimescale : Z) : res Z :=
  if refTimescale =? 0 then Panic "calcAudioTimeFromRef: integer divide by zero (refTimescale)" else
  if frameDur =? 0 then Panic "calcAudioTimeFromRef: integer divide by zero (audioFrameDur)" else
  let out := u64 (u64 (refTime * audioTimescale) / refTimescale / frameDur * frameDur) in
  if u64 (out * refTimescale) <? u64 (refTime * audioTimescale)
  then Ok (u64 (out + frameDur))
  else Ok out.

(** * calcAudioSegRecipe (L24-44) *)
Record recipe := {
  r_nr : Z;          (* segNr, uint32 *)
  r_start : Z;       (* startTime *)
  r_end : Z;         (* endTime *)
  r_inStart : Z;     (* audioInStart *)
  r_inEnd : Z;       (* audioInEnd *)
  r_after : Z        (* audioInEndAfterWrap *)
}.

Definition calcAudioSegRecipe (refNr refStart refEnd refTotalDur refTimescale sampleDur audioTimescale : Z) : res recipe :=
  do audioStart <- calcAudioTimeFromRef refStart refTimescale sampleDur audioTimescale;
  do audioEnd <- calcAudioTimeFromRef refEnd refTimescale sampleDur audioTimescale;
  if refTotalDur =? 0 then Panic "calcAudioSegRecipe: integer divide by zero (refTotalDur)" else
  let startWrap := u64 (refStart / refTotalDur * refTotalDur) in
  let endWrap := u64 (refEnd / refTotalDur * refTotalDur) in
  do audioWrapStart <- calcAudioTimeFromRef startWrap refTimescale sampleDur audioTimescale;
  do audioWrapEnd <- calcAudioTimeFromRef endWrap refTimescale sampleDur audioTimescale;
  let audioInStart := u64 (audioStart - audioWrapStart) in
  if audioWrapEnd >? audioWrapStart then
    if audioEnd <? u64 (audioWrapEnd + sampleDur) then
      Ok {| r_nr := refNr; r_start := audioStart; r_end := audioEnd; r_inStart := audioInStart;
            r_inEnd := u64 (audioEnd - audioWrapStart); r_after := 0 |}
    else
      Ok {| r_nr := refNr; r_start := audioStart; r_end := audioEnd; r_inStart := audioInStart;
            r_inEnd := u64 (audioWrapEnd - audioWrapStart); r_after := u64 (audioEnd - audioWrapEnd) |}
  else
    Ok {| r_nr := refNr; r_start := audioStart; r_end := audioEnd; r_inStart := audioInStart;
          r_inEnd := u64 (audioInStart + u64 (audioEnd - audioStart)); r_after := 0 |}.

(** * The VoD audio segment table and the sample intervals (L56-65) *)
Record seg := {
  s_start : Z;   (* Segment.StartTime *)
  s_end : Z;     (* Segment.EndTime *)
  s_cnt : Z      (* number of samples in the segment file (len(fss)) *)
}.

Record itvl := {
  i_seg : Z;     (* segIdx *)
  i_start : Z;   (* startIdx, uint32 *)
  i_end : Z;     (* endIdx, uint32 *)
  i_fill : Z     (* nrFillSamples, uint32 *)
}.

(** sampleItvl.dur: uint64(endIdx-startIdx) * sampleDur, the subtraction in uint32 *)
Definition itvl_dur (sampleDur : Z) (it : itvl) : Z := u64 (u32 (i_end it - i_start it) * sampleDur).

(** [sampleItvls] is kept in reverse order: the head is [sampleItvls[len(sampleItvls)-1]]. *)
Definition set_last_end (acc : list itvl) (e : Z) : res (list itvl) :=
  match acc with
  | [] => Panic "createAudioSeg: index out of range [-1] (sampleItvls)"
  | it :: tl => Ok ({| i_seg := i_seg it; i_start := i_start it; i_end := e; i_fill := i_fill it |} :: tl)
  end.
(** L115-116 (since fix fc72486): last.endIdx = last.startIdx + count, in uint32 *)
Definition set_last_end_rel (acc : list itvl) (cnt : Z) : res (list itvl) :=
  match acc with
  | [] => Panic "createAudioSeg: index out of range [-1] (sampleItvls)"
  | it :: tl => Ok ({| i_seg := i_seg it; i_start := i_start it; i_end := u32 (i_start it + cnt); i_fill := i_fill it |} :: tl)
  end.
Definition set_last_fill (acc : list itvl) (n : Z) : res (list itvl) :=
  match acc with
  | [] => Panic "createAudioSeg: index out of range [-1] (sampleItvls)"
  | it :: tl => Ok ({| i_seg := i_seg it; i_start := i_start it; i_end := i_end it; i_fill := n |} :: tl)
  end.
Definition last_dur (sampleDur : Z) (acc : list itvl) : res Z :=
  match acc with
  | [] => Panic "createAudioSeg: index out of range [-1] (sampleItvls)"
  | it :: _ => Ok (itvl_dur sampleDur it)
  end.
Definition is_nil {A} (l : list A) : bool := match l with [] => true | _ => false end.
Definition mk_itvl (i s : Z) : itvl := {| i_seg := i; i_start := s; i_end := 0; i_fill := 0 |}.

(** * createAudioSeg, start-segment search (L77-84): walk down from [startNr] *)
Fixpoint search_down (inStart : Z) (rsegs : list seg) (k : Z) : res Z :=
  match rsegs with
  | [] => Panic "createAudioSeg: index out of range (rep.Segments[startNr], startNr < 0)"
  | s :: t => if s_start s >? inStart then search_down inStart t (k - 1) else Ok k
  end.

(** rep.duration() : int(last.EndTime - first.StartTime), 0 for an empty table *)
Definition rep_duration (segs : list seg) : Z :=
  match segs with
  | [] => 0
  | s0 :: _ => i64 (u64 (s_end (last segs s0) - s_start s0))
  end.

Definition start_search (segs : list seg) (inStart : Z) : res Z :=
  do startNr <- go_div "createAudioSeg: integer divide by zero (rep.duration())" (i64 inStart) (rep_duration segs);
  if (startNr <? 0) || (startNr >=? lenZ segs)
  then Panic "createAudioSeg: index out of range (rep.Segments[startNr])"
  else search_down inStart (rev (takeZ (startNr + 1) segs)) startNr.

(** * createAudioSeg, the loop over the segments (L85-118).
    [segs] is [rep.Segments[i:]]; result (timeCollected, sampleItvls reversed). *)
Fixpoint seg_loop (F inStart inEnd lastIdx : Z) (segs : list seg) (i next tc : Z) (acc : list itvl)
  : res (Z * list itvl) :=
  match segs with
  | [] => Ok (tc, acc)
  | s :: rest =>
    if s_end s <=? inStart then seg_loop F inStart inEnd lastIdx rest (i + 1) next tc acc else
    let acc1 := if (next <? s_end s) && is_nil acc
                then [mk_itvl i (u32 (u64 (next - s_start s) / F))] else acc in
    if inEnd >=? s_end s then
      do acc2 <- set_last_end acc1 (u32 (u64 (s_end s - s_start s) / F));
      do d <- last_dur F acc2;
      let tc2 := u64 (tc + d) in
      let next2 := s_end s in
      if next2 =? inEnd then Ok (tc2, acc2) else
      if i <? lastIdx then seg_loop F inStart inEnd lastIdx rest (i + 1) next2 tc2 (mk_itvl (i + 1) 0 :: acc2)
      else
        (* last segment and some time to the wrap missing: repeat the last sample *)
        let fillTime := u64 (inEnd - s_end s) in
        let tc3 := u64 (tc2 + fillTime) in
        do acc3 <- set_last_fill acc2 (u32 (fillTime / F));
        Ok (tc3, acc3)
    else
      (* the interval ends inside this segment: endIdx = startIdx + count. (Before fix fc72486 this was
         endIdx = count, which failed whenever startIdx > 0: audio-inner-interval-500.) *)
      do acc2 <- set_last_end_rel acc1 (u32 (u64 (inEnd - next) / F));
      do d <- last_dur F acc2;
      Ok (u64 (tc + d), acc2)
  end.

(** * the part after the wrap (L123-133) *)
Fixpoint after_loop (F after : Z) (segs : list seg) (i : Z) (acc : list itvl) : res (list itvl) :=
  match segs with
  | [] => Ok acc
  | s :: rest =>
    if after <? s_end s then set_last_end acc (u32 (u64 (after - s_start s) / F))
    else
      do acc1 <- set_last_end acc (u32 (u64 (s_end s - s_start s) / F));
      after_loop F after rest (i + 1) (mk_itvl (i + 1) 0 :: acc1)
  end.

(** * interval computation of createAudioSeg (L68-133); the result is in Go's order.
    [F = 0] cannot reach createAudioSeg (calcAudioSegRecipe divides by it first); the model panics
    at the entry in that case instead of at the first division. *)
Definition intervals (F : Z) (segs : list seg) (rc : recipe) : res (list itvl) :=
  if F =? 0 then Panic "createAudioSeg: integer divide by zero (sampleDur)" else
  do startNr <- start_search segs (r_inStart rc);
  do tcacc <- seg_loop F (r_inStart rc) (r_inEnd rc) (lenZ segs - 1) (dropZ startNr segs) startNr (r_inStart rc) 0 [];
  let '(tc, acc) := tcacc in
  let audioLeft := u64 (u64 (r_end rc - r_start rc) - tc) in
  if negb (audioLeft =? r_after rc) then Err "audioLeft != audioInEndAfterWrap" else
  do acc' <- (if r_after rc >? 0 then after_loop F (r_after rc) segs 0 (mk_itvl 0 0 :: acc) else Ok acc);
  Ok (rev acc').

(** * expansion of the intervals to source frames (L141-171).
    A source frame is named by its global index in the concatenation of the VoD segments. *)
Fixpoint seg_offset (segs : list seg) (i : Z) : Z :=
  match segs with
  | [] => 0
  | s :: t => if i <=? 0 then 0 else s_cnt s + seg_offset t (i - 1)
  end.

Definition rangeZ (lo hi : Z) : list Z := seqZ lo (Z.to_nat (hi - lo)).
Definition repeatZ {A} (x : A) (n : Z) : list A := repeat x (Z.to_nat n).

Definition expand1 (segs : list seg) (it : itvl) : res (list Z) :=
  do s <- index "createAudioSeg: index out of range (rep.Segments[itvl.segIdx])" segs (i_seg it);
  let off := seg_offset segs (i_seg it) in
  (* fss[itvl.startIdx:itvl.endIdx]; cap(fss) = len(fss) when the file has dur/sampleDur samples *)
  if (i_start it >? i_end it) || (i_end it >? s_cnt s)
  then Panic "createAudioSeg: slice bounds out of range (fss[startIdx:endIdx])" else
  let body := map (fun k => off + k) (rangeZ (i_start it) (i_end it)) in
  if i_fill it >? 0 then
    if s_cnt s <=? 0 then Panic "createAudioSeg: index out of range [-1] (fss)"
    else Ok (body ++ repeatZ (off + s_cnt s - 1) (i_fill it))
  else Ok body.

Fixpoint expand (segs : list seg) (its : list itvl) : res (list Z) :=
  match its with
  | [] => Ok []
  | it :: t => do a <- expand1 segs it; do b <- expand segs t; Ok (a ++ b)
  end.

(** * the produced segment (resetSegmentToNewSamples, L187-204): tfdt, sequence number, samples *)
Record outseg := { o_tfdt : Z; o_seq : Z; o_frames : list Z }.

Definition create_audio_seg (F : Z) (segs : list seg) (rc : recipe) : res outseg :=
  do its <- intervals F segs rc;
  do fr <- expand segs its;
  if is_nil its then Panic "resetSegmentToNewSamples: nil segment" else
  Ok {| o_tfdt := r_start rc; o_seq := r_nr rc; o_frames := fr |}.

(** createAudioSegment (livesegment.go L606-612) after the reference lookup *)
Definition audio_segment (refNr refStart refEnd refTotalDur refTimescale F audioTimescale : Z) (segs : list seg)
  : res outseg :=
  do rc <- calcAudioSegRecipe refNr refStart refEnd refTotalDur refTimescale F audioTimescale;
  create_audio_seg F segs rc.

(** * generateTimelineEntriesFromRef (asset.go L530-576) on an abstract reference entry list:
    [refT] is the T of the first reference entry, the entries are (D, R). Result reversed while
    building (head = the current S element). *)
Record sentry := { e_t : option Z; e_d : Z; e_r : Z }.

Fixpoint tl_inner (n : nat) (refD r F a : Z) (st : Z * Z * list sentry) : res (Z * Z * list sentry) :=
  match n with
  | O => Ok st
  | S n' =>
    let '(nextRefT, t, acc) := st in
    let nextRefT' := u64 (nextRefT + refD) in
    do nextT <- calcAudioTimeFromRef nextRefT' r F a;
    let d := u64 (nextT - t) in
    let acc' := match acc with
                | [] => [{| e_t := Some t; e_d := d; e_r := 0 |}]
                | s :: tl => if negb (e_d s =? d) then {| e_t := None; e_d := d; e_r := 0 |} :: acc
                             else {| e_t := e_t s; e_d := e_d s; e_r := e_r s + 1 |} :: tl
                end in
    tl_inner n' refD r F a (nextRefT', nextT, acc')
  end.

Fixpoint tl_outer (entries : list (Z * Z)) (r F a : Z) (st : Z * Z * list sentry) : res (Z * Z * list sentry) :=
  match entries with
  | [] => Ok st
  | (refD, refR) :: rest =>
    do st' <- tl_inner (Z.to_nat (refR + 1)) refD r F a st;
    tl_outer rest r F a st'
  end.

Definition audio_timeline (startNr refT : Z) (entries : list (Z * Z)) (r F a : Z) : res (list sentry) :=
  if startNr <? 0 then Ok [] else
  if is_nil entries then Panic "generateTimelineEntriesFromRef: index out of range [0] (refSE.entries)" else
  do t <- calcAudioTimeFromRef refT r F a;
  do st <- tl_outer entries r F a (refT, t, []);
  let '(_, _, acc) := st in Ok (rev acc).

(** * RepData.sampleDur() (asset.go L710-723), the frame duration generateTimelineEntriesFromRef uses:
    DefaultSampleDuration (from trex, overwritten by the tfhd default of the last fragment read), else a
    guess from the codec family and the timescale. [codec]: 0 = "mp4a.40*", 1 = "ac-3*" / "ec-3*",
    anything else = other. Note that this is not [*rep.ConstantSampleDuration], which createAudioSeg,
    calcAudioSegRecipe and the admission check of loadAsset use. *)
Definition rep_sample_dur (dflt codec ts : Z) : Z :=
  if negb (dflt =? 0) then dflt else
  if (codec =? 0) && (ts =? 48000) then 1024 else
  if (codec =? 1) && (ts =? 48000) then 1536 else 0.

(** the frame duration generateTimelineEntriesFromRef works with (asset.go L547). [cdur] is
    [*rep.ConstantSampleDuration] (0 for nil), the frame duration measured on the segments that admission
    checks and createAudioSeg uses; it is the first choice (since the fix of finding
    mpd-audio-sampledur-zero), [RepData.sampleDur()] the fallback. *)
Definition mpd_frame_dur (cdur dflt codec ts : Z) : Z :=
  if negb (cdur =? 0) then cdur else rep_sample_dur dflt codec ts.

(** the audio SegmentTimeline as LiveMPD computes it (livempd.go L256) *)
Definition mpd_audio_timeline (startNr refT : Z) (entries : list (Z * Z)) (r cdur dflt codec a : Z) : res (list sentry) :=
  audio_timeline startNr refT entries r (mpd_frame_dur cdur dflt codec a) a.
