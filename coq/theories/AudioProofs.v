(** C03 — proofs about the model of the audio re-segmentation (theories/Audio.v). *)
From Verif Require Import GoSem GoSemFacts Audio.
From Coq Require Import ZifyBool.

Local Lemma u64_small z : 0 <= z < two64 -> u64 z = z.
Proof. intros; unfold u64; now apply Z.mod_small. Qed.
Local Lemma u32_small z : 0 <= z < two32 -> u32 z = z.
Proof. intros; unfold u32; now apply Z.mod_small. Qed.
Local Lemma i64_small z : 0 <= z < two63 -> i64 z = z.
Proof. intros; unfold i64. rewrite Z.mod_small; unfold two63, two64 in *; lia. Qed.

(** * Ceiling division and the frame boundary function *)

Definition cdiv (x y : Z) : Z := (x + y - 1) / y.

(** [cdiv x p] is the unique [k] with [(k-1)*p < x <= k*p]. *)
Lemma cdiv_spec x p : 0 < p -> (cdiv x p - 1) * p < x <= cdiv x p * p.
Proof.
  intros Hp. unfold cdiv.
  pose proof (Z.div_mod (x + p - 1) p ltac:(lia)) as E.
  pose proof (Z.mod_pos_bound (x + p - 1) p Hp) as B.
  set (q := (x + p - 1) / p) in *. set (m := (x + p - 1) mod p) in *.
  replace ((q - 1) * p) with (p * q - p) by ring. replace (q * p) with (p * q) by ring. lia.
Qed.

Lemma cdiv_unique x p k : 0 < p -> (k - 1) * p < x <= k * p -> cdiv x p = k.
Proof.
  intros Hp H. pose proof (cdiv_spec x p Hp) as S.
  set (c := cdiv x p) in *.
  assert (~ c < k) by nia. assert (~ k < c) by nia. lia.
Qed.

Lemma cdiv_mono x y p : 0 < p -> x <= y -> cdiv x p <= cdiv y p.
Proof.
  intros Hp H. unfold cdiv. apply Z.div_le_mono; lia.
Qed.

Lemma cdiv_nonneg x p : 0 < p -> 0 <= x -> 0 <= cdiv x p.
Proof. intros. unfold cdiv. apply Z.div_pos; lia. Qed.

Lemma cdiv_add_mult x p k : 0 < p -> cdiv (x + k * p) p = cdiv x p + k.
Proof.
  intros Hp. unfold cdiv. replace (x + k * p + p - 1) with (x + p - 1 + k * p) by ring.
  now rewrite Z.div_add by lia.
Qed.

Lemma cdiv_floor x p : 0 < p -> cdiv x p = if x mod p =? 0 then x / p else x / p + 1.
Proof.
  intros Hp. pose proof (Z.div_mod x p ltac:(lia)) as E. pose proof (Z.mod_pos_bound x p Hp) as B.
  apply cdiv_unique; [assumption|].
  destruct (x mod p =? 0) eqn:Z0.
  - assert (x mod p = 0) by lia. nia.
  - assert (x mod p <> 0) by lia. nia.
Qed.

(** The frame boundary function: the least multiple of [F] that is, on the reference timescale, at or
    after the reference time [t]. Exact arithmetic over [Z]. *)
Definition fidx (r F a t : Z) : Z := cdiv (t * a) (r * F).
Definition fb (r F a t : Z) : Z := fidx r F a t * F.

Section Boundary.
Variables r F a : Z.
Hypothesis Hr : 0 < r.
Hypothesis HF : 0 < F.
Hypothesis Ha : 0 < a.

Lemma rF_pos : 0 < r * F. Proof. nia. Qed.

Lemma fb_div t : fb r F a t / F = fidx r F a t.
Proof. unfold fb. apply Z.div_mul. lia. Qed.

Lemma fb_mod t : fb r F a t mod F = 0.
Proof. unfold fb. apply Z.mod_mul. lia. Qed.

Lemma fidx_nonneg t : 0 <= t -> 0 <= fidx r F a t.
Proof. intros. apply cdiv_nonneg; [apply rF_pos|nia]. Qed.

Lemma fb_nonneg t : 0 <= t -> 0 <= fb r F a t.
Proof. intros. unfold fb. pose proof (fidx_nonneg t H). nia. Qed.

(** at or after the reference time *)
Lemma fb_ge t : t * a <= fb r F a t * r.
Proof.
  unfold fb, fidx. pose proof (cdiv_spec (t * a) (r * F) rF_pos). nia.
Qed.

(** less than one frame late *)
Lemma fb_lt t : fb r F a t * r - t * a < F * r.
Proof.
  unfold fb, fidx. pose proof (cdiv_spec (t * a) (r * F) rF_pos). nia.
Qed.

(** the least such multiple of the frame duration *)
Lemma fb_least t m : m mod F = 0 -> t * a <= m * r -> fb r F a t <= m.
Proof.
  intros Hm Hge. unfold fb, fidx.
  pose proof (cdiv_spec (t * a) (r * F) rF_pos) as S.
  apply Z.mod_divide in Hm; [|lia]. destruct Hm as [k ->].
  set (c := cdiv (t * a) (r * F)) in *.
  assert (~ k < c) by nia. nia.
Qed.

Lemma fidx_mono t1 t2 : t1 <= t2 -> fidx r F a t1 <= fidx r F a t2.
Proof. intros. apply cdiv_mono; [apply rF_pos|nia]. Qed.

Lemma fb_mono t1 t2 : t1 <= t2 -> fb r F a t1 <= fb r F a t2.
Proof. intros. unfold fb. pose proof (fidx_mono t1 t2 H). nia. Qed.

Lemma fb_le_bound t : 0 <= t -> fb r F a t <= t * a + F * r.
Proof.
  intros Ht. pose proof (fb_lt t). pose proof (fb_nonneg t Ht).
  assert (fb r F a t <= fb r F a t * r) by nia. lia.
Qed.

(** The Go function computes [fb] for all inputs whose result fits into 64 bits. *)
Lemma calc_is_fb_fits t :
  0 <= t -> fb r F a t < two64 ->
  calcAudioTimeFromRef t r F a = Ok (fb r F a t).
Proof.
  intros Ht Hfit. unfold calcAudioTimeFromRef.
  replace (r =? 0) with false by lia. replace (F =? 0) with false by lia.
  assert (HX : 0 <= t * a) by nia.
  pose proof (fb_ge t) as Hge. pose proof (fb_nonneg t Ht) as Hnn.
  set (X := t * a) in *.
  pose proof (Z.div_mod X r ltac:(lia)) as E1. pose proof (Z.mod_pos_bound X r Hr) as B1.
  assert (Hq0 : 0 <= X / r) by (apply Z.div_pos; lia).
  assert (Hqle : X / r <= fb r F a t) by (apply Z.div_le_upper_bound; nia).
  rewrite (u64_small (X / r)) by lia.
  rewrite Z.div_div by lia.
  pose proof (Z.div_mod X (r * F) ltac:(nia)) as E. pose proof (Z.mod_pos_bound X (r * F) rF_pos) as B.
  unfold fb, fidx in *. fold X in Hfit, Hge, Hnn, Hqle |- *.
  rewrite (cdiv_floor X (r * F) rF_pos) in *.
  set (k := X / (r * F)) in *. set (m := X mod (r * F)) in *.
  set (q0 := X / r) in *. set (rem := X mod r) in *.
  assert (Hk : 0 <= k) by (apply Z.div_pos; [lia|apply rF_pos]).
  assert (Hcond : ((k * F <? q0) || (rem >? 0)) = negb (m =? 0)).
  { destruct (m =? 0) eqn:M0; cbn [negb].
    - assert (Hm : m = 0) by lia.
      set (d := k * F - q0) in *. assert (Hd0 : 0 <= d) by (unfold d; lia).
      assert (Hrd : r * d = rem) by (unfold d; rewrite Z.mul_sub_distr_l; replace (r * (k * F)) with (r * F * k) by ring; lia).
      assert (d < 1) by nia. assert (d = 0) by lia. assert (rem = 0) by nia. unfold d in *. lia.
    - assert (Hm : m <> 0) by lia.
      destruct (Z_le_gt_dec q0 (k * F)) as [Hle|]; [|lia].
      assert (rem > 0).
      { assert (Hrd : r * (k * F - q0) + m = rem) by (rewrite Z.mul_sub_distr_l; replace (r * (k * F)) with (r * F * k) by ring; lia).
        assert (0 <= r * (k * F - q0)) by nia. lia. }
      lia. }
  rewrite Hcond. destruct (m =? 0); cbn [negb].
  - reflexivity.
  - rewrite u64_small by nia. f_equal. ring.
Qed.

(** in particular whenever the products of the old code fit into 64 bits *)
Lemma calc_is_fb t :
  0 <= t -> t * a + F * r < two64 ->
  calcAudioTimeFromRef t r F a = Ok (fb r F a t).
Proof.
  intros Ht Hrange. apply calc_is_fb_fits; [assumption|].
  pose proof (fb_le_bound t Ht). lia.
Qed.

(** the function before the 128-bit fix computed [fb] only while its products fit into 64 bits *)
Lemma calc_before_fix_is_fb t :
  0 <= t -> t * a + F * r < two64 ->
  calcAudioTimeFromRef_before_fix t r F a = Ok (fb r F a t).
Proof.
  intros Ht Hrange. unfold calcAudioTimeFromRef_before_fix.
  replace (r =? 0) with false by lia. replace (F =? 0) with false by lia.
  assert (HX : 0 <= t * a) by nia.
  assert (HFr : 0 < F * r) by nia.
  rewrite (u64_small (t * a)) by lia.
  rewrite Z.div_div by lia.
  pose proof (Z.div_mod (t * a) (r * F) ltac:(nia)) as E.
  pose proof (Z.mod_pos_bound (t * a) (r * F) rF_pos) as B.
  set (X := t * a) in *. set (q := X / (r * F)) in *. set (m := X mod (r * F)) in *.
  assert (Hq : 0 <= q) by (apply Z.div_pos; [lia|apply rF_pos]).
  assert (Hqr : q * F * r = r * F * q) by ring.
  assert (HqF : 0 <= q * F <= X) by nia.
  rewrite (u64_small (q * F)) by lia.
  rewrite (u64_small (q * F * r)) by lia.
  unfold fb, fidx. fold X. rewrite (cdiv_floor X (r * F) rF_pos). fold m q.
  destruct (q * F * r <? X) eqn:C.
  - replace (m =? 0) with false by lia.
    rewrite u64_small by nia. f_equal. ring.
  - replace (m =? 0) with true by lia. reflexivity.
Qed.

End Boundary.

(** * The recipe for a reference segment that lies inside one loop of the reference *)

Section Recipe.
Variables r F a : Z.
Hypothesis Hr : 0 < r.
Hypothesis HF : 0 < F.
Hypothesis Ha : 0 < a.
Notation f := (fb r F a).

(** Reference segment [[w*D + s', w*D + e')] with [0 <= s' <= e' <= D], [s' < D]: no part after the
    wrap; the input interval is the output interval shifted by the frame boundary of the loop start. *)
Lemma recipe_in_wrap nr D w s' e' :
  0 < D -> 0 <= w -> 0 <= s' -> s' <= e' -> e' <= D -> s' < D ->
  (w * D + D) * a + 2 * F * r < two64 ->
  calcAudioSegRecipe nr (w * D + s') (w * D + e') D r F a =
  Ok {| r_nr := nr; r_start := f (w * D + s'); r_end := f (w * D + e');
        r_inStart := f (w * D + s') - f (w * D);
        r_inEnd := f (w * D + e') - f (w * D); r_after := 0 |}.
Proof.
  intros HD Hw Hs Hse He HsD Hrange.
  assert (HwD : 0 <= w * D) by nia.
  assert (Hfr : 0 < F * r) by nia.
  assert (Hbound : forall t, 0 <= t <= w * D + D -> t * a + F * r < two64) by (intros; nia).
  assert (Hb64 : forall t, 0 <= t <= w * D + D -> 0 <= f t < two64).
  { intros t Ht. split; [apply fb_nonneg; lia|].
    pose proof (fb_le_bound r F a Hr HF Ha t ltac:(lia)). pose proof (Hbound t Ht). lia. }
  unfold calcAudioSegRecipe.
  rewrite (calc_is_fb r F a Hr HF Ha (w * D + s')) by (try apply Hbound; lia).
  rewrite (calc_is_fb r F a Hr HF Ha (w * D + e')) by (try apply Hbound; lia).
  cbn [bind]. replace (D =? 0) with false by lia.
  assert (Es : (w * D + s') / D = w) by (symmetry; apply (Z.div_unique _ _ w s'); lia).
  rewrite Es.
  pose proof (fb_mono r F a Hr HF Ha (w * D) (w * D + s') ltac:(lia)) as M1.
  pose proof (fb_mono r F a Hr HF Ha (w * D + s') (w * D + e') ltac:(lia)) as M2.
  pose proof (Hb64 (w * D) ltac:(lia)) as B0.
  pose proof (Hb64 (w * D + s') ltac:(lia)) as B1.
  pose proof (Hb64 (w * D + e') ltac:(lia)) as B2.
  rewrite (u64_small (w * D)) by (unfold two64 in *; nia).
  rewrite (calc_is_fb r F a Hr HF Ha (w * D)) by (try apply Hbound; lia).
  cbn [bind].
  assert (Ee : e' < D \/ e' = D) by lia. destruct Ee as [Ee|Ee].
  - assert (E2 : (w * D + e') / D = w) by (symmetry; apply (Z.div_unique _ _ w e'); lia).
    rewrite E2. rewrite (u64_small (w * D)) by (unfold two64 in *; nia).
    rewrite (calc_is_fb r F a Hr HF Ha (w * D)) by (try apply Hbound; lia).
    cbn [bind]. replace (f (w * D) >? f (w * D)) with false by lia.
    f_equal. f_equal.
    + apply u64_small; lia.
    + rewrite (u64_small (f (w * D + s') - f (w * D))) by lia.
      rewrite (u64_small (f (w * D + e') - f (w * D + s'))) by lia.
      rewrite u64_small by lia. ring.
  - subst e'.
    assert (E2 : (w * D + D) / D = w + 1) by (symmetry; apply (Z.div_unique _ _ (w + 1) 0); lia).
    rewrite E2. replace ((w + 1) * D) with (w * D + D) by ring.
    rewrite (u64_small (w * D + D)) by (unfold two64 in *; nia).
    rewrite (calc_is_fb r F a Hr HF Ha (w * D + D)) by (try apply Hbound; lia).
    cbn [bind].
    destruct (f (w * D + D) >? f (w * D)) eqn:C.
    + assert (f (w * D + D) <= (w * D + D) * a + F * r) by (apply fb_le_bound; lia).
      rewrite (u64_small (f (w * D + D) + F)) by nia.
      replace (f (w * D + D) <? f (w * D + D) + F) with true by lia.
      f_equal. f_equal; apply u64_small; lia.
    + f_equal. f_equal.
      * apply u64_small; lia.
      * rewrite (u64_small (f (w * D + s') - f (w * D))) by lia.
        rewrite (u64_small (f (w * D + D) - f (w * D + s'))) by lia.
        rewrite u64_small by lia. ring.
Qed.

End Recipe.

(** * The VoD audio table *)

(** [chain F t segs]: the segments follow each other from [t] without gap and each holds [s_cnt > 0]
    frames of duration [F]. *)
Fixpoint chain (F t : Z) (segs : list seg) : Prop :=
  match segs with
  | [] => True
  | s :: rest => s_start s = t /\ 0 < s_cnt s /\ s_end s = t + s_cnt s * F /\ chain F (s_end s) rest
  end.

Fixpoint tot (segs : list seg) : Z :=
  match segs with [] => 0 | s :: rest => s_cnt s + tot rest end.

(** well-formed audio table: non-empty, starts at 0, contiguous, frames of duration [F] *)
Definition awf (F : Z) (segs : list seg) : Prop := segs <> [] /\ chain F 0 segs.

(** source frame for position [g] of a loop with [n] frames: the last frame pads *)
Definition clip (n g : Z) : Z := Z.min g (n - 1).

Lemma tot_app p q : tot (p ++ q) = tot p + tot q.
Proof. induction p as [|s p IH]; cbn [tot app]; lia. Qed.

Lemma chain_tot_nonneg F t segs : chain F t segs -> 0 <= tot segs.
Proof.
  revert t; induction segs as [|s l IH]; intros t H; cbn [tot]; [lia|].
  destruct H as (_ & Hc & _ & Hr). specialize (IH _ Hr). lia.
Qed.

Lemma chain_tot_pos F t segs : chain F t segs -> segs <> [] -> 0 < tot segs.
Proof.
  destruct segs as [|s l]; [congruence|]. intros (_ & Hc & _ & Hr) _. cbn [tot].
  pose proof (chain_tot_nonneg _ _ _ Hr). lia.
Qed.

Lemma chain_app F t p q : chain F t (p ++ q) <-> chain F t p /\ chain F (t + tot p * F) q.
Proof.
  revert t; induction p as [|s p IH]; intros t; cbn [app chain tot].
  - replace (t + 0 * F) with t by ring. tauto.
  - rewrite IH. split.
    + intros (H1 & H2 & H3 & H4 & H5). repeat split; try assumption.
      replace (t + (s_cnt s + tot p) * F) with (s_end s + tot p * F) by (rewrite H3; ring). assumption.
    + intros ((H1 & H2 & H3 & H4) & H5). repeat split; try assumption.
      replace (s_end s + tot p * F) with (t + (s_cnt s + tot p) * F) by (rewrite H3; ring). assumption.
Qed.

Lemma nthZ_app_mid {A} (p : list A) x q : nthZ (lenZ p) (p ++ x :: q) = Some x.
Proof.
  induction p as [|y p IH]; cbn [app nthZ].
  - reflexivity.
  - rewrite lenZ_cons. pose proof (lenZ_nonneg p).
    replace (1 + lenZ p <? 0) with false by lia. replace (1 + lenZ p =? 0) with false by lia.
    replace (1 + lenZ p - 1) with (lenZ p) by lia. exact IH.
Qed.

Lemma seg_offset_app p x q : seg_offset (p ++ x :: q) (lenZ p) = tot p.
Proof.
  induction p as [|y p IH]; cbn [app seg_offset tot].
  - reflexivity.
  - rewrite lenZ_cons. pose proof (lenZ_nonneg p).
    replace (1 + lenZ p <=? 0) with false by lia.
    replace (1 + lenZ p - 1) with (lenZ p) by lia. now rewrite IH.
Qed.

(** ** ranges *)

Lemma seqZ_app s n m : seqZ s (n + m) = seqZ s n ++ seqZ (s + Z.of_nat n) m.
Proof.
  revert s; induction n as [|n IH]; intros s; cbn [seqZ Nat.add app].
  - f_equal. lia.
  - f_equal. rewrite IH. f_equal. f_equal. lia.
Qed.

Lemma rangeZ_empty lo hi : hi <= lo -> rangeZ lo hi = [].
Proof. intros. unfold rangeZ. replace (Z.to_nat (hi - lo)) with O by lia. reflexivity. Qed.

Lemma rangeZ_split lo mid hi : lo <= mid <= hi -> rangeZ lo hi = rangeZ lo mid ++ rangeZ mid hi.
Proof.
  intros H. unfold rangeZ.
  replace (Z.to_nat (hi - lo)) with (Z.to_nat (mid - lo) + Z.to_nat (hi - mid))%nat by lia.
  rewrite seqZ_app. f_equal. f_equal. lia.
Qed.

Lemma map_seqZ_shift off s n : map (fun k => off + k) (seqZ s n) = seqZ (off + s) n.
Proof.
  revert s; induction n as [|n IH]; intros s; cbn [seqZ map]; [reflexivity|].
  f_equal. rewrite IH. f_equal. lia.
Qed.

Lemma map_rangeZ_shift off lo hi : map (fun k => off + k) (rangeZ lo hi) = rangeZ (off + lo) (off + hi).
Proof. unfold rangeZ. rewrite map_seqZ_shift. f_equal. lia. Qed.

Lemma map_clip_seqZ_below n s k : s + Z.of_nat k <= n -> map (clip n) (seqZ s k) = seqZ s k.
Proof.
  revert s; induction k as [|k IH]; intros s H; cbn [seqZ map]; [reflexivity|].
  f_equal; [unfold clip; lia|]. apply IH. lia.
Qed.

Lemma map_clip_below n lo hi : hi <= n -> map (clip n) (rangeZ lo hi) = rangeZ lo hi.
Proof.
  intros H. destruct (Z_le_gt_dec hi lo) as [L|G].
  - now rewrite rangeZ_empty.
  - unfold rangeZ. apply map_clip_seqZ_below. lia.
Qed.

Lemma map_clip_seqZ_above n s k : n - 1 <= s -> map (clip n) (seqZ s k) = repeat (n - 1) k.
Proof.
  revert s; induction k as [|k IH]; intros s H; cbn [seqZ map repeat]; [reflexivity|].
  f_equal; [unfold clip; lia|]. apply IH. lia.
Qed.

Lemma map_clip_above n lo hi : n <= lo -> map (clip n) (rangeZ lo hi) = repeatZ (n - 1) (hi - lo).
Proof. intros H. unfold rangeZ, repeatZ. apply map_clip_seqZ_above. lia. Qed.

Lemma lenZ_rangeZ lo hi : lo <= hi -> lenZ (rangeZ lo hi) = hi - lo.
Proof.
  intros. unfold rangeZ, lenZ.
  assert (L : forall s n, length (seqZ s n) = n) by (intros s n; revert s; induction n; intros; cbn; auto).
  rewrite L. lia.
Qed.

(** ** expansion *)

Lemma expand_app segs x y :
  expand segs (x ++ y) = (do a <- expand segs x; do b <- expand segs y; Ok (a ++ b)).
Proof.
  induction x as [|it x IH]; cbn [app expand].
  - destruct (expand segs y); reflexivity.
  - destruct (expand1 segs it) as [a| |]; cbn [bind]; [|reflexivity|reflexivity].
    rewrite IH. destruct (expand segs x) as [b| |]; cbn [bind]; [|reflexivity|reflexivity].
    destruct (expand segs y) as [c| |]; cbn [bind]; [|reflexivity|reflexivity].
    now rewrite app_assoc.
Qed.

Lemma expand_one segs it : expand segs [it] = (do a <- expand1 segs it; Ok a).
Proof. cbn [expand]. destruct (expand1 segs it); cbn [bind]; [now rewrite app_nil_r|reflexivity|reflexivity]. Qed.

(** one interval of the segment at position [lenZ pre], whose first frame has global index [tot pre] *)
Lemma expand1_at pre s rest k e fl :
  0 <= k -> k <= e -> e <= s_cnt s -> 0 < s_cnt s -> 0 <= fl ->
  expand1 (pre ++ s :: rest) {| i_seg := lenZ pre; i_start := k; i_end := e; i_fill := fl |} =
  Ok (rangeZ (tot pre + k) (tot pre + e) ++ repeatZ (tot pre + s_cnt s - 1) fl).
Proof.
  intros Hk Hke He Hc Hfl. unfold expand1, index. cbn [i_seg i_start i_end i_fill].
  rewrite nthZ_app_mid, seg_offset_app. cbn [bind].
  replace ((k >? e) || (e >? s_cnt s)) with false by lia.
  rewrite map_rangeZ_shift.
  destruct (fl >? 0) eqn:C.
  - replace (s_cnt s <=? 0) with false by lia. reflexivity.
  - replace fl with 0 by lia. unfold repeatZ. cbn [Z.to_nat repeat]. now rewrite app_nil_r.
Qed.

Lemma u64_add_idem x y : u64 (u64 x + y) = u64 (x + y).
Proof. unfold u64. apply Zplus_mod_idemp_l. Qed.

Lemma div_frames F x y : 0 < F -> (x * F - y * F) / F = x - y.
Proof. intros. replace (x * F - y * F) with ((x - y) * F) by ring. apply Z.div_mul. lia. Qed.

(** * createAudioSeg: the loop over the VoD segments *)

Section Loop.
Variable F : Z.
Hypothesis HF : 0 < F.
Hypothesis HF32 : F < two32.

Lemma last_end_any it tl cnt :
  i_start it = 0 -> 0 <= cnt < two32 ->
  set_last_end_rel (it :: tl) cnt
  = Ok ({| i_seg := i_seg it; i_start := 0; i_end := cnt; i_fill := i_fill it |} :: tl).
Proof.
  intros H0 Hc. cbn [set_last_end_rel]. rewrite H0.
  rewrite Z.add_0_l, u32_small by lia. reflexivity.
Qed.

(** Phase 2: a first interval has been collected, the segment at the head starts at [next]
    (frame [off]), its interval [(i, 0, _, _)] is pending at the head of the accumulator.
    The remaining frames [[off, bF)] are collected, padded with the last frame of the table. *)
Lemma seg_loop_collect all A bF :
  chain F 0 all -> tot all < two32 -> 0 <= bF < two32 ->
  forall segs pre tc acc,
    all = pre ++ segs -> segs <> [] ->
    A < tot pre * F -> tot pre < bF ->
    exists its,
      seg_loop F A (bF * F) (lenZ all - 1) segs (lenZ pre) (tot pre * F) tc (mk_itvl (lenZ pre) 0 :: acc)
      = Ok (u64 (tc + (bF * F - tot pre * F)), its ++ acc)
      /\ expand all (rev its) = Ok (map (clip (tot all)) (rangeZ (tot pre) bF)).
Proof.
  intros Hall HN HbF segs.
  induction segs as [|s rest IH]; intros pre tc acc Eall Hne HA Hlt; [congruence|].
  assert (Hch := Hall). rewrite Eall in Hch. apply chain_app in Hch. destruct Hch as [Hpre Hs].
  replace (0 + tot pre * F) with (tot pre * F) in Hs by ring.
  pose proof (chain_tot_nonneg _ _ _ Hpre) as Hoff.
  assert (Htot : tot all = tot pre + s_cnt s + tot rest) by (rewrite Eall, tot_app; cbn [tot]; lia).
  assert (Hlen : lenZ all = lenZ pre + 1 + lenZ rest) by (rewrite Eall, lenZ_app, lenZ_cons; lia).
  cbn [chain] in Hs. destruct Hs as (Hst & Hcnt & Hen & Hrest).
  pose proof (chain_tot_nonneg _ _ _ Hrest) as Hrn.
  set (off := tot pre) in *. set (cnt := s_cnt s) in *.
  assert (Een : s_end s = (off + cnt) * F) by (rewrite Hen; ring).
  cbn [seg_loop]. rewrite Hst, Een.
  replace ((off + cnt) * F <=? A) with false by nia.
  cbn [is_nil]. rewrite andb_false_r.
  assert (Ecnt : u32 (u64 ((off + cnt) * F - off * F) / F) = cnt).
  { rewrite u64_small by (unfold two32, two64 in *; nia).
    rewrite div_frames by lia. rewrite u32_small by lia. ring. }
  assert (Edur : forall fl, itvl_dur F {| i_seg := lenZ pre; i_start := 0; i_end := cnt; i_fill := fl |} = cnt * F).
  { intros. unfold itvl_dur. cbn [i_start i_end]. rewrite Z.sub_0_r, u32_small by lia.
    apply u64_small. unfold two32, two64 in *; nia. }
  destruct (bF * F >=? (off + cnt) * F) eqn:Cge.
  - assert (Hge : off + cnt <= bF) by nia.
    cbn [set_last_end mk_itvl i_seg i_start i_fill bind last_dur]. rewrite Ecnt, Edur.
    destruct ((off + cnt) * F =? bF * F) eqn:Ceq.
    + (* the interval ends with this segment *)
      assert (bF = off + cnt) by nia. subst bF.
      exists [{| i_seg := lenZ pre; i_start := 0; i_end := cnt; i_fill := 0 |}]. split.
      * cbn [app]. f_equal. f_equal. f_equal. ring.
      * cbn [rev app]. rewrite expand_one, Eall, expand1_at by (fold cnt; lia). cbn [bind].
        fold off cnt. unfold repeatZ; cbn [Z.to_nat repeat]. rewrite app_nil_r.
        rewrite <- Eall, map_clip_below by lia. f_equal. f_equal; ring.
    + assert (Hgt : off + cnt < bF) by nia.
      destruct (lenZ pre <? lenZ all - 1) eqn:Clast.
      * (* more segments follow *)
        assert (Hrne : rest <> []) by (intro; subst rest; rewrite lenZ_nil in Hlen; lia).
        specialize (IH (pre ++ [s]) (u64 (tc + cnt * F))
                       ({| i_seg := lenZ pre; i_start := 0; i_end := cnt; i_fill := 0 |} :: acc)).
        rewrite lenZ_app, lenZ_cons, lenZ_nil, tot_app in IH. cbn [tot] in IH. fold off cnt in IH.
        replace (lenZ pre + (1 + 0)) with (lenZ pre + 1) in IH by ring.
        replace ((off + (cnt + 0)) * F) with ((off + cnt) * F) in IH by ring.
        replace (off + (cnt + 0)) with (off + cnt) in IH by ring.
        destruct IH as (its & E1 & E2); [now rewrite <- app_assoc|assumption|nia|lia|].
        exists (its ++ [{| i_seg := lenZ pre; i_start := 0; i_end := cnt; i_fill := 0 |}]). split.
        -- unfold mk_itvl in E1 |- *. rewrite E1, <- app_assoc. cbn [app].
           f_equal. f_equal. rewrite u64_add_idem. f_equal. ring.
        -- rewrite rev_app_distr. cbn [rev app].
           change ({| i_seg := lenZ pre; i_start := 0; i_end := cnt; i_fill := 0 |} :: rev its)
             with ([{| i_seg := lenZ pre; i_start := 0; i_end := cnt; i_fill := 0 |}] ++ rev its).
           rewrite expand_app, expand_one, E2.
           rewrite Eall at 1. rewrite expand1_at by (fold cnt; lia). cbn [bind]. fold off cnt.
           unfold repeatZ; cbn [Z.to_nat repeat]. rewrite app_nil_r.
           f_equal. rewrite (rangeZ_split off (off + cnt) bF) by lia. rewrite map_app.
           rewrite (map_clip_below (tot all) off (off + cnt)) by lia. f_equal. f_equal; ring.
      * (* last segment of the table: pad with its last frame *)
        assert (rest = []) by (apply lenZ_zero_nil; pose proof (lenZ_nonneg rest); lia). subst rest.
        cbn [tot] in Htot.
        assert (Efill : u64 (bF * F - (off + cnt) * F) = (bF - (off + cnt)) * F).
        { rewrite u64_small by (unfold two32, two64 in *; nia). ring. }
        rewrite Efill. cbn [set_last_fill i_seg i_start i_end bind].
        rewrite Z.div_mul by lia. rewrite u32_small by lia.
        exists [{| i_seg := lenZ pre; i_start := 0; i_end := cnt; i_fill := bF - (off + cnt) |}]. split.
        -- cbn [app]. f_equal. f_equal. rewrite u64_add_idem. f_equal. ring.
        -- cbn [rev app]. rewrite expand_one, Eall, expand1_at by (fold cnt; lia). cbn [bind].
           fold off cnt. rewrite <- Eall.
           rewrite (rangeZ_split off (off + cnt) bF) by lia. rewrite map_app.
           rewrite map_clip_below by lia. rewrite map_clip_above by lia.
           f_equal. f_equal; [f_equal; ring|]. f_equal; lia.
  - (* the interval ends inside this segment *)
    assert (Hlt2 : bF < off + cnt) by nia.
    assert (Ee : u32 (u64 (bF * F - off * F) / F) = bF - off).
    { rewrite u64_small by (unfold two32, two64 in *; nia).
      rewrite div_frames by lia. apply u32_small. lia. }
    rewrite Ee. unfold mk_itvl. rewrite last_end_any by (cbn [i_start]; lia).
    cbn [i_seg i_start i_fill bind last_dur].
    exists [{| i_seg := lenZ pre; i_start := 0; i_end := bF - off; i_fill := 0 |}]. split.
    + cbn [app]. f_equal. f_equal. unfold itvl_dur. cbn [i_start i_end].
      rewrite Z.sub_0_r, u32_small by lia.
      rewrite (u64_small ((bF - off) * F)) by (unfold two32, two64 in *; nia). f_equal. ring.
    + cbn [rev app]. rewrite expand_one, Eall, expand1_at by (fold cnt; lia). cbn [bind].
      fold off. unfold repeatZ; cbn [Z.to_nat repeat]. rewrite app_nil_r.
      rewrite <- Eall, map_clip_below by lia. f_equal. f_equal; ring.
Qed.

(** Phase 1: nothing collected yet; segments that end at or before [A] are skipped, the first
    interval starts in the segment that contains [A]. *)
Lemma seg_loop_first all aF bF :
  chain F 0 all -> tot all < two32 -> 0 <= aF -> aF <= bF -> bF < two32 ->
  forall segs pre,
    all = pre ++ segs ->
    tot pre <= aF -> aF < tot pre + tot segs ->
    exists its,
      seg_loop F (aF * F) (bF * F) (lenZ all - 1) segs (lenZ pre) (aF * F) 0 []
      = Ok (u64 (bF * F - aF * F), its)
      /\ its <> []
      /\ expand all (rev its) = Ok (map (clip (tot all)) (rangeZ aF bF)).
Proof.
  intros Hall HN HaF Hab HbF segs.
  induction segs as [|s rest IH]; intros pre Eall Hle Hlt; [cbn [tot] in Hlt; lia|].
  assert (Hch := Hall). rewrite Eall in Hch. apply chain_app in Hch. destruct Hch as [Hpre Hs].
  replace (0 + tot pre * F) with (tot pre * F) in Hs by ring.
  pose proof (chain_tot_nonneg _ _ _ Hpre) as Hoff.
  assert (Htot : tot all = tot pre + s_cnt s + tot rest) by (rewrite Eall, tot_app; cbn [tot]; lia).
  assert (Hlen : lenZ all = lenZ pre + 1 + lenZ rest) by (rewrite Eall, lenZ_app, lenZ_cons; lia).
  assert (Hin : In s all) by (rewrite Eall; apply in_or_app; right; left; reflexivity).
  cbn [chain] in Hs. destruct Hs as (Hst & Hcnt & Hen & Hrest).
  pose proof (chain_tot_nonneg _ _ _ Hrest) as Hrn.
  cbn [tot] in Hlt.
  set (off := tot pre) in *. set (cnt := s_cnt s) in *.
  assert (Een : s_end s = (off + cnt) * F) by (rewrite Hen; ring).
  cbn [seg_loop]. rewrite Hst, Een.
  destruct ((off + cnt) * F <=? aF * F) eqn:Cskip.
  - (* the segment ends at or before A: skipped *)
    assert (off + cnt <= aF) by nia.
    specialize (IH (pre ++ [s])).
    rewrite lenZ_app, lenZ_cons, lenZ_nil, tot_app in IH. cbn [tot] in IH. fold off cnt in IH.
    replace (lenZ pre + (1 + 0)) with (lenZ pre + 1) in IH by ring.
    apply IH; [now rewrite <- app_assoc|lia|lia].
  - assert (Hin_s : aF < off + cnt) by nia.
    replace (aF * F <? (off + cnt) * F) with true by nia. cbn [is_nil andb].
    assert (Ek : u32 (u64 (aF * F - off * F) / F) = aF - off).
    { rewrite u64_small by (unfold two32, two64 in *; nia).
      rewrite div_frames by lia. apply u32_small. lia. }
    rewrite Ek.
    assert (Ecnt : u32 (u64 ((off + cnt) * F - off * F) / F) = cnt).
    { rewrite u64_small by (unfold two32, two64 in *; nia).
      rewrite div_frames by lia. rewrite u32_small by lia. ring. }
    destruct (bF * F >=? (off + cnt) * F) eqn:Cge.
    + assert (Hge : off + cnt <= bF) by nia.
      cbn [set_last_end mk_itvl i_seg i_start i_fill bind last_dur]. rewrite Ecnt.
      assert (Edur : forall fl, itvl_dur F {| i_seg := lenZ pre; i_start := aF - off; i_end := cnt; i_fill := fl |}
                                = (off + cnt - aF) * F).
      { intros. unfold itvl_dur. cbn [i_start i_end]. rewrite u32_small by lia.
        rewrite u64_small by (unfold two32, two64 in *; nia). f_equal. ring. }
      rewrite Edur.
      destruct ((off + cnt) * F =? bF * F) eqn:Ceq.
      * assert (bF = off + cnt) by nia. subst bF.
        exists [{| i_seg := lenZ pre; i_start := aF - off; i_end := cnt; i_fill := 0 |}]. split; [|split].
        -- f_equal. f_equal. f_equal. ring.
        -- discriminate.
        -- cbn [rev app]. rewrite expand_one, Eall, expand1_at by (fold cnt; lia). cbn [bind].
           fold off cnt. unfold repeatZ; cbn [Z.to_nat repeat]. rewrite app_nil_r.
           rewrite <- Eall, map_clip_below by lia. f_equal. f_equal; ring.
      * assert (Hgt : off + cnt < bF) by nia.
        destruct (lenZ pre <? lenZ all - 1) eqn:Clast.
        -- assert (Hrne : rest <> []) by (intro; subst rest; rewrite lenZ_nil in Hlen; lia).
           pose proof (seg_loop_collect all (aF * F) bF Hall HN ltac:(lia) rest (pre ++ [s])
                         (u64 (0 + (off + cnt - aF) * F))
                         [{| i_seg := lenZ pre; i_start := aF - off; i_end := cnt; i_fill := 0 |}]) as P.
           rewrite lenZ_app, lenZ_cons, lenZ_nil, tot_app in P. cbn [tot] in P. fold off cnt in P.
           replace (lenZ pre + (1 + 0)) with (lenZ pre + 1) in P by ring.
           replace ((off + (cnt + 0)) * F) with ((off + cnt) * F) in P by ring.
           replace (off + (cnt + 0)) with (off + cnt) in P by ring.
           destruct P as (its & E1 & E2); [now rewrite <- app_assoc|assumption|nia|lia|].
           exists (its ++ [{| i_seg := lenZ pre; i_start := aF - off; i_end := cnt; i_fill := 0 |}]).
           split; [|split].
           ++ unfold mk_itvl in E1 |- *. rewrite E1. f_equal. f_equal.
              rewrite u64_add_idem. f_equal. ring.
           ++ destruct its; discriminate.
           ++ rewrite rev_app_distr. cbn [rev app].
              change ({| i_seg := lenZ pre; i_start := aF - off; i_end := cnt; i_fill := 0 |} :: rev its)
                with ([{| i_seg := lenZ pre; i_start := aF - off; i_end := cnt; i_fill := 0 |}] ++ rev its).
              rewrite expand_app, expand_one, E2.
              rewrite Eall at 1. rewrite expand1_at by (fold cnt; lia). cbn [bind]. fold off cnt.
              unfold repeatZ; cbn [Z.to_nat repeat]. rewrite app_nil_r.
              f_equal. rewrite (rangeZ_split aF (off + cnt) bF) by lia. rewrite map_app.
              rewrite (map_clip_below (tot all) aF (off + cnt)) by lia. f_equal. f_equal; ring.
        -- assert (rest = []) by (apply lenZ_zero_nil; pose proof (lenZ_nonneg rest); lia). subst rest.
           cbn [tot] in Htot.
           assert (Efill : u64 (bF * F - (off + cnt) * F) = (bF - (off + cnt)) * F).
           { rewrite u64_small by (unfold two32, two64 in *; nia). ring. }
           rewrite Efill. cbn [set_last_fill i_seg i_start i_end bind].
           rewrite Z.div_mul by lia. rewrite u32_small by lia.
           exists [{| i_seg := lenZ pre; i_start := aF - off; i_end := cnt; i_fill := bF - (off + cnt) |}].
           split; [|split].
           ++ f_equal. f_equal. rewrite u64_add_idem. f_equal. ring.
           ++ discriminate.
           ++ cbn [rev app]. rewrite expand_one, Eall, expand1_at by (fold cnt; lia). cbn [bind].
              fold off cnt. rewrite <- Eall.
              rewrite (rangeZ_split aF (off + cnt) bF) by lia. rewrite map_app.
              rewrite (map_clip_below (tot all) aF (off + cnt)) by lia. rewrite map_clip_above by lia.
              f_equal. f_equal; [f_equal; ring|]. f_equal; lia.
    + (* the interval ends inside the segment it starts in *)
      assert (Hlt2 : bF < off + cnt) by nia.
      assert (Ee : u32 (u64 (bF * F - aF * F) / F) = bF - aF).
      { rewrite u64_small by (unfold two32, two64 in *; nia).
        rewrite div_frames by lia. apply u32_small. lia. }
      rewrite Ee.
      assert (Eacc : set_last_end_rel [mk_itvl (lenZ pre) (aF - off)] (bF - aF)
                     = Ok [{| i_seg := lenZ pre; i_start := aF - off; i_end := bF - off; i_fill := 0 |}]).
      { (* endIdx = startIdx + count *)
        cbn [set_last_end_rel mk_itvl i_seg i_start i_fill].
        replace (aF - off + (bF - aF)) with (bF - off) by ring. rewrite u32_small by lia. reflexivity. }
      rewrite Eacc. cbn [bind last_dur].
      exists [{| i_seg := lenZ pre; i_start := aF - off; i_end := bF - off; i_fill := 0 |}]. split; [|split].
      * f_equal. f_equal. unfold itvl_dur. cbn [i_start i_end].
        replace (bF - off - (aF - off)) with (bF - aF) by ring. rewrite u32_small by lia.
        rewrite (u64_small ((bF - aF) * F)) by (unfold two32, two64 in *; nia).
        rewrite Z.add_0_l. f_equal. ring.
      * discriminate.
      * cbn [rev app]. rewrite expand_one, Eall, expand1_at by (fold cnt; lia). cbn [bind].
        fold off. unfold repeatZ; cbn [Z.to_nat repeat]. rewrite app_nil_r.
        rewrite <- Eall, map_clip_below by lia. f_equal. f_equal; ring.
Qed.

Lemma chain_bounds t l x : chain F t l -> In x l -> t <= s_start x /\ s_end x <= t + tot l * F /\ s_start x < s_end x.
Proof.
  revert t; induction l as [|y l IH]; intros t Hc Hin; [destruct Hin|].
  cbn [chain tot] in *. destruct Hc as (H1 & H2 & H3 & H4).
  pose proof (chain_tot_nonneg _ _ _ H4). destruct Hin as [->|Hin].
  - nia.
  - specialize (IH _ H4 Hin). nia.
Qed.

Lemma chain_last t l d : chain F t l -> l <> [] -> s_end (last l d) = t + tot l * F.
Proof.
  revert t; induction l as [|y l IH]; intros t Hc Hne; [congruence|].
  cbn [chain tot] in *. destruct Hc as (H1 & H2 & H3 & H4).
  destruct l as [|z l].
  - cbn [last tot]. lia.
  - change (last (y :: z :: l) d) with (last (z :: l) d). rewrite (IH _ H4) by discriminate.
    cbn [tot]. lia.
Qed.

(** ** the interval computation and the produced segment *)

Lemma start_search_zero segs A :
  awf F segs -> tot segs * F < two63 -> 0 <= A < tot segs * F -> start_search segs A = Ok 0.
Proof.
  intros [Hne Hc] HL HA. unfold start_search, rep_duration.
  destruct segs as [|s0 rest]; [congruence|].
  rewrite (chain_last 0 (s0 :: rest) s0 Hc Hne).
  assert (Hs0 : s_start s0 = 0) by (cbn [chain] in Hc; tauto). rewrite Hs0.
  rewrite Z.add_0_l, Z.sub_0_r.
  rewrite (u64_small (tot (s0 :: rest) * F)) by (unfold two63, two64 in *; lia).
  rewrite !i64_small by lia.
  unfold go_div. replace (tot (s0 :: rest) * F =? 0) with false by lia. cbn [bind].
  rewrite Z.quot_small by lia.
  rewrite lenZ_cons. pose proof (lenZ_nonneg rest).
  replace ((0 <? 0) || (0 >=? 1 + lenZ rest)) with false by lia.
  cbn [takeZ]. replace (0 + 1 <=? 0) with false by lia.
  rewrite takeZ_nonpos by lia. cbn [rev app search_down]. rewrite Hs0.
  replace (0 >? A) with false by lia. reflexivity.
Qed.

(** The served segment for a recipe without after-wrap part whose input interval is [[aF*F, bF*F)]. *)
Lemma create_audio_seg_ok segs rc aF bF :
  awf F segs -> tot segs < two32 -> tot segs * F < two63 ->
  0 <= aF -> aF <= bF -> bF < two32 -> aF < tot segs ->
  r_inStart rc = aF * F -> r_inEnd rc = bF * F -> r_after rc = 0 ->
  r_end rc - r_start rc = bF * F - aF * F ->
  create_audio_seg F segs rc =
  Ok {| o_tfdt := r_start rc; o_seq := r_nr rc; o_frames := map (clip (tot segs)) (rangeZ aF bF) |}.
Proof.
  intros Hwf HN HL HaF Hab HbF Hreach EA EB Eafter Edur.
  unfold create_audio_seg, intervals. replace (F =? 0) with false by lia.
  rewrite EA, EB, Eafter, Edur.
  rewrite (start_search_zero segs (aF * F) Hwf HL) by nia. cbn [bind]. rewrite dropZ_0.
  destruct Hwf as [Hne Hc].
  destruct (seg_loop_first segs aF bF Hc HN HaF Hab HbF segs [] eq_refl) as (its & E1 & E2 & E3);
    [cbn [tot]; lia|cbn [tot]; lia|].
  change (lenZ (@nil seg)) with 0 in E1. rewrite E1. cbn [bind].
  rewrite Z.sub_diag. change (u64 0) with 0. cbn [Z.eqb negb Z.gtb Z.compare].
  cbn [bind]. rewrite E3. cbn [bind].
  destruct (rev its) eqn:R; [|reflexivity].
  exfalso. apply E2. apply (f_equal (@rev itvl)) in R. now rewrite rev_involutive in R.
Qed.

End Loop.

(** * The served audio segment for a reference segment inside one loop *)

Lemma map_clip_shift n k x y :
  map (clip n) (rangeZ (x - k) (y - k)) = map (fun g => Z.min (g - k) (n - 1)) (rangeZ x y).
Proof.
  replace (x - k) with (- k + x) by ring. replace (y - k) with (- k + y) by ring.
  rewrite <- map_rangeZ_shift, map_map. apply map_ext. intros g. unfold clip. f_equal. ring.
Qed.

Section Served.
Variables r F a : Z.
Hypothesis Hr : 0 < r.
Hypothesis HF : 0 < F.
Hypothesis HF32 : F < two32.
Hypothesis Ha : 0 < a.
Notation f := (fb r F a).
Notation c := (fidx r F a).

(** hypotheses shared by the two theorems: audio table, reference segment [[w*D+s', w*D+e')] inside
    loop [w] of a reference loop of duration [D], ranges of the Go types *)
Record served_pre (segs : list seg) (D w s' e' : Z) : Prop := {
  sp_wf : awf F segs;
  sp_n32 : tot segs < two32;
  sp_l63 : tot segs * F < two63;
  sp_D : 0 < D;
  sp_w : 0 <= w;
  sp_s : 0 <= s';
  sp_se : s' <= e';
  sp_e : e' <= D;
  sp_sD : s' < D;
  sp_range : (w * D + D) * a + 2 * F * r < two64;
  (* the audio table reaches the start of the output segment *)
  sp_reach : c (w * D + s') - c (w * D) < tot segs;
  sp_b32 : c (w * D + e') - c (w * D) < two32
}.

(** the input interval of the output segment, in media time of the VoD audio *)
Definition in_start (D w s' : Z) : Z := f (w * D + s') - f (w * D).
Definition in_end (D w e' : Z) : Z := f (w * D + e') - f (w * D).
Lemma served_frames nr segs D w s' e' :
  served_pre segs D w s' e' ->
  audio_segment nr (w * D + s') (w * D + e') D r F a segs =
  Ok {| o_tfdt := f (w * D + s'); o_seq := nr;
        o_frames := map (fun g => Z.min (g - c (w * D)) (tot segs - 1))
                        (rangeZ (c (w * D + s')) (c (w * D + e'))) |}.
Proof.
  intros []. unfold audio_segment.
  rewrite (recipe_in_wrap r F a Hr HF Ha nr D w s' e') by assumption. cbn [bind].
  assert (HwD : 0 <= w * D) by nia.
  pose proof (fidx_mono r F a Hr HF Ha (w * D) (w * D + s') ltac:(lia)).
  pose proof (fidx_mono r F a Hr HF Ha (w * D + s') (w * D + e') ltac:(lia)).
  rewrite (create_audio_seg_ok F HF HF32 segs _ (c (w * D + s') - c (w * D)) (c (w * D + e') - c (w * D)));
    cbn [r_start r_end r_nr r_inStart r_inEnd r_after]; try assumption; try lia; try (unfold fb; ring).
  now rewrite map_clip_shift.
Qed.

End Served.

(** * The audio SegmentTimeline derived from the reference timeline *)

(** expansion of [<S t d r>] elements to (start, duration) pairs; an element without [t] continues
    at the running time *)
Fixpoint rep_entries (t d : Z) (n : nat) : list (Z * Z) :=
  match n with O => [] | S k => (t, d) :: rep_entries (t + d) d k end.

Definition entry_start (t : Z) (s : sentry) : Z := match e_t s with Some x => x | None => t end.
Definition entry_end (t : Z) (s : sentry) : Z := entry_start t s + (e_r s + 1) * e_d s.

Fixpoint expand_s (t : Z) (l : list sentry) : list (Z * Z) :=
  match l with
  | [] => []
  | s :: rest => rep_entries (entry_start t s) (e_d s) (Z.to_nat (e_r s + 1)) ++ expand_s (entry_end t s) rest
  end.

Fixpoint end_s (t : Z) (l : list sentry) : Z :=
  match l with [] => t | s :: rest => end_s (entry_end t s) rest end.

(** the reference side: entries (d, r) from [t] on *)
Fixpoint expand_ref (t : Z) (l : list (Z * Z)) : list (Z * Z) :=
  match l with
  | [] => []
  | (d, rr) :: rest => rep_entries t d (Z.to_nat (rr + 1)) ++ expand_ref (t + Z.of_nat (Z.to_nat (rr + 1)) * d) rest
  end.

Fixpoint end_ref (t : Z) (l : list (Z * Z)) : Z :=
  match l with [] => t | (d, rr) :: rest => end_ref (t + Z.of_nat (Z.to_nat (rr + 1)) * d) rest end.

Lemma expand_s_app t l1 l2 : expand_s t (l1 ++ l2) = expand_s t l1 ++ expand_s (end_s t l1) l2.
Proof.
  revert t; induction l1 as [|s l1 IH]; intros t; cbn [app expand_s end_s]; [reflexivity|].
  now rewrite IH, app_assoc.
Qed.

Lemma end_s_app t l1 l2 : end_s t (l1 ++ l2) = end_s (end_s t l1) l2.
Proof. revert t; induction l1 as [|s l1 IH]; intros t; cbn [app end_s]; [reflexivity|apply IH]. Qed.

Lemma rep_entries_snoc t d n : rep_entries t d (S n) = rep_entries t d n ++ [(t + Z.of_nat n * d, d)].
Proof.
  revert t; induction n as [|n IH]; intros t.
  - cbn [rep_entries app]. f_equal. f_equal. lia.
  - change (rep_entries t d (S (S n))) with ((t, d) :: rep_entries (t + d) d (S n)).
    rewrite IH. cbn [rep_entries app]. f_equal. f_equal. f_equal. f_equal. lia.
Qed.

Lemma end_ref_mono l : forall T1, Forall (fun e : Z * Z => 0 <= fst e) l -> T1 <= end_ref T1 l.
Proof.
  induction l as [|[d' r'] l IHl]; intros T1 Hl; cbn [end_ref]; [lia|].
  pose proof (Forall_inv Hl) as H1. pose proof (Forall_inv_tail Hl) as H2. cbn [fst] in H1.
  specialize (IHl (T1 + Z.of_nat (Z.to_nat (r' + 1)) * d') H2). nia.
Qed.

Section Timeline.
Variables r F a : Z.
Hypothesis Hr : 0 < r.
Hypothesis HF : 0 < F.
Hypothesis Ha : 0 < a.
Notation f := (fb r F a).

Definition image (p : Z * Z) : Z * Z := let '(t, d) := p in (f t, f (t + d) - f t).

(** state invariant of the two loops: the entries produced so far (reversed in [acc]) expand to the
    images [P] of the reference entries seen so far; [t] is the running audio time *)
Definition tl_inv (t : Z) (acc : list sentry) (P : list (Z * Z)) : Prop :=
  match acc with
  | [] => P = []
  | _ => expand_s 0 (rev acc) = P /\ end_s 0 (rev acc) = t /\ Forall (fun s => 0 <= e_r s) acc
  end.

Lemma tl_push t d acc P :
  tl_inv t acc P ->
  tl_inv (t + d)
    (match acc with
     | [] => [{| e_t := Some t; e_d := d; e_r := 0 |}]
     | s :: tl => if negb (e_d s =? d) then {| e_t := None; e_d := d; e_r := 0 |} :: acc
                  else {| e_t := e_t s; e_d := e_d s; e_r := e_r s + 1 |} :: tl
     end) (P ++ [(t, d)]).
Proof.
  unfold tl_inv. destruct acc as [|s tl].
  - intros ->. cbn [rev app expand_s end_s]. unfold entry_end, entry_start. cbn [e_t e_d e_r].
    change (Z.to_nat (0 + 1)) with 1%nat. cbn [rep_entries app]. repeat split; [lia|].
    repeat constructor. cbn [e_r]. lia.
  - intros (E1 & E2 & E3). destruct (negb (e_d s =? d)) eqn:C.
    + cbn [rev]. cbn [rev] in E1, E2.
      rewrite (expand_s_app 0 (rev tl ++ [s])), (end_s_app 0 (rev tl ++ [s])), E1, E2.
      cbn [expand_s end_s]. unfold entry_end, entry_start. cbn [e_t e_d e_r]. split; [|split].
      * change (Z.to_nat (0 + 1)) with 1%nat. cbn [rep_entries app]. reflexivity.
      * lia.
      * constructor; [cbn; lia|assumption].
    + assert (e_d s = d) by lia. subst d.
      pose proof (Forall_inv E3) as Hs. pose proof (Forall_inv_tail E3) as Htl. cbn beta in Hs.
      cbn [rev] in *.
      rewrite (expand_s_app 0 (rev tl)) in E1. rewrite (end_s_app 0 (rev tl)) in E2.
      rewrite (expand_s_app 0 (rev tl)), (end_s_app 0 (rev tl)).
      cbn [expand_s end_s] in *. rewrite app_nil_r in *.
      set (t0 := end_s 0 (rev tl)) in *.
      unfold entry_end, entry_start in *. cbn [e_t e_d e_r] in *.
      set (t1 := match e_t s with Some x => x | None => t0 end) in *.
      replace (Z.to_nat (e_r s + 1 + 1)) with (S (Z.to_nat (e_r s + 1))) by lia.
      rewrite rep_entries_snoc, app_assoc, E1. split; [|split].
      * f_equal. f_equal. f_equal. lia.
      * lia.
      * constructor; [cbn [e_r]; lia|assumption].
Qed.

Lemma tl_inner_ok n refD : forall T t acc P,
  0 <= refD -> 0 <= T -> (T + Z.of_nat n * refD) * a + F * r < two64 ->
  t = f T -> tl_inv t acc P ->
  exists acc',
    tl_inner n refD r F a (T, t, acc) = Ok (T + Z.of_nat n * refD, f (T + Z.of_nat n * refD), acc')
    /\ tl_inv (f (T + Z.of_nat n * refD)) acc' (P ++ map image (rep_entries T refD n)).
Proof.
  induction n as [|n IH]; intros T t acc P Hd HT Hrange Et Hinv.
  - cbn [tl_inner rep_entries map Z.of_nat]. rewrite app_nil_r. replace (T + 0 * refD) with T by ring.
    subst t. eauto.
  - cbn [tl_inner].
    assert (Hstep : 0 <= T + refD <= T + Z.of_nat (S n) * refD) by nia.
    assert (HX : (T + refD) * a + F * r < two64) by nia.
    rewrite (u64_small (T + refD)) by (unfold two64 in *; nia).
    rewrite (calc_is_fb r F a Hr HF Ha (T + refD)) by lia. cbn [bind].
    pose proof (fb_mono r F a Hr HF Ha T (T + refD) ltac:(lia)) as M.
    pose proof (fb_nonneg r F a Hr HF Ha T HT) as N0.
    pose proof (fb_le_bound r F a Hr HF Ha (T + refD) ltac:(lia)) as B1.
    subst t. rewrite (u64_small (f (T + refD) - f T)) by lia.
    pose proof (tl_push (f T) (f (T + refD) - f T) acc P Hinv) as Hp.
    replace (f T + (f (T + refD) - f T)) with (f (T + refD)) in Hp by ring.
    destruct (IH (T + refD) (f (T + refD)) _ _ Hd ltac:(lia) ltac:(nia) eq_refl Hp) as (acc' & E1 & E2).
    exists acc'. replace (T + Z.of_nat (S n) * refD) with (T + refD + Z.of_nat n * refD) by lia.
    split; [exact E1|]. cbn [rep_entries map image]. rewrite <- app_assoc in E2. exact E2.
Qed.

Lemma tl_outer_ok entries : forall T t acc P,
  Forall (fun e => 0 <= fst e) entries -> 0 <= T -> end_ref T entries * a + F * r < two64 ->
  t = f T -> tl_inv t acc P ->
  exists acc',
    tl_outer entries r F a (T, t, acc) = Ok (end_ref T entries, f (end_ref T entries), acc')
    /\ tl_inv (f (end_ref T entries)) acc' (P ++ map image (expand_ref T entries)).
Proof.
  induction entries as [|[d rr] rest IH]; intros T t acc P Hd HT Hrange Et Hinv.
  - cbn [tl_outer expand_ref end_ref map]. rewrite app_nil_r. subst t. eauto.
  - cbn [tl_outer expand_ref end_ref] in *. pose proof (Forall_inv Hd) as Hd1. pose proof (Forall_inv_tail Hd) as Hd2.
    cbn [fst] in Hd1. subst t.
    set (n := Z.to_nat (rr + 1)) in *.
    pose proof (end_ref_mono rest (T + Z.of_nat n * d) Hd2) as Hm.
    destruct (tl_inner_ok n d T (f T) acc P Hd1 HT ltac:(nia) eq_refl Hinv) as (acc1 & E1 & E2).
    rewrite E1. cbn [bind].
    destruct (IH (T + Z.of_nat n * d) (f (T + Z.of_nat n * d)) acc1 _ Hd2 ltac:(nia) Hrange eq_refl E2) as (acc2 & E3 & E4).
    exists acc2. split; [exact E3|]. rewrite map_app, app_assoc. exact E4.
Qed.

(** [generateTimelineEntriesFromRef]: the produced [<S>] elements expand to exactly the frame-aligned
    images of the reference entries: start [f T_k], duration [f T_(k+1) - f T_k]. *)
Lemma audio_timeline_ok startNr refT entries :
  0 <= startNr -> entries <> [] -> Forall (fun e => 0 <= fst e) entries -> 0 <= refT ->
  end_ref refT entries * a + F * r < two64 ->
  exists l, audio_timeline startNr refT entries r F a = Ok l
            /\ expand_s 0 l = map image (expand_ref refT entries).
Proof.
  intros Hs Hne Hd HT Hrange. unfold audio_timeline.
  replace (startNr <? 0) with false by lia.
  destruct entries as [|e0 rest] eqn:Ee; [congruence|]. cbn [is_nil]. rewrite <- Ee in *.
  pose proof (end_ref_mono entries refT Hd).
  rewrite (calc_is_fb r F a Hr HF Ha refT) by nia. cbn [bind].
  destruct (tl_outer_ok entries refT (f refT) [] [] Hd HT Hrange eq_refl eq_refl) as (acc & E1 & E2).
  rewrite E1. cbn [bind]. exists (rev acc). split; [reflexivity|].
  cbn [app] in E2. unfold tl_inv in E2. destruct acc as [|s tl].
  - cbn [rev expand_s]. now rewrite E2.
  - tauto.
Qed.

End Timeline.

(** * The reference is a well-formed looped video representation (C01: [Timeline.S], [Timeline.E]) *)

From Verif Require Timeline TimelineProofs.

Section Reference.
Variables r F a : Z.
Hypothesis Hr : 0 < r.
Hypothesis HF : 0 < F.
Hypothesis HF32 : F < two32.
Hypothesis Ha : 0 < a.
Variable vr : Timeline.rep.
Variable loopMS : Z.
Hypothesis W : Timeline.wf vr loopMS.
Notation f := (fb r F a).
Notation c := (fidx r F a).
Notation Sv := (Timeline.S vr).
Notation Ev := (Timeline.E vr).
Notation Dv := (Timeline.repDuration vr).
Notation Nv := (Timeline.nsegs vr).

(** start of the loop that contains reference segment [n] *)
Definition loop_start (n : Z) : Z := n / Nv * Dv.

(** ranges and reach for reference segment [n] *)
Record ref_pre (segs : list seg) (n : Z) : Prop := {
  rp_n : 0 <= n;
  rp_wf : awf F segs;
  rp_n32 : tot segs < two32;
  rp_l63 : tot segs * F < two63;
  rp_range : (loop_start n + Dv) * a + 2 * F * r < two64;
  rp_reach : c (Sv n) - c (loop_start n) < tot segs;
  rp_b32 : c (Ev n) - c (loop_start n) < two32
}.

Lemma ref_decompose n : 0 <= n ->
  let w := n / Nv in let i := n mod Nv in
  let s' := Timeline.st (Timeline.segAt vr i) in let e' := Timeline.en (Timeline.segAt vr i) in
  Sv n = w * Dv + s' /\ Ev n = w * Dv + e' /\ 0 <= w /\ 0 <= s' /\ s' < e' /\ e' <= Dv /\ 0 < Dv.
Proof.
  intros Hn w i s' e'.
  pose proof (TimelineProofs.nsegs_pos vr loopMS W) as HN.
  assert (Hi : 0 <= i < Nv) by (apply Z.mod_pos_bound; lia).
  pose proof (TimelineProofs.st_nonneg vr loopMS W i Hi).
  pose proof (TimelineProofs.seg_pos vr loopMS W i Hi).
  pose proof (TimelineProofs.en_le_dur vr loopMS W i Hi).
  pose proof (TimelineProofs.repDuration_pos vr loopMS W).
  assert (0 <= w) by (apply Z.div_pos; lia).
  unfold Timeline.S, Timeline.E. fold w i s' e'. repeat split; lia.
Qed.

Lemma ref_served_pre segs n :
  ref_pre segs n ->
  served_pre r F a segs Dv (n / Nv) (Timeline.st (Timeline.segAt vr (n mod Nv)))
             (Timeline.en (Timeline.segAt vr (n mod Nv))).
Proof.
  intros []. destruct (ref_decompose n rp_n0) as (ES & EE & Hw & Hs & Hse & He & HD).
  unfold loop_start in *. rewrite ES in rp_reach0. rewrite EE in rp_b33.
  constructor; try assumption; lia.
Qed.

(** C03_frames: the served audio segment for reference segment [n]. *)
Lemma ref_served_frames nr segs n :
  ref_pre segs n ->
  audio_segment nr (Sv n) (Ev n) Dv r F a segs =
  Ok {| o_tfdt := f (Sv n); o_seq := nr;
        o_frames := map (fun g => Z.min (g - c (loop_start n)) (tot segs - 1))
                        (rangeZ (c (Sv n)) (c (Ev n))) |}.
Proof.
  intros P. pose proof (ref_served_pre segs n P) as SP.
  destruct (ref_decompose n (rp_n _ _ P)) as (ES & EE & _).
  unfold loop_start in *. rewrite ES, EE in *.
  apply served_frames; assumption.
Qed.

(** C03_abut: two consecutive segments are served, the first starts at the frame boundary
    of its reference start, holds [(end - start)/F] frames of duration [F], and the second starts
    exactly where the first ends -- also when [n+1] is the first segment of the next loop. *)
Lemma ref_abut nr1 nr2 segs n :
  ref_pre segs n -> ref_pre segs (n + 1) ->
  exists o1 o2,
  audio_segment nr1 (Sv n) (Ev n) Dv r F a segs = Ok o1 /\
  audio_segment nr2 (Sv (n + 1)) (Ev (n + 1)) Dv r F a segs = Ok o2 /\
  o_tfdt o1 = f (Sv n) /\
  lenZ (o_frames o1) = (f (Ev n) - f (Sv n)) / F /\
  (f (Ev n) - f (Sv n)) mod F = 0 /\
  o_tfdt o1 + lenZ (o_frames o1) * F = o_tfdt o2.
Proof.
  intros P1 P2.
  rewrite (ref_served_frames nr1 segs n P1), (ref_served_frames nr2 segs (n + 1) P2).
  eexists. eexists. split; [reflexivity|]. split; [reflexivity|].
  cbn [o_tfdt o_frames].
  pose proof (TimelineProofs.S_E_contiguous vr loopMS W n (rp_n _ _ P1)) as Hc.
  pose proof (TimelineProofs.S_lt_E vr loopMS W n (rp_n _ _ P1)) as Hlt.
  pose proof (fidx_mono r F a Hr HF Ha (Sv n) (Ev n) ltac:(lia)) as Hm.
  assert (HL : lenZ (map (fun g => Z.min (g - c (loop_start n)) (tot segs - 1)) (rangeZ (c (Sv n)) (c (Ev n))))
               = c (Ev n) - c (Sv n)).
  { unfold lenZ. rewrite map_length. fold (lenZ (rangeZ (c (Sv n)) (c (Ev n)))). now apply lenZ_rangeZ. }
  rewrite HL. unfold fb.
  replace (c (Ev n) * F - c (Sv n) * F) with ((c (Ev n) - c (Sv n)) * F) by ring.
  rewrite Z.div_mul, Z.mod_mul by lia. rewrite Hc. repeat split; ring.
Qed.

End Reference.

(** * The recipe in general: start and end are the frame boundaries of the reference segment *)

Lemma recipe_start_end r F a nr s e D :
  0 < r -> 0 < F -> 0 < a -> 0 < D -> 0 <= s -> s <= e -> e * a + F * r < two64 ->
  exists rc, calcAudioSegRecipe nr s e D r F a = Ok rc
             /\ r_nr rc = nr /\ r_start rc = fb r F a s /\ r_end rc = fb r F a e.
Proof.
  intros Hr HF Ha HD Hs Hse Hrange. unfold calcAudioSegRecipe.
  assert (Hb : forall t, 0 <= t <= e -> t * a + F * r < two64) by (intros; nia).
  rewrite (calc_is_fb r F a Hr HF Ha s) by (try apply Hb; lia).
  rewrite (calc_is_fb r F a Hr HF Ha e) by (try apply Hb; lia).
  cbn [bind]. replace (D =? 0) with false by lia.
  assert (Hsw : 0 <= s / D * D <= s) by (pose proof (Z.div_mod s D ltac:(lia)); pose proof (Z.mod_pos_bound s D HD);
    assert (0 <= s / D) by (apply Z.div_pos; lia); nia).
  assert (Hew : 0 <= e / D * D <= e) by (pose proof (Z.div_mod e D ltac:(lia)); pose proof (Z.mod_pos_bound e D HD);
    assert (0 <= e / D) by (apply Z.div_pos; lia); nia).
  assert (He64 : e < two64) by nia.
  rewrite (u64_small (s / D * D)) by lia. rewrite (u64_small (e / D * D)) by lia.
  rewrite (calc_is_fb r F a Hr HF Ha (s / D * D)) by (try apply Hb; lia).
  rewrite (calc_is_fb r F a Hr HF Ha (e / D * D)) by (try apply Hb; lia).
  cbn [bind].
  destruct (_ >? _); [destruct (_ <? _)|]; eexists; (split; [reflexivity|cbn; auto]).
Qed.

(** * Witnesses *)

(** four 2 s video segments at 90 kHz (testpic_2s/V300), loop 8 s *)
Definition w_video : Timeline.rep :=
  {| Timeline.segs := [ Timeline.Build_seg 0 180000 1; Timeline.Build_seg 180000 360000 2;
                        Timeline.Build_seg 360000 540000 3; Timeline.Build_seg 540000 720000 4 ];
     Timeline.ts := 90000 |}.

Lemma w_video_wf : Timeline.wf w_video 8000.
Proof.
  constructor; cbn.
  - discriminate.
  - repeat constructor.
  - repeat split.
  - reflexivity.
  - reflexivity.
  - reflexivity.
Qed.

(** one 8 s audio segment of 375 AAC frames at 48 kHz (testpic_8s/A48): scratch asset a8v2 *)
Definition w_audio8 : list seg := [ Build_seg 0 384000 375 ].
(** four 2 s audio segments (testpic_2s/A48: 94, 94, 94, 93 frames) *)
Definition w_audio2 : list seg :=
  [ Build_seg 0 96256 94; Build_seg 96256 192512 94; Build_seg 192512 288768 94; Build_seg 288768 384000 93 ].
(** the same with the last three frames removed (scratch asset short3) *)
Definition w_audio2short : list seg :=
  [ Build_seg 0 96256 94; Build_seg 96256 192512 94; Build_seg 192512 288768 94; Build_seg 288768 380928 90 ].

Lemma w_ref_pre segs n :
  (0 <=? n) && (n <? 1000000) = true ->
  awf 1024 segs -> tot segs < two32 -> tot segs * 1024 < two63 ->
  fidx 90000 1024 48000 (Timeline.S w_video n) - fidx 90000 1024 48000 (loop_start w_video n) < tot segs ->
  ref_pre 90000 1024 48000 w_video segs n.
Proof.
  intros Hn Hwf H32 H63 Hreach.
  assert (Hn' : 0 <= n < 1000000) by lia.
  assert (HN : Timeline.nsegs w_video = 4) by reflexivity.
  assert (HD : Timeline.repDuration w_video = 720000) by reflexivity.
  destruct (ref_decompose w_video 8000 w_video_wf n ltac:(lia)) as (ES & EE & Hw & Hs & Hse & He & HDp).
  assert (Hw2 : n / Timeline.nsegs w_video < 250000) by (rewrite HN; apply Z.div_lt_upper_bound; lia).
  constructor; try assumption; try lia.
  - unfold loop_start. rewrite HD in *. unfold two64. lia.
  - unfold loop_start. rewrite EE. rewrite HD in *.
    set (w := n / Timeline.nsegs w_video) in *.
    pose proof (fidx_mono 90000 1024 48000 ltac:(lia) ltac:(lia) ltac:(lia)
                  (w * 720000 + Timeline.en (Timeline.segAt w_video (n mod Timeline.nsegs w_video)))
                  (w * 720000 + 720000) ltac:(lia)) as M.
    unfold fidx in *. rewrite (Z.mul_comm (w * 720000 + 720000)) in M.
    replace (48000 * (w * 720000 + 720000)) with (48000 * (w * 720000) + 375 * (90000 * 1024)) in M by ring.
    rewrite (Z.mul_comm 48000 (w * 720000)) in M.
    rewrite cdiv_add_mult in M by lia. unfold two32. lia.
Qed.

(** Asset a8v2, reference segment 1 = [180000, 360000) of 90 kHz: the output interval is frames
    94..187 of the 375 frames of the only VoD audio segment, i.e. it starts after the beginning of
    that segment and ends before its end. (Before fix fc72486 this request failed with "audioLeft !=
    audioInEndAfterWrap": finding audio-inner-interval-500.) *)
Lemma inner_served_witness :
  ref_pre 90000 1024 48000 w_video w_audio8 1 /\
  audio_segment 1 (Timeline.S w_video 1) (Timeline.E w_video 1) (Timeline.repDuration w_video)
                90000 1024 48000 w_audio8
  = Ok {| o_tfdt := 96256; o_seq := 1; o_frames := rangeZ 94 188 |}.
Proof.
  split.
  - apply w_ref_pre; try (vm_compute; reflexivity).
    split; [discriminate|]. cbn. repeat split; reflexivity.
  - vm_compute. reflexivity.
Qed.

(** C03_short_audio_refuted: an audio table that does not reach the start of the reference segment.
    With the first two 2 s audio segments against the 8 s video loop, reference segment 2 gives an
    error return; with only the first one, reference segment 3 gives an index out of range
    ([startNr = audioInStart / duration = 3]). *)
Definition w_audio_half : list seg := [ Build_seg 0 96256 94; Build_seg 96256 192512 94 ].
Definition w_audio_quarter : list seg := [ Build_seg 0 96256 94 ].

Lemma short_audio_refuted_witness :
  awf 1024 w_audio_half /\ awf 1024 w_audio_quarter /\
  audio_segment 2 (Timeline.S w_video 2) (Timeline.E w_video 2) (Timeline.repDuration w_video)
                90000 1024 48000 w_audio_half = Err "audioLeft != audioInEndAfterWrap" /\
  audio_segment 3 (Timeline.S w_video 3) (Timeline.E w_video 3) (Timeline.repDuration w_video)
                90000 1024 48000 w_audio_quarter = Panic "createAudioSeg: index out of range (rep.Segments[startNr])".
Proof.
  split; [|split; [|split]].
  - split; [discriminate|]. cbn. repeat split; reflexivity.
  - split; [discriminate|]. cbn. repeat split; reflexivity.
  - vm_compute. reflexivity.
  - vm_compute. reflexivity.
Qed.

(** Non-vacuity of the frames theorem, with padding: asset short3 (audio loop three frames shorter
    than the video loop), last reference segment of loop 2 (n = 11): frames 282..371 of the source,
    then the last frame (371) three more times; the next segment starts at source frame 0. *)
Lemma frames_example :
  ref_pre 90000 1024 48000 w_video w_audio2short 11 /\
  audio_segment 12 (Timeline.S w_video 11) (Timeline.E w_video 11) (Timeline.repDuration w_video)
                90000 1024 48000 w_audio2short
  = Ok {| o_tfdt := 1056768; o_seq := 12; o_frames := rangeZ 282 372 ++ [371; 371; 371] |}.
Proof.
  split.
  - apply w_ref_pre; try (vm_compute; reflexivity).
    split; [discriminate|]. cbn. repeat split; reflexivity.
  - vm_compute. reflexivity.
Qed.

(** * C03_boundary, collected *)
Lemma boundary_all r F a t :
  0 < r -> 0 < F -> 0 < a -> 0 <= t -> fb r F a t < two64 ->
  calcAudioTimeFromRef t r F a = Ok (fb r F a t)
  /\ fb r F a t mod F = 0
  /\ t * a <= fb r F a t * r
  /\ fb r F a t * r - t * a < F * r
  /\ (forall m, m mod F = 0 -> t * a <= m * r -> fb r F a t <= m)
  /\ (forall t', t <= t' -> fb r F a t <= fb r F a t').
Proof.
  intros Hr HF Ha Ht Hfit. repeat split.
  - exact (calc_is_fb_fits r F a Hr HF Ha t Ht Hfit).
  - exact (fb_mod r F a HF t).
  - exact (fb_ge r F a Hr HF t).
  - exact (fb_lt r F a Hr HF t).
  - exact (fb_least r F a Hr HF t).
  - exact (fb_mono r F a Hr HF Ha t).
Qed.

(** C03_boundary_before_fix: the function as it was (products in uint64) computed [fb] only while
    refTime*audioTimescale + frameDur*refTimescale < 2^64; beyond that it is wrong: 10 MHz reference
    timescale, 1 700 000 098 s after the start (generated asset g10mhz / catalogue layout g_10mhz_tl) *)
Lemma boundary_before_fix_witness :
  (forall r F a t, 0 < r -> 0 < F -> 0 < a -> 0 <= t -> t * a + F * r < two64 ->
     calcAudioTimeFromRef_before_fix t r F a = Ok (fb r F a t)) /\
  two64 <= 17000000980000000 * 48000 /\
  calcAudioTimeFromRef_before_fix 17000000980000000 10000000 1024 48000 = Ok 434330780672 /\
  fb 10000000 1024 48000 17000000980000000 = 81600004704256 /\
  calcAudioTimeFromRef 17000000980000000 10000000 1024 48000 = Ok 81600004704256.
Proof.
  split; [intros; now apply calc_before_fix_is_fb|].
  repeat split; vm_compute; congruence.
Qed.

(** * The frame duration used for the MPD *)

(** C03_timeline for the MPD: under the visible hypothesis that the frame duration the MPD code works
    with is the frame duration [F] of the representation. *)
Lemma mpd_audio_timeline_ok r F a cdur dflt codec startNr refT entries :
  0 < r -> 0 < F -> 0 < a ->
  mpd_frame_dur cdur dflt codec a = F ->
  0 <= startNr -> entries <> [] -> Forall (fun e => 0 <= fst e) entries -> 0 <= refT ->
  end_ref refT entries * a + F * r < two64 ->
  exists l, mpd_audio_timeline startNr refT entries r cdur dflt codec a = Ok l
            /\ expand_s 0 l = map (image r F a) (expand_ref refT entries).
Proof.
  intros Hr HF Ha E. unfold mpd_audio_timeline. rewrite E. now apply audio_timeline_ok.
Qed.

(** the hypothesis holds for every admitted audio representation: admission requires a non-zero
    constant sample duration, and that is the frame duration *)
Lemma mpd_frame_dur_const cdur dflt codec a : cdur <> 0 -> mpd_frame_dur cdur dflt codec a = cdur.
Proof. intros. unfold mpd_frame_dur. replace (cdur =? 0) with false by lia. reflexivity. Qed.

(** formerly C03_timeline_sampledur_refuted: AAC with 1024-sample frames at 44.1 kHz, no default
    sample duration in trex/tfhd (generated asset g2997a441) *)
Lemma timeline_sampledur_witness :
  mpd_frame_dur 1024 0 0 44100 = 1024 /\
  mpd_audio_timeline 0 0 [(60060, 3)] 30000 1024 0 0 44100
  = Ok [ {| e_t := Some 0; e_d := 89088; e_r := 0 |}; {| e_t := None; e_d := 88064; e_r := 2 |} ].
Proof. split; vm_compute; reflexivity. Qed.

(** formerly C03_timeline_sampledur_wrong_refuted: 2048-sample frames at 48 kHz (ghe2048) *)
Lemma timeline_sampledur_2048_witness :
  mpd_frame_dur 2048 0 0 48000 = 2048 /\
  exists l, mpd_audio_timeline 0 0 [(180000, 3)] 90000 2048 0 0 48000 = Ok l /\
            expand_s 0 l = map (image 90000 2048 48000) (expand_ref 0 [(180000, 3)]).
Proof. split; [vm_compute; reflexivity|]. eexists. split; vm_compute; reflexivity. Qed.

(** the start time of a recipe is the result of calcAudioTimeFromRef on the reference start, whatever
    the other arguments are *)
Lemma recipe_start_of nr s e D r F a rc v :
  calcAudioTimeFromRef s r F a = Ok v ->
  calcAudioSegRecipe nr s e D r F a = Ok rc -> r_start rc = v.
Proof.
  intros Hs. unfold calcAudioSegRecipe. rewrite Hs. cbn [bind].
  destruct (calcAudioTimeFromRef e r F a); cbn [bind]; try discriminate.
  destruct (D =? 0); try discriminate.
  destruct (calcAudioTimeFromRef (u64 (s / D * D)) r F a); cbn [bind]; try discriminate.
  destruct (calcAudioTimeFromRef (u64 (e / D * D)) r F a); cbn [bind]; try discriminate.
  destruct (_ >? _); [destruct (_ <? _)|]; intros H; injection H as <-; reflexivity.
Qed.
