(** C03 — MODEL of the reference lookup for audio requests and of createAudioSegment
    (cmd/livesim2/app/livesegment.go: findRefSegMeta, findRefSegMetaFromTime, createAudioSegment).
    Executable transliteration, no proofs. The lookup by number is findSegMetaFromNr on the reference
    representation: the model of C01 ([Timeline.lookup ... ByNumber]) is used as it is. *)
From Verif Require Import GoSem Audio.
From Verif Require Timeline.

Definition lift {A} (x : res A) : Timeline.outcome A :=
  match x with
  | Ok v => Timeline.TOk v
  | Err e => Timeline.TErr e
  | Panic s => Timeline.TPanic s
  end.

(** first loop of findRefSegMetaFromTime (L232-238): walk down from [relNr] *)
Fixpoint ref_down (segs : list Timeline.seg) (rtaw : Z) (fuel : nat) (relNr : Z) : res Z :=
  match nthZ relNr segs with
  | None => Panic "findRefSegMetaFromTime: index out of range (refRep.Segments[relNr])"
  | Some s =>
    if (Timeline.en s <? rtaw) || (relNr =? 0) then Ok relNr else
    match fuel with
    | O => Err "out of fuel"
    | S k => ref_down segs rtaw k (relNr - 1)
    end
  end.

(** second loop (L239-248): walk up to the first segment that ends after [rtaw];
    [segs] is [refRep.Segments[relNr:]] *)
Fixpoint ref_up (segs : list Timeline.seg) (rtaw : Z) (relNr : Z) : res (Z * Timeline.seg) :=
  match segs with
  | [] => Panic "findRefSegMetaFromTime: index out of range (refRep.Segments[relNr])"
  | s :: rest => if Timeline.en s >? rtaw then Ok (relNr, s) else ref_up rest rtaw (relNr + 1)
  end.

(** findRefSegMetaFromTime (L212-273). [F] is [*rep.ConstantSampleDuration] (0 also stands for nil),
    [a] the audio timescale, [time] the uint64 in the URL. *)
Definition refMetaFromTime (vr : Timeline.rep) (c : Timeline.tcfg) (F a time nowMS : Z)
  : Timeline.outcome Timeline.segmeta :=
  if F =? 0 then Timeline.TErr "no constant sample duration" else
  if negb (time mod F =? 0) then Timeline.TNotFound (* "time must be multiple of sample duration", 404 since 33c7128 *) else
  let refTotDur := u64 (Timeline.repDuration vr) in
  let nrSegs := lenZ (Timeline.segs vr) in
  if a =? 0 then Timeline.TPanic "findRefSegMetaFromTime: integer divide by zero (rep.MediaTimescale)" else
  let refTime := u64 (time * u64 (Timeline.ts vr) / a) in   (* mulDiv64: the product on 128 bits *)
  if refTotDur =? 0 then Timeline.TPanic "findRefSegMetaFromTime: integer divide by zero (refTotDur)" else
  let nrWraps := refTime / refTotDur in
  let wrapTime := u64 (nrWraps * refTotDur) in
  let wrapNr := u64 (nrWraps * nrSegs) in
  let rtaw := u64 (refTime - u64 (nrWraps * refTotDur)) in
  let relNr0 := rtaw / refTotDur in
  match ref_down (Timeline.segs vr) rtaw (Z.to_nat relNr0) relNr0 with
  | Err e => Timeline.TErr e
  | Panic s => Timeline.TPanic s
  | Ok relNr1 =>
    match ref_up (dropZ relNr1 (Timeline.segs vr)) rtaw relNr1 with
    | Err e => Timeline.TErr e
    | Panic s => Timeline.TPanic s
    | Ok (relNr, s) =>
      let refOutNr := u32 (u32 (u64 (relNr + wrapNr)) + u32 (Timeline.startNr c)) in
      let refStartTime := u64 (wrapTime + Timeline.st s) in
      let refEndTime := u64 (wrapTime + Timeline.en s) in
      if refEndTime =? 0 then Timeline.TErr "no matching reference segment" else
      let dur := u32 (Timeline.en s - Timeline.st s) in
      let mediaRef := Timeline.startS c * Timeline.ts vr in
      Timeline.timed
        (Timeline.checkTime (i64 refEndTime + mediaRef) (Timeline.ts vr) nowMS (Timeline.tsbdS c) (Timeline.ato c))
        (Timeline.TOk {| Timeline.origTime := Timeline.st s; Timeline.newTime := refStartTime;
                         Timeline.origNr := Timeline.snr s; Timeline.newNr := refOutNr;
                         Timeline.origDur := dur; Timeline.newDur := dur;
                         Timeline.mtimescale := u32 (Timeline.ts vr) |})
    end
  end.

(** findRefSegMeta (L628-651) *)
Definition refMeta (vr : Timeline.rep) (loopMS : Z) (c : Timeline.tcfg) (F a : Z)
           (mode : Timeline.addressing) (segID nowMS : Z) : Timeline.outcome Timeline.segmeta :=
  match mode with
  | Timeline.ByNumber => Timeline.lookup vr loopMS c Timeline.ByNumber segID nowMS
  | Timeline.ByTime => refMetaFromTime vr c F a (u64 segID) nowMS
  end.

(** createAudioSegment: reference lookup, recipe, (since 33c7128) for $Time$ addressing the requested
    time must be the start time of the recipe, else 404; createAudioSeg *)
Definition audio_request (vr : Timeline.rep) (loopMS : Z) (c : Timeline.tcfg) (F a : Z)
           (tab : list seg) (mode : Timeline.addressing) (segID nowMS : Z) : Timeline.outcome outseg :=
  match refMeta vr loopMS c F a mode segID nowMS with
  | Timeline.TOk m =>
      match calcAudioSegRecipe (Timeline.newNr m) (Timeline.newTime m)
                               (u64 (Timeline.newTime m + Timeline.newDur m))
                               (u64 (Timeline.repDuration vr)) (u64 (Timeline.ts vr)) F a with
      | Ok rc =>
          let is_time := match mode with Timeline.ByTime => true | Timeline.ByNumber => false end in
          if is_time && negb (r_start rc =? u64 segID) then Timeline.TNotFound
          else lift (create_audio_seg F tab rc)
      | Err e => Timeline.TErr e
      | Panic s => Timeline.TPanic s
      end
  | Timeline.TTooEarly ms => Timeline.TTooEarly ms
  | Timeline.TGone => Timeline.TGone
  | Timeline.TNotFound => Timeline.TNotFound
  | Timeline.TErr e => Timeline.TErr e
  | Timeline.TPanic s => Timeline.TPanic s
  end.

(** for $Number$ addressing (and whenever the time check passes) this is [audio_segment] *)
