(** C03 — the reference lookup for audio requests addressed by $Time$ finds the same reference segment
    as the lookup by number (model in theories/AudioRef.v). *)
From Verif Require Import GoSem GoSemFacts Timeline TimelineProofs.
From Verif Require Audio AudioProofs AudioRef.
From Coq Require Import ZifyBool.

Local Lemma u64_small z : 0 <= z < two64 -> u64 z = z.
Proof. intros; unfold u64; now apply Z.mod_small. Qed.
Local Lemma i64_small z : 0 <= z < two63 -> i64 z = z.
Proof. intros; unfold i64. rewrite Z.mod_small; unfold two63, two64 in *; lia. Qed.
Local Lemma u32_add x y : u32 (u32 x + u32 y) = u32 (x + y).
Proof. unfold u32. symmetry. apply Zplus_mod. Qed.

(** the second loop finds the segment that contains [rho] *)
Lemma ref_up_spec : forall l k rho j s,
  nthZ j l = Some s ->
  (forall j' s', 0 <= j' < j -> nthZ j' l = Some s' -> en s' <= rho) ->
  rho < en s ->
  AudioRef.ref_up l rho k = Ok (k + j, s).
Proof.
  induction l as [|x l IH]; intros k rho j s Hn Hbefore Hlt; cbn [nthZ] in Hn; [discriminate|].
  destruct (j <? 0) eqn:J0; [discriminate|]. cbn [AudioRef.ref_up].
  destruct (j =? 0) eqn:J1.
  - injection Hn as ->. replace (en s >? rho) with true by lia. f_equal. f_equal. lia.
  - assert (Hx : en x <= rho) by (apply (Hbefore 0 x); [lia|reflexivity]).
    replace (en x >? rho) with false by lia.
    rewrite (IH (k + 1) rho (j - 1) s Hn); [f_equal; f_equal; lia| |assumption].
    intros j' s' Hj' Hs'. apply (Hbefore (j' + 1) s'); [lia|].
    cbn [nthZ]. replace (j' + 1 <? 0) with false by lia. replace (j' + 1 =? 0) with false by lia.
    now replace (j' + 1 - 1) with j' by lia.
Qed.

Section TimeLookup.
Variable vr : rep.
Variable loopMS : Z.
Hypothesis W : wf vr loopMS.
Variable c : tcfg.
Variables F a : Z.
Hypothesis HF : 0 < F.
Hypothesis Ha : 0 < a.
Notation r := (ts vr).
Notation f := (AudioProofs.fb r F a).
Notation N := (nsegs vr).
Notation D := (repDuration vr).

(** What the audio MPD lists as start time of segment [n] is [f (S vr n)]. A request for that time
    finds reference segment [n], provided the reference segment is at least one audio frame long. *)
Lemma refMetaFromTime_spec n now :
  0 <= n ->
  F * r <= (E vr n - S vr n) * a ->
  r < two64 -> f (S vr n) * r < two64 -> E vr n < two63 -> D < two64 -> n < two64 ->
  AudioRef.refMetaFromTime vr c F a (f (S vr n)) now =
  timed (checkTime (E vr n + startS c * r) r now (tsbdS c) (ato c))
        (TOk {| origTime := st (segAt vr (n mod N)); newTime := S vr n;
                origNr := snr (segAt vr (n mod N)); newNr := u32 (n + startNr c);
                origDur := u32 (sdur (segAt vr (n mod N))); newDur := u32 (sdur (segAt vr (n mod N)));
                mtimescale := u32 r |}).
Proof.
  intros Hn Hlong Hr64 Ht64 HE63 HD64 Hn64.
  pose proof (wf_ts _ _ W) as Hr.
  destruct (AudioProofs.ref_decompose vr loopMS W n Hn) as (ES & EE & Hw & Hs & Hse & He & HD).
  pose proof (nsegs_pos vr loopMS W) as HN.
  set (w := n / N) in *. set (i := n mod N) in *.
  set (s' := st (segAt vr i)) in *. set (e' := en (segAt vr i)) in *.
  assert (Hi : 0 <= i < N) by (apply Z.mod_pos_bound; lia).
  assert (Hnwi : n = w * N + i) by (unfold w, i; pose proof (Z.div_mod n N ltac:(lia)); lia).
  assert (HS0 : 0 <= S vr n) by nia.
  set (time := f (S vr n)) in *.
  assert (Htime0 : 0 <= time) by (apply AudioProofs.fb_nonneg; lia).
  unfold AudioRef.refMetaFromTime.
  replace (F =? 0) with false by lia.
  assert (Hmod : time mod F = 0) by apply (AudioProofs.fb_mod r F a HF (S vr n)).
  rewrite Hmod. cbn [Z.eqb negb].
  rewrite (u64_small D) by lia. rewrite (u64_small r) by lia.
  replace (a =? 0) with false by lia.
  rewrite (u64_small (time * r)) by nia.
  replace (D =? 0) with false by lia.
  (* the reference time lies inside reference segment n *)
  pose proof (AudioProofs.fb_ge r F a Hr HF (S vr n)) as Hge. fold time in Hge.
  pose proof (AudioProofs.fb_lt r F a Hr HF (S vr n)) as Hlt. fold time in Hlt.
  set (refTime := time * r / a).
  assert (Hlo : S vr n <= refTime) by (apply Z.div_le_lower_bound; lia).
  assert (Hhi : refTime < E vr n) by (apply Z.div_lt_upper_bound; nia).
  assert (Ew : refTime / D = w) by (symmetry; apply (Z.div_unique _ _ w (refTime - w * D)); lia).
  rewrite Ew.
  rewrite (u64_small (w * D)) by (unfold two63, two64 in *; nia).
  change (lenZ (segs vr)) with N. rewrite (u64_small (w * N)) by nia.
  set (rho := refTime - w * D).
  assert (Hrho : s' <= rho < e') by (unfold rho; lia).
  rewrite (u64_small rho) by (unfold two63, two64 in *; lia).
  rewrite (Z.div_small rho D) by lia.
  (* first loop: relNr = 0 *)
  cbn [Z.to_nat AudioRef.ref_down].
  pose proof (segAt_ok vr 0 ltac:(lia)) as H0. rewrite H0. cbn [Z.eqb]. rewrite orb_true_r.
  rewrite dropZ_0.
  (* second loop: segment i *)
  rewrite (ref_up_spec (segs vr) 0 rho i (segAt vr i)); [| apply segAt_ok; lia | | fold e'; lia].
  2:{ intros j' x Hj' Hx. rewrite <- (segAt_nth vr j' x Hx).
      pose proof (seg_mono vr loopMS W j' i ltac:(lia) ltac:(lia) ltac:(lia)). fold s' in H. lia. }
  rewrite Z.add_0_l. fold s' e'.
  rewrite (u64_small (i + w * N)) by lia.
  rewrite u32_add. replace (i + w * N + startNr c) with (n + startNr c) by lia.
  rewrite (u64_small (w * D + s')) by (unfold two63, two64 in *; lia).
  rewrite (u64_small (w * D + e')) by (unfold two63, two64 in *; lia).
  replace (w * D + e' =? 0) with false by lia.
  rewrite i64_small by lia. rewrite <- ES, <- EE. reflexivity.
Qed.

(** Number and Time addressing give the same reference segment, hence the same audio segment:
    the request for the time the audio timeline lists for segment [n] is answered exactly like the
    request for number [startNr + n]. *)
Lemma audio_request_time_eq_number tab n now :
  0 <= n -> 0 <= startNr c -> startNr c + n < two32 ->
  F * r <= (E vr n - S vr n) * a ->
  r < two64 -> f (S vr n) * r < two64 -> E vr n < two63 -> D < two64 ->
  AudioRef.audio_request vr loopMS c F a tab ByTime (f (S vr n)) now =
  AudioRef.audio_request vr loopMS c F a tab ByNumber (startNr c + n) now.
Proof.
  intros Hn Hs0 Hs32 Hlong Hr64 Ht64 HE63 HD64.
  pose proof (wf_ts _ _ W) as Hr.
  assert (HS0 : 0 <= S vr n) by (apply (S_nonneg vr loopMS n W Hn)).
  pose proof (S_lt_E vr loopMS W n Hn) as HSE.
  assert (Htime0 : 0 <= f (S vr n)) by (apply AudioProofs.fb_nonneg; lia).
  unfold AudioRef.audio_request, AudioRef.refMeta, lookup.
  rewrite (u64_small (f (S vr n))) by nia.
  rewrite (refMetaFromTime_spec n now Hn Hlong Hr64 Ht64 HE63 HD64) by (unfold two32, two64 in *; lia).
  rewrite (u32_id (startNr c + n)) by lia. rewrite (u32_id (startNr c)) by lia.
  replace (startNr c + n <? startNr c) with false by lia.
  rewrite (segMetaFromNr_spec vr loopMS W c n now Hn).
  unfold metaOf. rewrite (u64_small (S vr n)) by (unfold two63, two64 in *; lia).
  replace (n + startNr c) with (startNr c + n) by ring.
  rewrite (u32_id (startNr c + n)) by lia. reflexivity.
Qed.

(** The whole handler path for $Number$ addressing: availability as for the reference (video)
    segment [n] (C01/C04), and when available the segment of C03_frames with sequence number
    [startNr + n]. *)
Lemma audio_request_number tab n now :
  0 <= n -> 0 <= startNr c -> startNr c + n < two32 ->
  AudioProofs.ref_pre r F a vr tab n ->
  F < two32 -> r < two64 -> E vr n < two64 -> D < two64 -> sdur (segAt vr (n mod N)) < two32 ->
  AudioRef.audio_request vr loopMS c F a tab ByNumber (startNr c + n) now =
  timed (checkTime (E vr n + startS c * r) r now (tsbdS c) (ato c))
        (TOk {| Audio.o_tfdt := f (S vr n); Audio.o_seq := startNr c + n;
                Audio.o_frames :=
                  map (fun g => Z.min (g - AudioProofs.fidx r F a (AudioProofs.loop_start vr n)) (AudioProofs.tot tab - 1))
                      (Audio.rangeZ (AudioProofs.fidx r F a (S vr n)) (AudioProofs.fidx r F a (E vr n))) |}).
Proof.
  intros Hn Hs0 Hs32 Hpre HF32 Hr64 HE64 HD64 Hdur.
  pose proof (wf_ts _ _ W) as Hr.
  assert (HS0 : 0 <= S vr n) by (apply (S_nonneg vr loopMS n W Hn)).
  pose proof (S_lt_E vr loopMS W n Hn) as HSE.
  unfold AudioRef.audio_request, AudioRef.refMeta, lookup.
  rewrite (u32_id (startNr c + n)) by lia. rewrite (u32_id (startNr c)) by lia.
  replace (startNr c + n <? startNr c) with false by lia.
  rewrite (segMetaFromNr_spec vr loopMS W c n now Hn).
  destruct (checkTime _ _ _ _ _); cbn [timed]; try reflexivity.
  unfold metaOf. cbn [newNr newTime newDur].
  rewrite (u64_small (S vr n)) by lia.
  assert (Esd : S vr n + sdur (segAt vr (n mod N)) = E vr n) by (unfold S, E, sdur; lia).
  assert (0 < sdur (segAt vr (n mod N))) by lia.
  rewrite (u32_id (sdur (segAt vr (n mod N)))) by lia. rewrite Esd.
  rewrite (u64_small (E vr n)) by lia.
  pose proof (repDuration_pos vr loopMS W).
  rewrite (u64_small D) by lia. rewrite (u64_small r) by lia.
  rewrite (AudioProofs.ref_served_frames r F a Hr HF HF32 Ha vr loopMS W (startNr c + n) tab n Hpre).
  reflexivity.
Qed.

End TimeLookup.
