(** C03 — the reference lookup for audio requests addressed by $Time$ finds the same reference segment
    as the lookup by number (model in theories/AudioRef.v). *)
From Verif Require Import GoSem GoSemFacts Timeline TimelineProofs.
From Verif Require Audio AudioProofs AudioRef.
From Coq Require Import ZifyBool.

Local Lemma u64_small z : 0 <= z < two64 -> u64 z = z.
Proof. intros; unfold u64; now apply Z.mod_small. Qed.
Local Lemma i64_small z : 0 <= z < two63 -> i64 z = z.
Proof. intros; unfold i64. rewrite Z.mod_small; unfold two63, two64 in *; lia. Qed.
Local Lemma u32_add x y : u32 (u32 x + u32 y) = u32 (x + y).
Proof. unfold u32. symmetry. apply Zplus_mod. Qed.

(** the second loop finds the segment that contains [rho] *)
Lemma ref_up_spec : forall l k rho j s,
  nthZ j l = Some s ->
  (forall j' s', 0 <= j' < j -> nthZ j' l = Some s' -> en s' <= rho) ->
  rho < en s ->
  AudioRef.ref_up l rho k = Ok (k + j, s).
Proof.
  induction l as [|x l IH]; intros k rho j s Hn Hbefore Hlt; cbn [nthZ] in Hn; [discriminate|].
  destruct (j <? 0) eqn:J0; [discriminate|]. cbn [AudioRef.ref_up].
  destruct (j =? 0) eqn:J1.
  - injection Hn as ->. replace (en s >? rho) with true by lia. f_equal. f_equal. lia.
  - assert (Hx : en x <= rho) by (apply (Hbefore 0 x); [lia|reflexivity]).
    replace (en x >? rho) with false by lia.
    rewrite (IH (k + 1) rho (j - 1) s Hn); [f_equal; f_equal; lia| |assumption].
    intros j' s' Hj' Hs'. apply (Hbefore (j' + 1) s'); [lia|].
    cbn [nthZ]. replace (j' + 1 <? 0) with false by lia. replace (j' + 1 =? 0) with false by lia.
    now replace (j' + 1 - 1) with j' by lia.
Qed.

Lemma ref_up_nth : forall l rho k k' s,
  AudioRef.ref_up l rho k = Ok (k', s) -> k <= k' /\ nthZ (k' - k) l = Some s.
Proof.
  induction l as [|x l IH]; intros rho k k' s H; cbn [AudioRef.ref_up] in H; [discriminate|].
  destruct (en x >? rho).
  - injection H as <- <-. rewrite Z.sub_diag. split; [lia|reflexivity].
  - apply IH in H. destruct H as [H1 H2]. split; [lia|].
    cbn [nthZ]. replace (k' - k <? 0) with false by lia. replace (k' - k =? 0) with false by lia.
    now replace (k' - k - 1) with (k' - (k + 1)) by lia.
Qed.

Section TimeLookup.
Variable vr : rep.
Variable loopMS : Z.
Hypothesis W : wf vr loopMS.
Variable c : tcfg.
Variables F a : Z.
Hypothesis HF : 0 < F.
Hypothesis Ha : 0 < a.
Notation r := (ts vr).
Notation f := (AudioProofs.fb r F a).
Notation N := (nsegs vr).
Notation D := (repDuration vr).

(** What the audio MPD lists as start time of segment [n] is [f (S vr n)]. A request for that time
    finds reference segment [n], provided the reference segment is at least one audio frame long. *)
Lemma refMetaFromTime_spec n now :
  0 <= n ->
  F * r <= (E vr n - S vr n) * a ->
  r < two64 -> f (S vr n) * r < two64 -> E vr n < two63 -> D < two64 -> n < two64 ->
  AudioRef.refMetaFromTime vr c F a (f (S vr n)) now =
  timed (checkTime (E vr n + startS c * r) r now (tsbdS c) (ato c))
        (TOk {| origTime := st (segAt vr (n mod N)); newTime := S vr n;
                origNr := snr (segAt vr (n mod N)); newNr := u32 (n + startNr c);
                origDur := u32 (sdur (segAt vr (n mod N))); newDur := u32 (sdur (segAt vr (n mod N)));
                mtimescale := u32 r |}).
Proof.
  intros Hn Hlong Hr64 Ht64 HE63 HD64 Hn64.
  pose proof (wf_ts _ _ W) as Hr.
  destruct (AudioProofs.ref_decompose vr loopMS W n Hn) as (ES & EE & Hw & Hs & Hse & He & HD).
  pose proof (nsegs_pos vr loopMS W) as HN.
  set (w := n / N) in *. set (i := n mod N) in *.
  set (s' := st (segAt vr i)) in *. set (e' := en (segAt vr i)) in *.
  assert (Hi : 0 <= i < N) by (apply Z.mod_pos_bound; lia).
  assert (Hnwi : n = w * N + i) by (unfold w, i; pose proof (Z.div_mod n N ltac:(lia)); lia).
  assert (HS0 : 0 <= S vr n) by nia.
  set (time := f (S vr n)) in *.
  assert (Htime0 : 0 <= time) by (apply AudioProofs.fb_nonneg; lia).
  unfold AudioRef.refMetaFromTime.
  replace (F =? 0) with false by lia.
  assert (Hmod : time mod F = 0) by apply (AudioProofs.fb_mod r F a HF (S vr n)).
  rewrite Hmod. cbn [Z.eqb negb].
  rewrite (u64_small D) by lia. rewrite (u64_small r) by lia.
  replace (a =? 0) with false by lia.
  replace (D =? 0) with false by lia.
  (* the reference time lies inside reference segment n *)
  pose proof (AudioProofs.fb_ge r F a Hr HF (S vr n)) as Hge. fold time in Hge.
  pose proof (AudioProofs.fb_lt r F a Hr HF (S vr n)) as Hlt. fold time in Hlt.
  set (refTime := time * r / a).
  assert (Hlo : S vr n <= refTime) by (apply Z.div_le_lower_bound; lia).
  assert (Hhi : refTime < E vr n) by (apply Z.div_lt_upper_bound; nia).
  rewrite (u64_small refTime) by (unfold two63, two64 in *; lia).
  assert (Ew : refTime / D = w) by (symmetry; apply (Z.div_unique _ _ w (refTime - w * D)); lia).
  rewrite Ew.
  rewrite (u64_small (w * D)) by (unfold two63, two64 in *; nia).
  change (lenZ (segs vr)) with N. rewrite (u64_small (w * N)) by nia.
  set (rho := refTime - w * D).
  assert (Hrho : s' <= rho < e') by (unfold rho; lia).
  rewrite (u64_small rho) by (unfold two63, two64 in *; lia).
  rewrite (Z.div_small rho D) by lia.
  (* first loop: relNr = 0 *)
  cbn [Z.to_nat AudioRef.ref_down].
  pose proof (segAt_ok vr 0 ltac:(lia)) as H0. rewrite H0. cbn [Z.eqb]. rewrite orb_true_r.
  rewrite dropZ_0.
  (* second loop: segment i *)
  rewrite (ref_up_spec (segs vr) 0 rho i (segAt vr i)); [| apply segAt_ok; lia | | fold e'; lia].
  2:{ intros j' x Hj' Hx. rewrite <- (segAt_nth vr j' x Hx).
      pose proof (seg_mono vr loopMS W j' i ltac:(lia) ltac:(lia) ltac:(lia)). fold s' in H. lia. }
  rewrite Z.add_0_l. fold s' e'.
  rewrite (u64_small (i + w * N)) by lia.
  rewrite u32_add. replace (i + w * N + startNr c) with (n + startNr c) by lia.
  rewrite (u64_small (w * D + s')) by (unfold two63, two64 in *; lia).
  rewrite (u64_small (w * D + e')) by (unfold two63, two64 in *; lia).
  replace (w * D + e' =? 0) with false by lia.
  rewrite i64_small by lia. rewrite <- ES, <- EE. reflexivity.
Qed.

(** Number and Time addressing give the same reference segment, hence the same audio segment:
    the request for the time the audio timeline lists for segment [n] is answered exactly like the
    request for number [startNr + n]. *)
Lemma audio_request_time_eq_number tab n now :
  0 <= n -> 0 <= startNr c -> startNr c + n < two32 ->
  F * r <= (E vr n - S vr n) * a ->
  r < two64 -> f (S vr n) * r < two64 -> S vr n * a + F * r < two64 -> E vr n < two63 -> D < two64 ->
  AudioRef.audio_request vr loopMS c F a tab ByTime (f (S vr n)) now =
  AudioRef.audio_request vr loopMS c F a tab ByNumber (startNr c + n) now.
Proof.
  intros Hn Hs0 Hs32 Hlong Hr64 Ht64 Hsa HE63 HD64.
  pose proof (wf_ts _ _ W) as Hr.
  assert (HS0 : 0 <= S vr n) by (apply (S_nonneg vr loopMS n W Hn)).
  pose proof (S_lt_E vr loopMS W n Hn) as HSE.
  assert (Htime0 : 0 <= f (S vr n)) by (apply AudioProofs.fb_nonneg; lia).
  unfold AudioRef.audio_request, AudioRef.refMeta, lookup.
  rewrite (u64_small (f (S vr n))) by nia.
  rewrite (refMetaFromTime_spec n now Hn Hlong Hr64 Ht64 HE63 HD64) by (unfold two32, two64 in *; lia).
  rewrite (u32_id (startNr c + n)) by lia. rewrite (u32_id (startNr c)) by lia.
  replace ((startNr c + n >? maxu32) || (startNr c + n <? startNr c)) with false by (unfold maxu32, two32 in *; lia).
  rewrite (segMetaFromNr_spec vr loopMS W c n now Hn).
  unfold metaOf. rewrite (u64_small (S vr n)) by (unfold two63, two64 in *; lia).
  replace (n + startNr c) with (startNr c + n) by ring.
  rewrite (u32_id (startNr c + n)) by lia.
  destruct (checkTime _ _ _ _ _); cbn [timed]; try reflexivity.
  cbn [newNr newTime newDur]. rewrite (u64_small r) by lia.
  destruct (Audio.calcAudioSegRecipe _ _ _ _ _ _ _) as [rc| |] eqn:R; try reflexivity.
  rewrite (AudioProofs.recipe_start_of _ _ _ _ _ _ _ rc (f (S vr n))
             (AudioProofs.calc_is_fb r F a Hr HF Ha (S vr n) HS0 Hsa) R).
  rewrite Z.eqb_refl. reflexivity.
Qed.

(** for $Number$ addressing createAudioSegment is recipe + createAudioSeg *)
(** The whole handler path for $Number$ addressing: availability as for the reference (video)
    segment [n] (C01/C04), and when available the segment of C03_frames with sequence number
    [startNr + n]. *)
Lemma audio_request_number tab n now :
  0 <= n -> 0 <= startNr c -> startNr c + n < two32 ->
  AudioProofs.ref_pre r F a vr tab n ->
  F < two32 -> r < two64 -> E vr n < two64 -> D < two64 -> sdur (segAt vr (n mod N)) < two32 ->
  AudioRef.audio_request vr loopMS c F a tab ByNumber (startNr c + n) now =
  timed (checkTime (E vr n + startS c * r) r now (tsbdS c) (ato c))
        (TOk {| Audio.o_tfdt := f (S vr n); Audio.o_seq := startNr c + n;
                Audio.o_frames :=
                  map (fun g => Z.min (g - AudioProofs.fidx r F a (AudioProofs.loop_start vr n)) (AudioProofs.tot tab - 1))
                      (Audio.rangeZ (AudioProofs.fidx r F a (S vr n)) (AudioProofs.fidx r F a (E vr n))) |}).
Proof.
  intros Hn Hs0 Hs32 Hpre HF32 Hr64 HE64 HD64 Hdur.
  pose proof (wf_ts _ _ W) as Hr.
  assert (HS0 : 0 <= S vr n) by (apply (S_nonneg vr loopMS n W Hn)).
  pose proof (S_lt_E vr loopMS W n Hn) as HSE.
  unfold AudioRef.audio_request, AudioRef.refMeta, lookup.
  rewrite (u32_id (startNr c + n)) by lia. rewrite (u32_id (startNr c)) by lia.
  replace ((startNr c + n >? maxu32) || (startNr c + n <? startNr c)) with false by (unfold maxu32, two32 in *; lia).
  rewrite (segMetaFromNr_spec vr loopMS W c n now Hn).
  destruct (checkTime _ _ _ _ _); cbn [timed]; try reflexivity.
  unfold metaOf. cbn [newNr newTime newDur].
  rewrite (u64_small (S vr n)) by lia.
  assert (Esd : S vr n + sdur (segAt vr (n mod N)) = E vr n) by (unfold S, E, sdur; lia).
  assert (0 < sdur (segAt vr (n mod N))) by lia.
  rewrite (u32_id (sdur (segAt vr (n mod N)))) by lia. rewrite Esd.
  rewrite (u64_small (E vr n)) by lia.
  pose proof (repDuration_pos vr loopMS W).
  rewrite (u64_small D) by lia. rewrite (u64_small r) by lia.
  change (match Audio.calcAudioSegRecipe (startNr c + n) (S vr n) (E vr n) D r F a with
          | Ok rc => if false && negb (Audio.r_start rc =? u64 (startNr c + n)) then TNotFound
                     else AudioRef.lift (Audio.create_audio_seg F tab rc)
          | Err e' => TErr e' | Panic p => TPanic p end)
    with (match Audio.calcAudioSegRecipe (startNr c + n) (S vr n) (E vr n) D r F a with
          | Ok rc => AudioRef.lift (Audio.create_audio_seg F tab rc)
          | Err e' => TErr e' | Panic p => TPanic p end).
  pose proof (AudioProofs.ref_served_frames r F a Hr HF HF32 Ha vr loopMS W (startNr c + n) tab n Hpre) as Hsf.
  unfold Audio.audio_segment in Hsf.
  destruct (Audio.calcAudioSegRecipe _ _ _ _ _ _ _) as [rc| |]; cbn [bind] in Hsf; try discriminate.
  rewrite Hsf. reflexivity.
Qed.

(** A $Time$ request for a time that is not a multiple of the frame duration is 404 (since 33c7128). *)
Lemma audio_request_time_off_grid tab t now :
  0 <= t < two64 -> t mod F <> 0 ->
  AudioRef.audio_request vr loopMS c F a tab ByTime t now = TNotFound.
Proof.
  intros Ht Hm. unfold AudioRef.audio_request, AudioRef.refMeta, AudioRef.refMetaFromTime.
  rewrite (u64_small t) by lia. replace (F =? 0) with false by lia.
  replace (t mod F =? 0) with false by lia. reflexivity.
Qed.

(** Only the times the audio timeline lists are served (since 33c7128): if a $Time$ request is answered
    with a segment, the requested time is the frame boundary of the start of some reference segment.
    (Any other time is 404 as soon as the reference segment that contains it is available.) *)
Lemma audio_request_time_only_starts tab t now o :
  0 <= t -> r < two64 -> (t * r + D) * a + F * r < two64 ->
  AudioRef.audio_request vr loopMS c F a tab ByTime t now = TOk o ->
  exists n, 0 <= n /\ t = f (S vr n).
Proof.
  intros Ht Hr64 Hrange H.
  pose proof (wf_ts _ _ W) as Hr.
  pose proof (repDuration_pos vr loopMS W) as HD.
  pose proof (nsegs_pos vr loopMS W) as HN.
  assert (Htr : 0 <= t * r) by nia.
  assert (Hb1 : t * r + D < two64) by nia.
  assert (Ht64 : t < two64) by nia.
  unfold AudioRef.audio_request, AudioRef.refMeta, AudioRef.refMetaFromTime in H.
  rewrite (u64_small t) in H by lia.
  replace (F =? 0) with false in H by lia.
  destruct (negb (t mod F =? 0)); [discriminate|].
  rewrite (u64_small D) in H by lia. rewrite (u64_small r) in H by lia.
  replace (a =? 0) with false in H by lia.
  replace (D =? 0) with false in H by lia.
  set (refTime := t * r / a) in *.
  assert (HrT : 0 <= refTime <= t * r).
  { unfold refTime. split; [apply Z.div_pos; lia|]. apply Z.div_le_upper_bound; nia. }
  rewrite (u64_small refTime) in H by lia.
  set (q := refTime / D) in *.
  pose proof (Z.div_mod refTime D ltac:(lia)) as Edm. fold q in Edm.
  pose proof (Z.mod_pos_bound refTime D HD) as Bm.
  assert (Hq : 0 <= q) by (apply Z.div_pos; lia).
  assert (HqD : 0 <= q * D <= refTime) by nia.
  rewrite (u64_small (q * D)) in H by lia.
  change (lenZ (segs vr)) with N in H.
  set (rho := refTime - q * D) in *.
  assert (Hrho : 0 <= rho < D) by (unfold rho; nia).
  rewrite (u64_small rho) in H by lia.
  rewrite (Z.div_small rho D) in H by lia.
  cbn [Z.to_nat AudioRef.ref_down] in H.
  pose proof (segAt_ok vr 0 ltac:(lia)) as H0. rewrite H0 in H. cbn [Z.eqb] in H. rewrite orb_true_r in H.
  rewrite dropZ_0 in H.
  destruct (AudioRef.ref_up (segs vr) rho 0) as [[j s]| |] eqn:Eup; try discriminate.
  apply ref_up_nth in Eup. destruct Eup as [Hj0 Hnth]. rewrite Z.sub_0_r in Hnth.
  pose proof (nthZ_some _ _ _ Hnth) as Hj. fold N in Hj.
  pose proof (segAt_nth vr j s Hnth) as Es.
  pose proof (st_nonneg vr loopMS W j Hj) as Hst. pose proof (en_le_dur vr loopMS W j Hj) as Hen.
  pose proof (seg_pos vr loopMS W j Hj) as Hpos. rewrite Es in Hst, Hen, Hpos.
  destruct (u64 (q * D + en s) =? 0); [discriminate|].
  destruct (checkTime _ _ _ _ _); cbn [timed] in H; try discriminate.
  cbn [newNr newTime newDur] in H.
  rewrite (u64_small (q * D + st s)) in H by lia.
  (* the reference segment found is segment q*N + j *)
  assert (ES : S vr (q * N + j) = q * D + st s).
  { unfold S. replace ((q * N + j) / N) with q by (apply (Z.div_unique _ _ q j); lia).
    replace ((q * N + j) mod N) with j by (apply (Z.mod_unique _ _ q j); lia).
    now rewrite Es. }
  destruct (Audio.calcAudioSegRecipe _ _ _ _ _ _ _) as [rc| |] eqn:R; try discriminate.
  assert (Hcalc : Audio.calcAudioTimeFromRef (q * D + st s) r F a = Ok (f (q * D + st s))).
  { apply AudioProofs.calc_is_fb; try assumption; nia. }
  rewrite (AudioProofs.recipe_start_of _ _ _ _ _ _ _ rc _ Hcalc R) in H.
  cbn [andb] in H.
  destruct (f (q * D + st s) =? t) eqn:Et; cbn [negb] in H; [|discriminate].
  exists (q * N + j). split; [nia|]. rewrite ES. lia.
Qed.

End TimeLookup.
