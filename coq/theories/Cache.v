(** Model of the asset loader of cmd/livesim2/app/asset.go as a function of file observations:
    loadRep (Number branch, thumbnails, Time branch, ConstantSampleDuration folding),
    readMP4Segment / readThumbSegment, addRegExpAndInit / readInit, writeToJSON / loadFromJSON,
    loadAsset (with its early returns), setReferenceRep, consolidateAsset, discoverAssets.

    What is an observation and what is model:
    - a media segment file is observed through mp4ff as [segobs] (tfdt of the first and of the
      last fragment, tfhd default sample duration of the last fragment, the trun of the last
      fragment as total duration or sample count, MediaSegment.CommonSampleDuration); decoding
      itself (mp4ff) is not modelled;
    - an init segment is observed as [init_obs] (mdhd timescale, trex default sample duration,
      whether addEncryption marks it pre-encrypted);
    - the MPD is observed as the values dash-mpd hands to loadAsset/loadRep ([mpd_rep], [aset]);
    - encoding/json + compress/gzip are a [Section] oracle pair [enc]/[dec] (Cache proofs);
    - everything in between (which files are read in which order, how the table is built, the
      early returns, the admission arithmetic incl. Go's int64/uint32/uint64 wrap) is model.

    Integers: Go [int] is int64, [Segment.StartTime/EndTime] uint64, [Nr] and the sample
    durations uint32.  The model computes in [Z] and writes the conversions explicitly. *)
From Verif Require Import GoSem Timeline.
From Coq Require Import Ascii.

(** * Segment table and representation data *)

Record cseg := { c_st : Z; c_en : Z; c_nr : Z; c_csd : Z }.   (* Segment; c_csd = CommonSampleDur, json:"-" *)

Definition tseg (s : cseg) : seg := {| st := c_st s; en := c_en s; snr := c_nr s |}.

Record repdata := {
  r_id : string; r_ctype : string; r_codecs : string;
  r_mpdts : Z; r_mediats : Z;
  r_inituri : string; r_mediauri : string;
  r_segs : list cseg;
  r_dsd : Z;                 (* DefaultSampleDuration *)
  r_const : option Z;        (* ConstantSampleDuration, pointer to uint32, nil = None *)
  r_preenc : bool
}.

(** The fields that writeToJSON stores (json tags of RepData and Segment). *)
Record stored := {
  s_id : string; s_ctype : string; s_codecs : string;
  s_mpdts : Z; s_mediats : Z;
  s_inituri : string; s_mediauri : string;
  s_segs : list seg;
  s_dsd : Z; s_const : option Z; s_preenc : bool
}.

Definition to_stored (r : repdata) : stored :=
  {| s_id := r_id r; s_ctype := r_ctype r; s_codecs := r_codecs r; s_mpdts := r_mpdts r;
     s_mediats := r_mediats r; s_inituri := r_inituri r; s_mediauri := r_mediauri r;
     s_segs := map tseg (r_segs r); s_dsd := r_dsd r; s_const := r_const r; s_preenc := r_preenc r |}.

(** json.Unmarshal into the RepData prepared by loadRep: every stored field is present in a file
    written by writeToJSON, so all of them are overwritten; CommonSampleDur stays 0. *)
Definition of_stored (s : stored) : repdata :=
  {| r_id := s_id s; r_ctype := s_ctype s; r_codecs := s_codecs s; r_mpdts := s_mpdts s;
     r_mediats := s_mediats s; r_inituri := s_inituri s; r_mediauri := s_mediauri s;
     r_segs := map (fun g => {| c_st := st g; c_en := en g; c_nr := snr g; c_csd := 0 |}) (s_segs s);
     r_dsd := s_dsd s; r_const := s_const s; r_preenc := s_preenc s |}.

(** The table as the serving code sees it (Timeline.rep). *)
Definition trep (r : repdata) : rep := {| segs := map tseg (r_segs r); ts := r_mediats r |}.

(** RepData.duration(): int(last.EndTime - first.StartTime), uint64 subtraction, then int64. *)
Definition rduration (l : list cseg) : Z :=
  match l with
  | [] => 0
  | s0 :: _ => i64 (u64 (c_en (last l s0) - c_st s0))
  end.

(** * File observations *)

Record segobs := {
  o_tfdt0 : Z;            (* Fragments[0].Moof.Traf.Tfdt.BaseMediaDecodeTime() *)
  o_tfdtL : Z;            (* same of the last fragment *)
  o_tfhd : option Z;      (* last fragment: tfhd default sample duration, if present *)
  o_trun : option Z;      (* last fragment's trun: Some total if it has sample durations *)
  o_count : Z;            (* last fragment's trun sample count *)
  o_csd : option Z        (* MediaSegment.CommonSampleDuration(trex): Some d if err == nil *)
}.

Inductive fobs :=
| FMissing               (* fs.ErrNotExist *)
| FBad                   (* any other error: unreadable, not decodable, not exactly one segment *)
| FNoFrag                (* decodes to one segment without fragments (e.g. a lone styp box) *)
| FSeg (o : segobs).

Inductive init_obs :=
| IBad                                    (* readInit fails (read, decode, tweak, encryption set-up) *)
| IOk (its idsd : Z) (ipreenc : bool).    (* mdhd timescale, trex default sample duration, pre-encrypted *)

(** readMP4Segment: [dsd] is r.DefaultSampleDuration before the call; it is updated as a side
    effect and used for the end time of this and (if no tfhd default follows) later segments. *)
Definition read_mp4 (dsd : Z) (o : segobs) (nr : Z) : cseg * Z :=
  let dsd' := match o_tfhd o with Some d => d | None => dsd end in
  let dur := match o_trun o with Some t => t | None => u64 (dsd' * o_count o) end in
  ({| c_st := o_tfdt0 o; c_en := u64 (o_tfdtL o + dur); c_nr := nr;
      c_csd := match o_csd o with Some d => d | None => 0 end |}, dsd').

(** readThumbSegment: only existence of the file is observed. *)
Definition read_thumb (nr startNr dur : Z) : cseg :=
  let startTime := u64 (u32 (nr - startNr) * dur) in
  {| c_st := startTime; c_en := u64 (startTime + dur); c_nr := nr; c_csd := 0 |}.

(** * loadRep, SegmentTemplate with $Number$ *)

(** rp.Segments[len(rp.Segments)-1].EndTime = t *)
Fixpoint set_last_end (l : list cseg) (t : Z) : option (list cseg) :=
  match l with
  | [] => None
  | [s] => Some [ {| c_st := c_st s; c_en := t; c_nr := c_nr s; c_csd := c_csd s |} ]
  | s :: rest => match set_last_end rest t with Some r => Some (s :: r) | None => None end
  end.

(** [files] are the observations of the files numbered [nr], [nr+1], ... (uint32 increment);
    past the end of the list every file is missing.  [thumb = Some dur] for image representations.
    Result: table, DefaultSampleDuration, endNr. *)
Fixpoint number_loop (thumb : option Z) (files : list fobs) (startNr endNr nr dsd : Z) (acc : list cseg)
  : res (list cseg * Z * Z) :=
  match files with
  | [] => Ok (acc, dsd, u32 (nr - 1))
  | f :: rest =>
    match f with
    | FMissing => Ok (acc, dsd, u32 (nr - 1))
    | FBad => Err "readSegment"
    | FNoFrag => Err "readSegment"      (* "no fragments in ..." *)
    | FSeg o =>
      let '(sg, dsd') := match thumb with
                         | None => read_mp4 dsd o nr
                         | Some dur => (read_thumb nr startNr dur, dsd)
                         end in
      let fix_prev := if nr >? startNr then
                        match set_last_end acc (c_st sg) with
                        | Some a => Ok a
                        | None => Panic "loadRep: index out of range [-1]"
                        end
                      else Ok acc in
      do acc1 <- fix_prev;
      let acc2 := acc1 ++ [sg] in
      if nr =? endNr then Ok (acc2, dsd', endNr)
      else number_loop thumb rest startNr endNr (u32 (nr + 1)) dsd' acc2
    end
  end.

Definition load_number (thumb : option Z) (files : list fobs) (startNumber endNumber : option Z) (dsd : Z)
  : res (list cseg * Z) :=
  let startNr := match startNumber with Some n => n | None => 1 end in
  let endNr := match endNumber with Some n => n | None => u32 (startNr - 1) end in
  do r <- number_loop thumb files startNr endNr startNr dsd [];
  let '(segs, dsd', endNr') := r in
  if endNr' <? startNr then Err "no segments read" else Ok (segs, dsd').

(** * loadRep, SegmentTimeline with $Time$ *)

Record sentry := { e_t : option Z; e_d : Z; e_r : Z }.   (* <S t d r> *)

(** [n] further reads at t, t+d, ... (uint64 addition). Every failing read (also a missing file) is an error. *)
Fixpoint time_reads (tfile : Z -> fobs) (n : nat) (t d dsd : Z) (acc : list cseg) : res (list cseg * Z * Z) :=
  match n with
  | O => Ok (acc, dsd, t)
  | Datatypes.S k =>
    match tfile t with
    | FSeg o => let '(sg, dsd') := read_mp4 dsd o 0 in
                time_reads tfile k (u64 (t + d)) d dsd' (acc ++ [sg])
    | _ => Err "readMP4Segment"
    end
  end.

Fixpoint time_loop (tfile : Z -> fobs) (es : list sentry) (t dsd : Z) (acc : list cseg) : res (list cseg * Z) :=
  match es with
  | [] => Ok (acc, dsd)
  | e :: rest =>
    let t0 := match e_t e with Some x => x | None => t end in
    do r <- time_reads tfile (Datatypes.S (Z.to_nat (e_r e))) t0 (e_d e) dsd acc;
    let '(acc', dsd', t') := r in
    time_loop tfile rest t' dsd' acc'
  end.

(** * ConstantSampleDuration folding (the segLoop of loadRep) *)

Fixpoint csd_fold (l : list cseg) (common : Z) : Z :=
  match l with
  | [] => common
  | s :: rest =>
    if common <? 0 then csd_fold rest (c_csd s)
    else if common =? c_csd s then csd_fold rest common
    else 0
  end.

Definition const_sample_dur (l : list cseg) : option Z :=
  let c := csd_fold l (-1) in if c >=? 0 then Some (u32 c) else None.

(** * addRegExpAndInit / readInit *)

Definition contains (s sub : string) : bool :=
  match String.index 0 sub s with Some _ => true | None => false end.

Inductive ukind := UNumber | UTime | UNone.
Definition uri_kind (u : string) : ukind :=
  if contains u "$Number$" then UNumber else if contains u "$Time$" then UTime else UNone.

Definition with_init (r : repdata) (mediats dsd : Z) (preenc : bool) : repdata :=
  {| r_id := r_id r; r_ctype := r_ctype r; r_codecs := r_codecs r; r_mpdts := r_mpdts r;
     r_mediats := mediats; r_inituri := r_inituri r; r_mediauri := r_mediauri r;
     r_segs := r_segs r; r_dsd := dsd; r_const := r_const r; r_preenc := preenc |}.

Definition add_init (r : repdata) (i : init_obs) : res repdata :=
  match uri_kind (r_mediauri r) with
  | UNone => Err "neither $Number$, nor $Time$ found in media"
  | _ =>
    if String.eqb (r_ctype r) "image" then Ok r else
    match i with
    | IBad => Err "readInit"
    | IOk its idsd ipe =>
      let pe := r_preenc r || ipe in
      if r_mediats r =? 0 then Ok (with_init r its idsd pe)   (* MediaTimescale not yet set *)
      else Ok (with_init r (r_mediats r) (r_dsd r) pe)
    end
  end.

(** * loadRep *)

(** What loadRep receives: the MPD values and the observations of the files it may open. *)
Record mpd_rep := {
  m_id : string; m_ctype : string;          (* rep.Id, as.ContentType *)
  m_as_codecs : string; m_rep_codecs : string;
  m_inituri : string; m_mediauri : string;  (* after replaceIdentifiers *)
  m_timescale : option Z;                   (* st.Timescale *)
  m_timeline : option (list sentry);        (* st.SegmentTimeline *)
  m_startnr : option Z; m_endnr : option Z; (* st.StartNumber, st.EndNumber *)
  m_duration : option Z;                    (* as.SegmentTemplate.Duration *)
  m_init_at : string -> init_obs;           (* the init segment found at a given URI of the asset *)
  m_files : list fobs;                      (* $Number$: files startNr, startNr+1, ... *)
  m_tfiles : Z -> fobs                      (* $Time$: file for a given time *)
}.

(** the init segment the MPD points to *)
Definition m_init (m : mpd_rep) : init_obs := m_init_at m (m_inituri m).

Definition with_table (r : repdata) (mediats : Z) (segs : list cseg) (dsd : Z) (c : option Z) : repdata :=
  {| r_id := r_id r; r_ctype := r_ctype r; r_codecs := r_codecs r; r_mpdts := r_mpdts r;
     r_mediats := mediats; r_inituri := r_inituri r; r_mediauri := r_mediauri r;
     r_segs := segs; r_dsd := dsd; r_const := c; r_preenc := r_preenc r |}.

(** The part of loadRep that reads all segments ("Loading full representation by reading all segments"). *)
Definition scan_rep (m : mpd_rep) : res repdata :=
  let rp0 := {| r_id := m_id m; r_ctype := m_ctype m;
                r_codecs := if String.eqb (m_rep_codecs m) "" then m_as_codecs m else m_rep_codecs m;
                r_mpdts := match m_timescale m with Some t => t | None => 1 end;
                r_mediats := 0; r_inituri := m_inituri m; r_mediauri := m_mediauri m;
                r_segs := []; r_dsd := 0; r_const := None; r_preenc := false |} in
  do rp <- add_init rp0 (m_init m);
  do tab <-
    match m_timeline m, uri_kind (r_mediauri rp) with
    | Some es, UTime =>
      do r <- time_loop (m_tfiles m) es 0 (r_dsd rp) [];
      Ok (r_mediats rp, fst r, snd r)
    | Some _, UNumber => Err "SegmentTimeline with $Number$ not yet supported"
    | None, UNumber =>
      let image := String.eqb (r_ctype rp) "image" in
      let '(thumb, mediats) :=
        if image then
          match m_duration m with
          | Some d => (Some d, match m_timescale m with Some t => t | None => 1 end)
          | None => (Some 0, r_mediats rp)
          end
        else (None, r_mediats rp) in
      do r <- load_number thumb (m_files m) (m_startnr m) (m_endnr m) (r_dsd rp);
      Ok (mediats, fst r, snd r)
    | _, _ => Err "unknown type of representation"
    end;
  let '(mediats, segs, dsd) := tab in
  Ok (with_table rp mediats segs dsd (const_sample_dur segs)).

(** The cache file of one representation as loadFromJSON finds it. *)
Inductive cobs (B : Type) :=
| CAbsent                 (* no file (or empty): (false, nil) *)
| CBroken                 (* gzip or read error: (true, err); loadRep then scans *)
| CBytes (b : B).         (* decompressed / plain contents *)
Arguments CAbsent {B}. Arguments CBroken {B}. Arguments CBytes {B} b.

(** Server configuration as far as the loader is concerned. *)
Record lmode := { use_cache : bool;     (* repDataDir != "" && !writeRepData *)
                  do_write : bool }.    (* repDataDir != "" && writeRepData *)
Definition mode_scan  := {| use_cache := false; do_write := false |}.
Definition mode_write := {| use_cache := false; do_write := true |}.
Definition mode_read  := {| use_cache := true;  do_write := false |}.

Section Loader.
  (** json.Marshal + gzip.Writer, and gzip.Reader + json.Unmarshal. *)
  Variable B : Type.
  Variable enc : stored -> B.
  Variable dec : B -> option stored.

  (** loadFromJSON on an existing file: after the decode, addRegExpAndInit reads the init segment
      that the FILE names (for a stale file that may be another one than the MPD's, or none). *)
  Definition load_json (b : B) (init_at : string -> init_obs) : res repdata :=
    match dec b with
    | None => Err "json.Unmarshal"
    | Some s => add_init (of_stored s) (init_at (s_inituri s))
    end.

  (** loadRep: result and the file written (if any). *)
  Definition load_rep (md : lmode) (c : cobs B) (m : mpd_rep) : res repdata * option B :=
    let scan := scan_rep m in
    let scan_w := (scan, match scan with Ok r => if do_write md then Some (enc (to_stored r)) else None | _ => None end) in
    if use_cache md then
      match c with
      | CAbsent => scan_w
      | CBroken => scan_w              (* logged; the segments are scanned instead *)
      | CBytes b =>
        match load_json b (m_init_at m) with
        | Ok r => (Ok r, None)
        | Panic s => (Panic s, None)
        | Err _ => scan_w              (* logged; the segments are scanned instead *)
        end
      end
    else scan_w.

  (** * loadAsset *)

  Record aset := {
    as_has_template : bool;
    as_ctype : string;
    as_reps : list (bool * mpd_rep)       (* (rep.SegmentTemplate != nil, rep) *)
  }.

  Inductive mpd_obs :=
  | MReadErr                  (* fs.ReadFile fails *)
  | MBad                      (* not parsable, number of periods != 1, type != static *)
  | MNoType (sets : list aset) (* static by default: one period, no type attribute (mpd.Type is nil) *)
  | MNoDur (sets : list aset)  (* one period, static, no mediaPresentationDuration attribute *)
  | MOk (sets : list aset).

  Definition mpd_sets (o : mpd_obs) : option (list aset) :=
    match o with MOk s | MNoType s | MNoDur s => Some s | _ => None end.

  Record asset := {
    a_mpds : list string;
    a_reps : list (string * repdata);     (* insertion order *)
    a_segdur : Z;                          (* SegmentDurMS *)
    a_loop : Z;                            (* LoopDurMS *)
    a_ref : option string
  }.
  Definition empty_asset := {| a_mpds := []; a_reps := []; a_segdur := 0; a_loop := 0; a_ref := None |}.

  Fixpoint lookup {V} (k : string) (l : list (string * V)) : option V :=
    match l with
    | [] => None
    | (k', v) :: t => if String.eqb k k' then Some v else lookup k t
    end.

  Fixpoint upsert {V} (k : string) (v : V) (l : list (string * V)) : list (string * V) :=
    match l with
    | [] => [(k, v)]
    | (k', v') :: t => if String.eqb k k' then (k, v) :: t else (k', v') :: upsert k v t
    end.

  (** The cache directory: (asset path, representation id) -> file. *)
  Definition cache := string -> string -> cobs B.
  Definition cache_set (c : cache) (a id : string) (b : B) : cache :=
    fun a' id' => if String.eqb a a' && String.eqb id id' then CBytes b else c a' id'.

  (** int(math.Round(float64(dur*1000)) / float64(ts*n)): the float quotient truncated. For
      dur*1000 < 2^53 and ts*n > 0 this is the integer quotient.  For ts*n = 0 the quotient is
      NaN or an infinity, and the conversion to int yields the smallest int64 (amd64/arm64 compiled
      code; the Go specification leaves it implementation-defined). *)
  Definition avg_seg_dur_ms (r : repdata) : Z :=
    let d := r_mediats r * lenZ (r_segs r) in
    if d =? 0 then - two63 else Z.quot (rduration (r_segs r) * 1000) d.

  Definition add_rep (a : asset) (r : repdata) : asset :=
    let avg := avg_seg_dur_ms r in
    {| a_mpds := a_mpds a; a_reps := upsert (r_id r) r (a_reps a);
       a_segdur := if (a_segdur a =? 0) || (avg <? a_segdur a) then avg else a_segdur a;
       a_loop := a_loop a; a_ref := a_ref a |}.

  (** State threaded through loadAsset: the asset (registered from the start) and the cache
      directory; [option string] is the error that stops the loading of this MPD. *)
  Definition lstate := (asset * cache * option string)%type.

  Fixpoint load_reps (md : lmode) (apath : string) (actype : string) (reps : list (bool * mpd_rep)) (a : asset) (c : cache)
    : res lstate :=
    match reps with
    | [] => Ok (a, c, None)
    | (has_tmpl, m) :: rest =>
      if has_tmpl then Ok (a, c, Some "segmentTemplate on Representation level")
      else match lookup (m_id m) (a_reps a) with
      | Some _ => load_reps md apath actype rest a c          (* already loaded *)
      | None =>
        let '(rr, w) := load_rep md (c apath (m_id m)) m in
        let c' := match w with Some b => cache_set c apath (m_id m) b | None => c end in
        match rr with
        | Panic s => Panic s
        | Err e => Ok (a, c', Some "getRep")
        | Ok r =>
          if lenZ (r_segs r) =? 0 then Ok (a, c', Some "has no segments")
          else
            let a' := add_rep a r in
            if String.eqb actype "audio" &&
               match r_const r with None => true | Some d => d =? 0 end
            then Ok (a', c', Some "no constant sample duration")
            else load_reps md apath actype rest a' c'
        end
      end
    end.

  Fixpoint load_sets (md : lmode) (apath : string) (sets : list aset) (a : asset) (c : cache) : res lstate :=
    match sets with
    | [] => Ok (a, c, None)
    | s :: rest =>
      if negb (as_has_template s) then Ok (a, c, Some "no SegmentTemplate in adaptation set")
      else
        do r <- load_reps md apath (as_ctype s) (as_reps s) a c;
        let '(a', c', e) := r in
        match e with
        | Some _ => Ok r
        | None => load_sets md apath rest a' c'
        end
    end.

  (** loadAsset for one MPD of the asset [a] (already registered by addAsset).  The MPD, its new
      representations and SegmentDurMS are committed to the asset only when all of them loaded
      (newReps / segmentDurMS in the code); files written to the cache directory stay. *)
  Definition load_mpd (md : lmode) (apath mpdName : string) (sets : list aset) (a : asset) (c : cache) : res lstate :=
    let a1 := {| a_mpds := a_mpds a ++ [mpdName]; a_reps := a_reps a; a_segdur := a_segdur a;
                 a_loop := a_loop a; a_ref := a_ref a |} in
    do r <- load_sets md apath sets a1 c;
    let '(a', c', e) := r in
    Ok (match e with None => a' | Some _ => a end, c', e).

  Definition load_asset (md : lmode) (apath mpdName : string) (o : mpd_obs) (a : asset) (c : cache) : res lstate :=
    match o with
    | MReadErr => Ok (a, c, Some "read MPD")
    | MBad => Ok (a, c, Some "bad MPD")
    | MNoDur sets => load_mpd md apath mpdName sets a c       (* the duration text stays empty *)
    | MNoType sets => load_mpd md apath mpdName sets a c      (* a missing type attribute means "static" *)
    | MOk sets => load_mpd md apath mpdName sets a c
    end.

  (** * setReferenceRep and consolidateAsset *)

  (** First key in sort.Strings order whose representation has the content type. *)
  Fixpoint min_key (ct : string) (l : list (string * repdata)) (best : option string) : option string :=
    match l with
    | [] => best
    | (k, r) :: t =>
      if String.eqb (r_ctype r) ct then
        match best with
        | Some b => min_key ct t (if String.ltb k b then Some k else Some b)
        | None => min_key ct t (Some k)
        end
      else min_key ct t best
    end.

  Definition reference_rep (a : asset) : option string :=
    match min_key "video" (a_reps a) None with
    | Some k => Some k
    | None => min_key "audio" (a_reps a) None
    end.

  Definition mul64 (a b : Z) : Z := i64 (a * b).

  (** 1000 * rep.duration() / rep.MediaTimescale *)
  Definition dur_ms (r : repdata) : res Z :=
    go_div "consolidateAsset: integer divide by zero" (mul64 1000 (rduration (r_segs r))) (r_mediats r).

  (** the contiguity test of consolidateAsset: Segments[i].StartTime == Segments[i-1].EndTime *)
  Fixpoint table_contig_b (l : list cseg) : bool :=
    match l with
    | a :: ((b :: _) as t) => (c_st b =? c_en a) && table_contig_b t
    | _ => true
    end.

  (** The loop over all representations. [Ok None]: some table is not contiguous (error returned at
      once); [Ok (Some b)]: b = no duration differs.  Audio next to a non-audio reference is
      re-segmented and only compared (in ms) when pre-encrypted; every other representation must
      have exactly the duration of the reference (cross-multiplied ticks).  Representations with
      timescale 0 (thumbnails without a duration) are skipped after the contiguity test.  Go ranges
      over a map; no outcome depends on the order (the first non-contiguous table ends the loop
      with the same error whichever it is). *)
  Fixpoint check_reps (ref : repdata) (loopMS : Z) (l : list (string * repdata)) : res (option bool) :=
    match l with
    | [] => Ok (Some true)
    | (_, r) :: t =>
      if negb (table_contig_b (r_segs r)) then Ok None else
      if r_mediats r =? 0 then check_reps ref loopMS t else     (* no media timeline that is looped *)
      do d <- dur_ms r;
      let same := mul64 (rduration (r_segs r)) (r_mediats ref) =? mul64 (rduration (r_segs ref)) (r_mediats r) in
      let this :=
        if String.eqb (r_ctype r) "audio" && negb (String.eqb (r_ctype ref) "audio") then
          (if negb (r_preenc r) then true else d =? loopMS)
        else same in
      do rest <- check_reps ref loopMS t;
      Ok (match rest with None => None | Some b => Some (this && b) end)
    end.

  (** int(math.Round(float64(dur*1000) / float64(ts*n))) for the reference representation: the
      quotient rounded half away from zero (exact for |dur*1000| < 2^53; ts*n > 0 here). *)
  Definition ref_seg_dur_ms (r : repdata) : Z :=
    let x := mul64 (rduration (r_segs r)) 1000 in
    let d := r_mediats r * lenZ (r_segs r) in
    if d =? 0 then - two63
    else if x >=? 0 then (2 * x + d) / (2 * d) else - ((2 * (- x) + d) / (2 * d)).

  (** consolidateAsset: [Ok (Some a')] admitted, [Ok None] left out.  The segment duration of an
      admitted asset is that of its reference representation. *)
  Definition consolidate (a : asset) : res (option asset) :=
    match reference_rep a with
    | None => Ok None
    | Some k =>
      match lookup k (a_reps a) with
      | None => Panic "consolidateAsset: nil reference"
      | Some ref =>
        do loopMS <- dur_ms ref;
        if negb (mul64 loopMS (r_mediats ref) =? mul64 1000 (rduration (r_segs ref))) then Ok None
        else
          do v <- check_reps ref loopMS (a_reps a);
          match v with
          | Some true => Ok (Some {| a_mpds := a_mpds a; a_reps := a_reps a; a_segdur := ref_seg_dur_ms ref;
                                     a_loop := loopMS; a_ref := Some k |})
          | _ => Ok None
          end
      end
    end.

  (** * discoverAssets *)

  (** MPD files in fs.WalkDir order: (asset path, MPD name, observation). *)
  Definition mpd_list := list (string * string * mpd_obs).

  Fixpoint load_all (md : lmode) (l : mpd_list) (assets : list (string * asset)) (c : cache)
    : res (list (string * asset) * cache) :=
    match l with
    | [] => Ok (assets, c)
    | (apath, name, o) :: rest =>
      let a := match lookup apath assets with Some a => a | None => empty_asset end in   (* addAsset *)
      do r <- load_asset md apath name o a c;
      let '(a', c', _) := r in          (* the error is only logged: "Asset loading problem. Skipping" *)
      load_all md rest (upsert apath a' assets) c'
    end.

  Fixpoint consolidate_all (l : list (string * asset)) : res (list (string * asset)) :=
    match l with
    | [] => Ok []
    | (p, a) :: t =>
      do ca <- consolidate a;
      do rest <- consolidate_all t;
      Ok (match ca with Some a' => (p, a') :: rest | None => rest end)
    end.

  (** Result: the served assets and the cache directory afterwards. *)
  Definition discover (md : lmode) (l : mpd_list) (c : cache) : res (list (string * asset) * cache) :=
    do r <- load_all md l [] c;
    let '(assets, c') := r in
    if lenZ assets =? 0 then Err "no compatible assets found"
    else do served <- consolidate_all assets; Ok (served, c').

End Loader.
