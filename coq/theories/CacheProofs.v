(** Proofs about the loader model (Cache.v), part 1: stored fields and the JSON oracle pair,
    contiguity of $Number$ tables, the $Time$ table as the plain list of file observations,
    ConstantSampleDuration folding, the admission arithmetic of consolidateAsset. *)
From Verif Require Import GoSem GoSemFacts Timeline Cache.
From Coq Require Import ZifyBool.
Ltac Zify.zify_post_hook ::= Z.div_mod_to_equations.

(** * Integer conversions *)

Lemma c15_u32_small z : 0 <= z < two32 -> u32 z = z.
Proof. unfold u32, two32. intros. rewrite Z.mod_small; lia. Qed.
Lemma c15_u64_small z : 0 <= z < two64 -> u64 z = z.
Proof. unfold u64, two64. intros. rewrite Z.mod_small; lia. Qed.
Lemma c15_i64_small z : - two63 <= z < two63 -> i64 z = z.
Proof. unfold i64, two63, two64. intros. rewrite Z.mod_small; lia. Qed.

(** * Stored fields *)

Lemma tseg_of_stored_seg g : tseg {| c_st := st g; c_en := en g; c_nr := snr g; c_csd := 0 |} = g.
Proof. destruct g; reflexivity. Qed.

Lemma to_stored_of_stored s : to_stored (of_stored s) = s.
Proof.
  destruct s as [i c co mt me iu mu sg d k p]. unfold to_stored, of_stored; cbn.
  f_equal. rewrite map_map. rewrite <- (map_id sg) at 2. apply map_ext. intros g. apply tseg_of_stored_seg.
Qed.

(** What a cache round trip does to a representation: everything is kept except CommonSampleDur. *)
Definition stored_fields (r : repdata) : repdata := of_stored (to_stored r).

Lemma stored_fields_idem r : stored_fields (stored_fields r) = stored_fields r.
Proof. unfold stored_fields. now rewrite to_stored_of_stored. Qed.

Lemma to_stored_stored_fields r : to_stored (stored_fields r) = to_stored r.
Proof. unfold stored_fields. apply to_stored_of_stored. Qed.

Lemma stored_fields_table r : map tseg (r_segs (stored_fields r)) = map tseg (r_segs r).
Proof. change (s_segs (to_stored (stored_fields r)) = s_segs (to_stored r)). now rewrite to_stored_stored_fields. Qed.

Lemma trep_stored_fields r : trep (stored_fields r) = trep r.
Proof. unfold trep. rewrite stored_fields_table. reflexivity. Qed.

(** * [contiguous] *)

Definition ccontig (l : list cseg) : Prop := contiguous (map tseg l).

Lemma contiguous_app_one l x :
  contiguous (l ++ [x]) <-> contiguous l /\ (forall y, last l x = y -> l <> [] -> en y = st x).
Proof.
  induction l as [|a l IH]; cbn [app].
  - cbn. split; [intros _; split; [exact I|intros y _ H; now destruct H]|auto].
  - destruct l as [|b l'].
    + cbn. split.
      * intros [H _]. split; [exact I|]. intros y <- _. exact H.
      * intros [_ H]. split; [|exact I]. apply (H a); [reflexivity|discriminate].
    + change ((a :: b :: l') ++ [x]) with (a :: (b :: l') ++ [x]).
      change (contiguous (a :: (b :: l') ++ [x])) with (en a = st b /\ contiguous ((b :: l') ++ [x])).
      change (contiguous (a :: b :: l')) with (en a = st b /\ contiguous (b :: l')).
      rewrite IH. change (last (a :: b :: l') x) with (last (b :: l') x).
      split.
      * intros [H1 [H2 H3]]. split; [split; assumption|]. intros y Hy _. apply H3; [exact Hy|discriminate].
      * intros [[H1 H2] H3]. split; [assumption|]. split; [assumption|]. intros y Hy _. apply H3; [exact Hy|discriminate].
Qed.

(** * set_last_end *)

Lemma set_last_end_cons2 a b l t :
  set_last_end (a :: b :: l) t = match set_last_end (b :: l) t with Some r => Some (a :: r) | None => None end.
Proof. reflexivity. Qed.

Lemma set_last_end_some l t : l <> [] -> exists l', set_last_end l t = Some l'.
Proof.
  induction l as [|a l IH]; [congruence|]. intros _. destruct l as [|b l'].
  - eexists; reflexivity.
  - destruct IH as [r Hr]; [congruence|]. rewrite set_last_end_cons2, Hr. eauto.
Qed.

Lemma set_last_end_spec l t l' :
  set_last_end l t = Some l' ->
  exists pre s, l = pre ++ [s] /\
                l' = pre ++ [ {| c_st := c_st s; c_en := t; c_nr := c_nr s; c_csd := c_csd s |} ].
Proof.
  revert l'. induction l as [|a l IH]; intros l' H; [discriminate|].
  destruct l as [|b l2].
  - cbn in H. inversion H. exists [], a. split; reflexivity.
  - rewrite set_last_end_cons2 in H. destruct (set_last_end (b :: l2) t) as [r|] eqn:E; [|discriminate].
    inversion H; subst. destruct (IH r eq_refl) as [pre [s [H1 H2]]].
    exists (a :: pre), s. rewrite H1, H2. split; reflexivity.
Qed.

Lemma ccontig_set_last l s t :
  ccontig (l ++ [s]) -> ccontig (l ++ [ {| c_st := c_st s; c_en := t; c_nr := c_nr s; c_csd := c_csd s |} ]).
Proof.
  unfold ccontig. rewrite !map_app. cbn [map]. rewrite !contiguous_app_one.
  intros [H1 H2]. split; [exact H1|]. intros y Hy Hne. cbn [tseg st].
  specialize (H2 (last (map tseg l) (tseg s))).
  rewrite <- Hy.
  assert (Hl : forall d1 d2, map tseg l <> [] -> last (map tseg l) d1 = last (map tseg l) d2).
  { intros d1 d2. generalize (map tseg l). induction l0 as [|q l0 IHl]; [congruence|].
    intros _. destruct l0; [reflexivity|]. cbn [last]. cbn [last] in IHl. apply IHl. discriminate. }
  rewrite (Hl _ (tseg s) Hne). apply H2; [reflexivity|exact Hne].
Qed.

(** Appending a segment after setting the previous end to its start keeps the table contiguous. *)
Lemma ccontig_fix_append l l' sg :
  ccontig l -> set_last_end l (c_st sg) = Some l' -> ccontig (l' ++ [sg]).
Proof.
  intros Hc Hs. destruct (set_last_end_spec _ _ _ Hs) as [pre [s [-> ->]]].
  pose proof (ccontig_set_last pre s (c_st sg) Hc) as H.
  unfold ccontig in *. rewrite map_app. cbn [map]. apply contiguous_app_one. split; [exact H|].
  intros y Hy _. rewrite map_app in Hy. cbn [map] in Hy. rewrite last_last in Hy. subst y. reflexivity.
Qed.

(** * $Number$ tables are contiguous by construction *)

Lemma number_loop_contig thumb : forall files startNr endNr nr dsd acc segs dsd' endNr',
  0 <= startNr -> nr + lenZ files <= two32 ->
  startNr <= nr -> (acc = [] <-> nr = startNr) ->
  ccontig acc ->
  number_loop thumb files startNr endNr nr dsd acc = Ok (segs, dsd', endNr') ->
  ccontig segs.
Proof.
  induction files as [|f files IH]; intros startNr endNr nr dsd acc segs dsd' endNr' H0 Hlen Hnr Hacc Hc H.
  - cbn in H. inversion H; subst. exact Hc.
  - rewrite lenZ_cons in Hlen. pose proof (lenZ_nonneg files) as Hl.
    cbn [number_loop] in H. destruct f as [| | |o]; [inversion H; subst; exact Hc|discriminate|discriminate|].
    set (p := match thumb with None => read_mp4 dsd o nr | Some dur => (read_thumb nr startNr dur, dsd) end) in H.
    destruct p as [sg dsd1].
    assert (Hacc1 : exists acc1,
       (if nr >? startNr then match set_last_end acc (c_st sg) with Some a => Ok a | None => Panic "loadRep: index out of range [-1]" end else Ok acc) = Ok acc1
       /\ ccontig (acc1 ++ [sg])).
    { destruct (nr >? startNr) eqn:E.
      - assert (Hne : acc <> []) by (intros Hx; apply Hacc in Hx; lia).
        destruct (set_last_end_some acc (c_st sg) Hne) as [a Ha]. rewrite Ha. exists a. split; [reflexivity|].
        eapply ccontig_fix_append; eauto.
      - assert (acc = []) as -> by (apply Hacc; lia). exists []. split; [reflexivity|]. exact I. }
    destruct Hacc1 as [acc1 [E1 Hc1]]. rewrite E1 in H. cbn [bind] in H.
    destruct (nr =? endNr); [inversion H; subst; exact Hc1|].
    destruct files as [|f2 files2] eqn:Ef; [cbn in H; inversion H; subst; exact Hc1|]. rewrite <- Ef in *.
    assert (Hl2 : 1 <= lenZ files) by (rewrite Ef, lenZ_cons; pose proof (lenZ_nonneg files2); lia).
    assert (Hu : u32 (nr + 1) = nr + 1) by (apply c15_u32_small; unfold two32 in *; lia).
    rewrite Hu in H. eapply IH; try exact H; try lia; [|exact Hc1].
    split; [intros Hx; destruct acc1; discriminate|lia].
Qed.

Lemma load_number_contig thumb files sn en dsd segs dsd' :
  0 <= match sn with Some n => n | None => 1 end ->
  match sn with Some n => n | None => 1 end + lenZ files <= two32 ->
  load_number thumb files sn en dsd = Ok (segs, dsd') -> ccontig segs.
Proof.
  intros H0 Hlen H. unfold load_number in H.
  set (startNr := match sn with Some n => n | None => 1 end) in *.
  destruct (number_loop thumb files startNr (match en with Some n => n | None => u32 (startNr - 1) end) startNr dsd []) as [[[s d] e]| |] eqn:E;
    cbn [bind] in H; try discriminate.
  destruct (e <? startNr); [discriminate|]. inversion H; subst.
  eapply number_loop_contig; try exact E; try lia; [tauto|exact I].
Qed.

(** Beyond the bound the uint32 number wraps; the loader then ends with endNr < startNr and
    reports "no segments read" (files 4294967295.m4s and 0.m4s exist, 1.m4s does not). *)
Lemma number_wrap_is_error :
  load_number None
    [FSeg {| o_tfdt0 := 0; o_tfdtL := 0; o_tfhd := None; o_trun := Some 10; o_count := 1; o_csd := Some 10 |};
     FSeg {| o_tfdt0 := 17; o_tfdtL := 17; o_tfhd := None; o_trun := Some 10; o_count := 1; o_csd := Some 10 |}]
    (Some 4294967295) None 0 = Err "no segments read".
Proof. vm_compute. reflexivity. Qed.

(** * $Time$ tables are the plain list of the files' own (start, end) pairs *)

(** The times at which the Time branch opens files, in order (depends on the MPD only). *)
Fixpoint visits_entry (n : nat) (t d : Z) : list Z * Z :=
  match n with
  | O => ([], t)
  | Datatypes.S k => let '(l, t') := visits_entry k (u64 (t + d)) d in (t :: l, t')
  end.

Fixpoint visits (es : list sentry) (t : Z) : list Z :=
  match es with
  | [] => []
  | e :: rest =>
    let t0 := match e_t e with Some x => x | None => t end in
    let '(l, t') := visits_entry (Datatypes.S (Z.to_nat (e_r e))) t0 (e_d e) in
    l ++ visits rest t'
  end.

(** The files' own rows: every observation read with [read_mp4], the default sample duration threaded. *)
Fixpoint file_table (obs : list fobs) (dsd : Z) : res (list cseg * Z) :=
  match obs with
  | [] => Ok ([], dsd)
  | FSeg o :: rest =>
    let '(sg, dsd') := read_mp4 dsd o 0 in
    match file_table rest dsd' with Ok (l, d) => Ok (sg :: l, d) | Err e => Err e | Panic s => Panic s end
  | _ :: _ => Err "readMP4Segment"
  end.

Lemma file_table_app a b dsd :
  file_table (a ++ b) dsd =
  match file_table a dsd with
  | Ok (la, d) => match file_table b d with Ok (lb, d') => Ok (la ++ lb, d') | Err e => Err e | Panic s => Panic s end
  | Err e => Err e
  | Panic s => Panic s
  end.
Proof.
  revert dsd. induction a as [|f a IH]; intros dsd; cbn [app file_table].
  - destruct (file_table b dsd) as [[lb d']| |]; reflexivity.
  - destruct f as [| | |o]; try reflexivity. destruct (read_mp4 dsd o 0) as [sg d1]. rewrite IH.
    destruct (file_table a d1) as [[la d]| |]; try reflexivity.
    destruct (file_table b d) as [[lb d']| |]; reflexivity.
Qed.

Lemma time_reads_spec tfile : forall n t d dsd acc,
  time_reads tfile n t d dsd acc =
  match file_table (map tfile (fst (visits_entry n t d))) dsd with
  | Ok (l, dsd') => Ok (acc ++ l, dsd', snd (visits_entry n t d))
  | Err e => Err e
  | Panic s => Panic s
  end.
Proof.
  induction n as [|n IH]; intros t d dsd acc; cbn [time_reads visits_entry].
  - cbn. now rewrite app_nil_r.
  - destruct (visits_entry n (u64 (t + d)) d) as [l t'] eqn:E. cbn [fst snd map file_table].
    destruct (tfile t) as [| | |o]; try reflexivity.
    destruct (read_mp4 dsd o 0) as [sg d1]. rewrite IH, E. cbn [fst snd].
    destruct (file_table (map tfile l) d1) as [[l2 d2]| |]; try reflexivity.
    now rewrite <- app_assoc.
Qed.

Lemma time_loop_spec tfile : forall es t dsd acc,
  time_loop tfile es t dsd acc =
  match file_table (map tfile (visits es t)) dsd with
  | Ok (l, dsd') => Ok (acc ++ l, dsd')
  | Err e => Err e
  | Panic s => Panic s
  end.
Proof.
  induction es as [|e es IH]; intros t dsd acc; cbn [time_loop visits].
  - cbn. now rewrite app_nil_r.
  - rewrite time_reads_spec.
    destruct (visits_entry (Datatypes.S (Z.to_nat (e_r e))) (match e_t e with Some x => x | None => t end) (e_d e)) as [l t'] eqn:E.
    cbn [fst snd]. rewrite map_app, file_table_app.
    destruct (file_table (map tfile l) dsd) as [[l1 d1]| |]; cbn [bind]; try reflexivity.
    rewrite IH. destruct (file_table (map tfile (visits es t')) d1) as [[l2 d2]| |]; try reflexivity.
    now rewrite <- app_assoc.
Qed.

(** The table of a $Time$ representation is contiguous iff the rows of the files are: nothing is
    adjusted and nothing is checked. *)
Lemma time_table_contig_iff tfile es dsd segs dsd' :
  time_loop tfile es 0 dsd [] = Ok (segs, dsd') ->
  exists rows, file_table (map tfile (visits es 0)) dsd = Ok (rows, dsd') /\ segs = rows /\
               (ccontig segs <-> ccontig rows).
Proof.
  rewrite time_loop_spec. destruct (file_table (map tfile (visits es 0)) dsd) as [[rows d]| |]; try discriminate.
  cbn [app]. intros H. inversion H; subst. exists segs. repeat split; auto.
Qed.

(** Witness: the file opened for time 2000 starts at 2300; the served table has the gap. *)
Lemma time_gap_is_served :
  exists tfile es segs dsd',
    time_loop tfile es 0 40 [] = Ok (segs, dsd') /\ ~ ccontig segs.
Proof.
  exists (fun t => if t =? 0 then FSeg {| o_tfdt0 := 0; o_tfdtL := 0; o_tfhd := None; o_trun := None; o_count := 50; o_csd := Some 40 |}
                   else if t =? 2000 then FSeg {| o_tfdt0 := 2300; o_tfdtL := 2300; o_tfhd := None; o_trun := None; o_count := 50; o_csd := Some 40 |}
                   else FMissing).
  exists [ {| e_t := Some 0; e_d := 2000; e_r := 1 |} ]. eexists. eexists.
  split; [vm_compute; reflexivity|]. unfold ccontig. cbn. intros [H _]. discriminate.
Qed.

(** * ConstantSampleDuration *)

Lemma csd_fold_nonneg l : forall c, 0 <= c -> (forall s, In s l -> 0 <= c_csd s) -> 0 <= csd_fold l c.
Proof.
  induction l as [|s l IH]; intros c Hc Hl; cbn [csd_fold]; [exact Hc|].
  destruct (c <? 0) eqn:E; [lia|]. destruct (c =? c_csd s); [|lia]. apply IH; [exact Hc|]. intros; apply Hl; now right.
Qed.

(** All segments have the common sample duration [d] iff the fold keeps it. *)
Lemma csd_fold_all l d : 0 < d -> (csd_fold l d = d <-> Forall (fun s => c_csd s = d) l).
Proof.
  intros Hd. induction l as [|s l IH]; cbn [csd_fold].
  - split; [constructor|reflexivity].
  - destruct (d <? 0) eqn:E; [lia|]. destruct (d =? c_csd s) eqn:E2.
    + rewrite IH. split; [intros H; constructor; [lia|exact H]|intros H; now inversion H].
    + split; [lia|intros H; inversion H; lia].
Qed.



(** * consolidateAsset *)

Definition tduration (l : list seg) : Z :=
  match l with
  | [] => 0
  | s0 :: _ => i64 (u64 (en (last l s0) - st s0))
  end.

Lemma last_map_tseg : forall (x : list cseg) d, last (map tseg x) (tseg d) = tseg (last x d).
Proof.
  induction x as [|q x IHx]; intros d; [reflexivity|]. destruct x as [|q2 x]; [reflexivity|].
  change (map tseg (q :: q2 :: x)) with (tseg q :: map tseg (q2 :: x)).
  change (last (tseg q :: map tseg (q2 :: x)) (tseg d)) with (last (map tseg (q2 :: x)) (tseg d)).
  change (last (q :: q2 :: x) d) with (last (q2 :: x) d). apply IHx.
Qed.

Lemma rduration_tduration l : rduration l = tduration (map tseg l).
Proof.
  destruct l as [|a l]; [reflexivity|]. unfold rduration, tduration.
  change (i64 (u64 (c_en (last (a :: l) a) - c_st a)) = i64 (u64 (en (last (map tseg (a :: l)) (tseg a)) - st (tseg a)))).
  rewrite last_map_tseg. reflexivity.
Qed.

Lemma rduration_stored l1 l2 : map tseg l1 = map tseg l2 -> rduration l1 = rduration l2.
Proof. intros H. now rewrite !rduration_tduration, H. Qed.

(** [rduration] is [Timeline.repDuration] of the served table when nothing wraps. *)
Lemma rduration_repDuration r :
  r_segs r <> [] ->
  0 <= repDuration (trep r) < two63 ->
  rduration (r_segs r) = repDuration (trep r).
Proof.
  intros Hne Hr. unfold repDuration, trep in *. cbn [segs] in *.
  destruct (r_segs r) as [|a l] eqn:E; [congruence|]. cbn [map] in *. unfold rduration.
  change (tseg a :: map tseg l) with (map tseg (a :: l)) in *. rewrite last_map_tseg in *. cbn [tseg en st] in *.
  rewrite c15_u64_small by (unfold two64, two63 in *; lia). apply c15_i64_small. unfold two63 in *; lia.
Qed.

Definition in_range64 (z : Z) : Prop := - two63 <= z < two63.

(** The two products of the admission test do not overflow. *)
Definition admission_range (ref : repdata) : Prop :=
  in_range64 (1000 * rduration (r_segs ref)) /\
  0 < r_mediats ref /\
  in_range64 (Z.quot (1000 * rduration (r_segs ref)) (r_mediats ref) * r_mediats ref).

Lemma dur_ms_ok r v : dur_ms r = Ok v -> r_mediats r <> 0 /\ v = Z.quot (mul64 1000 (rduration (r_segs r))) (r_mediats r).
Proof. unfold dur_ms, go_div. destruct (r_mediats r =? 0) eqn:E; [discriminate|]. intros H; inversion H. split; [lia|reflexivity]. Qed.

(** [table_contig_b] decides contiguity of the served table. *)
Lemma table_contig_b_spec l : table_contig_b l = true <-> ccontig l.
Proof.
  unfold ccontig. induction l as [|a l IH]; [cbn; tauto|]. destruct l as [|b l'].
  - cbn. tauto.
  - change (table_contig_b (a :: b :: l')) with ((c_st b =? c_en a) && table_contig_b (b :: l')).
    change (contiguous (map tseg (a :: b :: l'))) with (c_en a = c_st b /\ contiguous (map tseg (b :: l'))).
    rewrite Bool.andb_true_iff, IH. split; intros [H1 H2]; split; auto; lia.
Qed.

(** What the loop of consolidateAsset guarantees for every representation when it lets the asset
    through: a contiguous table and, unless the representation has no timescale, the duration rule. *)
Definition rep_admitted (ref : repdata) (loopMS : Z) (r : repdata) : Prop :=
  ccontig (r_segs r) /\
  (r_mediats r <> 0 ->
   (exists d, dur_ms r = Ok d /\
      (r_ctype r = "audio" /\ r_ctype ref <> "audio" -> r_preenc r = true -> d = loopMS)) /\
   (~ (r_ctype r = "audio" /\ r_ctype ref <> "audio") ->
      mul64 (rduration (r_segs r)) (r_mediats ref) = mul64 (rduration (r_segs ref)) (r_mediats r))).

Lemma check_reps_true ref loopMS : forall l,
  check_reps ref loopMS l = Ok (Some true) ->
  forall k r, In (k, r) l -> rep_admitted ref loopMS r.
Proof.
  induction l as [|[k0 r0] l IH]; intros H k r Hin; [destruct Hin|].
  cbn [check_reps] in H.
  destruct (table_contig_b (r_segs r0)) eqn:Ec; cbn [negb] in H; [|discriminate].
  destruct (r_mediats r0 =? 0) eqn:Ez.
  { destruct Hin as [Heq|Hin]; [|eapply IH; eauto].
    inversion Heq; subst. split; [apply table_contig_b_spec; exact Ec|]. intros Hne. lia. }
  destruct (dur_ms r0) as [d| |] eqn:Ed; cbn [bind] in H; try discriminate.
  destruct (check_reps ref loopMS l) as [[b|]| |] eqn:Er; cbn [bind] in H; try discriminate.
  inversion H as [Hb]. apply andb_prop in Hb. destruct Hb as [Hthis Hb]. subst b.
  destruct Hin as [Heq|Hin]; [|eapply IH; eauto].
  inversion Heq; subst. split; [apply table_contig_b_spec; exact Ec|]. intros _.
  destruct (String.eqb (r_ctype r) "audio" && negb (String.eqb (r_ctype ref) "audio")) eqn:Ea.
  - apply andb_prop in Ea. destruct Ea as [Ea1 Ea2]. apply String.eqb_eq in Ea1.
    assert (Hra : r_ctype ref <> "audio") by (intros Hx; rewrite Hx, String.eqb_refl in Ea2; discriminate).
    split.
    + exists d. split; [exact Ed|]. intros _ Hp. rewrite Hp in Hthis. cbn in Hthis. lia.
    + intros Hn. exfalso. apply Hn. split; assumption.
  - split.
    + exists d. split; [exact Ed|]. intros [Hx Hy]. exfalso.
      rewrite Hx, String.eqb_refl in Ea. cbn in Ea.
      destruct (String.eqb (r_ctype ref) "audio") eqn:E2; [apply String.eqb_eq in E2; contradiction|discriminate].
    + intros _. lia.
Qed.

(** Admission: what consolidateAsset guarantees about every asset it lets through. *)
Lemma consolidate_admitted a a' :
  consolidate a = Ok (Some a') ->
  exists k ref,
    a_ref a' = Some k /\ lookup k (a_reps a) = Some ref /\ a_reps a' = a_reps a /\
    dur_ms ref = Ok (a_loop a') /\
    mul64 (a_loop a') (r_mediats ref) = mul64 1000 (rduration (r_segs ref)) /\
    (forall k' r, In (k', r) (a_reps a) -> rep_admitted ref (a_loop a') r).
Proof.
  unfold consolidate. intros H.
  destruct (reference_rep a) as [k|] eqn:Ek; [|discriminate].
  destruct (lookup k (a_reps a)) as [ref|] eqn:El; [|discriminate].
  destruct (dur_ms ref) as [loopMS| |] eqn:Ed; cbn [bind] in H; try discriminate.
  destruct (mul64 loopMS (r_mediats ref) =? mul64 1000 (rduration (r_segs ref))) eqn:Em; cbn [negb] in H; [|discriminate].
  destruct (check_reps ref loopMS (a_reps a)) as [[b|]| |] eqn:Es; cbn [bind] in H; try discriminate.
  destruct b; [|discriminate]. inversion H; subst a'; cbn.
  exists k, ref. split; [reflexivity|]. split; [exact El|]. split; [reflexivity|]. split; [exact Ed|].
  split; [lia|]. intros k' r Hin. eapply check_reps_true; eauto.
Qed.

(** In exact arithmetic (no int64 overflow): the loop is a whole number of milliseconds. *)
Lemma admission_exact ref loopMS :
  admission_range ref ->
  dur_ms ref = Ok loopMS ->
  mul64 loopMS (r_mediats ref) = mul64 1000 (rduration (r_segs ref)) ->
  1000 * rduration (r_segs ref) = loopMS * r_mediats ref.
Proof.
  intros [R1 [R2 R3]] Hd Hm. apply dur_ms_ok in Hd. destruct Hd as [_ ->].
  unfold mul64 in *. rewrite (c15_i64_small (1000 * _)) in * by exact R1.
  rewrite c15_i64_small in Hm by exact R3. lia.
Qed.

(** Conversely, a loop that is not a whole number of milliseconds is never admitted. *)
Lemma not_whole_ms_left_out a k ref :
  reference_rep a = Some k -> lookup k (a_reps a) = Some ref ->
  admission_range ref ->
  Z.rem (1000 * rduration (r_segs ref)) (r_mediats ref) <> 0 ->
  consolidate a = Ok None.
Proof.
  intros Hk Hl [R1 [R2 R3]] Hrem. unfold consolidate. rewrite Hk, Hl.
  unfold dur_ms, go_div. destruct (r_mediats ref =? 0) eqn:E; [lia|]. cbn [bind].
  unfold mul64. rewrite !(c15_i64_small (1000 * _)) by exact R1.
  rewrite c15_i64_small by exact R3.
  pose proof (Z.quot_rem' (1000 * rduration (r_segs ref)) (r_mediats ref)) as Hq.
  destruct (1000 * rduration (r_segs ref) ÷ r_mediats ref * r_mediats ref =? 1000 * rduration (r_segs ref)) eqn:Em;
    [exfalso; lia|reflexivity].
Qed.

(** * $Number$ contiguity without the no-wrap bound

    When the uint32 number wraps (files startNr .. 2^32-1, 0, 1, ...), the loop ends with
    endNr < startNr and loadRep reports "no segments read" - unless the file numbered 0 is missing,
    in which case the table is the (contiguous) one built before the wrap. *)

Lemma number_loop_wrapped thumb : forall files startNr endNr nr dsd acc segs d e,
  0 <= nr -> nr + lenZ files <= startNr -> startNr < two32 ->
  number_loop thumb files startNr endNr nr dsd acc = Ok (segs, d, e) ->
  e < startNr \/ (nr = 0 /\ segs = acc).
Proof.
  induction files as [|f files IH]; intros startNr endNr nr dsd acc segs d e H0 Hlen Hs H.
  - cbn in H. inversion H; subst. rewrite lenZ_nil in Hlen. destruct (Z.eq_dec nr 0) as [->|Hne]; [right; auto|left].
    rewrite c15_u32_small by (unfold two32 in *; lia). lia.
  - rewrite lenZ_cons in Hlen. pose proof (lenZ_nonneg files) as Hl.
    cbn [number_loop] in H. destruct f as [| | |o]; try discriminate.
    + inversion H; subst. destruct (Z.eq_dec nr 0) as [->|Hne]; [right; auto|left].
      rewrite c15_u32_small by (unfold two32 in *; lia). lia.
    + set (p := match thumb with None => read_mp4 dsd o nr | Some dur => (read_thumb nr startNr dur, dsd) end) in H.
      destruct p as [sg dsd1].
      destruct (nr >? startNr) eqn:E; [lia|]. cbn [bind] in H.
      destruct (nr =? endNr) eqn:En; [inversion H; subst; left; lia|].
      rewrite c15_u32_small in H by (unfold two32 in *; lia).
      destruct (IH startNr endNr (nr + 1) dsd1 (acc ++ [sg]) segs d e ltac:(lia) ltac:(lia) Hs H) as [Hlt|[Hz _]]; [left; exact Hlt|lia].
Qed.

Lemma number_loop_contig_wrap thumb : forall files startNr endNr nr dsd acc segs dsd' endNr',
  0 <= startNr -> startNr <= nr < two32 -> (nr - startNr) + lenZ files < two32 ->
  (acc = [] <-> nr = startNr) ->
  ccontig acc ->
  number_loop thumb files startNr endNr nr dsd acc = Ok (segs, dsd', endNr') ->
  ccontig segs \/ endNr' < startNr.
Proof.
  induction files as [|f files IH]; intros startNr endNr nr dsd acc segs dsd' endNr' H0 Hnr Hlen Hacc Hc H.
  - cbn in H. inversion H; subst. left; exact Hc.
  - rewrite lenZ_cons in Hlen. pose proof (lenZ_nonneg files) as Hl.
    cbn [number_loop] in H. destruct f as [| | |o]; [inversion H; subst; left; exact Hc|discriminate|discriminate|].
    set (p := match thumb with None => read_mp4 dsd o nr | Some dur => (read_thumb nr startNr dur, dsd) end) in H.
    destruct p as [sg dsd1].
    assert (Hacc1 : exists acc1,
       (if nr >? startNr then match set_last_end acc (c_st sg) with Some a => Ok a | None => Panic "loadRep: index out of range [-1]" end else Ok acc) = Ok acc1
       /\ ccontig (acc1 ++ [sg])).
    { destruct (nr >? startNr) eqn:E.
      - assert (Hne : acc <> []) by (intros Hx; apply Hacc in Hx; lia).
        destruct (set_last_end_some acc (c_st sg) Hne) as [a Ha]. rewrite Ha. exists a. split; [reflexivity|].
        eapply ccontig_fix_append; eauto.
      - assert (acc = []) as -> by (apply Hacc; lia). exists []. split; [reflexivity|]. exact I. }
    destruct Hacc1 as [acc1 [E1 Hc1]]. rewrite E1 in H. cbn [bind] in H.
    destruct (nr =? endNr); [inversion H; subst; left; exact Hc1|].
    destruct (Z.eq_dec (nr + 1) two32) as [Hw|Hnw].
    + (* the number wraps to 0 *)
      assert (Hu : u32 (nr + 1) = 0) by (unfold u32; rewrite Hw; apply Z.mod_same; unfold two32; lia).
      rewrite Hu in H.
      destruct (number_loop_wrapped thumb files startNr endNr 0 dsd1 (acc1 ++ [sg]) segs dsd' endNr' ltac:(lia) ltac:(lia) ltac:(lia) H)
        as [Hlt|[_ ->]]; [right; exact Hlt|left; exact Hc1].
    + assert (Hu : u32 (nr + 1) = nr + 1) by (apply c15_u32_small; unfold two32 in *; lia).
      rewrite Hu in H. eapply IH; try exact H; try lia; [|exact Hc1].
      split; [intros Hx; destruct acc1; discriminate|lia].
Qed.

(** $Number$ tables are contiguous for every file list (fewer than 2^32 files), every start and end number. *)
Lemma load_number_contig_all thumb files sn en dsd segs dsd' :
  0 <= match sn with Some n => n | None => 1 end < two32 ->
  lenZ files < two32 ->
  load_number thumb files sn en dsd = Ok (segs, dsd') -> ccontig segs.
Proof.
  intros H0 Hlen H. unfold load_number in H.
  set (startNr := match sn with Some n => n | None => 1 end) in *.
  destruct (number_loop thumb files startNr (match en with Some n => n | None => u32 (startNr - 1) end) startNr dsd []) as [[[s d] e]| |] eqn:E;
    cbn [bind] in H; try discriminate.
  destruct (e <? startNr) eqn:El; [discriminate|]. inversion H; subst.
  destruct (number_loop_contig_wrap thumb files startNr _ startNr dsd [] segs dsd' e ltac:(lia) ltac:(lia) ltac:(lia) ltac:(tauto) I E) as [Hc|Hlt];
    [exact Hc|lia].
Qed.

(** * ConstantSampleDuration is non-zero exactly when all segments share one common sample duration *)

Lemma csd_fold_cases : forall l c, 0 <= c ->
  (csd_fold l c = c /\ Forall (fun s => c_csd s = c) l) \/ csd_fold l c = 0.
Proof.
  induction l as [|s l IH]; intros c Hc; cbn [csd_fold].
  - left. split; [reflexivity|constructor].
  - destruct (c <? 0) eqn:E; [lia|]. destruct (c =? c_csd s) eqn:E2; [|right; reflexivity].
    destruct (IH c Hc) as [[H1 H2]|H]; [left; split; [exact H1|constructor; [lia|exact H2]]|right; exact H].
Qed.

Lemma const_sample_dur_nonzero l d :
  Forall (fun s => 0 <= c_csd s < two32) l ->
  const_sample_dur l = Some d -> d <> 0 ->
  l <> [] /\ Forall (fun s => c_csd s = d) l.
Proof.
  intros Hr H Hd. destruct l as [|s l]; [cbn in H; discriminate|]. split; [discriminate|].
  unfold const_sample_dur in H. cbn [csd_fold] in H. change (-1 <? 0) with true in H. cbv iota in H.
  inversion Hr as [|? ? Hs Hl]; subst.
  destruct (csd_fold_cases l (c_csd s) ltac:(lia)) as [[H1 H2]|H0].
  - rewrite H1 in H. destruct (c_csd s >=? 0) eqn:E; [|lia].
    rewrite c15_u32_small in H by exact Hs. inversion H; subst d. constructor; [reflexivity|exact H2].
  - rewrite H0 in H. cbn in H. inversion H. congruence.
Qed.

Lemma const_sample_dur_all l d :
  l <> [] -> 0 < d < two32 -> Forall (fun s => c_csd s = d) l -> const_sample_dur l = Some d.
Proof.
  intros Hne Hd Hall. destruct l as [|s l]; [congruence|]. inversion Hall as [|? ? Hs Hl]; subst.
  unfold const_sample_dur. cbn [csd_fold]. change (-1 <? 0) with true. cbv iota.
  rewrite (proj2 (csd_fold_all l (c_csd s) ltac:(lia)) Hl).
  destruct (c_csd s >=? 0) eqn:E; [|lia]. f_equal. apply c15_u32_small. lia.
Qed.
