(** Proofs about the loader model (Cache.v), part 2: a server started from cache files serves the
    same assets as one that scans (simulation between the two runs of [discover]); write mode
    produces cache files from which that holds; writing is idempotent. *)
From Verif Require Import GoSem GoSemFacts Timeline Cache CacheProofs.
From Coq Require Import ZifyBool.

(** Two loaded representations agree on everything that is stored (all but CommonSampleDur). *)
Definition rep_sim (r r' : repdata) : Prop := to_stored r = to_stored r'.

Lemma rep_sim_refl r : rep_sim r r. Proof. reflexivity. Qed.
Lemma rep_sim_stored_fields r : rep_sim (stored_fields r) r.
Proof. apply to_stored_stored_fields. Qed.

Lemma rep_sim_fields r r' : rep_sim r r' ->
  r_id r = r_id r' /\ r_ctype r = r_ctype r' /\ r_mediats r = r_mediats r' /\ r_const r = r_const r' /\
  r_preenc r = r_preenc r' /\ map tseg (r_segs r) = map tseg (r_segs r').
Proof. unfold rep_sim, to_stored. intros H. injection H. intros. repeat split; assumption. Qed.

Lemma rep_sim_len r r' : rep_sim r r' -> lenZ (r_segs r) = lenZ (r_segs r').
Proof.
  intros H. destruct (rep_sim_fields _ _ H) as (_ & _ & _ & _ & _ & Hs).
  unfold lenZ. rewrite <- (map_length tseg (r_segs r)), Hs, map_length. reflexivity.
Qed.

Lemma rep_sim_rduration r r' : rep_sim r r' -> rduration (r_segs r) = rduration (r_segs r').
Proof. intros H. apply rduration_stored. apply (rep_sim_fields _ _ H). Qed.

Lemma rep_sim_avg r r' : rep_sim r r' -> avg_seg_dur_ms r = avg_seg_dur_ms r'.
Proof.
  intros H. unfold avg_seg_dur_ms. rewrite (rep_sim_len _ _ H), (rep_sim_rduration _ _ H).
  destruct (rep_sim_fields _ _ H) as (_ & _ & -> & _). reflexivity.
Qed.

Lemma rep_sim_dur_ms r r' : rep_sim r r' -> dur_ms r = dur_ms r'.
Proof.
  intros H. unfold dur_ms. rewrite (rep_sim_rduration _ _ H).
  destruct (rep_sim_fields _ _ H) as (_ & _ & -> & _). reflexivity.
Qed.

(** Outcomes related up to the text of an error. *)
Definition res_rel {A A'} (R : A -> A' -> Prop) (x : res A) (y : res A') : Prop :=
  match x, y with
  | Ok a, Ok b => R a b
  | Err _, Err _ => True
  | Panic s, Panic s' => s = s'
  | _, _ => False
  end.

Definition reps_sim (l l' : list (string * repdata)) : Prop :=
  Forall2 (fun p p' => fst p = fst p' /\ rep_sim (snd p) (snd p')) l l'.

Definition asset_sim (a a' : asset) : Prop :=
  a_mpds a = a_mpds a' /\ reps_sim (a_reps a) (a_reps a') /\ a_segdur a = a_segdur a' /\
  a_loop a = a_loop a' /\ a_ref a = a_ref a'.

Definition assets_sim (l l' : list (string * asset)) : Prop :=
  Forall2 (fun p p' => fst p = fst p' /\ asset_sim (snd p) (snd p')) l l'.

Lemma reps_sim_refl l : reps_sim l l.
Proof. induction l; constructor; auto. split; reflexivity. Qed.
Lemma asset_sim_refl a : asset_sim a a.
Proof. repeat split; auto. apply reps_sim_refl. Qed.

Lemma lookup_reps_sim k l l' : reps_sim l l' ->
  match lookup k l, lookup k l' with
  | Some r, Some r' => rep_sim r r'
  | None, None => True
  | _, _ => False
  end.
Proof.
  induction 1 as [|[k1 r1] [k2 r2] l l' [Hk Hr] _ IH]; cbn [lookup]; [exact I|].
  cbn [fst snd] in *. subst k2. destruct (String.eqb k k1); [exact Hr|exact IH].
Qed.

Lemma upsert_reps_sim k r r' l l' : rep_sim r r' -> reps_sim l l' -> reps_sim (upsert k r l) (upsert k r' l').
Proof.
  intros Hr. induction 1 as [|[k1 r1] [k2 r2] l l' [Hk Hs] Hl IH]; cbn [upsert].
  - constructor; [split; [reflexivity|exact Hr]|constructor].
  - cbn [fst snd] in *. subst k2. destruct (String.eqb k k1).
    + constructor; [split; [reflexivity|exact Hr]|exact Hl].
    + constructor; [split; [reflexivity|exact Hs]|exact IH].
Qed.

Lemma lookup_assets_sim k l l' : assets_sim l l' ->
  match lookup k l, lookup k l' with
  | Some a, Some a' => asset_sim a a'
  | None, None => True
  | _, _ => False
  end.
Proof.
  induction 1 as [|[k1 r1] [k2 r2] l l' [Hk Hr] _ IH]; cbn [lookup]; [exact I|].
  cbn [fst snd] in *. subst k2. destruct (String.eqb k k1); [exact Hr|exact IH].
Qed.

Lemma upsert_assets_sim k a a' l l' : asset_sim a a' -> assets_sim l l' -> assets_sim (upsert k a l) (upsert k a' l').
Proof.
  intros Hr. induction 1 as [|[k1 r1] [k2 r2] l l' [Hk Hs] Hl IH]; cbn [upsert].
  - constructor; [split; [reflexivity|exact Hr]|constructor].
  - cbn [fst snd] in *. subst k2. destruct (String.eqb k k1).
    + constructor; [split; [reflexivity|exact Hr]|exact Hl].
    + constructor; [split; [reflexivity|exact Hs]|exact IH].
Qed.

Lemma add_rep_sim a a' r r' : asset_sim a a' -> rep_sim r r' -> asset_sim (add_rep a r) (add_rep a' r').
Proof.
  intros (Hm & Hr & Hs & Hl & Hf) H. unfold add_rep, asset_sim; cbn.
  rewrite (rep_sim_avg _ _ H), Hs. destruct (rep_sim_fields _ _ H) as (-> & _).
  repeat split; auto. apply upsert_reps_sim; assumption.
Qed.

(** * consolidateAsset depends on stored fields only *)

Lemma min_key_sim ct l l' : reps_sim l l' -> forall best, min_key ct l best = min_key ct l' best.
Proof.
  induction 1 as [|[k1 r1] [k2 r2] l l' [Hk Hr] _ IH]; intros best; cbn [min_key]; [reflexivity|].
  cbn [fst snd] in *. subst k2. destruct (rep_sim_fields _ _ Hr) as (_ & -> & _).
  destruct (String.eqb (r_ctype r2) ct); [|apply IH]. destruct best; apply IH.
Qed.

Fixpoint contig_b_seg (l : list seg) : bool :=
  match l with
  | a :: ((b :: _) as t) => (st b =? en a) && contig_b_seg t
  | _ => true
  end.

Lemma table_contig_b_seg l : table_contig_b l = contig_b_seg (map tseg l).
Proof.
  induction l as [|a l IH]; [reflexivity|]. destruct l as [|b l2]; [reflexivity|].
  change (table_contig_b (a :: b :: l2)) with ((c_st b =? c_en a) && table_contig_b (b :: l2)).
  rewrite IH. reflexivity.
Qed.

Lemma table_contig_b_map l l' : map tseg l = map tseg l' -> table_contig_b l = table_contig_b l'.
Proof. intros H. now rewrite !table_contig_b_seg, H. Qed.

Lemma check_reps_sim ref ref' loopMS l l' : rep_sim ref ref' -> reps_sim l l' ->
  check_reps ref loopMS l = check_reps ref' loopMS l'.
Proof.
  intros Href. induction 1 as [|[k1 r1] [k2 r2] l l' [Hk Hr] _ IH]; cbn [check_reps]; [reflexivity|].
  cbn [fst snd] in *.
  destruct (rep_sim_fields _ _ Hr) as (_ & Hc & Ht & _ & Hp & Hs).
  destruct (rep_sim_fields _ _ Href) as (_ & Hc' & Ht' & _ & _ & _).
  rewrite (table_contig_b_map _ _ Hs), (rep_sim_dur_ms _ _ Hr), IH,
          (rep_sim_rduration _ _ Hr), (rep_sim_rduration _ _ Href), Hc, Hc', Ht, Ht', Hp. reflexivity.
Qed.

Definition opt_rel {A A'} (R : A -> A' -> Prop) (x : option A) (y : option A') : Prop :=
  match x, y with Some a, Some b => R a b | None, None => True | _, _ => False end.

Lemma consolidate_sim a a' : asset_sim a a' -> res_rel (opt_rel asset_sim) (consolidate a) (consolidate a').
Proof.
  intros (Hm & Hr & Hs & Hl & Hf). unfold consolidate, reference_rep.
  rewrite (min_key_sim "video" _ _ Hr), (min_key_sim "audio" _ _ Hr).
  set (k := match min_key "video" (a_reps a') None with Some k => Some k | None => min_key "audio" (a_reps a') None end).
  destruct k as [k|]; [|exact I].
  pose proof (lookup_reps_sim k _ _ Hr) as Hlk.
  destruct (lookup k (a_reps a)) as [r|], (lookup k (a_reps a')) as [r'|]; try contradiction; [|reflexivity].
  rewrite (rep_sim_dur_ms _ _ Hlk). destruct (dur_ms r') as [loopMS| |]; cbn [bind res_rel]; auto.
  rewrite (rep_sim_rduration _ _ Hlk). destruct (rep_sim_fields _ _ Hlk) as (_ & _ & Ht & _). rewrite Ht.
  destruct (negb _); [exact I|].
  rewrite (check_reps_sim _ _ loopMS _ _ Hlk Hr). destruct (check_reps r' loopMS (a_reps a')) as [[b|]| |]; cbn [bind res_rel]; auto; [|exact I].
  destruct b; [|exact I]. cbn. repeat split; auto.
  unfold ref_seg_dur_ms. rewrite (rep_sim_rduration _ _ Hlk), (rep_sim_len _ _ Hlk), Ht. reflexivity.
Qed.

Lemma consolidate_all_sim l l' : assets_sim l l' -> res_rel assets_sim (consolidate_all l) (consolidate_all l').
Proof.
  induction 1 as [|[k1 a1] [k2 a2] l l' [Hk Ha] _ IH]; cbn [consolidate_all]; [constructor|].
  cbn [fst snd] in *. subst k2. pose proof (consolidate_sim _ _ Ha) as Hc.
  destruct (consolidate a1) as [o1| |], (consolidate a2) as [o2| |]; cbn [res_rel bind] in *; try contradiction; auto.
  destruct (consolidate_all l) as [r1| |], (consolidate_all l') as [r2| |]; cbn [res_rel bind] in *; try contradiction; auto.
  destruct o1 as [x1|], o2 as [x2|]; cbn [opt_rel] in Hc; try contradiction; [|exact IH].
  constructor; [split; [reflexivity|exact Hc]|exact IH].
Qed.

Section Sim.
  Variable B : Type.
  Variable enc : stored -> B.
  Variable dec : B -> option stored.
  (** Recorded assumption about encoding/json + compress/gzip: what was written is read back. *)
  Hypothesis dec_enc : forall s, dec (enc s) = Some s.

  Notation load_json := (load_json B dec).
  Notation load_rep := (load_rep B enc dec).
  Notation load_reps := (load_reps B enc dec).
  Notation load_sets := (load_sets B enc dec).
  Notation load_asset := (load_asset B enc dec).
  Notation load_mpd := (load_mpd B enc dec).
  Notation load_all := (load_all B enc dec).
  Notation discover := (discover B enc dec).

  (** ** One representation *)

  (** The init segment has a non-zero timescale (for a zero timescale readInit runs again in the
      cache path and resets DefaultSampleDuration to the trex value). *)
  Definition init_ts_ok (m : mpd_rep) : Prop :=
    match m_init m with IOk its _ _ => its <> 0 | IBad => True end.

  Lemma with_init_same r : with_init r (r_mediats r) (r_dsd r) (r_preenc r) = r.
  Proof. destruct r; reflexivity. Qed.

  Lemma scan_rep_shape m r :
    scan_rep m = Ok r ->
    r_mediauri r = m_mediauri m /\ r_ctype r = m_ctype m /\ uri_kind (m_mediauri m) <> UNone /\
    (String.eqb (m_ctype m) "image" = false ->
     exists its idsd ipe, m_init m = IOk its idsd ipe /\ r_mediats r = its /\ r_preenc r = ipe).
  Proof.
    unfold scan_rep. set (rp0 := {| r_id := m_id m; r_ctype := m_ctype m; r_codecs := _; r_mpdts := _; r_mediats := 0;
                                    r_inituri := m_inituri m; r_mediauri := m_mediauri m; r_segs := []; r_dsd := 0;
                                    r_const := None; r_preenc := false |}).
    intros H. destruct (add_init rp0 (m_init m)) as [rp| |] eqn:Ea; cbn [bind] in H; try discriminate.
    assert (Hrp : r_mediauri rp = m_mediauri m /\ r_ctype rp = m_ctype m /\ uri_kind (m_mediauri m) <> UNone /\
                  (String.eqb (m_ctype m) "image" = false ->
                   exists its idsd ipe, m_init m = IOk its idsd ipe /\ r_mediats rp = its /\ r_preenc rp = ipe)).
    { unfold add_init in Ea. change (r_mediauri rp0) with (m_mediauri m) in Ea. change (r_ctype rp0) with (m_ctype m) in Ea.
      destruct (uri_kind (m_mediauri m)) eqn:Eu; try discriminate.
      - destruct (String.eqb (m_ctype m) "image") eqn:Ei.
        + inversion Ea; subst rp. repeat split; auto; discriminate.
        + destruct (m_init m) as [|its idsd ipe]; [discriminate|]. change (r_mediats rp0 =? 0) with true in Ea. cbv iota in Ea.
          inversion Ea; subst rp. repeat split; auto; try discriminate. intros _. exists its, idsd, ipe. repeat split.
      - destruct (String.eqb (m_ctype m) "image") eqn:Ei.
        + inversion Ea; subst rp. repeat split; auto; discriminate.
        + destruct (m_init m) as [|its idsd ipe]; [discriminate|]. change (r_mediats rp0 =? 0) with true in Ea. cbv iota in Ea.
          inversion Ea; subst rp. repeat split; auto; try discriminate. intros _. exists its, idsd, ipe. repeat split. }
    destruct Hrp as (Hu & Hc & Hk & Hi).
    match type of H with (do tab <- ?T ; _) = _ => destruct T as [[[mediats segs] dsd]| |] eqn:Et end; cbn [bind] in H; try discriminate.
    inversion H; subst r; cbn. repeat split; auto.
    intros Himg. destruct (Hi Himg) as (its & idsd & ipe & E1 & E2 & E3). exists its, idsd, ipe. repeat split; auto.
    (* mediats of the table is the one of rp for everything that is not an image *)
    rewrite Hc, Himg in Et.
    destruct (m_timeline m) as [es|]; destruct (uri_kind (r_mediauri rp)); try discriminate.
    - destruct (time_loop (m_tfiles m) es 0 (r_dsd rp) []) as [x| |]; cbn [bind] in Et; try discriminate. inversion Et; subst; reflexivity.
    - destruct (load_number None (m_files m) (m_startnr m) (m_endnr m) (r_dsd rp)) as [x| |]; cbn [bind] in Et; try discriminate.
      inversion Et; subst; reflexivity.
  Qed.

  Lemma scan_rep_inituri m r : scan_rep m = Ok r -> r_inituri r = m_inituri m.
  Proof.
    unfold scan_rep. intros H.
    match type of H with (do rp <- ?T; _) = _ => destruct T as [rp| |] eqn:Ea end; cbn [bind] in H; try discriminate.
    assert (Hid : r_inituri rp = m_inituri m).
    { unfold add_init in Ea. cbn [r_mediauri r_ctype r_mediats r_preenc] in Ea.
      destruct (uri_kind (m_mediauri m)); try discriminate;
        (destruct (String.eqb (m_ctype m) "image"); [inversion Ea; reflexivity|]);
        (destruct (m_init m); [discriminate|]); cbn in Ea; inversion Ea; reflexivity. }
    match type of H with (do tab <- ?T; _) = _ => destruct T as [[[mediats sg] dsd]| |] end; cbn [bind] in H; try discriminate.
    inversion H; subst r; cbn. exact Hid.
  Qed.

  (** Reading back what write mode stored from a scan gives the stored fields of the scan. *)
  Lemma load_json_of_scan m r :
    scan_rep m = Ok r -> init_ts_ok m ->
    load_json (enc (to_stored r)) (m_init_at m) = Ok (stored_fields r).
  Proof.
    intros Hs Hts. unfold Cache.load_json. rewrite dec_enc. fold (stored_fields r).
    change (s_inituri (to_stored r)) with (r_inituri r). rewrite (scan_rep_inituri _ _ Hs). fold (m_init m).
    destruct (scan_rep_shape _ _ Hs) as (Hu & Hc & Hk & Hi).
    unfold add_init.
    assert (Hu' : r_mediauri (stored_fields r) = m_mediauri m) by (rewrite <- Hu; reflexivity).
    assert (Hc' : r_ctype (stored_fields r) = m_ctype m) by (rewrite <- Hc; reflexivity).
    rewrite Hu', Hc'. destruct (uri_kind (m_mediauri m)) eqn:Eu; try congruence.
    - destruct (String.eqb (m_ctype m) "image") eqn:Ei; [reflexivity|].
      destruct (Hi eq_refl) as (its & idsd & ipe & E1 & E2 & E3). unfold init_ts_ok in Hts. rewrite E1 in *.
      change (r_mediats (stored_fields r)) with (r_mediats r). change (r_preenc (stored_fields r)) with (r_preenc r).
      change (r_dsd (stored_fields r)) with (r_dsd r). rewrite E2, E3.
      destruct (its =? 0) eqn:Ez; [lia|]. rewrite Bool.orb_diag. f_equal.
      rewrite <- E2, <- E3. apply (with_init_same (stored_fields r)).
    - destruct (String.eqb (m_ctype m) "image") eqn:Ei; [reflexivity|].
      destruct (Hi eq_refl) as (its & idsd & ipe & E1 & E2 & E3). unfold init_ts_ok in Hts. rewrite E1 in *.
      change (r_mediats (stored_fields r)) with (r_mediats r). change (r_preenc (stored_fields r)) with (r_preenc r).
      change (r_dsd (stored_fields r)) with (r_dsd r). rewrite E2, E3.
      destruct (its =? 0) eqn:Ez; [lia|]. rewrite Bool.orb_diag. f_equal.
      rewrite <- E2, <- E3. apply (with_init_same (stored_fields r)).
  Qed.

  (** A cache entry is good for a representation: no file, an unreadable or undecodable file (it is
      logged and the segments are scanned), or the file write mode produces for it. *)
  Definition good_entry (m : mpd_rep) (c : cobs B) : Prop :=
    c = CAbsent \/ c = CBroken \/ (exists b, c = CBytes b /\ dec b = None) \/
    exists r, scan_rep m = Ok r /\ c = CBytes (enc (to_stored r)).

  Lemma load_rep_read m c :
    good_entry m c -> init_ts_ok m ->
    res_rel rep_sim (fst (load_rep mode_read c m)) (scan_rep m) /\ snd (load_rep mode_read c m) = None.
  Proof.
    intros [->|[->|[[b [-> Hb]]|[r [Hs ->]]]]] Hts; unfold Cache.load_rep; cbn [use_cache do_write mode_read fst snd].
    - split; [|destruct (scan_rep m); reflexivity]. destruct (scan_rep m); cbn; auto. apply rep_sim_refl.
    - split; [|destruct (scan_rep m); reflexivity]. destruct (scan_rep m); cbn; auto. apply rep_sim_refl.
    - unfold Cache.load_json. rewrite Hb. cbn [fst snd].
      split; [|destruct (scan_rep m); reflexivity]. destruct (scan_rep m); cbn; auto. apply rep_sim_refl.
    - rewrite (load_json_of_scan _ _ Hs Hts), Hs. cbn. split; [apply rep_sim_stored_fields|reflexivity].
  Qed.

  Lemma load_rep_scan c m : load_rep mode_scan c m = (scan_rep m, None).
  Proof. unfold Cache.load_rep; cbn. destruct (scan_rep m); reflexivity. Qed.

  Lemma load_rep_write c m :
    load_rep mode_write c m = (scan_rep m, match scan_rep m with Ok r => Some (enc (to_stored r)) | _ => None end).
  Proof. reflexivity. Qed.

  (** ** loadAsset *)

  Definition reps_good (apath : string) (c : cache B) (reps : list (bool * mpd_rep)) : Prop :=
    forall b m, In (b, m) reps -> good_entry m (c apath (m_id m)) /\ init_ts_ok m.

  (** cache-mode run vs. scanning run: same error, assets related, cache directories untouched *)
  Definition lstate_rel (c c0 : cache B) (x y : res (lstate B)) : Prop :=
    match x, y with
    | Ok (a1, c1, e1), Ok (a2, c2, e2) => asset_sim a1 a2 /\ c1 = c /\ c2 = c0 /\ e1 = e2
    | Panic s, Panic s' => s = s'
    | Err _, Err _ => True
    | _, _ => False
    end.

  Lemma load_reps_sim apath actype c c0 : forall reps a a',
    asset_sim a a' -> reps_good apath c reps ->
    lstate_rel c c0 (load_reps mode_read apath actype reps a c) (load_reps mode_scan apath actype reps a' c0).
  Proof.
    induction reps as [|[b m] reps IH]; intros a a' Ha Hg; cbn [Cache.load_reps].
    - cbn. auto.
    - destruct b; [cbn; auto|].
      assert (Hg' : reps_good apath c reps) by (intros b' m' Hin; apply (Hg b' m'); now right).
      pose proof (lookup_reps_sim (m_id m) _ _ (proj1 (proj2 Ha))) as Hlk.
      destruct (lookup (m_id m) (a_reps a)) as [x|], (lookup (m_id m) (a_reps a')) as [x'|]; try contradiction.
      + apply IH; assumption.
      + destruct (Hg false m (or_introl eq_refl)) as [Hge Hts].
        destruct (load_rep_read m _ Hge Hts) as [Hrel Hw]. rewrite load_rep_scan.
        destruct (load_rep mode_read (c apath (m_id m)) m) as [rr w]. cbn [fst snd] in *. subst w.
        destruct rr as [r| |], (scan_rep m) as [r'| |]; cbn [res_rel] in Hrel; try contradiction; cbn; auto.
        rewrite (rep_sim_len _ _ Hrel). destruct (lenZ (r_segs r') =? 0); [cbn; auto|].
        destruct (rep_sim_fields _ _ Hrel) as (_ & _ & _ & Hconst & _). rewrite Hconst.
        pose proof (add_rep_sim _ _ _ _ Ha Hrel) as Ha2.
        destruct (String.eqb actype "audio" && match r_const r' with Some d => d =? 0 | None => true end); [cbn; auto|].
        apply IH; assumption.
  Qed.

  Definition sets_good (apath : string) (c : cache B) (sets : list aset) : Prop :=
    forall s, In s sets -> reps_good apath c (as_reps s).

  Lemma load_sets_sim apath c c0 : forall sets a a',
    asset_sim a a' -> sets_good apath c sets ->
    lstate_rel c c0 (load_sets mode_read apath sets a c) (load_sets mode_scan apath sets a' c0).
  Proof.
    induction sets as [|s sets IH]; intros a a' Ha Hg; cbn [Cache.load_sets].
    - cbn. auto.
    - destruct (negb (as_has_template s)); [cbn; auto|].
      pose proof (load_reps_sim apath (as_ctype s) c c0 (as_reps s) a a' Ha (Hg s (or_introl eq_refl))) as Hr.
      destruct (load_reps mode_read apath (as_ctype s) (as_reps s) a c) as [[[a1 c1] e1]| |],
               (load_reps mode_scan apath (as_ctype s) (as_reps s) a' c0) as [[[a2 c2] e2]| |]; cbn [lstate_rel bind] in *; try contradiction; auto.
      destruct Hr as (Ha12 & -> & -> & ->). destruct e2; [cbn; auto|].
      apply IH; [exact Ha12|]. intros s' Hin. apply Hg. now right.
  Qed.

  Definition mpd_good (c : cache B) (e : string * string * mpd_obs) : Prop :=
    match e with
    | (apath, _, o) => match mpd_sets o with Some sets => sets_good apath c sets | None => True end
    end.

  Lemma load_mpd_sim apath name sets c c0 a a' :
    asset_sim a a' -> sets_good apath c sets ->
    lstate_rel c c0 (load_mpd mode_read apath name sets a c) (load_mpd mode_scan apath name sets a' c0).
  Proof.
    intros Ha Hg. unfold Cache.load_mpd.
    set (a1 := {| a_mpds := a_mpds a ++ [name]; a_reps := a_reps a; a_segdur := a_segdur a; a_loop := a_loop a; a_ref := a_ref a |}).
    set (a1' := {| a_mpds := a_mpds a' ++ [name]; a_reps := a_reps a'; a_segdur := a_segdur a'; a_loop := a_loop a'; a_ref := a_ref a' |}).
    assert (Ha1 : asset_sim a1 a1').
    { destruct Ha as (Hm & Hr & Hs & Hl & Hf). repeat split; cbn; auto. now rewrite Hm. }
    pose proof (load_sets_sim apath c c0 sets a1 a1' Ha1 Hg) as Hr.
    destruct (load_sets mode_read apath sets a1 c) as [[[x1 c1] e1]| |],
             (load_sets mode_scan apath sets a1' c0) as [[[x2 c2] e2]| |]; cbn [lstate_rel bind] in *; try contradiction; auto.
    destruct Hr as (Hx & -> & -> & ->). destruct e2; (split; [assumption|auto]).
  Qed.

  Lemma load_asset_sim apath name o c c0 a a' :
    asset_sim a a' -> mpd_good c (apath, name, o) ->
    lstate_rel c c0 (load_asset mode_read apath name o a c) (load_asset mode_scan apath name o a' c0).
  Proof.
    intros Ha Hg. destruct o as [| |sets|sets|sets]; cbn [Cache.load_asset]; try (cbn; auto; fail);
      apply load_mpd_sim; assumption.
  Qed.

  (** ** discoverAssets *)

  Definition cache_good (c : cache B) (l : mpd_list) : Prop := Forall (mpd_good c) l.

  Definition all_rel (c c0 : cache B) (x y : res (list (string * asset) * cache B)) : Prop :=
    match x, y with
    | Ok (l1, c1), Ok (l2, c2) => assets_sim l1 l2 /\ c1 = c /\ c2 = c0
    | Panic s, Panic s' => s = s'
    | Err _, Err _ => True
    | _, _ => False
    end.

  Lemma load_all_sim c c0 : forall l assets assets',
    assets_sim assets assets' -> cache_good c l ->
    all_rel c c0 (load_all mode_read l assets c) (load_all mode_scan l assets' c0).
  Proof.
    induction l as [|[[apath name] o] l IH]; intros assets assets' Has Hg; cbn [Cache.load_all].
    - cbn. auto.
    - inversion Hg as [|? ? Hg1 Hg2]; subst.
      pose proof (lookup_assets_sim apath _ _ Has) as Hlk.
      set (a := match lookup apath assets with Some a => a | None => empty_asset end).
      set (a' := match lookup apath assets' with Some a => a | None => empty_asset end).
      assert (Ha : asset_sim a a').
      { subst a a'. destruct (lookup apath assets), (lookup apath assets'); try contradiction; [exact Hlk|apply asset_sim_refl]. }
      pose proof (load_asset_sim apath name o c c0 a a' Ha Hg1) as Hr.
      destruct (load_asset mode_read apath name o a c) as [[[a1 c1] e1]| |],
               (load_asset mode_scan apath name o a' c0) as [[[a2 c2] e2]| |]; cbn [lstate_rel bind all_rel] in *; try contradiction; auto.
      destruct Hr as (Ha12 & -> & -> & _).
      apply IH; [|exact Hg2]. apply upsert_assets_sim; assumption.
  Qed.

  Lemma assets_sim_len l l' : assets_sim l l' -> lenZ l = lenZ l'.
  Proof. intros H. unfold lenZ. f_equal. induction H; cbn; congruence. Qed.

  (** Main theorem: started from a good cache directory (each file absent or as written by write
      mode for the same files), the server registers and admits the same assets, with the same stored
      fields, LoopDurMS, SegmentDurMS, reference representation and MPD list as a scanning server;
      errors and panics of the start-up coincide; neither run modifies the cache directory. *)
  Theorem discover_cache_eq_scan l c c0 :
    cache_good c l ->
    all_rel c c0 (discover mode_read l c) (discover mode_scan l c0).
  Proof.
    intros Hg. unfold Cache.discover.
    pose proof (load_all_sim c c0 l [] [] (Forall2_nil _) Hg) as Hr.
    destruct (load_all mode_read l [] c) as [[l1 c1]| |], (load_all mode_scan l [] c0) as [[l2 c2]| |];
      cbn [all_rel bind] in *; try contradiction; auto.
    destruct Hr as (Hs & -> & ->). rewrite (assets_sim_len _ _ Hs).
    destruct (lenZ l2 =? 0); [exact I|].
    pose proof (consolidate_all_sim _ _ Hs) as Hc.
    destruct (consolidate_all l1) as [s1| |], (consolidate_all l2) as [s2| |]; cbn [res_rel bind all_rel] in *; try contradiction; auto.
  Qed.

End Sim.

(** * Runs that do not read the cache (scan mode, write mode) *)

Section TwoRuns.
  Variable B : Type.
  Variable enc : stored -> B.
  Variable dec : B -> option stored.

  Notation load_rep := (load_rep B enc dec).
  Notation load_reps := (load_reps B enc dec).
  Notation load_sets := (load_sets B enc dec).
  Notation load_asset := (load_asset B enc dec).
  Notation load_mpd := (load_mpd B enc dec).
  Notation load_all := (load_all B enc dec).
  Notation discover := (discover B enc dec).

  Variables md1 md2 : lmode.
  Hypothesis nc1 : use_cache md1 = false.
  Hypothesis nc2 : use_cache md2 = false.
  (** a property of every representation occurrence of the MPD list, and a relation between the
      two cache directories that related writes preserve *)
  Variable Occ : string -> mpd_rep -> Prop.
  Variable CR : cache B -> cache B -> Prop.

  Definition wstep (md : lmode) (c : cache B) (apath : string) (m : mpd_rep) : cache B :=
    match scan_rep m with
    | Ok r => if do_write md then cache_set B c apath (m_id m) (enc (to_stored r)) else c
    | _ => c
    end.

  Hypothesis CR_step : forall ci di apath m, Occ apath m -> CR ci di -> CR (wstep md1 ci apath m) (wstep md2 di apath m).

  Definition two_rel (x y : res (lstate B)) : Prop :=
    match x, y with
    | Ok (a1, c1, e1), Ok (a2, c2, e2) => a1 = a2 /\ e1 = e2 /\ CR c1 c2
    | Panic s, Panic s' => s = s'
    | Err _, Err _ => True
    | _, _ => False
    end.

  Lemma load_rep_nocache md c m : use_cache md = false ->
    load_rep md c m = (scan_rep m, match scan_rep m with Ok r => if do_write md then Some (enc (to_stored r)) else None | _ => None end).
  Proof. intros H. unfold Cache.load_rep. rewrite H. reflexivity. Qed.

  Lemma load_reps_two apath actype : forall reps a ci di,
    (forall b m, In (b, m) reps -> Occ apath m) -> CR ci di ->
    two_rel (load_reps md1 apath actype reps a ci) (load_reps md2 apath actype reps a di).
  Proof.
    induction reps as [|[b m] reps IH]; intros a ci di Ho Hc; cbn [Cache.load_reps].
    - cbn. auto.
    - destruct b; [cbn; auto|].
      assert (Ho' : forall b m, In (b, m) reps -> Occ apath m) by (intros; eapply Ho; right; eauto).
      destruct (lookup (m_id m) (a_reps a)); [apply IH; assumption|].
      rewrite !load_rep_nocache by assumption.
      pose proof (CR_step ci di apath m (Ho false m (or_introl eq_refl)) Hc) as Hs. unfold wstep in Hs.
      destruct (scan_rep m) as [r| |]; cbn; auto.
      set (c1 := match (if do_write md1 then Some (enc (to_stored r)) else None) with Some b => cache_set B ci apath (m_id m) b | None => ci end).
      set (c2 := match (if do_write md2 then Some (enc (to_stored r)) else None) with Some b => cache_set B di apath (m_id m) b | None => di end).
      assert (Hc12 : CR c1 c2) by (subst c1 c2; destruct (do_write md1), (do_write md2); exact Hs).
      destruct (lenZ (r_segs r) =? 0); [cbn; auto|].
      destruct (String.eqb actype "audio" && match r_const r with Some d => d =? 0 | None => true end); [cbn; auto|].
      apply IH; assumption.
  Qed.

  Definition sets_occ (apath : string) (sets : list aset) : Prop :=
    forall s, In s sets -> forall b m, In (b, m) (as_reps s) -> Occ apath m.

  Lemma load_sets_two apath : forall sets a ci di,
    sets_occ apath sets -> CR ci di ->
    two_rel (load_sets md1 apath sets a ci) (load_sets md2 apath sets a di).
  Proof.
    induction sets as [|s sets IH]; intros a ci di Ho Hc; cbn [Cache.load_sets].
    - cbn. auto.
    - destruct (negb (as_has_template s)); [cbn; auto|].
      pose proof (load_reps_two apath (as_ctype s) (as_reps s) a ci di (Ho s (or_introl eq_refl)) Hc) as Hr.
      destruct (load_reps md1 apath (as_ctype s) (as_reps s) a ci) as [[[a1 c1] e1]| |],
               (load_reps md2 apath (as_ctype s) (as_reps s) a di) as [[[a2 c2] e2]| |]; cbn [two_rel bind] in *; try contradiction; auto.
      destruct Hr as (-> & -> & Hc12). destruct e2; [cbn; auto|].
      apply IH; [|exact Hc12]. intros s' Hin. apply Ho. now right.
  Qed.

  Definition mpd_occ (e : string * string * mpd_obs) : Prop :=
    match e with
    | (apath, _, o) => match mpd_sets o with Some sets => sets_occ apath sets | None => True end
    end.

  Lemma load_mpd_two apath name sets a ci di :
    sets_occ apath sets -> CR ci di ->
    two_rel (load_mpd md1 apath name sets a ci) (load_mpd md2 apath name sets a di).
  Proof.
    intros Ho Hc. unfold Cache.load_mpd.
    match goal with |- two_rel (do r <- load_sets md1 apath sets ?A1 ci; _) _ =>
      pose proof (load_sets_two apath sets A1 ci di Ho Hc) as Hs;
      destruct (load_sets md1 apath sets A1 ci) as [[[x1 c1] e1]| |],
               (load_sets md2 apath sets A1 di) as [[[x2 c2] e2]| |]; cbn [two_rel bind] in *; try contradiction; auto
    end.
    destruct Hs as (-> & -> & Hc12). repeat split; auto.
  Qed.

  Definition two_all_rel (x y : res (list (string * asset) * cache B)) : Prop :=
    match x, y with
    | Ok (l1, c1), Ok (l2, c2) => l1 = l2 /\ CR c1 c2
    | Panic s, Panic s' => s = s'
    | Err _, Err _ => True
    | _, _ => False
    end.

  Lemma load_all_two : forall l assets ci di,
    Forall mpd_occ l -> CR ci di ->
    two_all_rel (load_all md1 l assets ci) (load_all md2 l assets di).
  Proof.
    induction l as [|[[apath name] o] l IH]; intros assets ci di Ho Hc; cbn [Cache.load_all].
    - cbn. auto.
    - inversion Ho as [|? ? Ho1 Ho2]; subst.
      set (a := match lookup apath assets with Some a => a | None => empty_asset end).
      assert (Hr : two_rel (load_asset md1 apath name o a ci) (load_asset md2 apath name o a di)).
      { destruct o as [| |sets|sets|sets]; cbn [Cache.load_asset]; try (cbn; auto; fail); apply load_mpd_two; assumption. }
      destruct (load_asset md1 apath name o a ci) as [[[a1 c1] e1]| |],
               (load_asset md2 apath name o a di) as [[[a2 c2] e2]| |]; cbn [two_rel bind two_all_rel] in *; try contradiction; auto.
      destruct Hr as (-> & _ & Hc12). apply IH; assumption.
  Qed.

  Theorem discover_two l ci di :
    Forall mpd_occ l -> CR ci di ->
    two_all_rel (discover md1 l ci) (discover md2 l di).
  Proof.
    intros Ho Hc. unfold Cache.discover. pose proof (load_all_two l [] ci di Ho Hc) as Hr.
    destruct (load_all md1 l [] ci) as [[l1 c1]| |], (load_all md2 l [] di) as [[l2 c2]| |];
      cbn [two_all_rel bind] in *; try contradiction; auto.
    destruct Hr as (-> & Hc12). destruct (lenZ l2 =? 0); [exact I|].
    destruct (consolidate_all l2); cbn; auto.
  Qed.

End TwoRuns.

Section WriteMode.
  Variable B : Type.
  Variable enc : stored -> B.
  Variable dec : B -> option stored.
  Notation discover := (discover B enc dec).

  Lemma mpd_occ_true l : Forall (mpd_occ (fun _ _ => True)) l.
  Proof. apply Forall_forall. intros [[a n] o] _. destruct o; cbn; auto; intros s _ b m _; exact I. Qed.

  (** Write mode serves exactly what scan mode serves (same assets, same outcome). *)
  Theorem write_eq_scan l c c0 :
    two_all_rel B (fun _ _ => True) (discover mode_write l c) (discover mode_scan l c0).
  Proof.
    apply (discover_two B enc dec mode_write mode_scan eq_refl eq_refl (fun _ _ => True) (fun _ _ => True)); auto.
    apply mpd_occ_true.
  Qed.

  (** Idempotence: a second write-mode start over the files of the first leaves every cache file
      as it is (and serves the same). *)
  Theorem write_idempotent l c assets c1 :
    discover mode_write l c = Ok (assets, c1) ->
    exists c2, discover mode_write l c1 = Ok (assets, c2) /\ forall a id, c2 a id = c1 a id.
  Proof.
    intros H1.
    set (CR := fun (x y : cache B) => forall a id, x a id = y a id \/ (x a id = c a id /\ y a id = c1 a id)).
    assert (Hstep : forall ci di apath m, True -> CR ci di -> CR (wstep B enc mode_write ci apath m) (wstep B enc mode_write di apath m)).
    { intros ci di apath m _ Hc a id. unfold wstep. destruct (scan_rep m) as [r| |]; try apply Hc.
      cbn [do_write mode_write]. unfold cache_set. destruct (String.eqb apath a && String.eqb (m_id m) id); [left; reflexivity|apply Hc]. }
    pose proof (discover_two B enc dec mode_write mode_write eq_refl eq_refl (fun _ _ => True) CR Hstep l c c1 (mpd_occ_true l)) as Hr.
    rewrite H1 in Hr. specialize (Hr (fun a id => or_intror (conj eq_refl eq_refl))).
    destruct (discover mode_write l c1) as [[l2 c2]| |]; cbn in Hr; try contradiction.
    destruct Hr as [<- Hc]. exists c2. split; [reflexivity|]. intros a id. destruct (Hc a id) as [E|[E1 E2]]; congruence.
  Qed.

  (** Write mode refreshes: whatever the directory held before (files of an earlier version of the
      asset, truncated or corrupt files, files of other assets), after a write run every file is
      the one a write run into an empty directory produces, or a file the run did not touch (no
      representation with that name was scanned successfully). *)
  Theorem write_refreshes l c assets c1 :
    discover mode_write l c = Ok (assets, c1) ->
    exists c0, discover mode_write l (fun _ _ => CAbsent) = Ok (assets, c0) /\
               forall a id, c1 a id = c0 a id \/ (c1 a id = c a id /\ c0 a id = CAbsent).
  Proof.
    intros H1.
    set (CR := fun (x y : cache B) => forall a id, x a id = y a id \/ (x a id = c a id /\ y a id = CAbsent)).
    assert (Hstep : forall ci di apath m, True -> CR ci di -> CR (wstep B enc mode_write ci apath m) (wstep B enc mode_write di apath m)).
    { intros ci di apath m _ Hc a id. unfold wstep. destruct (scan_rep m) as [r| |]; try apply Hc.
      cbn [do_write mode_write]. unfold cache_set. destruct (String.eqb apath a && String.eqb (m_id m) id); [left; reflexivity|apply Hc]. }
    pose proof (discover_two B enc dec mode_write mode_write eq_refl eq_refl (fun _ _ => True) CR Hstep l c (fun _ _ => CAbsent) (mpd_occ_true l)) as Hr.
    rewrite H1 in Hr. specialize (Hr (fun a id => or_intror (conj eq_refl eq_refl))).
    destruct (discover mode_write l (fun _ _ => CAbsent)) as [[l2 c2]| |]; cbn in Hr; try contradiction.
    destruct Hr as [<- Hc]. exists c2. split; [reflexivity|exact Hc].
  Qed.

  (** Write mode produces a good cache directory: every file it leaves is the written form of the
      scan of the representation it belongs to, provided the MPDs of an asset describe a given
      representation id in one way ([D]) and the directory was good before (e.g. empty). *)
  Variable D : string -> string -> mpd_rep.
  Definition consistent (l : mpd_list) : Prop := Forall (mpd_occ (fun apath m => m = D apath (m_id m))) l.
  Definition good_D (c : cache B) : Prop := forall a id, good_entry B enc dec (D a id) (c a id).

  Theorem write_makes_good l c assets c1 :
    consistent l -> good_D c ->
    discover mode_write l c = Ok (assets, c1) -> good_D c1.
  Proof.
    intros Hcons Hg H1.
    set (CR := fun (x _ : cache B) => good_D x).
    assert (Hstep : forall ci di apath m, m = D apath (m_id m) -> CR ci di -> CR (wstep B enc mode_write ci apath m) (wstep B enc mode_write di apath m)).
    { intros ci di apath m Hm Hc a id. unfold wstep. destruct (scan_rep m) as [r| |] eqn:Es; try apply Hc.
      cbn [do_write mode_write]. unfold cache_set. destruct (String.eqb apath a && String.eqb (m_id m) id) eqn:Ek; [|apply Hc].
      apply andb_prop in Ek. destruct Ek as [Ea Ei]. apply String.eqb_eq in Ea, Ei. subst a id.
      right; right; right. exists r. split; [rewrite <- Hm; exact Es|reflexivity]. }
    pose proof (discover_two B enc dec mode_write mode_write eq_refl eq_refl _ CR Hstep l c c Hcons Hg) as Hr.
    rewrite H1 in Hr. cbn in Hr. apply Hr.
  Qed.

  (** A good directory is good for every MPD list that is consistent with [D] and has usable init segments. *)
  Lemma good_D_cache_good l c :
    consistent l -> good_D c ->
    Forall (mpd_occ (fun _ m => init_ts_ok m)) l ->
    cache_good B enc dec c l.
  Proof.
    intros Hcons Hg Hts. unfold cache_good, consistent in *. rewrite Forall_forall in *. intros [[apath name] o] Hin.
    specialize (Hcons _ Hin). specialize (Hts _ Hin). destruct o as [| |sets|sets|sets]; cbn in *; auto;
      (intros s Hs b m Hm; split; [|eapply Hts; eauto]; rewrite (Hcons s Hs b m Hm) at 1; apply Hg).
  Qed.

End WriteMode.
