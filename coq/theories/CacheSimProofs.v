(** Proofs about the loader model (Cache.v), part 2: a server started from cache files serves the
    same assets as one that scans (simulation between the two runs of [discover]); write mode
    produces cache files from which that holds; writing is idempotent. *)
From Verif Require Import GoSem GoSemFacts Timeline Cache CacheProofs.
From Coq Require Import ZifyBool.

(** Two loaded representations agree on everything that is stored (all but CommonSampleDur). *)
Definition rep_sim (r r' : repdata) : Prop := to_stored r = to_stored r'.

Lemma rep_sim_refl r : rep_sim r r. Proof. reflexivity. Qed.
Lemma rep_sim_stored_fields r : rep_sim (stored_fields r) r.
Proof. apply to_stored_stored_fields. Qed.

Lemma rep_sim_fields r r' : rep_sim r r' ->
  r_id r = r_id r' /\ r_ctype r = r_ctype r' /\ r_mediats r = r_mediats r' /\ r_const r = r_const r' /\
  r_preenc r = r_preenc r' /\ map tseg (r_segs r) = map tseg (r_segs r').
Proof. unfold rep_sim, to_stored. intros H. injection H. intros. repeat split; assumption. Qed.

Lemma rep_sim_len r r' : rep_sim r r' -> lenZ (r_segs r) = lenZ (r_segs r').
Proof.
  intros H. destruct (rep_sim_fields _ _ H) as (_ & _ & _ & _ & _ & Hs).
  unfold lenZ. rewrite <- (map_length tseg (r_segs r)), Hs, map_length. reflexivity.
Qed.

Lemma rep_sim_rduration r r' : rep_sim r r' -> rduration (r_segs r) = rduration (r_segs r').
Proof. intros H. apply rduration_stored. apply (rep_sim_fields _ _ H). Qed.

Lemma rep_sim_avg r r' : rep_sim r r' -> avg_seg_dur_ms r = avg_seg_dur_ms r'.
Proof.
  intros H. unfold avg_seg_dur_ms. rewrite (rep_sim_len _ _ H), (rep_sim_rduration _ _ H).
  destruct (rep_sim_fields _ _ H) as (_ & _ & -> & _). reflexivity.
Qed.

Lemma rep_sim_dur_ms r r' : rep_sim r r' -> dur_ms r = dur_ms r'.
Proof.
  intros H. unfold dur_ms. rewrite (rep_sim_rduration _ _ H).
  destruct (rep_sim_fields _ _ H) as (_ & _ & -> & _). reflexivity.
Qed.

(** Outcomes related up to the text of an error. *)
Definition res_rel {A A'} (R : A -> A' -> Prop) (x : res A) (y : res A') : Prop :=
  match x, y with
  | Ok a, Ok b => R a b
  | Err _, Err _ => True
  | Panic s, Panic s' => s = s'
  | _, _ => False
  end.

Definition reps_sim (l l' : list (string * repdata)) : Prop :=
  Forall2 (fun p p' => fst p = fst p' /\ rep_sim (snd p) (snd p')) l l'.

Definition asset_sim (a a' : asset) : Prop :=
  a_mpds a = a_mpds a' /\ reps_sim (a_reps a) (a_reps a') /\ a_segdur a = a_segdur a' /\
  a_loop a = a_loop a' /\ a_ref a = a_ref a'.

Definition assets_sim (l l' : list (string * asset)) : Prop :=
  Forall2 (fun p p' => fst p = fst p' /\ asset_sim (snd p) (snd p')) l l'.

Lemma reps_sim_refl l : reps_sim l l.
Proof. induction l; constructor; auto. split; reflexivity. Qed.
Lemma asset_sim_refl a : asset_sim a a.
Proof. repeat split; auto. apply reps_sim_refl. Qed.

Lemma lookup_reps_sim k l l' : reps_sim l l' ->
  match lookup k l, lookup k l' with
  | Some r, Some r' => rep_sim r r'
  | None, None => True
  | _, _ => False
  end.
Proof.
  induction 1 as [|[k1 r1] [k2 r2] l l' [Hk Hr] _ IH]; cbn [lookup]; [exact I|].
  cbn [fst snd] in *. subst k2. destruct (String.eqb k k1); [exact Hr|exact IH].
Qed.

Lemma upsert_reps_sim k r r' l l' : rep_sim r r' -> reps_sim l l' -> reps_sim (upsert k r l) (upsert k r' l').
Proof.
  intros Hr. induction 1 as [|[k1 r1] [k2 r2] l l' [Hk Hs] Hl IH]; cbn [upsert].
  - constructor; [split; [reflexivity|exact Hr]|constructor].
  - cbn [fst snd] in *. subst k2. destruct (String.eqb k k1).
    + constructor; [split; [reflexivity|exact Hr]|exact Hl].
    + constructor; [split; [reflexivity|exact Hs]|exact IH].
Qed.

Lemma lookup_assets_sim k l l' : assets_sim l l' ->
  match lookup k l, lookup k l' with
  | Some a, Some a' => asset_sim a a'
  | None, None => True
  | _, _ => False
  end.
Proof.
  induction 1 as [|[k1 r1] [k2 r2] l l' [Hk Hr] _ IH]; cbn [lookup]; [exact I|].
  cbn [fst snd] in *. subst k2. destruct (String.eqb k k1); [exact Hr|exact IH].
Qed.

Lemma upsert_assets_sim k a a' l l' : asset_sim a a' -> assets_sim l l' -> assets_sim (upsert k a l) (upsert k a' l').
Proof.
  intros Hr. induction 1 as [|[k1 r1] [k2 r2] l l' [Hk Hs] Hl IH]; cbn [upsert].
  - constructor; [split; [reflexivity|exact Hr]|constructor].
  - cbn [fst snd] in *. subst k2. destruct (String.eqb k k1).
    + constructor; [split; [reflexivity|exact Hr]|exact Hl].
    + constructor; [split; [reflexivity|exact Hs]|exact IH].
Qed.

Lemma add_rep_sim a a' r r' : asset_sim a a' -> rep_sim r r' -> asset_sim (add_rep a r) (add_rep a' r').
Proof.
  intros (Hm & Hr & Hs & Hl & Hf) H. unfold add_rep, asset_sim; cbn.
  rewrite (rep_sim_avg _ _ H), Hs. destruct (rep_sim_fields _ _ H) as (-> & _).
  repeat split; auto. apply upsert_reps_sim; assumption.
Qed.

(** * consolidateAsset depends on stored fields only *)

Lemma min_key_sim ct l l' : reps_sim l l' -> forall best, min_key ct l best = min_key ct l' best.
Proof.
  induction 1 as [|[k1 r1] [k2 r2] l l' [Hk Hr] _ IH]; intros best; cbn [min_key]; [reflexivity|].
  cbn [fst snd] in *. subst k2. destruct (rep_sim_fields _ _ Hr) as (_ & -> & _).
  destruct (String.eqb (r_ctype r2) ct); [|apply IH]. destruct best; apply IH.
Qed.

Lemma all_same_dur_sim ct loopMS l l' : reps_sim l l' -> all_same_dur ct loopMS l = all_same_dur ct loopMS l'.
Proof.
  induction 1 as [|[k1 r1] [k2 r2] l l' [Hk Hr] _ IH]; cbn [all_same_dur]; [reflexivity|].
  cbn [fst snd] in *. destruct (rep_sim_fields _ _ Hr) as (_ & -> & _ & _ & -> & _).
  rewrite (rep_sim_dur_ms _ _ Hr), IH. reflexivity.
Qed.

Definition opt_rel {A A'} (R : A -> A' -> Prop) (x : option A) (y : option A') : Prop :=
  match x, y with Some a, Some b => R a b | None, None => True | _, _ => False end.

Lemma consolidate_sim a a' : asset_sim a a' -> res_rel (opt_rel asset_sim) (consolidate a) (consolidate a').
Proof.
  intros (Hm & Hr & Hs & Hl & Hf). unfold consolidate, reference_rep.
  rewrite (min_key_sim "video" _ _ Hr), (min_key_sim "audio" _ _ Hr).
  set (k := match min_key "video" (a_reps a') None with Some k => Some k | None => min_key "audio" (a_reps a') None end).
  destruct k as [k|]; [|exact I].
  pose proof (lookup_reps_sim k _ _ Hr) as Hlk.
  destruct (lookup k (a_reps a)) as [r|], (lookup k (a_reps a')) as [r'|]; try contradiction; [|reflexivity].
  rewrite (rep_sim_dur_ms _ _ Hlk). destruct (dur_ms r') as [loopMS| |]; cbn [bind res_rel]; auto.
  rewrite (rep_sim_rduration _ _ Hlk). destruct (rep_sim_fields _ _ Hlk) as (_ & -> & -> & _).
  destruct (negb _); [exact I|].
  rewrite (all_same_dur_sim _ _ _ _ Hr). destruct (all_same_dur (r_ctype r') loopMS (a_reps a')) as [b| |]; cbn [bind res_rel]; auto.
  destruct b; [|exact I]. cbn. repeat split; auto.
Qed.

Lemma consolidate_all_sim l l' : assets_sim l l' -> res_rel assets_sim (consolidate_all l) (consolidate_all l').
Proof.
  induction 1 as [|[k1 a1] [k2 a2] l l' [Hk Ha] _ IH]; cbn [consolidate_all]; [constructor|].
  cbn [fst snd] in *. subst k2. pose proof (consolidate_sim _ _ Ha) as Hc.
  destruct (consolidate a1) as [o1| |], (consolidate a2) as [o2| |]; cbn [res_rel bind] in *; try contradiction; auto.
  destruct (consolidate_all l) as [r1| |], (consolidate_all l') as [r2| |]; cbn [res_rel bind] in *; try contradiction; auto.
  destruct o1 as [x1|], o2 as [x2|]; cbn [opt_rel] in Hc; try contradiction; [|exact IH].
  constructor; [split; [reflexivity|exact Hc]|exact IH].
Qed.

Section Sim.
  Variable B : Type.
  Variable enc : stored -> B.
  Variable dec : B -> option stored.
  (** Recorded assumption about encoding/json + compress/gzip: what was written is read back. *)
  Hypothesis dec_enc : forall s, dec (enc s) = Some s.

  Notation load_json := (load_json B dec).
  Notation load_rep := (load_rep B enc dec).
  Notation load_reps := (load_reps B enc dec).
  Notation load_sets := (load_sets B enc dec).
  Notation load_asset := (load_asset B enc dec).
  Notation load_all := (load_all B enc dec).
  Notation discover := (discover B enc dec).

  (** ** One representation *)

  (** The init segment has a non-zero timescale (for a zero timescale readInit runs again in the
      cache path and resets DefaultSampleDuration to the trex value). *)
  Definition init_ts_ok (m : mpd_rep) : Prop :=
    match m_init m with IOk its _ _ => its <> 0 | IBad => True end.

  Lemma with_init_same r : with_init r (r_mediats r) (r_dsd r) (r_preenc r) = r.
  Proof. destruct r; reflexivity. Qed.

  Lemma scan_rep_shape m r :
    scan_rep m = Ok r ->
    r_mediauri r = m_mediauri m /\ r_ctype r = m_ctype m /\ uri_kind (m_mediauri m) <> UNone /\
    (String.eqb (m_ctype m) "image" = false ->
     exists its idsd ipe, m_init m = IOk its idsd ipe /\ r_mediats r = its /\ r_preenc r = ipe).
  Proof.
    unfold scan_rep. set (rp0 := {| r_id := m_id m; r_ctype := m_ctype m; r_codecs := _; r_mpdts := _; r_mediats := 0;
                                    r_inituri := m_inituri m; r_mediauri := m_mediauri m; r_segs := []; r_dsd := 0;
                                    r_const := None; r_preenc := false |}).
    intros H. destruct (add_init rp0 (m_init m)) as [rp| |] eqn:Ea; cbn [bind] in H; try discriminate.
    assert (Hrp : r_mediauri rp = m_mediauri m /\ r_ctype rp = m_ctype m /\ uri_kind (m_mediauri m) <> UNone /\
                  (String.eqb (m_ctype m) "image" = false ->
                   exists its idsd ipe, m_init m = IOk its idsd ipe /\ r_mediats rp = its /\ r_preenc rp = ipe)).
    { unfold add_init in Ea. change (r_mediauri rp0) with (m_mediauri m) in Ea. change (r_ctype rp0) with (m_ctype m) in Ea.
      destruct (uri_kind (m_mediauri m)) eqn:Eu; try discriminate.
      - destruct (String.eqb (m_ctype m) "image") eqn:Ei.
        + inversion Ea; subst rp. repeat split; auto; discriminate.
        + destruct (m_init m) as [|its idsd ipe]; [discriminate|]. change (r_mediats rp0 =? 0) with true in Ea. cbv iota in Ea.
          inversion Ea; subst rp. repeat split; auto; try discriminate. intros _. exists its, idsd, ipe. repeat split.
      - destruct (String.eqb (m_ctype m) "image") eqn:Ei.
        + inversion Ea; subst rp. repeat split; auto; discriminate.
        + destruct (m_init m) as [|its idsd ipe]; [discriminate|]. change (r_mediats rp0 =? 0) with true in Ea. cbv iota in Ea.
          inversion Ea; subst rp. repeat split; auto; try discriminate. intros _. exists its, idsd, ipe. repeat split. }
    destruct Hrp as (Hu & Hc & Hk & Hi).
    match type of H with (do tab <- ?T ; _) = _ => destruct T as [[[mediats segs] dsd]| |] eqn:Et end; cbn [bind] in H; try discriminate.
    inversion H; subst r; cbn. repeat split; auto.
    intros Himg. destruct (Hi Himg) as (its & idsd & ipe & E1 & E2 & E3). exists its, idsd, ipe. repeat split; auto.
    (* mediats of the table is the one of rp for everything that is not an image *)
    rewrite Hc, Himg in Et.
    destruct (m_timeline m) as [es|]; destruct (uri_kind (r_mediauri rp)); try discriminate.
    - destruct (time_loop (m_tfiles m) es 0 (r_dsd rp) []) as [x| |]; cbn [bind] in Et; try discriminate. inversion Et; subst; reflexivity.
    - destruct (load_number None (m_files m) (m_startnr m) (m_endnr m) (r_dsd rp)) as [x| |]; cbn [bind] in Et; try discriminate.
      inversion Et; subst; reflexivity.
  Qed.

  (** Reading back what write mode stored from a scan gives the stored fields of the scan. *)
  Lemma load_json_of_scan m r :
    scan_rep m = Ok r -> init_ts_ok m ->
    load_json (enc (to_stored r)) (m_init m) = Ok (stored_fields r).
  Proof.
    intros Hs Hts. unfold Cache.load_json. rewrite dec_enc. fold (stored_fields r).
    destruct (scan_rep_shape _ _ Hs) as (Hu & Hc & Hk & Hi).
    unfold add_init.
    assert (Hu' : r_mediauri (stored_fields r) = m_mediauri m) by (rewrite <- Hu; reflexivity).
    assert (Hc' : r_ctype (stored_fields r) = m_ctype m) by (rewrite <- Hc; reflexivity).
    rewrite Hu', Hc'. destruct (uri_kind (m_mediauri m)) eqn:Eu; try congruence.
    - destruct (String.eqb (m_ctype m) "image") eqn:Ei; [reflexivity|].
      destruct (Hi eq_refl) as (its & idsd & ipe & E1 & E2 & E3). unfold init_ts_ok in Hts. rewrite E1 in *.
      change (r_mediats (stored_fields r)) with (r_mediats r). change (r_preenc (stored_fields r)) with (r_preenc r).
      change (r_dsd (stored_fields r)) with (r_dsd r). rewrite E2, E3.
      destruct (its =? 0) eqn:Ez; [lia|]. rewrite Bool.orb_diag. f_equal.
      rewrite <- E2, <- E3. apply (with_init_same (stored_fields r)).
    - destruct (String.eqb (m_ctype m) "image") eqn:Ei; [reflexivity|].
      destruct (Hi eq_refl) as (its & idsd & ipe & E1 & E2 & E3). unfold init_ts_ok in Hts. rewrite E1 in *.
      change (r_mediats (stored_fields r)) with (r_mediats r). change (r_preenc (stored_fields r)) with (r_preenc r).
      change (r_dsd (stored_fields r)) with (r_dsd r). rewrite E2, E3.
      destruct (its =? 0) eqn:Ez; [lia|]. rewrite Bool.orb_diag. f_equal.
      rewrite <- E2, <- E3. apply (with_init_same (stored_fields r)).
  Qed.

  (** A cache entry is good for a representation: no file, or the file write mode produces for it. *)
  Definition good_entry (m : mpd_rep) (c : cobs B) : Prop :=
    c = CAbsent \/ exists r, scan_rep m = Ok r /\ c = CBytes (enc (to_stored r)).

  Lemma load_rep_read m c :
    good_entry m c -> init_ts_ok m ->
    res_rel rep_sim (fst (load_rep mode_read c m)) (scan_rep m) /\ snd (load_rep mode_read c m) = None.
  Proof.
    intros [->|[r [Hs ->]]] Hts; unfold Cache.load_rep; cbn [use_cache do_write mode_read fst snd].
    - split; [|destruct (scan_rep m); reflexivity]. destruct (scan_rep m); cbn; auto. apply rep_sim_refl.
    - split; [|reflexivity]. rewrite (load_json_of_scan _ _ Hs Hts), Hs. cbn. apply rep_sim_stored_fields.
  Qed.

  Lemma load_rep_scan c m : load_rep mode_scan c m = (scan_rep m, None).
  Proof. unfold Cache.load_rep; cbn. destruct (scan_rep m); reflexivity. Qed.

  Lemma load_rep_write c m :
    load_rep mode_write c m = (scan_rep m, match scan_rep m with Ok r => Some (enc (to_stored r)) | _ => None end).
  Proof. reflexivity. Qed.

  (** ** loadAsset *)

  Definition reps_good (apath : string) (c : cache B) (reps : list (bool * mpd_rep)) : Prop :=
    forall b m, In (b, m) reps -> good_entry m (c apath (m_id m)) /\ init_ts_ok m.

  (** cache-mode run vs. scanning run: same error, assets related, cache directories untouched *)
  Definition lstate_rel (c c0 : cache B) (x y : res (lstate B)) : Prop :=
    match x, y with
    | Ok (a1, c1, e1), Ok (a2, c2, e2) => asset_sim a1 a2 /\ c1 = c /\ c2 = c0 /\ e1 = e2
    | Panic s, Panic s' => s = s'
    | Err _, Err _ => True
    | _, _ => False
    end.

  Lemma load_reps_sim apath actype c c0 : forall reps a a',
    asset_sim a a' -> reps_good apath c reps ->
    lstate_rel c c0 (load_reps mode_read apath actype reps a c) (load_reps mode_scan apath actype reps a' c0).
  Proof.
    induction reps as [|[b m] reps IH]; intros a a' Ha Hg; cbn [Cache.load_reps].
    - cbn. auto.
    - destruct b; [cbn; auto|].
      assert (Hg' : reps_good apath c reps) by (intros b' m' Hin; apply (Hg b' m'); now right).
      pose proof (lookup_reps_sim (m_id m) _ _ (proj1 (proj2 Ha))) as Hlk.
      destruct (lookup (m_id m) (a_reps a)) as [x|], (lookup (m_id m) (a_reps a')) as [x'|]; try contradiction.
      + apply IH; assumption.
      + destruct (Hg false m (or_introl eq_refl)) as [Hge Hts].
        destruct (load_rep_read m _ Hge Hts) as [Hrel Hw]. rewrite load_rep_scan.
        destruct (load_rep mode_read (c apath (m_id m)) m) as [rr w]. cbn [fst snd] in *. subst w.
        destruct rr as [r| |], (scan_rep m) as [r'| |]; cbn [res_rel] in Hrel; try contradiction; cbn; auto.
        rewrite (rep_sim_len _ _ Hrel). destruct (lenZ (r_segs r') =? 0); [cbn; auto|].
        destruct (rep_sim_fields _ _ Hrel) as (_ & _ & _ & Hconst & _). rewrite Hconst.
        pose proof (add_rep_sim _ _ _ _ Ha Hrel) as Ha2.
        destruct (String.eqb actype "audio" && match r_const r' with Some d => d =? 0 | None => true end); [cbn; auto|].
        apply IH; assumption.
  Qed.

  Definition sets_good (apath : string) (c : cache B) (sets : list aset) : Prop :=
    forall s, In s sets -> reps_good apath c (as_reps s).

  Lemma load_sets_sim apath c c0 : forall sets a a',
    asset_sim a a' -> sets_good apath c sets ->
    lstate_rel c c0 (load_sets mode_read apath sets a c) (load_sets mode_scan apath sets a' c0).
  Proof.
    induction sets as [|s sets IH]; intros a a' Ha Hg; cbn [Cache.load_sets].
    - cbn. auto.
    - destruct (negb (as_has_template s)); [cbn; auto|].
      pose proof (load_reps_sim apath (as_ctype s) c c0 (as_reps s) a a' Ha (Hg s (or_introl eq_refl))) as Hr.
      destruct (load_reps mode_read apath (as_ctype s) (as_reps s) a c) as [[[a1 c1] e1]| |],
               (load_reps mode_scan apath (as_ctype s) (as_reps s) a' c0) as [[[a2 c2] e2]| |]; cbn [lstate_rel bind] in *; try contradiction; auto.
      destruct Hr as (Ha12 & -> & -> & ->). destruct e2; [cbn; auto|].
      apply IH; [exact Ha12|]. intros s' Hin. apply Hg. now right.
  Qed.

  Definition mpd_good (c : cache B) (e : string * string * mpd_obs) : Prop :=
    match e with
    | (apath, _, MOk sets) => sets_good apath c sets
    | _ => True
    end.

  Lemma load_asset_sim apath name o c c0 a a' :
    asset_sim a a' -> mpd_good c (apath, name, o) ->
    lstate_rel c c0 (load_asset mode_read apath name o a c) (load_asset mode_scan apath name o a' c0).
  Proof.
    intros Ha Hg. destruct o as [| |sets]; cbn [Cache.load_asset]; try (cbn; auto; fail).
    apply load_sets_sim; [|exact Hg].
    destruct Ha as (Hm & Hr & Hs & Hl & Hf). repeat split; cbn; auto. now rewrite Hm.
  Qed.

  (** ** discoverAssets *)

  Definition cache_good (c : cache B) (l : mpd_list) : Prop := Forall (mpd_good c) l.

  Definition all_rel (c c0 : cache B) (x y : res (list (string * asset) * cache B)) : Prop :=
    match x, y with
    | Ok (l1, c1), Ok (l2, c2) => assets_sim l1 l2 /\ c1 = c /\ c2 = c0
    | Panic s, Panic s' => s = s'
    | Err _, Err _ => True
    | _, _ => False
    end.

  Lemma load_all_sim c c0 : forall l assets assets',
    assets_sim assets assets' -> cache_good c l ->
    all_rel c c0 (load_all mode_read l assets c) (load_all mode_scan l assets' c0).
  Proof.
    induction l as [|[[apath name] o] l IH]; intros assets assets' Has Hg; cbn [Cache.load_all].
    - cbn. auto.
    - inversion Hg as [|? ? Hg1 Hg2]; subst.
      pose proof (lookup_assets_sim apath _ _ Has) as Hlk.
      set (a := match lookup apath assets with Some a => a | None => empty_asset end).
      set (a' := match lookup apath assets' with Some a => a | None => empty_asset end).
      assert (Ha : asset_sim a a').
      { subst a a'. destruct (lookup apath assets), (lookup apath assets'); try contradiction; [exact Hlk|apply asset_sim_refl]. }
      pose proof (load_asset_sim apath name o c c0 a a' Ha Hg1) as Hr.
      destruct (load_asset mode_read apath name o a c) as [[[a1 c1] e1]| |],
               (load_asset mode_scan apath name o a' c0) as [[[a2 c2] e2]| |]; cbn [lstate_rel bind all_rel] in *; try contradiction; auto.
      destruct Hr as (Ha12 & -> & -> & _).
      apply IH; [|exact Hg2]. apply upsert_assets_sim; assumption.
  Qed.

  Lemma assets_sim_len l l' : assets_sim l l' -> lenZ l = lenZ l'.
  Proof. intros H. unfold lenZ. f_equal. induction H; cbn; congruence. Qed.

  (** Main theorem: started from a good cache directory (each file absent or as written by write
      mode for the same files), the server registers and admits the same assets, with the same stored
      fields, LoopDurMS, SegmentDurMS, reference representation and MPD list as a scanning server;
      errors and panics of the start-up coincide; neither run modifies the cache directory. *)
  Theorem discover_cache_eq_scan l c c0 :
    cache_good c l ->
    all_rel c c0 (discover mode_read l c) (discover mode_scan l c0).
  Proof.
    intros Hg. unfold Cache.discover.
    pose proof (load_all_sim c c0 l [] [] (Forall2_nil _) Hg) as Hr.
    destruct (load_all mode_read l [] c) as [[l1 c1]| |], (load_all mode_scan l [] c0) as [[l2 c2]| |];
      cbn [all_rel bind] in *; try contradiction; auto.
    destruct Hr as (Hs & -> & ->). rewrite (assets_sim_len _ _ Hs).
    destruct (lenZ l2 =? 0); [exact I|].
    pose proof (consolidate_all_sim _ _ Hs) as Hc.
    destruct (consolidate_all l1) as [s1| |], (consolidate_all l2) as [s2| |]; cbn [res_rel bind all_rel] in *; try contradiction; auto.
  Qed.

End Sim.
