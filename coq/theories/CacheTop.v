(** Proofs about the loader model (Cache.v), part 3: the statements of C15 lifted to whole
    server starts. *)
From Verif Require Import GoSem GoSemFacts Timeline Cache CacheProofs CacheSimProofs.
From Coq Require Import ZifyBool.

(** A $Number$ representation that the scan accepts has a contiguous table. *)
Lemma scan_rep_number_contig m r :
  scan_rep m = Ok r -> m_timeline m = None ->
  0 <= match m_startnr m with Some n => n | None => 1 end < two32 ->
  lenZ (m_files m) < two32 ->
  contiguous (segs (trep r)).
Proof.
  unfold scan_rep. intros H Ht H0 Hl. rewrite Ht in H.
  destruct (add_init _ (m_init m)) as [rp| |]; cbn [bind] in H; try discriminate.
  destruct (uri_kind (r_mediauri rp)); try discriminate.
  destruct (if String.eqb (r_ctype rp) "image" then _ else _) as [thumb mediats].
  destruct (load_number thumb (m_files m) (m_startnr m) (m_endnr m) (r_dsd rp)) as [[sg d]| |] eqn:E; cbn [bind] in H; try discriminate.
  inversion H; subst r. cbn. eapply load_number_contig_all; eauto.
Qed.

(** ... and so has the table loaded from the cache file written for it. *)
Lemma cached_rep_number_contig m r r' :
  scan_rep m = Ok r -> rep_sim r' r -> m_timeline m = None ->
  0 <= match m_startnr m with Some n => n | None => 1 end < two32 ->
  lenZ (m_files m) < two32 ->
  contiguous (segs (trep r')).
Proof.
  intros Hs Hr Ht H0 Hl. unfold trep; cbn [segs].
  destruct (rep_sim_fields _ _ Hr) as (_ & _ & _ & _ & _ & ->).
  apply (scan_rep_number_contig m r Hs Ht H0 Hl).
Qed.

(** Every served asset went through consolidateAsset. *)
Lemma consolidate_all_in : forall l A p a,
  consolidate_all l = Ok A -> In (p, a) A -> exists a0, In (p, a0) l /\ consolidate a0 = Ok (Some a).
Proof.
  induction l as [|[p0 a0] l IH]; intros A p a H Hin; cbn [consolidate_all] in H.
  - inversion H; subst. destruct Hin.
  - destruct (consolidate a0) as [ca| |] eqn:Ec; cbn [bind] in H; try discriminate.
    destruct (consolidate_all l) as [rest| |] eqn:Er; cbn [bind] in H; try discriminate.
    inversion H; subst A. destruct ca as [a'|].
    + destruct Hin as [Heq|Hin].
      * inversion Heq; subst. exists a0. split; [now left|exact Ec].
      * destruct (IH rest p a eq_refl Hin) as [x [Hx1 Hx2]]. exists x. split; [now right|exact Hx2].
    + destruct (IH rest p a eq_refl Hin) as [x [Hx1 Hx2]]. exists x. split; [now right|exact Hx2].
Qed.

Section Top.
  Variable B : Type.
  Variable enc : stored -> B.
  Variable dec : B -> option stored.
  Hypothesis dec_enc : forall s, dec (enc s) = Some s.
  Notation discover := (discover B enc dec).

  Lemma discover_served_admitted md l c A c' p a :
    discover md l c = Ok (A, c') -> In (p, a) A -> exists a0, consolidate a0 = Ok (Some a).
  Proof.
    unfold Cache.discover. intros H Hin.
    destruct (load_all B enc dec md l [] c) as [[assets c1]| |]; cbn [bind] in H; try discriminate.
    destruct (lenZ assets =? 0); [discriminate|].
    destruct (consolidate_all assets) as [served| |] eqn:E; cbn [bind] in H; try discriminate.
    inversion H; subst. destruct (consolidate_all_in _ _ _ _ E Hin) as [a0 [_ Ha]]. eauto.
  Qed.

  (** Admission, for whatever is served in any mode: the reference representation's duration is
      [LoopDurMS] milliseconds exactly; every representation has a contiguous table; every
      representation other than audio next to a non-audio reference has exactly the duration of the
      reference (in cross-multiplied ticks); pre-encrypted audio lasts [LoopDurMS] ms. *)
  Theorem served_asset_admission md l c A c' p a :
    discover md l c = Ok (A, c') -> In (p, a) A ->
    exists k ref,
      a_ref a = Some k /\ lookup k (a_reps a) = Some ref /\
      dur_ms ref = Ok (a_loop a) /\
      (admission_range ref -> 1000 * rduration (r_segs ref) = a_loop a * r_mediats ref) /\
      (forall k' r, In (k', r) (a_reps a) -> rep_admitted ref (a_loop a) r).
  Proof.
    intros H Hin. destruct (discover_served_admitted _ _ _ _ _ _ _ H Hin) as [a0 Ha0].
    destruct (consolidate_admitted _ _ Ha0) as (k & ref & H1 & H2 & H3 & H4 & H5 & H6).
    exists k, ref. rewrite H3. split; [exact H1|]. split; [exact H2|]. split; [exact H4|].
    split; [|exact H6]. intros Hr. apply admission_exact; assumption.
  Qed.

  (** The loaded segment table of every served representation is contiguous (whatever the
      addressing mode, whatever the start mode). *)
  Theorem served_tables_contiguous md l c A c' p a k r :
    discover md l c = Ok (A, c') -> In (p, a) A -> In (k, r) (a_reps a) ->
    contiguous (segs (trep r)).
  Proof.
    intros H Hin Hr. destruct (served_asset_admission _ _ _ _ _ _ _ H Hin) as (k0 & ref & _ & _ & _ & _ & Hall).
    apply (Hall k r Hr).
  Qed.

  (** The admission equation in the form the timeline theorems (Timeline.wf: wf_loop) assume it. *)
  Theorem served_ref_wf_loop md l c A c' p a :
    discover md l c = Ok (A, c') -> In (p, a) A ->
    exists k ref,
      a_ref a = Some k /\ lookup k (a_reps a) = Some ref /\
      (r_segs ref <> [] -> 0 <= repDuration (trep ref) < two63 -> admission_range ref ->
       1000 * repDuration (trep ref) = a_loop a * ts (trep ref)).
  Proof.
    intros H Hin. destruct (served_asset_admission _ _ _ _ _ _ _ H Hin) as (k & ref & H1 & H2 & _ & H4 & _).
    exists k, ref. repeat split; auto. intros Hne Hr Ha.
    rewrite <- (rduration_repDuration ref Hne Hr). apply H4. exact Ha.
  Qed.

  (** loadAsset is atomic: when it returns an error for an MPD, the asset is exactly as before
      (no MPD registered with some of its representations missing). *)
  Theorem load_asset_atomic md apath name o a c a' c' e :
    load_asset B enc dec md apath name o a c = Ok (a', c', Some e) -> a' = a.
  Proof.
    destruct o as [| |sets]; cbn [Cache.load_asset]; intros H; try (inversion H; reflexivity).
    match type of H with (do r <- ?T; _) = _ => destruct T as [[[x1 c1] e1]| |] end; cbn [bind] in H; try discriminate.
    destruct e1; inversion H; reflexivity.
  Qed.

  (** End to end: start in write mode over an empty metadata directory, then start from the
      directory it left (or from any part of it: files may be missing): same assets, same stored
      fields, same admission decisions, same start-up errors as a scanning server. *)
  Theorem cache_after_write_eq_scan (D : string -> string -> mpd_rep) l A cw c c0 :
    consistent D l ->
    Forall (mpd_occ (fun _ m => init_ts_ok m)) l ->
    discover mode_write l (fun _ _ => CAbsent) = Ok (A, cw) ->
    (forall a id, c a id = CAbsent \/ c a id = cw a id) ->
    all_rel B c c0 (discover mode_read l c) (discover mode_scan l c0).
  Proof.
    intros Hcons Hts Hw Hsub. apply discover_cache_eq_scan; [exact dec_enc|].
    apply (good_D_cache_good B enc dec D); auto.
    assert (Hg : good_D B enc dec D cw).
    { eapply write_makes_good; eauto. intros a id. left. reflexivity. }
    intros a id. destruct (Hsub a id) as [->| ->]; [left; reflexivity|apply Hg].
  Qed.

End Top.
