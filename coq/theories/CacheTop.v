(** Proofs about the loader model (Cache.v), part 3: the statements of C15 lifted to whole
    server starts. *)
From Verif Require Import GoSem GoSemFacts Timeline Cache CacheProofs CacheSimProofs.
From Coq Require Import ZifyBool.

(** A $Number$ representation that the scan accepts has a contiguous table. *)
Lemma scan_rep_number_contig m r :
  scan_rep m = Ok r -> m_timeline m = None ->
  0 <= match m_startnr m with Some n => n | None => 1 end < two32 ->
  lenZ (m_files m) < two32 ->
  contiguous (segs (trep r)).
Proof.
  unfold scan_rep. intros H Ht H0 Hl. rewrite Ht in H.
  destruct (add_init _ (m_init m)) as [rp| |]; cbn [bind] in H; try discriminate.
  destruct (uri_kind (r_mediauri rp)); try discriminate.
  destruct (if String.eqb (r_ctype rp) "image" then _ else _) as [thumb mediats].
  destruct (load_number thumb (m_files m) (m_startnr m) (m_endnr m) (r_dsd rp)) as [[sg d]| |] eqn:E; cbn [bind] in H; try discriminate.
  inversion H; subst r. cbn. eapply load_number_contig_all; eauto.
Qed.

(** ... and so has the table loaded from the cache file written for it. *)
Lemma cached_rep_number_contig m r r' :
  scan_rep m = Ok r -> rep_sim r' r -> m_timeline m = None ->
  0 <= match m_startnr m with Some n => n | None => 1 end < two32 ->
  lenZ (m_files m) < two32 ->
  contiguous (segs (trep r')).
Proof.
  intros Hs Hr Ht H0 Hl. unfold trep; cbn [segs].
  destruct (rep_sim_fields _ _ Hr) as (_ & _ & _ & _ & _ & ->).
  apply (scan_rep_number_contig m r Hs Ht H0 Hl).
Qed.

(** Every served asset went through consolidateAsset. *)
Lemma consolidate_all_in : forall l A p a,
  consolidate_all l = Ok A -> In (p, a) A -> exists a0, In (p, a0) l /\ consolidate a0 = Ok (Some a).
Proof.
  induction l as [|[p0 a0] l IH]; intros A p a H Hin; cbn [consolidate_all] in H.
  - inversion H; subst. destruct Hin.
  - destruct (consolidate a0) as [ca| |] eqn:Ec; cbn [bind] in H; try discriminate.
    destruct (consolidate_all l) as [rest| |] eqn:Er; cbn [bind] in H; try discriminate.
    inversion H; subst A. destruct ca as [a'|].
    + destruct Hin as [Heq|Hin].
      * inversion Heq; subst. exists a0. split; [now left|exact Ec].
      * destruct (IH rest p a eq_refl Hin) as [x [Hx1 Hx2]]. exists x. split; [now right|exact Hx2].
    + destruct (IH rest p a eq_refl Hin) as [x [Hx1 Hx2]]. exists x. split; [now right|exact Hx2].
Qed.

Section Top.
  Variable B : Type.
  Variable enc : stored -> B.
  Variable dec : B -> option stored.
  Hypothesis dec_enc : forall s, dec (enc s) = Some s.
  Notation discover := (discover B enc dec).

  Lemma discover_served_admitted md l c A c' p a :
    discover md l c = Ok (A, c') -> In (p, a) A -> exists a0, consolidate a0 = Ok (Some a).
  Proof.
    unfold Cache.discover. intros H Hin.
    destruct (load_all B enc dec md l [] c) as [[assets c1]| |]; cbn [bind] in H; try discriminate.
    destruct (lenZ assets =? 0); [discriminate|].
    destruct (consolidate_all assets) as [served| |] eqn:E; cbn [bind] in H; try discriminate.
    inversion H; subst. destruct (consolidate_all_in _ _ _ _ E Hin) as [a0 [_ Ha]]. eauto.
  Qed.

  (** Admission, for whatever is served in any mode: the reference representation's duration is
      [LoopDurMS] milliseconds exactly; every representation has a contiguous table; every
      representation other than audio next to a non-audio reference has exactly the duration of the
      reference (in cross-multiplied ticks); pre-encrypted audio lasts [LoopDurMS] ms. *)
  Theorem served_asset_admission md l c A c' p a :
    discover md l c = Ok (A, c') -> In (p, a) A ->
    exists k ref,
      a_ref a = Some k /\ lookup k (a_reps a) = Some ref /\
      dur_ms ref = Ok (a_loop a) /\
      (admission_range ref -> 1000 * rduration (r_segs ref) = a_loop a * r_mediats ref) /\
      (forall k' r, In (k', r) (a_reps a) -> rep_admitted ref (a_loop a) r).
  Proof.
    intros H Hin. destruct (discover_served_admitted _ _ _ _ _ _ _ H Hin) as [a0 Ha0].
    destruct (consolidate_admitted _ _ Ha0) as (k & ref & H1 & H2 & H3 & H4 & H5 & H6).
    exists k, ref. rewrite H3. split; [exact H1|]. split; [exact H2|]. split; [exact H4|].
    split; [|exact H6]. intros Hr. apply admission_exact; assumption.
  Qed.

  (** The loaded segment table of every served representation is contiguous (whatever the
      addressing mode, whatever the start mode). *)
  Theorem served_tables_contiguous md l c A c' p a k r :
    discover md l c = Ok (A, c') -> In (p, a) A -> In (k, r) (a_reps a) ->
    contiguous (segs (trep r)).
  Proof.
    intros H Hin Hr. destruct (served_asset_admission _ _ _ _ _ _ _ H Hin) as (k0 & ref & _ & _ & _ & _ & Hall).
    apply (Hall k r Hr).
  Qed.

  (** The admission equation in the form the timeline theorems (Timeline.wf: wf_loop) assume it. *)
  Theorem served_ref_wf_loop md l c A c' p a :
    discover md l c = Ok (A, c') -> In (p, a) A ->
    exists k ref,
      a_ref a = Some k /\ lookup k (a_reps a) = Some ref /\
      (r_segs ref <> [] -> 0 <= repDuration (trep ref) < two63 -> admission_range ref ->
       1000 * repDuration (trep ref) = a_loop a * ts (trep ref)).
  Proof.
    intros H Hin. destruct (served_asset_admission _ _ _ _ _ _ _ H Hin) as (k & ref & H1 & H2 & _ & H4 & _).
    exists k, ref. repeat split; auto. intros Hne Hr Ha.
    rewrite <- (rduration_repDuration ref Hne Hr). apply H4. exact Ha.
  Qed.

  (** loadAsset is atomic: when it returns an error for an MPD, the asset is exactly as before
      (no MPD registered with some of its representations missing). *)
  Theorem load_asset_atomic md apath name o a c a' c' e :
    load_asset B enc dec md apath name o a c = Ok (a', c', Some e) -> a' = a.
  Proof.
    assert (Hm : forall sets, load_mpd B enc dec md apath name sets a c = Ok (a', c', Some e) -> a' = a).
    { intros sets H. unfold Cache.load_mpd in H.
      match type of H with (do r <- ?T; _) = _ => destruct T as [[[x1 c1] e1]| |] end; cbn [bind] in H; try discriminate.
      destruct e1; inversion H; reflexivity. }
    destruct o as [| |sets|sets|sets]; cbn [Cache.load_asset]; intros H; try (inversion H; reflexivity); try discriminate; eapply Hm; eauto.
  Qed.

  (** ** A registered MPD has all its representations (scan and write mode) *)

  Lemma lookup_upsert_same {V} k (v : V) l : lookup k (upsert k v l) = Some v.
  Proof.
    induction l as [|[k1 v1] l IH]; cbn [upsert lookup]; [now rewrite String.eqb_refl|].
    destruct (String.eqb k k1) eqn:E; cbn [lookup]; [now rewrite String.eqb_refl|]. now rewrite E.
  Qed.

  Lemma lookup_upsert_mono {V} k k2 (v : V) l : lookup k2 l <> None -> lookup k2 (upsert k v l) <> None.
  Proof.
    induction l as [|[k1 v1] l IH]; cbn [upsert lookup]; [congruence|].
    destruct (String.eqb k k1) eqn:E; cbn [lookup].
    - apply String.eqb_eq in E. subst k1. destruct (String.eqb k2 k); congruence.
    - destruct (String.eqb k2 k1); [congruence|exact IH].
  Qed.

  Lemma scan_rep_id m r : scan_rep m = Ok r -> r_id r = m_id m.
  Proof.
    unfold scan_rep. intros H.
    match type of H with (do rp <- ?T; _) = _ => destruct T as [rp| |] eqn:Ea end; cbn [bind] in H; try discriminate.
    assert (Hid : r_id rp = m_id m).
    { unfold add_init in Ea. cbn [r_mediauri r_ctype r_mediats r_preenc] in Ea.
      destruct (uri_kind (m_mediauri m)); try discriminate;
        (destruct (String.eqb (m_ctype m) "image"); [inversion Ea; reflexivity|]);
        (destruct (m_init m); [discriminate|]); cbn in Ea; inversion Ea; reflexivity. }
    match type of H with (do tab <- ?T; _) = _ => destruct T as [[[mediats sg] dsd]| |] end; cbn [bind] in H; try discriminate.
    inversion H; subst r; cbn. exact Hid.
  Qed.

  Definition keys_kept (a a' : asset) : Prop := forall k, lookup k (a_reps a) <> None -> lookup k (a_reps a') <> None.

  Lemma load_reps_complete md apath actype : use_cache md = false -> forall reps a c a' c',
    load_reps B enc dec md apath actype reps a c = Ok (a', c', None) ->
    keys_kept a a' /\ forall b m, In (b, m) reps -> lookup (m_id m) (a_reps a') <> None.
  Proof.
    intros Hnc. induction reps as [|[b m] reps IH]; intros a c a' c' H; cbn [Cache.load_reps] in H.
    - inversion H; subst. split; [intros k Hk; exact Hk|intros b m []].
    - destruct b; [discriminate|].
      destruct (lookup (m_id m) (a_reps a)) as [x|] eqn:El.
      + destruct (IH _ _ _ _ H) as [Hk Hall]. split; [exact Hk|].
        intros b' m' [E|Hin]; [inversion E; subst; apply Hk; congruence|eapply Hall; eauto].
      + rewrite (load_rep_nocache B enc dec md _ m Hnc) in H.
        destruct (scan_rep m) as [r| |] eqn:Es; try discriminate.
        destruct (lenZ (r_segs r) =? 0); [discriminate|].
        destruct (String.eqb actype "audio" && match r_const r with Some d => d =? 0 | None => true end); [discriminate|].
        destruct (IH _ _ _ _ H) as [Hk Hall].
        assert (Hadd : keys_kept a (add_rep a r)) by (intros k Hx; cbn; apply lookup_upsert_mono; exact Hx).
        split; [intros k Hx; apply Hk, Hadd, Hx|].
        intros b' m' [E|Hin]; [|eapply Hall; eauto]. inversion E; subst. apply Hk. cbn.
        rewrite (scan_rep_id _ _ Es), lookup_upsert_same. discriminate.
  Qed.

  Lemma load_sets_complete md apath : use_cache md = false -> forall sets a c a' c',
    load_sets B enc dec md apath sets a c = Ok (a', c', None) ->
    keys_kept a a' /\ forall s b m, In s sets -> In (b, m) (as_reps s) -> lookup (m_id m) (a_reps a') <> None.
  Proof.
    intros Hnc. induction sets as [|s sets IH]; intros a c a' c' H; cbn [Cache.load_sets] in H.
    - inversion H; subst. split; [intros k Hk; exact Hk|intros s b m []].
    - destruct (negb (as_has_template s)); [discriminate|].
      destruct (load_reps B enc dec md apath (as_ctype s) (as_reps s) a c) as [[[a1 c1] e1]| |] eqn:Er; cbn [bind] in H; try discriminate.
      destruct e1; [discriminate|].
      destruct (load_reps_complete md apath (as_ctype s) Hnc _ _ _ _ _ Er) as [Hk1 Hall1].
      destruct (IH _ _ _ _ H) as [Hk2 Hall2].
      split; [intros k Hx; apply Hk2, Hk1, Hx|].
      intros s' b m [<-|Hin] Hm; [apply Hk2; eapply Hall1; eauto|eapply Hall2; eauto].
  Qed.

  (** When loadAsset registers an MPD (scan or write mode), every representation the MPD lists is
      loaded in the asset, and nothing that was loaded before is lost. *)
  Theorem load_asset_complete md apath name sets a c a' c' :
    use_cache md = false ->
    load_asset B enc dec md apath name (MOk sets) a c = Ok (a', c', None) ->
    In name (a_mpds a') /\ keys_kept a a' /\
    forall s b m, In s sets -> In (b, m) (as_reps s) -> lookup (m_id m) (a_reps a') <> None.
  Proof.
    intros Hnc H. cbn [Cache.load_asset] in H. unfold Cache.load_mpd in H.
    match type of H with (do r <- load_sets _ _ _ _ _ _ ?A1 _; _) = _ => set (a1 := A1) in * end.
    destruct (load_sets B enc dec md apath sets a1 c) as [[[x1 c1] e1]| |] eqn:Es; cbn [bind] in H; try discriminate.
    destruct e1; inversion H; subst.
    destruct (load_sets_complete md apath Hnc _ _ _ _ _ Es) as [Hk Hall].
    split; [|split; [exact Hk|exact Hall]].
    (* the MPD name was appended before loading and load_sets keeps a_mpds *)
    assert (Hm : forall md0 sets0 a0 c0 a2 c2 e2, load_sets B enc dec md0 apath sets0 a0 c0 = Ok (a2, c2, e2) -> a_mpds a2 = a_mpds a0).
    { assert (Hr : forall md0 ct reps0 a0 c0 a2 c2 e2, load_reps B enc dec md0 apath ct reps0 a0 c0 = Ok (a2, c2, e2) -> a_mpds a2 = a_mpds a0).
      { intros md0 ct. induction reps0 as [|[b0 m0] reps0 IHr]; intros a0 c0 a2 c2 e2 Hx; cbn [Cache.load_reps] in Hx; [inversion Hx; reflexivity|].
        destruct b0; [inversion Hx; reflexivity|].
        destruct (lookup (m_id m0) (a_reps a0)); [eapply IHr; eauto|].
        destruct (Cache.load_rep B enc dec md0 (c0 apath (m_id m0)) m0) as [rr w].
        destruct rr as [r0| |]; try (inversion Hx; reflexivity); try discriminate.
        destruct (lenZ (r_segs r0) =? 0); [inversion Hx; reflexivity|].
        destruct (String.eqb ct "audio" && match r_const r0 with Some d => d =? 0 | None => true end); [inversion Hx; reflexivity|].
        rewrite (IHr _ _ _ _ _ Hx). reflexivity. }
      intros md0. induction sets0 as [|s0 sets0 IHs]; intros a0 c0 a2 c2 e2 Hx; cbn [Cache.load_sets] in Hx; [inversion Hx; reflexivity|].
      destruct (negb (as_has_template s0)); [inversion Hx; reflexivity|].
      destruct (load_reps B enc dec md0 apath (as_ctype s0) (as_reps s0) a0 c0) as [[[y1 d1] f1]| |] eqn:Ey; cbn [bind] in Hx; try discriminate.
      destruct f1; [inversion Hx; subst; eapply Hr; eauto|]. rewrite (IHs _ _ _ _ _ Hx). eapply Hr; eauto. }
    rewrite (Hm _ _ _ _ _ _ _ Es). subst a1. cbn. apply in_or_app. right. now left.
  Qed.

  (** End to end: start in write mode over an empty metadata directory, then start from the
      directory it left (or from any part of it: files may be missing): same assets, same stored
      fields, same admission decisions, same start-up errors as a scanning server. *)
  Theorem cache_after_write_eq_scan (D : string -> string -> mpd_rep) l A cw c c0 :
    consistent D l ->
    Forall (mpd_occ (fun _ m => init_ts_ok m)) l ->
    discover mode_write l (fun _ _ => CAbsent) = Ok (A, cw) ->
    (forall a id, c a id = CAbsent \/ c a id = cw a id) ->
    all_rel B c c0 (discover mode_read l c) (discover mode_scan l c0).
  Proof.
    intros Hcons Hts Hw Hsub. apply discover_cache_eq_scan; [exact dec_enc|].
    apply (good_D_cache_good B enc dec D); auto.
    assert (Hg : good_D B enc dec D cw).
    { eapply write_makes_good; eauto. intros a id. left. reflexivity. }
    intros a id. destruct (Hsub a id) as [->| ->]; [left; reflexivity|apply Hg].
  Qed.

End Top.
