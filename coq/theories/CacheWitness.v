(** Concrete layouts for C15: witnesses of the defects (refuted statements) and a non-vacuity
    example.  The cache file contents are [stored] values ([enc := id], [dec := Some]). *)
From Verif Require Import GoSem GoSemFacts Timeline Cache CacheProofs CacheSimProofs CorrC15.

Definition okseg (t0 dur cnt : Z) : fobs :=
  FSeg {| o_tfdt0 := t0; o_tfdtL := t0; o_tfhd := Some dur; o_trun := None; o_count := cnt; o_csd := Some dur |}.

Definition mk_rep (id ct : string) (its : Z) (files : list fobs) : mpd_rep :=
  {| m_id := id; m_ctype := ct; m_as_codecs := "x"; m_rep_codecs := ""; m_inituri := id ++ "/init.mp4";
     m_mediauri := id ++ "/$Number$.m4s"; m_timescale := None; m_timeline := None; m_startnr := Some 1; m_endnr := None;
     m_duration := None; m_init_at := fun _ => IOk its 0 false; m_files := files; m_tfiles := fun _ => FMissing |}.

(** testpic_2s in miniature: audio first, then video; 4 segments of 2 s each. *)
Definition w_a48 := mk_rep "A48" "audio" 48000 [okseg 0 1024 94; okseg 96256 1024 94; okseg 192512 1024 93; okseg 287744 1024 94].
Definition w_v300 := mk_rep "V300" "video" 90000 [okseg 0 3000 60; okseg 180000 3000 60; okseg 360000 3000 60; okseg 540000 3000 60].

Definition w_mpds (reps_a reps_v : list (bool * mpd_rep)) : mpd_list :=
  [("testpic_2s", "Manifest.mpd",
    MOk [ {| as_has_template := true; as_ctype := "audio"; as_reps := reps_a |};
          {| as_has_template := true; as_ctype := "video"; as_reps := reps_v |} ])].

Definition w_l := w_mpds [(false, w_a48)] [(false, w_v300)].

Definition dummy_stored : stored :=
  {| s_id := ""; s_ctype := ""; s_codecs := ""; s_mpdts := 0; s_mediats := 0; s_inituri := ""; s_mediauri := "";
     s_segs := []; s_dsd := 0; s_const := None; s_preenc := false |}.
Definition s_a48 : stored := Eval vm_compute in match scan_rep w_a48 with Ok r => to_stored r | _ => dummy_stored end.
Definition s_v300 : stored := Eval vm_compute in match scan_rep w_v300 with Ok r => to_stored r | _ => dummy_stored end.

(** the cache directory after write mode (literally; [w_cache_is_written] ties it to the model) *)
Definition w_cache : cache stored :=
  fun a id => if String.eqb id "A48" then CBytes s_a48 else if String.eqb id "V300" then CBytes s_v300 else CAbsent.

Lemma w_cache_is_written :
  match discover stored enc0 dec0 mode_write w_l (fun _ _ => CAbsent) with
  | Ok (_, c) => (c "testpic_2s" "A48", c "testpic_2s" "V300", c "testpic_2s" "other")
  | _ => (CAbsent, CAbsent, CAbsent)
  end = (w_cache "testpic_2s" "A48", w_cache "testpic_2s" "V300", w_cache "testpic_2s" "other").
Proof. vm_compute. reflexivity. Qed.

Definition served_ids (x : res (list (string * asset) * cache stored)) : list (string * list string * list string * option string * Z) :=
  match x with
  | Ok (l, _) => map (fun pa => (fst pa, a_mpds (snd pa), map fst (a_reps (snd pa)), a_ref (snd pa), a_loop (snd pa))) l
  | _ => []
  end.

(** Non-vacuity of the main theorem: the written cache is good for the layout, and both servers
    serve testpic_2s with A48 and V300, reference V300, loop 8000 ms. *)
Lemma w_cache_good : cache_good stored enc0 dec0 w_cache w_l.
Proof.
  unfold cache_good, w_l, w_mpds. constructor; [|constructor].
  unfold mpd_good, sets_good. intros s Hs. destruct Hs as [<-|[<-|[]]]; unfold reps_good; cbn [as_reps];
    intros b m [E|[]]; injection E as <- <-; split.
  - right; right; right. eexists. split; [vm_compute; reflexivity|vm_compute; reflexivity].
  - unfold init_ts_ok. change (48000 <> 0). discriminate.
  - right; right; right. eexists. split; [vm_compute; reflexivity|vm_compute; reflexivity].
  - unfold init_ts_ok. change (90000 <> 0). discriminate.
Qed.

Lemma w_served_scan : served_ids (discover stored enc0 dec0 mode_scan w_l (fun _ _ => CAbsent))
                      = [("testpic_2s", ["Manifest.mpd"], ["A48"; "V300"], Some "V300", 8000)].
Proof. vm_compute. reflexivity. Qed.

Lemma w_served_cache : served_ids (discover stored enc0 dec0 mode_read w_l w_cache)
                       = [("testpic_2s", ["Manifest.mpd"], ["A48"; "V300"], Some "V300", 8000)].
Proof. vm_compute. reflexivity. Qed.

(** V300_data.json.gz unreadable: it is treated like a missing file, the asset is served as by a
    scanning server (before effd3ff/7fa28f3 it was served with A48 only). *)
Definition w_cache_broken : cache stored :=
  fun a id => if String.eqb a "testpic_2s" && String.eqb id "V300" then CBroken else w_cache a id.

Lemma w_served_broken : served_ids (discover stored enc0 dec0 mode_read w_l w_cache_broken)
                        = [("testpic_2s", ["Manifest.mpd"], ["A48"; "V300"], Some "V300", 8000)].
Proof. vm_compute. reflexivity. Qed.

(** Two video representations of different duration (6 s and 8 s) are left out by a scanning
    server, and also when the file of the second one is unreadable. *)
Definition w_v2 := mk_rep "V2" "video" 90000 [okseg 0 3000 60; okseg 180000 3000 60; okseg 360000 3000 60].
Definition w_l2 := w_mpds [] [(false, w_v300); (false, w_v2)].
Definition w_cache2_broken : cache stored :=
  fun a id => if String.eqb id "V2" then CBroken else CAbsent.

Lemma w_differ_scan : discover stored enc0 dec0 mode_scan w_l2 (fun _ _ => CAbsent) = Ok ([], fun _ _ => CAbsent).
Proof. vm_compute. reflexivity. Qed.

Lemma w_differ_broken : served_ids (discover stored enc0 dec0 mode_read w_l2 w_cache2_broken) = [].
Proof. vm_compute. reflexivity. Qed.

(** An init segment with timescale 0: readInit runs again in the cache path and resets
    DefaultSampleDuration to the trex value, the scan has the tfhd value. *)
Definition w_ts0 := mk_rep "T0" "text" 0 [okseg 0 3000 60].
Lemma w_ts0_differs :
  exists r r', scan_rep w_ts0 = Ok r /\ load_json stored dec0 (enc0 (to_stored r)) (m_init_at w_ts0) = Ok r' /\
               r_dsd r = 3000 /\ r_dsd r' = 0.
Proof. eexists. eexists. split; [vm_compute; reflexivity|]. split; [vm_compute; reflexivity|]. split; reflexivity. Qed.

(** Representations that are looped with the reference duration must have exactly that duration:
    video 8 s with a text representation of 6 s is left out. *)
Definition w_t1 := mk_rep "T1" "text" 1000 [okseg 0 2000 1; okseg 2000 2000 1; okseg 4000 2000 1].
Definition w_l3 : mpd_list :=
  [("vt", "Manifest.mpd",
    MOk [ {| as_has_template := true; as_ctype := "video"; as_reps := [(false, w_v300)] |};
          {| as_has_template := true; as_ctype := "text"; as_reps := [(false, w_t1)] |} ])].

Lemma w_text_shorter_left_out :
  served_ids (discover stored enc0 dec0 mode_scan w_l3 (fun _ _ => CAbsent)) = [].
Proof. vm_compute. reflexivity. Qed.

(** A $Time$ representation whose files have a gap is loaded with the gap and left out by the
    contiguity test of consolidateAsset. *)
Definition w_tgap : mpd_rep :=
  {| m_id := "V1"; m_ctype := "video"; m_as_codecs := "x"; m_rep_codecs := ""; m_inituri := "V1/init.mp4";
     m_mediauri := "V1/$Time$.m4s"; m_timescale := Some 1000; m_timeline := Some [ {| e_t := Some 0; e_d := 2000; e_r := 1 |} ];
     m_startnr := None; m_endnr := None; m_duration := None; m_init_at := fun _ => IOk 1000 40 false; m_files := [];
     m_tfiles := fun t => if t =? 0 then okseg 0 40 50 else if t =? 2000 then okseg 2300 40 50 else FMissing |}.
Definition w_l4 : mpd_list :=
  [("tg", "Manifest.mpd", MOk [ {| as_has_template := true; as_ctype := "video"; as_reps := [(false, w_tgap)] |} ])].

Lemma w_time_gap_loaded :
  match scan_rep w_tgap with Ok r => map (fun s => (c_st s, c_en s)) (r_segs r) | _ => [] end = [(0, 2000); (2300, 4300)].
Proof. vm_compute. reflexivity. Qed.

Lemma w_time_gap_left_out :
  served_ids (discover stored enc0 dec0 mode_scan w_l4 (fun _ _ => CAbsent)) = [].
Proof. vm_compute. reflexivity. Qed.

(** An image representation without a duration attribute keeps MediaTimescale 0; consolidateAsset
    skips it (23777f0) and the asset is served. *)
Definition w_thumbs : mpd_rep :=
  {| m_id := "thumbs"; m_ctype := "image"; m_as_codecs := ""; m_rep_codecs := ""; m_inituri := "";
     m_mediauri := "thumbs/$Number$.jpg"; m_timescale := None; m_timeline := None; m_startnr := Some 1; m_endnr := None;
     m_duration := None; m_init_at := fun _ => IBad; m_files := [okseg 0 0 0; okseg 0 0 0]; m_tfiles := fun _ => FMissing |}.
Definition w_l5 : mpd_list :=
  [("th", "Manifest.mpd",
    MOk [ {| as_has_template := true; as_ctype := "video"; as_reps := [(false, w_v300)] |};
          {| as_has_template := true; as_ctype := "image"; as_reps := [(false, w_thumbs)] |} ])].

Lemma w_thumbs_ts0_served :
  served_ids (discover stored enc0 dec0 mode_scan w_l5 (fun _ _ => CAbsent))
  = [("th", ["Manifest.mpd"], ["V300"; "thumbs"], Some "V300", 8000)].
Proof. vm_compute. reflexivity. Qed.

(** A media file without fragments in the second representation: the MPD is not registered, the
    asset is left out (before 695fbfc the start-up panicked; before 7fa28f3 A48 stayed registered). *)
Definition w_v_nofrag := mk_rep "V300" "video" 90000 [okseg 0 3000 60; FNoFrag; okseg 360000 3000 60].
Lemma w_nofrag_left_out :
  served_ids (discover stored enc0 dec0 mode_scan (w_mpds [(false, w_a48)] [(false, w_v_nofrag)]) (fun _ _ => CAbsent)) = [].
Proof. vm_compute. reflexivity. Qed.

(** An MPD without a type attribute is static by default and is loaded (b6dd4d1; before, loadAsset
    dereferenced the nil mpd.Type and the start-up panicked). *)
Definition w_l6 : mpd_list :=
  [("nt", "Manifest.mpd", MNoType [ {| as_has_template := true; as_ctype := "video"; as_reps := [(false, w_v300)] |} ])].
Lemma w_no_type_served :
  served_ids (discover stored enc0 dec0 mode_scan w_l6 (fun _ _ => CAbsent))
  = [("nt", ["Manifest.mpd"], ["V300"], Some "V300", 8000)].
Proof. vm_compute. reflexivity. Qed.

(** An MPD without mediaPresentationDuration is loaded (08be6b2; before, loadAsset called String()
    on the nil duration and the start-up panicked). *)
Definition w_l7 : mpd_list :=
  [("nd", "Manifest.mpd", MNoDur [ {| as_has_template := true; as_ctype := "video"; as_reps := [(false, w_v300)] |} ])].
Lemma w_no_duration_served :
  served_ids (discover stored enc0 dec0 mode_scan w_l7 (fun _ _ => CAbsent))
  = [("nd", ["Manifest.mpd"], ["V300"], Some "V300", 8000)].
Proof. vm_compute. reflexivity. Qed.
