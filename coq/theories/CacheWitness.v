(** Concrete layouts for C15: witnesses of the defects (refuted statements) and a non-vacuity
    example.  The cache file contents are [stored] values ([enc := id], [dec := Some]). *)
From Verif Require Import GoSem GoSemFacts Timeline Cache CacheProofs CacheSimProofs CorrC15.

Definition okseg (t0 dur cnt : Z) : fobs :=
  FSeg {| o_tfdt0 := t0; o_tfdtL := t0; o_tfhd := Some dur; o_trun := None; o_count := cnt; o_csd := Some dur |}.

Definition mk_rep (id ct : string) (its : Z) (files : list fobs) : mpd_rep :=
  {| m_id := id; m_ctype := ct; m_as_codecs := "x"; m_rep_codecs := ""; m_inituri := id ++ "/init.mp4";
     m_mediauri := id ++ "/$Number$.m4s"; m_timescale := None; m_timeline := None; m_startnr := Some 1; m_endnr := None;
     m_duration := None; m_init := IOk its 0 false; m_files := files; m_tfiles := fun _ => FMissing |}.

(** testpic_2s in miniature: audio first, then video; 4 segments of 2 s each. *)
Definition w_a48 := mk_rep "A48" "audio" 48000 [okseg 0 1024 94; okseg 96256 1024 94; okseg 192512 1024 93; okseg 287744 1024 94].
Definition w_v300 := mk_rep "V300" "video" 90000 [okseg 0 3000 60; okseg 180000 3000 60; okseg 360000 3000 60; okseg 540000 3000 60].

Definition w_mpds (reps_a reps_v : list (bool * mpd_rep)) : mpd_list :=
  [("testpic_2s", "Manifest.mpd",
    MOk [ {| as_has_template := true; as_ctype := "audio"; as_reps := reps_a |};
          {| as_has_template := true; as_ctype := "video"; as_reps := reps_v |} ])].

Definition w_l := w_mpds [(false, w_a48)] [(false, w_v300)].

Definition dummy_stored : stored :=
  {| s_id := ""; s_ctype := ""; s_codecs := ""; s_mpdts := 0; s_mediats := 0; s_inituri := ""; s_mediauri := "";
     s_segs := []; s_dsd := 0; s_const := None; s_preenc := false |}.
Definition s_a48 : stored := Eval vm_compute in match scan_rep w_a48 with Ok r => to_stored r | _ => dummy_stored end.
Definition s_v300 : stored := Eval vm_compute in match scan_rep w_v300 with Ok r => to_stored r | _ => dummy_stored end.

(** the cache directory after write mode (literally; [w_cache_is_written] ties it to the model) *)
Definition w_cache : cache stored :=
  fun a id => if String.eqb id "A48" then CBytes s_a48 else if String.eqb id "V300" then CBytes s_v300 else CAbsent.

Lemma w_cache_is_written :
  match discover stored enc0 dec0 mode_write w_l (fun _ _ => CAbsent) with
  | Ok (_, c) => (c "testpic_2s" "A48", c "testpic_2s" "V300", c "testpic_2s" "other")
  | _ => (CAbsent, CAbsent, CAbsent)
  end = (w_cache "testpic_2s" "A48", w_cache "testpic_2s" "V300", w_cache "testpic_2s" "other").
Proof. vm_compute. reflexivity. Qed.

Definition served_ids (x : res (list (string * asset) * cache stored)) : list (string * list string * list string * option string * Z) :=
  match x with
  | Ok (l, _) => map (fun pa => (fst pa, a_mpds (snd pa), map fst (a_reps (snd pa)), a_ref (snd pa), a_loop (snd pa))) l
  | _ => []
  end.

(** Non-vacuity of the main theorem: the written cache is good for the layout, and both servers
    serve testpic_2s with A48 and V300, reference V300, loop 8000 ms. *)
Lemma w_cache_good : cache_good stored enc0 w_cache w_l.
Proof.
  unfold cache_good, w_l, w_mpds. constructor; [|constructor].
  unfold mpd_good, sets_good. intros s Hs. destruct Hs as [<-|[<-|[]]]; unfold reps_good; cbn [as_reps];
    intros b m [E|[]]; injection E as <- <-; split.
  - right. eexists. split; [vm_compute; reflexivity|vm_compute; reflexivity].
  - unfold init_ts_ok. change (48000 <> 0). discriminate.
  - right. eexists. split; [vm_compute; reflexivity|vm_compute; reflexivity].
  - unfold init_ts_ok. change (90000 <> 0). discriminate.
Qed.

Lemma w_served_scan : served_ids (discover stored enc0 dec0 mode_scan w_l (fun _ _ => CAbsent))
                      = [("testpic_2s", ["Manifest.mpd"], ["A48"; "V300"], Some "V300", 8000)].
Proof. vm_compute. reflexivity. Qed.

Lemma w_served_cache : served_ids (discover stored enc0 dec0 mode_read w_l w_cache)
                       = [("testpic_2s", ["Manifest.mpd"], ["A48"; "V300"], Some "V300", 8000)].
Proof. vm_compute. reflexivity. Qed.

(** The defect: V300_data.json.gz unreadable. loadAsset returns after the MPD and A48 were
    registered, consolidateAsset accepts what is left: the asset is served with A48 only, although
    its MPD lists V300. *)
Definition w_cache_broken : cache stored :=
  fun a id => if String.eqb a "testpic_2s" && String.eqb id "V300" then CBroken else w_cache a id.

Lemma w_served_broken : served_ids (discover stored enc0 dec0 mode_read w_l w_cache_broken)
                        = [("testpic_2s", ["Manifest.mpd"], ["A48"], Some "A48", 8000)].
Proof. vm_compute. reflexivity. Qed.

(** Same defect, other direction: two video representations of different duration (6 s and 8 s)
    are left out by a scanning server; with the file of the second one unreadable the asset is served. *)
Definition w_v2 := mk_rep "V2" "video" 90000 [okseg 0 3000 60; okseg 180000 3000 60; okseg 360000 3000 60].
Definition w_l2 := w_mpds [] [(false, w_v300); (false, w_v2)].
Definition w_cache2_broken : cache stored :=
  fun a id => if String.eqb id "V2" then CBroken else CAbsent.

Lemma w_differ_scan : discover stored enc0 dec0 mode_scan w_l2 (fun _ _ => CAbsent) = Ok ([], fun _ _ => CAbsent).
Proof. vm_compute. reflexivity. Qed.

Lemma w_differ_broken : served_ids (discover stored enc0 dec0 mode_read w_l2 w_cache2_broken)
                        = [("testpic_2s", ["Manifest.mpd"], ["V300"], Some "V300", 8000)].
Proof. vm_compute. reflexivity. Qed.

(** An init segment with timescale 0: readInit runs again in the cache path and resets
    DefaultSampleDuration to the trex value, the scan has the tfhd value. *)
Definition w_ts0 := mk_rep "T0" "text" 0 [okseg 0 3000 60].
Lemma w_ts0_differs :
  exists r r', scan_rep w_ts0 = Ok r /\ load_json stored dec0 (enc0 (to_stored r)) (m_init w_ts0) = Ok r' /\
               r_dsd r = 3000 /\ r_dsd r' = 0.
Proof. eexists. eexists. split; [vm_compute; reflexivity|]. split; [vm_compute; reflexivity|]. split; reflexivity. Qed.

(** consolidateAsset compares only representations of the reference content type (and
    pre-encrypted ones): video 8 s with a text representation of 6 s is admitted. *)
Definition w_t1 := mk_rep "T1" "text" 1000 [okseg 0 2000 1; okseg 2000 2000 1; okseg 4000 2000 1].
Definition w_l3 : mpd_list :=
  [("vt", "Manifest.mpd",
    MOk [ {| as_has_template := true; as_ctype := "video"; as_reps := [(false, w_v300)] |};
          {| as_has_template := true; as_ctype := "text"; as_reps := [(false, w_t1)] |} ])].

Lemma w_text_shorter_admitted :
  served_ids (discover stored enc0 dec0 mode_scan w_l3 (fun _ _ => CAbsent))
  = [("vt", ["Manifest.mpd"], ["V300"; "T1"], Some "V300", 8000)].
Proof. vm_compute. reflexivity. Qed.

Lemma w_text_shorter_duration :
  exists r, scan_rep w_t1 = Ok r /\ dur_ms r = Ok 6000.
Proof. eexists. split; [vm_compute; reflexivity|vm_compute; reflexivity]. Qed.
