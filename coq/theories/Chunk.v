(** Model of cmd/livesim2/app/livesegment.go: [chunkSegment], [createChunk] and the pacing loop
    of [writeChunkedSegment] (C09).

    A sample is its duration, an opaque tag standing for everything [chunkSegment] copies
    unchanged (flags, size, composition time offset, payload), and its decode time, which
    [chunkSegment] overwrites.  Durations are [uint32] in the code, [thisChunkDur] is [uint32],
    [totalDur] and [chunkDur] are [int], decode times are [uint64]. *)
From Verif Require Import GoSem.

Record sample := { s_dur : Z; s_tag : Z; s_dt : Z }.

Record chunk := {
  c_styp : bool;            (* chk.styp != nil *)
  c_seq : Z;                (* mfhd sequence number given to CreateFragment *)
  c_samples : list sample;  (* samples added with AddFullSample, in order *)
  c_dur : Z                 (* chk.dur, used for pacing only *)
}.

(** [chunkDur := (a.SegmentDurMS - int(cfg.AvailabilityTimeOffsetS*1000)) * int(rep.MediaTimescale) / 1000];
    [atoMS] is the value of [int(ato*1000)] (the float product is evaluated by the harness with the
    same Go expression).  Signed [/] truncates towards zero. *)
Definition chunkDurOf (segDurMS atoMS ts : Z) : Z := Z.quot ((segDurMS - atoMS) * ts) 1000.

Definition set_dt (s : sample) (dt : Z) : sample := {| s_dur := s_dur s; s_tag := s_tag s; s_dt := dt |}.

(** The [for i := range fs] loop and the trailing [if SampleCount() > 0].
    [cur]/[styp] are the chunk under construction, [nr] = chunkNr, [this] = thisChunkDur,
    [total] = totalDur, [dt] = sampleDecodeTime. *)
Fixpoint chunk_loop (C seq : Z) (fs : list sample) (cur : list sample) (styp : bool)
         (nr this total dt : Z) : list chunk :=
  match fs with
  | [] =>
    match cur with                      (* ch.frag...Trun.SampleCount() > 0 (repair 14871fa; before: thisChunkDur > 0) *)
    | [] => []
    | _ :: _ => [ {| c_styp := styp; c_seq := seq; c_samples := cur; c_dur := u64 C |} ]
    end
  | s :: rest =>
    let cur' := cur ++ [set_dt s dt] in
    let dt' := u64 (dt + s_dur s) in
    let this' := u32 (this + s_dur s) in
    let total' := total + s_dur s in
    if total' >=? C * nr then
      {| c_styp := styp; c_seq := seq; c_samples := cur'; c_dur := this' |}
        :: chunk_loop C seq rest [] false (nr + 1) 0 total' dt'
    else chunk_loop C seq rest cur' styp nr this' total' dt'
  end.

(** [chunkSegment].  The capacity hint [nrChunks = int(segMeta.newDur)/chunkDur] is computed only
    for [chunkDur > 0] (repair 1ce6842; before it, [segMeta.newDur/uint32(chunkDur)] panicked for a
    chunk duration of 0 mod 2^32); it only sizes the allocation, so the result does not depend on
    [newDur].  The function cannot fail on parsed samples ([GetFullSamples] errors are outside the model). *)
Definition chunkSegment (fs : list sample) (hasStyp : bool) (newTime newNr newDur C : Z)
  : res (list chunk) :=
  Ok (chunk_loop C newNr fs [] hasStyp 1 0 0 newTime).

(** ** Pacing.  [chunkAvailTime] after each chunk and its millisecond value. *)
Fixpoint avail_list (ts : Z) (avail : Z) (cs : list chunk) : list Z :=
  match cs with
  | [] => []
  | c :: rest => let a := avail + c_dur c in Z.quot (a * 1000) ts :: avail_list ts a rest
  end.

(** Time is a sequence of instants [clock 0, clock 1, ...] (milliseconds, as returned by
    [unixMS()]); the program is at a position in that sequence and every primitive step
    ([unixMS()], [writeChunk], returning from [time.Sleep]) moves it forward.  [sleep k d] is the
    position at which [time.Sleep(d ms)] called at position [k] returns.
    The result lists, per chunk, [chunkAvailMS] and the position at which it is written. *)
Section Pacing.
  Variable clock : nat -> Z.
  Variable sleep : nat -> Z -> nat.

  Fixpoint pace_loop (ts nowMS startMS : Z) (k : nat) (avail : Z) (cs : list chunk)
    : res (list (Z * nat)) :=
    match cs with
    | [] => Ok []
    | c :: rest =>
      let avail' := avail + c_dur c in
      do availMS <- go_div "writeChunkedSegment:chunkAvailTime*1000/timescale" (avail' * 1000) ts ;
      if availMS <? nowMS then
        do r <- pace_loop ts nowMS startMS (S k) avail' rest ; Ok ((availMS, k) :: r)
      else
        let nowUpdateMS := clock k - startMS + nowMS in
        if availMS <? nowUpdateMS then
          do r <- pace_loop ts nowMS startMS (S (S k)) avail' rest ; Ok ((availMS, S k) :: r)
        else
          let k' := sleep (S k) (availMS - nowUpdateMS) in
          do r <- pace_loop ts nowMS startMS (S k') avail' rest ; Ok ((availMS, k') :: r)
    end.

  (** The same loop with the test [if ctx.Err() != nil { return ctx.Err() }] at the top of every
      iteration: [cancelled k] says whether the request context has ended (client gone, request
      timeout of the server) when the loop is at position [k].  [time.Sleep] does not look at the
      context.  The result is what has been written when the loop stops. *)
  Fixpoint pace_loop_c (cancelled : nat -> bool) (ts nowMS startMS : Z) (k : nat) (avail : Z) (cs : list chunk)
    : list (Z * nat) :=
    match cs with
    | [] => []
    | c :: rest =>
      if cancelled k then [] else
      let avail' := avail + c_dur c in
      let availMS := Z.quot (avail' * 1000) ts in
      if availMS <? nowMS then (availMS, k) :: pace_loop_c cancelled ts nowMS startMS (S k) avail' rest
      else
        let nowUpdateMS := clock k - startMS + nowMS in
        if availMS <? nowUpdateMS then (availMS, S k) :: pace_loop_c cancelled ts nowMS startMS (S (S k)) avail' rest
        else
          let k' := sleep (S k) (availMS - nowUpdateMS) in
          (availMS, k') :: pace_loop_c cancelled ts nowMS startMS (S k') avail' rest
    end.

  (** [startUnixMS := unixMS()] at position [k0], then the loop.  [ctx.Err()] is taken to be nil
      (a cancelled request writes a prefix of the chunks). *)
  Definition writeChunked (ts nowMS startTimeS newTime : Z) (k0 : nat) (cs : list chunk)
    : res (list (Z * nat)) :=
    pace_loop ts nowMS (clock k0) (S k0) (newTime + startTimeS * ts) cs.

  (** The wall clock as the request sees it: [nowMS] at the moment [startUnixMS] was read. *)
  Definition vnow (nowMS : Z) (k0 k : nat) : Z := nowMS + (clock k - clock k0).
End Pacing.

(** ** Too-early decision of [CheckTimeValidity] on the millisecond grid (status only):
    [availMS] is the end of the segment on the wall clock. *)
Definition tooEarly (availMS atoMS nowMS : Z) : bool :=
  (if atoMS >? 0 then availMS - atoMS else availMS) >? nowMS.

(** ** Specification vocabulary *)
Definition sum_durs (l : list sample) : Z := fold_right (fun s a => s_dur s + a) 0 l.
Definition chunk_span (c : chunk) : Z := sum_durs (c_samples c).
Definition max_dur (l : list sample) : Z := fold_right (fun s a => Z.max (s_dur s) a) 0 l.

(** decode times are [t], [t + d1], [t + d1 + d2], ... *)
Fixpoint stamped (t : Z) (l : list sample) : list sample :=
  match l with [] => [] | s :: r => set_dt s t :: stamped (t + s_dur s) r end.

(** true media end of every chunk, starting from [t] *)
Fixpoint true_ends (t : Z) (cs : list chunk) : list Z :=
  match cs with [] => [] | c :: r => let e := t + chunk_span c in e :: true_ends e r end.

(** chunk number [nr], [nr+1], ... (counted from 1) ends less than one (longest) sample after
    [t0 + nr*C]; every chunk that is followed by another one ends at or after [t0 + nr*C]. *)
Fixpoint ends_bounded (C M t0 nr t : Z) (cs : list chunk) : Prop :=
  match cs with
  | [] => True
  | c :: r =>
    let e := t + chunk_span c in
    e - t0 < C * nr + M /\ (r <> [] -> C * nr <= e - t0) /\ ends_bounded C M t0 (nr + 1) e r
  end.

(** Input ranges under which Go's fixed-width arithmetic in [chunkSegment] does not wrap
    (durations are uint32 values whose sum fits [thisChunkDur], decode times fit uint64). *)
Definition wf_input (fs : list sample) (newTime : Z) : Prop :=
  Forall (fun s => 0 <= s_dur s) fs /\ sum_durs fs < two32 /\ 0 <= newTime /\ newTime + sum_durs fs < two64.

Definition samples_of (cs : list chunk) : list sample := flat_map c_samples cs.

(** Only the first chunk carries the styp (if the segment has one). *)
Definition styp_first (styp : bool) (cs : list chunk) : Prop :=
  match cs with
  | [] => True
  | c :: r => c_styp c = styp /\ Forall (fun c => c_styp c = false) r
  end.

(** Every chunk starts (first decode time, i.e. its tfdt) where the previous one ended. *)
Fixpoint contiguous (t : Z) (cs : list chunk) : Prop :=
  match cs with
  | [] => True
  | c :: r => c_samples c = stamped t (c_samples c) /\ contiguous (t + chunk_span c) r
  end.

(** ** What a client reads from the body.  A fragment stores the decode time of its first sample
    (tfdt, set by [AddFullSample] when the trun is still empty) and the sample durations; the
    decode times of the following samples are derived from them. *)
Definition chunk_tfdt (c : chunk) : Z := match c_samples c with s :: _ => s_dt s | [] => 0 end.
Definition parse_chunk (c : chunk) : list sample := stamped (chunk_tfdt c) (c_samples c).
Definition parse_body (cs : list chunk) : list sample := flat_map parse_chunk cs.

(** ** Whole-segment mode ([genLiveSegment], non-audio): the fragments of the VoD segment keep
    their samples, every tfdt is shifted by [timeShift := meta.newTime - tfdt of the first fragment]
    (uint64 arithmetic); [chunkSegment] receives the samples of all fragments. *)
Record frag := { f_tfdt : Z; f_samples : list sample }.

Definition whole_parse (newTime : Z) (frags : list frag) : list sample :=
  match frags with
  | [] => []
  | f0 :: _ =>
    let timeShift := u64 (newTime - f_tfdt f0) in
    flat_map (fun f => stamped (u64 (f_tfdt f + timeShift)) (f_samples f)) frags
  end.

Definition frag_samples (frags : list frag) : list sample := flat_map f_samples frags.

(** every fragment of the VoD segment starts where the previous one ended *)
Fixpoint frags_contiguous (t : Z) (frags : list frag) : Prop :=
  match frags with
  | [] => True
  | f :: r => f_tfdt f = t /\ frags_contiguous (t + sum_durs (f_samples f)) r
  end.

(** ** The request-level guard of chunked mode ([livesimHandlerFunc], repair 6ca1ef6):
    [!cfg.AvailabilityTimeCompleteFlag && !(ato >= 0 && ato*1000 < float64(a.SegmentDurMS))] is
    answered 400 before anything else is looked at.  [atoMicro] is the offset in exact
    microseconds ([None]: +Inf); [guarded] says whether the tree the harness was built from
    has the guard (read from handler_livesim.go by the harness on every run). *)
Definition chunkGuardOK (atoMicro : option Z) (segDurMS : Z) : bool :=
  match atoMicro with
  | Some a => (0 <=? a) && (a <? segDurMS * 1000)
  | None => false
  end.

Definition chunkedRefused (guarded : bool) (atoMicro : option Z) (segDurMS : Z) : bool :=
  guarded && negb (chunkGuardOK atoMicro segDurMS).

(** [int(math.Round(ato*1000))] for an offset given in microseconds (half away from zero) *)
Definition roundMilli (atoMicro : Z) : Z :=
  if 0 <=? atoMicro then (atoMicro + 500) / 1000 else - ((- atoMicro + 500) / 1000).

(** Since repair f0e7b4c the guard compares the offset rounded to milliseconds - the value the
    chunk duration is computed from: [ato >= 0 && math.Round(ato*1000) < float64(SegmentDurMS)]. *)
Definition chunkGuardRounded (atoMicro : option Z) (segDurMS : Z) : bool :=
  match atoMicro with
  | Some a => (0 <=? a) && (roundMilli a <? segDurMS)
  | None => false
  end.
