(** Model of pkg/chunkparser/chunkparser.go: [readUntil] and [Parse].

    A byte is a [Z] in [0,255].  The parser's buffer is modelled by its meaningful
    prefix [p.buf[:p.contentEnd]]; [len(p.buf)] only matters for allocation.
    The reader is an [io.Reader] described by the remaining bytes, a schedule of
    read sizes, whether the last bytes come together with the end condition, and
    whether the end condition is [io.EOF] or another error. *)
From Verif Require Import GoSem.

Inductive rstat := RNil | REof | RHard | ROut.

Record reader := {
  rem : list Z;        (* bytes not yet delivered *)
  sched : list Z;      (* how many bytes each successive Read is willing to return *)
  eofdata : bool;      (* the Read that delivers the last byte also returns the end error *)
  hard : bool          (* the end condition is a non-EOF error *)
}.

Definition endstat (r : reader) : rstat := if hard r then RHard else REof.

(** One call [r.Read(p)] with [len(p) = k > 0]. *)
Definition read1 (r : reader) (k : Z) : list Z * rstat * reader :=
  match rem r with
  | [] => ([], endstat r, r)
  | _ :: _ =>
    let want := match sched r with [] => k | s :: _ => Z.min k (Z.max 1 s) end in
    let data := takeZ want (rem r) in
    let rest := dropZ want (rem r) in
    let r' := {| rem := rest; sched := tl (sched r); eofdata := eofdata r; hard := hard r |} in
    let st := match rest with
              | [] => if eofdata r then endstat r else RNil
              | _ :: _ => RNil
              end in
    (data, st, r')
  end.

(** The loop of [readUntil]; every Read returns at least one byte or the end condition,
    so [S (length (rem r))] iterations suffice; [ROut] is the out-of-fuel value. *)
Fixpoint readUntil_loop (fuel : nat) (target : Z) (buf : list Z) (r : reader)
  : list Z * rstat * reader :=
  match fuel with
  | O => (buf, ROut, r)
  | S f =>
    let '(d, st, r') := read1 r (target - lenZ buf) in
    let buf' := buf ++ d in
    let reached := lenZ buf' >=? target in
    match st with
    | RNil => if reached then (buf', RNil, r') else readUntil_loop f target buf' r'
    | REof => if reached then (buf', RNil, r') else (buf', REof, r')
    | RHard => (buf', RHard, r')
    | ROut => (buf', ROut, r')
    end
  end.

Definition readUntil (target : Z) (buf : list Z) (r : reader) : list Z * rstat * reader :=
  if lenZ buf >=? target then (buf, RNil, r)
  else readUntil_loop (S (S (length (rem r)))) target buf r.

(** Callbacks. *)
Record cbrec := { cb_start : Z; cb_init : bool; cb_data : list Z }.

Inductive presult := PNil | PReadErr | PCbErr | PBadBox | POutOfFuel.

Definition be32 (l : list Z) : Z :=
  match l with
  | [a; b; c; d] => ((a * 256 + b) * 256 + c) * 256 + d
  | _ => 0
  end.
Definition bytes4 (buf : list Z) (off : Z) : list Z := takeZ 4 (dropZ off buf).

Definition moov : list Z := [109; 111; 111; 118].
Definition mdat : list Z := [109; 100; 97; 116].

(** [cbfail = Some k]: the k-th callback (from 0) returns an error. *)
Definition callback (cbfail : option nat) (cbs : list cbrec) (c : cbrec) : list cbrec * bool :=
  (cbs ++ [c],
   match cbfail with Some k => negb (Nat.eqb k (length cbs)) | None => true end).

(** The two identical "EOF" exits of Parse. *)
Definition finish (cbfail : option nat) (cbs : list cbrec) (start : Z) (isInit : bool)
           (buf : list Z) : list cbrec * presult :=
  if lenZ buf >? 0 then
    let '(cbs', ok) := callback cbfail cbs {| cb_start := start; cb_init := isInit; cb_data := buf |} in
    (cbs', if ok then PNil else PCbErr)
  else (cbs, PNil).

Fixpoint parse_loop (fuel : nat) (cbfail : option nat) (buf : list Z) (r : reader)
         (nbs mdatEnd start : Z) (isInit : bool) (cbs : list cbrec) : list cbrec * presult :=
  match fuel with
  | O => (cbs, POutOfFuel)
  | S f =>
    let '(buf1, st1, r1) := readUntil (nbs + 8) buf r in
    match st1 with
    | RHard => (cbs, PReadErr)
    | ROut => (cbs, POutOfFuel)
    | REof => finish cbfail cbs start isInit buf1
    | RNil =>
      let size := be32 (bytes4 buf1 nbs) in
      let typ := bytes4 buf1 (nbs + 4) in
      if (size <? 8) || (nbs + size >? maxu32) then (cbs, PBadBox) else
      let nbs' := u32 (nbs + size) in
      let isInit' := isInit || list_eqb Z.eqb typ moov in
      let mdatEnd' := if list_eqb Z.eqb typ mdat then nbs' else mdatEnd in
      let '(buf2, st2, r2) := readUntil nbs' buf1 r1 in
      match st2 with
      | RHard => (cbs, PReadErr)
      | ROut => (cbs, POutOfFuel)
      | _ =>
        if mdatEnd' =? u32 (lenZ buf2) then
          let '(cbs', ok) := callback cbfail cbs
               {| cb_start := start; cb_init := isInit'; cb_data := takeZ mdatEnd' buf2 |} in
          if negb ok then (cbs', PCbErr) else
          let buf3 := dropZ mdatEnd' buf2 in
          let start' := u32 (start + mdatEnd') in
          let nbs'' := u32 (nbs' - mdatEnd') in
          match st2 with
          | REof => finish cbfail cbs' start' isInit' buf3
          | _ => parse_loop f cbfail buf3 r2 nbs'' 0 start' isInit' cbs'
          end
        else
          match st2 with
          | REof => finish cbfail cbs start isInit' buf2
          | _ => parse_loop f cbfail buf2 r2 nbs' mdatEnd' start isInit' cbs
          end
      end
    end
  end.

(** [Parse] on a fresh parser.  One loop iteration consumes at least 8 bytes of the
    stream, so [length stream + 2] iterations always suffice (theorem C18_terminates). *)
Definition parse (cbfail : option nat) (r : reader) : list cbrec * presult :=
  parse_loop (S (S (length (rem r)))) cbfail [] r 0 0 0 false [].

Definition mkreader (stream : list Z) (sch : list Z) (ed hd : bool) : reader :=
  {| rem := stream; sched := sch; eofdata := ed; hard := hd |}.

(** ** Specification side: the same parse with a reader that has no schedule. *)

(** What [readUntil] amounts to, as a function of the stream alone. *)
Definition readUntil_spec (target : Z) (buf : list Z) (rm : list Z) : list Z * rstat * list Z :=
  let need := target - lenZ buf in
  if need <=? 0 then (buf, RNil, rm)
  else if lenZ rm >=? need then (buf ++ takeZ need rm, RNil, dropZ need rm)
  else (buf ++ rm, REof, []).

(** Box-level specification for streams that are sequences of well-formed boxes. *)
Record box := { b_type : list Z; b_payload : list Z }.

Definition enc32 (n : Z) : list Z :=
  [n / 16777216 mod 256; n / 65536 mod 256; n / 256 mod 256; n mod 256].
Definition box_size (b : box) : Z := 8 + lenZ (b_payload b).
Definition encode_box (b : box) : list Z := enc32 (box_size b) ++ b_type b ++ b_payload b.
Definition encode_boxes (bs : list box) : list Z := flat_map encode_box bs.

(** Expected callbacks: a chunk ends after every mdat box; what is left at the end is
    delivered too; the init flag is set from the first chunk containing a moov box on. *)
Fixpoint chunks_spec (bs : list box) (cur : list Z) (start : Z) (isInit : bool) : list cbrec :=
  match bs with
  | [] => if lenZ cur >? 0 then [{| cb_start := start; cb_init := isInit; cb_data := cur |}] else []
  | b :: bs' =>
    let cur' := cur ++ encode_box b in
    let isInit' := isInit || list_eqb Z.eqb (b_type b) moov in
    if list_eqb Z.eqb (b_type b) mdat then
      {| cb_start := start; cb_init := isInit'; cb_data := cur' |}
        :: chunks_spec bs' [] (start + lenZ cur') isInit'
    else chunks_spec bs' cur' start isInit'
  end.

(** ** The same parse as a walk over the boxes of the stream (no buffer, no offsets).
    [cur] is the part of the current chunk that has been walked over. *)
Fixpoint walk (fuel : nat) (cbfail : option nat) (cur rm : list Z) (start : Z) (isInit : bool)
         (cbs : list cbrec) : list cbrec * presult :=
  match fuel with
  | O => (cbs, POutOfFuel)
  | S f =>
    if lenZ rm <? 8 then finish cbfail cbs start isInit (cur ++ rm) else
    let size := be32 (takeZ 4 rm) in
    let typ := takeZ 4 (dropZ 4 rm) in
    if (size <? 8) || (lenZ cur + size >? maxu32) then (cbs, PBadBox) else
    let isInit' := isInit || list_eqb Z.eqb typ moov in
    if lenZ rm <? size then finish cbfail cbs start isInit' (cur ++ rm) else
    let cur' := cur ++ takeZ size rm in
    let rm' := dropZ size rm in
    if list_eqb Z.eqb typ mdat then
      let '(cbs', ok) := callback cbfail cbs
           {| cb_start := start; cb_init := isInit'; cb_data := cur' |} in
      if negb ok then (cbs', PCbErr)
      else walk f cbfail [] rm' (u32 (start + lenZ cur')) isInit' cbs'
    else walk f cbfail cur' rm' start isInit' cbs
  end.
