From Verif Require Import GoSem GoSemFacts ChunkParser.
From Coq Require Import ZifyBool.

(** * readUntil does not depend on the schedule *)

Lemma spec_split target buf rm w :
  0 < w -> w < target - lenZ buf -> w <= lenZ rm ->
  readUntil_spec target (buf ++ takeZ w rm) (dropZ w rm) = readUntil_spec target buf rm.
Proof.
  intros Hw Hk Hl. unfold readUntil_spec.
  rewrite lenZ_app, lenZ_takeZ, lenZ_dropZ by lia.
  replace (Z.min w (lenZ rm)) with w by lia.
  destruct (target - (lenZ buf + w) <=? 0) eqn:E1; [lia|].
  destruct (target - lenZ buf <=? 0) eqn:E2; [lia|].
  destruct (Z.max 0 (lenZ rm - w) >=? target - (lenZ buf + w)) eqn:E3;
    destruct (lenZ rm >=? target - lenZ buf) eqn:E4; try lia.
  - rewrite <- app_assoc, takeZ_takeZ_dropZ, dropZ_dropZ by lia.
    replace (w + (target - (lenZ buf + w))) with (target - lenZ buf) by lia.
    replace (target - (lenZ buf + w) + w) with (target - lenZ buf) by lia. reflexivity.
  - now rewrite <- app_assoc, takeZ_dropZ.
Qed.

Lemma dropZ_nil_len {A} n (l : list A) : 0 <= n -> dropZ n l = [] -> lenZ l <= n \/ l = [].
Proof.
  intros Hn H. pose proof (lenZ_dropZ n l Hn) as L. rewrite H, lenZ_nil in L. lia.
Qed.

Lemma dropZ_cons_len {A} n (l : list A) x t : 0 <= n -> dropZ n l = x :: t -> n < lenZ l.
Proof.
  intros Hn H. pose proof (lenZ_dropZ n l Hn) as L. rewrite H, lenZ_cons in L.
  pose proof (lenZ_nonneg t). lia.
Qed.

Lemma readUntil_loop_spec fuel : forall target buf r,
  hard r = false -> lenZ buf < target -> (S (length (rem r)) < fuel + 1)%nat ->
  exists r1, readUntil_loop fuel target buf r =
             (fst (fst (readUntil_spec target buf (rem r))),
              snd (fst (readUntil_spec target buf (rem r))), r1)
          /\ rem r1 = snd (readUntil_spec target buf (rem r))
          /\ hard r1 = false /\ eofdata r1 = eofdata r.
Proof.
  induction fuel as [|f IH]; intros target buf r Hh Hlt Hf; [lia|].
  cbn [readUntil_loop]. unfold read1, endstat. rewrite Hh.
  destruct (rem r) as [|x t] eqn:Hrem.
  - (* nothing left *)
    rewrite app_nil_r. destruct (lenZ buf >=? target) eqn:E; [lia|].
    exists r. unfold readUntil_spec. change (lenZ (@nil Z)) with 0.
    destruct (target - lenZ buf <=? 0) eqn:E1; [lia|].
    destruct (0 >=? target - lenZ buf) eqn:E2; [lia|].
    cbn. rewrite app_nil_r. auto.
  - set (k := target - lenZ buf) in *.
    set (want := match sched r with [] => k | s :: _ => Z.min k (Z.max 1 s) end).
    assert (Hw : 1 <= want <= k) by (unfold want; destruct (sched r); lia).
    set (rm := x :: t) in *.
    destruct (dropZ want rm) as [|y rest] eqn:Hd.
    + (* this Read delivers the last byte *)
      assert (Hall : lenZ rm <= want).
      { apply dropZ_nil_len in Hd; [|lia]. destruct Hd as [?|Hn]; [lia|]. discriminate Hn. }
      rewrite (takeZ_all want rm Hall).
      set (r' := {| rem := []; sched := tl (sched r); eofdata := eofdata r; hard := false |}).
      unfold readUntil_spec. fold k.
      destruct (k <=? 0) eqn:E1; [lia|].
      rewrite lenZ_app.
      destruct (eofdata r) eqn:Hed.
      * destruct (lenZ buf + lenZ rm >=? target) eqn:E2.
        -- exists r'. destruct (lenZ rm >=? k) eqn:E3; [|lia]. unfold r'; cbn [fst snd rem hard eofdata].
           rewrite takeZ_all, dropZ_all by lia. auto.
        -- exists r'. destruct (lenZ rm >=? k) eqn:E3; [lia|]. unfold r'; cbn [fst snd rem hard eofdata]. auto.
      * destruct (lenZ buf + lenZ rm >=? target) eqn:E2.
        -- exists r'. destruct (lenZ rm >=? k) eqn:E3; [|lia]. unfold r'; cbn [fst snd rem hard eofdata].
           rewrite takeZ_all, dropZ_all by lia. auto.
        -- destruct (IH target (buf ++ rm) r') as (r1 & H1 & H2 & H3 & H4).
           ++ reflexivity.
           ++ rewrite lenZ_app. lia.
           ++ unfold r', rm in *; cbn [rem length] in *; lia.
           ++ exists r1. rewrite H1, H2. cbn [rem r'].
              unfold readUntil_spec. rewrite lenZ_app. change (lenZ (@nil Z)) with 0.
              destruct (target - (lenZ buf + lenZ rm) <=? 0) eqn:E4; [lia|].
              destruct (0 >=? target - (lenZ buf + lenZ rm)) eqn:E5; [lia|].
              destruct (lenZ rm >=? k) eqn:E3; [lia|]. cbn [fst snd]. rewrite app_nil_r. auto.
    + (* more bytes remain after this Read *)
      assert (Hlen : want < lenZ rm) by (eapply dropZ_cons_len; [|exact Hd]; lia).
      set (r' := {| rem := y :: rest; sched := tl (sched r); eofdata := eofdata r; hard := false |}).
      rewrite lenZ_app, lenZ_takeZ by lia. replace (Z.min want (lenZ rm)) with want by lia.
      destruct (lenZ buf + want >=? target) eqn:E2.
      * assert (want = k) by lia. exists r'.
        unfold readUntil_spec. fold k.
        destruct (k <=? 0) eqn:E1; [lia|]. destruct (lenZ rm >=? k) eqn:E3; [|lia].
        unfold r'; cbn [fst snd rem hard eofdata]. subst want. rewrite H in *. rewrite Hd. auto.
      * destruct (IH target (buf ++ takeZ want rm) r') as (r1 & H1 & H2 & H3 & H4).
        -- reflexivity.
        -- rewrite lenZ_app, lenZ_takeZ by lia. lia.
        -- unfold r'; cbn [rem]. assert (length (y :: rest) < length rm)%nat; [|lia].
           rewrite <- Hd. assert (0 <= want) as L0 by lia.
           pose proof (lenZ_dropZ want rm L0) as L. unfold lenZ in *. lia.
        -- exists r1. cbn [rem r'] in *. rewrite <- Hd in *.
           rewrite spec_split in * by lia. auto.
Qed.

Theorem readUntil_spec_ok target buf r :
  hard r = false ->
  exists r1, readUntil target buf r =
             (fst (fst (readUntil_spec target buf (rem r))),
              snd (fst (readUntil_spec target buf (rem r))), r1)
          /\ rem r1 = snd (readUntil_spec target buf (rem r))
          /\ hard r1 = false /\ eofdata r1 = eofdata r.
Proof.
  intros Hh. unfold readUntil.
  destruct (lenZ buf >=? target) eqn:E.
  - exists r. unfold readUntil_spec. destruct (target - lenZ buf <=? 0) eqn:E1; [|lia]. cbn [fst snd]. auto.
  - apply readUntil_loop_spec; [assumption|lia|lia].
Qed.

(** Never out of fuel, never a hard error for an EOF-terminated reader. *)
Lemma readUntil_spec_stat target buf rm :
  snd (fst (readUntil_spec target buf rm)) = RNil \/ snd (fst (readUntil_spec target buf rm)) = REof.
Proof.
  unfold readUntil_spec. destruct (_ <=? 0); [now left|]. destruct (_ >=? _); cbn; auto.
Qed.

(** * Parse does not depend on the schedule or on the EOF style *)

Definition same_stream (r r' : reader) : Prop :=
  rem r = rem r' /\ hard r = false /\ hard r' = false.

Lemma readUntil_same target buf r r' :
  same_stream r r' ->
  exists b st r1 r1',
    readUntil target buf r = (b, st, r1) /\ readUntil target buf r' = (b, st, r1') /\
    same_stream r1 r1' /\ (st = RNil \/ st = REof).
Proof.
  intros (Hrem & Hh & Hh').
  destruct (readUntil_spec_ok target buf r Hh) as (r1 & H1 & H2 & H3 & _).
  destruct (readUntil_spec_ok target buf r' Hh') as (r1' & H1' & H2' & H3' & _).
  rewrite <- Hrem in *.
  eexists _, _, r1, r1'. split; [exact H1|]. split; [exact H1'|].
  split; [unfold same_stream; rewrite H2, H2'; auto|].
  apply readUntil_spec_stat.
Qed.

Lemma parse_loop_same fuel : forall cbfail buf r r' nbs mdatEnd start isInit cbs,
  same_stream r r' ->
  parse_loop fuel cbfail buf r nbs mdatEnd start isInit cbs =
  parse_loop fuel cbfail buf r' nbs mdatEnd start isInit cbs.
Proof.
  induction fuel as [|f IH]; intros cbfail buf r r' nbs mdatEnd start isInit cbs HS; [reflexivity|].
  cbn [parse_loop].
  destruct (readUntil_same (nbs + 8) buf r r' HS) as (b1 & st1 & r1 & r1' & E1 & E1' & HS1 & Hst1).
  rewrite E1, E1'.
  destruct Hst1 as [-> | ->]; [|reflexivity].
  destruct ((be32 (bytes4 b1 nbs) <? 8) || (nbs + be32 (bytes4 b1 nbs) >? maxu32)); [reflexivity|].
  destruct (readUntil_same (u32 (nbs + be32 (bytes4 b1 nbs))) b1 r1 r1' HS1)
    as (b2 & st2 & r2 & r2' & E2 & E2' & HS2 & Hst2).
  rewrite E2, E2'.
  destruct Hst2 as [-> | ->].
  - destruct (_ =? _).
    + destruct (callback _ _ _) as [cbs' ok]. destruct (negb ok); [reflexivity|]. now apply IH.
    + now apply IH.
  - reflexivity.
Qed.

Theorem parse_same cbfail r r' :
  same_stream r r' -> parse cbfail r = parse cbfail r'.
Proof.
  intros HS. unfold parse. destruct HS as (Hrem & Hh & Hh'). rewrite <- Hrem.
  apply parse_loop_same. unfold same_stream; auto.
Qed.

Theorem parse_schedule_independent cbfail stream s1 s2 e1 e2 :
  parse cbfail (mkreader stream s1 e1 false) = parse cbfail (mkreader stream s2 e2 false).
Proof. apply parse_same. unfold same_stream, mkreader; cbn; auto. Qed.

(** * Parse refines the box walk *)

Lemma bytes4_hdr buf h nbs : lenZ buf = nbs -> bytes4 (buf ++ h) nbs = takeZ 4 h.
Proof.
  intros <-. unfold bytes4. rewrite dropZ_app_r by lia. now rewrite Z.sub_diag, dropZ_0.
Qed.

Lemma bytes4_typ buf h nbs : lenZ buf = nbs -> bytes4 (buf ++ h) (nbs + 4) = takeZ 4 (dropZ 4 h).
Proof.
  intros <-. unfold bytes4. rewrite dropZ_app_r by lia. do 2 f_equal. lia.
Qed.

Lemma u32_small z : 0 <= z < two32 -> u32 z = z.
Proof. intros; unfold u32; now apply Z.mod_small. Qed.

Lemma finish_same cbfail cbs start isInit a b : a = b ->
  finish cbfail cbs start isInit a = finish cbfail cbs start isInit b.
Proof. now intros ->. Qed.

Lemma parse_loop_walk fuel : forall cbfail buf r nbs start isInit cbs,
  hard r = false -> lenZ buf = nbs -> nbs + lenZ (rem r) < two32 ->
  parse_loop fuel cbfail buf r nbs 0 start isInit cbs =
  walk fuel cbfail buf (rem r) start isInit cbs.
Proof.
  induction fuel as [|f IH]; intros cbfail buf r nbs start isInit cbs Hh Hb Hlt; [reflexivity|].
  pose proof (lenZ_nonneg buf) as Hb0. pose proof (lenZ_nonneg (rem r)) as Hr0.
  cbn [parse_loop walk].
  destruct (readUntil_spec_ok (nbs + 8) buf r Hh) as (r1 & E1 & Hrem1 & Hh1 & _).
  rewrite E1. clear E1. unfold readUntil_spec in *.
  replace (nbs + 8 - lenZ buf) with 8 in * by lia.
  change (8 <=? 0) with false in *. cbv iota in *.
  destruct (lenZ (rem r) >=? 8) eqn:E8.
  2:{ cbn [fst snd]. destruct (lenZ (rem r) <? 8) eqn:E8'; [reflexivity|lia]. }
  cbn [fst snd] in *. destruct (lenZ (rem r) <? 8) eqn:E8'; [lia|]. clear E8'.
  set (rm := rem r) in *.
  rewrite (bytes4_hdr buf (takeZ 8 rm) nbs Hb), (bytes4_typ buf (takeZ 8 rm) nbs Hb).
  rewrite takeZ_takeZ, dropZ_takeZ, takeZ_takeZ by lia.
  change (Z.min 4 8) with 4. change (Z.min 4 (8 - 4)) with 4.
  set (size := be32 (takeZ 4 rm)). set (typ := takeZ 4 (dropZ 4 rm)).
  rewrite Hb.
  destruct ((size <? 8) || (nbs + size >? maxu32)) eqn:Ebad; [reflexivity|].
  assert (Hsz : 8 <= size /\ nbs + size <= maxu32) by (unfold maxu32 in *; lia).
  rewrite (u32_small (nbs + size)) by (unfold two32, maxu32 in *; lia).
  set (isInit' := isInit || list_eqb Z.eqb typ moov).
  set (buf1 := buf ++ takeZ 8 rm).
  assert (Hb1 : lenZ buf1 = nbs + 8).
  { unfold buf1. rewrite lenZ_app, lenZ_takeZ by lia. lia. }
  destruct (readUntil_spec_ok (nbs + size) buf1 r1 Hh1) as (r2 & E2 & Hrem2 & Hh2 & _).
  rewrite E2. clear E2. unfold readUntil_spec in *. rewrite Hrem1 in *.
  rewrite Hb1 in *. replace (nbs + size - (nbs + 8)) with (size - 8) in * by lia.
  assert (Hl1 : lenZ (dropZ 8 rm) = lenZ rm - 8) by (rewrite lenZ_dropZ by lia; lia).
  rewrite Hl1 in *.
  destruct (size - 8 <=? 0) eqn:Es8.
  - (* box of exactly 8 bytes *)
    assert (size = 8) by lia. cbn [fst snd] in *.
    destruct (lenZ rm <? size) eqn:Els; [lia|].
    assert (Hcur : buf1 = buf ++ takeZ size rm) by (unfold buf1; now rewrite H).
    assert (Hrm' : rem r2 = dropZ size rm) by (now rewrite Hrem2, H).
    destruct (list_eqb Z.eqb typ mdat) eqn:Emd.
    + rewrite u32_small by (unfold two32, maxu32 in *; lia). rewrite Hb1.
      destruct (nbs + size =? nbs + 8) eqn:Eq; [|lia].
      rewrite takeZ_all, dropZ_all by lia. rewrite Hcur.
      destruct (callback _ _ _) as [cbs' ok]. destruct (negb ok); [reflexivity|].
      rewrite Z.sub_diag. change (u32 0) with 0.
      rewrite <- Hcur, Hb1, <- Hrm'.
      replace (start + (nbs + size)) with (start + (nbs + 8)) by lia.
      apply IH; [assumption|reflexivity|].
      rewrite Hrm', lenZ_dropZ by lia. unfold two32 in *. lia.
    + rewrite u32_small by (unfold two32, maxu32 in *; lia). rewrite Hb1.
      destruct (0 =? nbs + 8) eqn:Eq; [lia|].
      rewrite <- Hcur, <- Hrm'.
      apply IH; [assumption|lia|].
      rewrite Hrm', lenZ_dropZ by lia. unfold two32 in *. lia.
  - destruct (lenZ rm - 8 >=? size - 8) eqn:Ege; cbn [fst snd] in *.
    + (* the whole box is available *)
      destruct (lenZ rm <? size) eqn:Els; [lia|].
      assert (Hcur : buf1 ++ takeZ (size - 8) (dropZ 8 rm) = buf ++ takeZ size rm).
      { unfold buf1. rewrite <- app_assoc, takeZ_takeZ_dropZ by lia. do 2 f_equal. lia. }
      assert (Hrm' : rem r2 = dropZ size rm).
      { rewrite Hrem2, dropZ_dropZ by lia. f_equal. lia. }
      assert (Hl2 : lenZ (buf ++ takeZ size rm) = nbs + size).
      { rewrite lenZ_app, lenZ_takeZ by lia. lia. }
      rewrite Hcur, Hl2.
      rewrite (u32_small (nbs + size)) by (unfold two32, maxu32 in *; lia).
      destruct (list_eqb Z.eqb typ mdat) eqn:Emd.
      * rewrite Z.eqb_refl. rewrite takeZ_all, dropZ_all by lia.
        destruct (callback _ _ _) as [cbs' ok]. destruct (negb ok); [reflexivity|].
        rewrite Z.sub_diag. change (u32 0) with 0. rewrite <- Hrm'.
        apply IH; [assumption|reflexivity|].
        rewrite Hrm', lenZ_dropZ by lia. unfold two32 in *. lia.
      * destruct (0 =? nbs + size) eqn:Eq; [lia|]. rewrite <- Hrm'.
        apply IH; [assumption|assumption|].
        rewrite Hrm', lenZ_dropZ by lia. unfold two32 in *. lia.
    + (* EOF inside the box *)
      destruct (lenZ rm <? size) eqn:Els; [|lia].
      assert (Hcur : buf1 ++ dropZ 8 rm = buf ++ rm).
      { unfold buf1. now rewrite <- app_assoc, takeZ_dropZ. }
      rewrite Hcur.
      assert (Hl2 : lenZ (buf ++ rm) = nbs + lenZ rm) by (rewrite lenZ_app; lia).
      rewrite Hl2, (u32_small (nbs + lenZ rm)) by (unfold two32, maxu32 in *; lia).
      destruct (list_eqb Z.eqb typ mdat) eqn:Emd.
      * destruct (nbs + size =? nbs + lenZ rm) eqn:Eq; [lia|]. reflexivity.
      * destruct (0 =? nbs + lenZ rm) eqn:Eq; [lia|]. reflexivity.
Qed.

Theorem parse_is_walk cbfail r :
  hard r = false -> lenZ (rem r) < two32 ->
  parse cbfail r = walk (S (S (length (rem r)))) cbfail [] (rem r) 0 false [].
Proof.
  intros Hh Hl. unfold parse. apply parse_loop_walk; [assumption|reflexivity|lia].
Qed.

(** * Termination: [length stream + 2] iterations always suffice *)

Lemma finish_not_out cbfail cbs start isInit buf :
  snd (finish cbfail cbs start isInit buf) <> POutOfFuel.
Proof.
  unfold finish. destruct (lenZ buf >? 0); cbn; [|discriminate].
  destruct cbfail as [k|]; cbn; [destruct (negb _); cbn|]; discriminate.
Qed.

Lemma walk_terminates fuel : forall cbfail cur rm start isInit cbs,
  (length rm < fuel)%nat ->
  snd (walk fuel cbfail cur rm start isInit cbs) <> POutOfFuel.
Proof.
  induction fuel as [|f IH]; intros cbfail cur rm start isInit cbs Hf; [lia|].
  cbn [walk].
  destruct (lenZ rm <? 8) eqn:E8; [apply finish_not_out|].
  destruct (_ || _) eqn:Ebad; [cbn; discriminate|].
  destruct (lenZ rm <? be32 (takeZ 4 rm)) eqn:Els; [apply finish_not_out|].
  assert (Hlen : (length (dropZ (be32 (takeZ 4 rm)) rm) < f)%nat).
  { assert (0 <= be32 (takeZ 4 rm)) as Hs by lia.
    pose proof (lenZ_dropZ (be32 (takeZ 4 rm)) rm Hs) as L. unfold lenZ in *. lia. }
  destruct (list_eqb Z.eqb _ mdat).
  - destruct (callback _ _ _) as [cbs' ok]. destruct (negb ok); [cbn; discriminate|].
    now apply IH.
  - now apply IH.
Qed.

Theorem parse_terminates cbfail r :
  hard r = false -> lenZ (rem r) < two32 -> snd (parse cbfail r) <> POutOfFuel.
Proof.
  intros Hh Hl. rewrite parse_is_walk by assumption. apply walk_terminates. lia.
Qed.

(** * The callbacks, concatenated, are the input; start offsets are running offsets *)

Definition cat (cbs : list cbrec) : list Z := concat (map cb_data cbs).

Fixpoint starts_ok (off : Z) (cbs : list cbrec) : Prop :=
  match cbs with
  | [] => True
  | c :: t => cb_start c = u32 off /\ starts_ok (off + lenZ (cb_data c)) t
  end.

Lemma cat_app a b : cat (a ++ b) = cat a ++ cat b.
Proof. unfold cat. now rewrite map_app, concat_app. Qed.

Lemma starts_ok_app off a b :
  starts_ok off (a ++ b) <-> starts_ok off a /\ starts_ok (off + lenZ (cat a)) b.
Proof.
  revert off; induction a as [|c a IH]; intros off; cbn [app starts_ok].
  - unfold cat; cbn. change (lenZ (@nil Z)) with 0. rewrite Z.add_0_r. tauto.
  - rewrite IH. unfold cat; cbn [map concat]. fold (cat a). rewrite lenZ_app, Z.add_assoc. tauto.
Qed.

Lemma finish_concat cbs start isInit buf cbs' res :
  finish None cbs start isInit buf = (cbs', res) ->
  res = PNil /\ cat cbs' = cat cbs ++ buf /\
  (start = u32 (lenZ (cat cbs)) -> starts_ok 0 cbs -> starts_ok 0 cbs').
Proof.
  unfold finish. destruct (lenZ buf >? 0) eqn:E; cbn; intros H; inversion H; subst; clear H.
  - split; [reflexivity|]. split.
    + rewrite cat_app. unfold cat at 2. cbn. now rewrite app_nil_r.
    + intros Hs Hok. apply starts_ok_app. split; [assumption|]. cbn. auto.
  - split; [reflexivity|]. split; [|auto].
    rewrite (lenZ_zero_nil buf), app_nil_r; [reflexivity|]. pose proof (lenZ_nonneg buf); lia.
Qed.

Lemma u32_add_l a b : u32 (u32 a + b) = u32 (a + b).
Proof. unfold u32. now rewrite Zplus_mod_idemp_l. Qed.

Lemma walk_concat fuel : forall cur rm start isInit cbs cbs' res,
  walk fuel None cur rm start isInit cbs = (cbs', res) ->
  res = PNil ->
  cat cbs' = cat cbs ++ cur ++ rm /\
  (start = u32 (lenZ (cat cbs)) -> starts_ok 0 cbs -> starts_ok 0 cbs').
Proof.
  induction fuel as [|f IH]; intros cur rm start isInit cbs cbs' res H Hres;
    [cbn in H; inversion H; subst; discriminate|].
  cbn [walk] in H.
  destruct (lenZ rm <? 8) eqn:E8.
  { apply finish_concat in H. tauto. }
  destruct (_ || _) eqn:Ebad; [inversion H; subst; discriminate|].
  destruct (lenZ rm <? be32 (takeZ 4 rm)) eqn:Els.
  { apply finish_concat in H. tauto. }
  set (size := be32 (takeZ 4 rm)) in *.
  destruct (list_eqb Z.eqb _ mdat).
  - cbn [callback negb] in H.
    apply IH in H; [|assumption]. destruct H as [Hc Hs]. split.
    + rewrite Hc, cat_app. unfold cat at 2. cbn. rewrite app_nil_r, <- !app_assoc.
      now rewrite takeZ_dropZ.
    + intros Hst Hok. apply Hs.
      * rewrite cat_app. unfold cat at 2. cbn. rewrite app_nil_r, lenZ_app.
        rewrite Hst, u32_add_l. f_equal. rewrite !lenZ_app. reflexivity.
      * apply starts_ok_app. split; [assumption|]. cbn. auto.
  - apply IH in H; [|assumption]. destruct H as [Hc Hs]. split; [|assumption].
    rewrite Hc, <- !app_assoc. now rewrite takeZ_dropZ.
Qed.

Theorem parse_concat r cbs :
  hard r = false -> lenZ (rem r) < two32 ->
  parse None r = (cbs, PNil) ->
  cat cbs = rem r /\ starts_ok 0 cbs.
Proof.
  intros Hh Hl H. rewrite parse_is_walk in H by assumption.
  apply walk_concat in H; [|reflexivity]. destruct H as [Hc Hs]. split.
  - now rewrite Hc.
  - now apply Hs.
Qed.

(** Without a failing callback the only results are "nil" and "bad box size". *)
Lemma walk_result fuel : forall cur rm start isInit cbs,
  (length rm < fuel)%nat ->
  snd (walk fuel None cur rm start isInit cbs) = PNil \/
  snd (walk fuel None cur rm start isInit cbs) = PBadBox.
Proof.
  induction fuel as [|f IH]; intros cur rm start isInit cbs Hf; [lia|].
  cbn [walk].
  assert (Hfin : forall cbs s i b, snd (finish None cbs s i b) = PNil).
  { intros. unfold finish. destruct (_ >? 0); reflexivity. }
  destruct (lenZ rm <? 8) eqn:E8; [left; apply Hfin|].
  destruct (_ || _) eqn:Ebad; [right; reflexivity|].
  destruct (lenZ rm <? be32 (takeZ 4 rm)) eqn:Els; [left; apply Hfin|].
  assert (Hlen : (length (dropZ (be32 (takeZ 4 rm)) rm) < f)%nat).
  { assert (0 <= be32 (takeZ 4 rm)) as Hs by lia.
    pose proof (lenZ_dropZ (be32 (takeZ 4 rm)) rm Hs) as L. unfold lenZ in *. lia. }
  destruct (list_eqb Z.eqb _ mdat); cbn [callback negb]; now apply IH.
Qed.

(** * Box-level specification: one callback at the end of every mdat box *)

Definition wf_box (b : box) : Prop := length (b_type b) = 4%nat.

Lemma be32_enc32 n : 0 <= n < two32 -> be32 (enc32 n) = n.
Proof.
  unfold be32, enc32, two32. intros H. Z.div_mod_to_equations. lia.
Qed.

Lemma encode_box_len b : wf_box b -> lenZ (encode_box b) = box_size b.
Proof.
  unfold wf_box, encode_box, box_size. intros H. rewrite !lenZ_app.
  assert (lenZ (b_type b) = 4) as -> by (unfold lenZ; rewrite H; reflexivity).
  unfold enc32. rewrite !lenZ_cons. change (lenZ (@nil Z)) with 0. lia.
Qed.

Lemma encode_box_hdr b rest : wf_box b ->
  takeZ 4 (encode_box b ++ rest) = enc32 (box_size b) /\
  takeZ 4 (dropZ 4 (encode_box b ++ rest)) = b_type b.
Proof.
  unfold wf_box, encode_box. intros H.
  destruct (b_type b) as [|t0 [|t1 [|t2 [|t3 [|t4 t]]]]]; try discriminate H.
  unfold enc32. generalize (box_size b / 16777216 mod 256) (box_size b / 65536 mod 256)
    (box_size b / 256 mod 256) (box_size b mod 256). intros e0 e1 e2 e3.
  cbn. rewrite takeZ_nonpos by lia. auto.
Qed.

Lemma walk_boxes : forall bs fuel cur start isInit cbs,
  Forall wf_box bs -> 0 <= start ->
  start + lenZ cur + lenZ (encode_boxes bs) < two32 ->
  (length bs < fuel)%nat ->
  walk fuel None cur (encode_boxes bs) start isInit cbs =
  (cbs ++ chunks_spec bs cur start isInit, PNil).
Proof.
  induction bs as [|b bs IH]; intros fuel cur start isInit cbs Hwf Hst Hlt Hf;
    (destruct fuel as [|f]; [cbn in Hf; lia|]).
  - cbn [walk encode_boxes flat_map chunks_spec]. change (lenZ (@nil Z) <? 8) with true.
    cbv iota. unfold finish. rewrite app_nil_r.
    destruct (lenZ cur >? 0); [reflexivity|]. now rewrite app_nil_r.
  - inversion Hwf as [|? ? Hb Hbs]; subst.
    cbn [encode_boxes flat_map] in *. fold (encode_boxes bs) in *.
    pose proof (encode_box_len b Hb) as Hlen.
    pose proof (lenZ_nonneg cur) as Hc0. pose proof (lenZ_nonneg (encode_boxes bs)) as Hr0.
    pose proof (lenZ_nonneg (b_payload b)) as Hp0.
    rewrite lenZ_app, Hlen in Hlt. unfold box_size in *.
    cbn [walk chunks_spec].
    destruct (encode_box_hdr b (encode_boxes bs) Hb) as [H4 Ht]. rewrite H4, Ht.
    rewrite be32_enc32 by (unfold box_size, two32 in *; lia).
    unfold box_size. rewrite lenZ_app, Hlen.
    destruct (8 + lenZ (b_payload b) + lenZ (encode_boxes bs) <? 8) eqn:E8; [lia|].
    destruct ((8 + lenZ (b_payload b) <? 8) || (lenZ cur + (8 + lenZ (b_payload b)) >? maxu32)) eqn:Eb;
      [unfold two32, maxu32 in *; lia|].
    destruct (8 + lenZ (b_payload b) + lenZ (encode_boxes bs) <? 8 + lenZ (b_payload b)) eqn:El; [lia|].
    rewrite takeZ_app_l, takeZ_all, dropZ_app_r, <- Hlen, Z.sub_diag, dropZ_0 by lia.
    destruct (list_eqb Z.eqb (b_type b) mdat).
    + cbn [callback negb]. rewrite lenZ_app, Hlen.
      rewrite u32_small by (unfold two32 in *; lia).
      rewrite IH; [now rewrite <- app_assoc| assumption | lia | | cbn in Hf; lia].
      change (lenZ (@nil Z)) with 0. lia.
    + rewrite IH; [reflexivity| assumption | lia | | cbn in Hf; lia].
      rewrite lenZ_app, Hlen. lia.
Qed.

Lemma encode_boxes_len bs : Forall wf_box bs -> (8 * length bs <= length (encode_boxes bs))%nat.
Proof.
  induction 1 as [|b bs Hb _ IH]; cbn [encode_boxes flat_map length]; [lia|].
  fold (encode_boxes bs). rewrite app_length.
  pose proof (encode_box_len b Hb) as L. unfold box_size, lenZ in L. lia.
Qed.

Theorem parse_boxes bs sch ed :
  Forall wf_box bs -> lenZ (encode_boxes bs) < two32 ->
  parse None (mkreader (encode_boxes bs) sch ed false) = (chunks_spec bs [] 0 false, PNil).
Proof.
  intros Hwf Hl. rewrite parse_is_walk by (cbn; auto). cbn [rem mkreader].
  rewrite walk_boxes; [reflexivity|assumption|lia| |].
  - change (lenZ (@nil Z)) with 0. lia.
  - pose proof (encode_boxes_len bs Hwf). lia.
Qed.
