(** Proofs about the model of chunkSegment / writeChunkedSegment (C09). *)
From Verif Require Import GoSem GoSemFacts Chunk.
From Coq Require Import ZifyBool Sorted.

Lemma u32_small z : 0 <= z < two32 -> u32 z = z.
Proof. intros; unfold u32; now apply Z.mod_small. Qed.
Lemma u64_small z : 0 <= z < two64 -> u64 z = z.
Proof. intros; unfold u64; now apply Z.mod_small. Qed.

Lemma sum_durs_app a b : sum_durs (a ++ b) = sum_durs a + sum_durs b.
Proof. induction a as [|x a IH]; [reflexivity|]. cbn [app]. unfold sum_durs in *. cbn [fold_right]. lia. Qed.

Lemma sum_durs_cons s l : sum_durs (s :: l) = s_dur s + sum_durs l.
Proof. reflexivity. Qed.

Lemma sum_durs_nonneg l : Forall (fun s => 0 <= s_dur s) l -> 0 <= sum_durs l.
Proof. induction 1; [cbn; lia|rewrite sum_durs_cons; lia]. Qed.

Lemma sum_durs_stamped t l : sum_durs (stamped t l) = sum_durs l.
Proof. revert t; induction l as [|s l IH]; intros t; [reflexivity|]. cbn [stamped]. rewrite !sum_durs_cons, IH. reflexivity. Qed.

Lemma max_dur_ge l : Forall (fun s => s_dur s <= max_dur l) l.
Proof.
  induction l as [|s l IH]; [constructor|]. constructor.
  - cbn [max_dur fold_right]. lia.
  - eapply Forall_impl; [|exact IH]. cbn beta. intros a Ha. cbn [max_dur fold_right]. fold (max_dur l). lia.
Qed.

(** Loop invariant shared by the lemmas below. *)
Record inv (C : Z) (fs cur : list sample) (nr this total dt : Z) : Prop := {
  i_this : this = sum_durs cur;
  i_this32 : this + sum_durs fs < two32;
  i_dt : 0 <= dt /\ dt + sum_durs fs < two64;
  i_start : C * (nr - 1) <= total - this;
  i_open : 0 < this -> total < C * nr;
  i_cur : 0 < this -> cur <> [];
  i_durs : Forall (fun s => 0 <= s_dur s) fs;
  i_curd : Forall (fun s => 0 <= s_dur s) cur
}.

Lemma inv_init C fs newTime :
  0 < C -> Forall (fun s => 0 <= s_dur s) fs -> sum_durs fs < two32 ->
  0 <= newTime -> newTime + sum_durs fs < two64 ->
  inv C fs [] 1 0 0 newTime.
Proof. intros; constructor; cbn; try lia; auto. Qed.

Lemma inv_close C s rest cur nr this total dt :
  inv C (s :: rest) cur nr this total dt ->
  C * nr <= total + s_dur s ->
  inv C rest [] (nr + 1) 0 (total + s_dur s) (dt + s_dur s).
Proof.
  intros [] Hc. rewrite sum_durs_cons in *. inversion i_durs0; subst.
  pose proof (sum_durs_nonneg rest H2). pose proof (sum_durs_nonneg cur i_curd0).
  constructor; cbn; try lia; auto.
Qed.

Lemma inv_open C s rest cur nr this total dt :
  inv C (s :: rest) cur nr this total dt ->
  total + s_dur s < C * nr ->
  inv C rest (cur ++ [set_dt s dt]) nr (this + s_dur s) (total + s_dur s) (dt + s_dur s).
Proof.
  intros [] Hc. rewrite sum_durs_cons in *. inversion i_durs0; subst.
  pose proof (sum_durs_nonneg rest H2). pose proof (sum_durs_nonneg cur i_curd0).
  constructor; try lia; auto.
  - rewrite sum_durs_app. cbn. lia.
  - intros _ E. apply app_eq_nil in E. destruct E as [_ E]. discriminate.
  - apply Forall_app. split; [assumption|]. constructor; [cbn; lia|constructor].
Qed.

Lemma inv_wraps C s rest cur nr this total dt :
  inv C (s :: rest) cur nr this total dt ->
  u64 (dt + s_dur s) = dt + s_dur s /\ u32 (this + s_dur s) = this + s_dur s.
Proof.
  intros []. rewrite sum_durs_cons in *. inversion i_durs0; subst.
  pose proof (sum_durs_nonneg rest H2). pose proof (sum_durs_nonneg cur i_curd0).
  split; [apply u64_small|apply u32_small]; lia.
Qed.

(** One unfolding of the loop under the invariant. *)
Lemma chunk_loop_step C seq s rest cur styp nr this total dt :
  inv C (s :: rest) cur nr this total dt ->
  chunk_loop C seq (s :: rest) cur styp nr this total dt =
  if total + s_dur s >=? C * nr then
    {| c_styp := styp; c_seq := seq; c_samples := cur ++ [set_dt s dt]; c_dur := this + s_dur s |}
      :: chunk_loop C seq rest [] false (nr + 1) 0 (total + s_dur s) (dt + s_dur s)
  else chunk_loop C seq rest (cur ++ [set_dt s dt]) styp nr (this + s_dur s) (total + s_dur s) (dt + s_dur s).
Proof.
  intros I. destruct (inv_wraps _ _ _ _ _ _ _ _ I) as [E1 E2].
  cbn [chunk_loop]. rewrite E1, E2. reflexivity.
Qed.

(** *** Partition *)
Lemma chunk_loop_concat C seq fs : forall cur styp nr this total dt,
  inv C fs cur nr this total dt ->
  samples_of (chunk_loop C seq fs cur styp nr this total dt) = cur ++ stamped dt fs.
Proof.
  induction fs as [|s rest IH]; intros cur styp nr this total dt I.
  - cbn [chunk_loop stamped]. destruct cur as [|x cur']; [reflexivity|]. cbn. now rewrite !app_nil_r.
  - rewrite (chunk_loop_step _ _ _ _ _ _ _ _ _ _ I).
    destruct (total + s_dur s >=? C * nr) eqn:E.
    + unfold samples_of. cbn [flat_map c_samples]. fold (samples_of (chunk_loop C seq rest [] false (nr + 1) 0 (total + s_dur s) (dt + s_dur s))).
      rewrite IH; [|apply (inv_close _ _ _ _ _ _ _ _ I); lia].
      cbn [stamped app]. rewrite <- app_assoc. reflexivity.
    + rewrite IH; [|apply (inv_open _ _ _ _ _ _ _ _ I); lia].
      cbn [stamped]. rewrite <- app_assoc. reflexivity.
Qed.

(** styp only on the first chunk; sequence number; no empty chunk *)
Lemma chunk_loop_shape C seq fs : forall cur styp nr this total dt,
  inv C fs cur nr this total dt ->
  let cs := chunk_loop C seq fs cur styp nr this total dt in
  styp_first styp cs /\ Forall (fun c => c_seq c = seq /\ c_samples c <> []) cs.
Proof.
  induction fs as [|s rest IH]; intros cur styp nr this total dt I.
  - cbn [chunk_loop]. destruct cur as [|x cur']; cbn; [auto|].
    split; [auto|]. constructor; [|constructor]. cbn. split; [reflexivity|discriminate].
  - cbv zeta. rewrite (chunk_loop_step _ _ _ _ _ _ _ _ _ _ I).
    destruct (total + s_dur s >=? C * nr) eqn:E.
    + destruct (IH [] false (nr + 1) 0 (total + s_dur s) (dt + s_dur s)) as [H1 H2];
        [apply (inv_close _ _ _ _ _ _ _ _ I); lia|].
      split.
      * cbn. split; [reflexivity|].
        destruct (chunk_loop C seq rest [] false (nr + 1) 0 (total + s_dur s) (dt + s_dur s)) as [|c r]; [constructor|].
        cbn in H1. destruct H1. constructor; assumption.
      * constructor; [|exact H2]. cbn. split; [reflexivity|]. intros E0. apply app_eq_nil in E0. destruct E0 as [_ E0]. discriminate.
    + apply IH. apply (inv_open _ _ _ _ _ _ _ _ I); lia.
Qed.

(** *** chk.dur versus the true span; span bound (no hypothesis on sample durations) *)
Lemma chunk_loop_durs C M seq fs : 0 < C < two63 -> 0 <= M -> forall cur styp nr this total dt,
  inv C fs cur nr this total dt ->
  Forall (fun s => s_dur s <= M) fs -> Forall (fun s => s_dur s <= M) cur ->
  Forall (fun c => chunk_span c <= c_dur c /\ chunk_span c < C + M /\
                   (c_dur c = chunk_span c \/ (c_dur c = C /\ chunk_span c < C)))
         (chunk_loop C seq fs cur styp nr this total dt).
Proof.
  intros HC HM0.
  induction fs as [|s rest IH]; intros cur styp nr this total dt I HM HMc.
  - cbn [chunk_loop]. destruct cur as [|x cur'] eqn:Ec; [constructor|]. rewrite <- Ec in *.
    constructor; [|constructor]. unfold chunk_span; cbn [c_samples c_dur].
    destruct I. pose proof (sum_durs_nonneg cur i_curd0) as Hn.
    assert (this < C).
    { destruct (Z_lt_le_dec 0 this) as [Hp|Hp]; [specialize (i_open0 Hp); lia|lia]. }
    rewrite u64_small by (unfold two64, two63 in *; lia).
    rewrite <- i_this0. split; [lia|]. split; [lia|]. right. lia.
  - rewrite (chunk_loop_step _ _ _ _ _ _ _ _ _ _ I). inversion HM; subst.
    destruct (total + s_dur s >=? C * nr) eqn:E.
    + constructor.
      * unfold chunk_span; cbn [c_samples c_dur]. rewrite sum_durs_app. cbn [sum_durs fold_right set_dt s_dur].
        fold (sum_durs cur). destruct I. rewrite <- i_this0.
        assert (this < C).
        { destruct (Z_lt_le_dec 0 this) as [Hp|Hp]; [specialize (i_open0 Hp); lia|lia]. }
        split; [lia|]. split; [lia|]. left. lia.
      * apply IH; [apply (inv_close _ _ _ _ _ _ _ _ I); lia|assumption|constructor].
    + apply IH; [apply (inv_open _ _ _ _ _ _ _ _ I); lia|assumption|].
      apply Forall_app. split; [assumption|]. constructor; [cbn; assumption|constructor].
Qed.

(** *** Where chunks end, when no sample is longer than a chunk period *)
Lemma chunk_loop_ends C M t0 seq fs : 0 < C -> 0 <= M -> forall cur styp nr this total dt,
  inv C fs cur nr this total dt ->
  total < C * nr ->
  Forall (fun s => s_dur s <= C /\ s_dur s <= M) fs ->
  ends_bounded C M t0 nr (t0 + total - this) (chunk_loop C seq fs cur styp nr this total dt).
Proof.
  intros HC HM0.
  induction fs as [|s rest IH]; intros cur styp nr this total dt I Hopen HM.
  - cbn [chunk_loop]. destruct cur as [|x cur'] eqn:Ec; [exact Logic.I|]. rewrite <- Ec in *.
    cbn [ends_bounded]. unfold chunk_span; cbn [c_samples]. destruct I. rewrite <- i_this0.
    split; [lia|]. split; [congruence|exact Logic.I].
  - rewrite (chunk_loop_step _ _ _ _ _ _ _ _ _ _ I). inversion HM; subst.
    destruct (total + s_dur s >=? C * nr) eqn:E.
    + cbn [ends_bounded]. unfold chunk_span; cbn [c_samples]. rewrite sum_durs_app. cbn [sum_durs fold_right set_dt s_dur].
      fold (sum_durs cur). pose proof (i_this _ _ _ _ _ _ _ I) as Et. rewrite <- Et.
      split; [lia|]. split; [lia|].
      replace (t0 + total - this + (this + (s_dur s + 0))) with (t0 + (total + s_dur s) - 0) by lia.
      apply IH; [apply (inv_close _ _ _ _ _ _ _ _ I); lia|lia|assumption].
    + replace (t0 + total - this) with (t0 + (total + s_dur s) - (this + s_dur s)) by lia.
      apply IH; [apply (inv_open _ _ _ _ _ _ _ _ I); lia|lia|assumption].
Qed.

(** *** Contiguity follows from the partition *)
Lemma stamped_idem t l : stamped t (stamped t l) = stamped t l.
Proof. revert t; induction l as [|s l IH]; intros t; [reflexivity|]. cbn [stamped set_dt s_dur s_tag]. now rewrite IH. Qed.

Lemma stamped_split : forall a b t l, stamped t l = a ++ b ->
  a = stamped t a /\ b = stamped (t + sum_durs a) b.
Proof.
  induction a as [|x a IH]; intros b t l H.
  - cbn [app] in H. split; [reflexivity|]. cbn. rewrite Z.add_0_r. rewrite <- H. now rewrite stamped_idem.
  - destruct l as [|s l]; [discriminate|]. cbn [stamped app] in H. injection H as Hx Hr.
    destruct (IH _ _ _ Hr) as [Ha Hb]. subst x. cbn [stamped set_dt s_dur s_tag]. rewrite sum_durs_cons. cbn [set_dt s_dur].
    split; [now rewrite <- Ha|]. now rewrite Z.add_assoc.
Qed.

Lemma concat_contiguous : forall cs t l, samples_of cs = stamped t l -> contiguous t cs.
Proof.
  induction cs as [|c r IH]; intros t l H; [exact I|].
  unfold samples_of in H. cbn [flat_map] in H. symmetry in H. destruct (stamped_split _ _ _ _ H) as [Ha Hb].
  cbn [contiguous]. split; [exact Ha|]. eapply IH. exact Hb.
Qed.

(** *** chunkSegment *)
Lemma chunkSegment_ok fs st newTime newNr newDur C cs :
  chunkSegment fs st newTime newNr newDur C = Ok cs ->
  cs = chunk_loop C newNr fs [] st 1 0 0 newTime.
Proof. unfold chunkSegment. intros H; injection H as <-. reflexivity. Qed.

(** chunkSegment never fails and never panics (since repair 1ce6842), whatever the chunk duration. *)
Lemma chunkSegment_total fs st newTime newNr newDur C :
  exists cs, chunkSegment fs st newTime newNr newDur C = Ok cs.
Proof. eexists. reflexivity. Qed.

Lemma chunkDur_zero segDurMS atoMS ts :
  Z.abs ((segDurMS - atoMS) * ts) < 1000 -> chunkDurOf segDurMS atoMS ts = 0.
Proof. intros H. unfold chunkDurOf. apply Z.quot_small_iff; lia. Qed.

Lemma chunkSegment_partition_pos fs st newTime newNr newDur C cs :
  0 < C -> wf_input fs newTime ->
  chunkSegment fs st newTime newNr newDur C = Ok cs ->
  samples_of cs = stamped newTime fs /\ contiguous newTime cs /\
  styp_first st cs /\ Forall (fun c => c_seq c = newNr /\ c_samples c <> []) cs.
Proof.
  intros HC (Hd & H32 & Ht & H64) H. apply chunkSegment_ok in H. subst cs.
  pose proof (inv_init C fs newTime HC Hd H32 Ht H64) as I.
  assert (E : samples_of (chunk_loop C newNr fs [] st 1 0 0 newTime) = stamped newTime fs).
  { rewrite (chunk_loop_concat _ _ _ _ _ _ _ _ _ I). reflexivity. }
  split; [exact E|]. split; [eapply concat_contiguous; exact E|].
  apply (chunk_loop_shape _ _ _ _ _ _ _ _ _ I).
Qed.

(** the former defect (trailing zero-duration samples dropped, repaired by 14871fa) is gone *)
Lemma zero_dur_tail_kept :
  let fs := [ {| s_dur := 2; s_tag := 1; s_dt := 0 |}; {| s_dur := 0; s_tag := 2; s_dt := 0 |} ] in
  exists cs, chunkSegment fs true 0 7 2 2 = Ok cs /\ samples_of cs = stamped 0 fs /\ length cs = 2%nat.
Proof. cbv zeta. eexists. split; [vm_compute; reflexivity|]. split; vm_compute; reflexivity. Qed.

Lemma chunkSegment_span fs st newTime newNr newDur C cs :
  0 < C < two63 -> wf_input fs newTime ->
  chunkSegment fs st newTime newNr newDur C = Ok cs ->
  Forall (fun c => chunk_span c <= c_dur c /\ chunk_span c < C + max_dur fs /\
                   (c_dur c = chunk_span c \/ (c_dur c = C /\ chunk_span c < C))) cs.
Proof.
  intros HC (Hd & H32 & Ht & H64) H. apply chunkSegment_ok in H. subst cs.
  assert (HC0 : 0 < C) by lia.
  pose proof (inv_init C fs newTime HC0 Hd H32 Ht H64) as I.
  apply chunk_loop_durs; auto.
  - clear. induction fs; cbn; [lia|]. fold (max_dur fs). lia.
  - apply max_dur_ge.
Qed.

Lemma chunkSegment_ends fs st newTime newNr newDur C cs :
  0 < C -> wf_input fs newTime -> Forall (fun s => s_dur s <= C) fs ->
  chunkSegment fs st newTime newNr newDur C = Ok cs ->
  ends_bounded C (max_dur fs) newTime 1 newTime cs.
Proof.
  intros HC (Hd & H32 & Ht & H64) HdC H. apply chunkSegment_ok in H. subst cs.
  pose proof (inv_init C fs newTime HC Hd H32 Ht H64) as I.
  replace newTime with (newTime + 0 - 0) at 2 by lia.
  apply chunk_loop_ends; auto; try lia.
  - clear. induction fs; cbn; [lia|]. fold (max_dur fs). lia.
  - pose proof (max_dur_ge fs) as HM. rewrite Forall_forall in *. intros s Hs. split; auto.
Qed.

(** *** chunk duration <= 0 (availabilityTimeOffset >= segment duration): every sample is a chunk
    of its own, paced with its own duration; nothing is lost, whatever the sample durations *)
Fixpoint per_sample (seq : Z) (styp : bool) (dt : Z) (fs : list sample) : list chunk :=
  match fs with
  | [] => []
  | s :: r => {| c_styp := styp; c_seq := seq; c_samples := [set_dt s dt]; c_dur := s_dur s |}
              :: per_sample seq false (dt + s_dur s) r
  end.

Lemma chunk_loop_nonpositive C seq : C <= 0 -> forall fs styp nr total dt,
  1 <= nr -> 0 <= total -> Forall (fun s => 0 <= s_dur s < two32) fs ->
  0 <= dt -> dt + sum_durs fs < two64 ->
  chunk_loop C seq fs [] styp nr 0 total dt = per_sample seq styp dt fs.
Proof.
  intros HC. induction fs as [|s r IH]; intros styp nr total dt Hnr Htot Hd Hdt H64; [reflexivity|].
  apply Forall_cons_iff in Hd. destruct Hd as [Hs Hd]. rewrite sum_durs_cons in H64.
  assert (0 <= sum_durs r) by (apply sum_durs_nonneg; eapply Forall_impl; [|exact Hd]; cbn beta; lia).
  cbn [chunk_loop per_sample]. destruct (total + s_dur s >=? C * nr) eqn:E; [|nia].
  rewrite Z.add_0_l, (u32_small (s_dur s)) by lia. rewrite u64_small by lia.
  cbn [app]. f_equal. apply IH; try lia. assumption.
Qed.

Lemma per_sample_facts seq : forall fs styp dt,
  samples_of (per_sample seq styp dt fs) = stamped dt fs /\
  length (per_sample seq styp dt fs) = length fs /\
  Forall (fun c => c_seq c = seq /\ length (c_samples c) = 1%nat /\ c_dur c = chunk_span c) (per_sample seq styp dt fs) /\
  styp_first styp (per_sample seq styp dt fs).
Proof.
  induction fs as [|s r IH]; intros styp dt; cbn [per_sample stamped].
  - repeat split; constructor.
  - destruct (IH false (dt + s_dur s)) as (A & B & D & F).
    split; [unfold samples_of in *; cbn [flat_map c_samples app]; now rewrite A|].
    split; [cbn [length]; now rewrite B|]. split.
    + constructor; [|exact D]. cbn. repeat split. unfold chunk_span; cbn. lia.
    + cbn. split; [reflexivity|]. clear - F. destruct (per_sample seq false (dt + s_dur s) r) as [|c l]; [constructor|].
      cbn in F. destruct F. constructor; assumption.
Qed.

Lemma chunkSegment_nonpositive fs st newTime newNr newDur C cs :
  C <= 0 -> wf_input fs newTime ->
  chunkSegment fs st newTime newNr newDur C = Ok cs ->
  cs = per_sample newNr st newTime fs /\
  samples_of cs = stamped newTime fs /\ length cs = length fs /\
  Forall (fun c => c_seq c = newNr /\ length (c_samples c) = 1%nat /\ c_dur c = chunk_span c) cs /\
  styp_first st cs.
Proof.
  intros HC (Hd & H32 & Ht & H64) H. apply chunkSegment_ok in H.
  assert (Hd' : Forall (fun s => 0 <= s_dur s < two32) fs).
  { clear - Hd H32. induction fs as [|s r IH]; [constructor|]. apply Forall_cons_iff in Hd. destruct Hd as [Hs Hd].
    rewrite sum_durs_cons in H32. pose proof (sum_durs_nonneg r Hd). constructor; [lia|]. apply IH; [assumption|lia]. }
  rewrite (chunk_loop_nonpositive C newNr HC fs st 1 0 newTime) in H by (try lia; assumption).
  subst cs. split; [reflexivity|]. apply per_sample_facts.
Qed.

(** For every chunk duration the pacing duration of a chunk covers its media span. *)
Lemma chunk_durs_cover fs st newTime newNr newDur C cs :
  C < two63 -> wf_input fs newTime ->
  chunkSegment fs st newTime newNr newDur C = Ok cs ->
  Forall (fun c => 0 <= chunk_span c <= c_dur c) cs.
Proof.
  intros HC Hwf H. destruct (Z_lt_le_dec 0 C) as [Hp|Hn].
  - pose proof (chunkSegment_span _ _ _ _ _ _ _ (conj Hp HC) Hwf H) as Hspan.
    destruct Hwf as (Hd & _ & Ht & _). apply chunkSegment_ok in H. subst cs.
    assert (G : forall fs cur styp nr this total dt, Forall (fun s => 0 <= s_dur s) fs -> Forall (fun s => 0 <= s_dur s) cur ->
              Forall (fun c => Forall (fun s => 0 <= s_dur s) (c_samples c)) (chunk_loop C newNr fs cur styp nr this total dt)).
    { clear. induction fs as [|s r IH]; intros cur styp nr this total dt Hf Hc; cbn [chunk_loop].
      - destruct cur as [|x cur']; [constructor|constructor; [exact Hc|constructor]].
      - inversion Hf; subst.
        assert (Forall (fun s => 0 <= s_dur s) (cur ++ [set_dt s dt])) by (apply Forall_app; split; [assumption|repeat constructor; cbn; assumption]).
        destruct (total + s_dur s >=? C * nr); [constructor; [assumption|]|]; apply IH; auto. }
    specialize (G fs [] st 1 0 0 newTime Hd (Forall_nil _)).
    rewrite Forall_forall in *. intros c Hc. specialize (G c Hc). specialize (Hspan c Hc).
    split; [apply sum_durs_nonneg; exact G|tauto].
  - destruct (chunkSegment_nonpositive _ _ _ _ _ _ _ Hn Hwf H) as (E & _ & _ & F & _).
    destruct Hwf as (Hd & _). subst cs. clear - Hd.
    revert st newTime. induction fs as [|s r IH]; intros st newTime; cbn [per_sample]; [constructor|].
    apply Forall_cons_iff in Hd. destruct Hd as [Hs Hd]. constructor; [|apply IH; assumption].
    unfold chunk_span; cbn. lia.
Qed.

(** Partition for every chunk duration and all sample durations >= 0. *)
Lemma chunkSegment_partition fs st newTime newNr newDur C cs :
  wf_input fs newTime ->
  chunkSegment fs st newTime newNr newDur C = Ok cs ->
  samples_of cs = stamped newTime fs /\ contiguous newTime cs /\
  styp_first st cs /\ Forall (fun c => c_seq c = newNr /\ c_samples c <> []) cs.
Proof.
  intros Hwf H. destruct (Z_lt_le_dec 0 C) as [Hp|Hn]; [now apply (chunkSegment_partition_pos fs st newTime newNr newDur C)|].
  destruct (chunkSegment_nonpositive _ _ _ _ _ _ _ Hn Hwf H) as (_ & E & _ & F & S).
  split; [exact E|]. split; [eapply concat_contiguous; exact E|]. split; [exact S|].
  eapply Forall_impl; [|exact F]. cbn beta. intros c (A & B & _). split; [exact A|].
  destruct (c_samples c); [discriminate|discriminate].
Qed.

(** *** Pacing *)
Lemma avail_list_mono ts : 0 < ts -> forall cs t a,
  0 <= t <= a -> Forall (fun c => 0 <= chunk_span c <= c_dur c) cs ->
  Forall2 (fun e m => Z.quot (e * 1000) ts <= m) (true_ends t cs) (avail_list ts a cs).
Proof.
  intros Hts. induction cs as [|c r IH]; intros t a Hta H; [constructor|].
  inversion H; subst. cbn [true_ends avail_list]. constructor.
  - apply Z.quot_le_mono; lia.
  - apply IH; [lia|assumption].
Qed.

Section PacingProofs.
  Variable clock : nat -> Z.
  Variable sleep : nat -> Z -> nat.
  Hypothesis clock_mono : forall k, clock k <= clock (S k).
  Hypothesis sleep_spec : forall k d, (k <= sleep k d)%nat /\ clock k + d <= clock (sleep k d).

  Lemma clock_le a b : (a <= b)%nat -> clock a <= clock b.
  Proof. induction 1; [lia|]. pose proof (clock_mono m). lia. Qed.

  Lemma pace_loop_spec ts nowMS startMS : ts <> 0 -> forall cs k avail l,
    startMS <= clock k ->
    pace_loop clock sleep ts nowMS startMS k avail cs = Ok l ->
    map fst l = avail_list ts avail cs /\
    Forall (fun aw => (k <= snd aw)%nat /\ fst aw <= nowMS + (clock (snd aw) - startMS)) l /\
    StronglySorted lt (map snd l).
  Proof.
    intros Hts. induction cs as [|c r IH]; intros k avail l Hk H.
    - cbn in H. injection H as <-. cbn. repeat split; constructor.
    - cbn [pace_loop] in H. unfold go_div in H. destruct (ts =? 0) eqn:E0; [lia|]. cbn [bind] in H.
      set (availMS := Z.quot ((avail + c_dur c) * 1000) ts) in *.
      assert (Hnext : forall k' kw l', (k <= kw)%nat -> (kw < k')%nat -> availMS <= nowMS + (clock kw - startMS) ->
                pace_loop clock sleep ts nowMS startMS k' (avail + c_dur c) r = Ok l' ->
                map fst ((availMS, kw) :: l') = avail_list ts avail (c :: r) /\
                Forall (fun aw => (k <= snd aw)%nat /\ fst aw <= nowMS + (clock (snd aw) - startMS)) ((availMS, kw) :: l') /\
                StronglySorted lt (map snd ((availMS, kw) :: l'))).
      { intros k' kw l' H1 H2 H3 H4.
        assert (Hk' : startMS <= clock k') by (pose proof (clock_le k k' ltac:(lia)); lia).
        destruct (IH _ _ _ Hk' H4) as (A & B & D).
        split; [cbn [map fst avail_list]; fold availMS; now rewrite A|].
        split.
        - constructor; [cbn; split; [lia|assumption]|].
          eapply Forall_impl; [|exact B]. cbn beta. intros aw [? ?]. split; [lia|assumption].
        - cbn [map snd]. constructor; [assumption|]. rewrite Forall_map. eapply Forall_impl; [|exact B].
          cbn beta. intros aw [? ?]. lia. }
      destruct (availMS <? nowMS) eqn:E1.
      + destruct (pace_loop clock sleep ts nowMS startMS (S k) (avail + c_dur c) r) as [l'| |] eqn:EP; cbn [bind] in H; try discriminate.
        injection H as <-. apply (Hnext (S k) k l'); auto; lia.
      + destruct (availMS <? clock k - startMS + nowMS) eqn:E2.
        * destruct (pace_loop clock sleep ts nowMS startMS (S (S k)) (avail + c_dur c) r) as [l'| |] eqn:EP; cbn [bind] in H; try discriminate.
          injection H as <-. apply (Hnext (S (S k)) (S k) l'); auto; try lia.
          pose proof (clock_mono k). lia.
        * set (k' := sleep (S k) (availMS - (clock k - startMS + nowMS))) in *.
          destruct (pace_loop clock sleep ts nowMS startMS (S k') (avail + c_dur c) r) as [l'| |] eqn:EP; cbn [bind] in H; try discriminate.
          injection H as <-.
          destruct (sleep_spec (S k) (availMS - (clock k - startMS + nowMS))) as [S1 S2]. fold k' in S1, S2.
          apply (Hnext (S k') k' l'); auto; try lia.
          pose proof (clock_mono k). lia.
  Qed.

  (** the loop never fails when the timescale is not zero *)
  Lemma pace_loop_ok ts nowMS startMS : ts <> 0 -> forall cs k avail,
    exists l, pace_loop clock sleep ts nowMS startMS k avail cs = Ok l /\ length l = length cs.
  Proof.
    intros Hts. induction cs as [|c r IH]; intros k avail; [exists []; split; reflexivity|].
    cbn [pace_loop]. unfold go_div. destruct (ts =? 0) eqn:E0; [lia|]. cbn [bind].
    set (availMS := Z.quot ((avail + c_dur c) * 1000) ts).
    destruct (availMS <? nowMS).
    - destruct (IH (S k) (avail + c_dur c)) as (l & -> & Hl). eexists; split; [reflexivity|cbn; lia].
    - destruct (availMS <? clock k - startMS + nowMS).
      + destruct (IH (S (S k)) (avail + c_dur c)) as (l & -> & Hl). eexists; split; [reflexivity|cbn; lia].
      + destruct (IH (S (sleep (S k) (availMS - (clock k - startMS + nowMS)))) (avail + c_dur c)) as (l & -> & Hl).
        eexists; split; [reflexivity|cbn; lia].
  Qed.

  (** Never early: every chunk of the chunked segment is written at an instant (on the request's
      wall clock [vnow]) that is not before the millisecond in which the chunk's media ends;
      the chunks are written in order. *)
  Lemma never_early fs st newTime newNr newDur C cs ts nowMS startTimeS k0 :
    C < two63 -> 0 < ts -> 0 <= startTimeS -> wf_input fs newTime ->
    chunkSegment fs st newTime newNr newDur C = Ok cs ->
    exists ws,
      writeChunked clock sleep ts nowMS startTimeS newTime k0 cs = Ok ws /\
      Forall2 (fun e aw => Z.quot (e * 1000) ts <= vnow clock nowMS k0 (snd aw))
              (true_ends (newTime + startTimeS * ts) cs) ws /\
      StronglySorted lt (map snd ws) /\ Forall (fun aw => (k0 < snd aw)%nat) ws.
  Proof.
    intros HC Hts Hst Hwf H.
    pose proof (chunk_durs_cover _ _ _ _ _ _ _ HC Hwf H) as Hnn.
    unfold writeChunked.
    destruct (pace_loop_ok ts nowMS (clock k0) ltac:(lia) cs (S k0) (newTime + startTimeS * ts)) as (ws & E & Hlen).
    exists ws. split; [exact E|].
    destruct (pace_loop_spec ts nowMS (clock k0) ltac:(lia) cs (S k0) _ ws (clock_mono k0) E) as (A & B & D).
    split; [|split; [exact D|]].
    - destruct Hwf as (Hd & _ & Ht & _).
      pose proof (avail_list_mono ts Hts cs (newTime + startTimeS * ts) (newTime + startTimeS * ts) ltac:(nia) Hnn) as F.
      rewrite <- A in F. clear - F B.
      revert F B. generalize (true_ends (newTime + startTimeS * ts) cs). induction ws as [|w ws IH]; intros te F B.
      + inversion F; constructor.
      + cbn [map] in F. inversion F; subst. inversion B; subst. constructor; [|apply IH; assumption].
        unfold vnow. lia.
    - eapply Forall_impl; [|exact B]. cbn beta. intros aw [? _]. lia.
  Qed.
  (** An interrupted request writes a prefix of what the uninterrupted one writes, at the same instants. *)
  Lemma pace_loop_c_prefix cancelled ts nowMS startMS : ts <> 0 -> forall cs k avail l,
    pace_loop clock sleep ts nowMS startMS k avail cs = Ok l ->
    exists n, pace_loop_c clock sleep cancelled ts nowMS startMS k avail cs = firstn n l.
  Proof.
    intros Hts. induction cs as [|c r IH]; intros k avail l H.
    - exists 0%nat. reflexivity.
    - cbn [pace_loop pace_loop_c] in *. destruct (cancelled k); [exists 0%nat; reflexivity|].
      unfold go_div in H. destruct (ts =? 0) eqn:E0; [lia|]. cbn [bind] in H.
      set (availMS := Z.quot ((avail + c_dur c) * 1000) ts) in *.
      destruct (availMS <? nowMS).
      + destruct (pace_loop clock sleep ts nowMS startMS (S k) (avail + c_dur c) r) as [l'| |] eqn:EP; cbn [bind] in H; try discriminate.
        injection H as <-. destruct (IH _ _ _ EP) as (n & ->). exists (S n). reflexivity.
      + destruct (availMS <? clock k - startMS + nowMS).
        * destruct (pace_loop clock sleep ts nowMS startMS (S (S k)) (avail + c_dur c) r) as [l'| |] eqn:EP; cbn [bind] in H; try discriminate.
          injection H as <-. destruct (IH _ _ _ EP) as (n & ->). exists (S n). reflexivity.
        * destruct (pace_loop clock sleep ts nowMS startMS (S (sleep (S k) (availMS - (clock k - startMS + nowMS)))) (avail + c_dur c) r) as [l'| |] eqn:EP; cbn [bind] in H; try discriminate.
          injection H as <-. destruct (IH _ _ _ EP) as (n & ->). exists (S n). reflexivity.
  Qed.

  Lemma never_early_interrupted cancelled fs st newTime newNr newDur C cs ts nowMS startTimeS k0 :
    C < two63 -> 0 < ts -> 0 <= startTimeS -> wf_input fs newTime ->
    chunkSegment fs st newTime newNr newDur C = Ok cs ->
    exists n,
      let ws := pace_loop_c clock sleep cancelled ts nowMS (clock k0) (S k0) (newTime + startTimeS * ts) cs in
      Forall2 (fun e aw => Z.quot (e * 1000) ts <= vnow clock nowMS k0 (snd aw))
              (firstn n (true_ends (newTime + startTimeS * ts) cs)) ws.
  Proof.
    intros HC Hts Hst Hwf H.
    destruct (never_early _ _ _ _ _ _ _ ts nowMS startTimeS k0 HC Hts Hst Hwf H) as (ws & E & F & _).
    unfold writeChunked in E.
    destruct (pace_loop_c_prefix cancelled ts nowMS (clock k0) ltac:(lia) cs (S k0) _ ws E) as (n & ->).
    exists n. cbv zeta. clear - F. revert n. induction F as [|e w te ws' H1 F IH]; intros n.
    - destruct n; constructor.
    - destruct n as [|n]; [constructor|]. cbn [firstn]. constructor; [exact H1|apply IH].
  Qed.
End PacingProofs.

(** *** too early *)
Lemma tooEarly_spec availMS atoMS nowMS : 0 < atoMS ->
  (tooEarly availMS atoMS nowMS = true <-> nowMS < availMS - atoMS).
Proof. unfold tooEarly. intros H. destruct (atoMS >? 0) eqn:E; lia. Qed.

(** *** Same media: the body as a client parses it, against whole-segment mode *)
Lemma stamped_app t a b : stamped t (a ++ b) = stamped t a ++ stamped (t + sum_durs a) b.
Proof.
  revert t; induction a as [|x a IH]; intros t.
  - cbn. now rewrite Z.add_0_r.
  - cbn [app stamped]. rewrite IH, sum_durs_cons, Z.add_assoc. reflexivity.
Qed.

Lemma parse_chunk_id c t : c_samples c = stamped t (c_samples c) -> c_samples c <> [] -> parse_chunk c = c_samples c.
Proof.
  intros E Hne. unfold parse_chunk, chunk_tfdt. destruct (c_samples c) as [|s l] eqn:Es; [congruence|].
  cbn [stamped] in E. injection E as E1 E2.
  assert (s_dt s = t) by (rewrite E1; reflexivity).
  subst t. cbn [stamped]. rewrite <- E1, <- E2. reflexivity.
Qed.

Lemma parse_body_samples cs : forall t, contiguous t cs -> Forall (fun c => c_samples c <> []) cs ->
  parse_body cs = samples_of cs.
Proof.
  induction cs as [|c r IH]; intros t Hc Hne; [reflexivity|].
  cbn [contiguous] in Hc. destruct Hc as [Hc1 Hc2]. inversion Hne; subst.
  unfold parse_body, samples_of. cbn [flat_map].
  rewrite (parse_chunk_id c t Hc1) by assumption. f_equal. eapply IH; eassumption.
Qed.

Lemma u64_shift a b c : 0 <= a + (b - c) < two64 -> u64 (a + u64 (b - c)) = a + (b - c).
Proof.
  intros H. unfold u64. rewrite Zplus_mod_idemp_r. apply Z.mod_small. exact H.
Qed.

Lemma whole_parse_flat shift : forall frags t,
  frags_contiguous t frags ->
  Forall (fun f => Forall (fun s => 0 <= s_dur s) (f_samples f)) frags ->
  0 <= t + shift -> t + shift + sum_durs (frag_samples frags) < two64 ->
  flat_map (fun f => stamped (u64 (f_tfdt f + u64 shift)) (f_samples f)) frags
  = stamped (t + shift) (frag_samples frags).
Proof.
  induction frags as [|f r IH]; intros t Hc Hd H0 H1; [reflexivity|].
  cbn [frags_contiguous] in Hc. destruct Hc as [Ht Hc]. subst t. apply Forall_cons_iff in Hd. destruct Hd as [Hd1 Hd2].
  unfold frag_samples in *. cbn [flat_map] in *. rewrite sum_durs_app in H1.
  pose proof (sum_durs_nonneg _ Hd1) as Hn.
  assert (Hr : 0 <= sum_durs (flat_map f_samples r)).
  { apply sum_durs_nonneg. clear - Hd2. induction Hd2; cbn [flat_map]; [constructor|]. apply Forall_app. split; assumption. }
  rewrite stamped_app. f_equal.
  - f_equal. replace shift with (shift - 0) at 1 by lia. rewrite u64_shift by lia. lia.
  - rewrite (IH (f_tfdt f + sum_durs (f_samples f))); [f_equal; lia|assumption|assumption|lia|lia].
Qed.

(** Whole-segment mode delivers [stamped newTime] of the VoD samples when the VoD fragments are contiguous. *)
Lemma whole_parse_stamped newTime f0 frags :
  frags_contiguous (f_tfdt f0) (f0 :: frags) ->
  wf_input (frag_samples (f0 :: frags)) newTime ->
  whole_parse newTime (f0 :: frags) = stamped newTime (frag_samples (f0 :: frags)).
Proof.
  intros Hc (Hd & H32 & Ht & H64). unfold whole_parse. cbv zeta.
  assert (Hd' : Forall (fun f => Forall (fun s => 0 <= s_dur s) (f_samples f)) (f0 :: frags)).
  { clear - Hd. unfold frag_samples in Hd. induction (f0 :: frags) as [|f r IH]; [constructor|].
    cbn [flat_map] in Hd. apply Forall_app in Hd. destruct Hd. constructor; auto. }
  assert (E : u64 (newTime - f_tfdt f0) = u64 (newTime - f_tfdt f0)) by reflexivity.
  pose proof (whole_parse_flat (newTime - f_tfdt f0) (f0 :: frags) (f_tfdt f0) Hc Hd' ltac:(lia) ltac:(lia)) as W.
  replace (f_tfdt f0 + (newTime - f_tfdt f0)) with newTime in W by lia.
  rewrite <- W. apply flat_map_ext. intros f. f_equal.
Qed.

Lemma same_media newTime f0 frags st newNr newDur C cs :
  frags_contiguous (f_tfdt f0) (f0 :: frags) ->
  wf_input (frag_samples (f0 :: frags)) newTime ->
  chunkSegment (frag_samples (f0 :: frags)) st newTime newNr newDur C = Ok cs ->
  parse_body cs = whole_parse newTime (f0 :: frags) /\
  Forall (fun c => c_seq c = newNr) cs /\ styp_first st cs.
Proof.
  intros Hc Hwf H.
  destruct (chunkSegment_partition _ _ _ _ _ _ _ Hwf H) as (P1 & P2 & P3 & P4).
  split; [|split; [|exact P3]].
  - rewrite (parse_body_samples cs newTime P2).
    + rewrite P1. symmetry. apply whole_parse_stamped; assumption.
    + eapply Forall_impl; [|exact P4]. cbn beta. tauto.
  - eapply Forall_impl; [|exact P4]. cbn beta. tauto.
Qed.

(** Fragments of the VoD segment that are not contiguous: whole-segment mode keeps the gap,
    chunked mode closes it. *)
Lemma same_media_gap :
  exists newTime f0 frags cs,
    wf_input (frag_samples (f0 :: frags)) newTime /\
    chunkSegment (frag_samples (f0 :: frags)) true newTime 1 20 10 = Ok cs /\
    parse_body cs <> whole_parse newTime (f0 :: frags).
Proof.
  exists 1000, {| f_tfdt := 0; f_samples := [ {| s_dur := 10; s_tag := 1; s_dt := 0 |} ] |},
         [ {| f_tfdt := 15; f_samples := [ {| s_dur := 10; s_tag := 2; s_dt := 15 |} ] |} ].
  eexists. split; [|split; [vm_compute; reflexivity|vm_compute; discriminate]].
  unfold wf_input. repeat split; try (vm_compute; congruence). repeat constructor; cbn; lia.
Qed.

