(** C09: the chunking theorems composed with the segment lookup of the live simulator
    (theories/Timeline.v: findSegMetaFromNr / findSegMetaFromTime / CheckTimeValidity), and the
    chunk period seen from the advertised availabilityTimeOffset. *)
From Verif Require Import GoSem GoSemFacts Chunk ChunkProofs.
From Verif Require Timeline TimelineProofs.
From Coq Require Import ZifyBool.
Module T := Timeline.
Module TP := TimelineProofs.

(** *** The chunk period against segment duration - availabilityTimeOffset *)
Lemma chunkDur_le segDurMS atoMS ts :
  0 <= (segDurMS - atoMS) * ts -> chunkDurOf segDurMS atoMS ts * 1000 <= (segDurMS - atoMS) * ts.
Proof.
  intros H. unfold chunkDurOf. rewrite Z.quot_div_nonneg by lia.
  pose proof (Z.mul_div_le ((segDurMS - atoMS) * ts) 1000 ltac:(lia)). lia.
Qed.

Lemma chunkDur_pos_inv segDurMS atoMS ts :
  0 < chunkDurOf segDurMS atoMS ts -> 0 < (segDurMS - atoMS) * ts.
Proof.
  unfold chunkDurOf. intros H.
  destruct (Z_lt_le_dec 0 ((segDurMS - atoMS) * ts)) as [|Hle]; [assumption|].
  pose proof (Z.quot_opp_l ((segDurMS - atoMS) * ts) 1000 ltac:(lia)) as E.
  assert (0 <= Z.quot (- ((segDurMS - atoMS) * ts)) 1000) by (apply Z.quot_pos; lia). lia.
Qed.

(** No chunk spans (nor is paced with) more than segment duration - ato plus one longest sample,
    in exact arithmetic (ticks * 1000 against ms * timescale). *)
Lemma span_vs_offset fs st newTime newNr newDur segDurMS atoMS ts cs :
  let C := chunkDurOf segDurMS atoMS ts in
  0 < C < two63 -> wf_input fs newTime ->
  chunkSegment fs st newTime newNr newDur C = Ok cs ->
  Forall (fun c => chunk_span c * 1000 < (segDurMS - atoMS) * ts + max_dur fs * 1000 /\
                   c_dur c * 1000 <= (segDurMS - atoMS) * ts + max_dur fs * 1000) cs.
Proof.
  cbv zeta. intros HC Hwf H.
  pose proof (chunkSegment_span _ _ _ _ _ _ _ HC Hwf H) as Hs.
  pose proof (chunkDur_le segDurMS atoMS ts ltac:(pose proof (chunkDur_pos_inv segDurMS atoMS ts); lia)) as Hle.
  assert (HM : 0 <= max_dur fs) by (clear; induction fs; cbn; [lia|]; fold (max_dur fs); lia).
  eapply Forall_impl; [|exact Hs]. cbn beta. intros c (H1 & H2 & H3). split; [lia|].
  destruct H3 as [H3|[H3 _]]; lia.
Qed.

(** The first chunk's pacing instant (chunkAvailMS of the first loop iteration) is at most one
    longest sample after segment start + segment duration - ato: a request made at the advertised
    availability time waits for at most one sample before the first chunk is written. *)
Lemma first_chunk_paced fs st newTime newNr newDur segDurMS atoMS ts startTimeS segStartMS c0 rest :
  let C := chunkDurOf segDurMS atoMS ts in
  0 < C < two63 -> 0 < ts -> wf_input fs newTime ->
  chunkSegment fs st newTime newNr newDur C = Ok (c0 :: rest) ->
  (newTime + startTimeS * ts) * 1000 = segStartMS * ts ->     (* the segment starts on the millisecond grid *)
  0 <= segStartMS ->
  match avail_list ts (newTime + startTimeS * ts) (c0 :: rest) with
  | a0 :: _ => a0 <= segStartMS + (segDurMS - atoMS) + (max_dur fs * 1000) / ts
  | [] => False
  end.
Proof.
  cbv zeta. intros HC Hts Hwf H Hgrid Hs0.
  pose proof (span_vs_offset _ _ _ _ _ _ _ _ _ HC Hwf H) as Hs. apply Forall_cons_iff in Hs. destruct Hs as [[_ Hd] _].
  cbn [avail_list].
  assert (HM : 0 <= max_dur fs) by (clear; induction fs; cbn; [lia|]; fold (max_dur fs); lia).
  pose proof (chunkDur_pos_inv segDurMS atoMS ts ltac:(lia)) as Hp.
  assert (Hd0 : 0 <= c_dur c0).
  { pose proof (chunkSegment_span _ _ _ _ _ _ _ HC Hwf H) as Hs'. apply Forall_cons_iff in Hs'. destruct Hs' as [(A & _ & _) _].
    destruct Hwf as (Hd' & _). apply chunkSegment_ok in H.
    assert (0 <= chunk_span c0); [|lia].
    assert (G : forall fs cur styp nr this total dt, Forall (fun s => 0 <= s_dur s) fs -> Forall (fun s => 0 <= s_dur s) cur ->
              Forall (fun c => Forall (fun s => 0 <= s_dur s) (c_samples c)) (chunk_loop (chunkDurOf segDurMS atoMS ts) newNr fs cur styp nr this total dt)).
    { clear. induction fs as [|s r IH]; intros cur styp nr this total dt Hf Hc; cbn [chunk_loop].
      - destruct cur as [|x cur']; [constructor|constructor; [exact Hc|constructor]].
      - inversion Hf; subst.
        assert (Forall (fun s => 0 <= s_dur s) (cur ++ [set_dt s dt])) by (apply Forall_app; split; [assumption|repeat constructor; cbn; assumption]).
        destruct (total + s_dur s >=? chunkDurOf segDurMS atoMS ts * nr); [constructor; [assumption|]|]; apply IH; auto. }
    specialize (G fs [] st 1 0 0 newTime Hd' (Forall_nil _)). rewrite <- H in G.
    apply Forall_cons_iff in G. destruct G as [G _]. apply sum_durs_nonneg. exact G. }
  rewrite Z.quot_div_nonneg by nia.
  replace ((newTime + startTimeS * ts + c_dur c0) * 1000) with (segStartMS * ts + c_dur c0 * 1000) by lia.
  assert (E : (segStartMS * ts + c_dur c0 * 1000) / ts <= (segStartMS * ts + ((segDurMS - atoMS) * ts + max_dur fs * 1000)) / ts)
    by (apply Z.div_le_mono; lia).
  replace (segStartMS * ts + ((segDurMS - atoMS) * ts + max_dur fs * 1000))
    with (max_dur fs * 1000 + (segStartMS + (segDurMS - atoMS)) * ts) in E by lia.
  rewrite Z.div_add in E by lia. lia.
Qed.

(** *** Too early: a chunked request is refused exactly before the advertised availability time
    (availabilityStartTime + segment end - availabilityTimeOffset), by number and by time. *)
Lemma chunked_too_early_number r loopMS c n now atoMS :
  T.wf r loopMS -> 0 <= n -> 0 <= T.startNr c -> T.startNr c + n < two32 ->
  T.ato c = Some atoMS -> 0 < atoMS ->
  (TP.ophase (T.lookup r loopMS c T.ByNumber (T.startNr c + n) now) = 0 <->
   now * T.ts r < (T.E r n + T.startS c * T.ts r) * 1000 - atoMS * T.ts r).
Proof.
  intros W Hn Hs Hr Ha Hp. rewrite TP.lookup_phase by assumption. rewrite Ha.
  destruct (TP.checkTime_exact (T.E r n + T.startS c * T.ts r) (T.ts r) (T.tsbdS c) atoMS now (T.wf_ts _ _ W)) as (A & _).
  rewrite A. unfold TP.availNum. destruct (atoMS >? 0) eqn:E; [reflexivity|lia].
Qed.

Lemma chunked_too_early_time r loopMS c n now atoMS :
  T.wf r loopMS -> 0 <= n -> T.S r n < two64 ->
  T.ato c = Some atoMS -> 0 < atoMS ->
  (TP.ophase (T.lookup r loopMS c T.ByTime (T.S r n) now) = 0 <->
   now * T.ts r < (T.E r n + T.startS c * T.ts r) * 1000 - atoMS * T.ts r).
Proof.
  intros W Hn Ht Ha Hp. rewrite TP.lookup_time_phase by assumption. rewrite Ha.
  destruct (TP.checkTime_exact (T.E r n + T.startS c * T.ts r) (T.ts r) (T.tsbdS c) atoMS now (T.wf_ts _ _ W)) as (A & _).
  rewrite A. unfold TP.availNum. destruct (atoMS >? 0) eqn:E; [reflexivity|lia].
Qed.

(** *** Same media for the same URL and instant: when the lookup serves segment n, chunked mode
    (model of chunkSegment on the VoD segment's samples) and whole-segment mode (VoD fragments
    shifted to the looped time S n) give the same parsed samples, numbered startNr + n. *)
Lemma same_media_served r loopMS c n now m f0 frags st C cs :
  T.wf r loopMS -> 0 <= n -> 0 <= T.startNr c -> T.startNr c + n < two32 -> T.S r n < two64 ->
  T.lookup r loopMS c T.ByNumber (T.startNr c + n) now = T.TOk m ->
  frags_contiguous (f_tfdt f0) (f0 :: frags) ->
  wf_input (frag_samples (f0 :: frags)) (T.S r n) ->
  chunkSegment (frag_samples (f0 :: frags)) st (T.newTime m) (T.newNr m) (T.newDur m) C = Ok cs ->
  T.newTime m = T.S r n /\ T.newNr m = T.startNr c + n /\
  parse_body cs = whole_parse (T.S r n) (f0 :: frags) /\
  Forall (fun k => c_seq k = T.startNr c + n) cs /\ styp_first st cs.
Proof.
  intros W Hn Hs Hr Ht L Hfc Hwf H.
  rewrite TP.lookup_number in L by assumption.
  rewrite (TP.segMetaFromNr_spec r loopMS W) in L by assumption.
  assert (Em : m = TP.metaOf r c n (T.startNr c + n)).
  { destruct (T.checkTime (T.E r n + T.startS c * T.ts r) (T.ts r) now (T.tsbdS c) (T.ato c)); cbn in L; congruence. }
  assert (E1 : T.newTime m = T.S r n).
  { subst m. cbn. apply u64_small. pose proof (TP.S_nonneg r loopMS n W Hn). lia. }
  assert (E2 : T.newNr m = T.startNr c + n) by (subst m; reflexivity).
  split; [exact E1|]. split; [exact E2|].
  rewrite E1, E2 in H.
  destruct (same_media _ _ _ _ _ _ _ _ Hfc Hwf H) as (A & B & D).
  repeat split; assumption.
Qed.

(** *** The request guard of chunked mode (6ca1ef6): a request that passes it has a chunk duration
    >= 0 - never negative; it is positive as soon as the rounded offset leaves at least one tick. *)
Lemma guard_roundMilli a segDurMS :
  chunkGuardOK (Some a) segDurMS = true -> 0 <= roundMilli a <= segDurMS.
Proof.
  unfold chunkGuardOK, roundMilli. intros H. apply andb_prop in H. destruct H as [H1 H2].
  destruct (0 <=? a) eqn:E; [|lia]. split; [apply Z.div_pos; lia|].
  assert (a + 500 < (segDurMS + 1) * 1000) by lia.
  apply Z.lt_succ_r. apply Z.div_lt_upper_bound; lia.
Qed.

Lemma guard_chunkdur a segDurMS ts :
  chunkGuardOK (Some a) segDurMS = true -> 0 < ts ->
  0 <= chunkDurOf segDurMS (roundMilli a) ts /\
  (1000 <= (segDurMS - roundMilli a) * ts -> 0 < chunkDurOf segDurMS (roundMilli a) ts).
Proof.
  intros G Hts. destruct (guard_roundMilli a segDurMS G) as [R0 R1]. unfold chunkDurOf.
  assert (0 <= (segDurMS - roundMilli a) * ts) by nia. rewrite Z.quot_div_nonneg by lia.
  split; [apply Z.div_pos; lia|]. intros H1. apply Z.div_str_pos. lia.
Qed.

Lemma guard_refuses guarded segDurMS :
  chunkedRefused guarded None segDurMS = guarded /\
  (forall a, a < 0 \/ segDurMS * 1000 <= a -> chunkedRefused guarded (Some a) segDurMS = guarded) /\
  (forall a, 0 <= a < segDurMS * 1000 -> chunkedRefused guarded (Some a) segDurMS = false).
Proof.
  unfold chunkedRefused, chunkGuardOK. split; [destruct guarded; reflexivity|]. split; intros a H.
  - destruct guarded; [|reflexivity]. cbn [andb]. destruct (0 <=? a) eqn:E1; destruct (a <? segDurMS * 1000) eqn:E2; try reflexivity; lia.
  - destruct guarded; [|reflexivity]. cbn [andb]. destruct (0 <=? a) eqn:E1; destruct (a <? segDurMS * 1000) eqn:E2; try reflexivity; lia.
Qed.

(** With the rounded guard (f0e7b4c) every accepted chunked request leaves at least one
    millisecond of chunk duration: [SegmentDurMS - atoMS >= 1], hence at least [timescale/1000] ticks. *)
Lemma guard_rounded_chunkdur a segDurMS ts :
  chunkGuardRounded (Some a) segDurMS = true -> 0 < ts ->
  0 <= roundMilli a /\ 1 <= segDurMS - roundMilli a /\
  ts / 1000 <= chunkDurOf segDurMS (roundMilli a) ts /\
  (1000 <= ts -> 0 < chunkDurOf segDurMS (roundMilli a) ts).
Proof.
  unfold chunkGuardRounded. intros G Hts. apply andb_prop in G. destruct G as [G1 G2].
  assert (R0 : 0 <= roundMilli a).
  { unfold roundMilli. destruct (0 <=? a) eqn:E; [apply Z.div_pos; lia|lia]. }
  split; [exact R0|]. split; [lia|]. unfold chunkDurOf.
  assert (0 <= (segDurMS - roundMilli a) * ts) by nia. rewrite Z.quot_div_nonneg by lia.
  assert (M : ts / 1000 <= (segDurMS - roundMilli a) * ts / 1000) by (apply Z.div_le_mono; nia).
  split; [exact M|]. intros H1. assert (1 <= ts / 1000) by (apply Z.div_le_lower_bound; lia). lia.
Qed.

Lemma guard_rounded_refuses segDurMS :
  chunkGuardRounded None segDurMS = false /\
  (forall a, a < 0 -> chunkGuardRounded (Some a) segDurMS = false) /\
  (forall a, segDurMS * 1000 <= a -> chunkGuardRounded (Some a) segDurMS = false) /\
  (forall a, 0 <= a -> a + 500 < segDurMS * 1000 -> chunkGuardRounded (Some a) segDurMS = true).
Proof.
  unfold chunkGuardRounded, roundMilli. split; [reflexivity|]. split; [|split]; intros a H.
  - destruct (0 <=? a) eqn:E; [lia|reflexivity].
  - destruct (0 <=? a) eqn:E; [|reflexivity]. cbn [andb].
    assert (segDurMS <= (a + 500) / 1000) by (apply Z.div_le_lower_bound; lia).
    destruct ((a + 500) / 1000 <? segDurMS) eqn:E2; [lia|reflexivity].
  - intros H2. destruct (0 <=? a) eqn:E; [|lia]. cbn [andb].
    assert ((a + 500) / 1000 < segDurMS) by (apply Z.div_lt_upper_bound; lia).
    destruct ((a + 500) / 1000 <? segDurMS) eqn:E2; [reflexivity|lia].
Qed.
