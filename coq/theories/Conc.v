(** Generic concurrency results (DESIGN.md 4.3).

    Part A  a monitor object (every operation runs inside one critical section of one mutex):
            every schedule of any number of threads computes what the sequential execution of
            some interleaving of the threads' operation lists computes ([atomic_linearizable]).
    Part B  access tables as produced by the [accessgen] translator (gen/Access.v), the
            decision [race_pairs], and [lockset_race_free]: if [race_pairs A = []] then in every
            schedule any two conflicting accesses are ordered by happens-before. *)
From Verif Require Import GoSem.
From Coq Require Import Permutation.

(* ------------------------------------------------------------------------------------------ *)
(** * Part A: monitor objects *)

Fixpoint set_nth {A} (n : nat) (x : A) (l : list A) : list A :=
  match l, n with
  | [], _ => []
  | _ :: t, O => x :: t
  | y :: t, S k => y :: set_nth k x t
  end.

Lemma set_nth_length {A} n (x : A) l : length (set_nth n x l) = length l.
Proof. revert n; induction l; destruct n; cbn; auto. Qed.

Lemma nth_error_set_nth_same {A} n (x : A) l : (n < length l)%nat -> nth_error (set_nth n x l) n = Some x.
Proof. revert n; induction l; destruct n; cbn; intros; try lia; auto. apply IHl; lia. Qed.

Lemma nth_error_set_nth_other {A} n m (x : A) l : n <> m -> nth_error (set_nth n x l) m = nth_error l m.
Proof. revert n m; induction l; destruct n, m; cbn; intros; try congruence; auto. Qed.

(** Projection of a tagged history onto one thread. *)
Definition proj {X} (t : nat) (h : list (nat * X)) : list X :=
  map snd (filter (fun e => Nat.eqb (fst e) t) h).

Lemma proj_app {X} t (a b : list (nat * X)) : proj t (a ++ b) = proj t a ++ proj t b.
Proof. unfold proj. rewrite filter_app, map_app. reflexivity. Qed.

Lemma proj_one_same {X} t (x : X) : proj t [(t, x)] = [x].
Proof. unfold proj; cbn. rewrite Nat.eqb_refl. reflexivity. Qed.

Lemma proj_one_other {X} t t' (x : X) : t' <> t -> proj t [(t', x)] = [].
Proof. intros N. unfold proj; cbn. destruct (Nat.eqb t' t) eqn:E; auto. apply Nat.eqb_eq in E; congruence. Qed.

Section Monitor.
  Variables st op ret loc : Type.
  (** An operation is a sequence of micro-steps on (local registers, object state); the
      machine below interleaves threads at micro-step granularity. *)
  Definition micro := (loc * st -> loc * st)%type.
  Variable loc0 : op -> loc.
  Variable body : op -> list micro.
  Variable result : op -> loc -> ret.

  Definition run_micros (ms : list micro) (x : loc * st) : loc * st := fold_left (fun x m => m x) ms x.

  Lemma run_micros_app a b x : run_micros (a ++ b) x = run_micros b (run_micros a x).
  Proof. unfold run_micros. apply fold_left_app. Qed.

  (** Sequential meaning of one operation and of a history. *)
  Definition apply (o : op) (s : st) : st * ret :=
    let '(l, s') := run_micros (body o) (loc0 o, s) in (s', result o l).

  Fixpoint seq_run (s : st) (h : list (nat * op)) : st * list (nat * ret) :=
    match h with
    | [] => (s, [])
    | (t, o) :: r => let '(s1, x) := apply o s in
                     let '(s2, rs) := seq_run s1 r in (s2, (t, x) :: rs)
    end.

  Lemma seq_run_app s h t o :
    seq_run s (h ++ [(t, o)]) =
    let '(s1, rs) := seq_run s h in let '(s2, x) := apply o s1 in (s2, rs ++ [(t, x)]).
  Proof.
    revert s; induction h as [|[t' o'] r IH]; intros s; cbn.
    - destruct (apply o s); reflexivity.
    - destruct (apply o' s) as [s1 x]. rewrite IH. destruct (seq_run s1 r) as [s2 rs].
      destruct (apply o s2); reflexivity.
  Qed.

  (** ** The concurrent machine *)
  Inductive phase :=
  | Idle
  | Ready (o : op)                              (* next operation chosen, lock not yet held *)
  | InCS (o : op) (ms : list micro) (l : loc).  (* holds the mutex, [ms] still to run *)

  Record thread := mkT { todo : list op; ph : phase; rets : list ret }.
  Record config := mkC { threads : list thread; owner : option nat; obj : st }.

  Definition init (progs : list (list op)) (s0 : st) : config :=
    mkC (map (fun p => mkT p Idle []) progs) None s0.

  (** One step of thread [t]. A thread that cannot move (finished, or waiting for the mutex)
      stutters, so every list of thread ids is a schedule. *)
  Definition step (c : config) (t : nat) : config :=
    match nth_error (threads c) t with
    | None => c
    | Some th =>
        match ph th with
        | Idle =>
            match todo th with
            | [] => c
            | o :: rest => mkC (set_nth t (mkT rest (Ready o) (rets th)) (threads c)) (owner c) (obj c)
            end
        | Ready o =>
            match owner c with
            | Some _ => c
            | None => mkC (set_nth t (mkT (todo th) (InCS o (body o) (loc0 o)) (rets th)) (threads c)) (Some t) (obj c)
            end
        | InCS o [] l =>
            mkC (set_nth t (mkT (todo th) Idle (rets th ++ [result o l])) (threads c)) None (obj c)
        | InCS o (m :: ms) l =>
            let '(l', s') := m (l, obj c) in
            mkC (set_nth t (mkT (todo th) (InCS o ms l') (rets th)) (threads c)) (owner c) s'
        end
    end.

  Definition exec (c : config) (sched : list nat) : config := fold_left step sched c.

  Definition finished (c : config) : Prop :=
    forall th, In th (threads c) -> todo th = [] /\ ph th = Idle.

  (** [h] is an interleaving (shuffle) of the threads' operation lists. *)
  Definition interleaving (progs : list (list op)) (h : list (nat * op)) : Prop :=
    (forall e, In e h -> (fst e < length progs)%nat) /\
    forall t, (t < length progs)%nat -> proj t h = nth t progs [].

  Definition cur (th : thread) : list op :=
    match ph th with Idle => [] | Ready o => [o] | InCS o _ _ => [o] end.

  (** The invariant: the operations completed so far, in order of their release, form a
      history [h] whose sequential execution gives the results handed out and the object state
      (up to the micro-steps of the one operation that is inside the critical section). *)
  Definition thread_ok (progs : list (list op)) (s0 : st) (h : list (nat * op)) (ow : option nat) (ob : st)
             (t : nat) (th : thread) : Prop :=
    proj t h ++ cur th ++ todo th = nth t progs [] /\
    rets th = proj t (snd (seq_run s0 h)) /\
    match ph th with
    | InCS o ms l => ow = Some t /\ exists pre, body o = pre ++ ms /\
                                              run_micros pre (loc0 o, fst (seq_run s0 h)) = (l, ob)
    | _ => ow <> Some t
    end.

  Definition inv (progs : list (list op)) (s0 : st) (c : config) : Prop :=
    exists h,
      length (threads c) = length progs /\
      (forall e, In e h -> (fst e < length progs)%nat) /\
      (forall t th, nth_error (threads c) t = Some th -> thread_ok progs s0 h (owner c) (obj c) t th) /\
      (owner c = None -> obj c = fst (seq_run s0 h)) /\
      (forall t, owner c = Some t -> exists th, nth_error (threads c) t = Some th).

  Lemma inv_init progs s0 : inv progs s0 (init progs s0).
  Proof.
    exists []. cbn [init threads owner obj]. split; [apply map_length|]. split; [intros e []|].
    split; [|split; [reflexivity|intros t H; discriminate]].
    intros t th H. rewrite nth_error_map in H. destruct (nth_error progs t) eqn:E; inversion H; subst.
    unfold thread_ok, cur; cbn. split; [symmetry; apply nth_error_nth; auto|]. split; [auto|discriminate].
  Qed.

  Ltac upd_cases t H :=
    match type of H with
    | nth_error (set_nth _ _ _) ?t0 = Some ?th0 =>
        destruct (Nat.eq_dec t t0) as [<-|N];
        [rewrite nth_error_set_nth_same in H by auto; inversion H; subst th0; clear H
        |rewrite nth_error_set_nth_other in H by auto]
    end.

  Lemma inv_step progs s0 c t : inv progs s0 c -> inv progs s0 (step c t).
  Proof.
    intros (h & L & HB & TH & OW & OT). unfold step.
    destruct (nth_error (threads c) t) as [th|] eqn:Et; [|exists h; auto].
    assert (Lt : (t < length (threads c))%nat) by (apply nth_error_Some; congruence).
    destruct (TH t th Et) as (P & R & PH).
    assert (OTsame : forall x ow', (forall t0, ow' = Some t0 -> owner c = Some t0 \/ t0 = t) ->
               forall t0, ow' = Some t0 -> exists th0, nth_error (set_nth t x (threads c)) t0 = Some th0).
    { intros x ow' Hw t0 H0. destruct (Nat.eq_dec t t0) as [<-|N].
      - rewrite nth_error_set_nth_same by auto. eauto.
      - rewrite nth_error_set_nth_other by auto. destruct (Hw t0 H0) as [X|X]; [apply OT; auto|congruence]. }
    destruct (ph th) as [|o|o ms l] eqn:Eph.
    - (* Idle: choose the next operation *)
      destruct (todo th) as [|o rest] eqn:Etodo; [exists h; auto|].
      exists h. cbn [threads owner obj]. rewrite set_nth_length.
      split; [auto|]. split; [auto|]. split; [|split; [auto|apply OTsame; auto]].
      intros t0 th0 H. upd_cases t H.
      + unfold thread_ok, cur in *; cbn. rewrite Eph in P; cbn in P. auto.
      + apply TH; auto.
    - (* Ready: acquire if free *)
      destruct (owner c) as [w|] eqn:Eow; [exists h; rewrite Eow; auto|].
      exists h. cbn [threads owner obj]. rewrite set_nth_length.
      split; [auto|]. split; [auto|]. split; [|split; [intros X; discriminate|]].
      + intros t0 th0 H. upd_cases t H.
        * unfold thread_ok, cur in *; cbn. rewrite Eph in P; cbn in P.
          split; [auto|]. split; [auto|]. split; [auto|]. exists []. split; [auto|]. cbn. rewrite OW; auto.
        * destruct (TH t0 th0 H) as (P0 & R0 & PH0). unfold thread_ok. split; [auto|]. split; [auto|].
          destruct (ph th0); try (intros X; inversion X; congruence).
          destruct PH0 as [X _]. discriminate.
      + apply OTsame. intros t0 H; inversion H; auto.
    - (* inside the critical section *)
      destruct PH as (OWt & pre & Bd & RM).
      assert (OTH : forall t0 th0, t <> t0 -> nth_error (threads c) t0 = Some th0 ->
                     match ph th0 with InCS _ _ _ => False | _ => True end).
      { intros t0 th0 N H. destruct (TH t0 th0 H) as (_ & _ & PH0).
        destruct (ph th0); auto. destruct PH0 as [X _]. congruence. }
      destruct ms as [|m ms].
      + (* release: the operation is appended to the history *)
        exists (h ++ [(t, o)]).
        rewrite app_nil_r in Bd.
        assert (SR : seq_run s0 (h ++ [(t, o)]) =
                     (obj c, snd (seq_run s0 h) ++ [(t, result o l)])).
        { rewrite seq_run_app. destruct (seq_run s0 h) as [sd rs]. cbn [fst snd] in *.
          unfold apply. rewrite Bd, RM. reflexivity. }
        cbn [threads owner obj]. rewrite set_nth_length.
        split; [auto|]. split; [|split; [|split; [intros _; rewrite SR; reflexivity|intros t0 X; discriminate]]].
        * intros e H. apply in_app_or in H. destruct H as [H|[<-|[]]]; auto.
          cbn. rewrite <- L. exact Lt.
        * intros t0 th0 H. unfold thread_ok. rewrite SR. cbn [fst snd]. upd_cases t H.
          -- cbn. rewrite !proj_app, !proj_one_same. unfold cur in P; rewrite Eph in P; cbn in P.
             rewrite <- app_assoc. split; [exact P|]. split; [rewrite R; reflexivity|discriminate].
          -- rewrite !proj_app, !proj_one_other, !app_nil_r by auto.
             destruct (TH t0 th0 H) as (P0 & R0 & PH0). split; [auto|]. split; [auto|].
             pose proof (OTH t0 th0 N H). destruct (ph th0); try discriminate. contradiction.
      + (* one micro-step *)
        destruct (m (l, obj c)) as [l' s'] eqn:Em.
        exists h. cbn [threads owner obj]. rewrite set_nth_length.
        split; [auto|]. split; [auto|]. split; [|split; [intros X; congruence|apply OTsame; auto]].
        intros t0 th0 H. upd_cases t H.
        * unfold thread_ok, cur in *; cbn. rewrite Eph in P; cbn in P.
          split; [auto|]. split; [auto|]. split; [auto|]. exists (pre ++ [m]). split.
          -- rewrite <- app_assoc. exact Bd.
          -- rewrite run_micros_app, RM. cbn. exact Em.
        * destruct (TH t0 th0 H) as (P0 & R0 & PH0). unfold thread_ok. split; [auto|]. split; [auto|].
          pose proof (OTH t0 th0 N H). destruct (ph th0); auto. contradiction.
  Qed.

  Lemma inv_exec progs s0 sched : forall c, inv progs s0 c -> inv progs s0 (exec c sched).
  Proof. induction sched as [|t r IH]; intros c H; cbn; auto. apply IH, inv_step, H. Qed.

  (** Mutual exclusion is a consequence: at most one thread is inside its critical section. *)
  Theorem mutual_exclusion : forall progs s0 sched t1 t2 th1 th2 o1 ms1 l1 o2 ms2 l2,
    let c := exec (init progs s0) sched in
    nth_error (threads c) t1 = Some th1 -> nth_error (threads c) t2 = Some th2 ->
    ph th1 = InCS o1 ms1 l1 -> ph th2 = InCS o2 ms2 l2 -> t1 = t2.
  Proof.
    intros. destruct (inv_exec progs s0 sched _ (inv_init progs s0)) as (h & _ & _ & TH & _).
    fold c in TH.
    destruct (TH _ _ H) as (_ & _ & P1). destruct (TH _ _ H0) as (_ & _ & P2).
    rewrite H1 in P1. rewrite H2 in P2. destruct P1 as [X1 _]. destruct P2 as [X2 _]. congruence.
  Qed.

  (** Every schedule (any number of threads, any interleaving of micro-steps, lock waits and
      thread-local steps) that runs all programs to completion computes what the sequential
      execution of some interleaving [h] of the programs computes: the same final object state
      and, for every thread, the same list of results. *)
  Theorem atomic_linearizable : forall progs s0 sched,
    let c := exec (init progs s0) sched in
    finished c ->
    exists h, interleaving progs h /\
              obj c = fst (seq_run s0 h) /\
              forall t th, nth_error (threads c) t = Some th -> rets th = proj t (snd (seq_run s0 h)).
  Proof.
    intros progs s0 sched c F.
    destruct (inv_exec progs s0 sched _ (inv_init progs s0)) as (h & L & HB & TH & OW & OT).
    fold c in L, TH, OW, OT.
    exists h. split; [split; auto|split].
    - intros t Lt. rewrite <- L in Lt. destruct (nth_error (threads c) t) as [th|] eqn:E.
      + destruct (TH t th E) as (P & _). destruct (F th (nth_error_In _ _ E)) as [T I].
        unfold cur in P. rewrite I, T in P. cbn in P. rewrite app_nil_r in P. exact P.
      + apply nth_error_None in E. lia.
    - apply OW. destruct (owner c) as [t|] eqn:E; auto.
      destruct (OT t eq_refl) as [th Eth]. destruct (TH t th Eth) as (_ & _ & PH).
      destruct (F th (nth_error_In _ _ Eth)) as [_ I]. rewrite I in PH. congruence.
    - intros t th E. apply (TH t th E).
  Qed.

  (** The same for executions that are still running: the completed operations form a
      prefix-interleaving, and their results are the sequential ones. *)
  Theorem atomic_linearizable_prefix : forall progs s0 sched,
    let c := exec (init progs s0) sched in
    exists h, (forall t th, nth_error (threads c) t = Some th ->
                 exists rest, proj t h ++ rest = nth t progs [] /\ rets th = proj t (snd (seq_run s0 h))) /\
              (owner c = None -> obj c = fst (seq_run s0 h)).
  Proof.
    intros progs s0 sched c.
    destruct (inv_exec progs s0 sched _ (inv_init progs s0)) as (h & L & HB & TH & OW & OT).
    fold c in L, TH, OW, OT. exists h. split; auto.
    intros t th E. destruct (TH t th E) as (P & R & _). eauto.
  Qed.

  (** The multiset of all results handed to the threads is the multiset of results of the
      sequential history. *)
  Lemma concat_proj_perm {X} : forall (rs : list (nat * X)) n,
    (forall e, In e rs -> (fst e < n)%nat) ->
    Permutation (concat (map (fun t => proj t rs) (seq 0 n))) (map snd rs).
  Proof.
    induction rs as [|[t x] r IH]; intros n B.
    - cbn. induction (seq 0 n); cbn; auto.
    - assert (Lt : (t < n)%nat) by (apply (B (t, x)); left; auto).
      specialize (IH n (fun e H => B e (or_intror H))).
      cbn [map snd]. rewrite <- IH. clear IH B.
      assert (G : forall ts, NoDup ts -> In t ts ->
                  Permutation (concat (map (fun t0 => proj t0 ((t, x) :: r)) ts))
                              (x :: concat (map (fun t0 => proj t0 r) ts))).
      { induction ts as [|a ts IHt]; intros ND I; [destruct I|].
        inversion ND; subst. cbn [map concat]. destruct (Nat.eq_dec a t) as [->|N].
        - unfold proj at 1. cbn [filter fst]. rewrite Nat.eqb_refl. cbn [map snd].
          fold (proj t r). apply perm_skip. apply Permutation_app_head.
          assert (E : map (fun t0 => proj t0 ((t, x) :: r)) ts = map (fun t0 => proj t0 r) ts).
          { apply map_ext_in. intros b Hb. unfold proj; cbn [filter fst].
            destruct (Nat.eqb t b) eqn:Eb; auto. apply Nat.eqb_eq in Eb; subst; contradiction. }
          rewrite E. auto.
        - destruct I as [->|I]; [congruence|].
          unfold proj at 1. cbn [filter fst].
          destruct (Nat.eqb t a) eqn:Ea; [apply Nat.eqb_eq in Ea; congruence|].
          fold (proj a r). rewrite (IHt H2 I). apply Permutation_sym, Permutation_middle. }
      apply G; [apply seq_NoDup|apply in_seq; lia].
  Qed.
End Monitor.

(* ------------------------------------------------------------------------------------------ *)
(** * Part B: access tables, lock sets, race freedom *)

(** Which kind of goroutine performs an access (computed by accessgen from the call graph):
    [RInit]    reachable only from constructors / SetupServer, i.e. before any other goroutine
               of the server exists (ordered before everything else by the go statement / the
               start of the HTTP server);
    [RHandler] reachable from an HTTP handler: arbitrarily many concurrent instances;
    [RChan]    reachable from a per-object goroutine of the ingest receiver (channel.run …);
    [RIngest]  reachable from a CMAF-ingest session goroutine (cmafIngester.start). *)
Inductive role := RInit | RHandler | RChan | RIngest.

(** One static field access. [a_locks]: mutex fields of the same struct held at the access,
    written ["L:name"] (Lock, exclusive) or ["R:name"] (RLock, shared). *)
Record access := mkAccess {
  a_field : string;
  a_func : string;
  a_write : bool;
  a_role : role;
  a_locks : list string
}.

Definition role_eqb (a b : role) : bool :=
  match a, b with
  | RInit, RInit | RHandler, RHandler | RChan, RChan | RIngest, RIngest => true
  | _, _ => false
  end.

Lemma role_eqb_eq a b : role_eqb a b = true <-> a = b.
Proof. destruct a, b; cbn; split; congruence. Qed.

Definition lock_shared (s : string) : bool := String.prefix "R:" s.
Definition lock_name (s : string) : string := String.substring 2 (String.length s - 2) s.

(** Roles of which several goroutines may exist at the same time. The default is the most
    conservative choice: every role except init. *)
Definition multi_all (r : role) : bool := match r with RInit => false | _ => true end.
(** One goroutine per object for the channel / ingest-session roles (use only for structs that
    belong to exactly one such goroutine). *)
Definition multi_handler (r : role) : bool := match r with RHandler => true | _ => false end.

Definition conflict (a b : access) : bool :=
  String.eqb (a_field a) (a_field b) && (a_write a || a_write b).

Definition may_concurrent (multi : role -> bool) (a b : access) : bool :=
  match a_role a, a_role b with
  | RInit, _ | _, RInit => false
  | ra, rb => negb (role_eqb ra rb) || multi ra
  end.

(** A mutex that both hold, at least one of them exclusively. *)
Definition protected (a b : access) : bool :=
  existsb (fun la => existsb (fun lb =>
      String.eqb (lock_name la) (lock_name lb) && (negb (lock_shared la) || negb (lock_shared lb)))
    (a_locks b)) (a_locks a).

Definition races (multi : role -> bool) (a b : access) : bool :=
  conflict a b && may_concurrent multi a b && negb (protected a b).

(** All unordered pairs (including an access with itself) that may race. *)
Fixpoint race_pairs_gen (multi : role -> bool) (A : list access) : list (access * access) :=
  match A with
  | [] => []
  | a :: t => (if races multi a a then [(a, a)] else []) ++
              map (fun b => (a, b)) (filter (races multi a) t) ++
              race_pairs_gen multi t
  end.

Definition race_pairs : list access -> list (access * access) := race_pairs_gen multi_all.

(** Writes performed by request handlers (C07: handlers must not write shared state). *)
Definition handler_writes (A : list access) : list access :=
  filter (fun a => a_write a && role_eqb (a_role a) RHandler) A.

(** Compact keys for stating known lists in props/*.v. *)
Definition role_str (r : role) : string :=
  match r with RInit => "init" | RHandler => "handler" | RChan => "chan" | RIngest => "ingest" end.
Definition acc_key (a : access) : string :=
  a_func a ++ (if a_write a then ":W:" else ":R:") ++ role_str (a_role a) ++ ":[" ++ String.concat "," (a_locks a) ++ "]".
Definition pair_key (p : access * access) : string * string * string :=
  (a_field (fst p), acc_key (fst p), acc_key (snd p)).
Definition write_key (a : access) : string * string := (a_field a, acc_key a).

(** ** Symmetry and the meaning of [race_pairs A = []] *)

Lemma existsb_swap {X Y} (f : X -> Y -> bool) (l1 : list X) (l2 : list Y) :
  existsb (fun x => existsb (fun y => f x y) l2) l1 = existsb (fun y => existsb (fun x => f x y) l1) l2.
Proof.
  apply Bool.eq_iff_eq_true. rewrite !existsb_exists. split.
  - intros (x & Hx & H). apply existsb_exists in H. destruct H as (y & Hy & H).
    exists y. split; auto. apply existsb_exists. eauto.
  - intros (y & Hy & H). apply existsb_exists in H. destruct H as (x & Hx & H).
    exists x. split; auto. apply existsb_exists. eauto.
Qed.

Lemma existsb_ext' {X} (f g : X -> bool) l : (forall x, f x = g x) -> existsb f l = existsb g l.
Proof. intros E; induction l; cbn; auto. rewrite E, IHl; auto. Qed.

Lemma protected_sym a b : protected a b = protected b a.
Proof.
  unfold protected. rewrite existsb_swap. apply existsb_ext'. intros x. apply existsb_ext'. intros y.
  rewrite String.eqb_sym. f_equal. apply Bool.orb_comm.
Qed.

Lemma may_concurrent_sym multi a b : may_concurrent multi a b = may_concurrent multi b a.
Proof. unfold may_concurrent. destruct (a_role a), (a_role b); cbn; auto. Qed.

Lemma races_sym multi a b : races multi a b = races multi b a.
Proof.
  unfold races, conflict. rewrite String.eqb_sym, (Bool.orb_comm (a_write a)),
    (may_concurrent_sym multi a b), (protected_sym a b). reflexivity.
Qed.

Lemma race_pairs_nil multi A :
  race_pairs_gen multi A = [] -> forall a b, In a A -> In b A -> races multi a b = false.
Proof.
  induction A as [|x t IH]; intros E a b Ha Hb; [destruct Ha|].
  cbn in E. apply app_eq_nil in E. destruct E as [E1 E2].
  apply app_eq_nil in E2. destruct E2 as [E2 E3].
  assert (Hx : races multi x x = false) by (destruct (races multi x x); auto; discriminate).
  assert (Ht : forall y, In y t -> races multi x y = false).
  { intros y Hy. destruct (races multi x y) eqn:R; auto.
    assert (In y (filter (races multi x) t)) by (apply filter_In; auto).
    apply map_eq_nil in E2. rewrite E2 in H. destruct H. }
  destruct Ha as [<-|Ha], Hb as [<-|Hb]; auto.
  rewrite races_sym; auto.
Qed.

(** ** The machine: goroutines, mutexes, accesses *)

(** A goroutine is identified by its role and an instance number. *)
Definition tid := (role * nat)%type.
Inductive lmode := Excl | Shared.

Inductive event :=
| EAcq (t : tid) (l : string) (m : lmode)    (* return from l.Lock() / l.RLock() *)
| ERel (t : tid) (l : string) (m : lmode)    (* call of l.Unlock() / l.RUnlock() *)
| EAcc (t : tid) (a : access).               (* the memory access itself *)

Definition ev_tid (e : event) : tid :=
  match e with EAcq t _ _ => t | ERel t _ _ => t | EAcc t _ => t end.

Definition lock_mode (s : string) : lmode := if lock_shared s then Shared else Excl.

Record mstate := mkM { held : list (tid * string * lmode); serving : bool }.

Definition mstate0 : mstate := mkM [] false.

Section Lockset.
  Variable multi : role -> bool.
  Variable A : list access.

  (** Single-instance roles have one goroutine (instance 0); init always has one. *)
  Definition tid_ok (t : tid) : Prop :=
    match fst t with RInit => snd t = O | r => multi r = true \/ snd t = O end.

  (** Init runs before the server serves: no init event after the first non-init event. *)
  Definition phase_ok (srv : bool) (t : tid) : Prop := fst t = RInit -> srv = false.
  Definition next_serving (srv : bool) (t : tid) : bool := srv || negb (role_eqb (fst t) RInit).

  Inductive mstep : mstate -> event -> mstate -> Prop :=
  | ms_acq s t l m :
      tid_ok t -> phase_ok (serving s) t ->
      (* mutex semantics: nobody else holds l, unless all holders and the newcomer are readers;
         a goroutine does not re-acquire a mutex it holds (that deadlocks in Go) *)
      (forall t' m', In (t', l, m') (held s) -> t' <> t /\ m = Shared /\ m' = Shared) ->
      mstep s (EAcq t l m) (mkM ((t, l, m) :: held s) (next_serving (serving s) t))
  | ms_rel s t l m h1 h2 :
      tid_ok t -> phase_ok (serving s) t ->
      held s = h1 ++ (t, l, m) :: h2 ->
      mstep s (ERel t l m) (mkM (h1 ++ h2) (next_serving (serving s) t))
  | ms_acc s t a :
      tid_ok t -> phase_ok (serving s) t ->
      (* the discipline stated by the table: the access is one of the table, performed by a
         goroutine of its role, holding the locks the table lists *)
      In a A -> fst t = a_role a ->
      (forall lk, In lk (a_locks a) -> In (t, lock_name lk, lock_mode lk) (held s)) ->
      mstep s (EAcc t a) (mkM (held s) (next_serving (serving s) t)).

  Inductive mrun : mstate -> list event -> mstate -> Prop :=
  | mrun_nil s : mrun s [] s
  | mrun_cons s e s1 tr s2 : mstep s e s1 -> mrun s1 tr s2 -> mrun s (e :: tr) s2.

  Definition valid (tr : list event) : Prop := exists s, mrun mstate0 tr s.

  Lemma mrun_app_inv tr1 : forall s tr2 s2,
    mrun s (tr1 ++ tr2) s2 -> exists s1, mrun s tr1 s1 /\ mrun s1 tr2 s2.
  Proof.
    induction tr1 as [|e r IH]; intros s tr2 s2 H; cbn in *.
    - exists s. split; [constructor|auto].
    - inversion H; subst. destruct (IH _ _ _ H5) as (sm & R1 & R2).
      exists sm. split; auto. econstructor; eauto.
  Qed.

  (** Happens-before on the positions of a trace (Go memory model): program order, mutex
      release -> later acquire of the same mutex unless both are read locks, and everything
      done by the init goroutine -> everything done by the goroutines started afterwards. *)
  Definition at_pos (tr : list event) (i : nat) (e : event) : Prop := nth_error tr i = Some e.

  Inductive hb (tr : list event) : nat -> nat -> Prop :=
  | hb_po i j e1 e2 : (i < j)%nat -> at_pos tr i e1 -> at_pos tr j e2 -> ev_tid e1 = ev_tid e2 -> hb tr i j
  | hb_lock i j t1 t2 l m1 m2 : (i < j)%nat -> at_pos tr i (ERel t1 l m1) -> at_pos tr j (EAcq t2 l m2) ->
      (m1 = Excl \/ m2 = Excl) -> hb tr i j
  | hb_start i j e1 e2 : (i < j)%nat -> at_pos tr i e1 -> at_pos tr j e2 ->
      fst (ev_tid e1) = RInit -> fst (ev_tid e2) <> RInit -> hb tr i j
  | hb_trans i j k : hb tr i j -> hb tr j k -> hb tr i k.

  Lemma at_pos_intro tr a x b i : tr = a ++ x :: b -> i = length a -> at_pos tr i x.
  Proof. intros -> ->. unfold at_pos. rewrite nth_error_app2 by lia. rewrite Nat.sub_diag. reflexivity. Qed.

  (** Invariant of the lock table: two holders of one mutex are distinct readers. *)
  Definition compat (h : list (tid * string * lmode)) : Prop :=
    forall t1 m1 t2 m2 l, In (t1, l, m1) h -> In (t2, l, m2) h -> t1 <> t2 -> m1 = Shared /\ m2 = Shared.

  Lemma mstep_compat s e s1 : mstep s e s1 -> compat (held s) -> compat (held s1).
  Proof.
    intros St C. inversion St as [? t l m TO PO MX|? t l m h1 h2 TO PO HE|? t a TO PO IA RO LK]; subst; cbn [held]; auto.
    - intros t1 m1 t2 m2 l0 I1 I2 N. destruct I1 as [E1|I1], I2 as [E2|I2].
      + inversion E1; inversion E2; subst. congruence.
      + inversion E1; subst. destruct (MX _ _ I2) as (_ & ? & ?). auto.
      + inversion E2; subst. destruct (MX _ _ I1) as (_ & ? & ?). auto.
      + eapply C; eauto.
    - intros t1 m1 t2 m2 l0 I1 I2 N. rewrite HE in C.
      assert (forall x, In x (h1 ++ h2) -> In x (h1 ++ (t, l, m) :: h2)).
      { intros x I. apply in_app_or in I. apply in_or_app. destruct I; auto. right; right; auto. }
      eapply C; eauto.
  Qed.

  Lemma mrun_compat s tr s1 : mrun s tr s1 -> compat (held s) -> compat (held s1).
  Proof. induction 1; auto. intros. apply IHmrun. eapply mstep_compat; eauto. Qed.

  Lemma mrun_serving s tr s1 : mrun s tr s1 -> serving s = true -> serving s1 = true.
  Proof.
    induction 1; auto. intros S. apply IHmrun.
    inversion H; subst; cbn; unfold next_serving; rewrite S; reflexivity.
  Qed.

  Lemma hentry_dec (x y : tid * string * lmode) : {x = y} + {x <> y}.
  Proof. repeat decide equality. Qed.

  (** An entry that appears was acquired. *)
  Lemma appears s tr s1 t l m :
    mrun s tr s1 -> ~ In (t, l, m) (held s) -> In (t, l, m) (held s1) ->
    exists m1 m2 sq sq', tr = m1 ++ EAcq t l m :: m2 /\ mrun s m1 sq /\ mstep sq (EAcq t l m) sq'.
  Proof.
    induction 1 as [s|s e sa tr sb St R IH]; intros N I; [contradiction|].
    destruct (in_dec hentry_dec (t, l, m) (held sa)) as [Ia|Na].
    - (* the first step added it *)
      inversion St; subst; cbn [held] in *.
      + destruct Ia as [E|Ia]; [|contradiction]. inversion E; subst.
        exists [], tr, s, (mkM ((t, l, m) :: held s) (next_serving (serving s) t)).
        split; [reflexivity|]. split; [constructor|auto].
      + exfalso. apply N. rewrite H1. apply in_app_or in Ia. apply in_or_app.
        destruct Ia; auto. right; right; auto.
      + contradiction.
    - destruct (IH Na I) as (m1 & m2 & sq & sq' & -> & R1 & S1).
      exists (e :: m1), m2, sq, sq'. split; [reflexivity|]. split; [econstructor; eauto|auto].
  Qed.

  (** An entry that disappears was released. *)
  Lemma disappears s tr s1 t l m :
    mrun s tr s1 -> In (t, l, m) (held s) -> ~ In (t, l, m) (held s1) ->
    exists r1 r2, tr = r1 ++ ERel t l m :: r2.
  Proof.
    induction 1 as [s|s e sa tr sb St R IH]; intros I N; [contradiction|].
    destruct (in_dec hentry_dec (t, l, m) (held sa)) as [Ia|Na].
    - destruct (IH Ia N) as (r1 & r2 & ->). exists (e :: r1), r2. reflexivity.
    - inversion St; subst; cbn [held] in *.
      + exfalso. apply Na. right; auto.
      + rewrite H1 in I. apply in_app_or in I. destruct I as [I|[E|I]].
        * exfalso. apply Na, in_or_app; auto.
        * inversion E; subst. exists [], tr. reflexivity.
        * exfalso. apply Na, in_or_app; auto.
      + contradiction.
  Qed.

  Lemma compat0 : compat (held mstate0).
  Proof. intros t1 m1 t2 m2 l []. Qed.

  (** Two goroutines hold the same mutex, one of them exclusively, at two accesses: the first
      one's release precedes the second one's acquire, which orders the accesses. *)
  Lemma lock_orders pre mid post t1 a1 t2 a2 l m1 m2 s s1 sj sf :
    let tr := pre ++ EAcc t1 a1 :: mid ++ EAcc t2 a2 :: post in
    compat (held s) ->
    mstep s (EAcc t1 a1) s1 -> mrun s1 mid sj -> mstep sj (EAcc t2 a2) sf ->
    In (t1, l, m1) (held s) -> In (t2, l, m2) (held sj) ->
    t1 <> t2 -> (m1 = Excl \/ m2 = Excl) ->
    hb tr (length pre) (length pre + 1 + length mid).
  Proof.
    intros tr C S1 R S2 I1 I2 N X.
    assert (Hs1 : held s1 = held s) by (inversion S1; reflexivity).
    assert (N2 : ~ In (t2, l, m2) (held s1)).
    { rewrite Hs1. intros I. destruct (C _ _ _ _ _ I1 I N) as [-> ->]. destruct X; discriminate. }
    destruct (appears _ _ _ _ _ _ R N2 I2) as (q1 & q2 & sq & sq' & Emid & Rq & Sq).
    assert (N1 : ~ In (t1, l, m1) (held sq)).
    { intros I. inversion Sq; subst. destruct (H6 _ _ I) as (_ & -> & ->). destruct X; discriminate. }
    rewrite <- Hs1 in I1.
    destruct (disappears _ _ _ _ _ _ Rq I1 N1) as (r1 & r2 & Eq1).
    (* positions *)
    set (i := length pre). set (r := (i + 1 + length r1)%nat). set (q := (i + 1 + length q1)%nat).
    set (j := (i + 1 + length mid)%nat).
    assert (Lq1 : length q1 = (length r1 + 1 + length r2)%nat) by (rewrite Eq1, app_length; cbn; lia).
    assert (Lmid : length mid = (length q1 + 1 + length q2)%nat) by (rewrite Emid, app_length; cbn; lia).
    assert (Pi : at_pos tr i (EAcc t1 a1)) by (eapply at_pos_intro; [reflexivity|reflexivity]).
    assert (Pr : at_pos tr r (ERel t1 l m1)).
    { eapply (at_pos_intro tr (pre ++ EAcc t1 a1 :: r1) _ (r2 ++ EAcq t2 l m2 :: q2 ++ EAcc t2 a2 :: post)).
      - subst tr. rewrite Emid, Eq1. repeat (rewrite <- app_assoc; cbn [app]). reflexivity.
      - subst r i. rewrite app_length; cbn. lia. }
    assert (Pq : at_pos tr q (EAcq t2 l m2)).
    { eapply (at_pos_intro tr (pre ++ EAcc t1 a1 :: q1) _ (q2 ++ EAcc t2 a2 :: post)).
      - subst tr. rewrite Emid. repeat (rewrite <- app_assoc; cbn [app]). reflexivity.
      - subst q i. rewrite app_length; cbn. lia. }
    assert (Pj : at_pos tr j (EAcc t2 a2)).
    { eapply (at_pos_intro tr (pre ++ EAcc t1 a1 :: mid) _ post).
      - subst tr. repeat (rewrite <- app_assoc; cbn [app]). reflexivity.
      - subst j i. rewrite app_length; cbn. lia. }
    fold i j.
    eapply hb_trans; [eapply (hb_po tr i r); eauto; subst r; lia|].
    eapply hb_trans; [eapply (hb_lock tr r q); eauto; subst r q; lia|].
    eapply (hb_po tr q j); eauto. subst q j; lia.
  Qed.

  (** The lockset theorem, per pair: two conflicting accesses of different goroutines that the
      decision [races] does not flag are ordered by happens-before in every schedule. *)
  Theorem lockset_orders :
    forall tr, valid tr ->
    forall pre mid post t1 a1 t2 a2,
      tr = pre ++ EAcc t1 a1 :: mid ++ EAcc t2 a2 :: post ->
      t1 <> t2 -> a_field a1 = a_field a2 -> a_write a1 || a_write a2 = true ->
      races multi a1 a2 = false ->
      hb tr (length pre) (length pre + 1 + length mid).
  Proof.
    intros tr [sf V] pre mid post t1 a1 t2 a2 E N F W NR. subst tr.
    destruct (mrun_app_inv _ _ _ _ V) as (s & Rpre & R1).
    inversion R1 as [|? ? s1 ? ? S1 R2]; subst.
    destruct (mrun_app_inv _ _ _ _ R2) as (sj & Rmid & R3).
    inversion R3 as [|? ? sj1 ? ? S2 R4]; subst.
    pose proof (mrun_compat _ _ _ Rpre compat0) as C.
    inversion S1 as [| |? ? ? TO1 PO1 IA1 RO1 LK1]; subst.
    inversion S2 as [| |? ? ? TO2 PO2 IA2 RO2 LK2]; subst.
    unfold races, conflict in NR. rewrite F, String.eqb_refl, W in NR. cbn [andb] in NR.
    set (tr := pre ++ EAcc t1 a1 :: mid ++ EAcc t2 a2 :: post).
    assert (Pi : at_pos tr (length pre) (EAcc t1 a1)) by (eapply at_pos_intro; reflexivity).
    assert (Pj : at_pos tr (length pre + 1 + length mid) (EAcc t2 a2)).
    { eapply (at_pos_intro tr (pre ++ EAcc t1 a1 :: mid) _ post).
      - subst tr. repeat (rewrite <- app_assoc; cbn [app]). reflexivity.
      - rewrite app_length; cbn. lia. }
    destruct (may_concurrent multi a1 a2) eqn:MC.
    - (* concurrent roles: a common mutex orders them *)
      cbn [andb] in NR. apply Bool.negb_false_iff in NR. unfold protected in NR.
      apply existsb_exists in NR. destruct NR as (la & Hla & NR).
      apply existsb_exists in NR. destruct NR as (lb & Hlb & NR).
      apply andb_prop in NR. destruct NR as [En Ex]. apply String.eqb_eq in En.
      eapply (lock_orders pre mid post t1 a1 t2 a2 (lock_name la) (lock_mode la) (lock_mode lb)); eauto.
      + rewrite En. apply LK2; auto.
      + unfold lock_mode. destruct (lock_shared la), (lock_shared lb); auto. discriminate.
    - (* not concurrent by role *)
      unfold may_concurrent in MC. rewrite <- RO1, <- RO2 in MC.
      destruct t1 as [r1 n1], t2 as [r2 n2]. cbn [fst snd] in *. unfold tid_ok in TO1, TO2. cbn [fst snd] in *.
      destruct r1 eqn:E1.
      + destruct r2 eqn:E2.
        * subst; congruence.
        * eapply (hb_start tr); eauto; try lia; cbn; congruence.
        * eapply (hb_start tr); eauto; try lia; cbn; congruence.
        * eapply (hb_start tr); eauto; try lia; cbn; congruence.
      + destruct r2 eqn:E2; cbn in MC; try discriminate.
        * (* init after a non-init event: impossible *)
          exfalso. assert (Sv : serving sj = true).
          { eapply mrun_serving; eauto. cbn. unfold next_serving. cbn. apply Bool.orb_true_r. }
          unfold phase_ok in PO2. cbn in PO2. rewrite PO2 in Sv by auto. discriminate.
        * destruct TO1 as [M|Z1]; [rewrite M in MC; discriminate|].
          destruct TO2 as [M|Z2]; [rewrite M in MC; discriminate|]. subst; congruence.
      + destruct r2 eqn:E2; cbn in MC; try discriminate.
        * exfalso. assert (Sv : serving sj = true).
          { eapply mrun_serving; eauto. cbn. unfold next_serving. cbn. apply Bool.orb_true_r. }
          unfold phase_ok in PO2. cbn in PO2. rewrite PO2 in Sv by auto. discriminate.
        * destruct TO1 as [M|Z1]; [rewrite M in MC; discriminate|].
          destruct TO2 as [M|Z2]; [rewrite M in MC; discriminate|]. subst; congruence.
      + destruct r2 eqn:E2; cbn in MC; try discriminate.
        * exfalso. assert (Sv : serving sj = true).
          { eapply mrun_serving; eauto. cbn. unfold next_serving. cbn. apply Bool.orb_true_r. }
          unfold phase_ok in PO2. cbn in PO2. rewrite PO2 in Sv by auto. discriminate.
        * destruct TO1 as [M|Z1]; [rewrite M in MC; discriminate|].
          destruct TO2 as [M|Z2]; [rewrite M in MC; discriminate|]. subst; congruence.
  Qed.

  (** Hence: an empty [race_pairs] means every two conflicting accesses are ordered ... *)
  Theorem lockset_race_free_gen :
    race_pairs_gen multi A = [] ->
    forall tr, valid tr ->
    forall pre mid post t1 a1 t2 a2,
      tr = pre ++ EAcc t1 a1 :: mid ++ EAcc t2 a2 :: post ->
      t1 <> t2 -> a_field a1 = a_field a2 -> a_write a1 || a_write a2 = true ->
      hb tr (length pre) (length pre + 1 + length mid).
  Proof.
    intros RP tr V pre mid post t1 a1 t2 a2 E N F W.
    eapply lockset_orders; eauto. apply (race_pairs_nil multi A RP).
    - destruct V as [sf V]. subst tr. destruct (mrun_app_inv _ _ _ _ V) as (s & _ & R1).
      inversion R1 as [|? ? ? ? ? S1 _]; subst. inversion S1; auto.
    - destruct V as [sf V]. subst tr. destruct (mrun_app_inv _ _ _ _ V) as (s & _ & R1).
      inversion R1 as [|? ? ? ? ? _ R2]; subst. destruct (mrun_app_inv _ _ _ _ R2) as (sj & _ & R3).
      inversion R3 as [|? ? ? ? ? S2 _]; subst. inversion S2; auto.
  Qed.

  (** ... and in general every pair that is not ordered is listed in [race_pairs] (the list is
      complete: what is not in it is race-free). *)
  Lemma races_listed : forall a b,
    In a A -> In b A -> races multi a b = true ->
    In (a, b) (race_pairs_gen multi A) \/ In (b, a) (race_pairs_gen multi A).
  Proof.
    induction A as [|x t IH]; intros a b Ha Hb R; [destruct Ha|]. cbn [race_pairs_gen].
    destruct Ha as [<-|Ha], Hb as [<-|Hb].
    - left. rewrite R. left; auto.
    - left. apply in_or_app; right. apply in_or_app; left. apply in_map. apply filter_In; auto.
    - right. apply in_or_app; right. apply in_or_app; left. apply in_map. apply filter_In. rewrite races_sym; auto.
    - destruct (IH a b Ha Hb R); [left|right]; apply in_or_app; right; apply in_or_app; right; auto.
  Qed.
End Lockset.

(** With the conservative default (every non-init role has many goroutines). *)
Theorem lockset_race_free : forall A,
  race_pairs A = [] ->
  forall tr, valid multi_all A tr ->
  forall pre mid post t1 a1 t2 a2,
    tr = pre ++ EAcc t1 a1 :: mid ++ EAcc t2 a2 :: post ->
    t1 <> t2 -> a_field a1 = a_field a2 -> a_write a1 || a_write a2 = true ->
    hb tr (length pre) (length pre + 1 + length mid).
Proof. intros A. apply lockset_race_free_gen. Qed.

(* ------------------------------------------------------------------------------------------ *)
(** * Known lists with tolerance for renames (DESIGN.md 4.3)

    props/*.v compare [race_pairs] / [handler_writes] of a regenerated table with a list of known
    entries. An entry names field and function; so that a refactor which only renames does not
    raise an alarm, a name of the known list that no longer occurs anywhere in the regenerated
    table matches any name (the rest of the key: read/write, role, locks held must still agree). *)

Definition side_key (a : access) : string :=
  (if a_write a then "W:" else "R:") ++ role_str (a_role a) ++ ":[" ++ String.concat "," (a_locks a) ++ "]".

Definition has_func (A : list access) (f : string) : bool := existsb (fun a => String.eqb (a_func a) f) A.
Definition has_field (A : list access) (f : string) : bool := existsb (fun a => String.eqb (a_field a) f) A.

Definition func_matches (A : list access) (f known : string) : bool := String.eqb f known || negb (has_func A known).
Definition field_matches (A : list access) (f known : string) : bool := String.eqb f known || negb (has_field A known).

(** (function, side key) *)
Definition kside := (string * string)%type.
(** (field, side, side) *)
Definition kpair := (string * kside * kside)%type.
(** (field, side) *)
Definition kwrite := (string * kside)%type.

Definition side_matches (A : list access) (a : access) (k : kside) : bool :=
  String.eqb (side_key a) (snd k) && func_matches A (a_func a) (fst k).

Definition pair_matches (A : list access) (p : access * access) (k : kpair) : bool :=
  let '(f, k1, k2) := k in
  field_matches A (a_field (fst p)) f &&
  ((side_matches A (fst p) k1 && side_matches A (snd p) k2) ||
   (side_matches A (fst p) k2 && side_matches A (snd p) k1)).

Definition races_known (A : list access) (known : list kpair) : bool :=
  forallb (fun p => existsb (pair_matches A p) known) (race_pairs A).

Definition write_matches (A : list access) (a : access) (k : kwrite) : bool :=
  field_matches A (a_field a) (fst k) && side_matches A a (snd k).

Definition writes_known (A : list access) (known : list kwrite) : bool :=
  forallb (fun a => existsb (write_matches A a) known) (handler_writes A).

Lemma races_known_nil A : races_known A [] = true -> race_pairs A = [].
Proof.
  unfold races_known. destruct (race_pairs A) as [|p r]; [reflexivity|]. cbn. discriminate.
Qed.

Lemma writes_known_nil A : writes_known A [] = true -> handler_writes A = [].
Proof.
  unfold writes_known. destruct (handler_writes A) as [|p r]; [reflexivity|]. cbn. discriminate.
Qed.

(** With an empty known list the lockset theorem applies. *)
Theorem races_known_nil_race_free : forall A,
  races_known A [] = true ->
  forall tr, valid multi_all A tr ->
  forall pre mid post t1 a1 t2 a2,
    tr = pre ++ EAcc t1 a1 :: mid ++ EAcc t2 a2 :: post ->
    t1 <> t2 -> a_field a1 = a_field a2 -> a_write a1 || a_write a2 = true ->
    hb tr (length pre) (length pre + 1 + length mid).
Proof. intros A H. apply lockset_race_free, races_known_nil, H. Qed.

(** Every flagged pair that is not excused by the known list is exhibited. *)
Definition unknown_races (A : list access) (known : list kpair) : list (string * string * string) :=
  map pair_key (filter (fun p => negb (existsb (pair_matches A p) known)) (race_pairs A)).

(* ------------------------------------------------------------------------------------------ *)
(** * A flagged pair can really be unordered: a write under a mutex and a read that takes no lock *)

Lemma hb_lt tr i j : hb tr i j -> (i < j)%nat.
Proof. induction 1; lia. Qed.

Section Witness.
  Variable w r : access.
  Variable l : string.
  Let t1 : tid := (RHandler, 0%nat).
  Let t2 : tid := (RHandler, 1%nat).
  Let A := [w; r].

  (** goroutine 1: Lock; write; (goroutine 2: read, no lock); Unlock *)
  Definition unordered_trace : list event :=
    [EAcq t1 l Excl; EAcc t1 w; EAcc t2 r; ERel t1 l Excl].

  Hypothesis Hw_role : a_role w = RHandler.
  Hypothesis Hr_role : a_role r = RHandler.
  Hypothesis Hw_locks : forall lk, In lk (a_locks w) -> lock_name lk = l /\ lock_mode lk = Excl.
  Hypothesis Hr_locks : a_locks r = [].

  Lemma unordered_trace_valid : valid multi_all A unordered_trace.
  Proof.
    unfold valid, unordered_trace.
    eexists. econstructor.
    { apply ms_acq.
      - cbn; auto.
      - intros H; discriminate H.
      - cbn. intros ? ? []. }
    econstructor.
    { apply ms_acc.
      - cbn; auto.
      - intros H; discriminate H.
      - left; reflexivity.
      - symmetry; exact Hw_role.
      - intros lk Hin. destruct (Hw_locks lk Hin) as [-> ->]. left; reflexivity. }
    econstructor.
    { apply ms_acc.
      - cbn; auto.
      - intros H; discriminate H.
      - right; left; reflexivity.
      - symmetry; exact Hr_role.
      - rewrite Hr_locks. intros lk []. }
    econstructor.
    { apply (ms_rel multi_all A _ t1 l Excl [] []).
      - cbn; auto.
      - intros H; discriminate H.
      - reflexivity. }
    constructor.
  Qed.

  Lemma unordered_trace_not_hb_aux : forall i j, hb unordered_trace i j -> i = 1%nat -> j = 2%nat -> False.
  Proof.
    intros i j H.
    induction H as [i j e1 e2 L P1 P2 T|i j u1 u2 lk m1 m2 L P1 P2 X|i j e1 e2 L P1 P2 R1 R2|i j k H1 IH1 H2 IH2];
      intros Ei Ej; subst.
    - unfold at_pos, unordered_trace in P1, P2. cbn in P1, P2. inversion P1; inversion P2; subst. cbn in T. discriminate.
    - unfold at_pos, unordered_trace in P1. cbn in P1. discriminate.
    - unfold at_pos, unordered_trace in P1. cbn in P1. inversion P1; subst. cbn in R1. discriminate.
    - apply hb_lt in H1. apply hb_lt in H2. lia.
  Qed.

  Lemma unordered_trace_not_hb : ~ hb unordered_trace 1 2.
  Proof. intros H. exact (unordered_trace_not_hb_aux _ _ H eq_refl eq_refl). Qed.
End Witness.

(* ------------------------------------------------------------------------------------------ *)
(** * Frame: handlers that only read the shared state (C07)

    Any number of requests are served concurrently. A handler is a sequence of steps; a step reads
    the shared state [sh] and the request-local state and writes only the request-local state (the
    premise "handlers do not write shared state" is what [handler_writes table = []] establishes on
    the generated access tables). The scheduler picks, step by step, which request advances.
    Whatever the schedule and whatever the other requests are, a request that has run to completion
    ends in the local state it reaches when it is served alone — hence the same response. *)
Section Frame.
  Variables Sh L : Type.
  Definition hstep := (Sh -> L -> L)%type.
  Record request := mkReq { rq_init : L; rq_steps : list hstep }.

  Definition rstate := (L * list hstep)%type.

  Definition fstep (sh : Sh) (cfg : list rstate) (i : nat) : list rstate :=
    match nth_error cfg i with
    | Some (l, st :: rest) => set_nth i (st sh l, rest) cfg
    | _ => cfg
    end.

  Definition frun (sh : Sh) (cfg : list rstate) (sched : list nat) : list rstate := fold_left (fstep sh) sched cfg.

  Definition finish (sh : Sh) (x : rstate) : L := fold_left (fun l st => st sh l) (snd x) (fst x).
  Definition alone (sh : Sh) (r : request) : L := finish sh (rq_init r, rq_steps r).
  Definition start (reqs : list request) : list rstate := map (fun r => (rq_init r, rq_steps r)) reqs.

  Lemma fstep_finish sh cfg i : map (finish sh) (fstep sh cfg i) = map (finish sh) cfg.
  Proof.
    unfold fstep. destruct (nth_error cfg i) as [[l [|st rest]]|] eqn:E; auto.
    revert i E; induction cfg as [|x t IH]; intros i E; destruct i; cbn in *; try discriminate.
    - inversion E; subst. reflexivity.
    - f_equal. apply IH; auto.
  Qed.

  Lemma frun_finish sh sched : forall cfg, map (finish sh) (frun sh cfg sched) = map (finish sh) cfg.
  Proof.
    induction sched as [|i t IH]; intros cfg; cbn; auto. unfold frun in IH. rewrite IH. apply fstep_finish.
  Qed.

  (** For every set of requests, every schedule and every request that has completed. *)
  Theorem frame : forall sh reqs sched i l,
    nth_error (frun sh (start reqs) sched) i = Some (l, []) ->
    exists r, nth_error reqs i = Some r /\ l = alone sh r.
  Proof.
    intros sh reqs sched i l H.
    pose proof (frun_finish sh sched (start reqs)) as F.
    assert (G : nth_error (map (finish sh) (frun sh (start reqs) sched)) i = Some l).
    { rewrite nth_error_map, H. reflexivity. }
    rewrite F in G. unfold start in G. rewrite map_map, nth_error_map in G.
    destruct (nth_error reqs i) as [r|]; [|discriminate]. exists r. split; auto.
    cbn in G. inversion G. reflexivity.
  Qed.

  (** In particular the response to a request does not depend on what else is served, before or
      at the same time: two runs with different companions and different schedules agree. *)
  Corollary frame_independent : forall sh r others1 others2 sched1 sched2 l1 l2,
    nth_error (frun sh (start (r :: others1)) sched1) 0 = Some (l1, []) ->
    nth_error (frun sh (start (r :: others2)) sched2) 0 = Some (l2, []) ->
    l1 = l2.
  Proof.
    intros sh r o1 o2 s1 s2 l1 l2 H1 H2.
    destruct (frame _ _ _ _ _ H1) as (r1 & E1 & ->). destruct (frame _ _ _ _ _ H2) as (r2 & E2 & ->).
    cbn in E1, E2. congruence.
  Qed.

  (** Progress: the fair round-robin schedule completes every request (the theorem above is not vacuous). *)
  Lemma frame_sequential_completes : forall sh r,
    nth_error (frun sh (start [r]) (repeat 0%nat (length (rq_steps r)))) 0 = Some (alone sh r, []).
  Proof.
    intros sh [l0 steps]. unfold alone, finish, start. cbn [map rq_init rq_steps fst snd].
    revert l0; induction steps as [|st rest IH]; intros l0; [reflexivity|].
    cbn [length repeat frun fold_left]. unfold fstep at 2. cbn [nth_error set_nth]. apply IH.
  Qed.
End Frame.

(** The lockset theorem for a family of tables. *)
Theorem races_known_all_race_free : forall Ts,
  forallb (fun T => races_known T []) Ts = true ->
  forall T, In T Ts ->
  forall tr, valid multi_all T tr ->
  forall pre mid post t1 a1 t2 a2,
    tr = pre ++ EAcc t1 a1 :: mid ++ EAcc t2 a2 :: post ->
    t1 <> t2 -> a_field a1 = a_field a2 -> a_write a1 || a_write a2 = true ->
    hb tr (length pre) (length pre + 1 + length mid).
Proof.
  intros Ts H T I. rewrite forallb_forall in H. apply races_known_nil_race_free. apply H. exact I.
Qed.
