(** Correspondence for the MPD side of C02 (and the window edges of C05): the model of
    calcWrapTimes + generateTimelineEntries is run on the configuration and instant of an MPD the
    implementation served, and compared with the SegmentTimeline of that MPD. *)
From Verif Require Import GoSem Timeline.

Record c02case := {
  c_id : Z;
  k_rep : rep; k_loopMS : Z; k_cfg : tcfg; k_now : Z;
  k_tsbdMS : Z;            (* timeShiftBufferDepth of the MPD in ms *)
  k_atoMS : Z;             (* availabilityTimeOffset in ms (setOffsetInAdaptationSet rounds 1000*ato) *)
  k_nr : bool;             (* SegmentTimeline with $Number$: startNumber is declared *)
  o_startNr : Z;           (* declared startNumber, -1 if none *)
  o_first_t : Z;           (* t of the first <S>, -1 if the timeline is empty *)
  o_dr : list (Z * Z)      (* (d, r) of every <S> *)
}.

Definition model (c : c02case) : segEntries :=
  generateTimelineEntries (k_rep c) (calcWrapTimes (k_loopMS c) (k_cfg c) (k_now c) (k_tsbdMS c)) (k_atoMS c).

Definition dr_eqb (a b : Z * Z) : bool := (fst a =? fst b) && (snd a =? snd b).

Definition case_ok (c : c02case) : bool :=
  let se := model c in
  match se_entries se with
  | [] => (o_first_t c =? -1) && (match o_dr c with [] => true | _ => false end)
          && (negb (k_nr c) || (o_startNr c =? -1))
  | e0 :: _ =>
    (o_first_t c =? e_t e0)
    && list_eqb dr_eqb (map (fun e => (e_d e, e_r e)) (se_entries se)) (o_dr c)
    && (negb (k_nr c) || (o_startNr c =? se_startNr se + startNr (k_cfg c)))
  end.

Definition mismatches (cs : list c02case) : list Z :=
  map c_id (filter (fun c => negb (case_ok c)) cs).

Definition model_view (c : c02case) :=
  let se := model c in (se_startNr se, map (fun e => (e_t e, e_d e, e_r e)) (se_entries se)).
