(** Correspondence check for C03: the model is run on the inputs the implementation ran on. *)
From Verif Require Import GoSem Audio AudioRef.
From Verif Require Timeline.
From Coq Require Import ZifyBool.

(** Observed outcome classes: 0 = value, 1 = error return (HTTP 500 at the public boundary), 2 = panic. *)
Inductive c03kind :=
| KTime (t r F a : Z) (ocls : Z) (obs : Z)
    (* calcAudioTimeFromRef *)
| KRecipe (nr s e D r F a : Z) (ocls : Z) (obs : list Z)
    (* calcAudioSegRecipe: [segNr; startTime; endTime; audioInStart; audioInEnd; audioInEndAfterWrap] *)
| KSeg (nr s e D r F a : Z) (tab : list seg) (canon : list Z) (ocls : Z) (otfdt oseq : Z) (oframes : list Z)
    (* recipe + createAudioSeg: the served segment (tfdt, sequence number, source index of every frame);
       [canon] maps a source frame index to the first index with the same content ([] = identity) *)
| KCreate (F : Z) (tab : list seg) (rc : recipe) (ocls : Z) (otfdt oseq : Z) (oframes : list Z)
    (* createAudioSeg on an arbitrary recipe *)
| KReq (vr : Timeline.rep) (loopMS startNr F a : Z) (tab : list seg) (canon : list Z)
       (mode segID nowMS : Z) (ocls : Z) (otfdt oseq : Z) (oframes : list Z)
    (* a whole audio request through the HTTP router: reference lookup by number ([mode = 0]) or by
       time ([mode = 1]), recipe, createAudioSeg. Default configuration (start 0, tsbd 60 s, ato 0).
       Classes: 0 = 200, 1 = 500, 2 = panic, 3 = 404, 4 = 425, 5 = 410 *)
| KTimeline (startNr refT : Z) (entries : list (Z * Z)) (r cdur dflt codec a : Z) (ocls : Z) (obs : list (Z * Z * Z))
    (* generateTimelineEntriesFromRef: produced entries (t or -1, d, r); [cdur], [dflt], [codec]: constant sample
       duration, DefaultSampleDuration and codec family of the representation (see Audio.mpd_frame_dur) *).

Record c03case := { c_id : Z; c_k : c03kind }.

Definition cls {A} (r : res A) : Z := match r with Ok _ => 0 | Err _ => 1 | Panic _ => 2 end.

Definition canon_of (canon : list Z) (i : Z) : Z :=
  match canon with
  | [] => i
  | _ => match nthZ i canon with Some c => c | None => -1 end
  end.

Definition out_ok (canon : list Z) (m : res outseg) (ocls otfdt oseq : Z) (oframes : list Z) : bool :=
  match m with
  | Ok o => (ocls =? 0) && (o_tfdt o =? otfdt) && (o_seq o =? oseq)
            && list_eqb Z.eqb (map (canon_of canon) (o_frames o)) oframes
  | _ => cls m =? ocls
  end.

Definition ocls_of {A} (o : Timeline.outcome A) : Z :=
  match o with
  | Timeline.TOk _ => 0 | Timeline.TErr _ => 1 | Timeline.TPanic _ => 2
  | Timeline.TNotFound => 3 | Timeline.TTooEarly _ => 4 | Timeline.TGone => 5
  end.

Definition req_cfg (startNr : Z) : Timeline.tcfg :=
  {| Timeline.startS := 0; Timeline.startNr := startNr; Timeline.tsbdS := 60; Timeline.ato := Some 0 |}.

Definition req_model (vr : Timeline.rep) (loopMS startNr F a : Z) (tab : list seg) (mode segID nowMS : Z)
  : Timeline.outcome outseg :=
  audio_request vr loopMS (req_cfg startNr) F a tab
                (if mode =? 0 then Timeline.ByNumber else Timeline.ByTime) segID nowMS.

Definition req_ok (canon : list Z) (m : Timeline.outcome outseg) (ocls otfdt oseq : Z) (oframes : list Z) : bool :=
  match m with
  | Timeline.TOk o => (ocls =? 0) && (o_tfdt o =? otfdt) && (o_seq o =? oseq)
                      && list_eqb Z.eqb (map (canon_of canon) (o_frames o)) oframes
  | _ => ocls_of m =? ocls
  end.

Definition entry_view (s : sentry) : Z * Z * Z :=
  (match e_t s with Some t => t | None => -1 end, e_d s, e_r s).

Definition triple_eqb (x y : Z * Z * Z) : bool :=
  let '(a, b, c) := x in let '(a', b', c') := y in (a =? a') && (b =? b') && (c =? c').

Definition recipe_view (rc : recipe) : list Z :=
  [r_nr rc; r_start rc; r_end rc; r_inStart rc; r_inEnd rc; r_after rc].

Definition case_ok (c : c03case) : bool :=
  match c_k c with
  | KTime t r F a ocls obs =>
      match calcAudioTimeFromRef t r F a with
      | Ok v => (ocls =? 0) && (v =? obs)
      | m => cls m =? ocls
      end
  | KRecipe nr s e D r F a ocls obs =>
      match calcAudioSegRecipe nr s e D r F a with
      | Ok rc => (ocls =? 0) && list_eqb Z.eqb (recipe_view rc) obs
      | m => cls m =? ocls
      end
  | KSeg nr s e D r F a tab canon ocls otfdt oseq oframes =>
      out_ok canon (audio_segment nr s e D r F a tab) ocls otfdt oseq oframes
  | KCreate F tab rc ocls otfdt oseq oframes =>
      out_ok [] (create_audio_seg F tab rc) ocls otfdt oseq oframes
  | KReq vr loopMS startNr F a tab canon mode segID nowMS ocls otfdt oseq oframes =>
      req_ok canon (req_model vr loopMS startNr F a tab mode segID nowMS) ocls otfdt oseq oframes
  | KTimeline startNr refT entries r cdur dflt codec a ocls obs =>
      match mpd_audio_timeline startNr refT entries r cdur dflt codec a with
      | Ok l => (ocls =? 0) && list_eqb triple_eqb (map entry_view l) obs
      | m => cls m =? ocls
      end
  end.

Definition mismatches (cs : list c03case) : list Z :=
  map c_id (filter (fun c => negb (case_ok c)) cs).

(** What the model computes for a case (shown in the replay of a mismatch): class and numbers. *)
Definition out_view (m : res outseg) : Z * list Z :=
  match m with
  | Ok o => (0, o_tfdt o :: o_seq o :: lenZ (o_frames o) :: takeZ 6 (o_frames o))
  | _ => (cls m, [])
  end.

Definition model_view (c : c03case) : Z * list Z :=
  match c_k c with
  | KTime t r F a _ _ => match calcAudioTimeFromRef t r F a with Ok v => (0, [v]) | m => (cls m, []) end
  | KRecipe nr s e D r F a _ _ =>
      match calcAudioSegRecipe nr s e D r F a with Ok rc => (0, recipe_view rc) | m => (cls m, []) end
  | KSeg nr s e D r F a tab _ _ _ _ _ => out_view (audio_segment nr s e D r F a tab)
  | KCreate F tab rc _ _ _ _ => out_view (create_audio_seg F tab rc)
  | KReq vr loopMS startNr F a tab _ mode segID nowMS _ _ _ _ =>
      match req_model vr loopMS startNr F a tab mode segID nowMS with
      | Timeline.TOk o => out_view (Ok o)
      | m => (ocls_of m, [])
      end
  | KTimeline startNr refT entries r cdur dflt codec a _ _ =>
      match mpd_audio_timeline startNr refT entries r cdur dflt codec a with
      | Ok l => (0, concat (map (fun s => let '(a, b, c) := entry_view s in [a; b; c]) (firstn 4 l)))
      | m => (cls m, [])
      end
  end.
