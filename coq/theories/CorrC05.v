(** Correspondence for C05: publishTime and the two edges of the SegmentTimeline of served MPDs
    against the model. *)
From Verif Require Import GoSem Timeline Publish.

Record c05case := {
  c_id : Z;
  k_rep : rep; k_loopMS : Z; k_cfg : tcfg; k_now : Z; k_tsbdMS : Z; k_atoMS : Z;
  o_publishMS : Z;
  o_first_t : Z; o_last_t : Z;   (* t of the first / last listed video segment, -1 if none *)
  o_n : Z                        (* number of listed video segments *)
}.

Definition model (c : c05case) : Z * (Z * Z * Z) :=
  let se := generateTimelineEntries (k_rep c) (calcWrapTimes (k_loopMS c) (k_cfg c) (k_now c) (k_tsbdMS c)) (k_atoMS c) in
  let ex := expand (se_entries se) in
  (publishMS (k_cfg c) (ts (k_rep c)) se (k_atoMS c),
   (match ex with [] => -1 | (t, _) :: _ => t end,
    match rev ex with [] => -1 | (t, _) :: _ => t end,
    lenZ ex)).

Definition case_ok (c : c05case) : bool :=
  let '(p, (f, l, n)) := model c in
  (p =? o_publishMS c) && (f =? o_first_t c) && (l =? o_last_t c) && (n =? o_n c).

Definition mismatches (cs : list c05case) : list Z :=
  map c_id (filter (fun c => negb (case_ok c)) cs).

Definition model_view (c : c05case) := model c.
