(** Correspondence for C05, multi-period sweeps (periods_N with a SegmentTimeline): publishTime
    (closed form and the splitPeriod-based executable) and, per Period, the number and the first /
    last listed video segment, against the served MPD. *)
From Verif Require Import GoSem Timeline Publish Window Periods PublishPeriods.

Record c05pcase := {
  c_id : Z;
  k_rep : rep; k_loopMS : Z; k_cfg : tcfg; k_now : Z; k_tsbdMS : Z; k_atoMS : Z;
  k_pph : Z; k_segDurMS : Z;
  o_publishMS : Z;
  o_periods : list (Z * (Z * Z * Z))   (* per Period: number, first t, last t (-1: none), count of the reference AdaptationSet *)
}.

Definition pv_eqb (a b : Z * (Z * Z * Z)) : bool :=
  let '(n1, (f1, l1, c1)) := a in let '(n2, (f2, l2, c2)) := b in
  (n1 =? n2) && (f1 =? f2) && (l1 =? l2) && (c1 =? c2).

Definition model (c : c05pcase) : Z * res Z * res (list (Z * (Z * Z * Z))) :=
  (publish_periods (k_rep c) (k_loopMS c) (k_cfg c) (k_now c) (k_tsbdMS c) (k_atoMS c) (k_pph c),
   publish_periods_exec (k_rep c) (k_loopMS c) (k_cfg c) (k_now c) (k_tsbdMS c) (k_atoMS c) (k_pph c) (k_segDurMS c),
   match periodsOf (k_rep c) (k_loopMS c) (k_cfg c) (k_now c) (k_tsbdMS c) (k_atoMS c) (k_pph c) (k_segDurMS c) with
   | Ok ps => Ok (map periodView ps) | Err e => Err e | Panic s => Panic s end).

Definition case_ok (c : c05pcase) : bool :=
  let '(p, pe, pv) := model c in
  (p =? o_publishMS c) &&
  match pe with Ok x => x =? o_publishMS c | _ => false end &&
  match pv with Ok l => list_eqb pv_eqb l (o_periods c) | _ => false end.

Definition mismatches (cs : list c05pcase) : list Z :=
  map c_id (filter (fun c => negb (case_ok c)) cs).

Definition model_view (c : c05pcase) := model c.
