(** Correspondence for C06: the model of the multi-period part of LiveMPD (theories/Periods.v) is
    run on what the implementation was given and its result is compared with what the
    implementation produced.

    [CLive]   L1: single-period MPD and multi-period MPD requested from the server with the same
              URL configuration and nowMS; the input of the model is read from the single-period
              MPD (per AdaptationSet: contentType image?, timescale, duration, startNumber, <S>
              list) and the configuration; observed: status and the periods of the other MPD.
    [CSplit]  L2: splitPeriod (hook) on synthetic MPDs, any periods-per-hour value.
    [CReduce] L2: reduceS (hook) on arbitrary <S> lists. *)
From Verif Require Import GoSem Timeline Periods.

(** short constructors for the case files *)
Definition s3 (t d r : Z) : pS := {| p_t := Some t; p_d := d; p_r := r |}.
Definition s2 (d r : Z) : pS := {| p_t := None; p_d := d; p_r := r |}.
Definition mkA (img : bool) (tsc dur snr : option Z) (tl : option (list pS)) : asIn :=
  {| a_image := img; a_ts := tsc; a_dur := dur; a_startNr := snr; a_tl := tl |}.
Definition mkO (pto : Z) (snr : option Z) (tl : option (list pS)) (cont : bool) : asOut :=
  {| o_pto := pto; o_startNr := snr; o_tl := tl; o_cont := cont |}.
Definition mkP (nr start : Z) (ases : list asOut) : period := {| pd_nr := nr; pd_start := start; pd_as := ases |}.

Inductive c06case :=
| CLive (id : Z) (ng : bool) (widen : option (Z * Z)) (pph segDurMS : Z) (mode : mpdType) (cont : bool) (startS snr now : Z) (stopS : option Z) (tsbdMS : Z) (ases : list asIn)
        (o_status : Z) (o_periods : list period) (o_publish : option Z)
| CSplit (id : Z) (ng : bool) (widen : option (Z * Z)) (pph segDurMS : Z) (mode : mpdType) (cont : bool) (astMS snr startTimeMS now : Z) (ases : list asIn)
         (o_status : Z) (o_periods : list period)
| CReduce (id : Z) (es : list pS) (startNr : option Z) (tsc ps pe : Z) (o_S : list pS) (o_nr : Z).

Definition c_id (c : c06case) : Z :=
  match c with CLive id _ _ _ _ _ _ _ _ _ _ _ _ _ _ _ => id | CSplit id _ _ _ _ _ _ _ _ _ _ _ _ _ => id | CReduce id _ _ _ _ _ _ _ => id end.

Definition optZ_eqb (a b : option Z) : bool :=
  match a, b with Some x, Some y => x =? y | None, None => true | _, _ => false end.
Definition pS_eqb (a b : pS) : bool :=
  optZ_eqb (p_t a) (p_t b) && (p_d a =? p_d b) && (p_r a =? p_r b).
Definition tl_eqb (a b : option (list pS)) : bool :=
  match a, b with Some x, Some y => list_eqb pS_eqb x y | None, None => true | _, _ => false end.
Definition asOut_eqb (a b : asOut) : bool :=
  (o_pto a =? o_pto b) && optZ_eqb (o_startNr a) (o_startNr b) && tl_eqb (o_tl a) (o_tl b) &&
  Bool.eqb (o_cont a) (o_cont b).
Definition period_eqb (a b : period) : bool :=
  (pd_nr a =? pd_nr b) && (pd_start a =? pd_start b) && list_eqb asOut_eqb (pd_as a) (pd_as b).

(** status class: 200 = MPD produced, 400 = refused (periods-per-hour outside 1..3600, or the typed
    error errPeriodDuration: period not a multiple of the segment duration - commit e7eedfb),
    500 = any other error, 0 = panic *)
Definition statusOf {A} (r : res A) : Z :=
  match r with
  | Ok _ => 200
  | Err e => if String.eqb e pphRangeMsg || String.eqb e rejectMsg then 400 else 500
  | Panic _ => 0
  end.

Definition case_ok (c : c06case) : bool :=
  match c with
  | CLive _ g w pph seg mode cont startS snr now stopS tsbdMS ases st ops opub =>
    let r := livePeriodsStop g w 1 {| startS := startS; startNr := snr; tsbdS := 0; ato := Some 0 |} now stopS tsbdMS
                         pph seg mode cont ases in
    (statusOf r =? st) &&
    match r with
    | Ok (ps, pub) => list_eqb period_eqb ps ops && optZ_eqb pub opub
    | _ => true
    end
  | CSplit _ g w pph seg mode cont astMS snr stMS now ases st ops =>
    let r := splitPeriod g w pph seg mode cont astMS snr stMS now ases in
    (statusOf r =? st) &&
    match r with Ok ps => list_eqb period_eqb ps ops | _ => true end
  | CReduce _ es snr tsc ps pe oS onr =>
    let '(outS, nr) := reduceS es snr tsc ps pe in
    list_eqb pS_eqb (map ofEntry outS) oS && (nr =? onr)
  end.

Definition mismatches (cs : list c06case) : list Z :=
  map c_id (filter (fun c => negb (case_ok c)) cs).

(** what the model computes, for the report of a mismatch *)
Inductive c06view :=
| VPeriods (status : Z) (ps : list period) (pub : option Z)
| VReduce (outS : list pS) (nr : Z).

Definition model_view (c : c06case) : c06view :=
  match c with
  | CLive _ g w pph seg mode cont startS snr now stopS tsbdMS ases _ _ _ =>
    let r := livePeriodsStop g w 1 {| startS := startS; startNr := snr; tsbdS := 0; ato := Some 0 |} now stopS tsbdMS
                         pph seg mode cont ases in
    match r with Ok (ps, pub) => VPeriods 200 ps pub | _ => VPeriods (statusOf r) [] None end
  | CSplit _ g w pph seg mode cont astMS snr stMS now ases _ _ =>
    let r := splitPeriod g w pph seg mode cont astMS snr stMS now ases in
    match r with Ok ps => VPeriods 200 ps None | _ => VPeriods (statusOf r) [] None end
  | CReduce _ es snr tsc ps pe _ _ =>
    let '(outS, nr) := reduceS es snr tsc ps pe in VReduce (map ofEntry outS) nr
  end.
