(** Correspondence check for C07 (look-up part): which stored object answers a URL.

    The harness writes generated assets (nested and prefix-related asset paths, representation ids
    that occur inside each other) into scratch vodroots, sends every URL many times to several
    server instances and records the set of distinct objects that answered. The model (Lookup.v)
    says which answers an iteration order of the Go maps can produce; every observed answer must be
    among them. [asset_lookup_repaired] / [media_pattern_repaired] say which version of the Go
    code the model stands for: as found (any matching asset path / unanchored unquoted pattern) or
    repaired. Both are [true] since the fix commits 5fe544f (findAsset: longest matching path) and
    a92686d (mediaPattern: quoted and anchored) are in the checked tree. *)
From Verif Require Import GoSem Lookup.

Definition asset_lookup_repaired : bool := true.
Definition media_pattern_repaired : bool := true.

Record c07asset := { ca_path : string; ca_reps : list (string * string * string) }. (* id, pre, suf *)

Inductive outcome :=
| ONotFound                               (* 4xx *)
| OMpd (asset : string)                   (* the MPD of this asset *)
| OSeg (asset : string) (rep : string).   (* a media segment of this representation *)

Record c07case := {
  c_id : Z;
  c_assets : list c07asset;
  c_uri : string;          (* URLContentPart: the path after /livesim2/ and the options *)
  c_is_mpd : bool;
  c_observed : list outcome
}.

Definition outcome_eqb (a b : outcome) : bool :=
  match a, b with
  | ONotFound, ONotFound => true
  | OMpd x, OMpd y => String.eqb x y
  | OSeg x r, OSeg y q => String.eqb x y && String.eqb r q
  | _, _ => false
  end.

Definition reps_of (a : c07asset) : list rep :=
  map (fun t => let '(id, pre, suf) := t in mkRep (str_of id) (str_of pre) (str_of suf)) (ca_reps a).

Definition string_of_str (s : str) : string := string_of_list_ascii s.

(** Answers of one asset for the rest of the path (segmentPart[1:]). *)
Definition seg_outcomes (a : c07asset) (rest : str) : list outcome :=
  let cands :=
    if media_pattern_repaired
    then rep_candidates media_match_anchored (reps_of a) rest
    else rep_candidates media_search (reps_of a) rest in
  match cands with
  | [] => [ONotFound]
  | _ => map (fun x => OSeg (ca_path a) (string_of_str (fst x))) cands
  end.

Definition chosen_assets (c : c07case) : list c07asset :=
  let uri := str_of (c_uri c) in
  if asset_lookup_repaired
  then match find_asset_longest (map (fun a => str_of (ca_path a)) (c_assets c)) uri with
       | Some p => filter (fun a => str_eqb (str_of (ca_path a)) p) (c_assets c)
       | None => []
       end
  else filter (fun a => asset_matches uri (str_of (ca_path a))) (c_assets c).

Definition model_outcomes (c : c07case) : list outcome :=
  match chosen_assets c with
  | [] => [ONotFound]
  | l => flat_map (fun a =>
           if c_is_mpd c then [OMpd (ca_path a)]
           else seg_outcomes a (skipn (S (String.length (ca_path a))) (str_of (c_uri c)))) l
  end.

Definition case_ok (c : c07case) : bool :=
  forallb (fun o => existsb (outcome_eqb o) (model_outcomes c)) (c_observed c).

Definition mismatches (cs : list c07case) : list Z :=
  map c_id (filter (fun c => negb (case_ok c)) cs).

Definition model_view (c : c07case) : list outcome := model_outcomes c.

(** Translator soundness: a data race the Go race detector reports between two functions must be
    among the conflicting pairs that [race_pairs] derives from one of the generated tables. *)
From Verif Require Import Conc.

Definition race_listed_in (table : list access) (f g : string) : bool :=
  existsb (fun p => let a := a_func (fst p) in let b := a_func (snd p) in
                    (String.eqb a f && String.eqb b g) || (String.eqb a g && String.eqb b f))
          (race_pairs table).

Definition unlisted_races_all (tables : list (string * list access)) (obs : list (Z * (string * string))) : list Z :=
  map fst (filter (fun o => negb (existsb (fun t => race_listed_in (snd t) (fst (snd o)) (snd (snd o))) tables)) obs).
