(** Correspondence check for C08: the handler model is run on the requests the implementation
    served; the classes {status code (+ message fragment), Panic(site), Hang} must agree. *)
From Coq Require Import Ascii String List ZArith Bool.
From Verif Require Import GoSem UrlStr UrlFixes UrlCfg UrlHandler.

Inductive obs :=
| OStatus (code : Z) (body : string)   (* body: first bytes of the response body *)
| OPanic (site : string)               (* "<function>: <kind>" of the innermost livesim2 frame *)
| OHang.

Record c08case := {
  c_id : Z;
  c_env : env;
  c_req : request;
  c_obs : obs
}.

(** [current] (UrlFixes.v) says which repairs the tree under test contains. *)
Definition run_case_with (fx : fixes) (c : c08case) : hres := handler_model fx (c_env c) (c_req c).
Definition run_case (c : c08case) : hres := run_case_with current c.

Definition agrees (m : hres) (o : obs) : bool :=
  match m, o with
  | HStatus code msg, OStatus code' body =>
    (code =? code') && ((code <? 400) || contains body msg)
  | HPanic s, OPanic s' => String.eqb s s'
  | HHang _, OHang => true
  | _, _ => false
  end.

Definition case_ok_with (fx : fixes) (c : c08case) : bool := agrees (run_case_with fx c) (c_obs c).
Definition case_ok (c : c08case) : bool := case_ok_with current c.

Definition mismatches_with (fx : fixes) (cs : list c08case) : list Z :=
  map c_id (filter (fun c => negb (case_ok_with fx c)) cs).
Definition mismatches (cs : list c08case) : list Z := mismatches_with current cs.

Definition model_view (c : c08case) : hres := run_case c.
