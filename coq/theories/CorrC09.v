(** Correspondence check for C09: the model of chunkSegment / the pacing plan / the too-early
    decision is run on the inputs the implementation ran on. *)
From Verif Require Import GoSem Chunk Timeline.

Record c09case := {
  c_id : Z;
  c_durs : list Z;            (* sample durations of the segment (from the whole-segment response, or generated) *)
  c_hasStyp : bool;
  c_newTime : Z; c_newNr : Z; c_newDur : Z;
  c_chunkDur : option Z;      (* Some: chunkSegment called directly (hook); None: from the three below *)
  c_segDurMS : Z;
  c_atoMS : Z;                (* int(ato*1000) as evaluated by Go: enters the chunk duration *)
  c_atoChk : Z;               (* ato in exact milliseconds: enters the availability decision *)
  c_atoMicro : option Z;      (* ato in exact microseconds, None = +Inf: enters the request guard *)
  c_guard : bool;             (* the tree has the request guard of chunked mode (read from the source) *)
  c_guardRounded : bool;      (* ... and it compares the offset rounded to milliseconds (f0e7b4c; read from the source) *)
  c_guardOK : bool;           (* the guard condition of the tree as float64 evaluates it (by the harness,
                                 same Go expression); must equal the exact [chunkGuardOK] except when the offset is
                                 exactly the segment duration, where the float product can fall below it *)
  c_ts : Z;
  c_startS : Z;
  c_availMS : Z;              (* advertised end of the segment on the wall clock; < 0: no status decision *)
  c_nowMS : Z;
  o_status : Z;               (* 0 served, 1 too early, 2 panic, 3 other, 4 bad request *)
  o_chunks : list (bool * Z * Z * Z * Z);  (* styp, sequence number, tfdt, number of samples, chk.dur or -1 *)
  o_writes : list Z           (* real-time cases: instant (request wall clock, ms) of the first Write of each chunk *)
}.

Definition mk_samples (durs : list Z) : list sample :=
  map (fun d => {| s_dur := d; s_tag := 0; s_dt := 0 |}) durs.

Definition chunk_view (c : chunk) : bool * Z * Z * Z * Z :=
  (c_styp c, c_seq c, match c_samples c with s :: _ => s_dt s | [] => -1 end, lenZ (c_samples c), c_dur c).

Definition case_chunkDur (c : c09case) : Z :=
  match c_chunkDur c with Some d => d | None => chunkDurOf (c_segDurMS c) (c_atoMS c) (c_ts c) end.

Definition is_l1 (c : c09case) : bool := match c_chunkDur c with None => true | Some _ => false end.

Definition run_case (c : c09case) : Z * list (bool * Z * Z * Z * Z) * list Z :=
  if is_l1 c && c_guard c && negb (c_guardOK c) then (4, [], [])
  else if (0 <=? c_availMS c) && tooEarly (c_availMS c) (c_atoChk c) (c_nowMS c) then (1, [], [])
  else if (0 <=? c_availMS c) &&
          match checkTime (c_availMS c) 1000 (c_nowMS c) 60 (Some (c_atoChk c)) with TvGone => true | _ => false end
       then (3, [], [])   (* 410 Gone: default timeShiftBufferDepth 60 s + margin *)
  else match chunkSegment (mk_samples (c_durs c)) (c_hasStyp c) (c_newTime c) (c_newNr c) (c_newDur c) (case_chunkDur c) with
       | Panic _ => (2, [], [])
       | Err _ => (3, [], [])
       | Ok cs => (0, map chunk_view cs, avail_list (c_ts c) (c_newTime c + c_startS c * c_ts c) cs)
       end.

Definition view_eqb (m o : bool * Z * Z * Z * Z) : bool :=
  let '(ms, mq, mt, mn, md) := m in
  let '(os, oq, ot, on, od) := o in
  Bool.eqb ms os && (mq =? oq) && (mt =? ot) && (mn =? on) && ((od =? -1) || (md =? od)).

Definition case_ok (c : c09case) : bool :=
  let '(st, cs, av) := run_case c in
  (st =? o_status c) && list_eqb view_eqb cs (o_chunks c) &&
  (* the millisecond value the Go expression gives is the rounded offset *)
  match c_atoMicro c with Some a => negb (is_l1 c) || (c_atoMS c =? roundMilli a) | None => true end &&
  (negb (is_l1 c) ||
   if c_guardRounded c then Bool.eqb (c_guardOK c) (chunkGuardRounded (c_atoMicro c) (c_segDurMS c))
   else Bool.eqb (c_guardOK c) (chunkGuardOK (c_atoMicro c) (c_segDurMS c)) ||
        match c_atoMicro c with Some a => a =? c_segDurMS c * 1000 | None => false end) &&
  match o_writes c with
  | [] => true
  | ws => list_eqb (fun a w => a <=? w) av ws
  end.

Definition mismatches (cs : list c09case) : list Z :=
  map c_id (filter (fun c => negb (case_ok c)) cs).

Definition model_view (c : c09case) := (case_chunkDur c, run_case c).
