(** Correspondence check for C10: the model of the base64 / key-id functions, of the licence
    handler and of the key selection is run on the inputs the implementation ran on. *)
From Verif Require Import GoSem Keys.

Inductive c10case :=
(* one function of keys.go on one input: fn 0 PackBase64, 1 unpackBase64, 2 id16FromBase64,
   3 id16FromTruncatedBase64, 4 kidToKey, 5 keyToKid, 6 kidFromString, 7 urlSafeBase64;
   outcome class 0 value, 1 error, 2 panic *)
| CFn (id fn : Z) (input : bytes) (o_class : Z) (o_out : bytes)
(* POST .../eccp.json with the kid strings: status class 0 = 200, 1 = 400, 2 = 500, 3 = panic *)
| CLa (id : Z) (kids : list bytes) (o_class : Z) (o_pairs : list (bytes * bytes))
(* one (asset, drm mode, content type): what the MPD announces, what the served init segment
   carries, the key that decrypts the served segments (licence / CPIX file), the constant IV *)
| CSeg (id : Z) (mode : drmMode) (assetName laURL : bytes) (ctype : Z)
       (o_mpd : bytes * Z) (o_init : bytes * Z) (o_key : bytes) (o_civ : bytes)
       (o_la : list (bytes * bytes)) (o_served : bool)   (* the protected segment was answered 200 *)
(* drm request on an asset: pre-encrypted flag, encryption data prepared;
   MPD refused?, segment encrypted again? *)
| CPre (id : Z) (preEnc hasEnc : bool) (o_mpdRefused o_encrypted : bool)
(* one representation of one server instance: codec encryptable, loaded from stored metadata;
   protection data prepared (or the track recognised as pre-encrypted)? *)
| CLoad (id : Z) (encryptable stored : bool) (o_prepared : bool)
(* the licence URL announced in the MPD of a ClearKey request: host, the "/"-separated parts of the
   request path, index of the first asset part; observed dashif:Laurl *)
| CLaURL (id : Z) (host : bytes) (parts : list bytes) (contentIdx : Z) (o_laURL : bytes).

Definition c_id (c : c10case) : Z :=
  match c with CFn id _ _ _ _ => id | CLa id _ _ _ => id | CSeg id _ _ _ _ _ _ _ _ _ _ => id | CPre id _ _ _ _ => id | CLoad id _ _ _ => id | CLaURL id _ _ _ _ => id end.

Definition res_view (r : res bytes) : Z * bytes :=
  match r with Ok b => (0, b) | Err _ => (1, []) | Panic _ => (2, []) end.

Definition run_fn (fn : Z) (input : bytes) : Z * bytes :=
  match fn with
  | 0 => (0, packBase64 input)
  | 1 => (0, unpackBase64 input)
  | 2 => res_view (id16FromBase64 input)
  | 3 => res_view (id16FromTruncatedBase64 input)
  | 4 => res_view (kidToKey input)
  | 5 => res_view (keyToKid input)
  | 6 => (0, kidFromString input)
  | _ => (0, urlSafeBase64 input)
  end.

Definition pair_eqb (a b : bytes * bytes) : bool := bytes_eqb (fst a) (fst b) && bytes_eqb (snd a) (snd b).

Definition la_view (kids : list bytes) : Z * list (bytes * bytes) :=
  match laResponse kids with
  | Ok l => (0, l)
  | Err e => (if String.eqb e "400" then 1 else 2, [])
  | Panic _ => (3, [])
  end.

Definition seg_ok (mode : drmMode) (assetName laURL : bytes) (ctype : Z)
           (o_mpd o_init : bytes * Z) (o_key o_civ : bytes) (o_la : list (bytes * bytes)) (o_served : bool) : bool :=
  match mpdProtection mode laURL ctype, initProtection mode assetName ctype, fragProtection mode assetName ctype with
  | Ok (mk, ms), Ok (ik, is_), Ok p =>
    bytes_eqb mk (fst o_mpd) && (ms =? snd o_mpd) && bytes_eqb ik (fst o_init) && (is_ =? snd o_init) &&
    bytes_eqb (p_key p) o_key && bytes_eqb (signalledIV p) o_civ && Bool.eqb (is_ok (fragmentIV p)) o_served &&
    match mode with
    | Eccp _ =>
      (* the licence handler asked for the MPD's kid *)
      match laResponse [packBase64 mk] with
      | Ok l => list_eqb pair_eqb l o_la
      | _ => false
      end
    | Cpix _ => true
    end
  | _, _, _ => false
  end.

Definition case_ok (c : c10case) : bool :=
  match c with
  | CFn _ fn input oc oo => let '(mc, mo) := run_fn fn input in (mc =? oc) && bytes_eqb mo oo
  | CLa _ kids oc op => let '(mc, mp) := la_view kids in (mc =? oc) && list_eqb pair_eqb mp op
  | CSeg _ mode an la ct om oi ok oiv ola osv => seg_ok mode an la ct om oi ok oiv ola osv
  | CPre _ pre has refused enc =>
    Bool.eqb (negb (is_ok (liveMPDdrm true pre))) refused && Bool.eqb (encryptsTrack true has) enc
  | CLoad _ e s o => Bool.eqb (readInitPrepares e s) o
  | CLaURL _ h ps i o => bytes_eqb (genLaURL h ps i) o
  end.

Definition mismatches (cs : list c10case) : list Z := map c_id (filter (fun c => negb (case_ok c)) cs).

Definition model_view (c : c10case) : Z * bytes * list (bytes * bytes) :=
  match c with
  | CFn _ fn input _ _ => let '(a, b) := run_fn fn input in (a, b, [])
  | CLa _ kids _ _ => let '(a, b) := la_view kids in (a, [], b)
  | CSeg _ mode an la ct _ _ _ _ _ _ =>
    match mpdProtection mode la ct, initProtection mode an ct, fragProtection mode an ct with
    | Ok (mk, ms), Ok (ik, is_), Ok p => (ms, mk, [(ik, p_key p); (signalledIV p, if is_ok (fragmentIV p) then [1] else [0])])
    | _, _, _ => (-1, [], [])
    end
  | CPre _ pre has _ _ => ((if is_ok (liveMPDdrm true pre) then 0 else 1) + (if encryptsTrack true has then 10 else 0), [], [])
  | CLoad _ e s _ => ((if readInitPrepares e s then 1 else 0), [], [])
  | CLaURL _ h ps i _ => (0, genLaURL h ps i, [])
  end.
