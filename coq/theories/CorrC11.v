(** Correspondence check for C11: the model is run on the inputs the implementation ran on. *)
From Verif Require Import GoSem Patch PatchProofsCheck.

(** What was observed for a pair of documents (patch.MPDDiff directly, or the /patch/ handler) *)
Record tree_obs := mkTO {
  to_status : Z;            (* 200 patch, 425 same publishTime, 410 too late, 400 no PatchLocation/ttl, 500 other error, 599 panic *)
  to_mpdId : string;
  to_orig : string;
  to_new : string;
  to_ops : list op;
  to_exp : Z;               (* expiration in whole seconds since the epoch, -1 when not observed *)
  to_applied : bool;        (* the harness's own applier turned [old] into [new] (canonical equality) *)
  to_served : bool          (* the pair comes from the /patch handler of livesim2 (old = regenerated MPD, new = MPD of now) *)
}.

Inductive c11case :=
| CMyers (id : Z) (e f : list Z) (obs : option (list (Z * Z * Z)))   (* None: the call panicked; (kind,old,new), kind 0 delete 1 insert *)
| CTree (id : Z) (old new : elem) (o : tree_obs).

Definition c_id (c : c11case) : Z := match c with CMyers i _ _ _ => i | CTree i _ _ _ => i end.

Definition mop_triple (m : mop) : Z * Z * Z := (match m_kind m with KDel => 0 | KIns => 1 end, m_old m, m_new m).
Definition triple_mop (t : Z * Z * Z) : mop := let '(k, o, n) := t in mkMop (if k =? 0 then KDel else KIns) o n.
Definition triple_eqb (a b : Z * Z * Z) : bool :=
  let '(a1, a2, a3) := a in let '(b1, b2, b3) := b in (a1 =? b1) && (a2 =? b2) && (a3 =? b3).

Definition status_of (old new : elem) (r : res patchdoc) : Z :=
  match r with Panic _ => 599 | _ => mpdDiff_status old new end.

(** the Coq applier on the observed operations, compared canonically with the new document *)
Definition applied (ops : list op) (old new : elem) : bool :=
  match apply_ops ops old with
  | Some r => elem_eqb (canon r) (canon new)
  | None => false
  end.

Definition premise (old new : elem) : bool := tree_okb (@myers elem) (S (depth old)) old new.

Definition case_ok (c : c11case) : bool :=
  match c with
  | CMyers _ e f obs =>
    match myers Z.eqb e f, obs with
    | Ok s, Some o => list_eqb triple_eqb (map mop_triple s) o && valid_script Z.eqb (map triple_mop o) e f
    | Panic _, None => true
    | _, _ => false
    end
  | CTree _ old new o =>
    let r := mpdDiff old new in
    (status_of old new r =? to_status o) &&
    match r with
    | Ok p =>
      seqb (p_mpdId p) (to_mpdId o) && seqb (p_orig p) (to_orig o) && seqb (p_new p) (to_new o) &&
      list_eqb op_eqb (p_ops p) (to_ops o) &&
      ((to_exp o =? -1) || (p_expiration p / 1000000000 =? to_exp o)) &&
      Bool.eqb (applied (to_ops o) old new) (to_applied o) &&
      (* the premise of theorem C11_checked, evaluated on this pair: where it holds the patch of the
         implementation must apply (by both appliers) *)
      (negb (premise old new) || (applied (to_ops o) old new && to_applied o)) &&
      (* livesim2's own MPDs are covered by the theorem: a served patch that applies satisfies the premise *)
      (negb (to_served o) || negb (to_applied o) || premise old new)
    | _ => true
    end
  end.

Definition mismatches (cs : list c11case) : list Z :=
  map c_id (filter (fun c => negb (case_ok c)) cs).

Fixpoint first_diff {A B} (eqb : A -> B -> bool) (a : list A) (b : list B) (i : Z) : Z :=
  match a, b with
  | [], [] => -1
  | x :: a', y :: b' => if eqb x y then first_diff eqb a' b' (i + 1) else i
  | _, _ => i
  end.

(** What the model computes for a case (shown in the replay of a mismatch):
    (status or -1, number of model operations, index of the first differing operation, applied, script) *)
Definition model_view (c : c11case) : Z * Z * Z * bool * list (Z * Z * Z) :=
  match c with
  | CMyers _ e f obs =>
    match myers Z.eqb e f with
    | Ok s => (0, lenZ s, match obs with Some o => first_diff triple_eqb (map mop_triple s) o 0 | None => -2 end,
               match obs with Some o => valid_script Z.eqb (map triple_mop o) e f | None => false end, map mop_triple s)
    | Panic _ => (599, 0, 0, false, [])
    | Err _ => (500, 0, 0, false, [])
    end
  | CTree _ old new o =>
    let r := mpdDiff old new in
    match r with
    | Ok p => (200, lenZ (p_ops p), first_diff op_eqb (p_ops p) (to_ops o) 0, applied (to_ops o) old new, [])
    | _ => (status_of old new r, 0, 0, false, [])
    end
  end.
