(** Correspondence check for C12: the model of the generated time subtitles (Subs.v) is run on the
    inputs the implementation ran on. *)
From Verif Require Import GoSem Subs.

(** observed cue: begin, end (ms), UTC second *)
Definition ocue := (Z * Z * Z)%type.
(** observed wvtt sample: duration, Some utc / None (vtte) *)
Definition osample := (Z * option Z)%type.

Inductive c12case :=
| CCue (id : Z) (s d u c : Z) (oclass : Z) (ocues : list ocue)       (* direct call of calcCueItvls; class 0 = ok, 3 = panic *)
| CTtml (id : Z) (ms : Z) (o : Z * Z * Z * Z)                         (* direct call of msToTTMLTime, fields parsed from the string *)
| CRep (id : Z) (t ts : Z) (expect_exact : bool) (o : Z)             (* direct call of rep2SubsTime *)
| CScale (id : Z) (boundaries : bool) (oldTS newTS : Z) (expect_exact : bool) (inp outp : list (option Z * Z * Z))
    (* changeTimelineTimescale; [boundaries] = the source converts every segment boundary on its own
       (repair C12-timeline-timescale-boundaries), read from livempd.go of the tree under test *)
| CSeg (id : Z) (wvtt : bool) (r : refseg) (reqTime : option Z) (startS cueDur : Z)
       (ostatus onr otime odur : Z) (ocues : list ocue) (osamples : list osample)
    (* served stpp / wvtt segment; [r] = the served reference video segment; [reqTime] = Some ms for a
       $Time$ request (None: $Number$) *)
| CTmpl (id : Z) (vdur vts : Z) (o : Z)                               (* SegmentTemplate@duration of the subtitle AdaptationSet *)
| CMpdTl (id : Z) (boundaries : bool) (vts : Z) (expect_exact : bool) (vid sub : list (option Z * Z * Z))  (* SegmentTimeline of video and subtitle AdaptationSet *)
| CCfg (id : Z) (cueDur region : Z) (ostatus : Z).                    (* timesubsdur / timesubsreg accepted or 400 *)

Definition c_id (c : c12case) : Z :=
  match c with
  | CCue id _ _ _ _ _ _ | CTtml id _ _ | CRep id _ _ _ _ | CScale id _ _ _ _ _ _
  | CSeg id _ _ _ _ _ _ _ _ _ _ _ | CTmpl id _ _ _ | CMpdTl id _ _ _ _ _ | CCfg id _ _ _ => id
  end.

Definition cue_obs (c : cue) : ocue := (c_start c, c_end c, c_utc c).

Definition ocue_eqb (a b : ocue) : bool :=
  let '(a1, a2, a3) := a in let '(b1, b2, b3) := b in (a1 =? b1) && (a2 =? b2) && (a3 =? b3).

Definition optZ_eqb (a b : option Z) : bool :=
  match a, b with Some x, Some y => x =? y | None, None => true | _, _ => false end.

Definition osample_eqb (a b : osample) : bool := (fst a =? fst b) && optZ_eqb (snd a) (snd b).

Definition sentry_of (e : option Z * Z * Z) : sentry :=
  let '(t, d, r) := e in {| se_t := t; se_d := d; se_r := r |}.
Definition sentry_obs (s : sentry) : option Z * Z * Z := (se_t s, se_d s, se_r s).
Definition entry_eqb (a b : option Z * Z * Z) : bool :=
  let '(a1, a2, a3) := a in let '(b1, b2, b3) := b in optZ_eqb a1 b1 && (a2 =? b2) && (a3 =? b3).

(** [scale_exact]: the exact twin of scale_round (used when the case says the float computation must be exact) *)
Definition entries_exact (oldTS newTS : Z) (l : list (option Z * Z * Z)) : list (option Z * Z * Z) :=
  map (fun e => let '(t, d, r) := e in (option_map (scale_exact oldTS newTS) t, scale_exact oldTS newTS d, r)) l.

Definition case_ok (c : c12case) : bool :=
  match c with
  | CCue _ s d u cd oclass ocues =>
    match calcCueItvls s d u cd with
    | Ok l => (oclass =? 0) && list_eqb ocue_eqb (map cue_obs l) ocues
    | Panic _ => oclass =? 3
    | Err _ => true       (* negative step: not modelled, not generated *)
    end
  | CTtml _ ms o =>
    let '(h, m, s, f) := msToTTML ms in let '(h', m', s', f') := o in
    (h =? h') && (m =? m') && (s =? s') && (f =? f')
  | CRep _ t ts ex o =>
    (rep2SubsTime t ts =? o) && (negb ex || (rep2SubsTime_exact t ts =? o))
  | CScale _ bnd oldTS newTS ex inp outp =>
    if bnd then
      list_eqb entry_eqb (map sentry_obs (changeTimelineTimescaleB oldTS newTS (map sentry_of inp))) outp
      && (negb ex || list_eqb entry_eqb (map sentry_obs (rle (map (conv (scale_exact oldTS newTS)) (segments_from true 0 (map sentry_of inp))))) outp)
    else
    list_eqb entry_eqb (map sentry_obs (changeTimelineTimescale oldTS newTS (map sentry_of inp))) outp
    && (negb ex || list_eqb entry_eqb (entries_exact oldTS newTS inp) outp)
  | CSeg _ wvtt r reqTime startS cueDur ostatus onr otime odur ocues osamples =>
    (* getRefSegMeta for $Time$: the video time computed from the requested ms must be the start of
       the video segment, otherwise findSegMetaFromTime fails (no 200) *)
    if match reqTime with Some ms => negb (subs_time_to_video ms (r_ts r) =? r_time r) | None => false end
    then negb (ostatus =? 200) else
    match subs_segment r startS cueDur with
    | Ok sg =>
      (ostatus =? 200) && (s_nr sg =? onr) && (s_time sg =? otime) &&
      (if wvtt then list_eqb osample_eqb (map (fun x => (w_dur x, w_cue x)) (s_samples sg)) osamples
       else (s_dur sg =? odur) && list_eqb ocue_eqb (map cue_obs (s_cues sg)) ocues)
    | Panic _ => ostatus =? 0
    | Err _ => true
    end
  | CTmpl _ vdur vts o =>
    match subs_template_duration vdur vts with Ok x => x =? o | _ => false end
  | CMpdTl _ bnd vts ex vid sub =>
    if bnd then
      list_eqb entry_eqb (map sentry_obs (changeTimelineTimescaleB vts 1000 (map sentry_of vid))) sub
      && (negb ex || list_eqb entry_eqb (map sentry_obs (rle (map (conv (scale_exact vts 1000)) (segments_from true 0 (map sentry_of vid))))) sub)
    else
    list_eqb entry_eqb (map sentry_obs (changeTimelineTimescale vts 1000 (map sentry_of vid))) sub
    && (negb ex || list_eqb entry_eqb (entries_exact vts 1000 vid) sub)
  | CCfg _ cueDur region ostatus => cfg_timesubs_status cueDur region =? ostatus
  end.

Definition mismatches (cs : list c12case) : list Z :=
  map c_id (filter (fun c => negb (case_ok c)) cs).

(** What the model computes for a case (shown in the replay of a mismatch). *)
Definition model_view (c : c12case) : Z * list ocue * list osample :=
  match c with
  | CCue _ s d u cd _ _ =>
    match calcCueItvls s d u cd with Ok l => (0, map cue_obs l, []) | Panic _ => (3, [], []) | Err _ => (2, [], []) end
  | CSeg _ _ r _ startS cueDur _ _ _ _ _ _ =>
    match subs_segment r startS cueDur with
    | Ok sg => (s_time sg, map cue_obs (s_cues sg), map (fun x => (w_dur x, w_cue x)) (s_samples sg))
    | _ => (-1, [], [])
    end
  | CRep _ t ts _ _ => (rep2SubsTime t ts, [], [])
  | _ => (0, [], [])
  end.
