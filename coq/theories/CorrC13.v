(** Correspondence check for C13: the model of CreateEmsgAhead / CreateSpliceInsertPayload and of
    its use in the server is run on the inputs the implementation ran on. *)
From Verif Require Import GoSem Scte.

(** observed emsg: class 0 = none, 1 = one emsg, 2 = error, 3 = panic, 4 = anything else *)
Record obs := { o_class : Z; o_ts : Z; o_pt : Z; o_dur : Z; o_id : Z; o_data : list Z }.

Inductive c13case :=
| CEmsg (id : Z) (segStart segEnd ts n : Z) (o : obs)                       (* direct call of CreateEmsgAhead *)
| CPayload (id : Z) (p : siparams) (odata : list Z)                         (* direct call of CreateSpliceInsertPayload *)
| CSeg (id : Z) (isVideo : bool) (scte : option Z) (segStart dur ts : Z) (o : obs)  (* served segment *)
| CChunk (id : Z) (isVideo : bool) (scte : option Z) (segStart dur ts : Z) (o : obs) (* served segment, chunked low-latency delivery *)
| CCfg (id : Z) (scte : option Z) (ostatus : Z)                             (* 200 / 400 of a request *)
| CMpd (id : Z) (isVideo : bool) (scte : option Z) (oinband : bool)         (* adaptation set of the MPD *)
| CConst (id : Z) (offs1 offs2 offs3 : list Z) (ad1 ad2 ad3 lead minute clock ptsbits next : Z).
    (* literal operands of CreateEmsgAhead read from pkg/scte35/scte35.go of the tree under test *)

Definition c_id (c : c13case) : Z :=
  match c with
  | CEmsg id _ _ _ _ _ | CPayload id _ _ | CSeg id _ _ _ _ _ _ | CChunk id _ _ _ _ _ _ | CCfg id _ _ | CMpd id _ _ _
  | CConst id _ _ _ _ _ _ _ _ _ _ _ => id
  end.

Definition obs_of (r : res (option emsg)) : obs :=
  match r with
  | Ok None => {| o_class := 0; o_ts := 0; o_pt := 0; o_dur := 0; o_id := 0; o_data := [] |}
  | Ok (Some e) => {| o_class := 1; o_ts := e_timescale e; o_pt := e_pt e; o_dur := e_dur e; o_id := e_id e;
                      o_data := e_data e |}
  | Err _ => {| o_class := 2; o_ts := 0; o_pt := 0; o_dur := 0; o_id := 0; o_data := [] |}
  | Panic _ => {| o_class := 3; o_ts := 0; o_pt := 0; o_dur := 0; o_id := 0; o_data := [] |}
  end.

Definition obs_eqb (a b : obs) : bool :=
  (o_class a =? o_class b) && (o_ts a =? o_ts b) && (o_pt a =? o_pt b) && (o_dur a =? o_dur b)
  && (o_id a =? o_id b) && list_eqb Z.eqb (o_data a) (o_data b).

(** the constants the model is written with, in the order of [CConst] *)
Definition model_consts : list (list Z) :=
  let offs n := match splice_offsets n with Some l => l | None => [] end in
  [offs 1; offs 2; offs 3; [ad_seconds 1; ad_seconds 2; ad_seconds 3; announce_lead; minute_s; pts_clock; Z.log2 two33; next_minute_first]].

Definition model_obs (c : c13case) : obs :=
  match c with
  | CEmsg _ s e ts n _ => obs_of (createEmsgAhead s e ts n)
  | CSeg _ v scte s d ts _ => obs_of (delivered_emsg false v scte s d ts)
  | CChunk _ v scte s d ts _ => obs_of (delivered_emsg true v scte s d ts)
  | CPayload _ p _ =>
    {| o_class := 1; o_ts := 0; o_pt := 0; o_dur := 0; o_id := 0; o_data := createSpliceInsertPayload p |}
  | CCfg _ scte _ =>
    {| o_class := cfg_scte_status scte; o_ts := 0; o_pt := 0; o_dur := 0; o_id := 0; o_data := [] |}
  | CMpd _ v scte _ =>
    {| o_class := if inband_event_stream v scte then 1 else 0; o_ts := 0; o_pt := 0; o_dur := 0; o_id := 0; o_data := [] |}
  | CConst _ _ _ _ _ _ _ _ _ _ _ _ =>
    {| o_class := 5; o_ts := 0; o_pt := 0; o_dur := 0; o_id := 0; o_data := concat model_consts |}
  end.

Definition observed (c : c13case) : obs :=
  match c with
  | CEmsg _ _ _ _ _ o | CSeg _ _ _ _ _ _ o | CChunk _ _ _ _ _ _ o => o
  | CPayload _ _ d => {| o_class := 1; o_ts := 0; o_pt := 0; o_dur := 0; o_id := 0; o_data := d |}
  | CCfg _ _ st => {| o_class := st; o_ts := 0; o_pt := 0; o_dur := 0; o_id := 0; o_data := [] |}
  | CMpd _ _ _ b => {| o_class := if b then 1 else 0; o_ts := 0; o_pt := 0; o_dur := 0; o_id := 0; o_data := [] |}
  | CConst _ o1 o2 o3 a1 a2 a3 lead minute clock bits next =>
    {| o_class := if (lenZ o1 =? 1) && (lenZ o2 =? 2) && (lenZ o3 =? 3) then 5 else 6;
       o_ts := 0; o_pt := 0; o_dur := 0; o_id := 0;
       o_data := o1 ++ o2 ++ o3 ++ [a1; a2; a3; lead; minute; clock; bits; next] |}
  end.

Definition case_ok (c : c13case) : bool := obs_eqb (model_obs c) (observed c).

Definition mismatches (cs : list c13case) : list Z :=
  map c_id (filter (fun c => negb (case_ok c)) cs).

(** What the model computes for a case (shown in the replay of a mismatch). *)
Definition model_view (c : c13case) : Z * Z * Z * Z * Z * list Z :=
  let o := model_obs c in (o_class o, o_ts o, o_pt o, o_dur o, o_id o, o_data o).
