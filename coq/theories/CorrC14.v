(** Correspondence for C14: the model of Fault.v is run on the requests the implementation served
    (same segment table, same configuration, same instant) and the answers are compared.
    Observed panics are normalised by the harness to "<function>: <kind>". *)
From Verif Require Import GoSem Timeline Fault.

Inductive c14case :=
(** a media-segment request with statuscode_ configured (L1, through the HTTP handler);
    [fx]: the implementation under test has the proposed repair of calcStatusCode (probed) *)
| CStatus (id : Z) (fx : bool) (r : rep) (loopMS : Z) (cfg : tcfg) (codes : list sscode) (repID : string)
          (audio : option (Z * Z)) (mode : addressing) (segID now base : Z)
          (obs : Z) (opanic : string)
(** a media segment of a generated subtitle track with statuscode_ configured, implementation
    without the repair for these tracks (with it: CStatus with audio = Some (1000, 1)) *)
| CSubs (id : Z) (cfg : tcfg) (codes : list sscode) (now base obs : Z)
(** calcStatusCode on a synthetic one-representation asset (L2, hook): obs = code, -1 = error *)
| CCalc (id : Z) (fx : bool) (r : rep) (loopMS : Z) (cfg : tcfg) (codes : list sscode) (repID : string)
        (mode : addressing) (segID now : Z) (obs : Z) (opanic : string)
(** a media-segment request with traffic_ configured (L1): [pattern] is the value of the
    parameter, [basePlain]/[baseStripped] the answers without the parameter to the path as it is
    and to the path without its second element *)
| CTraffic (id : Z) (fxl : bool) (pattern : list Z) (segPart : string) (now basePlain baseStripped : Z)
           (obs odelay : Z) (opanic : string)
(** CreateLossItvls / CycleDurS / StateAt through the exported API (L2, no hook):
    oerr, the intervals as (dur, state), the cycle, the states at [secs] (-1 = panic) *)
| CLoss (id : Z) (fxl : bool) (pattern : list Z) (oerr : bool) (oitvls : list (Z * Z)) (ocycle : Z)
        (secs : list Z) (ostates : list Z)
(** the BaseURL elements of the MPD (status 400 and none for an invalid parameter) *)
| CBase (id : Z) (fxl : bool) (pattern : list Z) (ostatus : Z) (obase : list string).

Definition c_id (c : c14case) : Z :=
  match c with
  | CStatus id _ _ _ _ _ _ _ _ _ _ _ _ _ => id
  | CCalc id _ _ _ _ _ _ _ _ _ _ _ => id
  | CSubs id _ _ _ _ _ => id
  | CTraffic id _ _ _ _ _ _ _ _ _ => id
  | CLoss id _ _ _ _ _ _ _ => id
  | CBase id _ _ _ _ => id
  end.

Definition ansView (a : answer) : Z * string :=
  match a with AStatus s => (s, EmptyString) | APanic s => (0, s) end.

Definition trafficView (fxl : bool) (pattern : list Z) (segPart : string) (now basePlain baseStripped : Z)
  : Z * Z * string :=
  match parseAllLoss fxl pattern with
  | Err _ => (400, 0, EmptyString)
  | Panic s => (0, 0, s)
  | Ok traffic =>
    match trafficStep traffic segPart now with
    | TrPanic s => (0, 0, s)
    | TrStatus code d => (code, d, EmptyString)
    | TrContinue sp d => (if String.eqb sp segPart then basePlain else baseStripped, d, EmptyString)
    end
  end.

Definition lossView (fxl : bool) (pattern : list Z) (secs : list Z) : bool * list (Z * Z) * Z * list Z :=
  match parseLoss fxl pattern with
  | Ok l => (false, map (fun i => (l_dur i, lstateZ (l_state i))) l, cycleDurS l,
             map (fun s => match stateAt l s with Ok st => lstateZ st | _ => -1 end) secs)
  | _ => (true, [], 0, [])
  end.

Definition calcView (fx : bool) (r : rep) loopMS cfg codes repID mode segID now : Z * string :=
  match lookup r loopMS cfg mode segID now with
  | TOk m => match calcStatusCode fx r loopMS cfg codes repID m with
             | Ok code => (code, EmptyString)
             | Err _ => (-1, EmptyString)
             | Panic s => (0, s)
             end
  | TPanic s => (0, s)
  | _ => (-1, EmptyString)
  end.

Definition pairZ_eqb (a b : Z * Z) : bool := (fst a =? fst b) && (snd a =? snd b).

Definition case_ok (c : c14case) : bool :=
  match c with
  | CStatus _ fx r loopMS cfg codes repID audio mode segID now base obs opanic =>
    let '(s, p) := ansView (segAnswer fx r loopMS cfg codes repID audio mode segID now base) in
    (s =? obs) && String.eqb p opanic
  | CCalc _ fx r loopMS cfg codes repID mode segID now obs opanic =>
    let '(s, p) := calcView fx r loopMS cfg codes repID mode segID now in
    (s =? obs) && String.eqb p opanic
  | CSubs _ cfg codes now base obs =>
    let '(s, p) := ansView (subsAnswerUnrepaired cfg codes now base) in (s =? obs) && String.eqb p EmptyString
  | CTraffic _ fxl pattern segPart now bp bs obs odelay opanic =>
    let '(s, d, p) := trafficView fxl pattern segPart now bp bs in
    (s =? obs) && (d =? odelay) && String.eqb p opanic
  | CLoss _ fxl pattern oerr oitvls ocycle secs ostates =>
    let '(e, l, cy, sts) := lossView fxl pattern secs in
    Bool.eqb e oerr && list_eqb pairZ_eqb l oitvls && (cy =? ocycle) && list_eqb Z.eqb sts ostates
  | CBase _ fxl pattern ostatus obase =>
    match parseAllLoss fxl pattern with
    | Ok traffic => (ostatus =? 200) && list_eqb String.eqb (mpdBaseURLs traffic) obase
    | Err _ => (ostatus =? 400) && list_eqb String.eqb [] obase
    | Panic _ => false
    end
  end.

Definition mismatches (cs : list c14case) : list Z :=
  map c_id (filter (fun c => negb (case_ok c)) cs).

Inductive mview :=
| VAns (s : Z) (p : string)
| VTraffic (s d : Z) (p : string)
| VLoss (v : bool * list (Z * Z) * Z * list Z)
| VBase (l : res (list string)).

Definition model_view (c : c14case) : mview :=
  match c with
  | CStatus _ fx r loopMS cfg codes repID audio mode segID now base _ _ =>
    let '(s, p) := ansView (segAnswer fx r loopMS cfg codes repID audio mode segID now base) in VAns s p
  | CCalc _ fx r loopMS cfg codes repID mode segID now _ _ =>
    let '(s, p) := calcView fx r loopMS cfg codes repID mode segID now in VAns s p
  | CSubs _ cfg codes now base _ =>
    let '(s, p) := ansView (subsAnswerUnrepaired cfg codes now base) in VAns s p
  | CTraffic _ fxl pattern segPart now bp bs _ _ _ =>
    let '(s, d, p) := trafficView fxl pattern segPart now bp bs in VTraffic s d p
  | CLoss _ fxl pattern _ _ _ secs _ => VLoss (lossView fxl pattern secs)
  | CBase _ fxl pattern _ _ => VBase (do t <- parseAllLoss fxl pattern; Ok (mpdBaseURLs t))
  end.
