(** Correspondence check for C15: the loader model is run on the file observations the
    implementation ran on; registered assets, tables, admission decision and the written cache
    files are compared.  The cache file contents are handed over already decoded (the harness
    gunzips and parses them itself), so [B := stored], [enc := id], [dec := Some]. *)
From Verif Require Import GoSem Timeline Cache.

Definition enc0 (s : stored) : stored := s.
Definition dec0 (s : stored) : option stored := Some s.

Record orep := {
  or_id : string; or_ctype : string; or_codecs : string; or_mpdts : Z; or_mediats : Z;
  or_inituri : string; or_mediauri : string;
  or_segs : list (Z * Z * Z * Z);          (* StartTime, EndTime, Nr, CommonSampleDur *)
  or_dsd : Z; or_const : option Z; or_preenc : bool
}.

Record oasset := {
  oa_path : string; oa_mpds : list string; oa_segdur : Z; oa_loop : Z; oa_ref : string;
  oa_reps : list orep
}.

Record c15case := {
  c_id : Z;
  c_mode : lmode;
  c_consolidate : bool;                       (* true: discoverAssets; false: loadAsset calls only *)
  c_mpds : mpd_list;
  c_cache : list (string * string * cobs stored);
  o_err : bool;                               (* discoverAssets returned an error *)
  o_panic : bool;                             (* the loader panicked *)
  o_assets : list oasset;
  o_cache : list (string * string * option stored)   (* cache files after the run *)
}.

Fixpoint cache_of (l : list (string * string * cobs stored)) : cache stored :=
  match l with
  | [] => fun _ _ => CAbsent
  | (a, id, o) :: t => fun a' id' => if String.eqb a a' && String.eqb id id' then o else cache_of t a' id'
  end.

(** $Time$ files from an association list. *)
Fixpoint tfiles_of (l : list (Z * fobs)) (t : Z) : fobs :=
  match l with
  | [] => FMissing
  | (k, f) :: r => if k =? t then f else tfiles_of r t
  end.

(** init segments of an asset by URI, from an association list (anything else: not there). *)
Fixpoint inits_of (l : list (string * init_obs)) (u : string) : init_obs :=
  match l with
  | [] => IBad
  | (k, i) :: r => if String.eqb k u then i else inits_of r u
  end.

Definition opt_eqb {A} (eqb : A -> A -> bool) (a b : option A) : bool :=
  match a, b with
  | Some x, Some y => eqb x y
  | None, None => true
  | _, _ => false
  end.

Definition seg_eqb (s : cseg) (o : Z * Z * Z * Z) : bool :=
  let '(a, b, c, d) := o in (c_st s =? a) && (c_en s =? b) && (c_nr s =? c) && (c_csd s =? d).

Definition rep_eqb (r : repdata) (o : orep) : bool :=
  String.eqb (r_id r) (or_id o) && String.eqb (r_ctype r) (or_ctype o) && String.eqb (r_codecs r) (or_codecs o) &&
  (r_mpdts r =? or_mpdts o) && (r_mediats r =? or_mediats o) &&
  String.eqb (r_inituri r) (or_inituri o) && String.eqb (r_mediauri r) (or_mediauri o) &&
  list_eqb seg_eqb (r_segs r) (or_segs o) && (r_dsd r =? or_dsd o) &&
  opt_eqb Z.eqb (r_const r) (or_const o) && Bool.eqb (r_preenc r) (or_preenc o).

Definition reps_eqb (m : list (string * repdata)) (o : list orep) : bool :=
  (lenZ m =? lenZ o) &&
  forallb (fun x => match lookup (or_id x) m with Some r => rep_eqb r x | None => false end) o.

Definition asset_eqb (consolidated : bool) (a : asset) (o : oasset) : bool :=
  list_eqb String.eqb (a_mpds a) (oa_mpds o) && (a_segdur a =? oa_segdur o) &&
  (if consolidated then (a_loop a =? oa_loop o) && opt_eqb String.eqb (a_ref a) (Some (oa_ref o)) else true) &&
  reps_eqb (a_reps a) (oa_reps o).

Definition assets_eqb (consolidated : bool) (m : list (string * asset)) (o : list oasset) : bool :=
  (lenZ m =? lenZ o) &&
  forallb (fun x => match lookup (oa_path x) m with Some a => asset_eqb consolidated a x | None => false end) o.

Definition seg3_eqb (a b : seg) : bool := (st a =? st b) && (en a =? en b) && (snr a =? snr b).

Definition stored_eqb (a b : stored) : bool :=
  String.eqb (s_id a) (s_id b) && String.eqb (s_ctype a) (s_ctype b) && String.eqb (s_codecs a) (s_codecs b) &&
  (s_mpdts a =? s_mpdts b) && (s_mediats a =? s_mediats b) &&
  String.eqb (s_inituri a) (s_inituri b) && String.eqb (s_mediauri a) (s_mediauri b) &&
  list_eqb seg3_eqb (s_segs a) (s_segs b) && (s_dsd a =? s_dsd b) &&
  opt_eqb Z.eqb (s_const a) (s_const b) && Bool.eqb (s_preenc a) (s_preenc b).

Definition cache_eqb (c : cache stored) (o : list (string * string * option stored)) : bool :=
  forallb (fun x => let '(a, id, f) := x in
                    match c a id, f with
                    | CBytes s, Some s' => stored_eqb s s'
                    | CAbsent, None => true
                    | _, _ => false
                    end) o.

Definition run_case (c : c15case) : res (list (string * asset) * cache stored) :=
  if c_consolidate c then discover stored enc0 dec0 (c_mode c) (c_mpds c) (cache_of (c_cache c))
  else load_all stored enc0 dec0 (c_mode c) (c_mpds c) [] (cache_of (c_cache c)).

Definition case_ok (c : c15case) : bool :=
  match run_case c with
  | Ok (assets, cch) =>
    negb (o_err c) && negb (o_panic c) && assets_eqb (c_consolidate c) assets (o_assets c) && cache_eqb cch (o_cache c)
  | Err _ => o_err c && negb (o_panic c)
  | Panic _ => o_panic c
  end.

Definition mismatches (cs : list c15case) : list Z :=
  map c_id (filter (fun c => negb (case_ok c)) cs).

(** What the model computes for a case (shown in the replay of a mismatch):
    per asset: path, SegmentDurMS, LoopDurMS, reps as (id, timescale, default dur, table). *)
Definition model_view (c : c15case) :=
  match run_case c with
  | Ok (assets, _) =>
    (0, map (fun pa => (fst pa, a_segdur (snd pa), a_loop (snd pa),
                        map (fun kr => (fst kr, r_mediats (snd kr), r_dsd (snd kr), r_const (snd kr),
                                        map (fun s => (c_st s, c_en s, c_nr s, c_csd s)) (r_segs (snd kr))))
                            (a_reps (snd pa)))) assets)
  | Err _ => (1, [])
  | Panic _ => (2, [])
  end.
