(** Correspondence check for C16: the model of theories/Ingest.v is run on the inputs the
    implementation ran on (availability times, whole ingest sessions, hand-over runs). *)
From Verif Require Import GoSem Timeline Ingest.

(** Observed result of calcSegmentAvailabilityTime: a value, or a run-time panic. *)
Inductive oavail := OAv (ms : Z) | OAvPanic.

(** One event of a session as the harness played it. *)
Inductive cev :=
| CStep (refuse : list bool)          (* GET /api/cmaf-ingests/{id}/step *)
| CTimer (clock : list Z)             (* real-time mode: the timer fired; readings reconstructed *)
| CDelete.                            (* DELETE /api/cmaf-ingests/{id} *)

Record sesscase := {
  s_reps : list irep; s_ref : rep; s_loopMS : Z; s_segDurMS : Z; s_cfg : tcfg;
  s_timeline : bool; s_test : bool; s_dur : option Z; s_chunked : bool;
  s_now : Z; s_initres : list bool;
  s_cancel_init : option Z;                       (* DELETE while the init PUT of this representation is pending *)
  s_events : list cev;
  (* observed *)
  o_inits : list Z;                               (* representation indices of the init PUTs in arrival order *)
  o_events : list (list (Z * Z * bool));          (* per event: (rep index, id, lmsg) of the media PUTs in arrival order *)
  o_returned : list bool;                         (* per event: the API call returned *)
  o_final : Z                                     (* 1 running, 2 stopped, 3 process died *)
}.

Record handcase := {
  h_cap : Z; h_writes : list Z (* lengths; byte i of the stream is i mod 251 *); h_psizes : list Z; h_pdefault : Z;
  oh_rets : list Z;        (* return values of Read in order, -1 = io.EOF *)
  oh_len : Z;              (* bytes received *)
  oh_equal : bool          (* received bytes = written bytes *)
}.

Inductive c16case :=
| CAvail (id : Z) (r : rep) (loopMS : Z) (c : tcfg) (nr : Z) (o : oavail)
| CSess (id : Z) (s : sesscase)
| CHand (id : Z) (h : handcase).

Definition c_id (c : c16case) : Z :=
  match c with CAvail id _ _ _ _ _ => id | CSess id _ => id | CHand id _ => id end.

(** ** availability time *)
Section Rounding.
(** The rounding of calcSegmentAvailabilityTime in the tree under test (read from its source by the harness). *)
Variable rm : rounding.
(** Whether its catch-up loop looks at lastSegNrToSend (read from the source as well). *)
Variable cc : bool.
(** Whether the first number honours the start number and an empty timeline (read from the source as well). *)
Variable ff : bool.

Definition avail_ok (r : rep) (loopMS : Z) (c : tcfg) (nr : Z) (o : oavail) : bool :=
  match availMS_float_r rm r loopMS c nr, o with
  | Ok m, OAv ms => m =? ms
  | Panic _, OAvPanic => true
  | _, _ => false
  end.

(** ** sessions *)
Definition ev_of (e : cev) : event :=
  match e with
  | CStep refuse => EvTrigger {| fi_clock := []; fi_refuse := refuse |}
  | CTimer clock => EvTimer {| fi_clock := clock; fi_refuse := [] |}
  | CDelete => EvCancel
  end.

Definition scfg_of (s : sesscase) : scfg :=
  mk_scfg_rcf rm cc ff (s_reps s) (s_ref s) (s_loopMS s) (s_segDurMS s) (s_cfg s) (s_timeline s) (s_test s) (s_dur s) (s_chunked s).

(** Per event: the PUTs that are made (attempts that writeSegment accepts), groups in order, and
    whether the API call of that event returns (a trigger is only taken by a running loop). *)
Fixpoint run_events (cf : scfg) (st : sstate) (evs : list event)
  : list (list mput) * list bool * sstate :=
  match evs with
  | [] => ([], [], st)
  | ev :: evs' =>
    let returned := match ev, ph st with
                    | EvCancel, PCrashed _ => false
                    | EvCancel, _ => true
                    | _, PRunning => true
                    | _, _ => false end in
    let '(gs, st1) := step cf st ev in
    let '(rest, rets, st2) := run_events cf st1 evs' in
    (filter mp_ok (concat gs) :: rest, returned :: rets, st2)
  end.

Definition phase_code (p : phase) : Z :=
  match p with PRunning => 1 | PHung => 1 | PStopped => 2 | PCrashed _ => 3 end.

Definition put_eqb (rep : Z) (m : mput) (o : Z * Z * bool) : bool :=
  let '(orep, oid, olast) := o in
  (orep =? rep) && Bool.eqb (mp_last m) olast &&
  match mp_id m with Some id => id =? oid | None => true end.

(** Per representation the sequences must agree (PUTs of different representations run in parallel). *)
Definition event_eqb (nreps : nat) (ms : list mput) (os : list (Z * Z * bool)) : bool :=
  (Nat.eqb (length ms) (length os)) &&
  forallb (fun i => list_eqb (put_eqb i)
                             (filter (fun m => mp_rep m =? i) ms)
                             (filter (fun o => fst (fst o) =? i) os))
          (seqZ 0 nreps).

Fixpoint bools_eqb (a b : list bool) : bool :=
  match a, b with
  | [], [] => true
  | x :: a', y :: b' => Bool.eqb x y && bools_eqb a' b'
  | _, _ => false
  end.

(** Once the process has died nothing more is observed: the comparison stops at that event. *)
Fixpoint upto_crash {A} (rets : list bool) (l : list A) : list A :=
  match rets, l with
  | r :: rets', x :: l' => x :: upto_crash rets' l'
  | _, _ => []
  end.

Definition sess_model (s : sesscase) :=
  let cf := scfg_of s in
  let '(inits, st0) := match s_cancel_init s with
                       | None => start cf (s_now s) (s_initres s)
                       | Some k => start_cancelled cf k end in
  let '(per_ev, rets, st1) := run_events cf st0 (map ev_of (s_events s)) in
  (inits, per_ev, rets, st1).

Definition sess_ok (s : sesscase) : bool :=
  let '(inits, per_ev, rets, st1) := sess_model s in
  let crashed := match ph st1 with PCrashed _ => true | _ => false end in
  list_eqb Z.eqb inits (o_inits s) &&
  (phase_code (ph st1) =? o_final s) &&
  (if crashed then true
   else list_eqb (event_eqb (length (s_reps s))) per_ev (o_events s) && bools_eqb rets (o_returned s)).

(** ** hand-over *)
Fixpoint gen_writes (pos : Z) (lens : list Z) : list (list Z) :=
  match lens with
  | [] => []
  | n :: t => map (fun i => i mod 251) (seqZ pos (Z.to_nat n)) :: gen_writes (pos + n) t
  end.

Definition psize_of (h : handcase) : nat -> Z := fun k => nth k (h_psizes h) (h_pdefault h).

(** Enough for the run that was observed: every Read call and every round of the Write loop costs a
    bounded number of transitions (too little fuel shows up as a non-terminal state = mismatch). *)
Definition hand_fuel (h : handcase) : nat :=
  Z.to_nat (16 * (lenZ (oh_rets h) + lenZ (h_writes h) + fold_left Z.add (h_writes h) 0 / Z.max 1 (h_cap h) + 8)).

Definition hand_model (h : handcase) : hstate :=
  hrun_greedy (psize_of h) (hand_fuel h) (hinit (h_cap h) (gen_writes 0 (h_writes h))).

Definition hand_ok (h : handcase) : bool :=
  let s := hand_model h in
  hterminal s && match hfail s with None => true | Some _ => false end &&
  list_eqb Z.eqb (r_rets s) (oh_rets h) &&
  (lenZ (r_out s) =? oh_len h) &&
  Bool.eqb (list_eqb Z.eqb (r_out s) (concat (gen_writes 0 (h_writes h)))) (oh_equal h).

Definition case_ok (c : c16case) : bool :=
  match c with
  | CAvail _ r loopMS cfg nr o => avail_ok r loopMS cfg nr o
  | CSess _ s => sess_ok s
  | CHand _ h => hand_ok h
  end.

Definition mismatches_r (cs : list c16case) : list Z :=
  map c_id (filter (fun c => negb (case_ok c)) cs).

(** What the model computes for a case (shown in the replay of a mismatch). *)
Inductive view :=
| VAvail (r : res Z)
| VSess (inits : list Z) (per_ev : list (list (Z * Z * option Z * Z * bool))) (rets : list bool) (final : Z) (next : Z)
| VHand (rets : list Z) (len : Z) (term : bool) (fail : option string).

Definition model_view_r (c : c16case) : view :=
  match c with
  | CAvail _ r loopMS cfg nr _ => VAvail (availMS_float_r rm r loopMS cfg nr)
  | CSess _ s =>
    let '(inits, per_ev, rets, st1) := sess_model s in
    VSess inits (map (map (fun m => (mp_rep m, mp_nr m, mp_id m, mp_now m, mp_last m))) per_ev) rets
          (phase_code (ph st1)) (nextNr st1)
  | CHand _ h => let s := hand_model h in VHand (r_rets s) (lenZ (r_out s)) (hterminal s) (hfail s)
  end.
End Rounding.

Definition mismatches := mismatches_r RCeil true true.
Definition model_view := model_view_r RCeil true true.
