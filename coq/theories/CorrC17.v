(** Correspondence check for C17: the model is driven by the operation sequences the real
    structs were driven by (through /repo/cmd/cmaf-ingest-receiver/app/verif_hooks_c17.go) and
    must produce the same observation after every operation, including panics and their site. *)
From Verif Require Import GoSem Recv.
From Coq Require Import ZifyBool Uint63.

Inductive op :=
| OScAdd (n : Z) | OScDrop (n : Z) | OScResize (w : Z) | OScFullRange (k : Z) | OScNewFull (k m : Z) | OScMin (m : Z)
| OBAdd (it : item) | OBGet (n : Z) | OBResize (n : Z) | OBDrop (n : Z) | OBUnshift
| OGAdd (name : Z) (it : item) | OGStart (w : Z) (sh : bool) | OGDrop (n : Z) | OGResize (w : Z) | OGGen (nl : Z)
| OCRecv (name : Z) (it : item) | OCInit (name : Z)
| OCUp (name : Z) (it : item)       (* kind 4: an upload through the HTTP handler *)
| OCUpIn (name seqIn tIn dur : Z)   (* kind 4: the same, number / time / shifted flag derived as the callback does *)
| OCUpAbort (name seq : Z)          (* kind 4: an upload that breaks after its first chunks: refused, only the file is touched *)
| OCRefused.                        (* kind 4: an upload refused before anything is stored (track directory cannot be created) *)

(** [ObsHash n h]: an observation of [n] numbers given by its polynomial hash (long states) *)
Inductive obs := ObsOk (l : list Z) | ObsHash (n h : Z) | ObsPanic (site : string).

(** polynomial hash in native 63-bit arithmetic (wraps mod 2^63); the harness computes the same *)
Definition obs_hash (l : list Z) : Z :=
  Uint63.to_Z (fold_left (fun acc x => Uint63.add (Uint63.mul acc 1000003%uint63) (Uint63.of_Z (x + 2))) l 0%uint63).

(** kind 0 seqCounters, 1 segDataBuffer, 2 segmentTimelineGenerator, 3 channel,
    4 receiver behind its router (channel + stored files) *)
Record c17case := {
  c_id : Z;
  c_kind : Z;
  c_w : Z;                       (* initial window / size; timeShiftBufferDepthS for kind 3 *)
  c_ntracks : Z;                 (* track names are 0 .. c_ntracks-1 *)
  c_tracks : list track;         (* kind 3: the tracks an OCInit can register *)
  c_asets : list (list Z);       (* adaptation sets (representation names) *)
  c_ops : list op;
  c_obs : list obs
}.

Inductive mstate := MSc (s : sc) | MB (b : sdb) | MG (g : gen) | MC (c : chan)
| ML (c : chan) (files : list (Z * Z)).     (* files: (track, number), sorted *)

(** the upload callback: create <track>/<nr>, then delete <track>/<nr - maxNrBufSegs> when
    maxNrBufSegs is known (uint32 arithmetic) *)
Definition pair_ltb (a b : Z * Z) : bool := (fst a <? fst b) || ((fst a =? fst b) && (snd a <? snd b)).
Definition pair_eqb (a b : Z * Z) : bool := (fst a =? fst b) && (snd a =? snd b).
Fixpoint file_add (f : Z * Z) (l : list (Z * Z)) : list (Z * Z) :=
  match l with
  | [] => [f]
  | x :: t => if pair_eqb f x then l else if pair_ltb f x then f :: l else x :: file_add f t
  end.
Definition file_del (f : Z * Z) (l : list (Z * Z)) : list (Z * Z) := filter (fun x => negb (pair_eqb f x)) l.
Definition files_upload (c : chan) (name seq : Z) (files : list (Z * Z)) : list (Z * Z) :=
  let f1 := file_add (name, seq) files in
  if 0 <? ch_maxBuf c then file_del (name, u32 (seq - ch_maxBuf c)) f1 else f1.
(** chunkParserCallback, first chunk: the outgoing number, time and isShifted of an upload with
    mfhd number [seqIn] and baseMediaDecodeTime [tIn], from the master values the handler read
    (tracks whose timescale is not rewritten: timeScaleIn = timeScaleOut; startNr = 0; int64 range) *)
Definition derive_item (c : chan) (t : track) (seqIn tIn dur : Z) : res item :=
  if negb (ch_timeShift c =? 0) || negb (ch_seqShift c =? 0) then
    let tsIn := tr_tsOut t in
    do r1 <- (if negb (ch_timeShift c =? 0) then
                (* rescaleTime (c479264): t * num / den with a 128-bit product, the identity for equal timescales *)
                do t1 <- (if negb (ch_mts c =? tsIn) then go_div "upload:div" (tIn * ch_mts c) tsIn else Ok tIn);
                do t3 <- (if negb (ch_mts c =? tsIn) then go_div "upload:div" ((t1 + ch_timeShift c) * tsIn) (ch_mts c)
                          else Ok (t1 + ch_timeShift c));
                Ok (t3, true)
              else Ok (tIn, false));
    do m <- go_div "upload:div" (ch_mdur c * tsIn) (ch_mts c);
    do q <- go_div "upload:div" (fst r1 + Z.quot m 2) m;
    let seq := u32 q in
    Ok (mkItem seq (u64 (fst r1)) dur (snd r1 || negb (seq =? seqIn)))
  else Ok (mkItem seqIn tIn dur false).

Definition flat_files (l : list (Z * Z)) : list Z := flat_map (fun f => [fst f; snd f]) l.

Definition zb (b : bool) : Z := if b then 1 else 0.

Definition flat_counters (l : list counter) : list Z := map fst l ++ map snd l.
Definition flat_item (i : item) : list Z := [i_seq i; i_dts i; i_dur i; zb (i_shifted i)].
Definition flat_items (l : list item) : list Z := flat_map flat_item l.

(** complete state (array up to cap) *)
Definition flat_sc (s : sc) : list Z :=
  [slen (sc_sl s); sc_n s; sc_w s; scap (sc_sl s)] ++ flat_counters (arr (sc_sl s)).
Definition flat_sdb (b : sdb) : list Z :=
  [slen (b_sl b); b_n b; b_size b; scap (b_sl b)] ++ flat_items (arr (b_sl b)).

(** live part only (what does not depend on Go's map iteration order in start / dropSeqNr) *)
Definition live_sc (s : sc) : list Z :=
  [slen (sc_sl s); sc_n s; sc_w s] ++ flat_counters (takeZ (sc_n s) (arr (sc_sl s))).
Definition live_sdb (b : sdb) : list Z :=
  [slen (b_sl b); b_n b; b_size b] ++ flat_items (takeZ (b_n b) (arr (b_sl b))).

Definition flat_gen (nt : Z) (g : gen) : list Z :=
  [g_latest g; g_w g; g_ntracks g; zb (g_started g); zb (g_shifted g)] ++ live_sc (g_cnt g) ++
  flat_map (fun k => match lookup k (g_bufs g) with None => [-1] | Some b => 1 :: live_sdb b end)
           (seqZ 0 (Z.to_nat nt)).

Definition flat_selems (l : list selem) : list Z :=
  lenZ l :: flat_map (fun s => [fst (fst s); snd (fst s); snd s]) l.

Definition flat_pub (p : option published) : list Z :=
  match p with
  | None => [0]
  | Some p => [1; p_first p; p_last p] ++ flat_map flat_selems (p_tl p)
  end.

Definition flat_chan (nt : Z) (c : chan) : list Z :=
  [ch_mdur c; ch_mts c; ch_seqShift c; ch_timeShift c; ch_maxBuf c] ++ flat_gen nt (ch_gen c).

Definition init_state (c : c17case) : mstate :=
  match c_kind c with
  | 0 => MSc (sc_new (c_w c))
  | 1 => MB (sdb_new (c_w c))
  | 2 => MG (gen_new (c_w c))
  | 3 => MC (chan_new (c_asets c) (c_w c))
  | _ => ML (chan_new (c_asets c) (c_w c)) []
  end.

Definition opt_item (o : option item) : list Z :=
  match o with None => [0] | Some i => 1 :: flat_item i end.

(** one operation: new state and the observation (operation result followed by the state) *)
Definition step (cs : c17case) (st : mstate) (o : op) : res (mstate * list Z) :=
  match st, o with
  | MSc s, OScAdd n => do s' <- sc_add s n; Ok (MSc s', flat_sc s')
  | MSc s, OScDrop n => do s' <- sc_drop s n; Ok (MSc s', flat_sc s')
  | MSc s, OScResize w => do s' <- sc_resize s w; Ok (MSc s', flat_sc s')
  | MSc s, OScFullRange k => do r <- sc_fullRange s k; Ok (MSc s, [fst r; snd r] ++ flat_sc s)
  | MSc s, OScNewFull k m => do r <- sc_newFullCounter s k m; Ok (MSc s, r :: flat_sc s)
  | MSc s, OScMin m => Ok (MSc s, sc_minFromMax s m :: flat_sc s)
  | MB b, OBAdd it => do r <- sdb_add b it; Ok (MB (fst r), zb (snd r) :: flat_sdb (fst r))
  | MB b, OBGet n => do r <- sdb_getItem b n; Ok (MB b, opt_item r ++ flat_sdb b)
  | MB b, OBResize n => do b' <- sdb_resize b n; Ok (MB b', flat_sdb b')
  | MB b, OBDrop n => do b' <- sdb_dropSeqNr b n; Ok (MB b', flat_sdb b')
  | MB b, OBUnshift => do r <- sdb_removeUnshifted b; Ok (MB (fst r), (lenZ (snd r) :: snd r) ++ flat_sdb (fst r))
  | MG g, OGAdd name it =>
      do r <- gen_addSegmentData g name it;
      let '(g', n, ok) := r in Ok (MG g', [n; zb ok] ++ flat_gen (c_ntracks cs) g')
  | MG g, OGStart w sh => do g' <- gen_start g w sh; Ok (MG g', flat_gen (c_ntracks cs) g')
  | MG g, OGDrop n => do g' <- gen_dropSeqNr g n; Ok (MG g', flat_gen (c_ntracks cs) g')
  | MG g, OGResize w => do g' <- gen_resize g w; Ok (MG g', flat_gen (c_ntracks cs) g')
  | MG g, OGGen nl =>
      do r <- gen_generate g nl (c_asets cs);
      Ok (MG (fst r), flat_pub (snd r) ++ flat_gen (c_ntracks cs) (fst r))
  | MC c, OCRecv name it =>
      do r <- chan_received c name it;
      Ok (MC (o_chan r), flat_pub (o_pub r) ++ flat_chan (c_ntracks cs) (o_chan r))
  | MC c, OCInit name =>
      match find_track name (c_tracks cs) with
      | Some t => let c' := chan_register c t in Ok (MC c', ch_master c' :: flat_chan (c_ntracks cs) c')
      | None => Err "unknown track"
      end
  | ML c files, OCInit name =>
      match find_track name (c_tracks cs) with
      | Some t => let c' := chan_register c t in
                  Ok (ML c' files, [200; 0] ++ flat_chan (c_ntracks cs) c' ++ flat_files files)
      | None => Err "unknown track"
      end
  | ML c files, OCUp name it =>
      let files' := files_upload c name (i_seq it) files in
      do r <- chan_received c name it;
      Ok (ML (o_chan r) files', 200 :: flat_pub (o_pub r) ++ flat_chan (c_ntracks cs) (o_chan r) ++ flat_files files')
  | ML c files, OCRefused => Ok (ML c files, [500; 0] ++ flat_chan (c_ntracks cs) c ++ flat_files files)
  | ML c files, OCUpAbort name seq =>
      let files' := files_upload c name seq files in
      Ok (ML c files', [500; 0] ++ flat_chan (c_ntracks cs) c ++ flat_files files')
  | ML c files, OCUpIn name seqIn tIn dur =>
      match find_track name (c_tracks cs) with
      | None => Err "unknown track"
      | Some t =>
        do it <- derive_item c t seqIn tIn dur;
        let files' := files_upload c name (i_seq it) files in
        do r <- chan_received c name it;
        Ok (ML (o_chan r) files', 200 :: flat_pub (o_pub r) ++ flat_chan (c_ntracks cs) (o_chan r) ++ flat_files files')
      end
  | _, _ => Err "operation does not fit the kind of case"
  end.

Fixpoint run (cs : c17case) (st : mstate) (ops : list op) : list obs :=
  match ops with
  | [] => []
  | o :: rest =>
    match step cs st o with
    | Ok (st', l) => ObsOk l :: run cs st' rest
    | Panic site => [ObsPanic site]
    | Err e => [ObsPanic ("model error: " ++ e)]
    end
  end.

(** deriveAndSetBitrates/deriveAndSetFrameRates iterate a Go map: when two tracks would panic,
    which one is hit first is not determined, so these sites are one class *)
Definition derive_site (s : string) : bool :=
  String.eqb s "segDataBuffer.nrItems:nil" || String.eqb s "channel.deriveAndSetBitrates:div"
  || String.eqb s "channel.deriveAndSetFrameRates:div".

Definition obs_eqb (a b : obs) : bool :=
  match a, b with
  | ObsOk x, ObsOk y => list_eqb Z.eqb x y
  | ObsOk x, ObsHash n h => (lenZ x =? n) && (obs_hash x =? h)
  | ObsPanic s, ObsPanic t => String.eqb s t || (derive_site s && derive_site t)
  | _, _ => false
  end.

Definition run_case (c : c17case) : list obs := run c (init_state c) (c_ops c).

Definition case_ok (c : c17case) : bool := list_eqb obs_eqb (run_case c) (c_obs c).

Definition mismatches (cs : list c17case) : list Z :=
  map c_id (filter (fun c => negb (case_ok c)) cs).

(** index of the first differing observation and the model's observation there *)
Fixpoint first_diff (i : Z) (a b : list obs) : Z * option obs :=
  match a, b with
  | [], [] => (-1, None)
  | x :: a', y :: b' => if obs_eqb x y then first_diff (i + 1) a' b' else (i, Some x)
  | x :: _, [] => (i, Some x)
  | [], _ :: _ => (i, None)
  end.

Definition model_view (c : c17case) : Z * option obs := first_diff 0 (run_case c) (c_obs c).
