(** Correspondence check for C18: the model is run on the inputs the implementation ran on. *)
From Verif Require Import GoSem ChunkParser.

Inductive odata := ODSlice (off len : Z) | ODRaw (l : list Z).

Record c18case := {
  c_id : Z;
  c_stream : list Z;
  c_sched : list Z;
  c_eofdata : bool;
  c_hard : bool;
  c_cbfail : option nat;
  o_cbs : list (Z * bool * odata);   (* observed callbacks *)
  o_res : Z                          (* 0 nil, 1 read error, 2 callback error, 3 other error *)
}.

Definition res_code (p : presult) : Z :=
  match p with PNil => 0 | PReadErr => 1 | PCbErr => 2 | PBadBox => 3 | POutOfFuel => 9 end.

Definition data_eqb (stream : list Z) (d : list Z) (o : odata) : bool :=
  match o with
  | ODSlice off len => list_eqb Z.eqb d (takeZ len (dropZ off stream))
  | ODRaw l => list_eqb Z.eqb d l
  end.

Definition cb_eqb (stream : list Z) (m : cbrec) (o : Z * bool * odata) : bool :=
  let '(s, i, d) := o in
  (cb_start m =? s) && Bool.eqb (cb_init m) i && data_eqb stream (cb_data m) d.

Definition run_case (c : c18case) : list cbrec * presult :=
  parse (c_cbfail c) (mkreader (c_stream c) (c_sched c) (c_eofdata c) (c_hard c)).

Definition case_ok (c : c18case) : bool :=
  let '(cbs, r) := run_case c in
  (res_code r =? o_res c) && list_eqb (cb_eqb (c_stream c)) cbs (o_cbs c).

Definition mismatches (cs : list c18case) : list Z :=
  map c_id (filter (fun c => negb (case_ok c)) cs).

(** What the model computes for a case (shown in the replay of a mismatch). *)
Definition model_view (c : c18case) : Z * list (Z * bool * Z) :=
  let '(cbs, r) := run_case c in
  (res_code r, map (fun m => (cb_start m, cb_init m, lenZ (cb_data m))) cbs).
