(** Correspondence for C19 (translator soundness): every data race the Go race detector reported on
    a field of Receiver / ChannelMgr / channel / segmentTimelineGenerator must be a conflicting,
    unprotected pair of the access table that accessgen regenerates from the sources. *)
From Verif Require Import GoSem Conc.
From VerifGen Require Import Access.

Record c19case := { c_id : Z; c_races : list (string * string * string) }.   (* field, function, function *)

Definition recv_pairs : list (access * access) :=
  flat_map race_pairs [Access.ChannelMgr; Access.channel; Access.Receiver; Access.segmentTimelineGenerator].

Definition field_is (a : access) (f : string) : bool :=
  String.eqb (a_field a) f || String.eqb (a_field a) (f ++ "[]").

Definition predicted (r : string * string * string) : bool :=
  let '(f, f1, f2) := r in
  existsb (fun p => field_is (fst p) f &&
                    ((String.eqb (a_func (fst p)) f1 && String.eqb (a_func (snd p)) f2) ||
                     (String.eqb (a_func (fst p)) f2 && String.eqb (a_func (snd p)) f1))) recv_pairs.

Definition unpredicted (c : c19case) : list (string * string * string) :=
  filter (fun r => negb (predicted r)) (c_races c).

Definition mismatches (cs : list c19case) : list Z :=
  map c_id (filter (fun c => negb (lenZ (unpredicted c) =? 0)) cs).

Definition model_view (c : c19case) := unpredicted c.
