(** Correspondence check for C20: the limiter model (Limiter.v) is run on the call sequences the
    implementation (app.NewIPRequestLimiter / Inc / Count / EndTime / NewLimiterMiddleware) ran on,
    and every returned value is compared.

    The white-list decision of a case is a table computed by the harness with its own CIDR
    arithmetic (net.ParseCIDR / IPNet.Contains are not modelled, see Limiter.v). *)
From Verif Require Import GoSem Limiter Conc.

Inductive cop :=
| CInc (now : Z) (ip : string) (nr mx : Z) (ok : bool)      (* Inc(now, ip) returned (nr, mx, ok) *)
| CCount (ip : string) (n : Z)                              (* Count(ip) returned n *)
| CEnd (t : Z)                                              (* EndTime() returned t (ns) *)
| CMw (now : Z) (hdrName xff : string) (remote : option string)
      (cls : Z) (hdr : option string).                      (* middleware: 0 bad ip, 1 429, 2 passed on; header value *)

Record c20case := {
  c_id : Z;
  c_max : Z;
  c_interval : Z;
  c_start : Z;
  c_wl : list (string * bool);
  c_ops : list cop
}.

Fixpoint wl_lookup (t : list (string * bool)) (ip : string) : bool :=
  match t with
  | [] => false
  | (k, b) :: r => if String.eqb k ip then b else wl_lookup r ip
  end.

Definition opt_str_eqb (a b : option string) : bool :=
  match a, b with
  | None, None => true
  | Some x, Some y => String.eqb x y
  | _, _ => false
  end.

Definition mw_class (r : mwres) : Z * option string :=
  match r with MwBadIP => (0, None) | MwReject h => (1, h) | MwPass h => (2, h) end.

Section Case.
  Variable c : c20case.
  Let W := wl_lookup (c_wl c).

  (** One observed call: the new model state and whether the model returns what was observed. *)
  Definition step_op (s : lstate) (o : cop) : lstate * bool :=
    match o with
    | CInc now ip nr mx ok =>
        let '(s2, (n', m', ok')) := inc (c_max c) (c_interval c) W s now ip in
        (s2, (n' =? nr) && (m' =? mx) && Bool.eqb ok' ok)
    | CCount ip n => (s, count s ip =? n)
    | CEnd t => (s, endTime (c_interval c) s =? t)
    | CMw now hn xff remote cls hdr =>
        let '(s2, r) := middleware (c_max c) (c_interval c) W hn s now xff remote in
        let '(cl, h) := mw_class r in
        (s2, (cl =? cls) && opt_str_eqb h hdr)
    end.

  (** Index of the first call on which model and implementation differ (None: all agree). *)
  Fixpoint first_diff (s : lstate) (i : Z) (ops : list cop) : option Z :=
    match ops with
    | [] => None
    | o :: r => let '(s2, good) := step_op s o in
                if good then first_diff s2 (i + 1) r else Some i
    end.

  Definition case_diff : option Z := first_diff (newLimiter (c_start c)) 0 (c_ops c).
End Case.

Definition case_ok (c : c20case) : bool :=
  match case_diff c with None => true | Some _ => false end.

Definition mismatches (cs : list c20case) : list Z :=
  map c_id (filter (fun c => negb (case_ok c)) cs).

(** What the model says at the first differing call (shown in the replay of a mismatch). *)
Inductive mview :=
| VInc (i nr mx : Z) (ok : bool) | VCount (i n : Z) | VEnd (i t : Z) | VMw (i cls : Z) (hdr : option string) | VNone.

Fixpoint view_at (c : c20case) (s : lstate) (i : Z) (ops : list cop) : mview :=
  match ops with
  | [] => VNone
  | o :: r =>
      let '(s2, good) := step_op c s o in
      if good then view_at c s2 (i + 1) r else
      match o with
      | CInc now ip _ _ _ =>
          let '(_, (n', m', ok')) := inc (c_max c) (c_interval c) (wl_lookup (c_wl c)) s now ip in VInc i n' m' ok'
      | CCount ip _ => VCount i (count s ip)
      | CEnd _ => VEnd i (endTime (c_interval c) s)
      | CMw now hn xff remote _ _ =>
          let '(_, r) := middleware (c_max c) (c_interval c) (wl_lookup (c_wl c)) hn s now xff remote in
          let '(cl, h) := mw_class r in VMw i cl h
      end
  end.

Definition model_view (c : c20case) : mview := view_at c (newLimiter (c_start c)) 0 (c_ops c).

(** Translator soundness: every data race the Go race detector reported between two functions
    must be among the conflicting pairs that [race_pairs] derives from the generated access table. *)
Definition pair_funcs (p : access * access) : string * string := (a_func (fst p), a_func (snd p)).

Definition race_listed (table : list access) (f g : string) : bool :=
  existsb (fun p => let '(a, b) := pair_funcs p in
                    (String.eqb a f && String.eqb b g) || (String.eqb a g && String.eqb b f))
          (race_pairs table).

Definition unlisted_races (table : list access) (obs : list (Z * (string * string))) : list Z :=
  map fst (filter (fun o => negb (race_listed table (fst (snd o)) (snd (snd o)))) obs).
