(** Correspondence for the fragment rewrite of genLiveSegment (C01): the model is run on the
    fragment records of the VoD file and compared with the records of the served segment. *)
From Verif Require Import GoSem LiveSeg.

Record lscase := {
  c_id : Z;
  k_vod : list frag;      (* fragments of the VoD file *)
  k_newNr : Z; k_newTime : Z;
  o_out : list frag       (* fragments of the served segment *)
}.

Definition sample_eqb (a b : Z * Z * Z * Z) : bool :=
  let '(a1, a2, a3, a4) := a in let '(b1, b2, b3, b4) := b in (a1 =? b1) && (a2 =? b2) && (a3 =? b3) && (a4 =? b4).

Definition frag_eqb (a b : frag) : bool :=
  (f_seq a =? f_seq b) && (f_tfdt a =? f_tfdt b) && (moof_size a =? moof_size b)
  && (f_data_offset a =? f_data_offset b) && list_eqb sample_eqb (f_samples a) (f_samples b).

Definition case_ok (c : lscase) : bool :=
  match rewrite_seg (k_newNr c) (k_newTime c) (k_vod c) with
  | Ok out => list_eqb frag_eqb out (o_out c)
  | _ => false
  end.

Definition mismatches (cs : list lscase) : list Z := map c_id (filter (fun c => negb (case_ok c)) cs).

Definition model_view (c : lscase) :=
  match rewrite_seg (k_newNr c) (k_newTime c) (k_vod c) with
  | Ok out => map (fun f => (f_seq f, f_tfdt f, moof_size f, f_data_offset f)) out
  | _ => []
  end.
