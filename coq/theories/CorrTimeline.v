(** Correspondence for the segment lookup (used by C01 and C04): the model is run on the request
    the implementation served and the projections of the response are compared. *)
From Verif Require Import GoSem Timeline TimelineF.

Record tlcase := {
  c_id : Z;
  k_img : bool;     (* thumbnail: only status and source are observable *)
  k_edge : bool;    (* the instant is within 2 ms of a transition that is not on the millisecond grid: the
                       microsecond rounding of the float64 code may differ from the exact test by < 1 us
                       there, so the exact model is not compared with the float model on this case *)
  k_rep : rep; k_loopMS : Z; k_cfg : tcfg; k_mode : addressing; k_segID : Z; k_now : Z;
  o_status : Z;     (* 200 425 410 404 500, 0 = panic *)
  o_ms : Z;         (* "too early by <ms>ms" *)
  o_tfdt : Z; o_seq : Z; o_srcStart : Z; o_dur : Z
}.

(** The handler first refuses requests before availabilityStartTime (cfgFromRequest). *)
Definition handlerLookupG (ck : chk) (r : rep) (loopMS : Z) (c : tcfg) (mode : addressing) (segID now : Z)
  : outcome segmeta :=
  if now <? startS c * 1000 then TTooEarly (startS c - now)
  else lookupG ck r loopMS c mode segID now.

(** exact version (the theorems of C01/C04 are about it) and float64 version (bit-faithful) *)
Definition handlerLookup := handlerLookupG checkTime.
Definition handlerLookupF := handlerLookupG checkTimeF.

Definition view (o : outcome segmeta) : Z * Z * (Z * Z * Z * Z) :=
  match o with
  | TOk m => (200, 0, (newTime m, newNr m, origTime m, newDur m))
  | TTooEarly ms => (425, ms, (0, 0, 0, 0))
  | TGone => (410, 0, (0, 0, 0, 0))
  | TNotFound => (404, 0, (0, 0, 0, 0))
  | TErr _ => (500, 0, (0, 0, 0, 0))
  | TPanic _ => (0, 0, (0, 0, 0, 0))
  end.

Definition run_case (c : tlcase) := view (handlerLookupF (k_rep c) (k_loopMS c) (k_cfg c) (k_mode c) (k_segID c) (k_now c)).
Definition run_exact (c : tlcase) := view (handlerLookup (k_rep c) (k_loopMS c) (k_cfg c) (k_mode c) (k_segID c) (k_now c)).

Definition view_eqb (a b : Z * Z * (Z * Z * Z * Z)) : bool :=
  let '(s1, m1, (t1, n1, o1, d1)) := a in
  let '(s2, m2, (t2, n2, o2, d2)) := b in
  (s1 =? s2) && (m1 =? m2) && (t1 =? t2) && (n1 =? n2) && (o1 =? o2) && (d1 =? d2).

(** A case is in order when the float64 model reproduces the observed response and, away from the
    instants named under [k_edge], the exact model agrees with the float64 model. *)
Definition case_ok (c : tlcase) : bool :=
  let '(stt, ms, (t, nr, ot, d)) := run_case c in
  (stt =? o_status c) && (ms =? o_ms c) &&
  (if stt =? 200 then
     if k_img c then ot =? o_srcStart c
     else (t =? o_tfdt c) && (nr =? o_seq c) && (ot =? o_srcStart c) && (d =? o_dur c)
   else true) &&
  (k_edge c || view_eqb (run_case c) (run_exact c)).

Definition mismatches (cs : list tlcase) : list Z :=
  map c_id (filter (fun c => negb (case_ok c)) cs).

Definition model_view (c : tlcase) := (run_case c, run_exact c).
