(** Model of the fault-injection parameters of cmd/livesim2/app (property C14).

    statuscode_[{cycle:..,rsq:..,code:..,rep:..}]  handler_livesim.go: calcStatusCode, findLastSegNr,
                                                   findSegStartTime, repInReps; the error mapping of
                                                   livesimHandlerFunc/writeSegment
    traffic_<pattern>,<pattern>                    configurl.go: CreateAllLossItvls, CreateLossItvls,
                                                   CycleDurS, StateAt, baseURL; handler_livesim.go:
                                                   extractPattern and the loss switch (L129-152);
                                                   livempd.go L123-126 (one BaseURL per pattern)

    Executable transliterations, no proofs in this file.  Integers are [Z]; the places where the
    Go code converts or can wrap in a way that changes the control flow are written explicitly
    ([u64] of a negative relative time in generateTimelineEntries, [i64] of the products with the
    configured cycle in calcStatusCode, of the parsed duration and of the sums in StateAt).  Panics are [Panic "<function>: <kind>"]. *)
From Verif Require Import GoSem Timeline.
From Coq Require Import Ascii.

(** * Strings (library behaviour written out: strings.Contains, HasPrefix, Split, Join, strconv.Atoi,
      fmt.Sprintf("%d")) *)

Definition byteOf (c : ascii) : Z := Z.of_N (N_of_ascii c).

Fixpoint prefixb (p s : string) : bool :=
  match p, s with
  | EmptyString, _ => true
  | String a p', String b s' => Ascii.eqb a b && prefixb p' s'
  | _, _ => false
  end.

(** strings.Contains s sub *)
Fixpoint containsb (s sub : string) : bool :=
  prefixb sub s || match s with EmptyString => false | String _ t => containsb t sub end.

Fixpoint dropS (n : nat) (s : string) : string :=
  match n, s with
  | O, _ => s
  | Datatypes.S k, String _ t => dropS k t
  | _, EmptyString => EmptyString
  end.

(** strings.Split s (one-byte separator): never empty *)
Fixpoint splitOn (sep : ascii) (s : string) : list string :=
  match s with
  | EmptyString => [EmptyString]
  | String c t =>
    if Ascii.eqb c sep then EmptyString :: splitOn sep t
    else match splitOn sep t with
         | h :: r => String c h :: r
         | [] => [String c EmptyString]
         end
  end.

Fixpoint joinWith (sep : string) (l : list string) : string :=
  match l with
  | [] => EmptyString
  | [x] => x
  | x :: t => (x ++ sep ++ joinWith sep t)%string
  end.

Definition isDigit (c : ascii) : bool := (48 <=? byteOf c) && (byteOf c <=? 57).

Fixpoint digitsVal (s : string) (acc : Z) : option Z :=
  match s with
  | EmptyString => Some acc
  | String c t => if isDigit c then digitsVal t (acc * 10 + (byteOf c - 48)) else None
  end.

(** strconv.Atoi: optional sign, at least one decimal digit, value inside int64 *)
Definition atoi (s : string) : option Z :=
  match s with
  | EmptyString => None
  | String c t =>
    let '(neg, body) := if Ascii.eqb c "-" then (true, t) else if Ascii.eqb c "+" then (false, t) else (false, s) in
    match body with
    | EmptyString => None
    | _ => match digitsVal body 0 with
           | None => None
           | Some v => let v' := if neg then - v else v in
                       if (- two63 <=? v') && (v' <? two63) then Some v' else None
           end
    end
  end.

Definition digitChar (d : Z) : ascii := ascii_of_N (Z.to_N (48 + d)).

(** decimal digits of a non-negative number, most significant first *)
Fixpoint itoaFuel (fuel : nat) (n : Z) (acc : string) : string :=
  match fuel with
  | O => acc
  | Datatypes.S k =>
    let acc' := String (digitChar (n mod 10)) acc in
    if n <? 10 then acc' else itoaFuel k (n / 10) acc'
  end.

Definition itoa (n : Z) : string :=
  if n <? 0 then String "-" (itoaFuel (Datatypes.S (Z.to_nat (Z.log2 (- n)))) (- n) EmptyString)
  else itoaFuel (Datatypes.S (Z.to_nat (Z.log2 n))) n EmptyString.

(** * statuscode_ *)

Record sscode := { sc_cycle : Z; sc_rsq : Z; sc_code : Z; sc_reps : list string }.

(** repInReps: no list = all representations; otherwise a substring match on the representation id *)
Definition repInReps (id : string) (reps : list string) : bool :=
  match reps with
  | [] => true
  | _ => existsb (fun rp => containsb id rp) reps
  end.

(** generateTimelineEntries as the Go code computes it: the relative time (plus the offset, added
    in milliseconds before the single conversion to media time) is converted to uint64, which
    matters when the "now" handed in lies before availabilityStartTime (only calcStatusCode does
    that).  For non-negative relative times this is Timeline.edgeIdx. *)
Definition edgeIdxU (r : rep) (wraps relMS atoMS : Z) : Z * Z :=
  let relT := u64 (Z.quot ((relMS + atoMS) * ts r) 1000) in
  let n := nsegs r in
  if relT <? en (segAt r 0) then (wraps - 1, n - 1)
  else
    let i := firstFinishedIdx (segs r) relT in
    if i <? 0 then (wraps - 1, n - 1) else (wraps, i).

Definition generateTimelineEntriesU (r : rep) (wt : wrapTimes) (atoMS : Z) : segEntries :=
  let n := nsegs r in
  let '(sw0, si0) := edgeIdxU r (startWraps wt) (startRelMS wt) atoMS in
  let '(sw, si) := if sw0 <? 0 then (0, 0) else (sw0, si0) in
  let '(nw, ni) := edgeIdxU r (nowWraps wt) (nowRelMS wt) atoMS in
  if nw <? 0 then
    {| se_startNr := -1; se_entries := []; se_lsi_nr := -1; se_lsi_start := 0; se_lsi_dur := 0 |}
  else
    let startNr := sw * n + si in
    let nowNr := nw * n + ni in
    let t := repDuration r * sw + st (segAt r si) in
    let d := sdur (segAt r si) in
    let '(es, (ls, ld, ln)) :=
        tlLoop r (Z.to_nat (nowNr - startNr)) (startNr + 1) d t {| e_t := t; e_d := d; e_r := 0 |} []
               t d startNr in
    {| se_startNr := startNr; se_entries := es; se_lsi_nr := ln; se_lsi_start := ls; se_lsi_dur := ld |}.

(** segEntries.lastNr *)
Definition lastNr (se : segEntries) : Z :=
  se_startNr se + fold_left (fun a e => a + (e_r e + 1)) (se_entries se) 0 - 1.

(** findLastSegNr: the last number of the timeline generated at [nowMS] with a 60 s window *)
Definition findLastSegNr (r : rep) (loopMS : Z) (c : tcfg) (nowMS : Z) : Z :=
  lastNr (generateTimelineEntriesU r (calcWrapTimes loopMS c nowMS 60000) 0).

(** findSegStartTime *)
Definition findSegStartTime (r : rep) (loopMS : Z) (c : tcfg) (nr : Z) : res Z :=
  let wrapLen := nsegs r in
  let nrAfterStart := nr - startNr c in
  if wrapLen =? 0 then Panic "findSegStartTime: integer divide by zero" else
  let nrWraps := Z.quot nrAfterStart wrapLen in
  let relNr := nrAfterStart - nrWraps * wrapLen in
  let wrapTime := nrWraps * wrapDurOf loopMS r in
  match nthZ relNr (segs r) with
  | None => Panic "findSegStartTime: index out of range"
  | Some s => Ok (wrapTime + st s)
  end.

(** the loop of calcStatusCode over the configured patterns; 0 = no special code.
    [fx = false] is the code as it is.  [fx = true] is the code with
    proposed_fixes/C14-statuscode-cycle-start.diff applied (the cycle start is moved to wall-clock
    time, an empty timeline counts as "no segment has ended", the start number is added); the
    harness tells by a probe request which of the two the implementation under test is. *)
Fixpoint statusLoop (fx : bool) (r : rep) (loopMS : Z) (c : tcfg) (repID : string) (startTime repTs nr : Z)
         (l : list sscode) : res Z :=
  match l with
  | [] => Ok 0
  | ss :: rest =>
    if negb (repInReps repID (sc_reps ss)) then statusLoop fx r loopMS c repID startTime repTs nr rest else
    let cycle := sc_cycle ss in
    let cycleInTimescale := i64 (cycle * repTs) in
    if cycleInTimescale =? 0 then Panic "calcStatusCode: integer divide by zero" else
    let nrWraps := Z.quot startTime cycleInTimescale in
    let wrapStartS := i64 (nrWraps * cycle) in
    let firstNr0 :=
      if nrWraps >? 0 then
        if fx then
          let lastNr := findLastSegNr r loopMS c (i64 ((startS c + wrapStartS) * 1000)) in
          startNr c + (if lastNr <? 0 then -1 else lastNr) + 1
        else findLastSegNr r loopMS c (i64 (wrapStartS * 1000)) + 1
      else startNr c in
    do segTime <- findSegStartTime r loopMS c firstNr0;
    let firstNr := if segTime <? i64 (wrapStartS * repTs) then firstNr0 + 1 else firstNr0 in
    let idx := nr - firstNr in
    if idx <? 0 then Err "segment is before first segment"
    else if idx =? sc_rsq ss then Ok (sc_code ss)
    else statusLoop fx r loopMS c repID startTime repTs nr rest
  end.

(** calcStatusCode after the two lookups; [r] is segMeta.rep (the reference representation for audio) *)
Definition calcStatusCode (fx : bool) (r : rep) (loopMS : Z) (c : tcfg) (codes : list sscode) (repID : string)
           (m : segmeta) : res Z :=
  statusLoop fx r loopMS c repID (i64 (newTime m)) (mtimescale m) (newNr m) codes.

(** findRefSegMetaFromTime: the reference segment that contains the audio time *)
Definition refMetaFromTime (ref : rep) (c : tcfg) (audioTs sampleDur time nowMS : Z) : outcome segmeta :=
  if sampleDur =? 0 then TErr "no constant sample duration" else
  if negb (time mod sampleDur =? 0) then TErr "time must be multiple of sample duration" else
  let refTotDur := u64 (repDuration ref) in
  let nrSegs := nsegs ref in
  if audioTs =? 0 then TPanic "findRefSegMetaFromTime: integer divide by zero" else
  let refTime := u64 (time * ts ref) / audioTs in
  if refTotDur =? 0 then TPanic "findRefSegMetaFromTime: integer divide by zero" else
  let nrWraps := refTime / refTotDur in
  let wrapTime := nrWraps * refTotDur in
  let wrapNr := nrWraps * nrSegs in
  let after := refTime - wrapTime in
  match segs ref with
  | [] => TPanic "findRefSegMetaFromTime: index out of range"
  | _ =>
    let relNr := searchIdx (fun s => en s >? after) (segs ref) in
    match nthZ relNr (segs ref) with
    | None => TPanic "findRefSegMetaFromTime: index out of range"
    | Some s =>
      let refEnd := wrapTime + en s in
      if refEnd =? 0 then TErr "no matching reference segment" else
      timed (checkTime (refEnd + startS c * ts ref) (ts ref) nowMS (tsbdS c) (ato c))
        (TOk {| origTime := st s; newTime := wrapTime + st s; origNr := snr s;
                newNr := u32 (u32 (relNr + wrapNr) + u32 (startNr c));
                origDur := u32 (sdur s); newDur := u32 (sdur s); mtimescale := u32 (ts ref) |})
    end
  end.

(** findSegMeta.  [audio = Some (timescale, sampleDur)] for an audio representation: the lookup is
    made in the reference (video) representation [r], by the same number or by the audio time. *)
Definition findSegMeta (r : rep) (loopMS : Z) (c : tcfg) (audio : option (Z * Z)) (mode : addressing)
           (segID nowMS : Z) : outcome segmeta :=
  match audio with
  | None => lookup r loopMS c mode segID nowMS
  | Some (ats, sd) =>
    match mode with
    | ByNumber => lookup r loopMS c ByNumber segID nowMS   (* same number, same refusal below startNumber *)
    | ByTime => refMetaFromTime r c ats sd (u64 segID) nowMS
    end
  end.

(** What the handler answers to a media-segment request when statuscode_ is configured:
    [base] is the answer to the same request without the parameter.  0 = panic. *)
Inductive answer := AStatus (code : Z) | APanic (site : string).

(** the range checks of ParseSegStatusCodes: a pattern outside them makes the URL invalid (400) *)
Definition codeValid (ss : sscode) : bool :=
  (0 <? sc_cycle ss) && (sc_cycle ss <=? 2147483647) && (0 <=? sc_rsq ss) &&
  (400 <=? sc_code ss) && (sc_code ss <=? 599).

Definition segAnswer (fx : bool) (r : rep) (loopMS : Z) (c : tcfg) (codes : list sscode) (repID : string)
           (audio : option (Z * Z)) (mode : addressing) (segID nowMS base : Z) : answer :=
  if negb (forallb codeValid codes) then AStatus 400 else
  if nowMS <? startS c * 1000 then AStatus 425 else
  match codes with
  | [] => AStatus base
  | _ =>
    match findSegMeta r loopMS c audio mode segID nowMS with
    | TOk m =>
      match calcStatusCode fx r loopMS c codes repID m with
      | Ok code => if code =? 0 then AStatus base else AStatus code
      | Err _ => AStatus 500
      | Panic s => APanic s
      end
    | TTooEarly _ => AStatus 425
    | TGone => AStatus 410
    | TNotFound => AStatus 404
    | TErr _ => AStatus 500
    | TPanic s => APanic s
    end
  end.

(** Generated subtitle tracks (timesubsstpp_/timesubswvtt_: timestpp-<lang>/<nr>.m4s) have no
    representation data.  Since fccb54a calcStatusCode looks them up in the reference track like
    audio: [segAnswer] with [audio = Some (1000, 1)], the subtitle timescale.  Before that it
    started with findRepAndSegmentID, which does not find them: with any statuscode_ pattern
    configured every media segment of such a track was answered 404, scheduled or not; that is
    [subsAnswerUnrepaired], used by the harness when it finds the repair reverted. *)
Definition subsAnswerUnrepaired (c : tcfg) (codes : list sscode) (nowMS base : Z) : answer :=
  if negb (forallb codeValid codes) then AStatus 400 else
  if nowMS <? startS c * 1000 then AStatus 425 else
  match codes with
  | [] => AStatus base
  | _ => AStatus 404
  end.

(** * traffic_ *)

Inductive lstate := LUnknown | LNo | L404 | LSlow | LHang.
Record litvl := { l_dur : Z; l_state : lstate }.

Definition lstate_eqb (a b : lstate) : bool :=
  match a, b with
  | LUnknown, LUnknown | LNo, LNo | L404, L404 | LSlow, LSlow | LHang, LHang => true
  | _, _ => false
  end.

Definition lstateZ (s : lstate) : Z :=
  match s with LUnknown => 0 | LNo => 1 | L404 => 2 | LSlow => 3 | LHang => 4 end.

(** CycleDurS (int arithmetic: a duration written with 19 or more digits has wrapped when it was
    parsed and the sums wrap again) *)
Definition cycleDurS (l : list litvl) : Z := fold_left (fun a i => i64 (a + l_dur i)) l 0.

Fixpoint stateLoop (rest : Z) (l : list litvl) : lstate :=
  match l with
  | [] => LUnknown
  | i :: t => let rest' := i64 (rest - l_dur i) in if rest' <? 0 then l_state i else stateLoop rest' t
  end.

(** StateAt *)
Definition stateAt (l : list litvl) (nowS : Z) : res lstate :=
  let dur := cycleDurS l in
  if dur =? 0 then Panic "LossItvls.StateAt: integer divide by zero"
  else Ok (stateLoop (Z.rem nowS dur) l).

Definition letterState (c : Z) : option lstate :=
  if c =? 117 then Some LNo          (* u *)
  else if c =? 100 then Some L404    (* d *)
  else if c =? 115 then Some LSlow   (* s *)
  else if c =? 104 then Some LHang   (* h *)
  else None.

(** The loop of CreateLossItvls over the bytes of the pattern. *)
Fixpoint lossLoop (p : list Z) (state : lstate) (dur : Z) (acc : list litvl) : res (list litvl) :=
  match p with
  | [] =>
    if lstate_eqb state LUnknown then Ok acc
    else if dur =? 0 then Err "invalid loss pattern"
    else Ok (acc ++ [{| l_dur := dur; l_state := state |}])
  | ch :: t =>
    match letterState ch with
    | Some st' =>
      if lstate_eqb state LUnknown then lossLoop t st' 0 acc
      else if dur =? 0 then Err "invalid loss pattern"
      else lossLoop t st' 0 (acc ++ [{| l_dur := dur; l_state := state |}])
    | None =>
      let digit := (ch - 48) mod 256 in
      if digit >? 9 then Err "invalid loss pattern"
      else lossLoop t state (i64 (dur * 10 + digit)) acc
    end
  end.

(** CreateLossItvls: the loop, then the check that the cycle has a positive duration *)
Definition createLossItvls (p : list Z) : res (list litvl) :=
  do l <- lossLoop p LUnknown 0 [];
  if cycleDurS l <=? 0 then Err "invalid loss pattern" else Ok l.

(** CreateLossItvls as it is since cae471f, with the range check of the durations: while the digits
    of a duration are accumulated, a value above maxLossItvlDurS is refused.  ([lossLoop] /
    [createLossItvls] above are the parser without that check, as it was before.) *)
Definition maxLossItvlDur : Z := 2147483647.   (* maxLossItvlDurS = 1<<31 - 1; tied to the source in props/C14.v *)

Fixpoint lossLoopB (mx : Z) (p : list Z) (state : lstate) (dur : Z) (acc : list litvl) : res (list litvl) :=
  match p with
  | [] =>
    if lstate_eqb state LUnknown then Ok acc
    else if dur =? 0 then Err "invalid loss pattern"
    else Ok (acc ++ [{| l_dur := dur; l_state := state |}])
  | ch :: t =>
    match letterState ch with
    | Some st' =>
      if lstate_eqb state LUnknown then lossLoopB mx t st' 0 acc
      else if dur =? 0 then Err "invalid loss pattern"
      else lossLoopB mx t st' 0 (acc ++ [{| l_dur := dur; l_state := state |}])
    | None =>
      let digit := (ch - 48) mod 256 in
      if digit >? 9 then Err "invalid loss pattern"
      else let dur' := i64 (dur * 10 + digit) in
           if dur' >? mx then Err "invalid loss pattern: interval too long"
           else lossLoopB mx t state dur' acc
    end
  end.

Definition createLossItvlsB (mx : Z) (p : list Z) : res (list litvl) :=
  do l <- lossLoopB mx p LUnknown 0 [];
  if cycleDurS l <=? 0 then Err "invalid loss pattern" else Ok l.

(** strings.Split on ',' over bytes *)
Fixpoint splitBytes (sep : Z) (p : list Z) : list (list Z) :=
  match p with
  | [] => [[]]
  | ch :: t =>
    if ch =? sep then [] :: splitBytes sep t
    else match splitBytes sep t with
         | h :: r => (ch :: h) :: r
         | [] => [[ch]]
         end
  end.

Fixpoint mapRes {A B} (f : A -> res B) (l : list A) : res (list B) :=
  match l with
  | [] => Ok []
  | x :: t => do y <- f x; do ys <- mapRes f t; Ok (y :: ys)
  end.

(** CreateAllLossItvls *)
Definition createAllLossItvls (p : list Z) : res (list (list litvl)) :=
  match p with
  | [] => Ok []
  | _ => mapRes createLossItvls (splitBytes 44 p)
  end.

Definition createAllLossItvlsB (mx : Z) (p : list Z) : res (list (list litvl)) :=
  match p with
  | [] => Ok []
  | _ => mapRes (createLossItvlsB mx) (splitBytes 44 p)
  end.

(** the parser of the implementation under test: with ([true]) or without the range check *)
Definition parseLoss (fxl : bool) : list Z -> res (list litvl) :=
  if fxl then createLossItvlsB maxLossItvlDur else createLossItvls.
Definition parseAllLoss (fxl : bool) : list Z -> res (list (list litvl)) :=
  if fxl then createAllLossItvlsB maxLossItvlDur else createAllLossItvls.

(** the inverse direction: how a pattern is written *)
Definition stateLetter (s : lstate) : Z :=
  match s with LNo => 117 | L404 => 100 | LSlow => 115 | LHang => 104 | LUnknown => 63 end.
Definition bytesOf (s : string) : list Z := map byteOf (list_ascii_of_string s).
Definition printItvl (i : litvl) : list Z := stateLetter (l_state i) :: bytesOf (itoa (l_dur i)).
Definition printItvls (l : list litvl) : list Z := flat_map printItvl l.

(** baseURL and the BaseURL elements of the MPD *)
Definition baseURL (nr : Z) : string := ("bu" ++ itoa nr ++ "/")%string.
Definition mpdBaseURLs (traffic : list (list litvl)) : list string :=
  map baseURL (seqZ 0 (length traffic)).

(** extractPattern: pattern number and the segment part without the bu<i> element *)
Definition extractPattern (segPart : string) : res (Z * string) :=
  match splitOn "/" segPart with
  | _ :: pPart :: rest =>
    if negb (prefixb "bu" pPart) then Ok (-1, segPart) else
    match atoi (dropS 2 pPart) with
    | None => Ok (-1, segPart)
    | Some nr => Ok (nr, joinWith "/" (EmptyString :: rest))
    end
  | _ => Panic "extractPattern: index out of range"
  end.

(** The loss switch of livesimHandlerFunc.  [TrContinue sp d]: the request goes on with segment
    part [sp] after [d] seconds; [TrStatus code d]: answered with [code] after [d] seconds. *)
Inductive tresp :=
| TrContinue (segPart : string) (delayS : Z)
| TrStatus (code : Z) (delayS : Z)
| TrPanic (site : string).

Definition trafficStep (traffic : list (list litvl)) (segPart : string) (nowMS : Z) : tresp :=
  match traffic with
  | [] => TrContinue segPart 0
  | _ =>
    match extractPattern segPart with
    | Panic s => TrPanic s
    | Err _ => TrStatus 500 0
    | Ok (nr, sp) =>
      if nr >=? 0 then
        match nthZ nr traffic with
        | None => TrStatus 400 0      (* BaseURL number without a pattern *)
        | Some itvls =>
          match stateAt itvls (Z.quot nowMS 1000) with
          | Panic s => TrPanic s
          | Err _ => TrStatus 500 0
          | Ok LNo => TrContinue sp 0
          | Ok L404 => TrStatus 404 0
          | Ok LSlow => TrContinue sp 2
          | Ok LHang => TrStatus 503 10
          | Ok LUnknown => TrStatus 500 0
          end
        end
      else TrContinue sp 0
    end
  end.
