(** Proofs about the traffic_ part of the fault-injection model (Fault.v), property C14:
    the state function, the pattern parser and printer, BaseURLs. *)
From Verif Require Import GoSem GoSemFacts Timeline TimelineProofs Fault FaultProofs.
From Coq Require Import ZifyBool Ascii.
Ltac Zify.zify_post_hook ::= Z.div_mod_to_equations.

(** * StateAt *)

(** the interval sequence written out second by second *)
Definition flatten (l : list litvl) : list lstate :=
  flat_map (fun i => repeat (l_state i) (Z.to_nat (l_dur i))) l.

Definition sumDur (l : list litvl) : Z := fold_right (fun i a => l_dur i + a) 0 l.

(** usable interval list: positive durations, total below 2^63 *)
Definition goodItvls (l : list litvl) : Prop :=
  Forall (fun i => 0 < l_dur i) l /\ sumDur l < two63.

Lemma sumDur_nonneg l : Forall (fun i => 0 < l_dur i) l -> 0 <= sumDur l.
Proof. induction 1; cbn [sumDur fold_right]; [lia|]. fold (sumDur l). lia. Qed.

Lemma cycle_fold l : forall a, Forall (fun i => 0 < l_dur i) l -> 0 <= a -> a + sumDur l < two63 ->
  fold_left (fun a i => i64 (a + l_dur i)) l a = a + sumDur l.
Proof.
  induction l as [|i l IH]; intros a Hp Ha Hs; cbn [fold_left sumDur fold_right]; [lia|].
  fold (sumDur l) in *. inversion Hp as [|? ? Hi Hl]; subst.
  pose proof (sumDur_nonneg l Hl). cbn [sumDur fold_right] in Hs. fold (sumDur l) in Hs.
  rewrite i64_id by (unfold two63 in *; lia). rewrite IH by (try assumption; lia). lia.
Qed.

Lemma cycleDurS_sum l : goodItvls l -> cycleDurS l = sumDur l.
Proof. intros [Hp Hs]. unfold cycleDurS. rewrite cycle_fold by (try assumption; lia). lia. Qed.

Lemma flatten_length l : Forall (fun i => 0 < l_dur i) l -> Z.of_nat (length (flatten l)) = sumDur l.
Proof.
  induction 1 as [|i l Hi Hl IH]; [reflexivity|].
  unfold flatten in *. cbn [flat_map sumDur fold_right]. rewrite app_length, repeat_length. fold (sumDur l). lia.
Qed.

Lemma stateLoop_flat l : forall rest, Forall (fun i => 0 < l_dur i) l -> sumDur l < two63 -> 0 <= rest < two63 ->
  stateLoop rest l = nth (Z.to_nat rest) (flatten l) LUnknown.
Proof.
  induction l as [|i l IH]; intros rest Hp Hs Hr; cbn [stateLoop].
  - destruct (Z.to_nat rest); reflexivity.
  - inversion Hp as [|? ? Hi Hl]; subst. cbn [sumDur fold_right] in Hs. fold (sumDur l) in Hs.
    pose proof (sumDur_nonneg l Hl).
    unfold flatten. cbn [flat_map]. fold (flatten l).
    rewrite i64_id by (unfold two63 in *; lia).
    destruct (rest - l_dur i <? 0) eqn:E.
    + rewrite app_nth1 by (rewrite repeat_length; lia).
      rewrite (nth_indep _ LUnknown (l_state i)) by (rewrite repeat_length; lia).
      apply eq_sym, nth_repeat.
    + rewrite app_nth2 by (rewrite repeat_length; lia). rewrite repeat_length.
      rewrite IH by (try assumption; lia). f_equal. lia.
Qed.

(** StateAt is the state at position (s mod cycle) of the flattened pattern, for every second. *)
Lemma stateAt_spec l s : goodItvls l -> l <> [] -> 0 <= s ->
  stateAt l s = Ok (nth (Z.to_nat (s mod sumDur l)) (flatten l) LUnknown)
  /\ 0 < sumDur l /\ Z.of_nat (length (flatten l)) = sumDur l.
Proof.
  intros Hg Hne Hs. pose proof Hg as [Hp Hsum].
  assert (Hpos : 0 < sumDur l).
  { destruct l as [|i l]; [congruence|]. inversion Hp as [|? ? Hi Hl]; subst.
    cbn [sumDur fold_right]. fold (sumDur l). pose proof (sumDur_nonneg l Hl). lia. }
  split; [|split; [assumption|now apply flatten_length]].
  unfold stateAt. rewrite cycleDurS_sum by assumption.
  destruct (sumDur l =? 0) eqn:E0; [lia|].
  rewrite Z.rem_mod_nonneg by lia. f_equal.
  apply stateLoop_flat; try assumption. pose proof (Z.mod_pos_bound s (sumDur l) Hpos). lia.
Qed.

(** the state is one of the configured ones (never "unknown") and the function is periodic *)
Lemma stateAt_periodic l s k : goodItvls l -> l <> [] -> 0 <= s -> 0 <= k ->
  stateAt l (s + k * sumDur l) = stateAt l s.
Proof.
  intros Hg Hne Hs Hk. destruct (stateAt_spec l s Hg Hne Hs) as (H1 & Hpos & _).
  destruct (stateAt_spec l (s + k * sumDur l) Hg Hne ltac:(nia)) as (H2 & _ & _).
  rewrite H1, H2. rewrite Z.mod_add by lia. reflexivity.
Qed.

(** * CreateLossItvls *)

Lemma lstate_eqb_unknown s : lstate_eqb s LUnknown = true <-> s = LUnknown.
Proof. destruct s; cbn; split; congruence. Qed.

Lemma letter_of_state s : s <> LUnknown -> letterState (stateLetter s) = Some s.
Proof. destruct s; intros H; try congruence; reflexivity. Qed.

(** decimal digits of [n] in front of [acc]: reading them from duration 0 is reading [acc] from [n] *)
Lemma bytesOf_String c s : bytesOf (String c s) = byteOf c :: bytesOf s.
Proof. reflexivity. Qed.

Lemma byteOf_digit d : 0 <= d <= 9 -> byteOf (digitChar d) = 48 + d.
Proof.
  intros H. unfold byteOf, digitChar. rewrite N_ascii_embedding; [lia|].
  assert (Z.to_N (48 + d) < 256)%N by lia. exact H0.
Qed.

Lemma letterState_digit d : 0 <= d <= 9 -> letterState (48 + d) = None.
Proof.
  intros H. unfold letterState.
  destruct (48 + d =? 117) eqn:E1; [lia|]. destruct (48 + d =? 100) eqn:E2; [lia|].
  destruct (48 + d =? 115) eqn:E3; [lia|]. destruct (48 + d =? 104) eqn:E4; [lia|]. reflexivity.
Qed.

Lemma lossLoop_digit d rest st dur acc : 0 <= d <= 9 -> 0 <= dur -> dur * 10 + d < two63 ->
  lossLoop ((48 + d) :: rest) st dur acc = lossLoop rest st (dur * 10 + d) acc.
Proof.
  intros Hd Hdur Hb. cbn [lossLoop]. rewrite letterState_digit by assumption.
  replace ((48 + d - 48) mod 256) with d by lia.
  destruct (d >? 9) eqn:E; [lia|]. rewrite i64_id by (unfold two63 in *; lia). reflexivity.
Qed.

Lemma lossLoop_itoa fuel : forall n accS rest st acc,
  0 <= n < two63 -> n < 10 ^ Z.of_nat fuel ->
  lossLoop (bytesOf (itoaFuel fuel n accS) ++ rest) st 0 acc = lossLoop (bytesOf accS ++ rest) st n acc.
Proof.
  induction fuel as [|fuel IH]; intros n accS rest st acc Hn Hf.
  - cbn [itoaFuel]. change (10 ^ Z.of_nat 0) with 1 in Hf. now replace n with 0 by lia.
  - cbn [itoaFuel].
    assert (Hm : 0 <= n mod 10 <= 9) by lia.
    destruct (n <? 10) eqn:E.
    + rewrite bytesOf_String, byteOf_digit by assumption. cbn [app].
      rewrite lossLoop_digit by (try assumption; lia). f_equal. lia.
    + rewrite IH.
      * rewrite bytesOf_String, byteOf_digit by assumption. cbn [app].
        rewrite lossLoop_digit by (try lia). f_equal. lia.
      * lia.
      * rewrite Nat2Z.inj_succ, Z.pow_succ_r in Hf by lia. lia.
Qed.

Lemma pow10_log2 n : 0 < n -> n < 10 ^ Z.of_nat (Datatypes.S (Z.to_nat (Z.log2 n))).
Proof.
  intros Hn. rewrite Nat2Z.inj_succ, Z2Nat.id by apply Z.log2_nonneg.
  pose proof (Z.log2_spec n Hn) as [_ H].
  assert (2 ^ Z.succ (Z.log2 n) <= 10 ^ Z.succ (Z.log2 n)).
  { apply Z.pow_le_mono_l. pose proof (Z.log2_nonneg n). lia. }
  lia.
Qed.

Lemma lossLoop_print_dur n rest st acc : 0 < n < two63 ->
  lossLoop (bytesOf (itoa n) ++ rest) st 0 acc = lossLoop rest st n acc.
Proof.
  intros Hn. unfold itoa. destruct (n <? 0) eqn:E; [lia|].
  rewrite lossLoop_itoa by (try lia; apply pow10_log2; lia). reflexivity.
Qed.

Definition goodItvl (i : litvl) : Prop := 0 < l_dur i < two63 /\ l_state i <> LUnknown.

(** parsing what was printed, from any loop state *)
Lemma lossLoop_print l : forall st dur acc,
  Forall goodItvl l -> (st = LUnknown \/ dur <> 0) ->
  lossLoop (printItvls l) st dur acc =
  Ok (acc ++ (if lstate_eqb st LUnknown then [] else [{| l_dur := dur; l_state := st |}]) ++ l).
Proof.
  induction l as [|i l IH]; intros st dur acc Hg Hst.
  - cbn [printItvls flat_map lossLoop]. destruct (lstate_eqb st LUnknown) eqn:E.
    + now rewrite !app_nil_r.
    + destruct Hst as [->|Hd]; [discriminate|]. destruct (dur =? 0) eqn:E0; [lia|]. now rewrite app_nil_r.
  - inversion Hg as [|? ? [Hd Hs] Hl]; subst.
    unfold printItvls. cbn [flat_map]. fold (printItvls l). unfold printItvl. cbn [app lossLoop].
    rewrite letter_of_state by assumption.
    destruct (lstate_eqb st LUnknown) eqn:E.
    + rewrite lossLoop_print_dur by assumption. rewrite IH by (try assumption; right; lia).
      destruct (lstate_eqb (l_state i) LUnknown) eqn:E2; [apply lstate_eqb_unknown in E2; contradiction|].
      destruct i; reflexivity.
    + destruct Hst as [->|Hdur]; [discriminate|]. destruct (dur =? 0) eqn:E0; [lia|].
      rewrite lossLoop_print_dur by assumption. rewrite IH by (try assumption; right; lia).
      destruct (lstate_eqb (l_state i) LUnknown) eqn:E2; [apply lstate_eqb_unknown in E2; contradiction|].
      rewrite <- app_assoc. destruct i; reflexivity.
Qed.

(** Round trip: CreateLossItvls (print l) = Ok l. *)
Lemma goodItvl_goodItvls l : Forall goodItvl l -> sumDur l < two63 -> goodItvls l.
Proof.
  intros H Hs. split; [|assumption]. clear Hs. induction H as [|i l [Hi _] _ IH]; constructor; [lia|assumption].
Qed.

Lemma sumDur_pos l : Forall (fun i => 0 < l_dur i) l -> l <> [] -> 0 < sumDur l.
Proof.
  intros Hp Hne. destruct l as [|i l]; [congruence|]. inversion Hp as [|? ? Hi Hl]; subst.
  cbn [sumDur fold_right]. fold (sumDur l). pose proof (sumDur_nonneg l Hl). lia.
Qed.

Lemma createLossItvls_print l : Forall goodItvl l -> l <> [] -> sumDur l < two63 ->
  createLossItvls (printItvls l) = Ok l.
Proof.
  intros H Hne Hs. unfold createLossItvls. rewrite lossLoop_print by (try assumption; now left).
  cbn [lstate_eqb app bind]. pose proof (goodItvl_goodItvls l H Hs) as Hg.
  rewrite cycleDurS_sum by assumption. pose proof (sumDur_pos l (proj1 Hg) Hne).
  destruct (sumDur l <=? 0) eqn:E; [lia|reflexivity].
Qed.

(** What is accepted: every interval has a state and a non-zero duration; the list is empty
    exactly when the string contains no state letter. *)
Definition okItvl (i : litvl) : Prop := l_dur i <> 0 /\ l_state i <> LUnknown.

Lemma lossLoop_ok p : forall st dur acc l,
  lossLoop p st dur acc = Ok l -> Forall okItvl acc ->
  Forall okItvl l /\
  (l = [] <-> acc = [] /\ st = LUnknown /\ Forall (fun ch => letterState ch = None) p).
Proof.
  induction p as [|ch p IH]; intros st dur acc l H Hacc; cbn [lossLoop] in H.
  - destruct (lstate_eqb st LUnknown) eqn:E.
    + injection H as <-. apply lstate_eqb_unknown in E. split; [assumption|]. split; [intros ->; auto|tauto].
    + destruct (dur =? 0) eqn:E0; [discriminate|]. injection H as <-.
      assert (st <> LUnknown) by (intros ->; discriminate).
      split; [apply Forall_app; split; [assumption|constructor; [split; [cbn; lia|assumption]|constructor]]|].
      split; [intros Hn; destruct acc; discriminate|intros (_ & Hs & _); contradiction].
  - destruct (letterState ch) as [st'|] eqn:El.
    + assert (Hst' : st' <> LUnknown).
      { unfold letterState in El. repeat match type of El with (if ?b then _ else _) = _ => destruct b end; congruence. }
      destruct (lstate_eqb st LUnknown) eqn:E.
      * apply IH in H; [|assumption]. destruct H as [H1 H2]. split; [assumption|].
        split; [intros Hl; apply H2 in Hl; destruct Hl as (_ & Hs & _); contradiction|].
        intros (_ & _ & Hf). inversion Hf; congruence.
      * destruct (dur =? 0) eqn:E0; [discriminate|].
        assert (st <> LUnknown) by (intros ->; discriminate).
        apply IH in H; [|apply Forall_app; split; [assumption|constructor; [split; [cbn; lia|assumption]|constructor]]].
        destruct H as [H1 H2]. split; [assumption|].
        split; [intros Hl; apply H2 in Hl; destruct Hl as (_ & Hs & _); contradiction|].
        intros (_ & _ & Hf). inversion Hf; congruence.
    + destruct ((ch - 48) mod 256 >? 9); [discriminate|].
      apply IH in H; [|assumption]. destruct H as [H1 H2]. split; [assumption|].
      rewrite H2. split; intros (Ha & Hs & Hf); repeat split; try assumption.
      * constructor; assumption.
      * now inversion Hf.
Qed.

Lemma createLossItvls_ok p l : createLossItvls p = Ok l ->
  Forall okItvl l /\ l <> [] /\ 0 < cycleDurS l /\ exists ch, In ch p /\ letterState ch <> None.
Proof.
  unfold createLossItvls. destruct (lossLoop p LUnknown 0 []) as [l'| |] eqn:EL; cbn [bind]; try discriminate.
  destruct (cycleDurS l' <=? 0) eqn:Ec; [discriminate|]. intros H. injection H as <-.
  apply lossLoop_ok in EL; [|constructor]. destruct EL as [H1 H2].
  assert (Hne : l' <> []) by (intros ->; cbn in Ec; discriminate).
  split; [assumption|]. split; [assumption|]. split; [lia|].
  destruct (Exists_dec (fun ch => letterState ch <> None) p) as [Hex|Hnex].
  { intros ch. destruct (letterState ch); [left; discriminate|right; congruence]. }
  - apply Exists_exists in Hex. exact Hex.
  - exfalso. apply Hne. apply H2. repeat split. apply Forall_forall. intros ch Hin.
    destruct (letterState ch) eqn:E; [|reflexivity]. exfalso. apply Hnex. apply Exists_exists. exists ch. split; [assumption|congruence].
Qed.

(** An accepted pattern has a state at every second: StateAt cannot divide by zero. *)
Lemma createLossItvls_stateAt p l s : createLossItvls p = Ok l -> exists st, stateAt l s = Ok st.
Proof.
  intros H. apply createLossItvls_ok in H. destruct H as (_ & _ & Hc & _).
  unfold stateAt. destruct (cycleDurS l =? 0) eqn:E; [lia|]. eauto.
Qed.

(** * BaseURLs: baseURL i is "bu<i>/", and that element in a segment path selects pattern i *)

Fixpoint allDigits (s : string) : bool :=
  match s with EmptyString => true | String c t => isDigit c && allDigits t end.

Lemma isDigit_digitChar d : 0 <= d <= 9 -> isDigit (digitChar d) = true.
Proof. intros H. unfold isDigit. rewrite byteOf_digit by assumption. lia. Qed.

Lemma itoaFuel_digits fuel : forall n acc, 0 <= n -> allDigits acc = true -> allDigits (itoaFuel fuel n acc) = true.
Proof.
  induction fuel as [|fuel IH]; intros n acc Hn Ha; cbn [itoaFuel]; [assumption|].
  assert (Hd : allDigits (String (digitChar (n mod 10)) acc) = true)
    by (cbn [allDigits]; rewrite isDigit_digitChar by lia; assumption).
  destruct (n <? 10); [assumption|]. apply IH; [lia|assumption].
Qed.

Lemma itoaFuel_nonempty fuel n acc : itoaFuel (Datatypes.S fuel) n acc <> EmptyString.
Proof.
  revert n acc. induction fuel as [|fuel IH]; intros n acc.
  - cbn [itoaFuel]. destruct (n <? 10); discriminate.
  - change (itoaFuel (Datatypes.S (Datatypes.S fuel)) n acc) with
      (let acc' := String (digitChar (n mod 10)) acc in if n <? 10 then acc' else itoaFuel (Datatypes.S fuel) (n / 10) acc').
    cbn zeta. destruct (n <? 10); [discriminate|apply IH].
Qed.

Lemma digitsVal_itoa fuel : forall n acc,
  0 <= n -> n < 10 ^ Z.of_nat fuel -> digitsVal (itoaFuel fuel n acc) 0 = digitsVal acc n.
Proof.
  induction fuel as [|fuel IH]; intros n acc Hn Hf.
  - cbn [itoaFuel]. change (10 ^ Z.of_nat 0) with 1 in Hf. now replace n with 0 by lia.
  - cbn [itoaFuel]. assert (Hm : 0 <= n mod 10 <= 9) by lia.
    destruct (n <? 10) eqn:E.
    + cbn [digitsVal]. rewrite isDigit_digitChar, byteOf_digit by assumption. f_equal. lia.
    + rewrite IH; [|lia|rewrite Nat2Z.inj_succ, Z.pow_succ_r in Hf by lia; lia].
      cbn [digitsVal]. rewrite isDigit_digitChar, byteOf_digit by assumption. f_equal. lia.
Qed.

Lemma itoa_nonneg n : 0 <= n ->
  itoa n = itoaFuel (Datatypes.S (Z.to_nat (Z.log2 n))) n EmptyString.
Proof. intros H. unfold itoa. destruct (n <? 0) eqn:E; [lia|reflexivity]. Qed.

Lemma pow10_log2' n : 0 <= n -> n < 10 ^ Z.of_nat (Datatypes.S (Z.to_nat (Z.log2 n))).
Proof.
  intros Hn. destruct (Z.eq_dec n 0) as [->|]; [reflexivity|]. apply pow10_log2. lia.
Qed.

Lemma isDigit_not_sign c : isDigit c = true -> Ascii.eqb c "-" = false /\ Ascii.eqb c "+" = false /\ Ascii.eqb c "/" = false.
Proof.
  intros H. unfold isDigit in H.
  repeat split; destruct (Ascii.eqb c _) eqn:E; try reflexivity; apply Ascii.eqb_eq in E; subst c; cbn in H; lia.
Qed.

(** strconv.Atoi reads back what %d wrote *)
Lemma atoi_itoa n : 0 <= n < two63 -> atoi (itoa n) = Some n.
Proof.
  intros Hn. rewrite itoa_nonneg by lia.
  pose proof (itoaFuel_digits (Datatypes.S (Z.to_nat (Z.log2 n))) n EmptyString ltac:(lia) eq_refl) as Hd.
  pose proof (itoaFuel_nonempty (Z.to_nat (Z.log2 n)) n EmptyString) as Hne.
  pose proof (digitsVal_itoa (Datatypes.S (Z.to_nat (Z.log2 n))) n EmptyString ltac:(lia) (pow10_log2' n ltac:(lia))) as Hv.
  destruct (itoaFuel (Datatypes.S (Z.to_nat (Z.log2 n))) n EmptyString) as [|c t] eqn:Es; [congruence|].
  cbn [allDigits] in Hd. apply andb_prop in Hd. destruct Hd as [Hc _].
  destruct (isDigit_not_sign c Hc) as (Hm & Hp & _).
  unfold atoi. rewrite Hm, Hp. rewrite Hv. cbn [digitsVal].
  destruct ((- two63 <=? n) && (n <? two63)) eqn:E; [reflexivity|unfold two63 in *; lia].
Qed.

Fixpoint noSlash (s : string) : bool :=
  match s with EmptyString => true | String c t => negb (Ascii.eqb c "/") && noSlash t end.

Lemma allDigits_noSlash s : allDigits s = true -> noSlash s = true.
Proof.
  induction s as [|c t IH]; [reflexivity|]. cbn [allDigits noSlash]. intros H.
  apply andb_prop in H. destruct H as [Hc Ht]. destruct (isDigit_not_sign c Hc) as (_ & _ & ->). cbn. now apply IH.
Qed.

Lemma splitOn_nonempty sep s : splitOn sep s <> [].
Proof.
  destruct s as [|c t]; cbn [splitOn]; [discriminate|].
  destruct (Ascii.eqb c sep); [discriminate|]. destruct (splitOn sep t); discriminate.
Qed.

Lemma splitOn_app s1 s2 : noSlash s1 = true ->
  splitOn "/" (s1 ++ String "/" s2) = s1 :: splitOn "/" s2.
Proof.
  induction s1 as [|c t IH]; intros H.
  - reflexivity.
  - cbn [noSlash] in H. apply andb_prop in H. destruct H as [Hc Ht].
    change ((String c t ++ String "/" s2)%string) with (String c (t ++ String "/" s2)).
    cbn [splitOn]. destruct (Ascii.eqb c "/"); [discriminate|]. rewrite IH by assumption. reflexivity.
Qed.

Lemma join_split s : joinWith "/" (splitOn "/" s) = s.
Proof.
  induction s as [|c t IH]; [reflexivity|]. cbn [splitOn].
  pose proof (splitOn_nonempty "/" t) as Hne.
  destruct (Ascii.eqb c "/") eqn:E.
  - apply Ascii.eqb_eq in E. subst c. destruct (splitOn "/" t) as [|h r] eqn:Es; [congruence|].
    change (joinWith "/" (EmptyString :: h :: r)) with (("" ++ "/" ++ joinWith "/" (h :: r))%string).
    rewrite IH. reflexivity.
  - destruct (splitOn "/" t) as [|h r] eqn:Es; [congruence|].
    destruct r as [|x r'].
    + cbn [joinWith] in *. now rewrite IH.
    + change (joinWith "/" (String c h :: x :: r')) with (String c (h ++ "/" ++ joinWith "/" (x :: r'))%string).
      change (joinWith "/" (h :: x :: r')) with ((h ++ "/" ++ joinWith "/" (x :: r'))%string) in IH.
      now rewrite IH.
Qed.

Lemma sapp_assoc (a b c : string) : ((a ++ b) ++ c = a ++ (b ++ c))%string.
Proof. induction a as [|x a IH]; [reflexivity|]. cbn. now rewrite IH. Qed.

(** bu<i> as the first element of a segment path selects pattern i and is removed from the path *)
Lemma extractPattern_baseURL i rest : 0 <= i < two63 ->
  extractPattern ("/" ++ baseURL i ++ rest) = Ok (i, ("/" ++ rest)%string).
Proof.
  intros Hi. unfold baseURL, extractPattern.
  replace (("/" ++ ("bu" ++ itoa i ++ "/") ++ rest)%string)
    with (String "/" (("bu" ++ itoa i) ++ String "/" rest))
    by (cbn; rewrite !sapp_assoc; reflexivity).
  assert (Hd : allDigits (itoa i) = true)
    by (rewrite itoa_nonneg by lia; apply itoaFuel_digits; [lia|reflexivity]).
  cbn [splitOn]. change (Ascii.eqb "/" "/") with true. cbn iota.
  rewrite splitOn_app by (cbn; now apply allDigits_noSlash).
  change (prefixb "bu" ("bu" ++ itoa i)) with true. cbn [negb].
  change (dropS 2 ("bu" ++ itoa i)) with (itoa i). rewrite atoi_itoa by assumption.
  f_equal. f_equal.
  pose proof (splitOn_nonempty "/" rest) as Hne. destruct (splitOn "/" rest) as [|h r] eqn:Es; [congruence|].
  change (joinWith "/" (EmptyString :: h :: r)) with (("" ++ "/" ++ joinWith "/" (h :: r))%string).
  rewrite <- Es, join_split. reflexivity.
Qed.

(** a path without such an element is left alone *)
Lemma extractPattern_plain rep file :
  prefixb "bu" rep = false -> noSlash rep = true ->
  extractPattern ("/" ++ rep ++ "/" ++ file) = Ok (-1, ("/" ++ rep ++ "/" ++ file)%string).
Proof.
  intros Hp Hn. unfold extractPattern.
  change (("/" ++ rep ++ "/" ++ file)%string) with (String "/" (rep ++ String "/" file)).
  cbn [splitOn]. change (Ascii.eqb "/" "/") with true. cbn iota.
  rewrite splitOn_app by assumption. rewrite Hp. reflexivity.
Qed.

Lemma seqZ_length a n : length (seqZ a n) = n.
Proof. revert a; induction n; intros a; cbn [seqZ length]; [reflexivity|now rewrite IHn]. Qed.

Lemma seqZ_nth n : forall a i d, (i < n)%nat -> nth i (seqZ a n) d = a + Z.of_nat i.
Proof.
  induction n as [|n IH]; intros a i d Hi; [lia|]. cbn [seqZ]. destruct i as [|i]; cbn [nth]; [lia|].
  rewrite IH by lia. lia.
Qed.

(** The MPD offers one BaseURL per pattern: bu0/, bu1/, ... in order. *)
Lemma mpdBaseURLs_spec traffic :
  length (mpdBaseURLs traffic) = length traffic /\
  forall i, (i < length traffic)%nat -> nth i (mpdBaseURLs traffic) EmptyString = baseURL (Z.of_nat i).
Proof.
  unfold mpdBaseURLs. split; [now rewrite map_length, seqZ_length|].
  intros i Hi. rewrite (nth_indep _ EmptyString (baseURL 0)) by (now rewrite map_length, seqZ_length).
  rewrite (map_nth baseURL). rewrite seqZ_nth by assumption. reflexivity.
Qed.

(** The request for a path below BaseURL i is decided by pattern i at second nowMS/1000. *)
Lemma trafficStep_baseURL traffic i rest nowMS itvls :
  0 <= i < two63 -> nthZ i traffic = Some itvls ->
  trafficStep traffic ("/" ++ baseURL i ++ rest) nowMS =
  match stateAt itvls (Z.quot nowMS 1000) with
  | Panic s => TrPanic s
  | Err _ => TrStatus 500 0
  | Ok LNo => TrContinue ("/" ++ rest) 0
  | Ok L404 => TrStatus 404 0
  | Ok LSlow => TrContinue ("/" ++ rest) 2
  | Ok LHang => TrStatus 503 10
  | Ok LUnknown => TrStatus 500 0
  end.
Proof.
  intros Hi Hn. unfold trafficStep. destruct traffic as [|t0 ts]; [discriminate|].
  rewrite extractPattern_baseURL by assumption.
  destruct (i >=? 0) eqn:E; [|lia]. rewrite Hn. reflexivity.
Qed.

(** * Witnesses *)

(** a pattern without a state letter (no cycle duration) is rejected, also as one of several *)
Lemma empty_pattern_rejected :
  createLossItvls (bytesOf "12") = Err "invalid loss pattern" /\
  createLossItvls [] = Err "invalid loss pattern" /\
  createAllLossItvls (bytesOf "u10,") = Err "invalid loss pattern" /\
  createAllLossItvls (bytesOf "u10,,d3") = Err "invalid loss pattern".
Proof. repeat split; vm_compute; reflexivity. Qed.

(** a duration of 20 digits wraps the int: accepted with another duration *)
Lemma loss_overflow_refuted :
  createLossItvls (bytesOf "u18446744073709551617") = Ok [{| l_dur := 1; l_state := LNo |}] /\
  createLossItvls (bytesOf "u99999999999999999999d1")
    = Ok [{| l_dur := 7766279631452241919; l_state := LNo |}; {| l_dur := 1; l_state := L404 |}].
Proof. split; vm_compute; reflexivity. Qed.

(** * The parser with the range check (proposed_fixes/C14-loss-duration-range.diff) *)

Section Bounded.
Variable mx : Z.
Hypothesis mx_pos : 0 < mx.
Hypothesis mx_small : mx * 10 + 9 < two63.

Lemma lossLoopB_digit d rest st dur acc : 0 <= d <= 9 -> 0 <= dur -> dur * 10 + d <= mx ->
  lossLoopB mx ((48 + d) :: rest) st dur acc = lossLoopB mx rest st (dur * 10 + d) acc.
Proof.
  intros Hd Hdur Hb. cbn [lossLoopB]. rewrite letterState_digit by assumption.
  replace ((48 + d - 48) mod 256) with d by lia.
  destruct (d >? 9) eqn:E; [lia|]. rewrite i64_id by (unfold two63 in *; lia).
  destruct (dur * 10 + d >? mx) eqn:E2; [lia|reflexivity].
Qed.

Lemma lossLoopB_itoa fuel : forall n accS rest st acc,
  0 <= n <= mx -> n < 10 ^ Z.of_nat fuel ->
  lossLoopB mx (bytesOf (itoaFuel fuel n accS) ++ rest) st 0 acc = lossLoopB mx (bytesOf accS ++ rest) st n acc.
Proof.
  induction fuel as [|fuel IH]; intros n accS rest st acc Hn Hf.
  - cbn [itoaFuel]. change (10 ^ Z.of_nat 0) with 1 in Hf. now replace n with 0 by lia.
  - cbn [itoaFuel].
    assert (Hm : 0 <= n mod 10 <= 9) by lia.
    destruct (n <? 10) eqn:E.
    + rewrite bytesOf_String, byteOf_digit by assumption. cbn [app].
      rewrite lossLoopB_digit by (try assumption; lia). f_equal. lia.
    + rewrite IH.
      * rewrite bytesOf_String, byteOf_digit by assumption. cbn [app].
        rewrite lossLoopB_digit by (try lia). f_equal. lia.
      * lia.
      * rewrite Nat2Z.inj_succ, Z.pow_succ_r in Hf by lia. lia.
Qed.

Lemma lossLoopB_print_dur n rest st acc : 0 < n <= mx ->
  lossLoopB mx (bytesOf (itoa n) ++ rest) st 0 acc = lossLoopB mx rest st n acc.
Proof.
  intros Hn. unfold itoa. destruct (n <? 0) eqn:E; [lia|].
  rewrite lossLoopB_itoa by (try lia; apply pow10_log2; lia). reflexivity.
Qed.

(** an interval the repaired parser can produce *)
Definition boundedItvl (i : litvl) : Prop := 0 < l_dur i <= mx /\ l_state i <> LUnknown.

Lemma lossLoopB_print l : forall st dur acc,
  Forall boundedItvl l -> (st = LUnknown \/ dur <> 0) ->
  lossLoopB mx (printItvls l) st dur acc =
  Ok (acc ++ (if lstate_eqb st LUnknown then [] else [{| l_dur := dur; l_state := st |}]) ++ l).
Proof.
  induction l as [|i l IH]; intros st dur acc Hg Hst.
  - cbn [printItvls flat_map lossLoopB]. destruct (lstate_eqb st LUnknown) eqn:E.
    + now rewrite !app_nil_r.
    + destruct Hst as [->|Hd]; [discriminate|]. destruct (dur =? 0) eqn:E0; [lia|]. now rewrite app_nil_r.
  - inversion Hg as [|? ? [Hd Hs] Hl]; subst.
    unfold printItvls. cbn [flat_map]. fold (printItvls l). unfold printItvl. cbn [app lossLoopB].
    rewrite letter_of_state by assumption.
    destruct (lstate_eqb st LUnknown) eqn:E.
    + rewrite lossLoopB_print_dur by assumption. rewrite IH by (try assumption; right; lia).
      destruct (lstate_eqb (l_state i) LUnknown) eqn:E2; [apply lstate_eqb_unknown in E2; contradiction|].
      destruct i; reflexivity.
    + destruct Hst as [->|Hdur]; [discriminate|]. destruct (dur =? 0) eqn:E0; [lia|].
      rewrite lossLoopB_print_dur by assumption. rewrite IH by (try assumption; right; lia).
      destruct (lstate_eqb (l_state i) LUnknown) eqn:E2; [apply lstate_eqb_unknown in E2; contradiction|].
      rewrite <- app_assoc. destruct i; reflexivity.
Qed.

Lemma sumDur_le l : Forall boundedItvl l -> sumDur l <= lenZ l * mx.
Proof.
  induction 1 as [|i l [Hi _] _ IH]; [cbn; lia|].
  cbn [sumDur fold_right]. fold (sumDur l). rewrite lenZ_cons. lia.
Qed.

Lemma bounded_pos l : Forall boundedItvl l -> Forall (fun i => 0 < l_dur i) l.
Proof. induction 1 as [|i l [Hi _] _ IH]; constructor; [lia|assumption]. Qed.

(** Round trip with the range check: what is written with durations 1..mx is read back. *)
Lemma createLossItvlsB_print l : Forall boundedItvl l -> l <> [] -> sumDur l < two63 ->
  createLossItvlsB mx (printItvls l) = Ok l.
Proof.
  intros H Hne Hs. unfold createLossItvlsB. rewrite lossLoopB_print by (try assumption; now left).
  cbn [lstate_eqb app bind]. pose proof (bounded_pos l H) as Hp.
  rewrite cycleDurS_sum by (split; assumption). pose proof (sumDur_pos l Hp Hne).
  destruct (sumDur l <=? 0) eqn:E; [lia|reflexivity].
Qed.

(** Everything the loop produces is bounded, and it produces at most one interval per byte (+1). *)
Lemma lossLoopB_inv p : forall st dur acc l,
  lossLoopB mx p st dur acc = Ok l -> 0 <= dur <= mx -> Forall boundedItvl acc ->
  Forall boundedItvl l /\ lenZ l <= lenZ acc + lenZ p + 1.
Proof.
  induction p as [|ch p IH]; intros st dur acc l H Hdur Hacc; cbn [lossLoopB] in H.
  - change (lenZ (@nil Z)) with 0. destruct (lstate_eqb st LUnknown) eqn:E.
    + injection H as <-. split; [assumption|lia].
    + destruct (dur =? 0) eqn:E0; [discriminate|]. injection H as <-.
      assert (st <> LUnknown) by (intros ->; discriminate).
      split; [apply Forall_app; split; [assumption|constructor; [split; [cbn; lia|assumption]|constructor]]|].
      rewrite lenZ_app. change (lenZ [_]) with 1. lia.
  - rewrite lenZ_cons. destruct (letterState ch) as [st'|] eqn:El.
    + destruct (lstate_eqb st LUnknown) eqn:E.
      * apply IH in H; [|lia|assumption]. destruct H as [H1 H2]. split; [assumption|lia].
      * destruct (dur =? 0) eqn:E0; [discriminate|].
        assert (st <> LUnknown) by (intros ->; discriminate).
        apply IH in H; [|lia|apply Forall_app; split; [assumption|constructor; [split; [cbn; lia|assumption]|constructor]]].
        destruct H as [H1 H2]. split; [assumption|]. rewrite lenZ_app in H2. change (lenZ [_]) with 1 in H2. lia.
    + destruct ((ch - 48) mod 256 >? 9) eqn:Ed; [discriminate|].
      assert (Hv : i64 (dur * 10 + (ch - 48) mod 256) = dur * 10 + (ch - 48) mod 256)
        by (apply i64_id; unfold two63 in *; lia).
      rewrite Hv in H.
      destruct (dur * 10 + (ch - 48) mod 256 >? mx) eqn:Eb; [discriminate|].
      apply IH in H; [|lia|assumption]. destruct H as [H1 H2]. split; [assumption|lia].
Qed.

(** C14_loss_parse_bounded: every accepted pattern has all durations within 1..mx. *)
Lemma createLossItvlsB_bounded p l : createLossItvlsB mx p = Ok l ->
  Forall boundedItvl l /\ l <> [] /\ lenZ l <= lenZ p + 1.
Proof.
  unfold createLossItvlsB. destruct (lossLoopB mx p LUnknown 0 []) as [l'| |] eqn:EL; cbn [bind]; try discriminate.
  destruct (cycleDurS l' <=? 0) eqn:Ec; [discriminate|]. intros H. injection H as <-.
  apply lossLoopB_inv in EL; [|lia|constructor]. destruct EL as [H1 H2]. change (lenZ (@nil litvl)) with 0 in H2.
  split; [assumption|]. split; [intros ->; cbn in Ec; discriminate|lia].
Qed.

(** C14_loss_no_overflow: for a pattern whose length keeps (length+1)*mx inside int64 (with
    mx = 2^31-1: any pattern shorter than 2^32 bytes) neither the cycle nor the arithmetic of
    StateAt can wrap: the cycle is the exact sum and StateAt is the flattened pattern. *)
Lemma createLossItvlsB_no_overflow p l s : createLossItvlsB mx p = Ok l ->
  (lenZ p + 1) * mx < two63 -> 0 <= s ->
  goodItvls l /\ l <> [] /\ cycleDurS l = sumDur l /\ 0 < sumDur l <= (lenZ p + 1) * mx /\
  stateAt l s = Ok (nth (Z.to_nat (s mod sumDur l)) (flatten l) LUnknown).
Proof.
  intros H Hlen Hs. apply createLossItvlsB_bounded in H. destruct H as (Hb & Hne & Hl).
  pose proof (sumDur_le l Hb) as Hsum. pose proof (bounded_pos l Hb) as Hp.
  pose proof (lenZ_nonneg l).
  assert (Hg : goodItvls l) by (split; [assumption|nia]).
  split; [assumption|]. split; [assumption|]. split; [now apply cycleDurS_sum|].
  pose proof (sumDur_pos l Hp Hne). split; [nia|].
  exact (proj1 (stateAt_spec l s Hg Hne Hs)).
Qed.

End Bounded.

(** with the bound of the source, 2^31-1 s: any pattern shorter than 2^32 bytes *)
Lemma parse_no_overflow p l s : createLossItvlsB maxLossItvlDur p = Ok l -> lenZ p + 1 <= two32 -> 0 <= s ->
  Forall (boundedItvl maxLossItvlDur) l /\ goodItvls l /\ l <> [] /\ cycleDurS l = sumDur l /\
  stateAt l s = Ok (nth (Z.to_nat (s mod sumDur l)) (flatten l) LUnknown).
Proof.
  intros H Hlen Hs.
  assert (H1 : 0 < maxLossItvlDur) by reflexivity.
  assert (H2 : maxLossItvlDur * 10 + 9 < two63) by reflexivity.
  pose proof (createLossItvlsB_bounded maxLossItvlDur H1 H2 p l H) as (Hb & _ & _).
  pose proof (lenZ_nonneg p).
  destruct (createLossItvlsB_no_overflow maxLossItvlDur H1 H2 p l s H) as (A & B & C & _ & D);
    [unfold maxLossItvlDur, two63, two32 in *; nia|assumption|].
  exact (conj Hb (conj A (conj B (conj C D)))).
Qed.

(** the overflow inputs are refused by the repaired parser *)
Lemma loss_overflow_rejected :
  createLossItvlsB maxLossItvlDur (bytesOf "u18446744073709551617") = Err "invalid loss pattern: interval too long" /\
  createLossItvlsB maxLossItvlDur (bytesOf "u99999999999999999999d1") = Err "invalid loss pattern: interval too long" /\
  createLossItvlsB maxLossItvlDur (bytesOf "u2147483648") = Err "invalid loss pattern: interval too long" /\
  createLossItvlsB maxLossItvlDur (bytesOf "u2147483647d1") = Ok [{| l_dur := 2147483647; l_state := LNo |}; {| l_dur := 1; l_state := L404 |}].
Proof. repeat split; vm_compute; reflexivity. Qed.
