(** Proofs about the fault-injection model (Fault.v), property C14. *)
From Verif Require Import GoSem GoSemFacts Timeline TimelineProofs Fault.
From Coq Require Import ZifyBool Ascii.
Ltac Zify.zify_post_hook ::= Z.div_mod_to_equations.

(** * searchIdx returns the first index at which the predicate holds *)

Lemma searchIdx_range {A} (f : A -> bool) l : 0 <= searchIdx f l <= lenZ l.
Proof.
  induction l as [|x l IH]; cbn [searchIdx]; [change (lenZ (@nil A)) with 0; lia|].
  rewrite lenZ_cons. destruct (f x); lia.
Qed.

Lemma searchIdx_before (f : seg -> bool) l : forall j, 0 <= j < searchIdx f l -> f (atL l j) = false.
Proof.
  induction l as [|x l IH]; intros j Hj; cbn [searchIdx] in Hj; [lia|].
  destruct (f x) eqn:Ex; [lia|].
  destruct (Z.eq_dec j 0) as [->|Hne]; [now rewrite atL_0|].
  replace j with ((j - 1) + 1) by lia. rewrite atL_cons_succ by lia. apply IH. lia.
Qed.

Lemma searchIdx_at (f : seg -> bool) l : searchIdx f l < lenZ l -> f (atL l (searchIdx f l)) = true.
Proof.
  induction l as [|x l IH]; cbn [searchIdx]; [change (lenZ (@nil seg)) with 0; lia|].
  rewrite lenZ_cons. destruct (f x) eqn:Ex; intros H; [now rewrite atL_0|].
  pose proof (searchIdx_range f l).
  replace (1 + searchIdx f l) with (searchIdx f l + 1) by lia. rewrite atL_cons_succ by lia. apply IH. lia.
Qed.

Lemma i64_id z : - two63 <= z < two63 -> i64 z = z.
Proof. intros H. unfold i64, two63, two64 in *. lia. Qed.

(** * The looped timeline is strictly increasing *)
Section Rep.
Variable r : rep.
Variable loopMS : Z.
Hypothesis W : wf r loopMS.

Let N := nsegs r.
Let D := repDuration r.

Lemma N_pos : 0 < N. Proof. exact (nsegs_pos r loopMS W). Qed.
Lemma D_pos : 0 < D. Proof. exact (repDuration_pos r loopMS W). Qed.

Lemma S_step n : 0 <= n -> S r n < S r (n + 1).
Proof.
  intros Hn. rewrite (S_E_contiguous r loopMS W) by assumption. now apply (S_lt_E r loopMS W).
Qed.

Lemma S_lt a b : 0 <= a -> a < b -> S r a < S r b.
Proof.
  intros Ha Hab.
  assert (H : forall k, 0 <= k -> S r a < S r (a + 1 + k)).
  { intros k Hk. pattern k. apply natlike_ind; [| |assumption].
    - rewrite Z.add_0_r. now apply S_step.
    - intros x Hx IH. pose proof (S_step (a + 1 + x) ltac:(lia)).
      replace (a + 1 + Z.succ x) with (a + 1 + x + 1) by lia. lia. }
  replace b with (a + 1 + (b - a - 1)) by lia. apply H. lia.
Qed.

Lemma S_le a b : 0 <= a -> a <= b -> S r a <= S r b.
Proof.
  intros Ha Hab. destruct (Z.eq_dec a b) as [->|Hne]; [lia|]. pose proof (S_lt a b Ha ltac:(lia)). lia.
Qed.

Lemma S_inj_le a b : 0 <= a -> 0 <= b -> S r a <= S r b -> a <= b.
Proof.
  intros Ha Hb H. destruct (Z_le_gt_dec a b) as [|Hgt]; [assumption|].
  pose proof (S_lt b a Hb ltac:(lia)). lia.
Qed.

Lemma S_0 : S r 0 = 0.
Proof.
  unfold S. pose proof N_pos. fold N. rewrite Z.div_0_l, Z.mod_0_l by lia. rewrite (wf_zero _ _ W). lia.
Qed.

(** start and end of segment w*N+i *)
Lemma divmod_at w i : 0 <= i < N -> (w * N + i) / N = w /\ (w * N + i) mod N = i.
Proof.
  intros Hi. split; [symmetry; apply (Z.div_unique _ _ _ i); lia | symmetry; apply (Z.mod_unique _ _ w); lia].
Qed.

Lemma E_at w i : 0 <= i < N -> E r (w * N + i) = w * D + en (segAt r i).
Proof. intros Hi. unfold E. fold N. destruct (divmod_at w i Hi) as [-> ->]. reflexivity. Qed.

Lemma S_at w i : 0 <= i < N -> S r (w * N + i) = w * D + st (segAt r i).
Proof. intros Hi. unfold S. fold N. destruct (divmod_at w i Hi) as [-> ->]. reflexivity. Qed.

(** * The newest segment that has ended at an instant *)

(** [finSpec T nr]: [nr] is the last segment with E nr <= T, -1 if there is none. *)
Definition finSpec (T nr : Z) : Prop :=
  -1 <= nr /\ (nr = -1 \/ E r nr <= T) /\ T < E r (nr + 1).

Lemma finSpec_mono T1 T2 n1 n2 : T1 <= T2 -> finSpec T1 n1 -> finSpec T2 n2 -> n1 <= n2.
Proof.
  intros HT (H1 & H1a & H1b) (H2 & H2a & H2b).
  destruct (Z_le_gt_dec n1 n2) as [|Hgt]; [assumption|exfalso].
  destruct H1a as [->|H1a]; [lia|].
  (* n2 + 1 <= n1, both >= 0: E (n2+1) <= E n1 *)
  assert (E r (n2 + 1) <= E r n1).
  { rewrite <- !(S_E_contiguous r loopMS W) by lia. apply S_le; lia. }
  lia.
Qed.

Lemma en_first_le i : 0 <= i < N -> en (segAt r 0) <= en (segAt r i).
Proof.
  intros Hi. destruct (Z.eq_dec i 0) as [->|Hne]; [lia|].
  pose proof (seg_mono r loopMS W 0 i ltac:(lia) ltac:(lia) ltac:(fold N; lia)).
  pose proof (seg_pos r loopMS W i ltac:(fold N; lia)). lia.
Qed.

Lemma en_mono i j : 0 <= i -> i <= j -> j < N -> en (segAt r i) <= en (segAt r j).
Proof.
  intros Hi Hij Hj. destruct (Z.eq_dec i j) as [->|Hne]; [lia|].
  pose proof (seg_mono r loopMS W i j ltac:(lia) ltac:(lia) ltac:(fold N; lia)).
  pose proof (seg_pos r loopMS W j ltac:(fold N; lia)). lia.
Qed.

(** The relative index computed by generateTimelineEntries for an instant inside a wrap:
    [relT] ticks after the start of wrap [wraps]. *)
Lemma edge_spec wraps relT :
  0 <= relT < D ->
  let n := nsegs r in
  let '(w, i) := if relT <? en (segAt r 0) then (wraps - 1, n - 1)
                 else let i := firstFinishedIdx (segs r) relT in
                      if i <? 0 then (wraps - 1, n - 1) else (wraps, i) in
  (w = wraps \/ (w = wraps - 1 /\ i = N - 1)) /\ 0 <= i < N /\
  E r (w * N + i) <= wraps * D + relT < E r (w * N + i + 1).
Proof.
  intros HT. cbn zeta. fold N. pose proof N_pos as HN. pose proof D_pos as HD.
  assert (Hlast : en (segAt r (N - 1)) = D) by (unfold D, N; now rewrite (repDuration_en r loopMS W)).
  assert (Hprev : E r ((wraps - 1) * N + (N - 1)) <= wraps * D + relT < E r ((wraps - 1) * N + (N - 1) + 1) ->
                  relT < en (segAt r 0) -> True) by trivial.
  destruct (relT <? en (segAt r 0)) eqn:E0.
  - split; [right; split; reflexivity|]. split; [lia|].
    rewrite E_at by lia. replace ((wraps - 1) * N + (N - 1) + 1) with (wraps * N + 0) by lia.
    rewrite E_at by lia. lia.
  - unfold firstFinishedIdx. set (k := searchIdx (fun s => en s >? relT) (segs r)).
    pose proof (searchIdx_range (fun s => en s >? relT) (segs r)) as Hk. fold k in Hk. fold (nsegs r) in Hk. fold N in Hk.
    assert (Hk1 : 1 <= k).
    { destruct (Z_le_gt_dec 1 k); [assumption|exfalso].
      assert (k = 0) by lia.
      pose proof (searchIdx_at (fun s => en s >? relT) (segs r)) as Hat. fold k in Hat. fold (nsegs r) in Hat. fold N in Hat.
      specialize (Hat ltac:(lia)). rewrite H in Hat. rewrite <- segAt_atL in Hat. lia. }
    destruct (k - 1 <? 0) eqn:E1; [lia|].
    assert (HkN : k < N).
    { destruct (Z_lt_ge_dec k N); [assumption|exfalso].
      pose proof (searchIdx_before (fun s => en s >? relT) (segs r) (N - 1)) as Hb. fold k in Hb.
      specialize (Hb ltac:(lia)). rewrite <- segAt_atL in Hb. lia. }
    split; [left; reflexivity|]. split; [lia|].
    rewrite E_at by lia. replace (wraps * N + (k - 1) + 1) with (wraps * N + k) by lia. rewrite E_at by lia.
    pose proof (searchIdx_before (fun s => en s >? relT) (segs r) (k - 1)) as Hb. fold k in Hb.
    specialize (Hb ltac:(lia)). rewrite <- segAt_atL in Hb.
    pose proof (searchIdx_at (fun s => en s >? relT) (segs r)) as Hat. fold k in Hat. fold (nsegs r) in Hat. fold N in Hat.
    specialize (Hat ltac:(lia)). rewrite <- segAt_atL in Hat. lia.
Qed.


Lemma E_le a b : 0 <= a -> a <= b -> E r a <= E r b.
Proof.
  intros Ha Hab. rewrite <- !(S_E_contiguous r loopMS W) by lia. apply S_le; lia.
Qed.

Lemma loopMS_pos : 0 < loopMS.
Proof. pose proof (wf_loop _ _ W). pose proof (wf_ts _ _ W). pose proof D_pos. unfold D in *. nia. Qed.

(** relative ticks inside a wrap *)
Lemma relT_range relMS : 0 <= relMS < loopMS -> 0 <= relMS * ts r / 1000 < D.
Proof.
  intros H. pose proof (wf_loop _ _ W) as HL. pose proof (wf_ts _ _ W). fold D in HL.
  split; [apply Z.div_pos; nia|]. apply Z.div_lt_upper_bound; nia.
Qed.

(** wall-clock milliseconds to ticks, split at the wrap *)
Lemma ticks_split ms : 0 <= ms ->
  (ms / loopMS) * D + (ms - ms / loopMS * loopMS) * ts r / 1000 = ms * ts r / 1000.
Proof.
  intros Hms. pose proof loopMS_pos. pose proof (wf_loop _ _ W) as HL. fold D in HL.
  set (q := ms / loopMS). set (rel := ms - q * loopMS).
  replace (ms * ts r) with (rel * ts r + q * D * 1000) by (unfold rel; nia).
  rewrite Z.div_add by lia. lia.
Qed.

Lemma edgeIdxU_spec wraps relMS : 0 <= relMS < loopMS -> D < two64 ->
  let '(w, i) := edgeIdxU r wraps relMS 0 in
  (w = wraps \/ (w = wraps - 1 /\ i = N - 1)) /\ 0 <= i < N /\
  E r (w * N + i) <= wraps * D + relMS * ts r / 1000 < E r (w * N + i + 1).
Proof.
  intros Hrel HD. pose proof (relT_range relMS Hrel) as HT. pose proof (wf_ts _ _ W).
  pose proof (edge_spec wraps _ HT) as Hs. cbn zeta in Hs.
  unfold edgeIdxU. rewrite Z.add_0_r. rewrite Z.quot_div_nonneg by nia.
  rewrite (u64_id (relMS * ts r / 1000)) by lia. exact Hs.
Qed.

(** * lastNr of the generated timeline *)

Definition cnt (l : list sentry) : Z := fold_left (fun a e => a + (e_r e + 1)) l 0.

Lemma fold_cnt l : forall a, fold_left (fun a e => a + (e_r e + 1)) l a = a + cnt l.
Proof.
  unfold cnt. induction l as [|e l IH]; intros a; cbn [fold_left]; [lia|].
  rewrite IH. rewrite (IH (0 + (e_r e + 1))). lia.
Qed.

Lemma cnt_cons e l : cnt (e :: l) = e_r e + 1 + cnt l.
Proof. unfold cnt at 1. cbn [fold_left]. rewrite fold_cnt. lia. Qed.

Lemma cnt_app a b : cnt (a ++ b) = cnt a + cnt b.
Proof. induction a as [|e a IH]; cbn [app]; [reflexivity|]. rewrite !cnt_cons, IH. lia. Qed.

Lemma cnt_rev l : cnt (rev l) = cnt l.
Proof.
  induction l as [|e l IH]; [reflexivity|]. cbn [rev]. rewrite cnt_app, IH, !cnt_cons.
  change (cnt []) with 0. lia.
Qed.

Lemma tlLoop_count k : forall nr d t cur acc a b c,
  cnt (fst (tlLoop r k nr d t cur acc a b c)) = Z.of_nat k + (e_r cur + 1) + cnt acc.
Proof.
  induction k as [|k IH]; intros nr d t cur acc a b c; cbn [tlLoop].
  - cbn [fst]. rewrite cnt_rev, cnt_cons. lia.
  - destruct (sdur (segAt r (nr mod nsegs r)) =? d); rewrite IH; cbn [e_r]; [|rewrite cnt_cons]; lia.
Qed.

Lemma findLastSegNr_spec c nowMS :
  startS c = 0 -> 0 <= nowMS -> D < two64 -> E r 0 <= nowMS * ts r / 1000 ->
  let L := findLastSegNr r loopMS c nowMS in
  0 <= L /\ E r L <= nowMS * ts r / 1000 < E r (L + 1).
Proof.
  intros Hst Hnow HD HE0. cbn zeta. pose proof loopMS_pos as HLp. pose proof N_pos as HN. pose proof D_pos as HDp.
  unfold findLastSegNr, calcWrapTimes. rewrite Hst. cbn [Z.mul]. rewrite !Z.sub_0_r, !Z.add_0_r.
  set (stMS := if nowMS - 60000 <? 0 then 0 else nowMS - 60000).
  assert (HstMS : 0 <= stMS <= nowMS) by (unfold stMS; destruct (nowMS - 60000 <? 0) eqn:E; lia).
  rewrite !Z.quot_div_nonneg by lia.
  unfold generateTimelineEntriesU.
  cbn [startWraps startRelMS nowWraps nowRelMS].
  pose proof (edgeIdxU_spec (stMS / loopMS) (stMS - stMS / loopMS * loopMS) ltac:(lia) HD) as Hs.
  pose proof (edgeIdxU_spec (nowMS / loopMS) (nowMS - nowMS / loopMS * loopMS) ltac:(lia) HD) as Hn.
  rewrite (ticks_split stMS) in Hs by lia. rewrite (ticks_split nowMS) in Hn by lia.
  destruct (edgeIdxU r (stMS / loopMS) (stMS - stMS / loopMS * loopMS) 0) as [sw0 si0].
  destruct (edgeIdxU r (nowMS / loopMS) (nowMS - nowMS / loopMS * loopMS) 0) as [nw ni].
  destruct Hs as (Hsw & Hsi & Hs1 & Hs2). destruct Hn as (Hnw & Hni & Hn1 & Hn2).
  assert (Hq : 0 <= nowMS / loopMS) by (apply Z.div_pos; lia).
  assert (Hnw0 : 0 <= nw).
  { destruct Hnw as [->|[-> ->]]; [assumption|].
    destruct (Z.eq_dec (nowMS / loopMS) 0) as [H0|]; [|lia].
    rewrite H0 in Hn2. replace ((0 - 1) * N + (N - 1) + 1) with 0 in Hn2 by lia. lia. }
  destruct (nw <? 0) eqn:Enw; [lia|].
  set (TS := stMS * ts r / 1000) in *. set (TN := nowMS * ts r / 1000) in *.
  assert (HTS : TS <= TN) by (unfold TS, TN; pose proof (wf_ts _ _ W); apply Z.div_le_mono; nia).
  set (p := if sw0 <? 0 then (0, 0) else (sw0, si0)).
  assert (Hp : 0 <= fst p * N + snd p <= nw * N + ni).
  { unfold p. destruct (sw0 <? 0) eqn:Esw; cbn [fst snd]; [nia|].
    split; [nia|]. destruct (Z_le_gt_dec (sw0 * N + si0) (nw * N + ni)) as [|Hgt]; [assumption|exfalso].
    pose proof (E_le (nw * N + ni + 1) (sw0 * N + si0) ltac:(nia) ltac:(lia)). lia. }
  destruct p as [sw si]. cbn [fst snd] in Hp. fold N.
  destruct (tlLoop r (Z.to_nat (nw * N + ni - (sw * N + si))) (sw * N + si + 1) (sdur (segAt r si))
              (repDuration r * sw + st (segAt r si))
              {| e_t := repDuration r * sw + st (segAt r si); e_d := sdur (segAt r si); e_r := 0 |} []
              (repDuration r * sw + st (segAt r si)) (sdur (segAt r si)) (sw * N + si)) as [es [[ls ld] ln]] eqn:Etl.
  unfold lastNr. cbn [se_startNr se_entries]. rewrite fold_cnt.
  pose proof (tlLoop_count (Z.to_nat (nw * N + ni - (sw * N + si))) (sw * N + si + 1) (sdur (segAt r si))
              (repDuration r * sw + st (segAt r si))
              {| e_t := repDuration r * sw + st (segAt r si); e_d := sdur (segAt r si); e_r := 0 |} []
              (repDuration r * sw + st (segAt r si)) (sdur (segAt r si)) (sw * N + si)) as Hc.
  rewrite Etl in Hc. cbn [fst e_r] in Hc. change (cnt []) with 0 in Hc. rewrite Hc.
  rewrite Z2Nat.id by lia.
  replace (sw * N + si + (0 + (nw * N + ni - (sw * N + si) + (0 + 1) + 0)) - 1) with (nw * N + ni) by lia.
  split; [nia|]. split; assumption.
Qed.

(** * findSegStartTime computes S *)
Lemma findSegStartTime_spec c n : 0 <= n ->
  findSegStartTime r loopMS c (startNr c + n) = Ok (S r n).
Proof.
  intros Hn. unfold findSegStartTime. pose proof N_pos as HN. fold N.
  destruct (N =? 0) eqn:E0; [lia|].
  replace (startNr c + n - startNr c) with n by lia.
  rewrite Z.quot_div_nonneg by lia.
  replace (n - n / N * N) with (n mod N) by (Z.div_mod_to_equations; nia).
  unfold N. rewrite (segAt_ok r) by (fold N; Z.div_mod_to_equations; lia).
  rewrite (wrapDur_eq r loopMS W). unfold S. reflexivity.
Qed.

(** * The first segment of a cycle *)

(** [isFirst X m]: m is the first segment that starts at or after X *)
Definition isFirst (X m : Z) : Prop := 0 <= m /\ X <= S r m /\ (m = 0 \/ S r (m - 1) < X).

Lemma isFirst_min X m : isFirst X m -> forall j, 0 <= j -> (X <= S r j <-> m <= j).
Proof.
  intros (Hm & Hge & Hprev) j Hj. split.
  - intros HX. destruct Hprev as [->|Hprev]; [assumption|].
    destruct (Z_le_gt_dec m j) as [|Hgt]; [assumption|exfalso].
    pose proof (S_le j (m - 1) Hj ltac:(lia)). lia.
  - intros Hmj. pose proof (S_le m j Hm Hmj). lia.
Qed.

Lemma isFirst_unique X a b : isFirst X a -> isFirst X b -> a = b.
Proof.
  intros Ha Hb.
  pose proof (proj1 (isFirst_min X a Ha b ltac:(destruct Hb; assumption)) ltac:(destruct Hb as (_ & ? & _); assumption)).
  pose proof (proj1 (isFirst_min X b Hb a ltac:(destruct Ha; assumption)) ltac:(destruct Ha as (_ & ? & _); assumption)).
  lia.
Qed.

End Rep.

(** * The schedule: which request a statuscode_ pattern hits (specification side) *)

(** the least m in [0, k] with S m >= X, given S k >= X: walk down from k *)
Fixpoint firstGE (r : rep) (X : Z) (k : nat) : Z :=
  match k with
  | O => 0
  | Datatypes.S k' => if S r (Z.of_nat k') >=? X then firstGE r X k' else Z.of_nat k
  end.

(** start (in ticks) of the cycle in which segment n starts; cycles of [cycle] seconds from the
    start of the stream *)
Definition cycleStart (r : rep) (cycle n : Z) : Z := S r n / (cycle * ts r) * (cycle * ts r).

(** first segment that starts in the cycle of segment n *)
Definition firstInCycle (r : rep) (cycle n : Z) : Z := firstGE r (cycleStart r cycle n) (Z.to_nat n).

(** the code the schedule prescribes for segment n of representation repID, 0 = none *)
Fixpoint scheduleCode (r : rep) (codes : list sscode) (repID : string) (n : Z) : Z :=
  match codes with
  | [] => 0
  | ss :: rest =>
    if repInReps repID (sc_reps ss) && (n - firstInCycle r (sc_cycle ss) n =? sc_rsq ss) then sc_code ss
    else scheduleCode r rest repID n
  end.

(** what a pattern must satisfy for the theorems: a cycle the parser accepts (1 .. 2^31-1 s) that is
    not shorter than the first segment *)
Definition goodCode (r : rep) (ss : sscode) : Prop :=
  0 < sc_cycle ss <= 2147483647 /\ E r 0 <= sc_cycle ss * ts r.

Section Sched.
Variable r : rep.
Variable loopMS : Z.
Hypothesis W : wf r loopMS.

Lemma firstGE_spec X k : X <= S r (Z.of_nat k) ->
  isFirst r X (firstGE r X k) /\ firstGE r X k <= Z.of_nat k.
Proof.
  induction k as [|k IH]; intros HX; cbn [firstGE].
  - split; [|lia]. split; [lia|]. split; [exact HX|left; reflexivity].
  - destruct (S r (Z.of_nat k) >=? X) eqn:E.
    + destruct (IH ltac:(lia)) as [H1 H2]. split; [exact H1|lia].
    + split; [|lia]. split; [lia|]. split; [exact HX|]. right.
      replace (Z.of_nat (Datatypes.S k) - 1) with (Z.of_nat k) by lia. lia.
Qed.

Lemma cycleStart_le cycle n : 0 < cycle -> 0 <= n -> 0 <= cycleStart r cycle n <= S r n.
Proof.
  intros Hc Hn. pose proof (wf_ts _ _ W). pose proof (S_nonneg r loopMS n W Hn).
  unfold cycleStart. assert (0 < cycle * ts r) by nia.
  pose proof (Z.mul_div_le (S r n) (cycle * ts r) ltac:(lia)).
  assert (0 <= S r n / (cycle * ts r)) by (apply Z.div_pos; lia). nia.
Qed.

Lemma firstInCycle_spec cycle n : 0 < cycle -> 0 <= n ->
  isFirst r (cycleStart r cycle n) (firstInCycle r cycle n) /\ firstInCycle r cycle n <= n.
Proof.
  intros Hc Hn. unfold firstInCycle.
  pose proof (firstGE_spec (cycleStart r cycle n) (Z.to_nat n)) as H.
  rewrite Z2Nat.id in H by lia. apply H. apply cycleStart_le; assumption.
Qed.

(** the first number computed by calcStatusCode for one pattern *)
Definition codeFirstNr (fx : bool) (c : tcfg) (startTime repTs cycle : Z) : res Z :=
  let cycleInTimescale := i64 (cycle * repTs) in
  let nrWraps := Z.quot startTime cycleInTimescale in
  let wrapStartS := i64 (nrWraps * cycle) in
  let firstNr0 :=
    if nrWraps >? 0 then
      if fx then
        let lastNr := findLastSegNr r loopMS c (i64 ((startS c + wrapStartS) * 1000)) in
        startNr c + (if lastNr <? 0 then -1 else lastNr) + 1
      else findLastSegNr r loopMS c (i64 (wrapStartS * 1000)) + 1
    else startNr c in
  do segTime <- findSegStartTime r loopMS c firstNr0;
  Ok (if segTime <? i64 (wrapStartS * repTs) then firstNr0 + 1 else firstNr0).

Lemma codeFirstNr_spec c ss n :
  startS c = 0 -> startNr c = 0 -> repDuration r < two64 -> goodCode r ss -> 0 <= n -> S r n * 1000 < two63 ->
  ts r < two32 ->
  codeFirstNr false c (S r n) (ts r) (sc_cycle ss) = Ok (firstInCycle r (sc_cycle ss) n).
Proof.
  intros Hst Hsn HD ([Hc Hcmax] & HE0) Hn HSb Hts32. pose proof (wf_ts _ _ W) as Hts.
  assert (Hov : sc_cycle ss * ts r < two63) by (unfold two63, two32 in *; nia).
  pose proof (S_nonneg r loopMS n W Hn) as HS0.
  set (cycle := sc_cycle ss) in *. set (cyT := cycle * ts r) in *.
  assert (HcyT : 0 < cyT) by (unfold cyT; nia).
  unfold codeFirstNr. cbv iota. rewrite Hsn. fold cycle. fold cyT. rewrite (i64_id cyT) by (unfold two63 in *; lia).
  rewrite Z.quot_div_nonneg by lia.
  set (q := S r n / cyT).
  assert (Hq : 0 <= q) by (apply Z.div_pos; lia).
  assert (HX : cycleStart r cycle n = q * cyT) by reflexivity.
  assert (HqX : q * cyT <= S r n) by (unfold q; pose proof (Z.mul_div_le (S r n) cyT HcyT); lia).
  assert (Hqc : 0 <= q * cycle <= S r n) by (unfold cyT in HqX; nia).
  rewrite (i64_id (q * cycle)) by (unfold two63 in *; lia).
  rewrite (i64_id (q * cycle * 1000)) by (unfold two63 in *; lia).
  rewrite (i64_id (q * cycle * ts r)) by (unfold two63 in *; nia).
  destruct (firstInCycle_spec cycle n Hc Hn) as [Hfirst Hle]. rewrite HX in Hfirst.
  assert (Hfs : forall m, 0 <= m -> findSegStartTime r loopMS c m = Ok (S r m)).
  { intros m Hm. pose proof (findSegStartTime_spec r loopMS W c m Hm) as H. now rewrite Hsn in H. }
  replace (q * cycle * ts r) with (q * cyT) by (unfold cyT; ring).
  destruct (q >? 0) eqn:Eq.
  - (* a later cycle: the timeline at the cycle start *)
    pose proof (findLastSegNr_spec r loopMS W c (q * cycle * 1000) Hst ltac:(nia) HD) as HL.
    replace (q * cycle * 1000 * ts r / 1000) with (q * cyT) in HL
      by (replace (q * cycle * 1000 * ts r) with (q * cyT * 1000) by (unfold cyT; ring); now rewrite Z.div_mul by lia).
    specialize (HL ltac:(nia)). cbn zeta in HL.
    set (L := findLastSegNr r loopMS c (q * cycle * 1000)) in *. destruct HL as (HL0 & HL1 & HL2).
    rewrite Hfs by lia. cbn [bind]. f_equal.
    rewrite <- (S_E_contiguous r loopMS W) in HL1 by lia.
    destruct (S r (L + 1) <? q * cyT) eqn:Elt.
    + apply (isFirst_unique r loopMS W (q * cyT)); [|exact Hfirst].
      split; [lia|]. split.
      * replace (L + 1 + 1) with ((L + 1) + 1) by lia. rewrite (S_E_contiguous r loopMS W) by lia. lia.
      * right. replace (L + 1 + 1 - 1) with (L + 1) by lia. lia.
    + apply (isFirst_unique r loopMS W (q * cyT)); [|exact Hfirst].
      split; [lia|]. split; [lia|]. right. replace (L + 1 - 1) with L by lia.
      pose proof (S_lt_E r loopMS W L HL0). rewrite (S_E_contiguous r loopMS W) in HL1 by lia. lia.
  - (* the first cycle *)
    assert (q = 0) by lia. rewrite Hfs by lia. cbn [bind]. f_equal.
    rewrite (S_0 r loopMS W). replace (q * cyT) with 0 by lia. cbn.
    apply (isFirst_unique r loopMS W (q * cyT)); [|exact Hfirst].
    split; [lia|]. split; [rewrite (S_0 r loopMS W); lia|left; reflexivity].
Qed.

Lemma statusLoop_cons fx c repID startTime repTs nr ss rest :
  statusLoop fx r loopMS c repID startTime repTs nr (ss :: rest) =
  if negb (repInReps repID (sc_reps ss)) then statusLoop fx r loopMS c repID startTime repTs nr rest else
  if i64 (sc_cycle ss * repTs) =? 0 then Panic "calcStatusCode: integer divide by zero" else
  do firstNr <- codeFirstNr fx c startTime repTs (sc_cycle ss);
  if nr - firstNr <? 0 then Err "segment is before first segment"
  else if nr - firstNr =? sc_rsq ss then Ok (sc_code ss)
  else statusLoop fx r loopMS c repID startTime repTs nr rest.
Proof.
  cbn [statusLoop]. destruct (negb (repInReps repID (sc_reps ss))); [reflexivity|].
  destruct (i64 (sc_cycle ss * repTs) =? 0); [reflexivity|].
  unfold codeFirstNr.
  destruct (findSegStartTime r loopMS c _); reflexivity.
Qed.

(** calcStatusCode computes the schedule: the code of the first pattern (in order) whose
    representation filter matches and whose relative number is n - firstInCycle. *)
Lemma statusLoop_spec c repID n codes :
  startS c = 0 -> startNr c = 0 -> repDuration r < two64 -> Forall (goodCode r) codes -> 0 <= n ->
  S r n * 1000 < two63 -> ts r < two32 ->
  statusLoop false r loopMS c repID (S r n) (ts r) n codes = Ok (scheduleCode r codes repID n).
Proof.
  intros Hst Hsn HD Hgood Hn HSb Hts32. induction Hgood as [|ss rest Hss _ IH]; [reflexivity|].
  rewrite statusLoop_cons. cbn [scheduleCode].
  destruct (repInReps repID (sc_reps ss)) eqn:Erep; cbn [negb andb]; [|exact IH].
  pose proof Hss as ([Hc Hcmax] & HE0). pose proof (wf_ts _ _ W) as Hts.
  assert (Hov : sc_cycle ss * ts r < two63) by (unfold two63, two32 in *; nia).
  rewrite i64_id by (unfold two63 in *; nia).
  destruct (sc_cycle ss * ts r =? 0) eqn:E0; [nia|].
  rewrite (codeFirstNr_spec c ss n Hst Hsn HD Hss Hn HSb Hts32). cbn [bind].
  destruct (firstInCycle_spec (sc_cycle ss) n Hc Hn) as [_ Hle].
  destruct (n - firstInCycle r (sc_cycle ss) n <? 0) eqn:Eneg; [lia|].
  destruct (n - firstInCycle r (sc_cycle ss) n =? sc_rsq ss); [reflexivity|exact IH].
Qed.

(** the answer the schedule prescribes: the code, or the answer without the parameter *)
Definition scheduled (codes : list sscode) (repID : string) (n base : Z) : Z :=
  let k := scheduleCode r codes repID n in if k =? 0 then base else k.

Definition timedAnswer (t : tv) (a : Z) : answer :=
  match t with TvOk => AStatus a | TvTooEarly _ => AStatus 425 | TvGone => AStatus 410 end.

Lemma calcStatusCode_spec c codes repID n nr :
  startS c = 0 -> startNr c = 0 -> repDuration r < two64 -> Forall (goodCode r) codes -> 0 <= n ->
  S r n * 1000 < two63 -> ts r < two32 -> nr = n ->
  calcStatusCode false r loopMS c codes repID (metaOf r c n nr) = Ok (scheduleCode r codes repID n).
Proof.
  intros Hst Hsn HD Hgood Hn HS Hts ->. unfold calcStatusCode, metaOf. cbn [newTime mtimescale newNr].
  pose proof (S_nonneg r loopMS n W Hn). pose proof (wf_ts _ _ W).
  rewrite u64_id by (unfold two63, two64 in *; lia). rewrite i64_id by (unfold two63 in *; lia).
  rewrite u32_id by lia. apply statusLoop_spec; assumption.
Qed.

(** A request by number (video, or audio: the reference segment with the same number). *)
Lemma segAnswer_number c codes repID audio n now base :
  startS c = 0 -> startNr c = 0 -> repDuration r < two64 -> Forall (goodCode r) codes -> codes <> [] -> forallb codeValid codes = true ->
  0 <= n < two32 -> S r n * 1000 < two63 -> ts r < two32 -> 0 <= now ->
  segAnswer false r loopMS c codes repID audio ByNumber n now base =
  timedAnswer (checkTime (E r n) (ts r) now (tsbdS c) (ato c)) (scheduled codes repID n base).
Proof.
  intros Hst Hsn HD Hgood Hne Hval Hn HS Hts Hnow. unfold segAnswer. rewrite Hval, Hst. cbn [negb Z.mul].
  destruct (now <? 0) eqn:E0; [lia|]. destruct codes as [|c0 cs] eqn:Ec; [congruence|]. rewrite <- Ec in *.
  assert (Hf : findSegMeta r loopMS c audio ByNumber n now = lookup r loopMS c ByNumber n now)
    by (unfold findSegMeta; destruct audio as [[? ?]|]; reflexivity).
  rewrite Hf. pose proof (lookup_number r loopMS c n now ltac:(lia) ltac:(lia) ltac:(lia)) as Hl.
  rewrite Hsn in Hl. cbn [Z.add] in Hl. rewrite Hl.
  pose proof (segMetaFromNr_spec r loopMS W c n now ltac:(lia)) as Hm. rewrite Hsn, Hst in Hm. cbn [Z.add Z.mul] in Hm.
  rewrite Hm. rewrite Z.add_0_r.
  destruct (checkTime (E r n) (ts r) now (tsbdS c) (ato c)); cbn [timed timedAnswer]; [|reflexivity|reflexivity].
  rewrite (calcStatusCode_spec c codes repID n n Hst Hsn HD Hgood ltac:(lia) HS Hts eq_refl).
  unfold scheduled. destruct (scheduleCode r codes repID n =? 0); reflexivity.
Qed.

(** A video request by time ($Time$ addressing): the segment that starts at S n. *)
Lemma segAnswer_time c codes repID n now base :
  startS c = 0 -> startNr c = 0 -> repDuration r < two64 -> Forall (goodCode r) codes -> codes <> [] -> forallb codeValid codes = true ->
  0 <= n < two32 -> S r n * 1000 < two63 -> ts r < two32 -> 0 <= now ->
  segAnswer false r loopMS c codes repID None ByTime (S r n) now base =
  timedAnswer (checkTime (E r n) (ts r) now (tsbdS c) (ato c)) (scheduled codes repID n base).
Proof.
  intros Hst Hsn HD Hgood Hne Hval Hn HS Hts Hnow. unfold segAnswer. rewrite Hval, Hst. cbn [negb Z.mul].
  destruct (now <? 0) eqn:E0; [lia|]. destruct codes as [|c0 cs] eqn:Ec; [congruence|]. rewrite <- Ec in *.
  pose proof (S_nonneg r loopMS n W ltac:(lia)) as HS0. pose proof (wf_ts _ _ W).
  unfold findSegMeta. rewrite lookup_time by (unfold two63, two64 in *; lia).
  rewrite (segMetaFromTime_spec r loopMS W) by lia. rewrite Hsn, Hst. cbn [Z.add Z.mul]. rewrite Z.add_0_r.
  destruct (checkTime (E r n) (ts r) now (tsbdS c) (ato c)); cbn [timed timedAnswer]; [|reflexivity|reflexivity].
  unfold calcStatusCode. cbn [newTime mtimescale newNr].
  rewrite i64_id by (unfold two63 in *; lia). rewrite !u32_id by lia.
  rewrite (statusLoop_spec c repID n codes Hst Hsn HD Hgood ltac:(lia) HS Hts). unfold scheduled.
  destruct (scheduleCode r codes repID n =? 0); reflexivity.
Qed.

End Sched.

(** * Witnesses: where the code leaves the schedule (reproduced on the implementation, see
      known_findings.json, ids c14-...) *)

Definition w_rep2 : rep :=   (* testpic_2s/V300: 4 x 2 s *)
  {| segs := [ {| st := 0; en := 180000; snr := 1 |}; {| st := 180000; en := 360000; snr := 2 |};
               {| st := 360000; en := 540000; snr := 3 |}; {| st := 540000; en := 720000; snr := 4 |} ]; ts := 90000 |}.
Definition w_rep6 : rep :=   (* testpic_6s/V300: 2 x 6 s *)
  {| segs := [ {| st := 0; en := 540000; snr := 1 |}; {| st := 540000; en := 1080000; snr := 2 |} ]; ts := 90000 |}.
Definition w_rep8 : rep :=   (* testpic_8s/V300: 1 x 8 s *)
  {| segs := [ {| st := 0; en := 720000; snr := 1 |} ]; ts := 90000 |}.

Ltac prove_wf := constructor; [discriminate | repeat constructor; cbn; lia | cbn; repeat split; reflexivity
                               | reflexivity | cbn; lia | reflexivity].

Lemma w_rep2_wf : wf w_rep2 8000. Proof. prove_wf. Qed.
Lemma w_rep6_wf : wf w_rep6 12000. Proof. prove_wf. Qed.
Lemma w_rep8_wf : wf w_rep8 8000. Proof. prove_wf. Qed.

Definition w_code (cycle rsq code : Z) : sscode := {| sc_cycle := cycle; sc_rsq := rsq; sc_code := code; sc_reps := [] |}.
Definition w_cfg (start snr : Z) : tcfg := {| startS := start; startNr := snr; tsbdS := 60; ato := Some 0 |}.

(** start_30: segment 4 (available from 40 s) of statuscode_[{cycle:8,rsq:1,code:404}] panics; and
    segment 31 of cycle 30 (the second segment of the cycle that starts at 60 s) is not hit. *)
Lemma start_refuted :
  wf w_rep2 8000 /\ goodCode w_rep2 (w_code 8 1 404) /\ goodCode w_rep2 (w_code 30 1 404) /\
  segAnswer false w_rep2 8000 (w_cfg 30 0) [w_code 8 1 404] "V300" None ByNumber 4 40037 200
    = APanic "findSegStartTime: index out of range" /\
  scheduleCode w_rep2 [w_code 30 1 404] "V300" 31 = 404 /\
  segAnswer false w_rep2 8000 (w_cfg 30 0) [w_code 30 1 404] "V300" None ByNumber 31 94037 200 = AStatus 200.
Proof.
  split; [exact w_rep2_wf|]. repeat split; try (cbn; unfold two63; lia); vm_compute; reflexivity.
Qed.

(** snr_7: the first cycle is counted from the start number, but lastNr() of the later cycles
    is not: number 11 (segment 4, first of the cycle that starts at 8 s) panics; segment 9 (number
    16, second of the cycle that starts at 16 s) is not hit. *)
Lemma snr_refuted :
  wf w_rep2 8000 /\ goodCode w_rep2 (w_code 8 1 404) /\
  segAnswer false w_rep2 8000 (w_cfg 0 7) [w_code 8 1 404] "V300" None ByNumber 11 10037 200
    = APanic "findSegStartTime: index out of range" /\
  scheduleCode w_rep2 [w_code 8 1 404] "V300" 9 = 404 /\
  segAnswer false w_rep2 8000 (w_cfg 0 7) [w_code 8 1 404] "V300" None ByNumber 16 20037 200 = AStatus 200.
Proof.
  split; [exact w_rep2_wf|]. repeat split; try (cbn; unfold two63; lia); vm_compute; reflexivity.
Qed.

(** a cycle shorter than the first segment: 5 s on 6 s segments panics; 3 s on the single 8 s
    segment moves the relative number by one (rsq 0 misses, rsq 1 hits the first segment of a cycle). *)
Lemma short_cycle_refuted :
  wf w_rep6 12000 /\ wf w_rep8 8000 /\
  ~ goodCode w_rep6 (w_code 5 0 400) /\ ~ goodCode w_rep8 (w_code 3 0 500) /\
  segAnswer false w_rep6 12000 (w_cfg 0 0) [w_code 5 0 400] "V300" None ByNumber 1 12037 200
    = APanic "findSegStartTime: index out of range" /\
  scheduleCode w_rep8 [w_code 3 0 500] "V300" 1 = 500 /\
  segAnswer false w_rep8 8000 (w_cfg 0 0) [w_code 3 0 500] "V300" None ByNumber 1 16037 200 = AStatus 200 /\
  scheduleCode w_rep8 [w_code 3 1 599] "V300" 1 = 0 /\
  segAnswer false w_rep8 8000 (w_cfg 0 0) [w_code 3 1 599] "V300" None ByNumber 1 16037 200 = AStatus 599.
Proof.
  split; [exact w_rep6_wf|]. split; [exact w_rep8_wf|].
  split; [intros (_ & H); vm_compute in H; apply H; reflexivity|].
  split; [intros (_ & H); vm_compute in H; apply H; reflexivity|].
  repeat split; vm_compute; reflexivity.
Qed.

(** a cycle above 2^31 s is refused (cycle * timescale used to wrap to 0: division by zero) *)
Lemma cycle_wrap_rejected :
  ~ goodCode w_rep2 (w_code 1152921504606846976 38 404) /\
  segAnswer false w_rep2 8000 (w_cfg 0 0) [w_code 1152921504606846976 38 404] "V300" None ByNumber 38 78037 200
    = AStatus 400.
Proof.
  split; [intros ([_ H] & _); vm_compute in H; apply H; reflexivity|vm_compute; reflexivity].
Qed.

(** * Corollaries in the form of the property text *)

(** firstInCycle is min{m | S m >= start of the cycle of n} and lies in the same cycle *)
Lemma firstInCycle_min r loopMS cycle n : wf r loopMS -> 0 < cycle -> 0 <= n ->
  0 <= firstInCycle r cycle n <= n /\
  forall j, 0 <= j -> (cycleStart r cycle n <= S r j <-> firstInCycle r cycle n <= j).
Proof.
  intros W Hc Hn. destruct (firstInCycle_spec r loopMS W cycle n Hc Hn) as [Hf Hle].
  split; [destruct Hf; lia|]. exact (isFirst_min r loopMS W _ _ Hf).
Qed.

(** one pattern: the code iff the representation matches and n is the rsq-th segment of its cycle *)
Lemma scheduled_single r ss repID n base :
  scheduled r [ss] repID n base =
  if repInReps repID (sc_reps ss) && (n - firstInCycle r (sc_cycle ss) n =? sc_rsq ss)
  then (if sc_code ss =? 0 then base else sc_code ss) else base.
Proof.
  unfold scheduled. cbn [scheduleCode].
  destruct (repInReps repID (sc_reps ss) && (n - firstInCycle r (sc_cycle ss) n =? sc_rsq ss)); reflexivity.
Qed.

(** * Audio by $Time$: the reference segment that contains the audio time *)
Section AudioTime.
Variable r : rep.
Variable loopMS : Z.
Hypothesis W : wf r loopMS.

Lemma searchIdx_unique (f : seg -> bool) l i :
  0 <= i < lenZ l -> (forall j, 0 <= j < i -> f (atL l j) = false) -> f (atL l i) = true ->
  searchIdx f l = i.
Proof.
  intros Hi Hb Ha. pose proof (searchIdx_range f l) as Hr.
  destruct (Z_lt_ge_dec (searchIdx f l) i) as [Hlt|Hge].
  - pose proof (searchIdx_at f l ltac:(lia)) as H. rewrite Hb in H by lia. discriminate.
  - destruct (Z.eq_dec (searchIdx f l) i) as [|Hne]; [assumption|].
    pose proof (searchIdx_before f l i ltac:(lia)) as H. congruence.
Qed.

Lemma refMetaFromTime_spec c ats sd t n now :
  0 < ats -> 0 < sd -> t mod sd = 0 -> 0 <= t -> t * ts r < two64 -> repDuration r < two64 -> 0 <= n ->
  S r n <= t * ts r / ats < E r n ->
  refMetaFromTime r c ats sd t now =
  timed (checkTime (E r n + startS c * ts r) (ts r) now (tsbdS c) (ato c))
    (TOk {| origTime := st (segAt r (n mod nsegs r)); newTime := S r n;
            origNr := snr (segAt r (n mod nsegs r));
            newNr := u32 (u32 n + u32 (startNr c));
            origDur := u32 (sdur (segAt r (n mod nsegs r))); newDur := u32 (sdur (segAt r (n mod nsegs r)));
            mtimescale := u32 (ts r) |}).
Proof.
  intros Hats Hsd Hmod Ht Htb HD Hn [HR1 HR2].
  pose proof (N_pos r loopMS W) as HN. pose proof (D_pos r loopMS W) as HDp. pose proof (wf_ts _ _ W) as Hts.
  set (N := nsegs r) in *. set (D := repDuration r) in *.
  set (q := n / N). set (i := n mod N).
  assert (Hi : 0 <= i < N) by (unfold i; lia).
  assert (Hq : 0 <= q) by (unfold q; apply Z.div_pos; lia).
  assert (HSn : S r n = q * D + st (segAt r i)) by reflexivity.
  assert (HEn : E r n = q * D + en (segAt r i)) by reflexivity.
  pose proof (st_nonneg r loopMS W i Hi) as Hst0. pose proof (seg_pos r loopMS W i Hi) as Hsp.
  pose proof (en_le_dur r loopMS W i Hi) as Hed. fold D in Hed.
  set (R := t * ts r / ats) in *.
  unfold refMetaFromTime. destruct (sd =? 0) eqn:E1; [lia|]. rewrite Hmod. cbn [Z.eqb negb].
  fold D. rewrite (u64_id D) by lia. destruct (ats =? 0) eqn:E2; [lia|].
  rewrite (u64_id (t * ts r)) by nia. fold R. destruct (D =? 0) eqn:E3; [lia|].
  assert (HRq : R / D = q) by (symmetry; apply (Z.div_unique _ _ _ (R - q * D)); lia).
  rewrite HRq.
  destruct (segs r) as [|s0 sl] eqn:Esegs; [destruct (wf_nonempty _ _ W Esegs)|]. rewrite <- Esegs.
  assert (Hidx : searchIdx (fun s => en s >? R - q * D) (segs r) = i).
  { apply searchIdx_unique; [exact Hi| |].
    - intros j Hj. rewrite <- segAt_atL.
      pose proof (seg_mono r loopMS W j i ltac:(lia) ltac:(lia) ltac:(fold N; lia)). lia.
    - rewrite <- segAt_atL. lia. }
  rewrite Hidx. rewrite (segAt_ok r i Hi).
  destruct (q * D + en (segAt r i) =? 0) eqn:E4; [lia|].
  rewrite HEn, HSn. fold N.
  replace (i + q * N) with n by (unfold i, q; lia).
  reflexivity.
Qed.

(** An audio request by $Time$ whose time lies in reference segment n is answered by the schedule of n. *)
Lemma segAnswer_audio_time c codes repID ats sd t n now base :
  startS c = 0 -> startNr c = 0 -> repDuration r < two64 -> Forall (goodCode r) codes -> codes <> [] -> forallb codeValid codes = true ->
  0 <= n < two32 -> S r n * 1000 < two63 -> ts r < two32 -> 0 <= now ->
  0 < ats -> 0 < sd -> t mod sd = 0 -> 0 <= t -> t * ts r < two64 ->
  S r n <= t * ts r / ats < E r n ->
  segAnswer false r loopMS c codes repID (Some (ats, sd)) ByTime t now base =
  timedAnswer (checkTime (E r n) (ts r) now (tsbdS c) (ato c)) (scheduled r codes repID n base).
Proof.
  intros Hst Hsn HD Hgood Hne Hval Hn HS Hts Hnow Hats Hsd Hmod Ht Htb HR.
  unfold segAnswer. rewrite Hval, Hst. cbn [negb Z.mul].
  destruct (now <? 0) eqn:E0; [lia|]. destruct codes as [|c0 cs] eqn:Ec; [congruence|]. rewrite <- Ec in *.
  pose proof (wf_ts _ _ W). pose proof (S_nonneg r loopMS n W ltac:(lia)) as HS0.
  unfold findSegMeta. rewrite u64_id by (unfold two64 in *; nia).
  rewrite (refMetaFromTime_spec c ats sd t n now) by (try assumption; lia).
  rewrite Hst, Hsn. cbn [Z.mul]. rewrite Z.add_0_r.
  destruct (checkTime (E r n) (ts r) now (tsbdS c) (ato c)); cbn [timed timedAnswer]; [|reflexivity|reflexivity].
  unfold calcStatusCode. cbn [newTime mtimescale newNr].
  rewrite i64_id by (unfold two63 in *; lia). change (u32 0) with 0. rewrite Z.add_0_r.
  rewrite !u32_id by (try lia; rewrite u32_id; lia).
  rewrite (statusLoop_spec r loopMS W c repID n codes Hst Hsn HD Hgood ltac:(lia) HS Hts). unfold scheduled.
  destruct (scheduleCode r codes repID n =? 0); reflexivity.
Qed.

End AudioTime.

(** * The repaired calcStatusCode (fx = true, proposed_fixes/C14-statuscode-cycle-start.diff):
      the schedule for every start time, start number and cycle length *)
Section Repaired.
Variable r : rep.
Variable loopMS : Z.
Hypothesis W : wf r loopMS.

Lemma genTL_ext wt wt' a :
  startWraps wt = startWraps wt' -> startRelMS wt = startRelMS wt' ->
  nowWraps wt = nowWraps wt' -> nowRelMS wt = nowRelMS wt' ->
  generateTimelineEntriesU r wt a = generateTimelineEntriesU r wt' a.
Proof. intros H1 H2 H3 H4. unfold generateTimelineEntriesU. rewrite H1, H2, H3, H4. reflexivity. Qed.

(** the timeline only depends on the time since availabilityStartTime *)
Lemma findLastSegNr_shift c c0 m : startS c0 = 0 ->
  findLastSegNr r loopMS c (startS c * 1000 + m) = findLastSegNr r loopMS c0 m.
Proof.
  intros H0. unfold findLastSegNr. f_equal. apply genTL_ext; unfold calcWrapTimes; rewrite H0;
    cbn [startWraps startRelMS nowWraps nowRelMS];
    destruct (startS c * 1000 + m - 60000 <? startS c * 1000) eqn:E1;
    destruct (m - 60000 <? 0 * 1000) eqn:E2; try lia;
    repeat match goal with
    | |- context [startS c * 1000 - startS c * 1000] => replace (startS c * 1000 - startS c * 1000) with (0 * 1000 - 0 * 1000) by lia
    | |- context [startS c * 1000 + m - 60000 - startS c * 1000] =>
        replace (startS c * 1000 + m - 60000 - startS c * 1000) with (m - 60000 - 0 * 1000) by lia
    | |- context [startS c * 1000 + m - startS c * 1000] => replace (startS c * 1000 + m - startS c * 1000) with (m - 0 * 1000) by lia
    end; try reflexivity; try lia.
Qed.

(** at any instant: either the last ended segment, or nothing has ended (lastNr() = -2) *)
Lemma findLastSegNr_cases c nowMS :
  startS c = 0 -> 0 <= nowMS -> repDuration r < two64 ->
  let T := nowMS * ts r / 1000 in
  let L := findLastSegNr r loopMS c nowMS in
  (0 <= L /\ E r L <= T < E r (L + 1)) \/ (L = -2 /\ T < E r 0).
Proof.
  intros Hst Hnow HD. cbn zeta.
  destruct (Z_le_gt_dec (E r 0) (nowMS * ts r / 1000)) as [Hle|Hgt].
  - left. exact (findLastSegNr_spec r loopMS W c nowMS Hst Hnow HD Hle).
  - right. split; [|lia].
    pose proof (loopMS_pos r loopMS W) as HLp. pose proof (N_pos r loopMS W) as HN.
    unfold findLastSegNr, calcWrapTimes. rewrite Hst. cbn [Z.mul]. rewrite !Z.sub_0_r, !Z.add_0_r.
    set (stMS := if nowMS - 60000 <? 0 then 0 else nowMS - 60000).
    assert (HstMS : 0 <= stMS <= nowMS) by (unfold stMS; destruct (nowMS - 60000 <? 0) eqn:E; lia).
    rewrite !Z.quot_div_nonneg by lia.
    unfold generateTimelineEntriesU. cbn [startWraps startRelMS nowWraps nowRelMS].
    pose proof (edgeIdxU_spec r loopMS W (nowMS / loopMS) (nowMS - nowMS / loopMS * loopMS) ltac:(lia) HD) as Hn.
    rewrite (ticks_split r loopMS W nowMS) in Hn by lia.
    destruct (edgeIdxU r (stMS / loopMS) (stMS - stMS / loopMS * loopMS) 0) as [sw0 si0].
    destruct (edgeIdxU r (nowMS / loopMS) (nowMS - nowMS / loopMS * loopMS) 0) as [nw ni].
    destruct Hn as (Hnw & Hni & Hn1 & Hn2).
    destruct (if sw0 <? 0 then (0, 0) else (sw0, si0)) as [sw si].
    destruct (nw <? 0) eqn:Enw; [reflexivity|exfalso].
    assert (0 <= nw * nsegs r + ni) by nia.
    pose proof (E_le r loopMS W 0 (nw * nsegs r + ni) ltac:(lia) ltac:(lia)). lia.
Qed.

(** what the theorems need of a pattern now: only what the parser enforces *)
Definition validCycle (ss : sscode) : Prop := 0 < sc_cycle ss <= 2147483647.

Lemma codeFirstNr_repaired c ss n :
  0 <= startS c -> repDuration r < two64 -> validCycle ss -> 0 <= n ->
  (startS c + S r n) * 1000 < two63 -> ts r < two32 ->
  codeFirstNr r loopMS true c (S r n) (ts r) (sc_cycle ss) = Ok (startNr c + firstInCycle r (sc_cycle ss) n).
Proof.
  intros Hst0 HD [Hc Hcmax] Hn HSb Hts32. pose proof (wf_ts _ _ W) as Hts.
  pose proof (S_nonneg r loopMS n W Hn) as HS0.
  assert (Hov : sc_cycle ss * ts r < two63) by (unfold two63, two32 in *; nia).
  set (cycle := sc_cycle ss) in *. set (cyT := cycle * ts r) in *.
  assert (HcyT : 0 < cyT) by (unfold cyT; nia).
  unfold codeFirstNr. cbv iota. fold cycle. fold cyT. rewrite (i64_id cyT) by (unfold two63 in *; lia).
  rewrite Z.quot_div_nonneg by lia.
  set (q := S r n / cyT).
  assert (Hq : 0 <= q) by (apply Z.div_pos; lia).
  assert (HX : cycleStart r cycle n = q * cyT) by reflexivity.
  assert (HqX : q * cyT <= S r n) by (unfold q; pose proof (Z.mul_div_le (S r n) cyT HcyT); lia).
  assert (Hqc : 0 <= q * cycle <= S r n) by (unfold cyT in HqX; nia).
  rewrite (i64_id (q * cycle)) by (unfold two63 in *; lia).
  rewrite (i64_id ((startS c + q * cycle) * 1000)) by (unfold two63 in *; lia).
  rewrite (i64_id (q * cycle * ts r)) by (unfold two63 in *; nia).
  destruct (firstInCycle_spec r loopMS W cycle n Hc Hn) as [Hfirst Hle]. rewrite HX in Hfirst.
  assert (Hfs : forall m, 0 <= m -> findSegStartTime r loopMS c (startNr c + m) = Ok (S r m))
    by (intros m Hm; exact (findSegStartTime_spec r loopMS W c m Hm)).
  replace (q * cycle * ts r) with (q * cyT) by (unfold cyT; ring).
  destruct (q >? 0) eqn:Eq.
  - set (c0 := {| startS := 0; startNr := startNr c; tsbdS := tsbdS c; ato := ato c |}).
    replace ((startS c + q * cycle) * 1000) with (startS c * 1000 + q * cycle * 1000) by ring.
    rewrite (findLastSegNr_shift c c0 (q * cycle * 1000) eq_refl).
    pose proof (findLastSegNr_cases c0 (q * cycle * 1000) eq_refl ltac:(nia) HD) as HL. cbn zeta in HL.
    replace (q * cycle * 1000 * ts r / 1000) with (q * cyT) in HL
      by (replace (q * cycle * 1000 * ts r) with (q * cyT * 1000) by (unfold cyT; ring); now rewrite Z.div_mul by lia).
    set (L := findLastSegNr r loopMS c0 (q * cycle * 1000)) in *.
    destruct HL as [(HL0 & HL1 & HL2)|(HLm & HLE)].
    + destruct (L <? 0) eqn:EL; [lia|].
      replace (startNr c + L + 1) with (startNr c + (L + 1)) by lia.
      rewrite Hfs by lia. cbn [bind]. f_equal.
      rewrite <- (S_E_contiguous r loopMS W) in HL1 by lia.
      destruct (S r (L + 1) <? q * cyT) eqn:Elt.
      * replace (startNr c + (L + 1) + 1) with (startNr c + (L + 2)) by lia. f_equal.
        apply (isFirst_unique r loopMS W (q * cyT)); [|exact Hfirst].
        split; [lia|]. split.
        -- replace (L + 2) with ((L + 1) + 1) by lia. rewrite (S_E_contiguous r loopMS W) by lia. lia.
        -- right. replace (L + 2 - 1) with (L + 1) by lia. lia.
      * f_equal. apply (isFirst_unique r loopMS W (q * cyT)); [|exact Hfirst].
        split; [lia|]. split; [lia|]. right. replace (L + 1 - 1) with L by lia.
        pose proof (S_lt_E r loopMS W L HL0). rewrite (S_E_contiguous r loopMS W) in HL1 by lia. lia.
    + rewrite HLm. change (-2 <? 0) with true. cbv iota.
      replace (startNr c + -1 + 1) with (startNr c + 0) by lia.
      rewrite Hfs by lia. cbn [bind]. f_equal. rewrite (S_0 r loopMS W).
      destruct (0 <? q * cyT) eqn:E0; [|nia].
      replace (startNr c + 0 + 1) with (startNr c + 1) by lia. f_equal.
      apply (isFirst_unique r loopMS W (q * cyT)); [|exact Hfirst].
      split; [lia|]. split.
      * change 1 with (0 + 1). rewrite (S_E_contiguous r loopMS W) by lia. lia.
      * right. change (1 - 1) with 0. rewrite (S_0 r loopMS W). nia.
  - assert (q = 0) by lia.
    pose proof (Hfs 0 ltac:(lia)) as Hf0. rewrite Z.add_0_r in Hf0. rewrite Hf0. cbn [bind]. f_equal.
    rewrite (S_0 r loopMS W). replace (q * cyT) with 0 by lia. change (0 <? 0) with false. cbv iota.
    replace (startNr c) with (startNr c + 0) at 1 by lia. f_equal.
    apply (isFirst_unique r loopMS W (q * cyT)); [|exact Hfirst].
    split; [lia|]. split; [rewrite (S_0 r loopMS W); lia|left; reflexivity].
Qed.

Lemma statusLoop_repaired c repID n codes :
  0 <= startS c -> repDuration r < two64 -> Forall validCycle codes -> 0 <= n ->
  (startS c + S r n) * 1000 < two63 -> ts r < two32 ->
  statusLoop true r loopMS c repID (S r n) (ts r) (startNr c + n) codes = Ok (scheduleCode r codes repID n).
Proof.
  intros Hst HD Hgood Hn HSb Hts32. induction Hgood as [|ss rest Hss _ IH]; [reflexivity|].
  rewrite (statusLoop_cons r loopMS). cbn [scheduleCode].
  destruct (repInReps repID (sc_reps ss)) eqn:Erep; cbn [negb andb]; [|exact IH].
  pose proof Hss as [Hc Hcmax]. pose proof (wf_ts _ _ W) as Hts.
  rewrite i64_id by (unfold two63, two32 in *; nia).
  destruct (sc_cycle ss * ts r =? 0) eqn:E0; [nia|].
  rewrite (codeFirstNr_repaired c ss n Hst HD Hss Hn HSb Hts32). cbn [bind].
  destruct (firstInCycle_spec r loopMS W (sc_cycle ss) n Hc Hn) as [_ Hle].
  replace (startNr c + n - (startNr c + firstInCycle r (sc_cycle ss) n)) with (n - firstInCycle r (sc_cycle ss) n) by lia.
  destruct (n - firstInCycle r (sc_cycle ss) n <? 0) eqn:Eneg; [lia|].
  destruct (n - firstInCycle r (sc_cycle ss) n =? sc_rsq ss); [reflexivity|exact IH].
Qed.

(** A request by $Number$ (video or audio) for segment n = number startNr + n, any start time,
    start number and cycle the parser accepts. *)
Lemma segAnswer_number_repaired c codes repID audio n now base :
  0 <= startS c -> 0 <= startNr c -> startNr c + n < two32 -> repDuration r < two64 ->
  codes <> [] -> forallb codeValid codes = true ->
  0 <= n -> (startS c + S r n) * 1000 < two63 -> ts r < two32 -> startS c * 1000 <= now ->
  segAnswer true r loopMS c codes repID audio ByNumber (startNr c + n) now base =
  timedAnswer (checkTime (E r n + startS c * ts r) (ts r) now (tsbdS c) (ato c)) (scheduled r codes repID n base).
Proof.
  intros Hst Hsn Hn32 HD Hne Hval Hn HS Hts Hnow. unfold segAnswer. rewrite Hval. cbn [negb].
  destruct (now <? startS c * 1000) eqn:E0; [lia|]. destruct codes as [|c0 cs] eqn:Ec; [congruence|]. rewrite <- Ec in *.
  assert (Hgood : Forall validCycle codes).
  { apply Forall_forall. intros ss Hin. rewrite forallb_forall in Hval. specialize (Hval ss Hin).
    unfold codeValid in Hval. unfold validCycle. lia. }
  assert (Hf : findSegMeta r loopMS c audio ByNumber (startNr c + n) now = lookup r loopMS c ByNumber (startNr c + n) now)
    by (unfold findSegMeta; destruct audio as [[? ?]|]; reflexivity).
  rewrite Hf. rewrite (lookup_number r loopMS c n now Hn Hsn Hn32).
  rewrite (segMetaFromNr_spec r loopMS W c n now Hn).
  destruct (checkTime (E r n + startS c * ts r) (ts r) now (tsbdS c) (ato c)); cbn [timed timedAnswer]; [|reflexivity|reflexivity].
  unfold calcStatusCode, metaOf. cbn [newTime mtimescale newNr].
  pose proof (S_nonneg r loopMS n W Hn). pose proof (wf_ts _ _ W).
  rewrite u64_id by (unfold two63, two64 in *; lia). rewrite i64_id by (unfold two63 in *; lia).
  rewrite u32_id by lia.
  rewrite (statusLoop_repaired c repID n codes Hst HD Hgood Hn HS Hts). unfold scheduled.
  destruct (scheduleCode r codes repID n =? 0); reflexivity.
Qed.

(** A video request by $Time$ and an audio request by $Time$, any start time and start number. *)
Lemma validCycle_of_codeValid codes : forallb codeValid codes = true -> Forall validCycle codes.
Proof.
  intros Hval. apply Forall_forall. intros ss Hin. rewrite forallb_forall in Hval. specialize (Hval ss Hin).
  unfold codeValid in Hval. unfold validCycle. lia.
Qed.

Lemma segAnswer_time_repaired c codes repID n now base :
  0 <= startS c -> 0 <= startNr c -> startNr c + n < two32 -> repDuration r < two64 ->
  codes <> [] -> forallb codeValid codes = true ->
  0 <= n -> (startS c + S r n) * 1000 < two63 -> ts r < two32 -> startS c * 1000 <= now ->
  segAnswer true r loopMS c codes repID None ByTime (S r n) now base =
  timedAnswer (checkTime (E r n + startS c * ts r) (ts r) now (tsbdS c) (ato c)) (scheduled r codes repID n base).
Proof.
  intros Hst Hsn Hn32 HD Hne Hval Hn HS Hts Hnow. unfold segAnswer. rewrite Hval. cbn [negb].
  destruct (now <? startS c * 1000) eqn:E0; [lia|]. destruct codes as [|c0 cs] eqn:Ec; [congruence|]. rewrite <- Ec in *.
  pose proof (validCycle_of_codeValid codes Hval) as Hgood.
  pose proof (S_nonneg r loopMS n W Hn) as HS0. pose proof (wf_ts _ _ W).
  unfold findSegMeta. rewrite lookup_time by (unfold two63, two64 in *; lia).
  rewrite (segMetaFromTime_spec r loopMS W) by lia.
  destruct (checkTime (E r n + startS c * ts r) (ts r) now (tsbdS c) (ato c)); cbn [timed timedAnswer]; [|reflexivity|reflexivity].
  unfold calcStatusCode. cbn [newTime mtimescale newNr].
  rewrite i64_id by (unfold two63 in *; lia). rewrite !u32_id by lia.
  rewrite (statusLoop_repaired c repID n codes Hst HD Hgood Hn HS Hts). unfold scheduled.
  destruct (scheduleCode r codes repID n =? 0); reflexivity.
Qed.

Lemma segAnswer_audio_time_repaired c codes repID ats sd t n now base :
  0 <= startS c -> 0 <= startNr c -> startNr c + n < two32 -> repDuration r < two64 ->
  codes <> [] -> forallb codeValid codes = true ->
  0 <= n -> (startS c + S r n) * 1000 < two63 -> ts r < two32 -> startS c * 1000 <= now ->
  0 < ats -> 0 < sd -> t mod sd = 0 -> 0 <= t -> t * ts r < two64 ->
  S r n <= t * ts r / ats < E r n ->
  segAnswer true r loopMS c codes repID (Some (ats, sd)) ByTime t now base =
  timedAnswer (checkTime (E r n + startS c * ts r) (ts r) now (tsbdS c) (ato c)) (scheduled r codes repID n base).
Proof.
  intros Hst Hsn Hn32 HD Hne Hval Hn HS Hts Hnow Hats Hsd Hmod Ht Htb HR.
  unfold segAnswer. rewrite Hval. cbn [negb].
  destruct (now <? startS c * 1000) eqn:E0; [lia|]. destruct codes as [|c0 cs] eqn:Ec; [congruence|]. rewrite <- Ec in *.
  pose proof (validCycle_of_codeValid codes Hval) as Hgood.
  pose proof (wf_ts _ _ W). pose proof (S_nonneg r loopMS n W Hn) as HS0.
  unfold findSegMeta. rewrite u64_id by (unfold two64 in *; nia).
  rewrite (refMetaFromTime_spec r loopMS W c ats sd t n now) by (try assumption; lia).
  destruct (checkTime (E r n + startS c * ts r) (ts r) now (tsbdS c) (ato c)); cbn [timed timedAnswer]; [|reflexivity|reflexivity].
  unfold calcStatusCode. cbn [newTime mtimescale newNr].
  rewrite i64_id by (unfold two63 in *; lia).
  rewrite (u32_id n) by lia. rewrite (u32_id (startNr c)) by lia. rewrite (u32_id (n + startNr c)) by lia.
  rewrite (u32_id (ts r)) by lia. replace (n + startNr c) with (startNr c + n) by lia.
  rewrite (statusLoop_repaired c repID n codes Hst HD Hgood Hn HS Hts). unfold scheduled.
  destruct (scheduleCode r codes repID n =? 0); reflexivity.
Qed.

End Repaired.

(** with the repair the former witnesses follow the schedule *)
Lemma repaired_witnesses :
  segAnswer true w_rep2 8000 (w_cfg 30 0) [w_code 8 1 404] "V300" None ByNumber 4 40037 200 = AStatus 200 /\
  segAnswer true w_rep2 8000 (w_cfg 30 0) [w_code 30 1 404] "V300" None ByNumber 31 94037 200 = AStatus 404 /\
  segAnswer true w_rep2 8000 (w_cfg 0 7) [w_code 8 1 404] "V300" None ByNumber 11 10037 200 = AStatus 200 /\
  segAnswer true w_rep2 8000 (w_cfg 0 7) [w_code 8 1 404] "V300" None ByNumber 16 20037 200 = AStatus 404 /\
  segAnswer true w_rep6 12000 (w_cfg 0 0) [w_code 5 0 400] "V300" None ByNumber 1 12037 200 = AStatus 400 /\
  segAnswer true w_rep8 8000 (w_cfg 0 0) [w_code 3 0 500] "V300" None ByNumber 1 16037 200 = AStatus 500 /\
  segAnswer true w_rep8 8000 (w_cfg 0 0) [w_code 3 1 599] "V300" None ByNumber 1 16037 200 = AStatus 200.
Proof. repeat split; vm_compute; reflexivity. Qed.

(** * Generated subtitle tracks *)

(** Before fccb54a a generated subtitle segment that no pattern schedules was answered 404 instead
    of normally (testpic_2s, timesubsstpp_en, statuscode_[{cycle:8,rsq:1,code:503}], segment 40 is the
    first of its cycle: not scheduled). *)
Lemma timesubs_refuted :
  scheduled w_rep2 [w_code 8 1 503] "timestpp-en" 40 200 = 200 /\
  subsAnswerUnrepaired (w_cfg 0 0) [w_code 8 1 503] 100000 200 = AStatus 404.
Proof. split; vm_compute; reflexivity. Qed.

(** With the repair they are looked up in the reference track like audio with timescale 1000 and
    sample duration 1, to which the request theorems apply; the same request then follows the schedule. *)
Lemma timesubs_repaired_example :
  map (fun n => segAnswer true w_rep2 8000 (w_cfg 0 0) [w_code 8 1 503] "timestpp-en" (Some (1000, 1)) ByNumber n 100000 200)
      [40; 41; 42] = [AStatus 200; AStatus 503; AStatus 200] /\
  segAnswer true w_rep2 8000 (w_cfg 0 0) [w_code 8 1 503] "timestpp-en" (Some (1000, 1)) ByTime 82000 100000 200 = AStatus 503.
Proof. split; vm_compute; reflexivity. Qed.

(** the schedule is the same under any two configurations *)
Lemma schedule_independent_of_config r loopMS : wf r loopMS -> forall c1 c2 repID n codes,
  0 <= startS c1 -> 0 <= startS c2 -> repDuration r < two64 -> Forall validCycle codes -> 0 <= n ->
  (startS c1 + S r n) * 1000 < two63 -> (startS c2 + S r n) * 1000 < two63 -> ts r < two32 ->
  statusLoop true r loopMS c1 repID (S r n) (ts r) (startNr c1 + n) codes =
  statusLoop true r loopMS c2 repID (S r n) (ts r) (startNr c2 + n) codes.
Proof.
  intros W c1 c2 repID n codes H1 H2 HD Hv Hn Hb1 Hb2 Hts.
  rewrite (statusLoop_repaired r loopMS W c1 repID n codes H1 HD Hv Hn Hb1 Hts).
  rewrite (statusLoop_repaired r loopMS W c2 repID n codes H2 HD Hv Hn Hb2 Hts). reflexivity.
Qed.
