(** Shared conventions for the Gallina models of the Go code (DESIGN.md section 3). *)
From Coq Require Export String.
From Coq Require Export List ZArith Lia Bool.
From Coq Require Import ZifyBool.
Export ListNotations.
Open Scope string_scope.
Open Scope list_scope.
Open Scope Z_scope.

(** Outcome of a Go computation: a value, a deliberate error, or a run-time panic. *)
Inductive res (A : Type) : Type :=
| Ok (a : A)
| Err (e : string)
| Panic (site : string).
Arguments Ok {A} a.
Arguments Err {A} e.
Arguments Panic {A} site.

Definition bind {A B} (r : res A) (f : A -> res B) : res B :=
  match r with Ok a => f a | Err e => Err e | Panic s => Panic s end.
Notation "'do' x <- r ; k" := (bind r (fun x => k)) (at level 200, x pattern, r at level 100, k at level 200).

Definition is_panic {A} (r : res A) : bool := match r with Panic _ => true | _ => false end.
Definition is_ok {A} (r : res A) : bool := match r with Ok _ => true | _ => false end.

(** Fixed-width conversions are explicit. *)
Definition two32 : Z := 4294967296.
Definition two64 : Z := 18446744073709551616.
Definition two63 : Z := 9223372036854775808.
Definition maxu32 : Z := 4294967295.
Definition u32 (z : Z) : Z := z mod two32.
Definition u64 (z : Z) : Z := z mod two64.
(** int64 two's complement wrap *)
Definition i64 (z : Z) : Z := (z + two63) mod two64 - two63.

(** Go signed division and remainder truncate towards zero; division by zero panics. *)
Definition go_div (site : string) (a b : Z) : res Z :=
  if b =? 0 then Panic site else Ok (Z.quot a b).
Definition go_rem (site : string) (a b : Z) : res Z :=
  if b =? 0 then Panic site else Ok (Z.rem a b).

(** List access by [Z] index (never through [nat] numerals of data size). *)
Fixpoint takeZ {A} (n : Z) (l : list A) : list A :=
  match l with
  | [] => []
  | x :: t => if n <=? 0 then [] else x :: takeZ (n - 1) t
  end.
Fixpoint dropZ {A} (n : Z) (l : list A) : list A :=
  match l with
  | [] => []
  | x :: t => if n <=? 0 then l else dropZ (n - 1) t
  end.
Definition lenZ {A} (l : list A) : Z := Z.of_nat (length l).

Fixpoint nthZ {A} (n : Z) (l : list A) : option A :=
  match l with
  | [] => None
  | x :: t => if n <? 0 then None else if n =? 0 then Some x else nthZ (n - 1) t
  end.

(** Checked indexing: out of range is a panic, as in Go. *)
Definition index {A} (site : string) (l : list A) (i : Z) : res A :=
  match nthZ i l with Some x => Ok x | None => Panic site end.

Fixpoint list_eqb {A B} (eqb : A -> B -> bool) (a : list A) (b : list B) : bool :=
  match a, b with
  | [], [] => true
  | x :: a', y :: b' => eqb x y && list_eqb eqb a' b'
  | _, _ => false
  end.

Fixpoint seqZ (start : Z) (n : nat) : list Z :=
  match n with O => [] | S k => start :: seqZ (start + 1) k end.
