From Verif Require Import GoSem.
From Coq Require Import ZifyBool.

Lemma lenZ_nonneg {A} (l : list A) : 0 <= lenZ l.
Proof. unfold lenZ; lia. Qed.

Lemma lenZ_nil {A} : lenZ (@nil A) = 0.
Proof. reflexivity. Qed.

Lemma lenZ_cons {A} (x : A) l : lenZ (x :: l) = 1 + lenZ l.
Proof. unfold lenZ; cbn [length]; lia. Qed.

Lemma lenZ_app {A} (a b : list A) : lenZ (a ++ b) = lenZ a + lenZ b.
Proof. unfold lenZ; rewrite app_length; lia. Qed.

Lemma lenZ_zero_nil {A} (l : list A) : lenZ l = 0 -> l = [].
Proof. destruct l; [reflexivity|rewrite lenZ_cons; pose proof (lenZ_nonneg l); lia]. Qed.

Lemma takeZ_dropZ {A} n (l : list A) : takeZ n l ++ dropZ n l = l.
Proof.
  revert n; induction l as [|x l IH]; intros n; cbn [takeZ dropZ]; [reflexivity|].
  destruct (n <=? 0); [reflexivity|]. cbn [app]. now rewrite IH.
Qed.

Lemma takeZ_nonpos {A} n (l : list A) : n <= 0 -> takeZ n l = [].
Proof. destruct l; cbn [takeZ]; [reflexivity|]. intros; destruct (n <=? 0) eqn:E; [reflexivity|lia]. Qed.

Lemma dropZ_nonpos {A} n (l : list A) : n <= 0 -> dropZ n l = l.
Proof. destruct l; cbn [dropZ]; [reflexivity|]. intros; destruct (n <=? 0) eqn:E; [reflexivity|lia]. Qed.

Lemma takeZ_all {A} n (l : list A) : lenZ l <= n -> takeZ n l = l.
Proof.
  revert n; induction l as [|x l IH]; intros n H; cbn [takeZ]; [reflexivity|].
  rewrite lenZ_cons in H. pose proof (lenZ_nonneg l).
  destruct (n <=? 0) eqn:E; [lia|]. f_equal. apply IH. lia.
Qed.

Lemma dropZ_all {A} n (l : list A) : lenZ l <= n -> dropZ n l = [].
Proof.
  revert n; induction l as [|x l IH]; intros n H; cbn [dropZ]; [reflexivity|].
  rewrite lenZ_cons in H. pose proof (lenZ_nonneg l).
  destruct (n <=? 0) eqn:E; [lia|]. apply IH. lia.
Qed.

Lemma lenZ_takeZ {A} n (l : list A) : 0 <= n -> lenZ (takeZ n l) = Z.min n (lenZ l).
Proof.
  revert n; induction l as [|x l IH]; intros n H; cbn [takeZ].
  - rewrite lenZ_nil; lia.
  - destruct (n <=? 0) eqn:E.
    + rewrite lenZ_nil. pose proof (lenZ_nonneg (x :: l)). lia.
    + rewrite !lenZ_cons, IH by lia. lia.
Qed.

Lemma lenZ_dropZ {A} n (l : list A) : 0 <= n -> lenZ (dropZ n l) = Z.max 0 (lenZ l - n).
Proof.
  revert n; induction l as [|x l IH]; intros n H; cbn [dropZ].
  - rewrite lenZ_nil; lia.
  - destruct (n <=? 0) eqn:E.
    + rewrite !lenZ_cons. pose proof (lenZ_nonneg l). lia.
    + rewrite lenZ_cons, IH by lia. pose proof (lenZ_nonneg l). lia.
Qed.

Lemma takeZ_app_l {A} n (a b : list A) : n <= lenZ a -> takeZ n (a ++ b) = takeZ n a.
Proof.
  revert n; induction a as [|x a IH]; intros n H.
  - rewrite lenZ_nil in H. cbn [app]. now rewrite !takeZ_nonpos by lia.
  - cbn [app takeZ]. destruct (n <=? 0); [reflexivity|]. f_equal. apply IH.
    rewrite lenZ_cons in H. lia.
Qed.

Lemma dropZ_app_l {A} n (a b : list A) : n <= lenZ a -> dropZ n (a ++ b) = dropZ n a ++ b.
Proof.
  revert n; induction a as [|x a IH]; intros n H.
  - rewrite lenZ_nil in H. cbn [app]. rewrite dropZ_nonpos by lia. reflexivity.
  - cbn [app dropZ]. destruct (n <=? 0); [reflexivity|]. apply IH.
    rewrite lenZ_cons in H. lia.
Qed.

Lemma takeZ_app_r {A} n (a b : list A) : lenZ a <= n -> takeZ n (a ++ b) = a ++ takeZ (n - lenZ a) b.
Proof.
  revert n; induction a as [|x a IH]; intros n H.
  - cbn [app]. rewrite lenZ_nil. f_equal. lia.
  - rewrite lenZ_cons in *. pose proof (lenZ_nonneg a). cbn [app takeZ].
    destruct (n <=? 0) eqn:E; [lia|]. f_equal. rewrite IH by lia. do 2 f_equal. lia.
Qed.

Lemma dropZ_app_r {A} n (a b : list A) : lenZ a <= n -> dropZ n (a ++ b) = dropZ (n - lenZ a) b.
Proof.
  revert n; induction a as [|x a IH]; intros n H.
  - cbn [app]. rewrite lenZ_nil. f_equal. lia.
  - rewrite lenZ_cons in *. pose proof (lenZ_nonneg a). cbn [app dropZ].
    destruct (n <=? 0) eqn:E; [lia|]. rewrite IH by lia. f_equal. lia.
Qed.

Lemma dropZ_dropZ {A} n m (l : list A) : 0 <= n -> 0 <= m -> dropZ n (dropZ m l) = dropZ (n + m) l.
Proof.
  revert n m; induction l as [|x l IH]; intros n m Hn Hm; cbn [dropZ]; [reflexivity|].
  destruct (m <=? 0) eqn:E.
  - assert (m = 0) by lia. subst m. now rewrite Z.add_0_r.
  - destruct (n + m <=? 0) eqn:E2; [lia|]. rewrite IH by lia. f_equal. lia.
Qed.

Lemma takeZ_takeZ_dropZ {A} n m (l : list A) : 0 <= n -> 0 <= m ->
  takeZ n l ++ takeZ m (dropZ n l) = takeZ (n + m) l.
Proof.
  revert n m; induction l as [|x l IH]; intros n m Hn Hm; cbn [takeZ dropZ]; [reflexivity|].
  destruct (n <=? 0) eqn:E.
  - assert (n = 0) by lia. subst n. cbn [app]. reflexivity.
  - destruct (n + m <=? 0) eqn:E2; [lia|]. cbn [app]. f_equal.
    rewrite IH by lia. f_equal. lia.
Qed.

Lemma takeZ_takeZ {A} a b (l : list A) : takeZ a (takeZ b l) = takeZ (Z.min a b) l.
Proof.
  revert a b; induction l as [|x l IH]; intros a b; cbn [takeZ]; [reflexivity|].
  destruct (b <=? 0) eqn:Eb.
  - cbn [takeZ]. destruct (Z.min a b <=? 0) eqn:Em; [reflexivity|lia].
  - cbn [takeZ]. destruct (a <=? 0) eqn:Ea; destruct (Z.min a b <=? 0) eqn:Em; try lia; [reflexivity|].
    f_equal. rewrite IH. f_equal. lia.
Qed.

Lemma dropZ_takeZ {A} a b (l : list A) : 0 <= a -> dropZ a (takeZ b l) = takeZ (b - a) (dropZ a l).
Proof.
  revert a b; induction l as [|x l IH]; intros a b Ha; cbn [takeZ dropZ]; [reflexivity|].
  destruct (b <=? 0) eqn:Eb; destruct (a <=? 0) eqn:Ea; cbn [takeZ dropZ].
  - destruct (b - a <=? 0) eqn:E; [reflexivity|lia].
  - rewrite takeZ_nonpos by lia. reflexivity.
  - rewrite Ea. assert (a = 0) by lia. subst a. rewrite Z.sub_0_r, Eb. reflexivity.
  - rewrite Ea. rewrite IH by lia. f_equal. lia.
Qed.

Lemma dropZ_0 {A} (l : list A) : dropZ 0 l = l.
Proof. apply dropZ_nonpos; lia. Qed.
