(** Model of the CMAF-ingest sender of cmd/livesim2/app (cmaf-ingester.go, api.go):

    1. [calcSegmentAvailabilityTime] (livesegment.go) with its float64 arithmetic evaluated bit for
       bit in Coq's primitive binary64 floats ([availMS_float]; both the current rounding math.Ceil
       and the former truncation) next to the exact rational value ([availMS_ceil], the first
       millisecond at which [CheckTimeValidity] accepts the segment);
    2. the session: [NewCmafIngester]'s [nrSegsToSend], [cmafIngester.start] as [start] (init
       segments, live edge, first availability time) followed by a step function [step] over the
       events of the main loop's [select] (timer, trigger = REST step, cancel = REST delete), with
       [sendMediaSegments] as [sendMedia] (one attempt per representation, then the [wg.Wait] barrier);
    3. the writer/reader hand-over of [cmafSource] ([Write], [Read], the first line of
       [startReadAndSendChunked], the tail of [sendMediaSegment]) as a two-process transition
       system over two rendezvous channels and the shared buffer.

    No proofs in this file. *)
From Verif Require Import GoSem Timeline.
From Coq Require Import Floats Uint63.

(** * 1. calcSegmentAvailabilityTime *)

(** [float64(i)] for a Go int: exact below 2^53, round-to-nearest-even above (as the hardware). *)
Definition f_of_Z (z : Z) : float :=
  if z <? 0 then PrimFloat.opp (PrimFloat.of_uint63 (Uint63.of_Z (- z)))
  else PrimFloat.of_uint63 (Uint63.of_Z z).

Definition minInt64 : Z := -9223372036854775808.

(** [int64(f)]: truncation toward zero; NaN, infinities and values outside int64 give the amd64
    result 0x8000000000000000. *)
Definition truncF (f : float) : Z :=
  match Prim2SF f with
  | S754_zero _ => 0
  | S754_finite s m e =>
    let v := if 0 <=? e then Zpos m * 2 ^ e else Zpos m / 2 ^ (- e) in
    if two63 <=? v then minInt64 else if s then - v else v
  | _ => minInt64
  end.

(** [math.Ceil(f)] followed by [int64]. *)
Definition ceilF (f : float) : Z :=
  match Prim2SF f with
  | S754_zero _ => 0
  | S754_finite s m e =>
    if 0 <=? e then
      let v := Zpos m * 2 ^ e in
      if two63 <=? v then minInt64 else if s then - v else v
    else
      let d := 2 ^ (- e) in
      let v := if s then - (Zpos m / d) else - ((- Zpos m) / d) in
      if (two63 <=? v) || (v <? - two63) then minInt64 else v
  | _ => minInt64
  end.

(** How the last step of calcSegmentAvailabilityTime turns float milliseconds into an integer:
    [RCeil] is [int64(math.Ceil(x))] (the code since fix f4e8dbe), [RTrunc] is [int64(x)] (the code
    before it: 1 ms early off the float grid).  The correspondence harness reads which one the tree
    under test uses from its source, so that reverting the fix is seen as what it is. *)
Inductive rounding := RTrunc | RCeil.

(** The tick value [int(seg.EndTime)+wrapTime+mediaRef] of segment number [nr] (already a uint32). *)
Definition availTicks (r : rep) (loopMS : Z) (c : tcfg) (nr : Z) : res Z :=
  let wrapLen := lenZ (segs r) in
  let nrAfterStart := nr - startNr c in
  if wrapLen =? 0 then Panic "calcSegmentAvailabilityTime: integer divide by zero" else
  let nrWraps := Z.quot nrAfterStart wrapLen in
  let relNr := nrAfterStart - nrWraps * wrapLen in
  let wrapTime := nrWraps * wrapDurOf loopMS r in
  match nthZ relNr (segs r) with
  | None => Panic "calcSegmentAvailabilityTime: index out of range"
  | Some s => Ok (en s + wrapTime + startS c * ts r)
  end.

(** [cfg.AvailabilityTimeOffsetS] for an offset written with millisecond decimals in the URL:
    the correctly rounded binary64 value of atoMS/1000. *)
Definition atoF (atoMS : Z) : float := PrimFloat.div (f_of_Z atoMS) (f_of_Z 1000).

(** [int64(math.Ceil((float64(E)/float64(ts) - ato) * 1000))] (or plain [int64(...)] for [RTrunc]) *)
Definition availFloatMS_r (rm : rounding) (E tsc atoMS : Z) : Z :=
  let x := PrimFloat.mul (PrimFloat.sub (PrimFloat.div (f_of_Z E) (f_of_Z tsc)) (atoF atoMS)) (f_of_Z 1000) in
  match rm with RTrunc => truncF x | RCeil => ceilF x end.
Definition availFloatMS := availFloatMS_r RCeil.

Definition availMS_float_r (rm : rounding) (r : rep) (loopMS : Z) (c : tcfg) (nr : Z) : res Z :=
  do E <- availTicks r loopMS c nr;
  match ato c with
  | None => Ok (startS c * 1000)
  | Some atoMS => Ok (availFloatMS_r rm E (ts r) atoMS)
  end.
Definition availMS_float := availMS_float_r RCeil.

(** Exact values: the availability instant is (E*1000 - atoMS*ts)/ts milliseconds. *)
Definition availNumMS (E tsc atoMS : Z) : Z := E * 1000 - atoMS * tsc.
Definition availMS_floor (E tsc atoMS : Z) : Z := availNumMS E tsc atoMS / tsc.
Definition availMS_ceil (E tsc atoMS : Z) : Z := - ((- availNumMS E tsc atoMS) / tsc).

(** The same function with the last step replaced by the exact ceiling (what the proposed repair
    computes on the millisecond grid). *)
Definition availMS_exact (r : rep) (loopMS : Z) (c : tcfg) (nr : Z) : res Z :=
  do E <- availTicks r loopMS c nr;
  match ato c with
  | None => Ok (startS c * 1000)
  | Some atoMS => Ok (availMS_ceil E (ts r) atoMS)
  end.

(** * 2. The session *)

Inductive rkind := RVideo | RAudio | RText.

(** A representation of the session in sending order ([repsData]): content type and its own
    segment table [asset.Reps[repID]] ([None] for generated time subtitles, which have none). *)
Record irep := { ir_kind : rkind; ir_tab : option rep }.

Record scfg := {
  sc_reps : list irep;
  sc_ref : rep;                (* asset.refRep *)
  sc_loopMS : Z;               (* asset.LoopDurMS *)
  sc_segDurMS : Z;             (* asset.SegmentDurMS *)
  sc_cfg : tcfg;
  sc_timeline : bool;          (* cfg.SegTimelineFlag: $Time$ addressing *)
  sc_test : bool;              (* testNowMS != nil: step mode *)
  sc_dur : option Z;           (* Duration *)
  sc_chunked : bool;           (* cfg.ChunkDurS != nil: chunked transfer through cmafSource *)
  sc_catchup_checks : bool;    (* the catch-up loop looks at lastSegNrToSend (true: the code since fix 07f3435;
                                  false: the code before it; read from the source by the harness) *)
  sc_first_fix : bool;         (* the first number honours the start number and an empty timeline (true:
                                  the code since fix fec92f5; false: the code before it; read from the source) *)
  sc_avail : Z -> res Z        (* calcSegmentAvailabilityTime(asset, refRep, nr, cfg) *)
}.

(** NewCmafIngester: [*c.dur * 1000 / asset.SegmentDurMS] *)
Definition nrSegsToSend (cf : scfg) : res (option Z) :=
  match sc_dur cf with
  | None => Ok None
  | Some d => do q <- go_div "NewCmafIngester: integer divide by zero" (d * 1000) (sc_segDurMS cf); Ok (Some q)
  end.

Definition entryCount (es : list sentry) : Z := fold_left (fun a e => a + (e_r e + 1)) es 0.

(** segEntries.lastNr *)
Definition lastNrOf (se : segEntries) : Z := se_startNr se + entryCount (se_entries se) - 1.

(** segEntries.lastTime: explicit t of the first entry plus all durations, minus the last duration. *)
Definition lastTimeOf (se : segEntries) : Z :=
  match se_entries se with
  | [] => 0
  | e0 :: _ =>
    let total := fold_left (fun a e => a + e_d e * (e_r e + 1)) (se_entries se) (e_t e0) in
    u64 (total - e_d (last (se_entries se) e0))
  end.

(** findLastSegNr: timeline of the reference representation over the last 60 s, ato 0 *)
Definition findLastSegNr (cf : scfg) (nowMS : Z) : Z :=
  lastNrOf (generateTimelineEntries (sc_ref cf) (calcWrapTimes (sc_loopMS cf) (sc_cfg cf) nowMS 60000) 0).

(** The first number of a session.  Since fix fec92f5: max(lastNr, -1) + 1 + startNr.  Before:
    lastNr + 1, where lastNr counts from 0 although segment URLs and calcSegmentAvailabilityTime count
    from the start number, and is -2 for an empty timeline. *)
Definition firstNr (cf : scfg) (nowMS : Z) : Z :=
  if sc_first_fix cf then Z.max (findLastSegNr cf nowMS) (-1) + 1 + startNr (sc_cfg cf)
  else findLastSegNr cf nowMS + 1.

(** [int(cfg.getAvailabilityTimeOffsetS() * 1000)] in sendMediaSegments *)
Definition atoMSint (c : tcfg) : Z :=
  match ato c with
  | None => minInt64
  | Some a => truncF (PrimFloat.mul (atoF a) (f_of_Z 1000))
  end.

(** [PHung]: the loop goroutine is blocked for ever inside sendMediaSegments (state stays "running",
    no event is ever taken again); [PCrashed]: a goroutine panicked, the process is gone. *)
Inductive phase := PRunning | PStopped | PHung | PCrashed (site : string).

Record sstate := { ph : phase; nextNr : Z; lastToSend : Z; availT : Z }.

(** One upload attempt of [sendMediaSegment]: representation index, the session's segment number,
    the identifier in the segment URL ($Number$ or $Time$; [None] where the model does not compute
    it: audio under $Time$ addressing), the [nowMS] handed to [writeSegment], the lmsg flag, and
    whether [writeSegment] accepts the request (otherwise nothing is sent). *)
Record mput := { mp_rep : Z; mp_nr : Z; mp_id : option Z; mp_now : Z; mp_last : bool; mp_ok : bool }.

Definition lookup_ok (t : rep) (cf : scfg) (mode : addressing) (id nowMS : Z) : bool :=
  if id <? 0 then false else
  match lookup t (sc_loopMS cf) (sc_cfg cf) mode id nowMS with TOk _ => true | _ => false end.

(** The table against which [writeSegment] checks the time of a request for this representation:
    audio and generated subtitles follow the reference representation. *)
Definition timing_tab (cf : scfg) (ir : irep) : rep :=
  match ir_kind ir, ir_tab ir with
  | RAudio, _ => sc_ref cf
  | _, Some t => t
  | _, None => sc_ref cf
  end.

(** The $Time$ value of [sendMediaSegments] for one representation: [lastTime()] of its timeline
    at [nowMS+50] with a 100 ms window. *)
Definition timeOfRep (cf : scfg) (t : rep) (nowMS : Z) : Z :=
  lastTimeOf (generateTimelineEntries t (calcWrapTimes (sc_loopMS cf) (sc_cfg cf) (nowMS + 50) 100)
                                      (atoMSint (sc_cfg cf))).

(** Table of the first representation of the session (the reference of sendMediaSegments). *)
Definition ref0tab (cf : scfg) : option rep :=
  match sc_reps cf with ir0 :: _ => ir_tab ir0 | [] => None end.

Fixpoint sendReps (cf : scfg) (idx : Z) (reps : list irep) (nr nowMS : Z) (last : bool) (ref_ok : bool)
  : res (list mput) :=
  match reps with
  | [] => Ok []
  | ir :: rest =>
    let mk id ok := {| mp_rep := idx; mp_nr := nr; mp_id := id; mp_now := nowMS; mp_last := last; mp_ok := ok |} in
    if sc_timeline cf then
      let own := match ir_kind ir with
                 | RAudio => if idx =? 0 then true else false
                 | _ => true end in
      if own then
        match ir_tab ir with
        | None =>
          (* A generated subtitle track has no table.  Since fix dc9fc5d its $Time$ is the reference
             time (last entry of the first representation's timeline) converted to milliseconds as in
             the MPD; a first representation without a table is still a nil dereference. *)
          match ir_kind ir, ref0tab cf, idx =? 0 with
          | RText, Some t0, false =>
            do tl <- sendReps cf (idx + 1) rest nr nowMS last ref_ok;
            Ok (mk (Some (round_div (timeOfRep cf t0 nowMS * 1000) (ts t0))) ref_ok :: tl)
          | _, _, _ => Panic "generateTimelineEntries: nil pointer dereference"
          end
        | Some t =>
          let tm := timeOfRep cf t nowMS in
          let ok := match ir_kind ir with
                    | RAudio => true            (* audio-only session: not modelled further *)
                    | _ => lookup_ok t cf ByTime tm nowMS end in
          do tl <- sendReps cf (idx + 1) rest nr nowMS last (if idx =? 0 then ok else ref_ok);
          Ok (mk (match ir_kind ir with RAudio => None | _ => Some tm end) ok :: tl)
        end
      else
        do tl <- sendReps cf (idx + 1) rest nr nowMS last ref_ok;
        Ok (mk None ref_ok :: tl)
    else
      let ok := lookup_ok (timing_tab cf ir) cf ByNumber nr nowMS in
      do tl <- sendReps cf (idx + 1) rest nr nowMS last ref_ok;
      Ok (mk (Some nr) ok :: tl)
  end.

(** sendMediaSegments: one attempt per representation (run in parallel), then [wg.Wait]. *)
Definition sendMedia (cf : scfg) (nr nowMS : Z) (last : bool) : res (list mput) :=
  sendReps cf 0 (sc_reps cf) nr nowMS last true.

(** What the environment contributes to one firing of the select.
    [fi_clock]: the successive readings of [time.Now()] after the send (real-time mode only; ignored
    in step mode); a reading list that ends stands for a last reading before the next availability time.
    [fi_refuse]: per representation index, whether the receiver answers the media PUT of this firing
    with a status >= 300 (missing entries: accepted). *)
Record fireinfo := { fi_clock : list Z; fi_refuse : list bool }.

Inductive event :=
| EvTimer (fi : fireinfo)      (* timer.C fired *)
| EvTrigger (fi : fireinfo)    (* nextSegTrigger: REST .../step *)
| EvCancel.                    (* ctx.Done: REST DELETE or server shutdown *)

Definition stopped (st : sstate) : sstate :=
  {| ph := PStopped; nextNr := nextNr st; lastToSend := lastToSend st; availT := availT st |}.
Definition crashed (site : string) (st : sstate) : sstate :=
  {| ph := PCrashed site; nextNr := nextNr st; lastToSend := lastToSend st; availT := availT st |}.
Definition hung (st : sstate) : sstate :=
  {| ph := PHung; nextNr := nextNr st; lastToSend := lastToSend st; availT := availT st |}.

(** What becomes of the session goroutine after one sendMediaSegments in chunked mode:
    - an attempt that writeSegment rejects returns from sendMediaSegment before anything was written;
      its deferred [close(writeMoreCh)] meets the reader goroutine's first [writeMoreCh <- struct{}{}]:
      "panic: send on closed channel" in a goroutine, the process dies;
    - a PUT that the receiver answers with an error makes startReadAndSendChunked return without
      signalling [finishedCh]; sendMediaSegment waits for it for ever, and so does [wg.Wait].
    Without chunking both are only logged. *)
Definition afterSend (cf : scfg) (refuse : list bool) (g : list mput) (st : sstate) : sstate :=
  if negb (sc_chunked cf) then st else
  if existsb (fun m => negb (mp_ok m)) g then crashed "startReadAndSendChunked: send on closed channel" st else
  if existsb (fun m => nth (Z.to_nat (mp_rep m)) refuse false) g then hung st else st.

(** The check at the top of the main loop. *)
Definition loopTop (st : sstate) : sstate :=
  match ph st with
  | PRunning => if (0 <=? lastToSend st) && (lastToSend st <? nextNr st) then stopped st else st
  | _ => st
  end.

(** Result of recomputing the availability time for the next number. *)
Definition advance (cf : scfg) (st : sstate) : sstate :=
  let n1 := nextNr st + 1 in
  match sc_avail cf (u32 n1) with
  | Ok a => {| ph := ph st; nextNr := n1; lastToSend := lastToSend st; availT := a |}
  | Err _ => stopped {| ph := ph st; nextNr := n1; lastToSend := lastToSend st; availT := availT st |}
  | Panic s => crashed s {| ph := ph st; nextNr := n1; lastToSend := lastToSend st; availT := availT st |}
  end.

(** The catch-up loop of real-time mode: while the next availability time is not in the future,
    send that segment at once.  Since fix 07f3435 the loop ends after the last number and marks it
    ([sc_catchup_checks = true]); before, the segments were never marked last and the loop did not
    look at lastSegNrToSend ([false]). *)
Fixpoint catchup (cf : scfg) (clock : list Z) (st : sstate) : list (list mput) * sstate :=
  match clock with
  | [] => ([], st)
  | now :: clock' =>
    match ph st with
    | PRunning =>
      if availT st - now <=? 0 then
        if sc_catchup_checks cf && (0 <=? lastToSend st) && (lastToSend st <? nextNr st) then ([], stopped st) else
        match sendMedia cf (nextNr st) (availT st) (sc_catchup_checks cf && (nextNr st =? lastToSend st)) with
        | Ok g => let '(gs, st') := catchup cf clock' (afterSend cf [] g (advance cf st)) in (g :: gs, st')
        | Err _ => ([], stopped st)
        | Panic s => ([], crashed s st)
        end
      else ([], st)
    | _ => ([], st)
    end
  end.

(** One firing of the select (timer or trigger): the groups of attempts (one per call of
    sendMediaSegments) and the state at the next select. *)
Definition fire (cf : scfg) (fi : fireinfo) (st : sstate) : list (list mput) * sstate :=
  let isLast := nextNr st =? lastToSend st in
  match sendMedia cf (nextNr st) (availT st) isLast with
  | Err _ => ([], stopped st)
  | Panic s => ([], crashed s st)
  | Ok g =>
    match ph (afterSend cf (fi_refuse fi) g st) with
    | PRunning =>
      let st1 := advance cf st in
      if sc_test cf then ([g], loopTop st1)
      else let '(gs, st2) := catchup cf (fi_clock fi) st1 in (g :: gs, loopTop st2)
    | _ => ([g], afterSend cf (fi_refuse fi) g st)
    end
  end.

Definition step (cf : scfg) (st : sstate) (ev : event) : list (list mput) * sstate :=
  match ph st with
  | PRunning =>
    match ev with
    | EvCancel => ([], stopped st)
    | EvTimer fi | EvTrigger fi => fire cf fi st
    end
  | _ => ([], st)
  end.

Fixpoint run (cf : scfg) (st : sstate) (evs : list event) : list (list mput) * sstate :=
  match evs with
  | [] => ([], st)
  | ev :: evs' =>
    let '(g, st1) := step cf st ev in
    let '(gs, st2) := run cf st1 evs' in (g ++ gs, st2)
  end.

Definition repIdxs (cf : scfg) : list Z := seqZ 0 (length (sc_reps cf)).

(** cmafIngester.start up to the first select: an init PUT for every representation (sequential,
    [initres] says which the receiver accepted, missing entries = accepted); any refusal ends the
    session after all inits were tried.  [nowMS] is testNowMS or the clock. *)
Definition start (cf : scfg) (nowMS : Z) (initres : list bool) : list Z * sstate :=
  let inits := repIdxs cf in
  let all_ok := forallb (fun i => nth i initres true) (seq 0 (length (sc_reps cf))) in
  let st0 := {| ph := PRunning; nextNr := 0; lastToSend := -1; availT := 0 |} in
  if negb all_ok then (inits, stopped st0) else
  let nextSegNr := firstNr cf nowMS in
  match nrSegsToSend cf with
  | Panic s => (inits, crashed s st0)
  | Err _ => (inits, stopped st0)
  | Ok ns =>
    let lastTo := match ns with Some k => nextSegNr + k | None => -1 end in
    let st1 := {| ph := PRunning; nextNr := nextSegNr; lastToSend := lastTo; availT := 0 |} in
    match sc_avail cf (u32 nextSegNr) with
    | Ok a => (inits, loopTop {| ph := PRunning; nextNr := nextSegNr; lastToSend := lastTo; availT := a |})
    | Err _ => (inits, stopped st1)
    | Panic s => (inits, crashed s st1)
    end
  end.

(** A whole session. *)
Definition session (cf : scfg) (nowMS : Z) (initres : list bool) (evs : list event)
  : list Z * list (list mput) * sstate :=
  let '(inits, st0) := start cf nowMS initres in
  let '(gs, st1) := run cf st0 evs in (inits, gs, st1).

(** Cancel (REST DELETE) while the init segment of representation [k] is being uploaded: that
    upload and every later one fail on the cancelled context (the receiver has seen the inits up to
    [k], none after), the init round ends with errors and the session ends before its main loop. *)
Definition start_cancelled (cf : scfg) (k : Z) : list Z * sstate :=
  (takeZ (k + 1) (repIdxs cf),
   stopped {| ph := PRunning; nextNr := 0; lastToSend := -1; availT := 0 |}).

(** A whole session, with an optional Cancel in the init phase. *)
Definition session_c (cf : scfg) (nowMS : Z) (initres : list bool) (cancelInit : option Z) (evs : list event)
  : list Z * list (list mput) * sstate :=
  match cancelInit with
  | None => session cf nowMS initres evs
  | Some k =>
    let '(inits, st0) := start_cancelled cf k in
    let '(gs, st1) := run cf st0 evs in (inits, gs, st1)
  end.

(** The configuration with the code's own availability function. *)
Definition mk_scfg_rcf (rm : rounding) (cc ff : bool) (reps : list irep) (refr : rep) (loopMS segDurMS : Z) (c : tcfg)
           (timeline test : bool) (dur : option Z) (chunked : bool) : scfg :=
  {| sc_reps := reps; sc_ref := refr; sc_loopMS := loopMS; sc_segDurMS := segDurMS; sc_cfg := c;
     sc_timeline := timeline; sc_test := test; sc_dur := dur; sc_chunked := chunked; sc_catchup_checks := cc;
     sc_first_fix := ff; sc_avail := availMS_float_r rm refr loopMS c |}.
Definition mk_scfg_rc (rm : rounding) (cc : bool) := mk_scfg_rcf rm cc false.
Definition mk_scfg_r (rm : rounding) := mk_scfg_rc rm false.
Definition mk_scfg := mk_scfg_rcf RCeil true true.

(** * 3. The cmafSource hand-over *)

Inductive side := SW | SR.

Inductive wpc :=
| WIdle        (* between calls of Write: the next action enters Write or, after the last, the tail *)
| WRecv0       (* Write: <-cs.writeMoreCh *)
| WCheck       (* Write: reads cs.offset and cs.bufLevel (the "bad write levels" test) *)
| WCopy        (* n := copy(cs.buf, b[nrWritten:]) *)
| WSend        (* cs.nrBytesCh <- n *)
| WAfter       (* nrWritten += n; if nrWritten == len(b) break *)
| WRecv        (* <-cs.writeMoreCh inside the loop *)
| WFinRecv     (* sendMediaSegment: <-writeMoreCh *)
| WFinSend     (* nrBytesCh <- -1 *)
| WFinWait     (* <-finishedSendCh *)
| WDone.

Inductive rpc :=
| RKick        (* startReadAndSendChunked: cs.writeMoreCh <- struct{}{} *)
| RIdle        (* the HTTP transport is about to call Read(p) *)
| RTest        (* if cs.offset >= cs.bufLevel *)
| RRecv        (* nrAvailable := <-cs.nrBytesCh; cs.bufLevel = nrAvailable *)
| RCopy        (* n := copy(p, cs.buf[cs.offset:cs.bufLevel]); cs.offset += n *)
| REq          (* if cs.offset == cs.bufLevel { cs.offset = 0; cs.bufLevel = 0 *)
| RSendMore    (*   cs.writeMoreCh <- struct{}{} } *)
| RFin         (* after io.EOF: finishedCh <- struct{}{} *)
| RDone.

Record hstate := {
  wp : wpc; w_cur : list Z; w_rest : list (list Z); w_nw : Z; w_n : Z;
  rp : rpc; r_k : nat; r_n : Z; r_out : list Z; r_rets : list Z;
  hbuf : list Z; bufLevel : Z; offset : Z;
  owner : side;                 (* ghost: who may touch cs.buf / write offset and bufLevel *)
  hfail : option string         (* ghost: an access by the other side, or a slice panic *)
}.

(** [copy(dst, src)] on a destination of fixed length *)
Definition copyInto (dst src : list Z) : list Z * Z :=
  let n := Z.min (lenZ dst) (lenZ src) in (takeZ n src ++ dropZ n dst, n).

Definition hinit (C : Z) (writes : list (list Z)) : hstate :=
  {| wp := WIdle; w_cur := []; w_rest := writes; w_nw := 0; w_n := 0;
     rp := RKick; r_k := O; r_n := 0; r_out := []; r_rets := [];
     hbuf := repeat 0 (Z.to_nat C); bufLevel := 0; offset := 0;
     owner := SR; hfail := None |}.

Definition set_w (s : hstate) (p : wpc) : hstate :=
  {| wp := p; w_cur := w_cur s; w_rest := w_rest s; w_nw := w_nw s; w_n := w_n s;
     rp := rp s; r_k := r_k s; r_n := r_n s; r_out := r_out s; r_rets := r_rets s;
     hbuf := hbuf s; bufLevel := bufLevel s; offset := offset s; owner := owner s; hfail := hfail s |}.
Definition set_r (s : hstate) (p : rpc) : hstate :=
  {| wp := wp s; w_cur := w_cur s; w_rest := w_rest s; w_nw := w_nw s; w_n := w_n s;
     rp := p; r_k := r_k s; r_n := r_n s; r_out := r_out s; r_rets := r_rets s;
     hbuf := hbuf s; bufLevel := bufLevel s; offset := offset s; owner := owner s; hfail := hfail s |}.
Definition set_fail (s : hstate) (msg : string) : hstate :=
  {| wp := wp s; w_cur := w_cur s; w_rest := w_rest s; w_nw := w_nw s; w_n := w_n s;
     rp := rp s; r_k := r_k s; r_n := r_n s; r_out := r_out s; r_rets := r_rets s;
     hbuf := hbuf s; bufLevel := bufLevel s; offset := offset s; owner := owner s;
     hfail := match hfail s with Some m => Some m | None => Some msg end |}.
Definition set_owner (s : hstate) (o : side) : hstate :=
  {| wp := wp s; w_cur := w_cur s; w_rest := w_rest s; w_nw := w_nw s; w_n := w_n s;
     rp := rp s; r_k := r_k s; r_n := r_n s; r_out := r_out s; r_rets := r_rets s;
     hbuf := hbuf s; bufLevel := bufLevel s; offset := offset s; owner := o; hfail := hfail s |}.

(** Ghost check: a write access to the shared data needs ownership. *)
Definition need (who : side) (what : string) (s : hstate) : hstate :=
  match who, owner s with
  | SW, SW | SR, SR => s
  | _, _ => set_fail s what
  end.

(** Internal (non-channel) steps of the writer. *)
Definition wstep_internal (s : hstate) : option hstate :=
  match wp s with
  | WIdle =>
    match w_rest s with
    | b :: rest =>
      Some {| wp := WRecv0; w_cur := b; w_rest := rest; w_nw := 0; w_n := 0;
              rp := rp s; r_k := r_k s; r_n := r_n s; r_out := r_out s; r_rets := r_rets s;
              hbuf := hbuf s; bufLevel := bufLevel s; offset := offset s; owner := owner s; hfail := hfail s |}
    | [] => Some (set_w s WFinRecv)
    end
  | WCheck => Some (set_w s WCopy)      (* read-only look at offset/bufLevel; only logs *)
  | WCopy =>
    let s1 := need SW "cs.buf written by Write while the reader owns it" s in
    let '(nb, n) := copyInto (hbuf s1) (dropZ (w_nw s1) (w_cur s1)) in
    Some {| wp := WSend; w_cur := w_cur s1; w_rest := w_rest s1; w_nw := w_nw s1; w_n := n;
            rp := rp s1; r_k := r_k s1; r_n := r_n s1; r_out := r_out s1; r_rets := r_rets s1;
            hbuf := nb; bufLevel := bufLevel s1; offset := offset s1; owner := owner s1; hfail := hfail s1 |}
  | WAfter =>
    let nw := w_nw s + w_n s in
    Some {| wp := if nw =? lenZ (w_cur s) then WIdle else WRecv;
            w_cur := w_cur s; w_rest := w_rest s; w_nw := nw; w_n := w_n s;
            rp := rp s; r_k := r_k s; r_n := r_n s; r_out := r_out s; r_rets := r_rets s;
            hbuf := hbuf s; bufLevel := bufLevel s; offset := offset s; owner := owner s; hfail := hfail s |}
  | _ => None
  end.

(** Internal steps of the reader; [psize k] is len(p) of the k-th call of Read. *)
Definition rstep_internal (psize : nat -> Z) (s : hstate) : option hstate :=
  match rp s with
  | RIdle => Some (set_r s RTest)
  | RTest => Some (set_r s (if offset s >=? bufLevel s then RRecv else RCopy))
  | RCopy =>
    let s1 := need SR "cs.buf read by Read while the writer owns it" s in
    if (offset s1 <? 0) || (bufLevel s1 <? offset s1) || (lenZ (hbuf s1) <? bufLevel s1) then
      Some (set_fail s1 "Read: slice bounds out of range")
    else
      let avail := takeZ (bufLevel s1 - offset s1) (dropZ (offset s1) (hbuf s1)) in
      let n := Z.min (Z.max 0 (psize (r_k s1))) (lenZ avail) in
      Some {| wp := wp s1; w_cur := w_cur s1; w_rest := w_rest s1; w_nw := w_nw s1; w_n := w_n s1;
              rp := REq; r_k := r_k s1; r_n := n; r_out := r_out s1 ++ takeZ n avail; r_rets := r_rets s1;
              hbuf := hbuf s1; bufLevel := bufLevel s1; offset := offset s1 + n; owner := owner s1; hfail := hfail s1 |}
  | REq =>
    if offset s =? bufLevel s then
      let s1 := need SR "cs.offset/cs.bufLevel reset by Read while the writer owns the buffer" s in
      Some {| wp := wp s1; w_cur := w_cur s1; w_rest := w_rest s1; w_nw := w_nw s1; w_n := w_n s1;
              rp := RSendMore; r_k := r_k s1; r_n := r_n s1; r_out := r_out s1; r_rets := r_rets s1;
              hbuf := hbuf s1; bufLevel := 0; offset := 0; owner := owner s1; hfail := hfail s1 |}
    else
      (* return n, nil *)
      Some {| wp := wp s; w_cur := w_cur s; w_rest := w_rest s; w_nw := w_nw s; w_n := w_n s;
              rp := RIdle; r_k := Datatypes.S (r_k s); r_n := r_n s; r_out := r_out s; r_rets := r_rets s ++ [r_n s];
              hbuf := hbuf s; bufLevel := bufLevel s; offset := offset s; owner := owner s; hfail := hfail s |}
  | _ => None
  end.

(** Rendezvous on the three unbuffered channels: both sides move in one transition. *)
Definition sync (s : hstate) : option hstate :=
  match wp s, rp s with
  (* writeMoreCh: reader sends, writer receives; the buffer passes to the writer *)
  | WRecv0, RKick => Some (set_owner (set_r (set_w s WCheck) RIdle) SW)
  | WRecv0, RSendMore | WRecv, RSendMore | WFinRecv, RSendMore =>
    let wp' := match wp s with WRecv0 => WCheck | WRecv => WCopy | _ => WFinSend end in
    (* Read returns (n, nil) after the send *)
    Some {| wp := wp'; w_cur := w_cur s; w_rest := w_rest s; w_nw := w_nw s; w_n := w_n s;
            rp := RIdle; r_k := Datatypes.S (r_k s); r_n := r_n s; r_out := r_out s; r_rets := r_rets s ++ [r_n s];
            hbuf := hbuf s; bufLevel := bufLevel s; offset := offset s; owner := SW; hfail := hfail s |}
  | WRecv, RKick | WFinRecv, RKick =>
    let wp' := match wp s with WRecv => WCopy | _ => WFinSend end in
    Some (set_owner (set_r (set_w s wp') RIdle) SW)
  (* nrBytesCh: writer sends n, reader receives and stores it in bufLevel; the buffer passes to the reader *)
  | WSend, RRecv =>
    Some {| wp := WAfter; w_cur := w_cur s; w_rest := w_rest s; w_nw := w_nw s; w_n := w_n s;
            rp := RCopy; r_k := r_k s; r_n := r_n s; r_out := r_out s; r_rets := r_rets s;
            hbuf := hbuf s; bufLevel := w_n s; offset := offset s; owner := SR; hfail := hfail s |}
  | WFinSend, RRecv =>
    (* bufLevel = -1: Read returns (0, io.EOF) *)
    Some {| wp := WFinWait; w_cur := w_cur s; w_rest := w_rest s; w_nw := w_nw s; w_n := w_n s;
            rp := RFin; r_k := Datatypes.S (r_k s); r_n := 0; r_out := r_out s; r_rets := r_rets s ++ [-1];
            hbuf := hbuf s; bufLevel := -1; offset := offset s; owner := SR; hfail := hfail s |}
  (* finishedSendCh *)
  | WFinWait, RFin => Some (set_r (set_w s WDone) RDone)
  | _, _ => None
  end.

(** One scheduling decision: the chosen side takes its next step if it can (an internal step, or
    the rendezvous if it stands at a channel operation and the partner is ready). *)
Definition at_chan_w (p : wpc) : bool :=
  match p with WRecv0 | WSend | WRecv | WFinRecv | WFinSend | WFinWait => true | _ => false end.
Definition at_chan_r (p : rpc) : bool :=
  match p with RKick | RRecv | RSendMore | RFin => true | _ => false end.

Definition hstep (psize : nat -> Z) (who : side) (s : hstate) : option hstate :=
  match who with
  | SW => if at_chan_w (wp s) then sync s else wstep_internal s
  | SR => if at_chan_r (rp s) then sync s else rstep_internal psize s
  end.

Fixpoint hrun (psize : nat -> Z) (sched : list side) (s : hstate) : hstate :=
  match sched with
  | [] => s
  | who :: rest => hrun psize rest (match hstep psize who s with Some s' => s' | None => s end)
  end.

Definition hterminal (s : hstate) : bool :=
  match wp s, rp s with WDone, RDone => true | _, _ => false end.

(** A deterministic scheduler for running the model: always the writer if it can move, else the reader. *)
Fixpoint hrun_greedy (psize : nat -> Z) (fuel : nat) (s : hstate) : hstate :=
  match fuel with
  | O => s
  | Datatypes.S f =>
    match hstep psize SW s with
    | Some s' => hrun_greedy psize f s'
    | None => match hstep psize SR s with Some s' => hrun_greedy psize f s' | None => s end
    end
  end.
