(** The cmafSource hand-over (theories/Ingest.v, section 3): invariant over the product of the
    writer and the reader automaton, for every interleaving, every split of the data into Write
    calls, every sequence of read-buffer sizes and every buffer capacity. *)
From Verif Require Import GoSem GoSemFacts Ingest.
From Coq Require Import ZifyBool.

Section Handover.
Variable C : Z.
Hypothesis Cpos : 0 < C.
Variable psize : nat -> Z.
Hypothesis psize_pos : forall k, 0 < psize k.
Variable writes : list (list Z).
Definition total : list Z := concat writes.

(** Bytes in the shared buffer that Read has not returned yet. *)
Definition pending (s : hstate) : list Z := takeZ (bufLevel s - offset s) (dropZ (offset s) (hbuf s)).

(** Bytes the writer has not handed over yet. *)
Definition wunwritten (s : hstate) : list Z :=
  match wp s with
  | WIdle => concat (w_rest s)
  | WRecv0 | WCheck => w_cur s ++ concat (w_rest s)
  | WCopy | WSend | WRecv => dropZ (w_nw s) (w_cur s) ++ concat (w_rest s)
  | WAfter => dropZ (w_nw s + w_n s) (w_cur s) ++ concat (w_rest s)
  | WFinRecv | WFinSend | WFinWait | WDone => []
  end.

Definition wctlA (s : hstate) : Prop :=
  match wp s with
  | WCheck => w_nw s = 0
  | WCopy => 0 <= w_nw s <= lenZ (w_cur s)
  | WSend => 0 <= w_nw s <= lenZ (w_cur s) /\ w_n s = Z.min C (lenZ (w_cur s) - w_nw s) /\
             takeZ (w_n s) (hbuf s) = takeZ (w_n s) (dropZ (w_nw s) (w_cur s))
  | WFinSend => w_rest s = []
  | _ => False
  end.
Definition rctlA (s : hstate) : Prop :=
  match rp s with RIdle | RTest | RRecv => True | _ => False end.
Definition wctlB (s : hstate) : Prop :=
  match wp s with
  | WAfter => 0 <= w_nw s /\ w_nw s + w_n s <= lenZ (w_cur s) /\ w_n s = Z.min C (lenZ (w_cur s) - w_nw s)
  | WIdle => True
  | WRecv0 => w_nw s = 0
  | WRecv => 0 <= w_nw s < lenZ (w_cur s)
  | WFinRecv => w_rest s = []
  | _ => False
  end.
Definition rctlB (s : hstate) : Prop :=
  match rp s with
  | RCopy => True
  | REq => 0 <= r_n s
  | RSendMore => offset s = 0 /\ bufLevel s = 0 /\ 0 <= r_n s
  | RIdle | RTest => offset s < bufLevel s
  | RKick => offset s = 0 /\ bufLevel s = 0
  | _ => False
  end.

Definition ctl (s : hstate) : Prop :=
  match owner s with
  | SW => wctlA s /\ rctlA s /\ offset s = 0 /\ bufLevel s = 0
  | SR => (wctlB s /\ rctlB s /\ 0 <= offset s <= bufLevel s /\ bufLevel s <= C)
          \/ (wp s = WFinWait /\ rp s = RFin /\ bufLevel s <= offset s)
          \/ (wp s = WDone /\ rp s = RDone /\ bufLevel s <= offset s)
  end.

Definition nonneg (l : list Z) : Prop := Forall (fun x => 0 <= x) l.

(** Return values of Read so far: EOF (-1) only as the very last one, after the end. *)
Definition rets_ok (s : hstate) : Prop :=
  match rp s with
  | RFin | RDone => exists l, r_rets s = l ++ [-1] /\ nonneg l
  | _ => nonneg (r_rets s)
  end.

Record Inv (s : hstate) : Prop := {
  inv_fail : hfail s = None;
  inv_len : lenZ (hbuf s) = C;
  inv_data : r_out s ++ pending s ++ wunwritten s = total;
  inv_ctl : ctl s;
  inv_rets : rets_ok s
}.

Ltac simp_st :=
  cbn [wp w_cur w_rest w_nw w_n rp r_k r_n r_out r_rets hbuf bufLevel offset owner hfail
       set_w set_r set_owner set_fail] in *.

Lemma lenZ_repeat {A} (x : A) n : 0 <= n -> lenZ (repeat x (Z.to_nat n)) = n.
Proof. intros H. unfold lenZ. rewrite repeat_length. lia. Qed.

Lemma Inv_init : Inv (hinit C writes).
Proof.
  constructor; unfold hinit; simp_st.
  - reflexivity.
  - apply lenZ_repeat. lia.
  - unfold pending, wunwritten. simp_st. rewrite takeZ_nonpos by lia. reflexivity.
  - unfold ctl, wctlB, rctlB. simp_st. left. repeat split; lia.
  - unfold rets_ok. simp_st. constructor.
Qed.

(** Case analysis of the control part for a given writer pc. *)
Ltac ctl_w Hc Ew :=
  unfold ctl in Hc;
  let Eo := fresh "Eo" in
  destruct (owner _) eqn:Eo;
  [ let Hw := fresh "Hw" in let Hrr := fresh "Hrr" in let Ho := fresh "Ho" in let Hb := fresh "Hb" in
    destruct Hc as (Hw & Hrr & Ho & Hb); unfold wctlA in Hw; rewrite Ew in Hw
  | let Hw := fresh "Hw" in let Hrr := fresh "Hrr" in let Ho := fresh "Ho" in let Hb := fresh "Hb" in
    destruct Hc as [(Hw & Hrr & Ho & Hb)|[(? & ? & ?)|(? & ? & ?)]];
    [unfold wctlB in Hw; rewrite Ew in Hw|congruence|congruence] ];
  try contradiction.

Lemma copyInto_len dst src : lenZ (fst (copyInto dst src)) = lenZ dst.
Proof.
  unfold copyInto. cbn [fst]. pose proof (lenZ_nonneg dst). pose proof (lenZ_nonneg src).
  rewrite lenZ_app, lenZ_takeZ, lenZ_dropZ by lia. lia.
Qed.

Lemma copyInto_prefix dst src :
  let '(nb, n) := copyInto dst src in
  n = Z.min (lenZ dst) (lenZ src) /\ takeZ n nb = takeZ n src.
Proof.
  unfold copyInto. pose proof (lenZ_nonneg dst). pose proof (lenZ_nonneg src).
  split; [reflexivity|].
  rewrite takeZ_app_l by (rewrite lenZ_takeZ by lia; lia).
  rewrite takeZ_takeZ. f_equal. lia.
Qed.

Lemma wstep_inv s s' : Inv s -> wstep_internal s = Some s' -> Inv s'.
Proof.
  intros [Hf Hl Hd Hc Hr] H. unfold wstep_internal in H.
  destruct (wp s) eqn:Ew; try discriminate.
  - (* WIdle *)
    ctl_w Hc Ew.
    destruct (w_rest s) as [|b rest] eqn:Erest; inversion H; subst; clear H.
    + (* no more writes: the tail of sendMediaSegment *)
      constructor; simp_st; try assumption.
      * unfold pending, wunwritten in *. simp_st. rewrite Ew, Erest in Hd. cbn [concat] in Hd. exact Hd.
      * unfold ctl. simp_st. try rewrite Eo. left. unfold wctlB, rctlB in *. simp_st. tauto.
    + constructor; simp_st; try assumption.
      * unfold pending, wunwritten in *. simp_st. rewrite Ew, Erest in Hd. cbn [concat] in Hd. exact Hd.
      * unfold ctl. simp_st. try rewrite Eo. left. unfold wctlB, rctlB in *. simp_st. tauto.
  - (* WCheck *)
    ctl_w Hc Ew. inversion H; subst; clear H.
    constructor; simp_st; try assumption.
    + unfold pending, wunwritten in *. simp_st. rewrite Ew in Hd. rewrite Hw, dropZ_0. exact Hd.
    + unfold ctl. simp_st. try rewrite Eo. unfold wctlA, rctlA in *. simp_st. pose proof (lenZ_nonneg (w_cur s)). repeat split; try tauto; lia.
  - (* WCopy *)
    ctl_w Hc Ew. unfold need in H. try rewrite Eo in H.
    pose proof (copyInto_len (hbuf s) (dropZ (w_nw s) (w_cur s))) as Hcl.
    pose proof (copyInto_prefix (hbuf s) (dropZ (w_nw s) (w_cur s))) as Hcp.
    destruct (copyInto (hbuf s) (dropZ (w_nw s) (w_cur s))) as [nb n]. cbn [fst] in Hcl. destruct Hcp as [Hn Hpre].
    rewrite lenZ_dropZ, Hl in Hn by lia. rewrite Z.max_r in Hn by lia.
    inversion H; subst; clear H.
    constructor; simp_st; try assumption.
    + congruence.
    + unfold pending, wunwritten in *. simp_st. rewrite Ew in Hd. rewrite Ho, Hb in *.
      rewrite takeZ_nonpos in * by lia. exact Hd.
    + unfold ctl. simp_st. try rewrite Eo. unfold wctlA, rctlA in *. simp_st.
      repeat split; try tauto; try lia; try exact Hpre.
  - (* WAfter *)
    ctl_w Hc Ew. inversion H; subst; clear H. destruct Hw as (Hw1 & Hw2 & Hw3).
    destruct (w_nw s + w_n s =? lenZ (w_cur s)) eqn:Eq.
    + constructor; simp_st; try assumption.
      * unfold pending, wunwritten in *. simp_st. rewrite Ew in Hd. rewrite (dropZ_all (w_nw s + w_n s) (w_cur s)) in Hd by lia. exact Hd.
      * unfold ctl. simp_st. try rewrite Eo. left. unfold wctlB, rctlB in *. simp_st. tauto.
    + constructor; simp_st; try assumption.
      * unfold pending, wunwritten in *. simp_st. rewrite Ew in Hd. exact Hd.
      * unfold ctl. simp_st. try rewrite Eo. left. unfold wctlB, rctlB in *. simp_st. repeat split; try tauto; lia.
Qed.

Ltac ctl_r Hc Er :=
  unfold ctl in Hc;
  let Eo := fresh "Eo" in
  destruct (owner _) eqn:Eo;
  [ let Hw := fresh "Hw" in let Hrr := fresh "Hrr" in let Ho := fresh "Ho" in let Hb := fresh "Hb" in
    destruct Hc as (Hw & Hrr & Ho & Hb); unfold rctlA in Hrr; rewrite Er in Hrr
  | let Hw := fresh "Hw" in let Hrr := fresh "Hrr" in let Ho := fresh "Ho" in let Hb := fresh "Hb" in
    destruct Hc as [(Hw & Hrr & Ho & Hb)|[(? & ? & ?)|(? & ? & ?)]];
    [unfold rctlB in Hrr; rewrite Er in Hrr|congruence|congruence] ];
  try contradiction.

Lemma pending_split (l : list Z) off m n : 0 <= off -> 0 <= n ->
  takeZ n (takeZ m (dropZ off l)) ++ takeZ (m - n) (dropZ (off + n) l) = takeZ m (dropZ off l).
Proof.
  intros Ho Hn. transitivity (takeZ n (takeZ m (dropZ off l)) ++ dropZ n (takeZ m (dropZ off l))); [|apply takeZ_dropZ].
  f_equal. rewrite dropZ_takeZ by lia. rewrite dropZ_dropZ by lia. f_equal. f_equal. lia.
Qed.

Lemma nonneg_app l x : nonneg l -> 0 <= x -> nonneg (l ++ [x]).
Proof. intros H Hx. unfold nonneg. rewrite Forall_app. split; [exact H|constructor; [exact Hx|constructor]]. Qed.

Lemma rstep_inv s s' : Inv s -> rstep_internal psize s = Some s' -> Inv s'.
Proof.
  intros [Hf Hl Hd Hc Hr] H. unfold rstep_internal in H.
  destruct (rp s) eqn:Er; try discriminate.
  - (* RIdle *)
    inversion H; subst; clear H.
    constructor; simp_st; try assumption.
    + unfold ctl, wctlA, wctlB, rctlA, rctlB in *. simp_st. rewrite Er in Hc.
      destruct (owner s); [exact Hc|].
      destruct Hc as [Hc|[(? & ? & ?)|(? & ? & ?)]]; try discriminate. left. exact Hc.
    + unfold rets_ok in *. simp_st. rewrite Er in Hr. exact Hr.
  - (* RTest *)
    inversion H; subst; clear H.
    constructor; simp_st; try assumption.
    + unfold ctl, wctlA, wctlB, rctlA, rctlB in *. simp_st. rewrite Er in Hc.
      destruct (owner s).
      * destruct Hc as (Hw & _ & Ho & Hb). destruct (offset s >=? bufLevel s) eqn:E; [|lia]. tauto.
      * destruct Hc as [(Hw & Hrr & Ho & Hb)|[(? & ? & ?)|(? & ? & ?)]]; try congruence.
        destruct (offset s >=? bufLevel s) eqn:E; [lia|]. left. tauto.
    + unfold rets_ok in *. simp_st. rewrite Er in Hr. destruct (offset s >=? bufLevel s); exact Hr.
  - (* RCopy *)
    ctl_r Hc Er. unfold need in H. rewrite Eo in H. cbv zeta in H.
    destruct ((offset s <? 0) || (bufLevel s <? offset s) || (lenZ (hbuf s) <? bufLevel s)) eqn:Eb; [lia|].
    inversion H; subst; clear H.
    set (avail := takeZ (bufLevel s - offset s) (dropZ (offset s) (hbuf s))) in *.
    assert (Hla : lenZ avail = bufLevel s - offset s).
    { unfold avail. rewrite lenZ_takeZ, lenZ_dropZ by lia. lia. }
    set (n := Z.min (Z.max 0 (psize (r_k s))) (lenZ avail)) in *.
    assert (Hn : 0 <= n <= bufLevel s - offset s) by (unfold n; lia).
    constructor; simp_st; try assumption.
    + unfold pending, wunwritten in *. simp_st. fold avail in Hd.
      rewrite <- app_assoc. rewrite <- Hd. f_equal. rewrite app_assoc. f_equal.
      replace (bufLevel s - (offset s + n)) with (bufLevel s - offset s - n) by lia.
      unfold avail. apply pending_split; lia.
    + unfold ctl, wctlB, rctlB in *. simp_st. try rewrite Eo. left. repeat split; try tauto; lia.
    + unfold rets_ok in *. simp_st. rewrite Er in Hr. exact Hr.
  - (* REq *)
    ctl_r Hc Er.
    destruct (offset s =? bufLevel s) eqn:E.
    + unfold need in H. rewrite Eo in H. cbv zeta in H. inversion H; subst; clear H.
      constructor; simp_st; try assumption.
      * unfold pending, wunwritten in *. simp_st. rewrite takeZ_nonpos by lia.
        rewrite takeZ_nonpos in Hd by lia. exact Hd.
      * unfold ctl, wctlB, rctlB in *. simp_st. try rewrite Eo. left. repeat split; try tauto; lia.
      * unfold rets_ok in *. simp_st. rewrite Er in Hr. exact Hr.
    + inversion H; subst; clear H.
      constructor; simp_st; try assumption.
      * unfold ctl, wctlB, rctlB in *. simp_st. try rewrite Eo. left. repeat split; try tauto; lia.
      * unfold rets_ok in *. simp_st. rewrite Er in Hr. apply nonneg_app; assumption.
Qed.

(** Both pcs known: the control part. *)
Ltac ctl_wr Hc Ew Er :=
  unfold ctl in Hc;
  let Eo := fresh "Eo" in
  destruct (owner _) eqn:Eo;
  [ let Hw := fresh "Hw" in let Hrr := fresh "Hrr" in let Ho := fresh "Ho" in let Hb := fresh "Hb" in
    destruct Hc as (Hw & Hrr & Ho & Hb); unfold wctlA in Hw; unfold rctlA in Hrr; rewrite Ew in Hw; rewrite Er in Hrr
  | let Hw := fresh "Hw" in let Hrr := fresh "Hrr" in let Ho := fresh "Ho" in let Hb := fresh "Hb" in
    destruct Hc as [(Hw & Hrr & Ho & Hb)|[(? & ? & ?)|(? & ? & ?)]];
    [unfold wctlB in Hw; unfold rctlB in Hrr; rewrite Ew in Hw; rewrite Er in Hrr|try congruence|try congruence] ];
  try contradiction.

Lemma sync_inv s s' : Inv s -> sync s = Some s' -> Inv s'.
Proof.
  intros [Hf Hl Hd Hc Hr] H. unfold sync in H.
  destruct (wp s) eqn:Ew; destruct (rp s) eqn:Er; try discriminate; inversion H; subst; clear H;
    ctl_wr Hc Ew Er; unfold rets_ok in Hr; rewrite Er in Hr.
  - (* WRecv0, RKick *)
    constructor; simp_st; try assumption.
    + unfold pending, wunwritten in *. simp_st. rewrite Ew in Hd. exact Hd.
    + unfold ctl, wctlA, rctlA. simp_st. repeat split; try tauto; lia.
  - (* WRecv0, RSendMore *)
    constructor; simp_st; try assumption.
    + unfold pending, wunwritten in *. simp_st. rewrite Ew in Hd. exact Hd.
    + unfold ctl, wctlA, rctlA. simp_st. repeat split; try tauto; lia.
    + unfold rets_ok. simp_st. apply nonneg_app; tauto.
  - (* WSend, RRecv *)
    destruct Hw as (Hw1 & Hw2 & Hw3).
    assert (Hn : 0 <= w_n s <= C) by lia.
    constructor; simp_st; try assumption.
    + unfold pending, wunwritten in *. simp_st. rewrite Ew in Hd. rewrite Ho, Hb in Hd. rewrite Ho.
      rewrite takeZ_nonpos in Hd by lia. cbn [app] in Hd. rewrite <- Hd. f_equal.
      rewrite Z.sub_0_r, dropZ_0, Hw3. rewrite app_assoc. f_equal.
      transitivity (takeZ (w_n s) (dropZ (w_nw s) (w_cur s)) ++ dropZ (w_n s) (dropZ (w_nw s) (w_cur s))); [|apply takeZ_dropZ].
      f_equal. rewrite dropZ_dropZ by lia. f_equal. lia.
    + unfold ctl, wctlB, rctlB. simp_st. left. repeat split; try tauto; lia.
  - (* WRecv, RKick *)
    constructor; simp_st; try assumption.
    + unfold pending, wunwritten in *. simp_st. rewrite Ew in Hd. exact Hd.
    + unfold ctl, wctlA, rctlA. simp_st. repeat split; try tauto; lia.
  - (* WRecv, RSendMore *)
    constructor; simp_st; try assumption.
    + unfold pending, wunwritten in *. simp_st. rewrite Ew in Hd. exact Hd.
    + unfold ctl, wctlA, rctlA. simp_st. repeat split; try tauto; lia.
    + unfold rets_ok. simp_st. apply nonneg_app; tauto.
  - (* WFinRecv, RKick *)
    constructor; simp_st; try assumption.
    + unfold pending, wunwritten in *. simp_st. rewrite Ew in Hd. exact Hd.
    + unfold ctl, wctlA, rctlA. simp_st. repeat split; try tauto; lia.
  - (* WFinRecv, RSendMore *)
    constructor; simp_st; try assumption.
    + unfold pending, wunwritten in *. simp_st. rewrite Ew in Hd. exact Hd.
    + unfold ctl, wctlA, rctlA. simp_st. repeat split; try tauto; lia.
    + unfold rets_ok. simp_st. apply nonneg_app; tauto.
  - (* WFinSend, RRecv *)
    constructor; simp_st; try assumption.
    + unfold pending, wunwritten in *. simp_st. rewrite Ew in Hd. rewrite Ho, Hb in Hd. rewrite Ho.
      rewrite takeZ_nonpos in Hd by lia. rewrite takeZ_nonpos by lia. exact Hd.
    + unfold ctl. simp_st. right. left. repeat split; lia.
    + unfold rets_ok. simp_st. exists (r_rets s). split; [reflexivity|exact Hr].
  - (* WFinWait, RFin *)
    constructor; simp_st; try assumption.
    + unfold pending, wunwritten in *. simp_st. rewrite Ew in Hd. exact Hd.
    + unfold ctl. simp_st. rewrite Eo. right. right. repeat split; lia.
Qed.

(** One scheduling decision preserves the invariant. *)
Theorem hstep_inv who s s' : Inv s -> hstep psize who s = Some s' -> Inv s'.
Proof.
  intros HI H. unfold hstep in H. destruct who.
  - destruct (at_chan_w (wp s)); [eapply sync_inv|eapply wstep_inv]; eassumption.
  - destruct (at_chan_r (rp s)); [eapply sync_inv|eapply rstep_inv]; eassumption.
Qed.

Theorem hrun_inv : forall sched s, Inv s -> Inv (hrun psize sched s).
Proof.
  induction sched as [|who sched IH]; intros s HI; cbn [hrun]; [exact HI|].
  apply IH. destruct (hstep psize who s) eqn:E; [eapply hstep_inv; eassumption|exact HI].
Qed.

End Handover.
