(** The cmafSource hand-over (theories/Ingest.v, section 3): invariant over the product of the
    writer and the reader automaton, for every interleaving, every split of the data into Write
    calls, every sequence of read-buffer sizes and every buffer capacity. *)
From Verif Require Import GoSem GoSemFacts Ingest.
From Coq Require Import ZifyBool.

Section Handover.
Variable C : Z.
Hypothesis Cpos : 0 < C.
Variable psize : nat -> Z.
Hypothesis psize_pos : forall k, 0 < psize k.
Variable writes : list (list Z).
Definition total : list Z := concat writes.

(** Bytes in the shared buffer that Read has not returned yet. *)
Definition pending (s : hstate) : list Z := takeZ (bufLevel s - offset s) (dropZ (offset s) (hbuf s)).

(** Bytes the writer has not handed over yet. *)
Definition wunwritten (s : hstate) : list Z :=
  match wp s with
  | WIdle => concat (w_rest s)
  | WRecv0 | WCheck => w_cur s ++ concat (w_rest s)
  | WCopy | WSend | WRecv => dropZ (w_nw s) (w_cur s) ++ concat (w_rest s)
  | WAfter => dropZ (w_nw s + w_n s) (w_cur s) ++ concat (w_rest s)
  | WFinRecv | WFinSend | WFinWait | WDone => []
  end.

Definition wctlA (s : hstate) : Prop :=
  match wp s with
  | WCheck => w_nw s = 0
  | WCopy => 0 <= w_nw s <= lenZ (w_cur s)
  | WSend => 0 <= w_nw s <= lenZ (w_cur s) /\ w_n s = Z.min C (lenZ (w_cur s) - w_nw s) /\
             takeZ (w_n s) (hbuf s) = takeZ (w_n s) (dropZ (w_nw s) (w_cur s))
  | WFinSend => w_rest s = []
  | _ => False
  end.
Definition rctlA (s : hstate) : Prop :=
  match rp s with RIdle | RTest | RRecv => True | _ => False end.
Definition wctlB (s : hstate) : Prop :=
  match wp s with
  | WAfter => 0 <= w_nw s /\ w_nw s + w_n s <= lenZ (w_cur s) /\ w_n s = Z.min C (lenZ (w_cur s) - w_nw s)
  | WIdle => True
  | WRecv0 => w_nw s = 0
  | WRecv => 0 <= w_nw s < lenZ (w_cur s)
  | WFinRecv => w_rest s = []
  | _ => False
  end.
Definition rctlB (s : hstate) : Prop :=
  match rp s with
  | RCopy => True
  | REq => 0 <= r_n s
  | RSendMore => offset s = 0 /\ bufLevel s = 0 /\ 0 <= r_n s
  | RIdle | RTest => offset s < bufLevel s
  | RKick => offset s = 0 /\ bufLevel s = 0
  | _ => False
  end.

Definition ctl (s : hstate) : Prop :=
  match owner s with
  | SW => wctlA s /\ rctlA s /\ offset s = 0 /\ bufLevel s = 0
  | SR => (wctlB s /\ rctlB s /\ 0 <= offset s <= bufLevel s /\ bufLevel s <= C)
          \/ (wp s = WFinWait /\ rp s = RFin /\ bufLevel s <= offset s)
          \/ (wp s = WDone /\ rp s = RDone /\ bufLevel s <= offset s)
  end.

Definition nonneg (l : list Z) : Prop := Forall (fun x => 0 <= x) l.

(** Return values of Read so far: EOF (-1) only as the very last one, after the end. *)
Definition rets_ok (s : hstate) : Prop :=
  match rp s with
  | RFin | RDone => exists l, r_rets s = l ++ [-1] /\ nonneg l
  | _ => nonneg (r_rets s)
  end.

Record Inv (s : hstate) : Prop := {
  inv_fail : hfail s = None;
  inv_len : lenZ (hbuf s) = C;
  inv_data : r_out s ++ pending s ++ wunwritten s = total;
  inv_ctl : ctl s;
  inv_rets : rets_ok s
}.

Ltac simp_st :=
  cbn [wp w_cur w_rest w_nw w_n rp r_k r_n r_out r_rets hbuf bufLevel offset owner hfail
       set_w set_r set_owner set_fail] in *.

Lemma lenZ_repeat {A} (x : A) n : 0 <= n -> lenZ (repeat x (Z.to_nat n)) = n.
Proof. intros H. unfold lenZ. rewrite repeat_length. lia. Qed.

Lemma Inv_init : Inv (hinit C writes).
Proof.
  constructor; unfold hinit; simp_st.
  - reflexivity.
  - apply lenZ_repeat. lia.
  - unfold pending, wunwritten. simp_st. rewrite takeZ_nonpos by lia. reflexivity.
  - unfold ctl, wctlB, rctlB. simp_st. left. repeat split; lia.
  - unfold rets_ok. simp_st. constructor.
Qed.

(** Case analysis of the control part for a given writer pc. *)
Ltac ctl_w Hc Ew :=
  unfold ctl in Hc;
  let Eo := fresh "Eo" in
  destruct (owner _) eqn:Eo;
  [ let Hw := fresh "Hw" in let Hrr := fresh "Hrr" in let Ho := fresh "Ho" in let Hb := fresh "Hb" in
    destruct Hc as (Hw & Hrr & Ho & Hb); unfold wctlA in Hw; rewrite Ew in Hw
  | let Hw := fresh "Hw" in let Hrr := fresh "Hrr" in let Ho := fresh "Ho" in let Hb := fresh "Hb" in
    destruct Hc as [(Hw & Hrr & Ho & Hb)|[(? & ? & ?)|(? & ? & ?)]];
    [unfold wctlB in Hw; rewrite Ew in Hw|congruence|congruence] ];
  try contradiction.

Lemma copyInto_len dst src : lenZ (fst (copyInto dst src)) = lenZ dst.
Proof.
  unfold copyInto. cbn [fst]. pose proof (lenZ_nonneg dst). pose proof (lenZ_nonneg src).
  rewrite lenZ_app, lenZ_takeZ, lenZ_dropZ by lia. lia.
Qed.

Lemma copyInto_prefix dst src :
  let '(nb, n) := copyInto dst src in
  n = Z.min (lenZ dst) (lenZ src) /\ takeZ n nb = takeZ n src.
Proof.
  unfold copyInto. pose proof (lenZ_nonneg dst). pose proof (lenZ_nonneg src).
  split; [reflexivity|].
  rewrite takeZ_app_l by (rewrite lenZ_takeZ by lia; lia).
  rewrite takeZ_takeZ. f_equal. lia.
Qed.

Lemma wstep_inv s s' : Inv s -> wstep_internal s = Some s' -> Inv s'.
Proof.
  intros [Hf Hl Hd Hc Hr] H. unfold wstep_internal in H.
  destruct (wp s) eqn:Ew; try discriminate.
  - (* WIdle *)
    ctl_w Hc Ew.
    destruct (w_rest s) as [|b rest] eqn:Erest; inversion H; subst; clear H.
    + (* no more writes: the tail of sendMediaSegment *)
      constructor; simp_st; try assumption.
      * unfold pending, wunwritten in *. simp_st. rewrite Ew, Erest in Hd. cbn [concat] in Hd. exact Hd.
      * unfold ctl. simp_st. try rewrite Eo. left. unfold wctlB, rctlB in *. simp_st. tauto.
    + constructor; simp_st; try assumption.
      * unfold pending, wunwritten in *. simp_st. rewrite Ew, Erest in Hd. cbn [concat] in Hd. exact Hd.
      * unfold ctl. simp_st. try rewrite Eo. left. unfold wctlB, rctlB in *. simp_st. tauto.
  - (* WCheck *)
    ctl_w Hc Ew. inversion H; subst; clear H.
    constructor; simp_st; try assumption.
    + unfold pending, wunwritten in *. simp_st. rewrite Ew in Hd. rewrite Hw, dropZ_0. exact Hd.
    + unfold ctl. simp_st. try rewrite Eo. unfold wctlA, rctlA in *. simp_st. pose proof (lenZ_nonneg (w_cur s)). repeat split; try tauto; lia.
  - (* WCopy *)
    ctl_w Hc Ew. unfold need in H. try rewrite Eo in H.
    pose proof (copyInto_len (hbuf s) (dropZ (w_nw s) (w_cur s))) as Hcl.
    pose proof (copyInto_prefix (hbuf s) (dropZ (w_nw s) (w_cur s))) as Hcp.
    destruct (copyInto (hbuf s) (dropZ (w_nw s) (w_cur s))) as [nb n]. cbn [fst] in Hcl. destruct Hcp as [Hn Hpre].
    rewrite lenZ_dropZ, Hl in Hn by lia. rewrite Z.max_r in Hn by lia.
    inversion H; subst; clear H.
    constructor; simp_st; try assumption.
    + congruence.
    + unfold pending, wunwritten in *. simp_st. rewrite Ew in Hd. rewrite Ho, Hb in *.
      rewrite takeZ_nonpos in * by lia. exact Hd.
    + unfold ctl. simp_st. try rewrite Eo. unfold wctlA, rctlA in *. simp_st.
      repeat split; try tauto; try lia; try exact Hpre.
  - (* WAfter *)
    ctl_w Hc Ew. inversion H; subst; clear H. destruct Hw as (Hw1 & Hw2 & Hw3).
    destruct (w_nw s + w_n s =? lenZ (w_cur s)) eqn:Eq.
    + constructor; simp_st; try assumption.
      * unfold pending, wunwritten in *. simp_st. rewrite Ew in Hd. rewrite (dropZ_all (w_nw s + w_n s) (w_cur s)) in Hd by lia. exact Hd.
      * unfold ctl. simp_st. try rewrite Eo. left. unfold wctlB, rctlB in *. simp_st. tauto.
    + constructor; simp_st; try assumption.
      * unfold pending, wunwritten in *. simp_st. rewrite Ew in Hd. exact Hd.
      * unfold ctl. simp_st. try rewrite Eo. left. unfold wctlB, rctlB in *. simp_st. repeat split; try tauto; lia.
Qed.

Ltac ctl_r Hc Er :=
  unfold ctl in Hc;
  let Eo := fresh "Eo" in
  destruct (owner _) eqn:Eo;
  [ let Hw := fresh "Hw" in let Hrr := fresh "Hrr" in let Ho := fresh "Ho" in let Hb := fresh "Hb" in
    destruct Hc as (Hw & Hrr & Ho & Hb); unfold rctlA in Hrr; rewrite Er in Hrr
  | let Hw := fresh "Hw" in let Hrr := fresh "Hrr" in let Ho := fresh "Ho" in let Hb := fresh "Hb" in
    destruct Hc as [(Hw & Hrr & Ho & Hb)|[(? & ? & ?)|(? & ? & ?)]];
    [unfold rctlB in Hrr; rewrite Er in Hrr|congruence|congruence] ];
  try contradiction.

Lemma pending_split (l : list Z) off m n : 0 <= off -> 0 <= n ->
  takeZ n (takeZ m (dropZ off l)) ++ takeZ (m - n) (dropZ (off + n) l) = takeZ m (dropZ off l).
Proof.
  intros Ho Hn. transitivity (takeZ n (takeZ m (dropZ off l)) ++ dropZ n (takeZ m (dropZ off l))); [|apply takeZ_dropZ].
  f_equal. rewrite dropZ_takeZ by lia. rewrite dropZ_dropZ by lia. f_equal. f_equal. lia.
Qed.

Lemma nonneg_app l x : nonneg l -> 0 <= x -> nonneg (l ++ [x]).
Proof. intros H Hx. unfold nonneg. rewrite Forall_app. split; [exact H|constructor; [exact Hx|constructor]]. Qed.

Lemma rstep_inv s s' : Inv s -> rstep_internal psize s = Some s' -> Inv s'.
Proof.
  intros [Hf Hl Hd Hc Hr] H. unfold rstep_internal in H.
  destruct (rp s) eqn:Er; try discriminate.
  - (* RIdle *)
    inversion H; subst; clear H.
    constructor; simp_st; try assumption.
    + unfold ctl, wctlA, wctlB, rctlA, rctlB in *. simp_st. rewrite Er in Hc.
      destruct (owner s); [exact Hc|].
      destruct Hc as [Hc|[(? & ? & ?)|(? & ? & ?)]]; try discriminate. left. exact Hc.
    + unfold rets_ok in *. simp_st. rewrite Er in Hr. exact Hr.
  - (* RTest *)
    inversion H; subst; clear H.
    constructor; simp_st; try assumption.
    + unfold ctl, wctlA, wctlB, rctlA, rctlB in *. simp_st. rewrite Er in Hc.
      destruct (owner s).
      * destruct Hc as (Hw & _ & Ho & Hb). destruct (offset s >=? bufLevel s) eqn:E; [|lia]. tauto.
      * destruct Hc as [(Hw & Hrr & Ho & Hb)|[(? & ? & ?)|(? & ? & ?)]]; try congruence.
        destruct (offset s >=? bufLevel s) eqn:E; [lia|]. left. tauto.
    + unfold rets_ok in *. simp_st. rewrite Er in Hr. destruct (offset s >=? bufLevel s); exact Hr.
  - (* RCopy *)
    ctl_r Hc Er. unfold need in H. rewrite Eo in H. cbv zeta in H.
    destruct ((offset s <? 0) || (bufLevel s <? offset s) || (lenZ (hbuf s) <? bufLevel s)) eqn:Eb; [lia|].
    inversion H; subst; clear H.
    set (avail := takeZ (bufLevel s - offset s) (dropZ (offset s) (hbuf s))) in *.
    assert (Hla : lenZ avail = bufLevel s - offset s).
    { unfold avail. rewrite lenZ_takeZ, lenZ_dropZ by lia. lia. }
    set (n := Z.min (Z.max 0 (psize (r_k s))) (lenZ avail)) in *.
    assert (Hn : 0 <= n <= bufLevel s - offset s) by (unfold n; lia).
    constructor; simp_st; try assumption.
    + unfold pending, wunwritten in *. simp_st. fold avail in Hd.
      rewrite <- app_assoc. rewrite <- Hd. f_equal. rewrite app_assoc. f_equal.
      replace (bufLevel s - (offset s + n)) with (bufLevel s - offset s - n) by lia.
      unfold avail. apply pending_split; lia.
    + unfold ctl, wctlB, rctlB in *. simp_st. try rewrite Eo. left. repeat split; try tauto; lia.
    + unfold rets_ok in *. simp_st. rewrite Er in Hr. exact Hr.
  - (* REq *)
    ctl_r Hc Er.
    destruct (offset s =? bufLevel s) eqn:E.
    + unfold need in H. rewrite Eo in H. cbv zeta in H. inversion H; subst; clear H.
      constructor; simp_st; try assumption.
      * unfold pending, wunwritten in *. simp_st. rewrite takeZ_nonpos by lia.
        rewrite takeZ_nonpos in Hd by lia. exact Hd.
      * unfold ctl, wctlB, rctlB in *. simp_st. try rewrite Eo. left. repeat split; try tauto; lia.
      * unfold rets_ok in *. simp_st. rewrite Er in Hr. exact Hr.
    + inversion H; subst; clear H.
      constructor; simp_st; try assumption.
      * unfold ctl, wctlB, rctlB in *. simp_st. try rewrite Eo. left. repeat split; try tauto; lia.
      * unfold rets_ok in *. simp_st. rewrite Er in Hr. apply nonneg_app; assumption.
Qed.

(** Both pcs known: the control part. *)
Ltac ctl_wr Hc Ew Er :=
  unfold ctl in Hc;
  let Eo := fresh "Eo" in
  destruct (owner _) eqn:Eo;
  [ let Hw := fresh "Hw" in let Hrr := fresh "Hrr" in let Ho := fresh "Ho" in let Hb := fresh "Hb" in
    destruct Hc as (Hw & Hrr & Ho & Hb); unfold wctlA in Hw; unfold rctlA in Hrr; rewrite Ew in Hw; rewrite Er in Hrr
  | let Hw := fresh "Hw" in let Hrr := fresh "Hrr" in let Ho := fresh "Ho" in let Hb := fresh "Hb" in
    destruct Hc as [(Hw & Hrr & Ho & Hb)|[(? & ? & ?)|(? & ? & ?)]];
    [unfold wctlB in Hw; unfold rctlB in Hrr; rewrite Ew in Hw; rewrite Er in Hrr|try congruence|try congruence] ];
  try contradiction.

Lemma sync_inv s s' : Inv s -> sync s = Some s' -> Inv s'.
Proof.
  intros [Hf Hl Hd Hc Hr] H. unfold sync in H.
  destruct (wp s) eqn:Ew; destruct (rp s) eqn:Er; try discriminate; inversion H; subst; clear H;
    ctl_wr Hc Ew Er; unfold rets_ok in Hr; rewrite Er in Hr.
  - (* WRecv0, RKick *)
    constructor; simp_st; try assumption.
    + unfold pending, wunwritten in *. simp_st. rewrite Ew in Hd. exact Hd.
    + unfold ctl, wctlA, rctlA. simp_st. repeat split; try tauto; lia.
  - (* WRecv0, RSendMore *)
    constructor; simp_st; try assumption.
    + unfold pending, wunwritten in *. simp_st. rewrite Ew in Hd. exact Hd.
    + unfold ctl, wctlA, rctlA. simp_st. repeat split; try tauto; lia.
    + unfold rets_ok. simp_st. apply nonneg_app; tauto.
  - (* WSend, RRecv *)
    destruct Hw as (Hw1 & Hw2 & Hw3).
    assert (Hn : 0 <= w_n s <= C) by lia.
    constructor; simp_st; try assumption.
    + unfold pending, wunwritten in *. simp_st. rewrite Ew in Hd. rewrite Ho, Hb in Hd. rewrite Ho.
      rewrite takeZ_nonpos in Hd by lia. cbn [app] in Hd. rewrite <- Hd. f_equal.
      rewrite Z.sub_0_r, dropZ_0, Hw3. rewrite app_assoc. f_equal.
      transitivity (takeZ (w_n s) (dropZ (w_nw s) (w_cur s)) ++ dropZ (w_n s) (dropZ (w_nw s) (w_cur s))); [|apply takeZ_dropZ].
      f_equal. rewrite dropZ_dropZ by lia. f_equal. lia.
    + unfold ctl, wctlB, rctlB. simp_st. left. repeat split; try tauto; lia.
  - (* WRecv, RKick *)
    constructor; simp_st; try assumption.
    + unfold pending, wunwritten in *. simp_st. rewrite Ew in Hd. exact Hd.
    + unfold ctl, wctlA, rctlA. simp_st. repeat split; try tauto; lia.
  - (* WRecv, RSendMore *)
    constructor; simp_st; try assumption.
    + unfold pending, wunwritten in *. simp_st. rewrite Ew in Hd. exact Hd.
    + unfold ctl, wctlA, rctlA. simp_st. repeat split; try tauto; lia.
    + unfold rets_ok. simp_st. apply nonneg_app; tauto.
  - (* WFinRecv, RKick *)
    constructor; simp_st; try assumption.
    + unfold pending, wunwritten in *. simp_st. rewrite Ew in Hd. exact Hd.
    + unfold ctl, wctlA, rctlA. simp_st. repeat split; try tauto; lia.
  - (* WFinRecv, RSendMore *)
    constructor; simp_st; try assumption.
    + unfold pending, wunwritten in *. simp_st. rewrite Ew in Hd. exact Hd.
    + unfold ctl, wctlA, rctlA. simp_st. repeat split; try tauto; lia.
    + unfold rets_ok. simp_st. apply nonneg_app; tauto.
  - (* WFinSend, RRecv *)
    constructor; simp_st; try assumption.
    + unfold pending, wunwritten in *. simp_st. rewrite Ew in Hd. rewrite Ho, Hb in Hd. rewrite Ho.
      rewrite takeZ_nonpos in Hd by lia. rewrite takeZ_nonpos by lia. exact Hd.
    + unfold ctl. simp_st. right. left. repeat split; lia.
    + unfold rets_ok. simp_st. exists (r_rets s). split; [reflexivity|exact Hr].
  - (* WFinWait, RFin *)
    constructor; simp_st; try assumption.
    + unfold pending, wunwritten in *. simp_st. rewrite Ew in Hd. exact Hd.
    + unfold ctl. simp_st. rewrite Eo. right. right. repeat split; lia.
Qed.

(** One scheduling decision preserves the invariant. *)
Theorem hstep_inv who s s' : Inv s -> hstep psize who s = Some s' -> Inv s'.
Proof.
  intros HI H. unfold hstep in H. destruct who.
  - destruct (at_chan_w (wp s)); [eapply sync_inv|eapply wstep_inv]; eassumption.
  - destruct (at_chan_r (rp s)); [eapply sync_inv|eapply rstep_inv]; eassumption.
Qed.

Theorem hrun_inv : forall sched s, Inv s -> Inv (hrun psize sched s).
Proof.
  induction sched as [|who sched IH]; intros s HI; cbn [hrun]; [exact HI|].
  apply IH. destruct (hstep psize who s) eqn:E; [eapply hstep_inv; eassumption|exact HI].
Qed.

(** ** What the invariant gives *)

(** No access to the shared buffer by the side that does not own it, no slice panic in Read. *)
Theorem inv_safe s : Inv s -> hfail s = None.
Proof. intros H. exact (inv_fail s H). Qed.

(** The bytes returned by Read so far are a prefix of the bytes written. *)
Theorem inv_prefix s : Inv s -> exists rest, r_out s ++ rest = total.
Proof. intros H. eexists. exact (inv_data s H). Qed.

Lemma final_out s : Inv s -> (rp s = RFin \/ rp s = RDone) -> r_out s = total.
Proof.
  intros [Hf Hl Hd Hc Hr] Hfin. unfold ctl in Hc.
  assert (Hx : (wp s = WFinWait \/ wp s = WDone) /\ bufLevel s <= offset s).
  { destruct (owner s).
    - destruct Hc as (_ & Hrr & _). unfold rctlA in Hrr. destruct Hfin as [E|E]; rewrite E in Hrr; contradiction.
    - destruct Hc as [(_ & Hrr & _)|[(? & ? & ?)|(? & ? & ?)]]; [|tauto|tauto].
      unfold rctlB in Hrr. destruct Hfin as [E|E]; rewrite E in Hrr; contradiction. }
  destruct Hx as [Hw Hb]. unfold pending, wunwritten in Hd. rewrite takeZ_nonpos in Hd by lia.
  destruct Hw as [E|E]; rewrite E in Hd; cbn [app] in Hd; rewrite app_nil_r in Hd; exact Hd.
Qed.

(** EOF is returned only after the last byte, and then exactly once, as the last return value. *)
Theorem eof_after_last_byte s : Inv s -> In (-1) (r_rets s) ->
  r_out s = total /\ exists l, r_rets s = l ++ [-1] /\ nonneg l.
Proof.
  intros HI Hin. pose proof (inv_rets s HI) as Hr. unfold rets_ok in Hr.
  destruct (rp s) eqn:Er;
    try (exfalso; unfold nonneg in Hr; rewrite Forall_forall in Hr; specialize (Hr _ Hin); lia).
  - split; [apply final_out; auto|exact Hr].
  - split; [apply final_out; auto|exact Hr].
Qed.

Theorem terminal_complete s : Inv s -> hterminal s = true ->
  r_out s = total /\ hfail s = None /\ exists l, r_rets s = l ++ [-1] /\ nonneg l.
Proof.
  intros HI Ht. unfold hterminal in Ht. destruct (wp s) eqn:Ew; try discriminate. destruct (rp s) eqn:Er; try discriminate.
  split; [apply final_out; auto|]. split; [apply inv_safe; assumption|].
  pose proof (inv_rets s HI) as Hr. unfold rets_ok in Hr. rewrite Er in Hr. exact Hr.
Qed.

(** ** No deadlock: in every reachable state that is not terminal one of the sides can move. *)
Theorem progress s : Inv s -> hterminal s = false -> exists who s', hstep psize who s = Some s'.
Proof.
  intros [Hf Hl Hd Hc Hr] Ht. unfold ctl in Hc. destruct (owner s) eqn:Eo.
  - destruct Hc as (Hw & Hrr & Ho & Hb). unfold wctlA in Hw. unfold rctlA in Hrr.
    destruct (wp s) eqn:Ew; try contradiction.
    + exists SW. unfold hstep, wstep_internal. rewrite Ew. cbn [at_chan_w]. eauto.
    + exists SW. unfold hstep, wstep_internal. rewrite Ew. cbn [at_chan_w].
      destruct (copyInto _ _). eauto.
    + destruct (rp s) eqn:Er; try contradiction.
      * exists SR. unfold hstep, rstep_internal. rewrite Er. cbn [at_chan_r]. eauto.
      * exists SR. unfold hstep, rstep_internal. rewrite Er. cbn [at_chan_r]. eauto.
      * exists SW. unfold hstep, sync. rewrite Ew, Er. cbn [at_chan_w]. eauto.
    + destruct (rp s) eqn:Er; try contradiction.
      * exists SR. unfold hstep, rstep_internal. rewrite Er. cbn [at_chan_r]. eauto.
      * exists SR. unfold hstep, rstep_internal. rewrite Er. cbn [at_chan_r]. eauto.
      * exists SW. unfold hstep, sync. rewrite Ew, Er. cbn [at_chan_w]. eauto.
  - destruct Hc as [(Hw & Hrr & Ho & Hb)|[(Ew & Er & _)|(Ew & Er & _)]].
    + unfold wctlB in Hw. unfold rctlB in Hrr.
      destruct (rp s) eqn:Er; try contradiction.
      * (* RKick *) destruct (wp s) eqn:Ew; try contradiction.
        -- exists SW. unfold hstep, wstep_internal. rewrite Ew. cbn [at_chan_w]. destruct (w_rest s); eauto.
        -- exists SW. unfold hstep, sync. rewrite Ew, Er. cbn [at_chan_w]. eauto.
        -- exists SW. unfold hstep, wstep_internal. rewrite Ew. cbn [at_chan_w]. eauto.
        -- exists SW. unfold hstep, sync. rewrite Ew, Er. cbn [at_chan_w]. eauto.
        -- exists SW. unfold hstep, sync. rewrite Ew, Er. cbn [at_chan_w]. eauto.
      * exists SR. unfold hstep, rstep_internal. rewrite Er. cbn [at_chan_r]. eauto.
      * exists SR. unfold hstep, rstep_internal. rewrite Er. cbn [at_chan_r]. eauto.
      * exists SR. unfold hstep, rstep_internal. rewrite Er. cbn [at_chan_r]. unfold need. rewrite Eo.
        destruct ((offset s <? 0) || (bufLevel s <? offset s) || (lenZ (hbuf s) <? bufLevel s)); eauto.
      * exists SR. unfold hstep, rstep_internal. rewrite Er. cbn [at_chan_r]. destruct (offset s =? bufLevel s); eauto.
      * (* RSendMore *) destruct (wp s) eqn:Ew; try contradiction.
        -- exists SW. unfold hstep, wstep_internal. rewrite Ew. cbn [at_chan_w]. destruct (w_rest s); eauto.
        -- exists SW. unfold hstep, sync. rewrite Ew, Er. cbn [at_chan_w]. eauto.
        -- exists SW. unfold hstep, wstep_internal. rewrite Ew. cbn [at_chan_w]. eauto.
        -- exists SW. unfold hstep, sync. rewrite Ew, Er. cbn [at_chan_w]. eauto.
        -- exists SW. unfold hstep, sync. rewrite Ew, Er. cbn [at_chan_w]. eauto.
    + exists SW. unfold hstep, sync. rewrite Ew, Er. cbn [at_chan_w]. eauto.
    + unfold hterminal in Ht. rewrite Ew, Er in Ht. discriminate.
Qed.

(** ** Termination: a measure that every step decreases *)

Definition restlen (s : hstate) : Z := lenZ (concat (w_rest s)).
Definition restcnt (s : hstate) : Z := lenZ (w_rest s).

Definition muW (s : hstate) : Z :=
  match wp s with
  | WIdle => 20 * restlen s + 20 * restcnt s + 8
  | WRecv0 => 20 * (lenZ (w_cur s) - w_nw s + restlen s) + 20 * (1 + restcnt s) + 7
  | WCheck => 20 * (lenZ (w_cur s) - w_nw s + restlen s) + 20 * (1 + restcnt s) + 6
  | WRecv => 20 * (lenZ (w_cur s) - w_nw s + restlen s) + 20 * (1 + restcnt s) + 5
  | WCopy => 20 * (lenZ (w_cur s) - w_nw s + restlen s) + 20 * (1 + restcnt s) + 4
  | WSend => 20 * (lenZ (w_cur s) - w_nw s + restlen s) + 20 * (1 + restcnt s) + 3
  | WAfter => 20 * (lenZ (w_cur s) - w_nw s - w_n s + restlen s) +
              20 * (restcnt s + (if w_nw s + w_n s =? lenZ (w_cur s) then 0 else 1)) + 9
  | WFinRecv => 3
  | WFinSend => 2
  | WFinWait => 1
  | WDone => 0
  end.

Definition pcount (s : hstate) : Z := Z.max 0 (bufLevel s - offset s).

Definition muR (s : hstate) : Z :=
  match rp s with
  | RKick => 8
  | RCopy => if pcount s =? 0 then 7 else 10 * pcount s + 1
  | REq => 10 * pcount s + 6
  | RSendMore => 5
  | RIdle => 10 * pcount s + 4
  | RTest => 10 * pcount s + 3
  | RRecv => 2
  | RFin => 1
  | RDone => 0
  end.

Definition mu (s : hstate) : Z := muW s + muR s.

Lemma concat_cons_len (b : list Z) rest : lenZ (concat (b :: rest)) = lenZ b + lenZ (concat rest).
Proof. cbn [concat]. apply lenZ_app. Qed.

Ltac mu_simpl := unfold mu, muW, muR, pcount, restlen, restcnt in *; simp_st.

Lemma muR_nonneg s : 0 <= muR s.
Proof. unfold muR, pcount. destruct (rp s); try lia. destruct (_ =? 0); lia. Qed.

Lemma muW_nonneg s : Inv s -> 0 <= muW s.
Proof.
  intros [Hf Hl Hd Hc Hr]. unfold muW, restlen, restcnt.
  pose proof (lenZ_nonneg (w_cur s)) as Hlc. pose proof (lenZ_nonneg (w_rest s)) as Hlr.
  pose proof (lenZ_nonneg (concat (w_rest s))) as Hlcc.
  destruct (wp s) eqn:Ew; try lia; ctl_w Hc Ew; try lia.
  destruct (w_nw s + w_n s =? lenZ (w_cur s)); lia.
Qed.

(** The reader part of the measure does not look at what a writer step changes. *)
Ltac same_muR s :=
  unfold mu; match goal with |- context [muR ?x] => change (muR x) with (muR s) end;
  pose proof (muR_nonneg s).
Ltac same_muW s :=
  unfold mu; match goal with |- context [muW ?x] => change (muW x) with (muW s) end.

Lemma wstep_mu s s' : Inv s -> wstep_internal s = Some s' -> 0 <= mu s' < mu s.
Proof.
  intros [Hf Hl Hd Hc Hr] H. unfold wstep_internal in H.
  pose proof (lenZ_nonneg (w_cur s)) as Hlc. pose proof (lenZ_nonneg (w_rest s)) as Hlr.
  pose proof (lenZ_nonneg (concat (w_rest s))) as Hlcc.
  destruct (wp s) eqn:Ew; try discriminate.
  - ctl_w Hc Ew. destruct (w_rest s) as [|b rest] eqn:Erest; inversion H; subst; clear H.
    + same_muR s. unfold muW, restlen, restcnt. simp_st. rewrite Ew, Erest. cbn [concat lenZ length Z.of_nat]. lia.
    + pose proof (lenZ_nonneg b). pose proof (lenZ_nonneg rest). pose proof (lenZ_nonneg (concat rest)).
      same_muR s. unfold muW, restlen, restcnt. simp_st. rewrite Ew, Erest. rewrite concat_cons_len, lenZ_cons. lia.
  - ctl_w Hc Ew. inversion H; subst; clear H. same_muR s. unfold muW, restlen, restcnt. simp_st. rewrite Ew. lia.
  - ctl_w Hc Ew. unfold need in H. try rewrite Eo in H.
    destruct (copyInto (hbuf s) (dropZ (w_nw s) (w_cur s))) as [nb n].
    inversion H; subst; clear H. same_muR s. unfold muW, restlen, restcnt. simp_st. rewrite Ew. lia.
  - ctl_w Hc Ew. inversion H; subst; clear H. destruct Hw as (Hw1 & Hw2 & Hw3).
    same_muR s. unfold muW, restlen, restcnt. simp_st. rewrite Ew.
    destruct (w_nw s + w_n s =? lenZ (w_cur s)) eqn:Eq; simp_st; lia.
Qed.

Lemma rstep_mu s s' : Inv s -> rstep_internal psize s = Some s' -> 0 <= mu s' < mu s.
Proof.
  intros HI H. pose proof (muW_nonneg s HI) as HW. destruct HI as [Hf Hl Hd Hc Hr].
  unfold rstep_internal in H.
  destruct (rp s) eqn:Er; try discriminate.
  - inversion H; subst; clear H. same_muW s. unfold muR, pcount. simp_st. rewrite Er. lia.
  - inversion H; subst; clear H. same_muW s. unfold muR, pcount. simp_st. rewrite Er.
    ctl_r Hc Er.
    + destruct (offset s >=? bufLevel s) eqn:E; [|lia]. lia.
    + destruct (offset s >=? bufLevel s) eqn:E; [lia|].
      destruct (Z.max 0 (bufLevel s - offset s) =? 0) eqn:E2; lia.
  - ctl_r Hc Er. unfold need in H. rewrite Eo in H. cbv zeta in H.
    destruct ((offset s <? 0) || (bufLevel s <? offset s) || (lenZ (hbuf s) <? bufLevel s)) eqn:Eb; [lia|].
    inversion H; subst; clear H.
    set (avail := takeZ (bufLevel s - offset s) (dropZ (offset s) (hbuf s))) in *.
    assert (Hla : lenZ avail = bufLevel s - offset s).
    { unfold avail. rewrite lenZ_takeZ, lenZ_dropZ by lia. lia. }
    pose proof (psize_pos (r_k s)) as Hp.
    same_muW s. unfold muR, pcount. simp_st. rewrite Er. rewrite Hla.
    destruct (Z.max 0 (bufLevel s - offset s) =? 0) eqn:E2; lia.
  - ctl_r Hc Er. destruct (offset s =? bufLevel s) eqn:E.
    + unfold need in H. rewrite Eo in H. cbv zeta in H. inversion H; subst; clear H.
      same_muW s. unfold muR, pcount. simp_st. rewrite Er. lia.
    + inversion H; subst; clear H. same_muW s. unfold muR, pcount. simp_st. rewrite Er. lia.
Qed.

Lemma sync_mu s s' : Inv s -> sync s = Some s' -> 0 <= mu s' < mu s.
Proof.
  intros [Hf Hl Hd Hc Hr] H. unfold sync in H.
  pose proof (lenZ_nonneg (w_cur s)) as Hlc. pose proof (lenZ_nonneg (w_rest s)) as Hlr.
  pose proof (lenZ_nonneg (concat (w_rest s))) as Hlcc.
  destruct (wp s) eqn:Ew; destruct (rp s) eqn:Er; try discriminate; inversion H; subst; clear H;
    ctl_wr Hc Ew Er; unfold mu, muW, muR, pcount, restlen, restcnt; simp_st; rewrite ?Ew, ?Er; try lia.
  - (* WSend, RRecv *)
    destruct Hw as (Hw1 & Hw2 & Hw3).
    destruct (w_nw s + w_n s =? lenZ (w_cur s)) eqn:E1; destruct (Z.max 0 (w_n s - offset s) =? 0) eqn:E2; lia.
Qed.

(** Every step that is taken decreases the measure; the measure is never negative. *)
Theorem hstep_mu who s s' : Inv s -> hstep psize who s = Some s' -> 0 <= mu s' < mu s.
Proof.
  intros HI H. unfold hstep in H. destruct who.
  - destruct (at_chan_w (wp s)); [eapply sync_mu|eapply wstep_mu]; eassumption.
  - destruct (at_chan_r (rp s)); [eapply sync_mu|eapply rstep_mu]; eassumption.
Qed.

(** Number of scheduling decisions of [sched] in which the chosen side actually moved. *)
Fixpoint moves (sched : list side) (s : hstate) : Z :=
  match sched with
  | [] => 0
  | who :: rest =>
    match hstep psize who s with
    | Some s' => 1 + moves rest s'
    | None => moves rest s
    end
  end.

Lemma moves_nonneg : forall sched s, 0 <= moves sched s.
Proof.
  induction sched as [|who sched IH]; intros s; cbn [moves]; [lia|].
  destruct (hstep psize who s); [specialize (IH h)|specialize (IH s)]; lia.
Qed.

(** No schedule, however long, makes more than [mu s] moves: neither side can go on for ever. *)
Theorem moves_bounded : forall sched s, Inv s -> moves sched s <= mu s.
Proof.
  induction sched as [|who sched IH]; intros s HI; cbn [moves].
  - pose proof (muW_nonneg s HI). pose proof (muR_nonneg s). unfold mu. lia.
  - destruct (hstep psize who s) as [s'|] eqn:E.
    + pose proof (hstep_mu who s s' HI E). specialize (IH s' (hstep_inv who s s' HI E)). lia.
    + apply IH. exact HI.
Qed.

(** A scheduler that always picks a side that can move reaches the terminal state. *)
Theorem greedy_terminates : forall fuel s, Inv s -> mu s <= Z.of_nat fuel ->
  hterminal (hrun_greedy psize fuel s) = true.
Proof.
  induction fuel as [|fuel IH]; intros s HI Hm.
  - cbn [hrun_greedy]. destruct (hterminal s) eqn:Et; [reflexivity|].
    destruct (progress s HI Et) as (who & s' & Hs). pose proof (hstep_mu who s s' HI Hs). lia.
  - cbn [hrun_greedy]. destruct (hstep psize SW s) as [s1|] eqn:E1.
    + apply IH; [eapply hstep_inv; eassumption|]. pose proof (hstep_mu SW s s1 HI E1). lia.
    + destruct (hstep psize SR s) as [s2|] eqn:E2.
      * apply IH; [eapply hstep_inv; eassumption|]. pose proof (hstep_mu SR s s2 HI E2). lia.
      * destruct (hterminal s) eqn:Et; [reflexivity|].
        destruct (progress s HI Et) as (who & s' & Hs). destruct who; congruence.
Qed.

End Handover.

(** * Summary, for every capacity, every split of the data, every read-size sequence and every schedule *)

Lemma mu_init C writes : mu (hinit C writes) = 20 * lenZ (concat writes) + 20 * lenZ writes + 16.
Proof. unfold mu, muW, muR, restlen, restcnt, hinit. cbn [wp rp w_rest]. lia. Qed.

Theorem handover_correct C psize writes sched :
  0 < C -> (forall k, 0 < psize k) ->
  let s := hrun psize sched (hinit C writes) in
  (* ownership respected, no slice panic *)
  hfail s = None /\
  (* what Read returned so far is a prefix of what was written *)
  (exists rest, r_out s ++ rest = concat writes) /\
  (* EOF only after the last byte, once, as the last return value; no negative count otherwise *)
  (In (-1) (r_rets s) -> r_out s = concat writes /\ exists l, r_rets s = l ++ [-1] /\ Forall (fun x => 0 <= x) l) /\
  (* no deadlock: unless both sides are done, one of them can move *)
  (hterminal s = false -> exists who s', hstep psize who s = Some s') /\
  (* when both are done everything has arrived *)
  (hterminal s = true -> r_out s = concat writes) /\
  (* no infinite execution: at most this many moves in any schedule *)
  moves psize sched (hinit C writes) <= 20 * lenZ (concat writes) + 20 * lenZ writes + 16.
Proof.
  intros HC Hp s.
  assert (HI0 : Inv C writes (hinit C writes)) by (apply Inv_init; assumption).
  assert (HI : Inv C writes s) by (eapply hrun_inv; eauto).
  split; [eapply inv_safe; eauto|].
  split; [eapply inv_prefix; eauto|].
  split; [intros Hin; eapply eof_after_last_byte; eauto|].
  split; [intros Ht; eapply progress; eauto|].
  split; [intros Ht; eapply terminal_complete; eauto|].
  rewrite <- (mu_init C). eapply moves_bounded; eauto.
Qed.

(** The run of a scheduler that always moves somebody ends with both sides done. *)
Theorem handover_terminates C psize writes fuel :
  0 < C -> (forall k, 0 < psize k) ->
  20 * lenZ (concat writes) + 20 * lenZ writes + 16 <= Z.of_nat fuel ->
  let s := hrun_greedy psize fuel (hinit C writes) in
  hterminal s = true.
Proof.
  intros HC Hp Hf. eapply greedy_terminates; eauto.
  - apply Inv_init. assumption.
  - rewrite mu_init. exact Hf.
Qed.
