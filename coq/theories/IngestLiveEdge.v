(** The first number of an ingest session is the live edge + 1 (C16, with the window theorems of C02). *)
From Verif Require Import GoSem GoSemFacts Timeline TimelineProofs Window WindowProofs Ingest.
From Coq Require Import ZifyBool.

Lemma fold_count_shift (es : list sentry) a :
  fold_left (fun a e => a + (e_r e + 1)) es a = a + entryCount es.
Proof.
  unfold entryCount. revert a. induction es as [|e es IH]; intros a; cbn [fold_left]; [lia|].
  rewrite IH. rewrite (IH (0 + (e_r e + 1))). lia.
Qed.

Lemma entryCount_cons e es : entryCount (e :: es) = e_r e + 1 + entryCount es.
Proof. unfold entryCount at 1. cbn [fold_left]. rewrite fold_count_shift. lia. Qed.

Lemma entryCount_app a b : entryCount (a ++ b) = entryCount a + entryCount b.
Proof. induction a as [|e a IH]; cbn [app]; [reflexivity|]. rewrite !entryCount_cons, IH. lia. Qed.

Lemma entryCount_rev l : entryCount (rev l) = entryCount l.
Proof.
  induction l as [|e l IH]; [reflexivity|]. cbn [rev]. rewrite entryCount_app, IH, !entryCount_cons.
  change (entryCount []) with 0. lia.
Qed.

(** The run-length loop makes entries for exactly k more segments and ends at number nr+k-1. *)
Lemma tlLoop_count r k : forall nr d t cur acc a b c,
  let '(es, (_, _, ln)) := tlLoop r k nr d t cur acc a b c in
  entryCount es = Z.of_nat k + (e_r cur + 1) + entryCount acc /\
  ln = (if Nat.eqb k 0 then c else nr + Z.of_nat k - 1).
Proof.
  induction k as [|k IH]; intros nr d t cur acc a b c; cbn [tlLoop].
  - rewrite entryCount_rev, entryCount_cons. cbn [Nat.eqb]. split; [lia|reflexivity].
  - destruct (sdur (segAt r (nr mod nsegs r)) =? d).
    + specialize (IH (nr + 1) d t {| e_t := e_t cur; e_d := e_d cur; e_r := e_r cur + 1 |} acc (a + d) b nr).
      destruct (tlLoop r k (nr + 1) d t _ acc (a + d) b nr) as [es [[ls ld] ln]].
      destruct IH as [IH1 IH2]. cbn [e_r] in IH1. cbn [Nat.eqb]. split; [lia|].
      rewrite IH2. destruct (Nat.eqb k 0) eqn:E; [apply Nat.eqb_eq in E; subst; lia|lia].
    + specialize (IH (nr + 1) (sdur (segAt r (nr mod nsegs r))) t
                     {| e_t := a + d; e_d := sdur (segAt r (nr mod nsegs r)); e_r := 0 |} (cur :: acc)
                     (a + d) (sdur (segAt r (nr mod nsegs r))) nr).
      destruct (tlLoop r k (nr + 1) _ t _ (cur :: acc) (a + d) _ nr) as [es [[ls ld] ln]].
      destruct IH as [IH1 IH2]. cbn [e_r] in IH1. rewrite entryCount_cons in IH1. cbn [Nat.eqb]. split; [lia|].
      rewrite IH2. destruct (Nat.eqb k 0) eqn:E; [apply Nat.eqb_eq in E; subst; lia|lia].
Qed.

(** segEntries.lastNr() is the number of the last listed segment whenever something is listed. *)
Lemma lastNr_is_lsi r wt atoMS :
  let se := generateTimelineEntries r wt atoMS in
  0 <= se_startNr se -> se_startNr se <= se_lsi_nr se -> lastNrOf se = se_lsi_nr se.
Proof.
  cbv zeta. unfold generateTimelineEntries, lastNrOf.
  destruct (edgeIdx r (startWraps wt) (startRelMS wt) atoMS) as [sw0 si0].
  destruct (if sw0 <? 0 then (0, 0) else (sw0, si0)) as [sw si].
  destruct (edgeIdx r (nowWraps wt) (nowRelMS wt) atoMS) as [nw ni].
  destruct (nw <? 0); [cbn [se_startNr]; lia|].
  set (startNr := sw * nsegs r + si). set (nowNr := nw * nsegs r + ni).
  pose proof (tlLoop_count r (Z.to_nat (nowNr - startNr)) (startNr + 1) (sdur (segAt r si))
                (repDuration r * sw + st (segAt r si))
                {| e_t := repDuration r * sw + st (segAt r si); e_d := sdur (segAt r si); e_r := 0 |} []
                (repDuration r * sw + st (segAt r si)) (sdur (segAt r si)) startNr) as H.
  destruct (tlLoop r (Z.to_nat (nowNr - startNr)) (startNr + 1) _ _ _ [] _ _ startNr) as [es [[ls ld] ln]].
  destruct H as [H1 H2]. cbn [se_startNr se_entries se_lsi_nr e_r] in *. change (entryCount []) with 0 in H1.
  intros Hs Hl. rewrite H1.
  destruct (Nat.eqb (Z.to_nat (nowNr - startNr)) 0) eqn:E.
  - apply Nat.eqb_eq in E. subst ln. lia.
  - apply Nat.eqb_neq in E. subst ln. lia.
Qed.

(** The first number of a session: right after the newest segment of the reference representation
    that has ended at the start instant. *)
Theorem first_number_is_live_edge cf now n :
  wf (sc_ref cf) (sc_loopMS cf) -> startS (sc_cfg cf) * 1000 <= now -> 0 <= n ->
  E (sc_ref cf) n * 1000 <= (now - startS (sc_cfg cf) * 1000) * ts (sc_ref cf) < E (sc_ref cf) (n + 1) * 1000 ->
  findLastSegNr cf now = n.
Proof.
  intros W Hnow Hn Hedge. unfold findLastSegNr.
  pose proof (timeline_is_window (sc_ref cf) (sc_loopMS cf) W (sc_cfg cf) now 60000 0 Hnow ltac:(lia) ltac:(lia)) as Htw.
  cbv zeta in Htw. destruct Htw as [_ Hpos].
  assert (Hlast : window_last (sc_ref cf) (sc_cfg cf) 0 now = n).
  { apply (edge_eq (sc_ref cf) (sc_loopMS cf) W (sc_cfg cf) 0 now n Hn). rewrite Z.add_0_r. exact Hedge. }
  rewrite Hlast in Hpos. specialize (Hpos Hn). destruct Hpos as (Hfl & Hst & _ & Hlsi & _).
  rewrite lastNr_is_lsi.
  - exact Hlsi.
  - rewrite Hst. unfold window_first. lia.
  - rewrite Hst, Hlsi. exact Hfl.
Qed.
