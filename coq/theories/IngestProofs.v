(** Proofs about the model of the CMAF-ingest sender (theories/Ingest.v). *)
From Verif Require Import GoSem GoSemFacts Timeline TimelineProofs Ingest.
From Coq Require Import ZifyBool Floats.
Ltac Zify.zify_post_hook ::= Z.div_mod_to_equations.

(** * The truncation defect of calcSegmentAvailabilityTime *)

(** One 2.002 s segment at timescale 30000 (29.97 fps content). *)
Definition rep2002 : rep := {| segs := [ {| st := 0; en := 60060; snr := 0 |} ]; ts := 30000 |}.
Definition cfg0 : tcfg := {| startS := 0; startNr := 0; tsbdS := 60; ato := Some 0 |}.

Lemma avail_truncation_witness :
  availMS_float rep2002 2002 cfg0 0 = Ok 2001 /\
  availMS_exact rep2002 2002 cfg0 0 = Ok 2002 /\
  lookup rep2002 2002 cfg0 ByNumber 0 2001 = TTooEarly 1.
Proof. vm_compute. repeat split; reflexivity. Qed.
